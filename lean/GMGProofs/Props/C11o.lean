import GMGProofs.Lemmas.OwnerLemmas
import Generated.OwnerSep
/-!
# C11 (second part) — the owner-computes parallel regions are race free, for every shape

`Owner.Gen.all` is regenerated from the C++ by `tools/omp_owner.py` on every check: all `#pragma omp parallel …` regions
that are not kernel-dispatch regions (transfers, injection, FMG interpolation, level caches, right-hand side, exact error,
extrapolated residual, vector kernels, reductions, container loops).  The translator admits a loop only in owner-computes form
(every store and every other use of a stored array has the iteration's own index); the generated file carries, for each
region, the lemma `<region>_sep` (two loops that are not separated by a barrier touch disjoint rectangles of cells,
proved by `omega` on the generated bounds).  Here: separation ⇒ race freedom, for every region and every shape.
-/
namespace C11o
open Owner
open Sched (Shape)

/-- two distinct iterations of one owner-computes loop never touch a common cell -/
theorem same_loop_disjoint (l : OLoop) (s : Shape) (t t' : Int) (h : t ≠ t') (a : String) (r c : Int) :
    ¬ (l.touches s t a r c ∧ l.touches s t' a r c) := Owner.same_loop_disjoint l s t t' h a r c

/-- separated loops never touch a common cell -/
theorem sep_disjoint (l l' : OLoop) (s : Shape) (hs : LoopsSep s l l') (t t' : Int) (ht : l.iter s t) (ht' : l'.iter s t')
    (a : String) (r c : Int) : ¬ (l.touches s t a r c ∧ l'.touches s t' a r c) := Owner.sep_disjoint l l' s hs t t' ht ht' a r c

/-- separation of every pair of loops of one barrier interval ⇒ race freedom -/
theorem raceFree_of_separated (s : Shape) (reg : ORegion) (h : Separated s reg) : RaceFree s reg :=
  Owner.raceFree_of_separated s reg h

/-- **every generated owner-computes region is race free, for every grid shape** (no admissibility hypothesis is needed:
    the circle rows `[0, nc)` and the radial rows `[nc, nr)` are disjoint for any `nc`) -/
theorem owner_regions_race_free : ∀ reg ∈ Gen.all, ∀ s : Shape, RaceFree s reg :=
  fun reg h s => Owner.raceFree_of_separated s reg (Gen.all_sep reg h s)

/-! ## non-vacuity and sensitivity -/

/-- the two `nowait` loops of the optimised prolongation really are concurrent, both have iterations, and they touch cells -/
example : pairs Gen.rsrc_Interpolation_prolongation_cpp_1 = [(0, 1)] ∧
    (Gen.rsrc_Interpolation_prolongation_cpp_1.loops.getD 0 default).touches ⟨9, 8, 4⟩ 3 "result" 3 5 ∧
    (Gen.rsrc_Interpolation_prolongation_cpp_1.loops.getD 1 default).touches ⟨9, 8, 4⟩ 5 "result" 6 5 := by
  refine ⟨by rfl, ?_, ?_⟩ <;> simp [Gen.rsrc_Interpolation_prolongation_cpp_1, OLoop.touches]

/-- the model can express a race: had the circle loop run one row too far (`i_r ≤ nc`), it would collide with the radial loop -/
def badProlongation : ORegion := { name := "bad", loops := [
  { kind := .rowOuter, lo := fun _ => 0, hi := fun s => s.nc + 1, ilo := fun _ => 0, ihi := fun s => s.nt, step := 1, nowait := true, arrays := ["result"] },
  { kind := .colOuter, lo := fun _ => 0, hi := fun s => s.nt, ilo := fun s => s.nc, ihi := fun s => s.nr, step := 1, nowait := true, arrays := ["result"] }] }

theorem one_row_too_far_races : ¬ RaceFree ⟨9, 8, 4⟩ badProlongation := by
  intro h
  have hp : ((0, 1) : Nat × Nat) ∈ pairs badProlongation := by
    have : pairs badProlongation = [(0, 1)] := by rfl
    rw [this]; simp
  have := h.2 (0, 1) hp 4 0 (by simp [badProlongation, OLoop.iter]) (by simp [badProlongation, OLoop.iter]) "result" 4 0
  apply this
  constructor <;> simp [badProlongation, OLoop.touches]

/-- … and the barrier matters: with a barrier between the loops (`nowait := false`) there is no concurrent pair -/
theorem barrier_removes_pair : pairsFrom 0 [false, true] = [] ∧ pairsFrom 0 [true, true] = [(0, 1)] ∧
    pairsFrom 0 [true, true, false, true] = [(0, 1), (0, 2), (1, 2)] := by
  refine ⟨by rfl, by rfl, by rfl⟩

end C11o
