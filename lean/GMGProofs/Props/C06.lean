import GMGProofs.Lemmas.SmootherLemmas
import GMGProofs.Lemmas.DirectLemmas
import GMGProofs.Lemmas.SmootherEnergy
import GMGProofs.Props.C03
import GMGProofs.Props.C05
import Mathlib.Algebra.Order.Field.Basic
import Mathlib.Algebra.Order.Field.Rat
import Mathlib.Tactic.Linarith
import Mathlib.Tactic.Positivity
/-!
# C06 — smoothing is an exact zebra line relaxation of the same operator

Property theorems only.  Model: `GMGModel/Smoother.lean` (`phase`, `mix`, `defect`), operator
`Stencil.take` of `GMGModel/Stencil.lean`.  `IsSweep o nc f x y` says that every sweep equation holds
(`defect … = 0` at every grid node), `sameLine nc i j a b` that `(a, b)` lies on the smoother line of
`(i, j)`, `LineInj` that every line block is injective — all defined in
`GMGProofs/Lemmas/SmootherLemmas.lean`.  `K` is an arbitrary field (ordered only for `energy`).
-/
namespace C06
open Stencil Smoother

section AnyField
variable {K : Type} [_root_.Field K]

/-- the mixed iterate of a field with itself is the field -/
theorem mix_self (nc p : Nat) (u : Stencil.Field K) : mix nc p u u = u := Smoother.mix_self nc p u

/-- after the last phase the mixed iterate is the new iterate (all phases are `≤ 4`) -/
theorem mix_last (nc : Nat) (x y : Stencil.Field K) : mix nc 4 x y = y := Smoother.mix_four nc x y

/-- every node belongs to exactly one of the four phases -/
theorem phase_range (nc i j : Nat) : 1 ≤ phase nc i j ∧ phase nc i j ≤ 4 :=
  ⟨one_le_phase nc i j, phase_le_four nc i j⟩

/-- **1** a sweep leaves the exact discrete solution unchanged -/
theorem fixed_point (o : Op K) (nc : Nat) (f u : Stencil.Field K)
    (hu : ∀ i j, i < o.nr → j < o.nt → take o f u i j = 0) : IsSweep o nc f u u := by
  intro i j hi hj
  unfold defect
  rw [Smoother.mix_self]
  exact hu i j hi hj

/-- converse: a fixed point of the sweep solves the discrete system -/
theorem fixed_point_iff (o : Op K) (nc : Nat) (f u : Stencil.Field K) :
    IsSweep o nc f u u ↔ ∀ i j, i < o.nr → j < o.nt → take o f u i j = 0 := by
  constructor
  · intro h i j hi hj
    have := h i j hi hj
    unfold defect at this
    rwa [Smoother.mix_self] at this
  · exact fixed_point o nc f u

/-- **2** (general form) a node of phase `p` satisfies its row equation for the iterate after phase `p` -/
theorem phase_colour (o : Op K) (nc : Nat) (f x y : Stencil.Field K) (h : IsSweep o nc f x y)
    (p i j : Nat) (hi : i < o.nr) (hj : j < o.nt) (hp : phase nc i j = p) :
    take o f (mix nc p x y) i j = 0 := by
  have := h i j hi hj
  unfold defect at this
  rwa [hp] at this

/-- **2** on the white radial lines (the last colour) the residual of the NEW iterate vanishes -/
theorem last_colour (o : Op K) (nc : Nat) (f x y : Stencil.Field K) (h : IsSweep o nc f x y)
    (i j : Nat) (hi : i < o.nr) (hj : j < o.nt) (hrad : nc ≤ i) (hodd : j % 2 = 1) :
    take o f y i j = 0 := by
  have := phase_colour o nc f x y h 4 i j hi hj (phase_white_radial hrad hodd)
  rwa [Smoother.mix_four] at this

/-- **3** the sweep sets the Dirichlet values: outer boundary -/
theorem dirichlet_set_outer (o : Op K) (nc : Nat) (hnr : 2 ≤ o.nr) (f x y : Stencil.Field K)
    (h : IsSweep o nc f x y) (j : Nat) (hj : j < o.nt) : y (o.nr - 1) j = f (o.nr - 1) j := by
  have := h (o.nr - 1) j (by omega) hj
  unfold defect at this
  rw [C03.dirichlet_rows_outer o hnr, mix_of_le (le_refl _)] at this
  exact (sub_eq_zero.mp this).symm

/-- **3** the sweep sets the Dirichlet values: inner boundary when `DirBC_Interior` -/
theorem dirichlet_set_inner (o : Op K) (nc : Nat) (hnr : 1 ≤ o.nr) (hbc : o.bc = true)
    (f x y : Stencil.Field K) (h : IsSweep o nc f x y) (j : Nat) (hj : j < o.nt) : y 0 j = f 0 j := by
  have := h 0 j (by omega) hj
  unfold defect at this
  rw [C03.dirichlet_rows_inner o hbc, mix_of_le (le_refl _)] at this
  exact (sub_eq_zero.mp this).symm

/-- **3** both Dirichlet boundaries at once -/
theorem dirichlet_set (o : Op K) (nc : Nat) (hnr : 2 ≤ o.nr) (f x y : Stencil.Field K)
    (h : IsSweep o nc f x y) (i j : Nat) (hj : j < o.nt)
    (hD : i = o.nr - 1 ∨ (i = 0 ∧ o.bc = true)) : y i j = f i j := by
  rcases hD with rfl | ⟨rfl, hbc⟩
  · exact dirichlet_set_outer o nc hnr f x y h j hj
  · exact dirichlet_set_inner o nc (by omega) hbc f x y h j hj

/-- the row equation of a grid node reads only grid nodes of its 3×3 box (and the antipode on circle 0
    across the origin) -/
theorem row_local (o : Op K) (f w w' : Stencil.Field K) (i j : Nat) (hnr : 2 ≤ o.nr) (hnt : 0 < o.nt)
    (hi : i < o.nr) (hj : j < o.nt)
    (h : ∀ a b, a < o.nr → b < o.nt → (a = i ∨ a + 1 = i ∨ a = i + 1) →
      (b = j ∨ b = jm o j ∨ b = jp o j ∨ (o.bc = false ∧ i = 0 ∧ a = 0 ∧ b = ja o j)) → w a b = w' a b) :
    take o f w i j = take o f w' i j := take_congr o f w w' i j hnr hnt hi hj h

/-- every stencil neighbour of a node is on the node's own line or in a different phase
    (`nt` even; at least one smoother circle unless the inner boundary is Dirichlet) -/
theorem neighbours_other_colour (o : Op K) (nc : Nat) (hnc : 1 ≤ nc ∨ o.bc = true) (heven : o.nt % 2 = 0)
    (i j a b : Nat) (hj : j < o.nt)
    (ha : a = i ∨ a + 1 = i ∨ a = i + 1)
    (hb : b = j ∨ b = jm o j ∨ b = jp o j ∨ (o.bc = false ∧ i = 0 ∧ a = 0 ∧ b = ja o j)) :
    phase nc a b ≠ phase nc i j ∨ sameLine nc i j a b := nbr_class o nc hnc heven i j a b hj ha hb

/-- **4** the row equation of a node of phase `p` does not read any value on a DIFFERENT line of the same
    phase: Jacobi = Gauss–Seidel inside one phase -/
theorem same_colour_decoupled (o : Op K) (nc : Nat) (hnc : 1 ≤ nc ∨ o.bc = true) (hnr : 2 ≤ o.nr)
    (hnt : 2 ≤ o.nt) (heven : o.nt % 2 = 0) (f w w' : Stencil.Field K) (i j : Nat)
    (hi : i < o.nr) (hj : j < o.nt)
    (h : ∀ a b, a < o.nr → b < o.nt → (phase nc a b ≠ phase nc i j ∨ sameLine nc i j a b) → w a b = w' a b) :
    take o f w i j = take o f w' i j := decoupled o nc hnc hnr hnt heven f w w' i j hi hj h

/-- **4** the form of the task statement (`2 ≤ nc`, `4 ≤ nt`): lines spelled out -/
theorem same_colour_decoupled' (o : Op K) (nc : Nat) (hnc : 2 ≤ nc) (hnr : nc + 3 ≤ o.nr)
    (hnt : 4 ≤ o.nt) (heven : o.nt % 2 = 0) (f w w' : Stencil.Field K) (i j : Nat)
    (hi : i < o.nr) (hj : j < o.nt)
    (hother : ∀ a b, a < o.nr → b < o.nt → phase nc a b ≠ phase nc i j → w a b = w' a b)
    (hcircle : i < nc → ∀ b, b < o.nt → w i b = w' i b)
    (hradial : nc ≤ i → ∀ a, nc ≤ a → a < o.nr → w a j = w' a j) :
    take o f w i j = take o f w' i j := by
  apply decoupled o nc (Or.inl (by omega)) (by omega) (by omega) heven f w w' i j hi hj
  intro a b ha hb hab
  rcases hab with hne | hs
  · exact hother a b ha hb hne
  · unfold sameLine at hs
    split at hs
    · rename_i hc; subst hs; exact hcircle hc b hb
    · obtain ⟨h1, rfl⟩ := hs
      exact hradial (by omega) a h1 ha

/-- **5** if every line block is injective the sweep equations determine the new iterate on the grid -/
theorem sweep_unique (o : Op K) (nc : Nat) (hnc : 1 ≤ nc ∨ o.bc = true) (hnr : 2 ≤ o.nr)
    (hnt : 2 ≤ o.nt) (heven : o.nt % 2 = 0) (f x y y' : Stencil.Field K) (hL : LineInj o nc f)
    (hy : IsSweep o nc f x y) (hy' : IsSweep o nc f x y') :
    ∀ i j, i < o.nr → j < o.nt → y i j = y' i j :=
  sweep_unique_of_lineInj o nc hnc hnr hnt heven f x y y' hL hy hy'

end AnyField

section Ordered
variable {K : Type} [_root_.Field K] [LinearOrder K] [IsStrictOrderedRing K]

/-- **6** (abstract energy lemma) for a symmetric positive semi-definite form `a`, additive in the first
    argument: if the new error `e - w` is `a`-orthogonal to a set `S` containing the correction `w`, then
    `a(e-w, e-w) = a(e, e) - a(w, w) ≤ a(e, e)` — one line relaxation does not increase the energy of the
    error -/
theorem energy {V : Type} [AddCommGroup V] (a : V → V → K)
    (hsub : ∀ u v w, a (u - v) w = a u w - a v w)
    (hsymm : ∀ u v, a u v = a v u)
    (hpsd : ∀ v, 0 ≤ a v v)
    (S : V → Prop) (e w : V) (hw : S w) (horth : ∀ v, S v → a (e - w) v = 0) :
    a (e - w) (e - w) = a e e - a w w ∧ a (e - w) (e - w) ≤ a e e := by
  have h1 : a (e - w) w = 0 := horth w hw
  have h2 : a e w = a w w := by
    have := hsub e w w; rw [h1] at this; linarith
  have h3 : a (e - w) (e - w) = a e e - a w w := by
    have e1 : a (e - w) (e - w) = a e (e - w) - a w (e - w) := hsub e w (e - w)
    have e2 : a e (e - w) = a e e - a w e := by rw [hsymm e (e - w), hsub]
    have e3 : a w (e - w) = 0 := by rw [hsymm]; exact h1
    rw [e1, e2, e3, hsymm w e, h2]; ring
  exact ⟨h3, by rw [h3]; linarith [hpsd w]⟩

/-- **5** the injectivity hypothesis is a theorem for Dirichlet inner boundary and elliptic data: every
    line block is a principal block of a positive definite operator -/
theorem line_blocks_injective (o : Op K) (hnr : 4 ≤ o.nr) (hnt : 2 ≤ o.nt) (heven : o.nt % 2 = 0)
    (hbc : o.bc = true) (he : Elliptic o) (nc : Nat) (f : Stencil.Field K) : LineInj o nc f :=
  Direct.lineInj_dirichlet o hnr hnt heven hbc he nc f

/-- **5** hence, unconditionally in that mode, the sweep equations have at most one solution -/
theorem sweep_unique_dirichlet (o : Op K) (nc : Nat) (hnr : 4 ≤ o.nr) (hnt : 2 ≤ o.nt)
    (heven : o.nt % 2 = 0) (hbc : o.bc = true) (he : Elliptic o) (f x y y' : Stencil.Field K)
    (hy : IsSweep o nc f x y) (hy' : IsSweep o nc f x y') :
    ∀ i j, i < o.nr → j < o.nt → y i j = y' i j :=
  sweep_unique o nc (Or.inr hbc) (by omega) hnt heven f x y y'
    (line_blocks_injective o hnr hnt heven hbc he nc f) hy hy'

/-- **6** one orthogonal correction for the model's operator (Dirichlet inner boundary, elliptic data):
    if the new error `e'` has zero `A`-image on a node set `S` and the correction `w = e - e'` is supported
    in `S`, the energy splits, `⟨A e, e⟩ = ⟨A e', e'⟩ + ⟨A w, w⟩`, and does not increase -/
theorem energy_step (o : Op K) (hnr : 4 ≤ o.nr) (hnt : 2 ≤ o.nt) (heven : o.nt % 2 = 0)
    (hbc : o.bc = true) (he : Elliptic o) (e e' w : Stencil.Field K) (S : Nat → Nat → Prop)
    (hV : V0 o e') (hW : V0 o w)
    (hsplit : ∀ i j, e i j = e' i j + w i j)
    (hwS : ∀ i j, i < o.nr → j < o.nt → ¬ S i j → w i j = 0)
    (hAS : ∀ i j, i < o.nr → j < o.nt → S i j → A o e' i j = 0) :
    inner o (A o e') e' ≤ inner o (A o e) e ∧
    inner o (A o e) e = inner o (A o e') e' + inner o (A o w) w :=
  Smoother.energy_step o hnr hnt heven hbc he e e' w S hV hW hsplit hwS hAS

/-- **6** every single phase of the sweep does not increase the energy of the error
    (`gridErr o v u` = `v - u` on the grid; `x` must carry the boundary data) -/
theorem phase_energy (o : Op K) (nc : Nat) (f u x y : Stencil.Field K)
    (hnr : 4 ≤ o.nr) (hnt : 2 ≤ o.nt) (heven : o.nt % 2 = 0) (hbc : o.bc = true) (he : Elliptic o)
    (hu : ∀ i j, i < o.nr → j < o.nt → take o f u i j = 0)
    (hxD : ∀ j, j < o.nt → x (o.nr - 1) j = f (o.nr - 1) j ∧ x 0 j = f 0 j)
    (hs : IsSweep o nc f x y) (p : Nat) :
    inner o (A o (gridErr o (mix nc (p + 1) x y) u)) (gridErr o (mix nc (p + 1) x y) u)
      ≤ inner o (A o (gridErr o (mix nc p x y) u)) (gridErr o (mix nc p x y) u) :=
  Smoother.phase_energy o nc f u x y hnr hnt heven hbc he hu hxD hs p

/-- **6** (`energy_full`) a full zebra sweep does not increase the energy norm of the error:
    Dirichlet inner boundary, elliptic data, incoming iterate carrying the boundary data -/
theorem energy_full (o : Op K) (nc : Nat) (f u x y : Stencil.Field K)
    (hnr : 4 ≤ o.nr) (hnt : 2 ≤ o.nt) (heven : o.nt % 2 = 0) (hbc : o.bc = true) (he : Elliptic o)
    (hu : ∀ i j, i < o.nr → j < o.nt → take o f u i j = 0)
    (hxD : ∀ j, j < o.nt → x (o.nr - 1) j = f (o.nr - 1) j ∧ x 0 j = f 0 j)
    (hs : IsSweep o nc f x y) :
    inner o (A o (gridErr o y u)) (gridErr o y u) ≤ inner o (A o (gridErr o x u)) (gridErr o x u) :=
  Smoother.sweep_energy o nc f u x y hnr hnt heven hbc he hu hxD hs

end Ordered

/-! ## non-vacuity -/

/-- a genuine fixed point: for the Dirichlet operator `C05.exOpD` the field `C05.exX` solves the system
    with `f := A exX ≠ 0` -/
example : IsSweep C05.exOpD 2 (A C05.exOpD C05.exX) C05.exX C05.exX ∧
    A C05.exOpD C05.exX 1 2 ≠ 0 := by
  refine ⟨fixed_point _ _ _ _ (fun i j _ _ => ?_), by decide +kernel⟩
  rw [take_eq_sub_A]; ring

/-- `IsSweep` is satisfiable with ANY pair `x`, `y` (so also `y ≠ x`): choose the right-hand side
    accordingly -/
example (o : Op ℚ) (nc : Nat) (x y : Stencil.Field ℚ) :
    IsSweep o nc (fun i j => A o (mix nc (phase nc i j) x y) i j) x y := by
  intro i j _ _
  unfold defect
  rw [take_eq_sub_A]; ring

/-- `same_colour_decoupled` at work for `C03.exOp` (across the origin, `nt = 4`) with one smoother circle:
    `w`, `w'` differ on the black radial line `j = 2`; the rows of the black radial line `j = 0` cannot
    tell them apart … -/
example : let w : Stencil.Field ℚ := fun i j => (i : ℚ) + j
    let w' : Stencil.Field ℚ := fun i j => if 1 ≤ i ∧ j = 2 then 7 else (i : ℚ) + j
    phase 1 2 0 = phase 1 2 2 ∧ w 2 2 ≠ w' 2 2 ∧
    take (C03.exOp) (fun _ _ => 0) w 2 0 = take (C03.exOp) (fun _ _ => 0) w' 2 0 := by
  refine ⟨by decide, by norm_num, by decide +kernel⟩

/-- … whereas a change on a neighbouring line of the OTHER colour is seen -/
example : phase 1 2 0 ≠ phase 1 2 1 ∧
    take (C03.exOp) (fun _ _ => 0) (fun i j => (i : ℚ) + j) 2 0
    ≠ take (C03.exOp) (fun _ _ => 0) (fun i j => if 1 ≤ i ∧ j = 1 then 7 else (i : ℚ) + j) 2 0 := by
  refine ⟨by decide, by decide +kernel⟩

/-- sharpness of `nt` even: with `nt = 5` the radial lines `j = 4` and `j = 0` are both black AND
    coupled through the periodic wrap -/
theorem odd_nt_couples : let o : Op ℚ := { C03.exOp with nt := 5 }
    phase 1 2 0 = phase 1 2 4 ∧
    take o (fun _ _ => 0) (fun i j => (i : ℚ) + j) 2 0
      ≠ take o (fun _ _ => 0) (fun i j => if 1 ≤ i ∧ j = 4 then 7 else (i : ℚ) + j) 2 0 := by
  refine ⟨by decide, by decide +kernel⟩

/-- sharpness of "at least one smoother circle unless Dirichlet": with `nc = 0` across the origin the
    radial lines `j = 0` and `j = 2` (antipodes, both black since `nt / 2` is even) are coupled by the
    origin row -/
theorem origin_couples_without_circle :
    C03.exOp.bc = false ∧ phase 0 0 0 = phase 0 0 2 ∧ ¬ sameLine 0 0 0 0 2 ∧
    take C03.exOp (fun _ _ => 0) (fun i j => (i : ℚ) + j) 0 0
      ≠ take C03.exOp (fun _ _ => 0) (fun i j => if j = 2 then 7 else (i : ℚ) + j) 0 0 := by
  refine ⟨rfl, by decide, by decide, by decide +kernel⟩

/-- the hypotheses of `sweep_unique_dirichlet` / `energy_full` are jointly satisfiable (`C05.exOpD`, the
    solution `C05.exX` of `f := A exX`, incoming iterate carrying the boundary data) -/
example : 4 ≤ C05.exOpD.nr ∧ 2 ≤ C05.exOpD.nt ∧ C05.exOpD.nt % 2 = 0 ∧ C05.exOpD.bc = true ∧
    Elliptic C05.exOpD ∧
    (∀ i j, i < C05.exOpD.nr → j < C05.exOpD.nt → take C05.exOpD (A C05.exOpD C05.exX) C05.exX i j = 0) ∧
    (∀ j, j < C05.exOpD.nt → C05.exX (C05.exOpD.nr - 1) j = A C05.exOpD C05.exX (C05.exOpD.nr - 1) j ∧
      C05.exX 0 j = A C05.exOpD C05.exX 0 j) ∧
    IsSweep C05.exOpD 2 (A C05.exOpD C05.exX) C05.exX C05.exX := by
  have hu : ∀ i j, i < C05.exOpD.nr → j < C05.exOpD.nt →
      take C05.exOpD (A C05.exOpD C05.exX) C05.exX i j = 0 := by
    intro i j _ _; rw [take_eq_sub_A]; ring
  refine ⟨by decide, by decide, by decide, rfl, ?_, hu, by decide +kernel, fixed_point _ _ _ _ hu⟩
  exact {
    h_pos := fun i _ => by simp only [C05.exOpD]; positivity
    k_pos := fun j _ => by simp only [C05.exOpD]; positivity
    arr_pos := fun i j _ _ => by simp only [C05.exOpD]; positivity
    att_pos := fun i j _ _ => by simp only [C05.exOpD]; positivity
    art_le := fun i j _ _ => by
      simp only [C05.exOpD]
      have hi : (0 : ℚ) ≤ i := Nat.cast_nonneg i
      have hj : (0 : ℚ) ≤ j := Nat.cast_nonneg j
      nlinarith [mul_nonneg hi hj, mul_nonneg (mul_nonneg hi hj) hi, mul_nonneg (mul_nonneg hi hj) hj]
    beta_nonneg := fun i _ => by simp only [C05.exOpD]; positivity
    det_nonneg := fun i j _ _ => by simp only [C05.exOpD]; positivity }

/-- `energy` is not vacuous: `V = K = ℚ`, `a u v = u v`, `S = everything`, `e = w` -/
example : (fun u v : ℚ => u * v) (3 - 3) (3 - 3) ≤ (fun u v : ℚ => u * v) 3 3 :=
  (energy (fun u v : ℚ => u * v) (fun u v w => by ring) (fun u v => by ring)
    (fun v => mul_self_nonneg v) (fun _ => True) 3 3 trivial (fun v _ => by ring)).2

end C06
