import GMGProofs.Props.C05
import GMGProofs.Props.C06d
import GMGProofs.Props.C04c
import GMGProofs.Props.C10i
/-!
# C05 / C04 / C06 on the operators `setup()` builds

The operator theorems (C05 symmetry and positive definiteness, C04 "the coarse solve inverts the operator", C06d "the line matrices
are SPD, the sweep is total / an exact relaxation / energy non-increasing") take `Stencil.Elliptic o` as a hypothesis on the operator
data.  For the data `Build.opOf` hands to the operators (through the level caches) that hypothesis is a THEOREM (`C10i.opOf_elliptic`,
from α > 0, β ≥ 0, det DF ≠ 0, increasing coordinates).  This file states the consequences for the built operators with hypotheses on
the INPUTS only, Dirichlet inner boundary.
-/
namespace C05b
open Stencil Cache Build Finset SparseLU

section Ordered
variable {K : Type} [_root_.Field K] [LinearOrder K] [IsStrictOrderedRing K]

/-- the operator of a built level (cached through `Cache.fresh`, any flags), Dirichlet inner boundary -/
abbrev builtOp (E : Env K) (G : GridData K) (cc cg : Bool) : Op K := opOf E G true (fresh E G cc cg)

/-- **the built operator is symmetric and positive definite on the non-Dirichlet unknowns** -/
theorem built_spd (E : Env K) (G : GridData K) (h : C10i.InputsOK E G) (cc cg : Bool)
    (hnr : 4 ≤ G.g.nr) (hnt : 2 ≤ G.g.nt) (heven : G.g.nt % 2 = 0) :
    (∀ x y : Stencil.Field K, V0 (builtOp E G cc cg) x → V0 (builtOp E G cc cg) y →
      inner (builtOp E G cc cg) (A (builtOp E G cc cg) x) y = inner (builtOp E G cc cg) x (A (builtOp E G cc cg) y)) ∧
    (∀ x : Stencil.Field K, V0 (builtOp E G cc cg) x → (∃ i j, i < G.g.nr ∧ j < G.g.nt ∧ x i j ≠ 0) →
      0 < inner (builtOp E G cc cg) (A (builtOp E G cc cg) x) x) := by
  have he : Elliptic (builtOp E G cc cg) := C10i.opOf_elliptic E G h true cc cg
  refine ⟨fun x y hx hy => ?_, fun x hx hne => ?_⟩
  · exact C05.symm (builtOp E G cc cg) hnr hnt heven (fun hf => absurd (show (builtOp E G cc cg).bc = true from rfl) (by rw [hf]; decide)) x y hx hy
  · exact C05.pd_dirichlet (builtOp E G cc cg) hnr hnt heven rfl he x hx hne

/-- **the line blocks the smoother factorises on a built level are fine** (`C06c.LinesOK`: SPD tridiagonal blocks, non-vanishing
    pivots of the inner circle), hence the code-level sweep is total and an exact zebra relaxation -/
theorem built_linesOK (E : Env K) (G : GridData K) (h : C10i.InputsOK E G) (cc cg : Bool)
    (hnr : G.g.nc + 3 ≤ G.g.nr) (hnc : 2 ≤ G.g.nc) (hnt : 4 ≤ G.g.nt) (heven : G.g.nt % 2 = 0) :
    C06c.LinesOK (builtOp E G cc cg) G.g.nc := by
  exact C06d.linesOK_dirichlet (builtOp E G cc cg) G.g.nc hnr hnc hnt heven rfl (C10i.opOf_elliptic E G h true cc cg)

/-- **the coarse direct solve on a built level returns THE solution of the discrete system** whenever it returns (it returns unless the
    absolute `tiny` test fires): no pivot hypothesis -/
theorem built_coarse_solve (E : Env K) (G : GridData K) (h : C10i.InputsOK E G) (cc cg : Bool)
    (hnr : 4 ≤ G.g.nr) (hnt : 4 ≤ G.g.nt) (heven : G.g.nt % 2 = 0) (tiny : K → Bool) (b xv : List K)
    (hb : b.length = G.g.nr * G.g.nt)
    (hs : DirectCode.solve C04c.genTables (builtOp E G cc cg) tiny b = some (some xv)) :
    ∀ i j, i < G.g.nr → j < G.g.nt →
      take (builtOp E G cc cg) (fun i j => vget b (i * G.g.nt + j)) (fun i j => vget xv (i * G.g.nt + j)) i j = 0 := by
  exact C04c.code_solve_inverts_dirichlet (builtOp E G cc cg) hnr hnt heven rfl (C10i.opOf_elliptic E G h true cc cg)
    tiny b xv hb hs

end Ordered

/-! ## non-vacuity -/

/-- `built_spd` applies to the 9 × 16 example level of `C10i` (all hypotheses hold jointly) -/
example (cc cg : Bool) :=
  built_spd C10i.exEnv C10i.exG0 C10i.exG0_ok cc cg (by decide) (by decide) (by decide)

end C05b
