import GMGProofs.Lemmas.SymGeom
import Generated.InputFns
/-!
# C19 — the analytic input functions: symbolic differentiation, the PDE operator, the shipped geometries / profiles

Property theorems only.  Model: `GMGModel/Sym.lean` (`Expr`, `eval`, smart constructors, `D`, `detJ`, `flux`, `Lu`).
The terms `InputFns.Gen.*` are regenerated from the C++ sources (`src/InputFunctions/**`,
`include/InputFunctions/DomainGeometry/*.inl`) by `tools/cxx_expr.py` on every run, so every theorem below that
mentions a `Gen.*` term is a theorem about the formulas the code computes with: a change of a C++ formula changes the
term and breaks the proof.

Helper definitions (in `GMGProofs/Lemmas/Sym*.lean`): `instElemReal : Elem ℝ` (on top of `instScalarField`),
`Sym.ev env r θ e` (evaluation in ℝ), `Sym.ok env r θ e` (every denominator ≠ 0, every radicand > 0 at the point),
`Sym.okP env r θ p` (`ok` for `u, α, β, Fx, Fy` and `det DF ≠ 0` at the point),
`Sym.czRad env r θ = 1 + ε (ε + 2 (r/Rmax) cos θ)` (the Czarny radicand).
Parameters: `env 0 = Rmax`, `env 1 = κ` (Shafranov) / `ε` (Czarny), `env 2 = δ` (Shafranov) / `e` (Czarny).

All derivative statements are point-wise: `ok` at the point `(r, θ)` suffices, no neighbourhood hypothesis is needed.
-/
namespace C19
open Sym Sym.Expr InputFns

variable {env : Nat → ℝ} {r th : ℝ}

/-! ## 1. the smart constructors are semantics preserving -/

/-- `mkAdd … mkNeg` evaluate like `add … neg` (unconditionally; `x / 0 = 0` in ℝ as in the term) -/
theorem mk_sound (a b : Expr) :
    ev env r th (mkAdd a b) = ev env r th a + ev env r th b ∧
    ev env r th (mkSub a b) = ev env r th a - ev env r th b ∧
    ev env r th (mkMul a b) = ev env r th a * ev env r th b ∧
    ev env r th (mkDiv a b) = ev env r th a / ev env r th b ∧
    ev env r th (mkNeg a) = -ev env r th a :=
  ⟨ev_mkAdd a b, ev_mkSub a b, ev_mkMul a b, ev_mkDiv a b, ev_mkNeg a⟩

/-- … and preserve the side conditions -/
theorem mk_ok {a b : Expr} (ha : ok env r th a) (hb : ok env r th b) :
    ok env r th (mkAdd a b) ∧ ok env r th (mkSub a b) ∧ ok env r th (mkMul a b) ∧
    (ev env r th b ≠ 0 → ok env r th (mkDiv a b)) ∧ ok env r th (mkNeg a) :=
  ⟨ok_mkAdd ha hb, ok_mkSub ha hb, ok_mkMul ha hb, ok_mkDiv ha hb, ok_mkNeg ha⟩

/-! ## 2. the symbolic derivative is the derivative -/

/-- `∂/∂r`: for every expression whose side conditions hold at `(r, θ)` -/
theorem d_correct_r (e : Expr) (h : ok env r th e) :
    HasDerivAt (fun x => ev env x th e) (ev env r th (D .r e)) r := hasDerivAt_r e h

/-- `∂/∂θ` -/
theorem d_correct_th (e : Expr) (h : ok env r th e) :
    HasDerivAt (fun y => ev env r y e) (ev env r th (D .th e)) th := hasDerivAt_th e h

/-- the derivative term has no new singularities -/
theorem ok_D (x : Var) (e : Expr) (h : ok env r th e) : ok env r th (D x e) := Sym.ok_D x e h

/-- hence derivatives of any order exist: e.g. the mixed second derivative -/
theorem d_correct_r_th (e : Expr) (h : ok env r th e) :
    HasDerivAt (fun x => ev env x th (D .th e)) (ev env r th (D .r (D .th e))) r :=
  hasDerivAt_r _ (Sym.ok_D _ _ h)

/-! ## 3. `Lu` is `-div(α∇u) + βu` in (r, θ) coordinates -/

/-- all derived expressions of a regular problem are well defined -/
theorem ok_derived (p : Problem) (h : okP env r th p) :
    ok env r th (detJ p) ∧ ok env r th (flux p).1 ∧ ok env r th (flux p).2 ∧ ok env r th (Lu p) :=
  ⟨ok_detJ h.2.2.2.1 h.2.2.2.2.1, (ok_flux h).1, (ok_flux h).2, ok_Lu h⟩

/-- the Jacobian, the metric and the fluxes inside `Lu` are built from genuine partial derivatives of the mapping and of `u`:
`det = Jrr Jtt − Jrt Jtr`, `P = α det (g^rr u_r + g^rθ u_θ)`, `Q = α det (g^θr u_r + g^θθ u_θ)`, `g = (DFᵀ DF)⁻¹` -/
theorem flux_spec (p : Problem) (h : okP env r th p) :
    let Jrr := deriv (fun x => ev env x th p.Fx) r
    let Jrt := deriv (fun y => ev env r y p.Fx) th
    let Jtr := deriv (fun x => ev env x th p.Fy) r
    let Jtt := deriv (fun y => ev env r y p.Fy) th
    let ur := deriv (fun x => ev env x th p.u) r
    let ut := deriv (fun y => ev env r y p.u) th
    let det := Jrr * Jtt - Jrt * Jtr
    let α := ev env r th p.alpha
    ev env r th (detJ p) = det ∧
    ev env r th (flux p).1 =
      α * det * ((Jrt ^ 2 + Jtt ^ 2) / det ^ 2 * ur + -(Jrr * Jrt + Jtr * Jtt) / det ^ 2 * ut) ∧
    ev env r th (flux p).2 =
      α * det * (-(Jrr * Jrt + Jtr * Jtt) / det ^ 2 * ur + (Jrr ^ 2 + Jtr ^ 2) / det ^ 2 * ut) := by
  obtain ⟨hu, _, _, hx, hy, _⟩ := h
  intro Jrr Jrt Jtr Jtt ur ut det α
  have e1 : Jrr = ev env r th (D .r p.Fx) := deriv_r _ hx
  have e2 : Jrt = ev env r th (D .th p.Fx) := deriv_th _ hx
  have e3 : Jtr = ev env r th (D .r p.Fy) := deriv_r _ hy
  have e4 : Jtt = ev env r th (D .th p.Fy) := deriv_th _ hy
  have e5 : ur = ev env r th (D .r p.u) := deriv_r _ hu
  have e6 : ut = ev env r th (D .th p.u) := deriv_th _ hu
  have hdet : ev env r th (detJ p) = det := by
    simp only [det, e1, e2, e3, e4, ev_detJ]
  refine ⟨hdet, ?_, ?_⟩
  · rw [ev_flux1, hdet, ← e1, ← e2, ← e3, ← e4, ← e5, ← e6]; simp only [pow_two, α]
  · rw [ev_flux2, hdet, ← e1, ← e2, ← e3, ← e4, ← e5, ← e6]; simp only [pow_two, α]

/-- the metric used in `flux` is the inverse of `DFᵀ DF` (pure algebra, `det ≠ 0`) -/
theorem metric_is_inverse (Jrr Jrt Jtr Jtt : ℝ) (hdet : Jrr * Jtt - Jrt * Jtr ≠ 0) :
    let det := Jrr * Jtt - Jrt * Jtr
    let grr := (Jrt ^ 2 + Jtt ^ 2) / det ^ 2
    let grt := -(Jrr * Jrt + Jtr * Jtt) / det ^ 2
    let gtt := (Jrr ^ 2 + Jtr ^ 2) / det ^ 2
    grr * (Jrr ^ 2 + Jtr ^ 2) + grt * (Jrr * Jrt + Jtr * Jtt) = 1 ∧
    grr * (Jrr * Jrt + Jtr * Jtt) + grt * (Jrt ^ 2 + Jtt ^ 2) = 0 ∧
    grt * (Jrr ^ 2 + Jtr ^ 2) + gtt * (Jrr * Jrt + Jtr * Jtt) = 0 ∧
    grt * (Jrr * Jrt + Jtr * Jtt) + gtt * (Jrt ^ 2 + Jtt ^ 2) = 1 := by
  intro det grr grt gtt
  have hd : det ≠ 0 := hdet
  refine ⟨?_, ?_, ?_, ?_⟩ <;> simp only [grr, grt, gtt] <;> field_simp <;> simp only [det] <;> ring

/-- **the derived source term is the PDE operator applied to `u`**: the two symbolic derivatives of the flux inside `Lu`
are the derivatives of the real flux functions `P(·, θ)` at `r` and `Q(r, ·)` at `θ` -/
theorem Lu_is_pde (p : Problem) (h : okP env r th p) :
    HasDerivAt (fun x => ev env x th (flux p).1) (ev env r th (D .r (flux p).1)) r ∧
    HasDerivAt (fun y => ev env r y (flux p).2) (ev env r th (D .th (flux p).2)) th ∧
    ev env r th (Lu p) =
      -(1 / ev env r th (detJ p)) *
          (deriv (fun x => ev env x th (flux p).1) r + deriv (fun y => ev env r y (flux p).2) th)
        + ev env r th p.beta * ev env r th p.u := by
  have hf := ok_flux h
  refine ⟨hasDerivAt_r _ hf.1, hasDerivAt_th _ hf.2, ?_⟩
  rw [deriv_r _ hf.1, deriv_th _ hf.2, ev_Lu]
  ring

/-! ## 4. the code's Jacobian functions are the derivatives of the code's mappings -/

/-- circular geometry: the four hand-written Jacobian entries equal the symbolic derivatives of `Fx, Fy` (`Rmax ≠ 0`) -/
theorem jacobian_Circular (h : env 0 ≠ 0) :
    ev env r th Gen.CircularGeometry_dFx_dr = ev env r th (D .r Gen.CircularGeometry_Fx) ∧
    ev env r th Gen.CircularGeometry_dFy_dr = ev env r th (D .r Gen.CircularGeometry_Fy) ∧
    ev env r th Gen.CircularGeometry_dFx_dt = ev env r th (D .th Gen.CircularGeometry_Fx) ∧
    ev env r th Gen.CircularGeometry_dFy_dt = ev env r th (D .th Gen.CircularGeometry_Fy) := by
  refine ⟨?_, ?_, ?_, ?_⟩
  · simp only [Gen.CircularGeometry_dFx_dr, Gen.CircularGeometry_Fx, sym_ev]; field_simp; ring
  · simp only [Gen.CircularGeometry_dFy_dr, Gen.CircularGeometry_Fy, sym_ev]; field_simp; ring
  · simp only [Gen.CircularGeometry_dFx_dt, Gen.CircularGeometry_Fx, sym_ev]; field_simp; ring
  · simp only [Gen.CircularGeometry_dFy_dt, Gen.CircularGeometry_Fy, sym_ev]; field_simp; ring

/-- side conditions of the circular mapping and of its hand-written Jacobian: only `Rmax ≠ 0` -/
theorem ok_Circular (h : env 0 ≠ 0) :
    ok env r th Gen.CircularGeometry_Fx ∧ ok env r th Gen.CircularGeometry_Fy ∧
    ok env r th Gen.CircularGeometry_dFx_dr ∧ ok env r th Gen.CircularGeometry_dFy_dr ∧
    ok env r th Gen.CircularGeometry_dFx_dt ∧ ok env r th Gen.CircularGeometry_dFy_dt := by
  simp [Gen.CircularGeometry_Fx, Gen.CircularGeometry_Fy, Gen.CircularGeometry_dFx_dr, Gen.CircularGeometry_dFy_dr,
    Gen.CircularGeometry_dFx_dt, Gen.CircularGeometry_dFy_dt, ok, h]

theorem jacobian_is_derivative_Circular (h : env 0 ≠ 0) :
    HasDerivAt (fun x => ev env x th Gen.CircularGeometry_Fx) (ev env r th Gen.CircularGeometry_dFx_dr) r ∧
    HasDerivAt (fun x => ev env x th Gen.CircularGeometry_Fy) (ev env r th Gen.CircularGeometry_dFy_dr) r ∧
    HasDerivAt (fun y => ev env r y Gen.CircularGeometry_Fx) (ev env r th Gen.CircularGeometry_dFx_dt) th ∧
    HasDerivAt (fun y => ev env r y Gen.CircularGeometry_Fy) (ev env r th Gen.CircularGeometry_dFy_dt) th := by
  obtain ⟨j1, j2, j3, j4⟩ := jacobian_Circular (r := r) (th := th) h
  obtain ⟨ox, oy, _⟩ := ok_Circular (r := r) (th := th) h
  rw [j1, j2, j3, j4]
  exact ⟨hasDerivAt_r _ ox, hasDerivAt_r _ oy, hasDerivAt_th _ ox, hasDerivAt_th _ oy⟩

/-- `det DF = r / Rmax²` for the circular geometry (so the mapping is regular exactly for `r ≠ 0`) -/
theorem detJ_Circular (u a b : Expr) :
    ev env r th (detJ ⟨u, a, b, Gen.CircularGeometry_Fx, Gen.CircularGeometry_Fy⟩) = r / env 0 ^ 2 := by
  simp only [ev_detJ, Gen.CircularGeometry_Fx, Gen.CircularGeometry_Fy, sym_ev]
  by_cases h : env 0 = 0
  · simp [h]
  simp only [sym_clean]
  field_simp
  linear_combination r * Real.cos_sq_add_sin_sq th

/-- Shafranov geometry (`Rmax ≠ 0`; κ, δ arbitrary) -/
theorem jacobian_Shafranov (h : env 0 ≠ 0) :
    ev env r th Gen.ShafranovGeometry_dFx_dr = ev env r th (D .r Gen.ShafranovGeometry_Fx) ∧
    ev env r th Gen.ShafranovGeometry_dFy_dr = ev env r th (D .r Gen.ShafranovGeometry_Fy) ∧
    ev env r th Gen.ShafranovGeometry_dFx_dt = ev env r th (D .th Gen.ShafranovGeometry_Fx) ∧
    ev env r th Gen.ShafranovGeometry_dFy_dt = ev env r th (D .th Gen.ShafranovGeometry_Fy) := by
  refine ⟨?_, ?_, ?_, ?_⟩
  · simp only [Gen.ShafranovGeometry_dFx_dr, Gen.ShafranovGeometry_Fx, sym_ev]; field_simp; ring
  · simp only [Gen.ShafranovGeometry_dFy_dr, Gen.ShafranovGeometry_Fy, sym_ev]; field_simp; ring
  · simp only [Gen.ShafranovGeometry_dFx_dt, Gen.ShafranovGeometry_Fx, sym_ev]; field_simp; ring
  · simp only [Gen.ShafranovGeometry_dFy_dt, Gen.ShafranovGeometry_Fy, sym_ev]; field_simp; ring

theorem ok_Shafranov (h : env 0 ≠ 0) :
    ok env r th Gen.ShafranovGeometry_Fx ∧ ok env r th Gen.ShafranovGeometry_Fy ∧
    ok env r th Gen.ShafranovGeometry_dFx_dr ∧ ok env r th Gen.ShafranovGeometry_dFy_dr ∧
    ok env r th Gen.ShafranovGeometry_dFx_dt ∧ ok env r th Gen.ShafranovGeometry_dFy_dt := by
  simp [Gen.ShafranovGeometry_Fx, Gen.ShafranovGeometry_Fy, Gen.ShafranovGeometry_dFx_dr,
    Gen.ShafranovGeometry_dFy_dr, Gen.ShafranovGeometry_dFx_dt, Gen.ShafranovGeometry_dFy_dt, ok, h]

theorem jacobian_is_derivative_Shafranov (h : env 0 ≠ 0) :
    HasDerivAt (fun x => ev env x th Gen.ShafranovGeometry_Fx) (ev env r th Gen.ShafranovGeometry_dFx_dr) r ∧
    HasDerivAt (fun x => ev env x th Gen.ShafranovGeometry_Fy) (ev env r th Gen.ShafranovGeometry_dFy_dr) r ∧
    HasDerivAt (fun y => ev env r y Gen.ShafranovGeometry_Fx) (ev env r th Gen.ShafranovGeometry_dFx_dt) th ∧
    HasDerivAt (fun y => ev env r y Gen.ShafranovGeometry_Fy) (ev env r th Gen.ShafranovGeometry_dFy_dt) th := by
  obtain ⟨j1, j2, j3, j4⟩ := jacobian_Shafranov (r := r) (th := th) h
  obtain ⟨ox, oy, _⟩ := ok_Shafranov (r := r) (th := th) h
  rw [j1, j2, j3, j4]
  exact ⟨hasDerivAt_r _ ox, hasDerivAt_r _ oy, hasDerivAt_th _ ox, hasDerivAt_th _ oy⟩

/-- `det DF = (1+κ) (r/Rmax²) (1 − κ − 2 δ (r/Rmax) cos θ)` for the Shafranov geometry -/
theorem detJ_Shafranov (u a b : Expr) :
    ev env r th (detJ ⟨u, a, b, Gen.ShafranovGeometry_Fx, Gen.ShafranovGeometry_Fy⟩) =
      (1 + env 1) * r / env 0 ^ 2 * (1 - env 1 - 2 * env 2 * (r / env 0) * Real.cos th) := by
  simp only [ev_detJ, Gen.ShafranovGeometry_Fx, Gen.ShafranovGeometry_Fy, sym_ev]
  by_cases h : env 0 = 0
  · simp [h]
  simp only [sym_clean]
  field_simp
  linear_combination (r * (1 + env 1) * (1 - env 1) * env 0) * Real.cos_sq_add_sin_sq th

/-- Czarny geometry.  Needed: `Rmax ≠ 0`, the radicand `czRad = 1 + ε(ε + 2 (r/Rmax) cos θ) > 0`, `2 − √czRad ≠ 0`, and `ε ≠ 0`
(for `Fx = (1 − √czRad)/ε` only).  No condition on `e` or on `1 − ε²/4` (the factor `ξ = 1/√(1−ε²/4)` is a constant) -/
theorem jacobian_Czarny (h : env 0 ≠ 0) (he : env 1 ≠ 0) (hrad : 0 < czRad env r th)
    (h2 : 2 - Real.sqrt (czRad env r th) ≠ 0) :
    ev env r th Gen.CzarnyGeometry_dFx_dr = ev env r th (D .r Gen.CzarnyGeometry_Fx) ∧
    ev env r th Gen.CzarnyGeometry_dFy_dr = ev env r th (D .r Gen.CzarnyGeometry_Fy) ∧
    ev env r th Gen.CzarnyGeometry_dFx_dt = ev env r th (D .th Gen.CzarnyGeometry_Fx) ∧
    ev env r th Gen.CzarnyGeometry_dFy_dt = ev env r th (D .th Gen.CzarnyGeometry_Fy) := by
  unfold czRad at hrad h2
  have hr : env 1 * (2 * (r / env 0) * Real.cos th + env 1) + 1
      = 1 + env 1 * (env 1 + 2 * (r / env 0) * Real.cos th) := by ring
  have hs0 := Real.sqrt_pos.mpr hrad
  refine ⟨?_, ?_, ?_, ?_⟩
  · simp only [Gen.CzarnyGeometry_dFx_dr, Gen.CzarnyGeometry_Fx, sym_ev]
    rw [hr]
    generalize √(1 + env 1 * (env 1 + 2 * (r / env 0) * Real.cos th)) = s at hs0 h2 ⊢
    have hs := hs0.ne'
    simp only [sym_clean]
    field_simp
  · simp only [Gen.CzarnyGeometry_dFy_dr, Gen.CzarnyGeometry_Fy, sym_ev]
    rw [hr]
    generalize √(1 + env 1 * (env 1 + 2 * (r / env 0) * Real.cos th)) = s at hs0 h2 ⊢
    have hs := hs0.ne'
    have h3 : 1 + (1 - s) ≠ 0 := by intro h'; apply h2; linarith
    simp only [sym_clean]
    generalize 1 / √(1 - env 1 * env 1 / 4) = xi
    field_simp
    ring
  · simp only [Gen.CzarnyGeometry_dFx_dt, Gen.CzarnyGeometry_Fx, sym_ev]
    rw [hr]
    generalize √(1 + env 1 * (env 1 + 2 * (r / env 0) * Real.cos th)) = s at hs0 h2 ⊢
    have hs := hs0.ne'
    simp only [sym_clean]
    field_simp
  · simp only [Gen.CzarnyGeometry_dFy_dt, Gen.CzarnyGeometry_Fy, sym_ev]
    rw [hr]
    generalize √(1 + env 1 * (env 1 + 2 * (r / env 0) * Real.cos th)) = s at hs0 h2 ⊢
    have hs := hs0.ne'
    have h3 : 1 + (1 - s) ≠ 0 := by intro h'; apply h2; linarith
    simp only [sym_clean]
    generalize 1 / √(1 - env 1 * env 1 / 4) = xi
    field_simp
    ring

/-- side conditions of the Czarny mapping and of its hand-written Jacobian -/
theorem ok_Czarny (h : env 0 ≠ 0) (he : env 1 ≠ 0) (hxi : 0 < 1 - env 1 * env 1 / 4) (hrad : 0 < czRad env r th)
    (h2 : 2 - Real.sqrt (czRad env r th) ≠ 0) :
    ok env r th Gen.CzarnyGeometry_Fx ∧ ok env r th Gen.CzarnyGeometry_Fy ∧
    ok env r th Gen.CzarnyGeometry_dFx_dr ∧ ok env r th Gen.CzarnyGeometry_dFy_dr ∧
    ok env r th Gen.CzarnyGeometry_dFx_dt ∧ ok env r th Gen.CzarnyGeometry_dFy_dt := by
  unfold czRad at hrad h2
  have hr : env 1 * (2 * (r / env 0) * Real.cos th + env 1) + 1
      = 1 + env 1 * (env 1 + 2 * (r / env 0) * Real.cos th) := by ring
  have hs0 := Real.sqrt_pos.mpr hrad
  have hq0 := Real.sqrt_pos.mpr hxi
  have h3 : 1 + (1 - √(1 + env 1 * (env 1 + 2 * (r / env 0) * Real.cos th))) ≠ 0 := by
    intro h'; apply h2; linarith
  simp only [Gen.CzarnyGeometry_Fx, Gen.CzarnyGeometry_Fy, Gen.CzarnyGeometry_dFx_dr,
    Gen.CzarnyGeometry_dFy_dr, Gen.CzarnyGeometry_dFx_dt, Gen.CzarnyGeometry_dFy_dt, ok, sym_ev, hr, true_and, and_true]
  simp only [ne_eq, mul_eq_zero, not_or, h, he, hrad, hxi, hs0.ne', hq0.ne', h2, h3, not_false_eq_true, and_self,
    OfNat.ofNat_ne_zero]

theorem jacobian_is_derivative_Czarny (h : env 0 ≠ 0) (he : env 1 ≠ 0) (hxi : 0 < 1 - env 1 * env 1 / 4)
    (hrad : 0 < czRad env r th) (h2 : 2 - Real.sqrt (czRad env r th) ≠ 0) :
    HasDerivAt (fun x => ev env x th Gen.CzarnyGeometry_Fx) (ev env r th Gen.CzarnyGeometry_dFx_dr) r ∧
    HasDerivAt (fun x => ev env x th Gen.CzarnyGeometry_Fy) (ev env r th Gen.CzarnyGeometry_dFy_dr) r ∧
    HasDerivAt (fun y => ev env r y Gen.CzarnyGeometry_Fx) (ev env r th Gen.CzarnyGeometry_dFx_dt) th ∧
    HasDerivAt (fun y => ev env r y Gen.CzarnyGeometry_Fy) (ev env r th Gen.CzarnyGeometry_dFy_dt) th := by
  obtain ⟨j1, j2, j3, j4⟩ := jacobian_Czarny h he hrad h2
  obtain ⟨ox, oy, _⟩ := ok_Czarny h he hxi hrad h2
  rw [j1, j2, j3, j4]
  exact ⟨hasDerivAt_r _ ox, hasDerivAt_r _ oy, hasDerivAt_th _ ox, hasDerivAt_th _ oy⟩

/-- the documented parameter range `0 < ε < 1` and `|r / Rmax| ≤ 1` (in particular `0 ≤ r ≤ Rmax`, `Sym.abs_rho_le_one`) implies all
Czarny side conditions, for every θ and every `e`: `(1-ε)² ≤ czRad ≤ (1+ε)² < 4` -/
theorem czarny_domain (he0 : 0 < env 1) (he1 : env 1 < 1) (hr : |r / env 0| ≤ 1) :
    env 1 ≠ 0 ∧ 0 < 1 - env 1 * env 1 / 4 ∧ 0 < czRad env r th ∧ 2 - Real.sqrt (czRad env r th) ≠ 0 := by
  refine ⟨he0.ne', by nlinarith, czRad_pos he0 he1 hr, ?_⟩
  have := sqrt_czRad_lt_two (th := th) he0 he1 hr
  linarith

theorem jacobian_is_derivative_Czarny_on_domain (hR : 0 < env 0) (he0 : 0 < env 1) (he1 : env 1 < 1)
    (hr0 : 0 ≤ r) (hr1 : r ≤ env 0) :
    HasDerivAt (fun x => ev env x th Gen.CzarnyGeometry_Fx) (ev env r th Gen.CzarnyGeometry_dFx_dr) r ∧
    HasDerivAt (fun x => ev env x th Gen.CzarnyGeometry_Fy) (ev env r th Gen.CzarnyGeometry_dFy_dr) r ∧
    HasDerivAt (fun y => ev env r y Gen.CzarnyGeometry_Fx) (ev env r th Gen.CzarnyGeometry_dFx_dt) th ∧
    HasDerivAt (fun y => ev env r y Gen.CzarnyGeometry_Fy) (ev env r th Gen.CzarnyGeometry_dFy_dt) th := by
  obtain ⟨a, b, c, d⟩ := czarny_domain (th := th) he0 he1 (abs_rho_le_one hR hr0 hr1)
  exact jacobian_is_derivative_Czarny hR.ne' a b c d

/-- `det DF = − e ξ (r/Rmax) / (Rmax √czRad (2 − √czRad))`, `ξ = 1/√(1−ε²/4)`, for the Czarny geometry: the mapping is
orientation reversing and regular exactly for `r ≠ 0`, `e ≠ 0` -/
theorem detJ_Czarny (u a b : Expr) (h : env 0 ≠ 0) (he : env 1 ≠ 0) (hrad : 0 < czRad env r th)
    (h2 : 2 - Real.sqrt (czRad env r th) ≠ 0) :
    ev env r th (detJ ⟨u, a, b, Gen.CzarnyGeometry_Fx, Gen.CzarnyGeometry_Fy⟩) =
      -(env 2 * (1 / Real.sqrt (1 - env 1 * env 1 / 4)) * (r / env 0))
        / (env 0 * Real.sqrt (czRad env r th) * (2 - Real.sqrt (czRad env r th))) := by
  obtain ⟨j1, j2, j3, j4⟩ := jacobian_Czarny h he hrad h2
  rw [ev_detJ]
  simp only
  rw [← j1, ← j2, ← j3, ← j4]
  unfold czRad at hrad h2 ⊢
  have hr : env 1 * (2 * (r / env 0) * Real.cos th + env 1) + 1
      = 1 + env 1 * (env 1 + 2 * (r / env 0) * Real.cos th) := by ring
  have hs0 := Real.sqrt_pos.mpr hrad
  simp only [Gen.CzarnyGeometry_dFx_dr, Gen.CzarnyGeometry_dFy_dr, Gen.CzarnyGeometry_dFx_dt,
    Gen.CzarnyGeometry_dFy_dt, sym_ev]
  rw [hr]
  generalize √(1 + env 1 * (env 1 + 2 * (r / env 0) * Real.cos th)) = s at hs0 h2 ⊢
  have hs := hs0.ne'
  generalize 1 / √(1 - env 1 * env 1 / 4) = xi
  field_simp
  linear_combination (-(env 2 * xi * r * (2 - s) * s * env 0)) * Real.cos_sq_add_sin_sq th

/-! ## 5. the gyro-kinetic profiles: `β = 1/α` -/

theorem gyro_Zoni :
    ev env r th Gen.ZoniGyroCoefficients_alpha * ev env r th Gen.ZoniGyroCoefficients_beta = 1 := by
  simp only [Gen.ZoniGyroCoefficients_alpha, Gen.ZoniGyroCoefficients_beta, sym_ev]
  rw [← Real.exp_add, neg_add_cancel, Real.exp_zero]

theorem gyro_ZoniShifted :
    ev env r th Gen.ZoniShiftedGyroCoefficients_alpha * ev env r th Gen.ZoniShiftedGyroCoefficients_beta = 1 := by
  simp only [Gen.ZoniShiftedGyroCoefficients_alpha, Gen.ZoniShiftedGyroCoefficients_beta, sym_ev]
  rw [← Real.exp_add, neg_add_cancel, Real.exp_zero]

/-- the Sonnendrücker profile `α = 0.4530 − 0.3484 arctan(14.44 r/Rmax − 11.11)` is positive for `r/Rmax ≤ 1`
(it changes sign at `r/Rmax ≈ 1.0185`, so the hypothesis cannot be dropped): `arctan(10/3) < 1.2858 < 1.3 = 0.4530/0.3484` -/
theorem alpha_pos_Sonnendrucker (h : r / env 0 ≤ 1) :
    0 < ev env r th Gen.SonnendruckerGyroCoefficients_alpha ∧ 0 < ev env r th Gen.SonnendruckerCoefficients_alpha := by
  simp only [Gen.SonnendruckerGyroCoefficients_alpha, Gen.SonnendruckerCoefficients_alpha, sym_ev, and_self]
  have hx : 36111111111111 / 2500000000000 * (r / env 0) - 111111111111111 / 10000000000000 ≤ (10 / 3 : ℝ) := by
    linarith
  have := Real.arctan_mono hx
  have := arctan_ten_thirds_lt
  linarith

theorem gyro_Sonnendrucker (h : r / env 0 ≤ 1) :
    ev env r th Gen.SonnendruckerGyroCoefficients_alpha * ev env r th Gen.SonnendruckerGyroCoefficients_beta = 1 := by
  have hp := (alpha_pos_Sonnendrucker (th := th) h).1
  simp only [Gen.SonnendruckerGyroCoefficients_alpha, Gen.SonnendruckerGyroCoefficients_beta, sym_ev] at hp ⊢
  rw [pow_one]
  exact mul_one_div_cancel hp.ne'

/-- the Zoni profiles are positive everywhere -/
theorem alpha_pos_Zoni :
    0 < ev env r th Gen.ZoniCoefficients_alpha ∧ 0 < ev env r th Gen.ZoniGyroCoefficients_alpha ∧
    0 < ev env r th Gen.ZoniShiftedCoefficients_alpha ∧ 0 < ev env r th Gen.ZoniShiftedGyroCoefficients_alpha := by
  simp only [Gen.ZoniCoefficients_alpha, Gen.ZoniGyroCoefficients_alpha, Gen.ZoniShiftedCoefficients_alpha,
    Gen.ZoniShiftedGyroCoefficients_alpha, sym_ev]
  exact ⟨Real.exp_pos _, Real.exp_pos _, Real.exp_pos _, Real.exp_pos _⟩

/-- the gyro and non-gyro variants share the diffusion coefficient -/
theorem alpha_gyro_same :
    Gen.SonnendruckerGyroCoefficients_alpha = Gen.SonnendruckerCoefficients_alpha ∧
    Gen.ZoniGyroCoefficients_alpha = Gen.ZoniCoefficients_alpha ∧
    Gen.ZoniShiftedGyroCoefficients_alpha = Gen.ZoniShiftedCoefficients_alpha := ⟨rfl, rfl, rfl⟩

/-- side conditions of all coefficient profiles (`Rmax ≠ 0`; the Sonnendrücker gyro `β = 1/α` needs `r/Rmax ≤ 1`) -/
theorem ok_coefficients (h0 : env 0 ≠ 0) (h : r / env 0 ≤ 1) :
    ok env r th Gen.PoissonCoefficients_alpha ∧ ok env r th Gen.PoissonCoefficients_beta ∧
    ok env r th Gen.SonnendruckerCoefficients_alpha ∧ ok env r th Gen.SonnendruckerCoefficients_beta ∧
    ok env r th Gen.SonnendruckerGyroCoefficients_alpha ∧ ok env r th Gen.SonnendruckerGyroCoefficients_beta ∧
    ok env r th Gen.ZoniCoefficients_alpha ∧ ok env r th Gen.ZoniCoefficients_beta ∧
    ok env r th Gen.ZoniGyroCoefficients_alpha ∧ ok env r th Gen.ZoniGyroCoefficients_beta ∧
    ok env r th Gen.ZoniShiftedCoefficients_alpha ∧ ok env r th Gen.ZoniShiftedCoefficients_beta ∧
    ok env r th Gen.ZoniShiftedGyroCoefficients_alpha ∧ ok env r th Gen.ZoniShiftedGyroCoefficients_beta := by
  have hp := (alpha_pos_Sonnendrucker (th := th) h).1
  simp only [Gen.SonnendruckerGyroCoefficients_alpha, sym_ev] at hp
  simp only [Gen.PoissonCoefficients_alpha, Gen.PoissonCoefficients_beta, Gen.SonnendruckerCoefficients_alpha,
    Gen.SonnendruckerCoefficients_beta, Gen.SonnendruckerGyroCoefficients_alpha,
    Gen.SonnendruckerGyroCoefficients_beta, Gen.ZoniCoefficients_alpha, Gen.ZoniCoefficients_beta,
    Gen.ZoniGyroCoefficients_alpha, Gen.ZoniGyroCoefficients_beta, Gen.ZoniShiftedCoefficients_alpha,
    Gen.ZoniShiftedCoefficients_beta, Gen.ZoniShiftedGyroCoefficients_alpha, Gen.ZoniShiftedGyroCoefficients_beta,
    ok, sym_ev, pow_one, ne_eq, h0, hp.ne', not_false_eq_true, and_self]

/-! ## 6. boundary data = exact solution (as terms: the C++ formulas are literally the same) -/

theorem boundary_CartesianR2_Circular :
    Gen.CartesianR2_Boundary_CircularGeometry_u_D = Gen.CartesianR2_CircularGeometry_exact_solution ∧
    Gen.CartesianR2_Boundary_CircularGeometry_u_D_Interior = Gen.CartesianR2_CircularGeometry_exact_solution := ⟨rfl, rfl⟩

theorem boundary_CartesianR2_Czarny :
    Gen.CartesianR2_Boundary_CzarnyGeometry_u_D = Gen.CartesianR2_CzarnyGeometry_exact_solution ∧
    Gen.CartesianR2_Boundary_CzarnyGeometry_u_D_Interior = Gen.CartesianR2_CzarnyGeometry_exact_solution := ⟨rfl, rfl⟩

theorem boundary_CartesianR2_Shafranov :
    Gen.CartesianR2_Boundary_ShafranovGeometry_u_D = Gen.CartesianR2_ShafranovGeometry_exact_solution ∧
    Gen.CartesianR2_Boundary_ShafranovGeometry_u_D_Interior = Gen.CartesianR2_ShafranovGeometry_exact_solution := ⟨rfl, rfl⟩

theorem boundary_CartesianR6_Circular :
    Gen.CartesianR6_Boundary_CircularGeometry_u_D = Gen.CartesianR6_CircularGeometry_exact_solution ∧
    Gen.CartesianR6_Boundary_CircularGeometry_u_D_Interior = Gen.CartesianR6_CircularGeometry_exact_solution := ⟨rfl, rfl⟩

theorem boundary_CartesianR6_Czarny :
    Gen.CartesianR6_Boundary_CzarnyGeometry_u_D = Gen.CartesianR6_CzarnyGeometry_exact_solution ∧
    Gen.CartesianR6_Boundary_CzarnyGeometry_u_D_Interior = Gen.CartesianR6_CzarnyGeometry_exact_solution := ⟨rfl, rfl⟩

theorem boundary_CartesianR6_Shafranov :
    Gen.CartesianR6_Boundary_ShafranovGeometry_u_D = Gen.CartesianR6_ShafranovGeometry_exact_solution ∧
    Gen.CartesianR6_Boundary_ShafranovGeometry_u_D_Interior = Gen.CartesianR6_ShafranovGeometry_exact_solution := ⟨rfl, rfl⟩

theorem boundary_PolarR6_Circular :
    Gen.PolarR6_Boundary_CircularGeometry_u_D = Gen.PolarR6_CircularGeometry_exact_solution ∧
    Gen.PolarR6_Boundary_CircularGeometry_u_D_Interior = Gen.PolarR6_CircularGeometry_exact_solution := ⟨rfl, rfl⟩

theorem boundary_PolarR6_Czarny :
    Gen.PolarR6_Boundary_CzarnyGeometry_u_D = Gen.PolarR6_CzarnyGeometry_exact_solution ∧
    Gen.PolarR6_Boundary_CzarnyGeometry_u_D_Interior = Gen.PolarR6_CzarnyGeometry_exact_solution := ⟨rfl, rfl⟩

theorem boundary_PolarR6_Shafranov :
    Gen.PolarR6_Boundary_ShafranovGeometry_u_D = Gen.PolarR6_ShafranovGeometry_exact_solution ∧
    Gen.PolarR6_Boundary_ShafranovGeometry_u_D_Interior = Gen.PolarR6_ShafranovGeometry_exact_solution := ⟨rfl, rfl⟩

theorem boundary_Refined_Circular :
    Gen.Refined_Boundary_CircularGeometry_u_D = Gen.Refined_CircularGeometry_exact_solution ∧
    Gen.Refined_Boundary_CircularGeometry_u_D_Interior = Gen.Refined_CircularGeometry_exact_solution := ⟨rfl, rfl⟩

theorem boundary_Refined_Czarny :
    Gen.Refined_Boundary_CzarnyGeometry_u_D = Gen.Refined_CzarnyGeometry_exact_solution ∧
    Gen.Refined_Boundary_CzarnyGeometry_u_D_Interior = Gen.Refined_CzarnyGeometry_exact_solution := ⟨rfl, rfl⟩

theorem boundary_Refined_Shafranov :
    Gen.Refined_Boundary_ShafranovGeometry_u_D = Gen.Refined_ShafranovGeometry_exact_solution ∧
    Gen.Refined_Boundary_ShafranovGeometry_u_D_Interior = Gen.Refined_ShafranovGeometry_exact_solution := ⟨rfl, rfl⟩

/-! ## 7. the shipped exact solutions are well defined on the domain, and full problems satisfy `okP` -/

/-- every exact solution that does not go through the Czarny mapping only needs `Rmax ≠ 0` -/
theorem ok_exact_solutions (h : env 0 ≠ 0) :
    ok env r th Gen.CartesianR2_CircularGeometry_exact_solution ∧
    ok env r th Gen.CartesianR2_ShafranovGeometry_exact_solution ∧
    ok env r th Gen.CartesianR6_CircularGeometry_exact_solution ∧
    ok env r th Gen.CartesianR6_ShafranovGeometry_exact_solution ∧
    ok env r th Gen.PolarR6_CircularGeometry_exact_solution ∧
    ok env r th Gen.PolarR6_CzarnyGeometry_exact_solution ∧
    ok env r th Gen.PolarR6_ShafranovGeometry_exact_solution ∧
    ok env r th Gen.Refined_CircularGeometry_exact_solution ∧
    ok env r th Gen.Refined_CzarnyGeometry_exact_solution ∧
    ok env r th Gen.Refined_ShafranovGeometry_exact_solution := by
  simp only [Gen.CartesianR2_CircularGeometry_exact_solution, Gen.CartesianR2_ShafranovGeometry_exact_solution,
    Gen.CartesianR6_CircularGeometry_exact_solution, Gen.CartesianR6_ShafranovGeometry_exact_solution,
    Gen.PolarR6_CircularGeometry_exact_solution, Gen.PolarR6_CzarnyGeometry_exact_solution,
    Gen.PolarR6_ShafranovGeometry_exact_solution, Gen.Refined_CircularGeometry_exact_solution,
    Gen.Refined_CzarnyGeometry_exact_solution, Gen.Refined_ShafranovGeometry_exact_solution,
    ok, sym_ev, ne_eq, h, not_false_eq_true, and_self]

/-- the Cartesian solutions composed with the Czarny mapping need the Czarny side conditions -/
theorem ok_exact_solutions_Czarny (h : env 0 ≠ 0) (he : env 1 ≠ 0) (hxi : 0 < 1 - env 1 * env 1 / 4)
    (hrad : 0 < czRad env r th) (h2 : 2 - Real.sqrt (czRad env r th) ≠ 0) :
    ok env r th Gen.CartesianR2_CzarnyGeometry_exact_solution ∧
    ok env r th Gen.CartesianR6_CzarnyGeometry_exact_solution := by
  unfold czRad at hrad h2
  have hr : env 1 * (2 * (r / env 0) * Real.cos th + env 1) + 1
      = 1 + env 1 * (env 1 + 2 * (r / env 0) * Real.cos th) := by ring
  have hq0 := Real.sqrt_pos.mpr hxi
  simp only [Gen.CartesianR2_CzarnyGeometry_exact_solution, Gen.CartesianR6_CzarnyGeometry_exact_solution,
    ok, sym_ev, hr, ne_eq, h, he, hrad, hxi, hq0.ne', h2, not_false_eq_true, and_self, OfNat.ofNat_ne_zero]

/-- a problem on the circular geometry is regular at every `r ≠ 0` -/
theorem okP_Circular {u a b : Expr} (hu : ok env r th u) (ha : ok env r th a) (hb : ok env r th b)
    (h0 : env 0 ≠ 0) (hr : r ≠ 0) :
    okP env r th ⟨u, a, b, Gen.CircularGeometry_Fx, Gen.CircularGeometry_Fy⟩ := by
  obtain ⟨ox, oy, _⟩ := ok_Circular (r := r) (th := th) h0
  refine ⟨hu, ha, hb, ox, oy, ?_⟩
  rw [detJ_Circular]
  positivity

/-- a problem on the Shafranov geometry is regular where `(1+κ) r (1 − κ − 2δ (r/Rmax) cos θ) ≠ 0`
(e.g. `|κ| < 1`, `2|δ| < 1 − κ`, `0 < r ≤ Rmax`) -/
theorem okP_Shafranov {u a b : Expr} (hu : ok env r th u) (ha : ok env r th a) (hb : ok env r th b)
    (h0 : env 0 ≠ 0) (hr : r ≠ 0) (hk : 1 + env 1 ≠ 0)
    (hd : 1 - env 1 - 2 * env 2 * (r / env 0) * Real.cos th ≠ 0) :
    okP env r th ⟨u, a, b, Gen.ShafranovGeometry_Fx, Gen.ShafranovGeometry_Fy⟩ := by
  obtain ⟨ox, oy, _⟩ := ok_Shafranov (r := r) (th := th) h0
  refine ⟨hu, ha, hb, ox, oy, ?_⟩
  rw [detJ_Shafranov]
  positivity

/-- a problem on the Czarny geometry is regular at every `r ≠ 0` when `e ≠ 0` -/
theorem okP_Czarny {u a b : Expr} (hu : ok env r th u) (ha : ok env r th a) (hb : ok env r th b)
    (h0 : env 0 ≠ 0) (hr : r ≠ 0) (hE : env 2 ≠ 0)
    (he : env 1 ≠ 0) (hxi : 0 < 1 - env 1 * env 1 / 4) (hrad : 0 < czRad env r th)
    (h2 : 2 - Real.sqrt (czRad env r th) ≠ 0) :
    okP env r th ⟨u, a, b, Gen.CzarnyGeometry_Fx, Gen.CzarnyGeometry_Fy⟩ := by
  obtain ⟨ox, oy, _⟩ := ok_Czarny h0 he hxi hrad h2
  refine ⟨hu, ha, hb, ox, oy, ?_⟩
  rw [detJ_Czarny u a b h0 he hrad h2]
  have hs0 := (Real.sqrt_pos.mpr hrad).ne'
  have hq0 := (Real.sqrt_pos.mpr hxi).ne'
  refine div_ne_zero (neg_ne_zero.mpr ?_) ?_ <;> positivity

/-! ## non-vacuity -/

/-- a full shipped problem (PolarR6 solution, Zoni gyro profile, circular geometry) satisfies `okP` at a concrete point,
so `Lu_is_pde` and `flux_spec` apply to it -/
example : okP (fun _ => 1) (1 / 2) 0
    ⟨Gen.PolarR6_CircularGeometry_exact_solution, Gen.ZoniGyroCoefficients_alpha, Gen.ZoniGyroCoefficients_beta,
      Gen.CircularGeometry_Fx, Gen.CircularGeometry_Fy⟩ :=
  okP_Circular (ok_exact_solutions (by norm_num)).2.2.2.2.1
    (ok_coefficients (by norm_num) (by norm_num)).2.2.2.2.2.2.2.2.1
    (ok_coefficients (by norm_num) (by norm_num)).2.2.2.2.2.2.2.2.2.1 (by norm_num) (by norm_num)

/-- the Czarny hypotheses are satisfiable on the whole documented range, e.g. `Rmax = 1.3`, `ε = 0.3`, `r = Rmax` -/
example (th : ℝ) :
    let env : Nat → ℝ := fun i => if i = 0 then 1.3 else 0.3
    env 1 ≠ 0 ∧ 0 < 1 - env 1 * env 1 / 4 ∧ 0 < czRad env 1.3 th ∧ 2 - Real.sqrt (czRad env 1.3 th) ≠ 0 := by
  intro env
  exact czarny_domain (env := env) (by norm_num [env]) (by norm_num [env]) (by norm_num [env])

/-- `ok` is not trivially true: `Fx` of the Czarny geometry is rejected for `ε = 0` -/
example : ¬ ok (fun _ => 0) 1 0 Gen.CzarnyGeometry_Fx := by
  simp [Gen.CzarnyGeometry_Fx, ok]

end C19
