import GMGProofs.Lemmas.DirectLemmas
import GMGProofs.Props.C03
import GMGProofs.Props.C05
import GMGProofs.Props.C16
/-!
# C04 — the coarse direct solve inverts the operator the residual applies

Property theorems only.  Operator: `Stencil.take` (`take o f x = f - A o x`, `A` of
`GMGProofs/Lemmas/StencilLemmas4.lean`); solver: `SparseLU.solve ∘ SparseLU.factorRows` (C16).
`Direct.oneHot s t` is the unit field of node `(s, t)`, `Direct.opEntry o i j s t := A o (oneHot s t) i j` the
matrix entry (`GMGProofs/Lemmas/DirectLemmas.lean`); unknowns are numbered row-major, `(i, j) ↦ i·nt + j`.
That the assembled CSR matrix of the implementation has these entries is the hypothesis `hM` of
`solve_inverts`, discharged by the correspondence harness (`matrix` mode).
-/
namespace C04
open Stencil Direct Finset SparseLU

section AnyField
variable {K : Type} [_root_.Field K]

/-! ## 1  the residual is affine -/

/-- every row of `A` is a fixed linear combination of the values of `x` -/
theorem A_linear (o : Op K) (x y : Stencil.Field K) (c : K) (i j : Nat) :
    A o (fun a b => x a b + c * y a b) i j = A o x i j + c * A o y i j := A_add_smul o x y c i j

/-- `A x` at a grid node reads grid values only (`2 ≤ nr` so that row 0 may read row 1; angular indices
    are wrapped) -/
theorem A_reads_grid (o : Op K) (x x' : Stencil.Field K) (hnr : 2 ≤ o.nr) (hnt : 0 < o.nt)
    (h : ∀ a b, a < o.nr → b < o.nt → x a b = x' a b) (i j : Nat) (hi : i < o.nr) (hj : j < o.nt) :
    A o x i j = A o x' i j := A_congr_grid o x x' hnr hnt h i j hi hj

/-- **take_affine**: `take o f x = f - Σ_s Σ_t opEntry · x s t` at every grid node -/
theorem take_affine (o : Op K) (hnr : 2 ≤ o.nr) (hnt : 0 < o.nt) (f x : Stencil.Field K) (i j : Nat)
    (hi : i < o.nr) (hj : j < o.nt) :
    take o f x i j = f i j - ∑ s ∈ range o.nr, ∑ t ∈ range o.nt, opEntry o i j s t * x s t := by
  rw [take_eq_sub_A, A_expand o hnr hnt x i j hi hj]

/-! ## 2  the sparse LU solve produces a zero residual -/

/-- **solve_inverts**: if the CSR matrix carries the operator's entries (row-major numbering), all pivots
    are non-zero and the solve returns `xv`, then the returned field has zero residual for the right-hand
    side `b` at every grid node -/
theorem solve_inverts (o : Op K) (hnr : 2 ≤ o.nr) (hnt : 0 < o.nt) (tiny : K → Bool) (M : CSR K)
    (hrows : M.rows = o.nr * o.nt)
    (hM : ∀ i j s t, i < o.nr → j < o.nt → s < o.nr → t < o.nt →
      toDense M (i * o.nt + j) (s * o.nt + t) = opEntry o i j s t)
    (hp : ∀ r, r < M.rows → den ((factorRows M).2.getD r []) r ≠ 0)
    (b xv : List K) (hb : b.length = M.rows)
    (hs : solve tiny (factorRows M) b = some xv) :
    ∀ i j, i < o.nr → j < o.nt →
      take o (fun i j => vget b (i * o.nt + j)) (fun i j => vget xv (i * o.nt + j)) i j = 0 := by
  intro i j hi hj
  have hlen : xv.length = o.nr * o.nt := by rw [← hrows]; exact solve_length tiny M hp b xv hb hs
  have hmul : mulDense M xv = b := C16.lu_solve tiny M hp b xv hb hs
  have hrow : i * o.nt + j < M.rows := by rw [hrows]; exact idx_lt hi hj
  have h1 := C16.mulDense_spec M xv (i * o.nt + j) hrow
  rw [hmul, hlen, sum_range_mul] at h1
  rw [take_affine o hnr hnt _ _ i j hi hj, h1, sub_eq_zero]
  apply sum_congr rfl; intro s hs'
  apply sum_congr rfl; intro t ht'
  rw [hM i j s t hi hj (by simpa using hs') (by simpa using ht')]

/-- … equivalently `A x = b` on the grid -/
theorem solve_inverts_A (o : Op K) (hnr : 2 ≤ o.nr) (hnt : 0 < o.nt) (tiny : K → Bool) (M : CSR K)
    (hrows : M.rows = o.nr * o.nt)
    (hM : ∀ i j s t, i < o.nr → j < o.nt → s < o.nr → t < o.nt →
      toDense M (i * o.nt + j) (s * o.nt + t) = opEntry o i j s t)
    (hp : ∀ r, r < M.rows → den ((factorRows M).2.getD r []) r ≠ 0)
    (b xv : List K) (hb : b.length = M.rows)
    (hs : solve tiny (factorRows M) b = some xv) :
    ∀ i j, i < o.nr → j < o.nt → A o (fun i j => vget xv (i * o.nt + j)) i j = vget b (i * o.nt + j) := by
  intro i j hi hj
  have := solve_inverts o hnr hnt tiny M hrows hM hp b xv hb hs i j hi hj
  rw [take_eq_sub_A] at this
  exact (sub_eq_zero.mp this).symm

/-! ## 3  zero residual determines the field -/

/-- **give_take_same**: if `A` is injective on grid fields, two fields with zero residual for the same
    right-hand side coincide on the grid -/
theorem give_take_same (o : Op K)
    (hinj : ∀ e : Stencil.Field K, (∀ i j, i < o.nr → j < o.nt → A o e i j = 0) →
      ∀ i j, i < o.nr → j < o.nt → e i j = 0)
    (f x y : Stencil.Field K)
    (hx : ∀ i j, i < o.nr → j < o.nt → take o f x i j = 0)
    (hy : ∀ i j, i < o.nr → j < o.nt → take o f y i j = 0) :
    ∀ i j, i < o.nr → j < o.nt → x i j = y i j := by
  intro i j hi hj
  have := hinj (fun a b => x a b - y a b) (fun a b ha hb => by
    have h1 := hx a b ha hb; have h2 := hy a b ha hb
    rw [take_eq_sub_A] at h1 h2
    rw [A_sub, ← sub_eq_zero.mp h1, ← sub_eq_zero.mp h2]; ring) i j hi hj
  exact sub_eq_zero.mp this

/-- the scatter encoding agrees: a field whose `give`-residual vanishes is the same solution -/
theorem give_take_same_give (o : Op K) (hnr : 4 ≤ o.nr) (hnt : 2 ≤ o.nt) (heven : o.nt % 2 = 0)
    (hk : ∀ j, j < o.nt → o.k (ja o j) = o.k j)
    (hinj : ∀ e : Stencil.Field K, (∀ i j, i < o.nr → j < o.nt → A o e i j = 0) →
      ∀ i j, i < o.nr → j < o.nt → e i j = 0)
    (f x y : Stencil.Field K)
    (hx : ∀ i j, i < o.nr → j < o.nt → take o f x i j = 0)
    (hy : ∀ i j, i < o.nr → j < o.nt → give o f y i j = 0) :
    ∀ i j, i < o.nr → j < o.nt → x i j = y i j :=
  give_take_same o hinj f x y hx
    (fun i j hi hj => by rw [← C03.give_eq_take o hnr hnt heven hk f y i j hi hj]; exact hy i j hi hj)

end AnyField

section Ordered
variable {K : Type} [_root_.Field K] [LinearOrder K] [IsStrictOrderedRing K]

/-- Dirichlet inner boundary + elliptic data: `A` IS injective on grid fields (from `C05.pd_dirichlet`) -/
theorem A_injective (o : Op K) (hnr : 4 ≤ o.nr) (hnt : 2 ≤ o.nt) (heven : o.nt % 2 = 0)
    (hbc : o.bc = true) (he : Elliptic o) (e : Stencil.Field K)
    (hA : ∀ i j, i < o.nr → j < o.nt → A o e i j = 0) : ∀ i j, i < o.nr → j < o.nt → e i j = 0 :=
  A_injective_dirichlet o hnr hnt heven hbc he e hA

/-- hence the discrete solution is unique, and whatever `solve` returns is THE solution -/
theorem solution_unique (o : Op K) (hnr : 4 ≤ o.nr) (hnt : 2 ≤ o.nt) (heven : o.nt % 2 = 0)
    (hbc : o.bc = true) (he : Elliptic o) (f x y : Stencil.Field K)
    (hx : ∀ i j, i < o.nr → j < o.nt → take o f x i j = 0)
    (hy : ∀ i j, i < o.nr → j < o.nt → take o f y i j = 0) :
    ∀ i j, i < o.nr → j < o.nt → x i j = y i j :=
  give_take_same o (A_injective o hnr hnt heven hbc he) f x y hx hy

/-! ## 4  Dirichlet case: the pivot hypothesis of `solve_inverts` is a theorem -/

/-- Dirichlet inner boundary + elliptic data: every leading principal block of the direct solver's matrix
    (row-major numbering) is injective (`A_injective_on` with the node set `{(i, j) | i·nt + j ≤ k}`) -/
theorem leading_injective_dirichlet (o : Op K) (hnr : 4 ≤ o.nr) (hnt : 2 ≤ o.nt) (heven : o.nt % 2 = 0)
    (hbc : o.bc = true) (he : Elliptic o) (M : CSR K) (hrows : M.rows = o.nr * o.nt)
    (hM : ∀ i j s t, i < o.nr → j < o.nt → s < o.nr → t < o.nt →
      toDense M (i * o.nt + j) (s * o.nt + t) = opEntry o i j s t) :
    ∀ k, k < M.rows → ∀ x : ℕ → K,
      (∀ i, i ≤ k → ∑ m ∈ range (k + 1), toDense M i m * x m = 0) → ∀ m, m ≤ k → x m = 0 := by
  intro k hk x hx
  set x' : ℕ → K := fun q => if q ≤ k then x q else 0 with hx'
  have hgrid := A_injective_on o hnr hnt heven hbc he (fun i j => i * o.nt + j ≤ k)
    (fun i j => x' (i * o.nt + j))
    (fun i j _ _ hS => by simp only [hx']; rw [if_neg hS])
    (fun i j hi hj hS => by
      rw [A_expand o (by omega) (by omega) _ i j hi hj]
      have h1 : ∑ s ∈ range o.nr, ∑ t ∈ range o.nt, opEntry o i j s t * x' (s * o.nt + t)
          = ∑ q ∈ range (o.nr * o.nt), toDense M (i * o.nt + j) q * x' q := by
        rw [sum_range_mul]
        apply sum_congr rfl; intro s hs'
        apply sum_congr rfl; intro t ht'
        rw [hM i j s t hi hj (by simpa using hs') (by simpa using ht')]
      rw [h1, ← hx (i * o.nt + j) hS]
      symm
      have hsub : range (k + 1) ⊆ range (o.nr * o.nt) := by
        intro q hq; simp at hq ⊢; omega
      rw [← Finset.sum_subset hsub (f := fun q => toDense M (i * o.nt + j) q * x' q)]
      · apply sum_congr rfl
        intro q hq
        have : q ≤ k := by have := Finset.mem_range.mp hq; omega
        simp only [hx', if_pos this]
      · intro q _ hq
        have : ¬ q ≤ k := by simp at hq; omega
        simp only [hx', if_neg this, mul_zero])
  intro m hm
  have hmlt : m < o.nt * o.nr := by rw [Nat.mul_comm]; omega
  have hdiv : m / o.nt < o.nr := Nat.div_lt_of_lt_mul hmlt
  have hmod : m % o.nt < o.nt := Nat.mod_lt _ (by omega)
  have := hgrid (m / o.nt) (m % o.nt) hdiv hmod
  rw [Nat.div_add_mod' m o.nt] at this
  simp only [hx', if_pos hm] at this
  exact this

/-- Dirichlet inner boundary + elliptic data: the matrix of the direct solver (row-major numbering) has no
    zero pivot — the elimination without pivoting of `sparseLUSolver.h` never divides by zero -/
theorem pivots_dirichlet (o : Op K) (hnr : 4 ≤ o.nr) (hnt : 2 ≤ o.nt) (heven : o.nt % 2 = 0)
    (hbc : o.bc = true) (he : Elliptic o) (M : CSR K) (hrows : M.rows = o.nr * o.nt)
    (hM : ∀ i j s t, i < o.nr → j < o.nt → s < o.nr → t < o.nt →
      toDense M (i * o.nt + j) (s * o.nt + t) = opEntry o i j s t) :
    ∀ r, r < M.rows → den ((factorRows M).2.getD r []) r ≠ 0 :=
  C16.pivots_of_leading_injective M (leading_injective_dirichlet o hnr hnt heven hbc he M hrows hM)

/-- … hence `solve_inverts` without the pivot hypothesis -/
theorem solve_inverts_dirichlet (o : Op K) (hnr : 4 ≤ o.nr) (hnt : 2 ≤ o.nt) (heven : o.nt % 2 = 0)
    (hbc : o.bc = true) (he : Elliptic o) (tiny : K → Bool) (M : CSR K) (hrows : M.rows = o.nr * o.nt)
    (hM : ∀ i j s t, i < o.nr → j < o.nt → s < o.nr → t < o.nt →
      toDense M (i * o.nt + j) (s * o.nt + t) = opEntry o i j s t)
    (b xv : List K) (hb : b.length = M.rows) (hs : solve tiny (factorRows M) b = some xv) :
    ∀ i j, i < o.nr → j < o.nt →
      take o (fun i j => vget b (i * o.nt + j)) (fun i j => vget xv (i * o.nt + j)) i j = 0 :=
  solve_inverts o (by omega) (by omega) tiny M hrows hM
    (pivots_dirichlet o hnr hnt heven hbc he M hrows hM) b xv hb hs

/-- … and the solve returns (no `std::exit`) as soon as no pivot passes the `tiny` test; what it returns is
    THE solution (`solution_unique`) -/
theorem solve_total_dirichlet (o : Op K) (hnr : 4 ≤ o.nr) (hnt : 2 ≤ o.nt) (heven : o.nt % 2 = 0)
    (hbc : o.bc = true) (he : Elliptic o) (tiny : K → Bool) (M : CSR K) (hrows : M.rows = o.nr * o.nt)
    (hM : ∀ i j s t, i < o.nr → j < o.nt → s < o.nr → t < o.nt →
      toDense M (i * o.nt + j) (s * o.nt + t) = opEntry o i j s t)
    (ht : ∀ r, r < M.rows → tiny (den ((factorRows M).2.getD r []) r) = false)
    (b : List K) (hb : b.length = M.rows) :
    ∃ xv, solve tiny (factorRows M) b = some xv ∧ ∀ i j, i < o.nr → j < o.nt →
      take o (fun i j => vget b (i * o.nt + j)) (fun i j => vget xv (i * o.nt + j)) i j = 0 := by
  obtain ⟨xv, hxv, _⟩ := C16.lu_solve_total tiny M
    (pivots_dirichlet o hnr hnt heven hbc he M hrows hM) ht b hb
  exact ⟨xv, hxv, solve_inverts_dirichlet o hnr hnt heven hbc he tiny M hrows hM b xv hb hxv⟩

end Ordered

/-! ## non-vacuity -/

/-- matrix entries of a concrete operator: the Dirichlet row is a unit row, an interior row is not -/
example : opEntry C05.exOpD 3 1 3 1 = 1 ∧ opEntry C05.exOpD 3 1 2 1 = 0 ∧
    opEntry C05.exOpD 1 1 1 1 ≠ 0 ∧ opEntry C05.exOpD 1 1 2 2 ≠ 0 := by
  refine ⟨by decide +kernel, by decide +kernel, by decide +kernel, by decide +kernel⟩

/-- `take_affine` evaluated: both sides agree (`-115/2`… whatever the value) on `C03.exOp` across the
    origin -/
example : take C03.exOp (fun i j => (i : ℚ) - j) (fun i j => (i : ℚ) * j + 1) 0 2
    = (0 : ℚ) - 2 - ∑ s ∈ range 4, ∑ t ∈ range 4, opEntry C03.exOp 0 2 s t * ((s : ℚ) * t + 1) :=
  take_affine C03.exOp (by decide) (by decide) _ _ 0 2 (by decide) (by decide)

/-- the hypotheses of `solution_unique` are satisfiable (`C05.exOpD` is elliptic, see C05) and
    `give_take_same`'s injectivity hypothesis is then a theorem -/
example (he : Elliptic C05.exOpD) (e : Stencil.Field ℚ)
    (hA : ∀ i j, i < 4 → j < 4 → A C05.exOpD e i j = 0) : e 1 2 = 0 :=
  A_injective C05.exOpD (by decide) (by decide) (by decide) rfl he e hA 1 2 (by decide) (by decide)

/-- `solve_inverts` end to end on a concrete system: the CSR matrix assembled from the entries of
    `C05.exOpD` (16 unknowns) satisfies every hypothesis, the solve returns, and the returned field has zero
    residual at all 16 nodes -/
example : ∃ xv, solve (fun _ => false) (factorRows (csrOf C05.exOpD)) exB = some xv ∧
    ∀ i j, i < 4 → j < 4 →
      take C05.exOpD (fun i j => vget exB (i * 4 + j)) (fun i j => vget xv (i * 4 + j)) i j = 0 := by
  have h : (csrOf C05.exOpD).rows = 4 * 4 ∧
      (∀ i, i < 4 → ∀ j, j < 4 → ∀ s, s < 4 → ∀ t, t < 4 →
        toDense (csrOf C05.exOpD) (i * 4 + j) (s * 4 + t) = opEntry C05.exOpD i j s t) ∧
      (∀ r, r < 16 → den ((factorRows (csrOf C05.exOpD)).2.getD r []) r ≠ 0) ∧
      (solve (fun _ => false) (factorRows (csrOf C05.exOpD)) exB).isSome = true := by
    decide +kernel
  obtain ⟨h1, h2, h3, h4⟩ := h
  obtain ⟨xv, hxv⟩ := Option.isSome_iff_exists.mp h4
  exact ⟨xv, hxv, solve_inverts C05.exOpD (by decide) (by decide) _ (csrOf C05.exOpD) h1
    (fun i j s t hi hj hs ht => h2 i hi j hj s hs t ht) h3 exB xv rfl hxv⟩

/-- `C05.exOpD` is elliptic (same proof as the anonymous example of C05) -/
theorem exOpD_elliptic : Elliptic C05.exOpD where
  h_pos := fun i _ => by simp only [C05.exOpD]; positivity
  k_pos := fun j _ => by simp only [C05.exOpD]; positivity
  arr_pos := fun i j _ _ => by simp only [C05.exOpD]; positivity
  att_pos := fun i j _ _ => by simp only [C05.exOpD]; positivity
  art_le := fun i j _ _ => by
    simp only [C05.exOpD]
    have hi : (0 : ℚ) ≤ i := Nat.cast_nonneg i
    have hj : (0 : ℚ) ≤ j := Nat.cast_nonneg j
    nlinarith [mul_nonneg hi hj, mul_nonneg (mul_nonneg hi hj) hi, mul_nonneg (mul_nonneg hi hj) hj]
  beta_nonneg := fun i _ => by simp only [C05.exOpD]; positivity
  det_nonneg := fun i j _ _ => by simp only [C05.exOpD]; positivity

/-- `pivots_dirichlet` / `solve_inverts_dirichlet` are not vacuous: for the assembled 16×16 system of
    `C05.exOpD` every hypothesis holds; the 16 pivots are non-zero BY THE THEOREM (not by evaluation), the
    solve returns, and the returned field has zero residual at all 16 nodes -/
example : (∀ r, r < 16 → den ((factorRows (csrOf C05.exOpD)).2.getD r []) r ≠ 0) ∧
    ∃ xv, solve (fun _ => false) (factorRows (csrOf C05.exOpD)) exB = some xv ∧
    ∀ i j, i < 4 → j < 4 →
      take C05.exOpD (fun i j => vget exB (i * 4 + j)) (fun i j => vget xv (i * 4 + j)) i j = 0 := by
  have h : (csrOf C05.exOpD).rows = 4 * 4 ∧
      (∀ i, i < 4 → ∀ j, j < 4 → ∀ s, s < 4 → ∀ t, t < 4 →
        toDense (csrOf C05.exOpD) (i * 4 + j) (s * 4 + t) = opEntry C05.exOpD i j s t) := by
    decide +kernel
  obtain ⟨h1, h2⟩ := h
  have hM : ∀ i j s t, i < 4 → j < 4 → s < 4 → t < 4 →
      toDense (csrOf C05.exOpD) (i * 4 + j) (s * 4 + t) = opEntry C05.exOpD i j s t :=
    fun i j s t hi hj hs ht => h2 i hi j hj s hs t ht
  exact ⟨pivots_dirichlet C05.exOpD (by decide) (by decide) (by decide) rfl exOpD_elliptic
      (csrOf C05.exOpD) h1 hM,
    solve_total_dirichlet C05.exOpD (by decide) (by decide) (by decide) rfl exOpD_elliptic
      (fun _ => false) (csrOf C05.exOpD) h1 hM (fun _ _ => rfl) exB rfl⟩

end C04
