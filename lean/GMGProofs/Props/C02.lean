import GMGProofs.Lemmas.RhsLemmas
import GMGProofs.Props.C03
import GMGProofs.Props.C05
import Mathlib.Algebra.Order.Field.Rat
import Mathlib.Tactic.NormNum
import Mathlib.Tactic.FieldSimp
/-!
# C02 — consistency ingredients of the right-hand side assembly

Property theorems only.  Model: `GMGModel/Rhs.lean` (`pdeRow`, `build`, `discretize`; transcribes
`build_rhs_f.cpp`) against the operator `Stencil.take`.  `Rhs.constData o c` / `Rhs.constLoad o c`
(data and discrete load of the constant solution `u ≡ c`, source `β c`, boundary value `c`) are defined in
`GMGProofs/Lemmas/RhsLemmas.lean`.  Any geometry, any grid, both boundary modes, any field `K`.
-/
namespace C02
open Stencil Rhs

variable {K : Type} [_root_.Field K]

/-! ## 1  load and mass term are compatible: constants are reproduced -/

/-- 9-point rows: with the load of `β c` the constant `c` has zero residual (all difference terms vanish,
    the four mixed terms cancel, the mass term equals the load) -/
theorem load_mass_compat_interior (o : Op K) (c : K) (i j : Nat) (h0 : 0 < i) (h1 : i + 1 < o.nr) :
    take o (constLoad o c) (fun _ _ => c) i j = 0 := by
  rw [C03.interior_rows o _ _ i j h0 h1]
  simp only [takeInterior, constLoad, constData, discretize, pdeRow_interior o h0 h1, if_true,
    if_neg (by omega : ¬ i = 0)]
  ring

/-- Dirichlet rows (outer boundary, inner boundary when `DirBC_Interior`, and every row index beyond) -/
theorem load_mass_compat_dirichlet (o : Op K) (c : K) (i j : Nat) (h : pdeRow o i = false) :
    take o (constLoad o c) (fun _ _ => c) i j = 0 := by
  rw [take_of_not_pdeRow o _ _ i j h]
  simp [constLoad, constData, discretize, h]

/-- the across-the-origin row: the residual of a constant is `¼ c (art₀,ⱼ₊₁ − art₀,ⱼ₋₁)` — the two mixed
    terms of the 7-point closure do NOT cancel in general -/
theorem origin_row_constant_defect (o : Op K) (hbc : o.bc = false) (c : K) (j : Nat) :
    take o (constLoad o c) (fun _ _ => c) 0 j
      = quarter * c * (o.art 0 (jp o j) - o.art 0 (jm o j)) := by
  rw [C03.origin_row o hbc]
  simp only [takeOrigin, constLoad, constData, discretize, pdeRow_origin o hbc, if_true]
  ring

/-- **load_mass_compat**: constants are reproduced at every row `0 < i`, at the Dirichlet row `0`, and at
    the across-the-origin row under `art 0 (j-1) = art 0 (j+1)` -/
theorem load_mass_compat (o : Op K) (c : K) (i j : Nat)
    (hrow : 0 < i ∨ o.bc = true ∨ o.art 0 (jm o j) = o.art 0 (jp o j)) :
    take o (constLoad o c) (fun _ _ => c) i j = 0 := by
  by_cases h0 : 0 < i
  · by_cases h1 : i + 1 < o.nr
    · exact load_mass_compat_interior o c i j h0 h1
    · exact load_mass_compat_dirichlet o c i j (pdeRow_outer o h0 (by omega))
  · have hi : i = 0 := by omega
    subst hi
    by_cases hbc : o.bc = true
    · exact load_mass_compat_dirichlet o c 0 j (pdeRow_inner_dirichlet o hbc)
    · have hbc' : o.bc = false := by simpa using hbc
      rcases hrow with h | h | h
      · omega
      · exact absurd h hbc
      · rw [origin_row_constant_defect o hbc', h]; ring

/-- the same statement with the load written out as in the task -/
theorem load_mass_compat' (o : Op K) (c : K) (i j : Nat)
    (hrow : 0 < i ∨ o.bc = true ∨ o.art 0 (jm o j) = o.art 0 (jp o j)) :
    take o (discretize o (fun i _ => if pdeRow o i then o.beta i * c else c)) (fun _ _ => c) i j = 0 :=
  load_mass_compat o c i j hrow

/-- over a field of characteristic ≠ 2 the condition at the origin row is also necessary (for `c ≠ 0`) -/
theorem origin_row_constant_iff (o : Op K) (h2 : (2 : K) ≠ 0) (hbc : o.bc = false) (c : K) (hc : c ≠ 0)
    (j : Nat) :
    take o (constLoad o c) (fun _ _ => c) 0 j = 0 ↔ o.art 0 (jm o j) = o.art 0 (jp o j) := by
  rw [origin_row_constant_defect o hbc]
  have h4 : (4 : K) ≠ 0 := by
    have : (4 : K) = 2 * 2 := by norm_num
    rw [this]; exact mul_ne_zero h2 h2
  have hq : (quarter : K) ≠ 0 := by
    simp only [quarter, Scalar.n_eq, Nat.cast_one, Nat.cast_ofNat]
    exact div_ne_zero one_ne_zero h4
  constructor
  · intro h
    rcases mul_eq_zero.mp h with h | h
    · exact absurd (mul_eq_zero.mp h) (by simp [hq, hc])
    · exact (sub_eq_zero.mp h).symm
  · intro h; rw [h]; ring

/-- **negative result** (documents the "artificial 7-point stencil" of the across-the-origin closure; a
    limit of what can be claimed, not a property violation): for `C03.exOp` (`bc = false`, `art` varying
    along circle 0) the constant `1` is NOT reproduced at node (0, 0) — the residual is `1/2` -/
theorem origin_row_not_constant_exact :
    C03.exOp.bc = false ∧ take C03.exOp (constLoad C03.exOp 1) (fun _ _ => 1) 0 0 = 1 / 2 ∧
    take C03.exOp (constLoad C03.exOp 1) (fun _ _ => 1) 0 0 ≠ 0 := by
  refine ⟨rfl, by decide +kernel, by decide +kernel⟩

/-! ## 2  Dirichlet rows reproduce the data -/

/-- `discretize_rhs_f` leaves the Dirichlet rows untouched -/
theorem discretize_dirichlet (o : Op K) (f : Stencil.Field K) (i j : Nat) (h : pdeRow o i = false) :
    discretize o f i j = f i j := by
  simp [discretize, h]

/-- outer boundary row: zero residual iff `x` equals the outer boundary data -/
theorem dirichlet_exact_outer (o : Op K) (hnr : 2 ≤ o.nr) (src bdIn bdOut x : Stencil.Field K) (j : Nat) :
    take o (discretize o (build o src bdIn bdOut)) x (o.nr - 1) j = 0 ↔ x (o.nr - 1) j = bdOut (o.nr - 1) j := by
  have hp : pdeRow o (o.nr - 1) = false := pdeRow_outer o (by omega) (by omega)
  rw [take_of_not_pdeRow o _ _ _ j hp, discretize_dirichlet o _ _ j hp]
  simp only [build, hp, if_neg (by omega : ¬ o.nr - 1 = 0)]
  rw [sub_eq_zero]
  exact ⟨fun h => h.symm, fun h => h.symm⟩

/-- inner boundary row (`DirBC_Interior`): zero residual iff `x` equals the inner boundary data -/
theorem dirichlet_exact_inner (o : Op K) (hbc : o.bc = true) (src bdIn bdOut x : Stencil.Field K) (j : Nat) :
    take o (discretize o (build o src bdIn bdOut)) x 0 j = 0 ↔ x 0 j = bdIn 0 j := by
  have hp : pdeRow o 0 = false := pdeRow_inner_dirichlet o hbc
  rw [take_of_not_pdeRow o _ _ _ j hp, discretize_dirichlet o _ _ j hp]
  simp only [build, hp]
  rw [sub_eq_zero]
  exact ⟨fun h => h.symm, fun h => h.symm⟩

/-- the same before the load scaling (`build_rhs_f` alone) -/
theorem dirichlet_exact_build (o : Op K) (src bdIn bdOut x : Stencil.Field K) (i j : Nat)
    (hp : pdeRow o i = false) :
    take o (build o src bdIn bdOut) x i j = 0 ↔ x i j = (if i = 0 then bdIn i j else bdOut i j) := by
  rw [take_of_not_pdeRow o _ _ _ j hp]
  simp only [build, hp]
  rw [sub_eq_zero]
  exact ⟨fun h => h.symm, fun h => h.symm⟩

/-! ## 3  the right-hand side program -/

/-- `pdeRow` is exactly the row classification of the operator: non-PDE rows are identity rows -/
theorem non_pde_rows_identity (o : Op K) (f x : Stencil.Field K) (i j : Nat) (h : pdeRow o i = false) :
    take o f x i j = f i j - x i j := take_of_not_pdeRow o f x i j h

/-- 9-point rows: source × `¼(h₁+h₂)(k₁+k₂)·det` -/
theorem rhs_program_interior (o : Op K) (src bdIn bdOut : Stencil.Field K) (i j : Nat)
    (h0 : 0 < i) (h1 : i + 1 < o.nr) :
    discretize o (build o src bdIn bdOut) i j
      = src i j * (quarter * (o.h (i - 1) + o.h i) * (o.k (jm o j) + o.k j) * o.det i j) := by
  simp only [discretize, build, pdeRow_interior o h0 h1, if_true, if_neg (by omega : ¬ i = 0)]

/-- across-the-origin row: `h₁ = 2 r₀` -/
theorem rhs_program_origin (o : Op K) (hbc : o.bc = false) (src bdIn bdOut : Stencil.Field K) (j : Nat) :
    discretize o (build o src bdIn bdOut) 0 j
      = src 0 j * (quarter * (2 * o.r0 + o.h 0) * (o.k (jm o j) + o.k j) * o.det 0 j) := by
  simp only [discretize, build, pdeRow_origin o hbc, if_true, Scalar.n_eq, Nat.cast_ofNat]

/-- Dirichlet rows: the boundary data, unscaled -/
theorem rhs_program_dirichlet (o : Op K) (src bdIn bdOut : Stencil.Field K) (i j : Nat)
    (hp : pdeRow o i = false) :
    discretize o (build o src bdIn bdOut) i j = if i = 0 then bdIn i j else bdOut i j := by
  rw [discretize_dirichlet o _ _ j hp]
  simp only [build, hp]
  rfl

/-- source and mass term carry the SAME weight `¼(h₁+h₂)(k₁+k₂)·det`: the residual of a 9-point row is
    weight × `(src − β x)` plus the diffusion part (`take o 0 x` with its mass term removed) -/
theorem load_is_mass_weight (o : Op K) (src bdIn bdOut x : Stencil.Field K) (i j : Nat)
    (h0 : 0 < i) (h1 : i + 1 < o.nr) :
    take o (discretize o (build o src bdIn bdOut)) x i j
      = quarter * (o.h (i - 1) + o.h i) * (o.k (jm o j) + o.k j) * o.det i j * (src i j - o.beta i * x i j)
        + take o (fun _ _ => 0) x i j
        + quarter * (o.h (i - 1) + o.h i) * (o.k (jm o j) + o.k j) * o.beta i * o.det i j * x i j := by
  rw [C03.interior_rows o _ _ i j h0 h1, C03.interior_rows o _ _ i j h0 h1]
  simp only [takeInterior, rhs_program_interior o _ _ _ i j h0 h1]
  ring

/-! ## 4  radial fluxes -/

/-- for `art = 0`, `β_i = 0` and `x` depending on `i` only, the 9-point row reduces to the difference of
    the two radial fluxes (the angular terms vanish) -/
theorem radial_flux_telescopes (o : Op K) (f : Stencil.Field K) (g : Nat → K) (i j : Nat)
    (hart : ∀ a b, o.art a b = 0) (hbeta : o.beta i = 0) :
    takeInterior o f (fun a _ => g a) i j
      = f i j - (-(half * (o.k (jm o j) + o.k j) / o.h (i - 1) * (o.arr i j + o.arr (i - 1) j) * (g (i - 1) - g i))
          - half * (o.k (jm o j) + o.k j) / o.h i * (o.arr i j + o.arr (i + 1) j) * (g (i + 1) - g i)) := by
  simp only [takeInterior, hart, hbeta]
  ring

/-- flux form: with `F i := ½(k₁+k₂)/h_i · (arr_{i,j} + arr_{i+1,j}) · (g_{i+1} − g_i)` the row reads
    `f − (F_{i-1} − F_i)`; summing over `i` telescopes -/
theorem radial_flux_form (o : Op K) (f : Stencil.Field K) (g : Nat → K) (i j : Nat) (h0 : 0 < i)
    (hart : ∀ a b, o.art a b = 0) (hbeta : o.beta i = 0) :
    let F : Nat → K := fun m => half * (o.k (jm o j) + o.k j) / o.h m * (o.arr m j + o.arr (m + 1) j) * (g (m + 1) - g m)
    takeInterior o f (fun a _ => g a) i j = f i j - (F (i - 1) - F i) := by
  intro F
  rw [radial_flux_telescopes o f g i j hart hbeta]
  simp only [F]
  have : i - 1 + 1 = i := by omega
  rw [this]
  ring

/-- **circ_linear_exact**: circular geometry (`arr = ½ r`, `art = 0`, `det = r`; `att` arbitrary), no
    reaction term, any non-uniform grid `r_{i+1} = r_i + h_i`: the discrete 9-point row is EXACT for
    `u(r, θ) = r`, whose source is `-Δ r = -1/r` -/
theorem circ_linear_exact (o : Op K) (h2 : (2 : K) ≠ 0) (r : Nat → K) (i j : Nat)
    (h0 : 0 < i) (h1 : i + 1 < o.nr)
    (hr : ∀ a, r (a + 1) = r a + o.h a)
    (harr : ∀ a b, o.arr a b = half * r a) (hart : ∀ a b, o.art a b = 0)
    (hdet : o.det i j = r i) (hbeta : o.beta i = 0)
    (hri : r i ≠ 0) (hh1 : o.h (i - 1) ≠ 0) (hh2 : o.h i ≠ 0) :
    take o (discretize o (fun a _ => -(1 / r a))) (fun a _ => r a) i j = 0 := by
  have h4 : (4 : K) ≠ 0 := by
    have : (4 : K) = 2 * 2 := by norm_num
    rw [this]; exact mul_ne_zero h2 h2
  have e1 : r (i - 1) = r i - o.h (i - 1) := by
    have := hr (i - 1)
    rw [(by omega : i - 1 + 1 = i)] at this
    exact eq_sub_of_add_eq this.symm
  have e2 := hr i
  rw [C03.interior_rows o _ _ i j h0 h1]
  simp only [takeInterior, discretize, pdeRow_interior o h0 h1, if_true, if_neg (by omega : ¬ i = 0),
    harr, hart, hdet, hbeta, e1, e2, half, quarter, Scalar.n_eq, Nat.cast_one, Nat.cast_ofNat,
    sub_self, mul_zero, zero_mul, add_zero, sub_zero]
  field_simp
  ring

/-! ## non-vacuity -/

/-- the origin-row hypothesis of `load_mass_compat` is satisfiable across the origin (`C03.exOp` with an
    `art` independent of `j`), and the theorem then applies at all nodes -/
example : ∀ i j, take ({ C03.exOp with art := fun i _ => i } : Op ℚ)
    (constLoad { C03.exOp with art := fun i _ => i } 5) (fun _ _ => 5) i j = 0 :=
  fun i j => load_mass_compat _ 5 i j (Or.inr (Or.inr rfl))

example : pdeRow C03.exOp 0 = true ∧ pdeRow C03.exOp 1 = true ∧ pdeRow C03.exOp 3 = false ∧
    pdeRow C05.exOpD 0 = false := by decide

example : (∀ a b, ({ C03.exOp with art := fun _ _ => 0, beta := fun _ => 0 } : Op ℚ).art a b = 0) :=
  fun _ _ => rfl

/-- `circ_linear_exact` on a genuinely non-uniform radial grid: `h_a = a + 1`, `r_a = 1 + a(a+1)/2` -/
example : let o : Op ℚ :=
      { nr := 5, nt := 4, bc := true, r0 := 1, h := fun a => a + 1, k := fun b => 1 + b,
        arr := fun a _ => half * (1 + a * (a + 1) / 2), att := fun a b => 1 + a + b, art := fun _ _ => 0,
        det := fun a _ => 1 + a * (a + 1) / 2, beta := fun _ => 0 }
    take o (discretize o (fun a _ => -(1 / (1 + (a : ℚ) * (a + 1) / 2)))) (fun a _ => 1 + (a : ℚ) * (a + 1) / 2) 2 1
      = 0 := by
  intro o
  exact circ_linear_exact o (by norm_num) (fun a => 1 + (a : ℚ) * (a + 1) / 2) 2 1 (by decide) (by decide)
    (fun a => by simp only [o]; push_cast; ring) (fun _ _ => rfl) (fun _ _ => rfl) rfl rfl
    (by norm_num) (by simp only [o]; norm_num) (by simp only [o]; norm_num)

end C02
