import GMGProofs.Lemmas.CycleFmg
import GMGProofs.Lemmas.CycleToy
/-!
# C09s — the FMG start-up (`initializeSolution`) is nested iteration and reads no stale data

Property theorems only.  Model: `MGCycle.initSolution`, `MGCycle.fmgLoop` (`GMGModel/Cycle.lean`), executed by
`MGCycle.exec` (`GMGModel/Solve.lean`).  Specification `fmgSpec`, `cycleSpec`, `exAt` in
`GMGProofs/Lemmas/Cycle{Spec,Fmg}.lean`; `cyc`, `excyc` are spelled out in `C10.cyc_unfold`, `C10.excyc_unfold`.

The start level is `levels - 1` (the code after the `fix:` commit).  `fmg_start_matters` documents what the
old start level `levels - 2` did for two levels.
All statements: every `V`, every `Ops V`, every memory, every number of levels, every cycle kind, every `fi ≥ 0`.
-/
namespace C09s
open MGCycle

variable {V : Type}

/-! ## the specification, spelled out -/

theorem fmgSpec_bottom (o : Ops V) (c : Cfg) (fk : Kind) (fi : Nat) (ex fgs : Bool) (g : Nat → V) (s : V) :
    fmgSpec o c fk fi ex fgs g 0 s = s := rfl

/-- one step of nested iteration: interpolate `s` from level `cur+1` to `cur`, run `fi` cycles there, go on -/
theorem fmgSpec_step (o : Ops V) (c : Cfg) (fk : Kind) (fi : Nat) (ex fgs : Bool) (g : Nat → V) (cur : Nat) (s : V) :
    fmgSpec o c fk fi ex fgs g (cur + 1) s =
      fmgSpec o c fk fi ex fgs g cur
        (iter (cycleSpec o c fk (exAt ex cur) fgs g cur) fi (o.fmgInterp (cur + 1) s)) := rfl

/-- the cycle run on level `d`: the plain cycle with the level's right-hand side … -/
theorem cycleSpec_plain (o : Ops V) (c : Cfg) (k : Kind) (fgs : Bool) (g : Nat → V) (d : Nat) (u : V) :
    cycleSpec o c k false fgs g d u = cyc o c k (c.levels - 1 - d) d u (g d) := rfl

/-- … or, on level 0 with extrapolation, the implicitly extrapolated one -/
theorem cycleSpec_extrap (o : Ops V) (c : Cfg) (k : Kind) (fgs : Bool) (g : Nat → V) (d : Nat) (u : V) :
    cycleSpec o c k true fgs g d u = excyc o c k fgs u (g 0) (g 1) := rfl

theorem exAt_iff (ex : Bool) (cur : Nat) : exAt ex cur = true ↔ ex = true ∧ cur = 0 := by simp [exAt]

/-! ## B1 — refinement -/

/-- `(0,sol)` after the start-up is nested iteration from the coarse solve, the right-hand sides being the
    `(l,rhs)` of the initial memory; plain and extrapolated -/
theorem fmg_refines (o : Ops V) (c : Cfg) (fk : Kind) (fi : Nat) (ex fgs : Bool) (m : Mem V) :
    exec o (initSolution c true fk fi ex fgs (c.levels - 1)) m (0, .sol) =
      fmgSpec o c fk fi ex fgs (fun l => m (l, .rhs)) (c.levels - 1)
        (o.solve (c.levels - 1) (m (c.levels - 1, .rhs))) :=
  initSolution_val o c fk fi ex fgs m

/-- the right-hand sides survive the start-up -/
theorem fmg_keeps_rhs (o : Ops V) (c : Cfg) (fmg : Bool) (fk : Kind) (fi : Nat) (ex fgs : Bool) (start : Nat)
    (m : Mem V) (l : Nat) : exec o (initSolution c fmg fk fi ex fgs start) m (l, .rhs) = m (l, .rhs) :=
  initSolution_rhs o c fmg fk fi ex fgs start m l

/-! ## B2 — no stale data -/

theorem fmg_no_stale (o : Ops V) (c : Cfg) (fk : Kind) (fi : Nat) (ex fgs : Bool) (m m' : Mem V)
    (h : ∀ l, m (l, .rhs) = m' (l, .rhs)) :
    exec o (initSolution c true fk fi ex fgs (c.levels - 1)) m (0, .sol) =
      exec o (initSolution c true fk fi ex fgs (c.levels - 1)) m' (0, .sol) := by
  rw [initSolution_val, initSolution_val, h]
  have : (fun l => m (l, Buf.rhs)) = fun l => m' (l, Buf.rhs) := funext h
  rw [this]

/-- without FMG the start is the zero vector -/
theorem nofmg_start (o : Ops V) (c : Cfg) (fk : Kind) (fi : Nat) (ex fgs : Bool) (start : Nat) (m : Mem V) :
    exec o (initSolution c false fk fi ex fgs start) m (0, .sol) = o.zero 0 :=
  initSolution_nofmg o c fk fi ex fgs start m

/-! ## B3 — two levels, no FMG cycles -/

theorem fmg_two_level (o : Ops V) (c : Cfg) (fk : Kind) (ex fgs : Bool) (m : Mem V) (hL : c.levels = 2) :
    exec o (initSolution c true fk 0 ex fgs (c.levels - 1)) m (0, .sol) =
      o.fmgInterp 1 (o.solve 1 (m (1, .rhs))) := by
  rw [initSolution_val, hL]; rfl

/-! ## B4 — the old start level -/

/-- with the old start level `levels - 2` and two levels the program is the coarse solve only … -/
theorem fmg_start_matters :
    initSolution ⟨2, 1, 1⟩ true .V 0 false true (2 - 2) =
      [.copy (1, .sol) (1, .rhs), .directSolve 1 (1, .sol)] := rfl

/-- … no instruction writes `(0,sol)`, for any kind and any number of FMG cycles … -/
theorem fmg_old_start_writes (nu1 nu2 : Nat) (fk : Kind) (fi : Nat) (ex fgs : Bool) :
    ∀ i ∈ initSolution ⟨2, nu1, nu2⟩ true fk fi ex fgs (2 - 2), ((0, .sol) : Ref) ∉ writes i := by
  intro i hi
  simp [initSolution] at hi
  rcases hi with h | h <;> subst h <;> simp [writes]

/-- … so the solve started from whatever `(0,sol)` held before -/
theorem fmg_old_start_stale (o : Ops V) (nu1 nu2 : Nat) (fk : Kind) (fi : Nat) (ex fgs : Bool) (m : Mem V) :
    exec o (initSolution ⟨2, nu1, nu2⟩ true fk fi ex fgs (2 - 2)) m (0, .sol) = m (0, .sol) := by
  simp [initSolution, stepI, upd]

/-! ## non-vacuity -/

/-- three levels, one F-cycle per level, extrapolated on level 0: junk `5` or `-9` in the work vectors gives
    the same start -/
example : exec toyOps (initSolution ⟨3, 1, 1⟩ true .F 1 true false 2) (toyMem (fun l => l + 1) 5) (0, .sol) =
    exec toyOps (initSolution ⟨3, 1, 1⟩ true .F 1 true false 2) (toyMem (fun l => l + 1) (-9)) (0, .sol) :=
  fmg_no_stale toyOps ⟨3, 1, 1⟩ .F 1 true false _ _ (fun l => by simp [toyMem])

/-- the start does depend on the right-hand sides -/
example : exec toyOps (initSolution ⟨2, 1, 1⟩ true .V 0 false true 1) (toyMem (fun _ => 1) 5) (0, .sol) ≠
    exec toyOps (initSolution ⟨2, 1, 1⟩ true .V 0 false true 1) (toyMem (fun _ => 2) 5) (0, .sol) := by
  have h1 := fmg_two_level toyOps ⟨2, 1, 1⟩ .V false true (toyMem (fun _ => 1) 5) rfl
  have h2 := fmg_two_level toyOps ⟨2, 1, 1⟩ .V false true (toyMem (fun _ => 2) 5) rfl
  simp only [Nat.add_one_sub_one] at h1 h2
  rw [h1, h2]; decide

/-- with the old start level the junk is the start -/
example : exec toyOps (initSolution ⟨2, 1, 1⟩ true .V 0 false true (2 - 2)) (toyMem (fun _ => 1) 5) (0, .sol) = 5 := by
  rw [fmg_old_start_stale]; rfl

end C09s
