import GMGModel.SmootherGiveCode
import Generated.Stencils
import GMGProofs.Lemmas.SmootherGiveCode9
import GMGProofs.Props.C06c
import GMGProofs.Props.C06d
import GMGProofs.Props.C03
/-!
# C06 (code level, give) — `SmootherGive` assembles the matrices of `SmootherTake` and performs its sweep

Model: `GMGModel/SmootherGiveCode.lean` (every node's accumulating stores `+=` into its own line matrix and the line matrices
of its neighbours through `UPDATE_MATRIX_ELEMENT` / `COO_CSR_UPDATE`, in the sequential node order, on zero-initialised
storage; `smoothingSequential`: `temp = rhs`, four scatter passes `temp -= A_sc^ortho x` each followed by the in-place line
solves of its colour).  Over a field the order of the `+=` / `-=` is immaterial, so the statements also cover the
3-coloured parallel orders of `buildAscMatrices` / `smoothingForLoop`.

(a) `give_matrices_eq_take`, `give_inner_eq_take`: every stored array is the array `SmootherCode` (take) stores;
(b) `give_temp_eq_take`: after each scatter pass the slices of `temp` the following line solves are given hold
    `SmootherCode.orthoCircle` / `orthoRadial` of the iterate at that moment (and the solves of a colour do not invalidate
    each other's slices: `SmootherGiveCode.circle_fold`, `radial_fold`);
(c) `give_sweep_eq_take_sweep`: the give sweep returns the same array as `SmootherCode.sweep`, hence every C06c / C06d
    theorem transfers (`give_code_sweep_isSweep`, `…_dirichlet`, `…_total_dirichlet`, `…_energy_dirichlet`): "the smoother
    gives the same result with either strategy".
Property theorems only; helper lemmas in `GMGProofs/Lemmas/SmootherGiveCode{1..9}.lean`.
-/
namespace C06g
open Stencil Smoother SmootherCode

/-- the CSR offsets the model writes through (Center 0, Left 1, Bottom 2, Top 3; Center 0 in a Dirichlet row) are those of
    `circle_stencil_across_origin_` / `stencil_DB_` of `smootherGive.h`, as regenerated on every check -/
theorem inner_offsets_generated :
    Stencils.Gen.SmootherGive_circle_stencil_across_origin.getD DirectCode.Pos.Center.idx (-1) = 0 ∧
    Stencils.Gen.SmootherGive_circle_stencil_across_origin.getD DirectCode.Pos.Left.idx (-1) = 1 ∧
    Stencils.Gen.SmootherGive_circle_stencil_across_origin.getD DirectCode.Pos.Bottom.idx (-1) = 2 ∧
    Stencils.Gen.SmootherGive_circle_stencil_across_origin.getD DirectCode.Pos.Top.idx (-1) = 3 ∧
    Stencils.Gen.SmootherGive_stencil_DB.getD DirectCode.Pos.Center.idx (-1) = 0 := by decide

section AnyField
variable {K : Type} [_root_.Field K]

/-! ## (a) the stored arrays -/

/-- **the tridiagonal solver objects of both strategies hold the same arrays**: `main_diagonal`, `sub_diagonal`,
    `cyclic_corner_element` of every interior circle, `main_diagonal`, `sub_diagonal` of every radial line
    (no condition on the spacings, any inner boundary condition) -/
theorem give_matrices_eq_take (o : Op K) (nc : Nat) (hnc : 2 ≤ nc) (hnr : nc + 3 ≤ o.nr) (hnt : 3 ≤ o.nt) :
    (∀ i, 0 < i → i < nc →
      SmootherGiveCode.circleMain o nc i = circleMain o i ∧ SmootherGiveCode.circleSub o nc i = circleSub o i ∧
      SmootherGiveCode.circleCorner o nc i = circleCorner o i) ∧
    (∀ j, j < o.nt →
      SmootherGiveCode.radialMain o nc j = radialMain o nc j ∧ SmootherGiveCode.radialSub o nc j = radialSub o nc j) :=
  ⟨fun i hi0 hi => ⟨SmootherGiveCode.circleMain_eq o nc hnc hnr hnt i hi0 hi,
      SmootherGiveCode.circleSub_eq o nc hnc hnr hnt i hi0 hi, SmootherGiveCode.circleCorner_eq o nc hnc hnr hnt i hi0 hi⟩,
    fun j hj => ⟨SmootherGiveCode.radialMain_eq o nc hnc hnr hnt j hj, SmootherGiveCode.radialSub_eq o nc hnc hnr hnt j hj⟩⟩

/-- **the CSR matrix of the innermost circle**: row by row the same column indices and values in the same storage order,
    hence the same container.  Across the origin the angular spacing must be antipodally symmetric (`hk_needed`) -/
theorem give_inner_eq_take (o : Op K) (nc : Nat) (hnc : 2 ≤ nc) (hnr : nc + 3 ≤ o.nr) (hnt : 3 ≤ o.nt)
    (heven : o.nt % 2 = 0) (hk : o.bc = false → ∀ j, j < o.nt → o.k (ja o j) = o.k j) :
    (∀ j, j < o.nt → SmootherGiveCode.innerRow o nc j = innerRow o j) ∧ SmootherGiveCode.innerCSR o nc = innerCSR o :=
  ⟨fun j hj => SmootherGiveCode.innerRow_eq o nc hnc hnr hnt heven hk j hj,
    SmootherGiveCode.innerCSR_eq o nc hnc hnr hnt heven hk⟩

/-- Dirichlet inner boundary: no condition on the angular spacing -/
theorem give_inner_eq_take_dirichlet (o : Op K) (nc : Nat) (hnc : 2 ≤ nc) (hnr : nc + 3 ≤ o.nr) (hnt : 3 ≤ o.nt)
    (heven : o.nt % 2 = 0) (hbc : o.bc = true) : SmootherGiveCode.innerCSR o nc = innerCSR o :=
  (give_inner_eq_take o nc hnc hnr hnt heven (fun h => by rw [hbc] at h; cases h)).2

/-- the solver objects the sweep uses -/
theorem give_solvers_eq_take (o : Op K) (nc : Nat) (hnc : 2 ≤ nc) (hnr : nc + 3 ≤ o.nr) (hnt : 3 ≤ o.nt) :
    (∀ i, 0 < i → i < nc → SmootherGiveCode.circleSolverOf (SmootherGiveCode.allUpdates o nc) o.nt i = circleSolver o i) ∧
    (∀ j, j < o.nt → SmootherGiveCode.radialSolverOf (SmootherGiveCode.allUpdates o nc) (o.nr - nc) j = radialSolver o nc j) :=
  ⟨fun i hi0 hi => SmootherGiveCode.circleSolver_eq o nc hnc hnr hnt i hi0 hi,
    fun j hj => SmootherGiveCode.radialSolver_eq o nc hnc hnr hnt j hj⟩

/-- **no store of the scatter assembly leaves the allocated storage**: every `UPDATE_MATRIX_ELEMENT` / `COO_CSR_UPDATE` of every
    node addresses a cell of an existing solver object (circle solvers `1 … nc-1` of dimension `nt`, radial solvers of
    dimension `nr - nc` — never their unused corner cell —, CSR rows of 1 resp. 4 cells) -/
theorem give_stores_in_bounds (o : Op K) (nc : Nat) (hnc : 2 ≤ nc) (hnr : nc + 3 ≤ o.nr) :
    ∀ u ∈ SmootherGiveCode.allUpdates o nc, SmootherGiveCode.SlotInB o nc u.1 :=
  SmootherGiveCode.allUpdates_inB o nc hnc hnr

/-- every `COO_CSR_UPDATE` stores the column index its offset stands for in ITS ROW (Center: the row's node, Left: its
    antipode, Bottom / Top: its angular neighbours), whichever node performs it (`nt` even) -/
theorem give_csr_columns_consistent (o : Op K) (nc : Nat) (heven : o.nt % 2 = 0) :
    ∀ u ∈ SmootherGiveCode.allUpdates o nc, SmootherGiveCode.ColOK o u :=
  SmootherGiveCode.allUpdates_colOK o nc heven

/-! ## (b) the right-hand sides of the line solves -/

/-- **after each scatter pass the lines of its colour find `rhs - A_sc^ortho x` in `temp`**, provided their entries held `rhs`
    before (they do: `temp = rhs` at the start and no earlier pass or solve touches them, `SmootherGiveCode.sweepState_spec`);
    `x` is the iterate at the moment of the pass -/
theorem give_temp_eq_take (o : Op K) (nc : Nat) (hnc : 2 ≤ nc) (hnr : nc + 3 ≤ o.nr) (hnt : 0 < o.nt) (heven : o.nt % 2 = 0)
    (f : Stencil.Field K) (x t : Array K) (ht : t.size = o.nr * o.nt) :
    (∀ i ∈ blackCircles nc, ∀ q, q < o.nt → fld o.nt t i q = f i q →
      fld o.nt (SmootherGiveCode.orthoBlackCircles o nc x t) i q = orthoCircle o nc f (fld o.nt x) i q) ∧
    (∀ i ∈ whiteCircles nc, ∀ q, q < o.nt → fld o.nt t i q = f i q →
      fld o.nt (SmootherGiveCode.orthoWhiteCircles o nc x t) i q = orthoCircle o nc f (fld o.nt x) i q) ∧
    (∀ j ∈ blackRadials o.nt, ∀ p, nc ≤ p → p < o.nr → fld o.nt t p j = f p j →
      fld o.nt (SmootherGiveCode.orthoBlackRadials o nc f x t) p j = orthoRadial o nc f (fld o.nt x) p j) ∧
    (∀ j ∈ whiteRadials o.nt, ∀ p, nc ≤ p → p < o.nr → fld o.nt t p j = f p j →
      fld o.nt (SmootherGiveCode.orthoWhiteRadials o nc f x t) p j = orthoRadial o nc f (fld o.nt x) p j) :=
  ⟨fun i hi q hq hf => SmootherGiveCode.orthoBlackCircles_on o nc hnc hnr hnt f x t ht i q hi hq hf,
    fun i hi q hq hf => SmootherGiveCode.orthoWhiteCircles_on o nc hnc hnr hnt f x t ht i q hi hq hf,
    fun j hj p hp hp' hf => SmootherGiveCode.orthoBlackRadials_on o nc hnc hnr heven f x t ht p j hp hp' hj hf,
    fun j hj p hp hp' hf => SmootherGiveCode.orthoWhiteRadials_on o nc hnc hnr heven f x t ht p j hp hp' hj hf⟩

/-- … and a pass touches no entry of `temp` outside the lines of its colour (the other colour and the other section keep
    `rhs`, resp. the solution the previous solve left there) -/
theorem give_temp_untouched (o : Op K) (nc : Nat) (hnc : 2 ≤ nc) (hnr : nc + 3 ≤ o.nr) (hnt : 0 < o.nt)
    (heven : o.nt % 2 = 0) (f : Stencil.Field K) (x t : Array K) (ht : t.size = o.nr * o.nt) (p q : Nat) (hp : p < o.nr)
    (hq : q < o.nt) :
    (p ∉ blackCircles nc → fld o.nt (SmootherGiveCode.orthoBlackCircles o nc x t) p q = fld o.nt t p q) ∧
    (p ∉ whiteCircles nc → fld o.nt (SmootherGiveCode.orthoWhiteCircles o nc x t) p q = fld o.nt t p q) ∧
    (¬ (nc ≤ p ∧ q ∈ blackRadials o.nt) → fld o.nt (SmootherGiveCode.orthoBlackRadials o nc f x t) p q = fld o.nt t p q) :=
  ⟨SmootherGiveCode.orthoBlackCircles_off o nc hnc hnr hnt x t ht p q hp hq,
    SmootherGiveCode.orthoWhiteCircles_off o nc hnc hnr hnt x t ht p q hp hq,
    SmootherGiveCode.orthoBlackRadials_off o nc hnc hnr heven f x t ht p q hp hq⟩

/-! ## (c) the sweep -/

/-- **`SmootherGive::smoothingSequential` returns the array `SmootherTake::smoothing` returns** (both as modelled; `none` =
    the sparse LU's `std::exit` branch, taken by both or by neither) -/
theorem give_sweep_eq_take_sweep (o : Op K) (nc : Nat) (hnc : 2 ≤ nc) (hnr : nc + 3 ≤ o.nr) (hnt : 4 ≤ o.nt)
    (heven : o.nt % 2 = 0) (hk : o.bc = false → ∀ j, j < o.nt → o.k (ja o j) = o.k j) (tiny : K → Bool)
    (f : Stencil.Field K) (x : Array K) (hx : x.size = o.nr * o.nt) :
    SmootherGiveCode.sweep o nc tiny f x = sweep o tiny nc f x :=
  SmootherGiveCode.sweepState_spec o nc hnc hnr (by omega) heven hk tiny f x hx

/-- Dirichlet inner boundary: no condition on the angular spacing -/
theorem give_sweep_eq_take_sweep_dirichlet (o : Op K) (nc : Nat) (hnc : 2 ≤ nc) (hnr : nc + 3 ≤ o.nr) (hnt : 4 ≤ o.nt)
    (heven : o.nt % 2 = 0) (hbc : o.bc = true) (tiny : K → Bool) (f : Stencil.Field K) (x : Array K)
    (hx : x.size = o.nr * o.nt) :
    SmootherGiveCode.sweep o nc tiny f x = sweep o tiny nc f x :=
  give_sweep_eq_take_sweep o nc hnc hnr hnt heven (fun h => by rw [hbc] at h; cases h) tiny f x hx

/-- **refinement** (transfer of `C06c.code_sweep_isSweep`): whatever the give sweep returns satisfies the sweep equations of
    `GMGModel/Smoother.lean` -/
theorem give_code_sweep_isSweep (o : Op K) (nc : Nat) (tiny : K → Bool) (f : Stencil.Field K) (x y : Array K)
    (hnt : 4 ≤ o.nt) (heven : o.nt % 2 = 0) (hnc : 2 ≤ nc) (hnr : nc + 3 ≤ o.nr)
    (hk : o.bc = false → ∀ j, j < o.nt → o.k (ja o j) = o.k j) (hx : x.size = o.nr * o.nt)
    (hl : C06c.LinesOK o nc) (hs : SmootherGiveCode.sweep o nc tiny f x = some y) :
    IsSweep o nc f (fld o.nt x) (fld o.nt y) := by
  rw [give_sweep_eq_take_sweep o nc hnc hnr hnt heven hk tiny f x hx] at hs
  exact C06c.code_sweep_isSweep o nc tiny f x y hnt heven hnc hnr hx hl hs

/-- transfer of `C06c.code_sweep_total` -/
theorem give_code_sweep_total (o : Op K) (nc : Nat) (tiny : K → Bool) (f : Stencil.Field K) (x : Array K)
    (hnt : 4 ≤ o.nt) (heven : o.nt % 2 = 0) (hnc : 2 ≤ nc) (hnr : nc + 3 ≤ o.nr)
    (hk : o.bc = false → ∀ j, j < o.nt → o.k (ja o j) = o.k j) (hx : x.size = o.nr * o.nt)
    (ht : ∀ i, i < o.nt → tiny (SparseLU.den ((SparseLU.factorRows (innerCSR o)).2.getD i []) i) = false) :
    ∃ y, SmootherGiveCode.sweep o nc tiny f x = some y := by
  rw [give_sweep_eq_take_sweep o nc hnc hnr hnt heven hk tiny f x hx]
  exact C06c.code_sweep_total o nc tiny f x ht

/-- the scatter passes and solves keep the size of the arrays -/
theorem give_sweep_size (o : Op K) (nc : Nat) (tiny : K → Bool) (f : Stencil.Field K) (x y : Array K)
    (hnt : 4 ≤ o.nt) (heven : o.nt % 2 = 0) (hnc : 2 ≤ nc) (hnr : nc + 3 ≤ o.nr)
    (hk : o.bc = false → ∀ j, j < o.nt → o.k (ja o j) = o.k j) (hx : x.size = o.nr * o.nt)
    (hs : SmootherGiveCode.sweep o nc tiny f x = some y) : y.size = x.size := by
  rw [give_sweep_eq_take_sweep o nc hnc hnr hnt heven hk tiny f x hx] at hs
  exact C06c.sweep_size o nc tiny f x y hs

end AnyField

section Ordered
variable {K : Type} [_root_.Field K] [LinearOrder K] [IsStrictOrderedRing K]

/-- Dirichlet inner boundary, elliptic data: the give sweep is an exact zebra relaxation, no hypothesis about the line
    solves left (transfer of `C06d.code_sweep_isSweep_dirichlet`) -/
theorem give_code_sweep_isSweep_dirichlet (o : Op K) (nc : Nat) (tiny : K → Bool) (f : Stencil.Field K) (x y : Array K)
    (hnr : nc + 3 ≤ o.nr) (hnc : 2 ≤ nc) (hnt : 4 ≤ o.nt) (heven : o.nt % 2 = 0) (hbc : o.bc = true) (he : Elliptic o)
    (hx : x.size = o.nr * o.nt) (hs : SmootherGiveCode.sweep o nc tiny f x = some y) :
    IsSweep o nc f (fld o.nt x) (fld o.nt y) := by
  rw [give_sweep_eq_take_sweep_dirichlet o nc hnc hnr hnt heven hbc tiny f x hx] at hs
  exact C06d.code_sweep_isSweep_dirichlet o nc tiny f x y hnr hnc hnt heven hbc he hx hs

omit [LinearOrder K] [IsStrictOrderedRing K] in
/-- … and it returns (transfer of `C06d.code_sweep_total_dirichlet`) -/
theorem give_code_sweep_total_dirichlet (o : Op K) (nc : Nat) (tiny : K → Bool) (ht : tiny 1 = false)
    (f : Stencil.Field K) (x : Array K) (hnr : nc + 3 ≤ o.nr) (hnc : 2 ≤ nc) (hnt : 4 ≤ o.nt) (heven : o.nt % 2 = 0)
    (hbc : o.bc = true) (hx : x.size = o.nr * o.nt) : ∃ y, SmootherGiveCode.sweep o nc tiny f x = some y := by
  rw [give_sweep_eq_take_sweep_dirichlet o nc hnc hnr hnt heven hbc tiny f x hx]
  exact C06d.code_sweep_total_dirichlet o nc tiny ht f x hbc

/-- … and never increases the energy norm of the error (transfer of `C06d.code_sweep_energy_dirichlet`) -/
theorem give_code_sweep_energy_dirichlet (o : Op K) (nc : Nat) (tiny : K → Bool) (f u : Stencil.Field K) (x y : Array K)
    (hnr : nc + 3 ≤ o.nr) (hnc : 2 ≤ nc) (hnt : 4 ≤ o.nt) (heven : o.nt % 2 = 0) (hbc : o.bc = true) (he : Elliptic o)
    (hx : x.size = o.nr * o.nt) (hs : SmootherGiveCode.sweep o nc tiny f x = some y)
    (hu : ∀ i j, i < o.nr → j < o.nt → take o f u i j = 0)
    (hxD : ∀ j, j < o.nt → fld o.nt x (o.nr - 1) j = f (o.nr - 1) j ∧ fld o.nt x 0 j = f 0 j) :
    inner o (A o (gridErr o (fld o.nt y) u)) (gridErr o (fld o.nt y) u)
      ≤ inner o (A o (gridErr o (fld o.nt x) u)) (gridErr o (fld o.nt x) u) := by
  rw [give_sweep_eq_take_sweep_dirichlet o nc hnc hnr hnt heven hbc tiny f x hx] at hs
  exact C06d.code_sweep_energy_dirichlet o nc tiny f u x y hnr hnc hnt heven hbc he hx hs hu hxD

end Ordered

/-! ## sharpness and non-vacuity -/

/-- `C03.badOp` (angular spacing NOT antipodally symmetric, all other hypotheses of `give_inner_eq_take` hold) with five
    radial nodes -/
def badOp : Op ℚ := { C03.badOp with nr := 5 }

/-- the antipodal symmetry of the angular spacing is needed across the origin: on `badOp` the scatter assembly stores another
    "Center" and another "Left" value in row 0 of the innermost circle's matrix than the gather assembly -/
theorem hk_needed :
    2 ≤ 2 ∧ 2 + 3 ≤ badOp.nr ∧ 3 ≤ badOp.nt ∧ badOp.nt % 2 = 0 ∧ badOp.bc = false ∧
    SmootherGiveCode.innerRow badOp 2 0 ≠ innerRow badOp 0 := by
  decide +kernel

/-- `nc + 3 ≤ nr` (`lengthSmootherRadial() >= 3`, asserted by the C++) is needed: with two radial nodes per line the node next
    to the circles is ALSO the node next to the outer boundary; the macro treats it as the former and stores its coupling to
    the Dirichlet node in `sub_diagonal(0)`, where the gather assembly stores `0.0` -/
theorem hnr_needed :
    SmootherGiveCode.radialSub { C06c.exOp with nr := 4 } 2 0 ≠ radialSub { C06c.exOp with nr := 4 } 2 0 := by
  decide +kernel

/-- the hypotheses of `give_sweep_eq_take_sweep` are satisfiable across the origin with a non-constant angular spacing
    (`C06c.exOp`, `nc = 2`); the give sweep then returns the 20 rationals of `C06c.exY` … -/
theorem exY_give : SmootherGiveCode.sweep C06c.exOp 2 C06c.exTiny C06c.exF C06c.exX = some C06c.exY := by
  rw [give_sweep_eq_take_sweep C06c.exOp 2 (by decide) (by decide) (by decide) (by decide) ?_ C06c.exTiny C06c.exF C06c.exX
    (by decide +kernel)]
  · exact C06c.exY_spec
  · intro _ j hj
    have : j < 4 := hj
    rcases (by omega : j = 0 ∨ j = 1 ∨ j = 2 ∨ j = 3) with rfl | rfl | rfl | rfl <;> simp [C06c.exOp, ja]

/-- … independently confirmed by evaluating the scatter model in the kernel -/
example : SmootherGiveCode.sweep C06c.exOp 2 C06c.exTiny C06c.exF C06c.exX = sweep C06c.exOp C06c.exTiny 2 C06c.exF C06c.exX := by
  decide +kernel

/-- … and by the transferred refinement theorem they satisfy the sweep equations -/
example : IsSweep C06c.exOp 2 C06c.exF (fld 4 C06c.exX) (fld 4 C06c.exY) :=
  give_code_sweep_isSweep C06c.exOp 2 C06c.exTiny C06c.exF C06c.exX C06c.exY (by decide) (by decide) (by decide) (by decide)
    (by
      intro _ j hj
      have : j < 4 := hj
      rcases (by omega : j = 0 ∨ j = 1 ∨ j = 2 ∨ j = 3) with rfl | rfl | rfl | rfl <;> simp [C06c.exOp, ja])
    (by decide +kernel) C06c.exOp_linesOK exY_give

end C06g
