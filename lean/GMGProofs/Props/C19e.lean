import GMGProofs.Props.C19i
import GMGProofs.Props.C10i
import GMGProofs.Props.C10j
/-!
# Shipped test problem → fixed point of the concrete cycle, in one statement

Composition of `C19i` (the shipped geometries and coefficient profiles are admissible inputs) with `C10i.concrete_exact_fixed_setup`
(inputs → caches → hierarchy → the concrete V-, W-, F-cycle leaves the exact discrete solution unchanged).  Possible in one file since
the model's control-flow namespace is `MGCycle` (it used to be `Cycle`, which collides with Mathlib's `Cycle` of
`Mathlib.Data.List.Cycle` that the analysis imports bring in).

For every shipped (geometry, profile) pair, every finest shape and level cap the level selection accepts, every nested chain of level
grids inside the domain with automatic splits, both cache flags, a Dirichlet inner boundary: a V-, W- or F-cycle with any smoothing
counts of the code-level model, started from the exact discrete solution, returns it.  What remains a hypothesis is the `tiny` test
of the sparse LU on the coarse pivots (it compares an absolute value with 1e-12: known finding F7) and on the literal 1.
-/
namespace C19e
open MGCycle Concrete Stencil Cache Build GridGen GridGenL Grid Sym Sym.Expr InputFns C19i

/-- the three shipped analytic geometries (their four Jacobian functions as generated from the C++) with the parameter ranges of C19i -/
inductive Geo | circular | shafranov | czarny

def Geo.jac : Geo → Expr × Expr × Expr × Expr
  | .circular => (Gen.CircularGeometry_dFx_dr, Gen.CircularGeometry_dFy_dr, Gen.CircularGeometry_dFx_dt, Gen.CircularGeometry_dFy_dt)
  | .shafranov => (Gen.ShafranovGeometry_dFx_dr, Gen.ShafranovGeometry_dFy_dr, Gen.ShafranovGeometry_dFx_dt, Gen.ShafranovGeometry_dFy_dt)
  | .czarny => (Gen.CzarnyGeometry_dFx_dr, Gen.CzarnyGeometry_dFy_dr, Gen.CzarnyGeometry_dFx_dt, Gen.CzarnyGeometry_dFy_dt)

/-- admissible parameters: `env 0 = Rmax > 0`; Shafranov `0 ≤ κ, 0 ≤ δ, κ + 2δ < 1`; Czarny `0 < ε < 1, e > 0` -/
def Geo.ParamsOK (env : Nat → ℝ) : Geo → Prop
  | .circular => 0 < env 0
  | .shafranov => 0 < env 0 ∧ 0 ≤ env 1 ∧ 0 ≤ env 2 ∧ env 1 + 2 * env 2 < 1
  | .czarny => 0 < env 0 ∧ 0 < env 1 ∧ env 1 < 1 ∧ 0 < env 2

noncomputable def shipped (env : Nat → ℝ) (g : Geo) (p : Expr × Expr) : Env ℝ :=
  shippedEnv env g.jac.1 g.jac.2.1 g.jac.2.2.1 g.jac.2.2.2 p.1 p.2

/-- C19i in one statement -/
theorem shipped_inputsOK (env : Nat → ℝ) (g : Geo) (hg : g.ParamsOK env) (p : Expr × Expr) (hp : p ∈ profiles)
    (G : GridData ℝ) (hG : GridOK env G) : C10i.InputsOK (shipped env g p) G := by
  cases g with
  | circular => exact inputsOK_Circular env hg p hp G hG
  | shafranov => exact inputsOK_Shafranov env hg.1 hg.2.1 hg.2.2.1 hg.2.2.2 p hp G hG
  | czarny => exact inputsOK_Czarny env hg.1 hg.2.1 hg.2.2.1 hg.2.2.2 p hp G hG

/-- **shipped problem → fixed point** -/
theorem shipped_exact_fixed (env : Nat → ℝ) (g : Geo) (hg : g.ParamsOK env) (p : Expr × Expr) (hp : p ∈ profiles)
    (grids : List (GridData ℝ)) (cc cg : Bool) (tiny : ℝ → Bool)
    (nr nt : Nat) (maxLevels : Int) (L : Nat) (crit : Nat → Nat → Bool)
    (hsel : chooseLevels nr nt maxLevels = .ok L) (hlen : grids.length = L)
    (hchain : List.IsChain C03c.Nested grids)
    (hshape : ∀ l (hl : l < grids.length), (grids[l]).g.nr = coarsenR l nr ∧ (grids[l]).g.nt = coarsenT l nt ∧
      (grids[l]).g.nc = Split.autoNc (crit l) (coarsenR l nr))
    (hgrid : ∀ G ∈ grids, GridOK env G)
    (k : Kind) (nu1 nu2 : Nat) (fgs : Bool) (u f : Array ℝ) (ht1 : tiny 1 = false)
    (M : SparseLU.CSR ℝ)
    (hM : DirectCode.assemble C04c.genTables (lvl (hier (shipped env g p) grids true cc cg tiny C04c.genTables) (L - 1)).op = some M)
    (ht : ∀ r, r < M.rows → tiny (SparseLU.den ((SparseLU.factorRows M).2.getD r []) r) = false)
    (hu : u.size = nr * nt)
    (hsol : ∀ i j, i < nr → j < nt →
      take (lvl (hier (shipped env g p) grids true cc cg tiny C04c.genTables) 0).op (SmootherCode.fld nt f) (SmootherCode.fld nt u) i j = 0)
    (m : Mem (Option (Array ℝ))) (hm : m (0, Buf.sol) = some u) (hr : m (0, Buf.rhs) = some f) :
    cycle (hier (shipped env g p) grids true cc cg tiny C04c.genTables) ⟨L, nu1, nu2⟩ k false fgs m (0, Buf.sol) = some u :=
  C10i.concrete_exact_fixed_setup (shipped env g p) grids cc cg tiny nr nt maxLevels L crit hsel hlen hchain hshape
    (fun G hG => shipped_inputsOK env g hg p hp G (hgrid G hG)) k nu1 nu2 fgs u f ht1 M hM ht hu hsol m hm hr

/-- **shipped problem → fixed point of the implicitly extrapolated cycle** (either level-0 smoother): `C10j.concrete_exact_fixed_extrap_setup`
    with the input hypothesis discharged by C19i for every shipped geometry and coefficient profile -/
theorem shipped_exact_fixed_extrap (env : Nat → ℝ) (g : Geo) (hg : g.ParamsOK env) (p : Expr × Expr) (hp : p ∈ profiles)
    (grids : List (GridData ℝ)) (cc cg : Bool) (tiny : ℝ → Bool)
    (nr nt : Nat) (maxLevels : Int) (L : Nat) (crit : Nat → Nat → Bool)
    (hsel : chooseLevels nr nt maxLevels = .ok L) (hlen : grids.length = L)
    (hchain : List.IsChain C03c.Nested grids)
    (hshape : ∀ l (hl : l < grids.length), (grids[l]).g.nr = coarsenR l nr ∧ (grids[l]).g.nt = coarsenT l nt ∧
      (grids[l]).g.nc = Split.autoNc (crit l) (coarsenR l nr))
    (hgrid : ∀ G ∈ grids, GridOK env G)
    (k : Kind) (nu1 nu2 : Nat) (fgs : Bool) (u f f1 : Array ℝ) (ht1 : tiny 1 = false)
    (M : SparseLU.CSR ℝ)
    (hM : DirectCode.assemble C04c.genTables (lvl (hier (shipped env g p) grids true cc cg tiny C04c.genTables) (L - 1)).op = some M)
    (ht : ∀ r, r < M.rows → tiny (SparseLU.den ((SparseLU.factorRows M).2.getD r []) r) = false)
    (hu : u.size = nr * nt)
    (hsol : ∀ i j, i < nr → j < nt →
      take (lvl (hier (shipped env g p) grids true cc cg tiny C04c.genTables) 0).op (SmootherCode.fld nt f) (SmootherCode.fld nt u) i j = 0)
    (hsol1 : ∀ i j, i < coarsenR 1 nr → j < coarsenT 1 nt →
      take (lvl (hier (shipped env g p) grids true cc cg tiny C04c.genTables) 1).op (SmootherCode.fld (coarsenT 1 nt) f1)
        (Interp.inject (SmootherCode.fld nt u)) i j = 0)
    (m : Mem (Option (Array ℝ))) (hm : m (0, Buf.sol) = some u) (hr : m (0, Buf.rhs) = some f)
    (hr1 : m (1, Buf.rhs) = some f1) :
    cycle (hier (shipped env g p) grids true cc cg tiny C04c.genTables) ⟨L, nu1, nu2⟩ k true fgs m (0, Buf.sol) = some u :=
  C10j.concrete_exact_fixed_extrap_setup (shipped env g p) grids cc cg tiny nr nt maxLevels L crit hsel hlen hchain hshape
    (fun G hG => shipped_inputsOK env g hg p hp G (hgrid G hG)) k nu1 nu2 fgs u f f1 ht1 M hM ht hu hsol hsol1 m hm hr hr1

end C19e
