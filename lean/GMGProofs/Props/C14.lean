import GMGProofs.Lemmas.TridiagCyclicSPD
import Mathlib.Algebra.Order.Field.Rat
import Mathlib.Tactic.NormNum
/-!
# C14 — the symmetric (cyclic) tridiagonal LDLᵀ line solver

Property theorems only.  Model: `GMGModel/Tridiag.lean` (transcribes
`include/LinearAlgebra/symmetricTridiagonalSolver.h`).  Helper definitions
(`solveT`, `pivotsOK`, `Q`, `SPD`, `pivotsPos`, `SDD`, `gam`, `diagB`, `vdot`, `qB`, `Qc`, `SPDc`, `SDDc`) live in
`GMGProofs/Lemmas/Tridiag*.lean`.  All statements hold for every dimension `n`
(`n ≥ 1` plain, `n ≥ 2` cyclic) and every field `K` (ordered where positivity is mentioned).
-/
namespace C14
open Tridiag

/-! ## (d) the second call re-uses the stored factorisation — every scalar type, no field laws -/
section AnyScalar
variable {α : Type} [Scalar α]

/-- after any solve the object is marked factorised -/
theorem factorized_monotone (s : State α) (rhs : List α) : (solve s rhs).1.factorized = true := by
  unfold solve
  cases hc : s.cyclic <;> cases hf : s.factorized <;> simp [solveCyclic, solvePlain, hf]

/-- a second solve (any right-hand side) leaves the stored arrays, `gamma` and flags untouched -/
theorem state_stable (s : State α) (rhs rhs' : List α) :
    (solve (solve s rhs).1 rhs').1 = (solve s rhs).1 := by
  unfold solve
  cases hc : s.cyclic <;> cases hf : s.factorized <;> simp [solveCyclic, solvePlain, hc, hf]

/-- solving twice with the same right-hand side gives the identical result (cyclic and non-cyclic):
    the second call runs only the substitutions, on the arrays the first call stored -/
theorem resolve_identical (s : State α) (rhs : List α) :
    (solve (solve s rhs).1 rhs).2 = (solve s rhs).2 := by
  unfold solve
  cases hc : s.cyclic <;> cases hf : s.factorized <;> simp [solveCyclic, solvePlain, hc, hf]

/-- the code's three passes (`fwd`, `scale`, `bwd`) on the code's in-place factorisation perform
    exactly the arithmetic of the recursive elimination `solveT` -/
theorem three_pass_eq_elimination (a b y : List α) (c : α) (h1 : a.length = y.length)
    (h2 : b.length + 1 = a.length) :
    (solve (mk a b c false) y).2 = solveT a b y := by
  rw [solve_mk_plain, subst_factor_eq_solveT a b y h1 h2]

end AnyScalar

/-! ## (a) the plain solver is exact when no pivot vanishes -/
section Field
variable {K : Type} [Field K]

/-- `pivotsOK` is about the numbers the code stores in `main` -/
theorem pivotsOK_spec (a b : List K) (h : b.length + 1 = a.length) :
    pivotsOK a b ↔ ∀ d ∈ (factor a b).1, d ≠ 0 := pivotsOK_iff_factor a b h

theorem tridiag_solve (a b y : List K) (c : K) (h1 : a.length = y.length)
    (h2 : b.length + 1 = a.length) (hp : pivotsOK a b) :
    mulT a b (solve (mk a b c false) y).2 0 = y := by
  rw [three_pass_eq_elimination a b y c h1 h2]
  exact mulT_solveT_zero a b y h1 h2 hp

/-! ## (e) the cyclic solver (Sherman–Morrison with `γ = -a₀`) is exact under explicit conditions -/

theorem cyclic_solve_partial (a b y : List K) (c : K) (h1 : a.length = y.length)
    (h2 : b.length + 1 = a.length) (hn : 2 ≤ a.length) (ha : a.headD 0 ≠ 0)
    (hp : pivotsOK (diagB a c) b) (hden : 1 + vdot a c (qB a b c) ≠ 0) :
    mulC a b c (solve (mk a b c true) y).2 = y := by
  have h2' : b.length + 1 = (diagB a c).length := by simpa using h2
  rw [solve_mk_cyclic a b c y h2]
  have hx := subst_factor_eq_solveT (diagB a c) b y (by simpa using h1) h2'
  have hu : (diagB a c).length = (uRhs a.length (gam a) c).length := by rw [uRhs_length]; simp
  have hq : qB a b c = solveT (diagB a c) b (uRhs a.length (gam a) c) :=
    subst_factor_eq_solveT (diagB a c) b _ hu h2'
  rw [hx]
  rw [hq] at hden ⊢
  refine sherman_morrison a b c y _ _ h1 h2 hn ha ?_ ?_ ?_ ?_ hden
  · rw [solveT_length _ _ _ (by simpa using h1) h2']; simp
  · rw [solveT_length _ _ _ hu h2']; simp
  · exact mulT_solveT_zero _ _ _ (by simpa using h1) h2' hp
  · exact mulT_solveT_zero _ _ _ hu h2' hp

/-- `Q_B(x) = Qc(x) + (1/a₀) (-a₀ x₀ + c x_{n-1})²` -/
theorem cyclic_B_form (a b : List K) (c : K) (x : List K) (h1 : a.length = x.length)
    (h2 : b.length + 1 = a.length) (hn : 2 ≤ a.length) (ha : a.headD 0 ≠ 0) :
    Q (diagB a c) b x
      = Qc a b c x + 1 / a.headD 0 * ((-a.headD 0 * x.headD 0 + c * x.getLastD 0) *
          (-a.headD 0 * x.headD 0 + c * x.getLastD 0)) := by
  rw [Q_diagB a b c x h1 h2 hn ha]
  unfold vdot gam; field_simp; ring

end Field

/-! ## (b) SPD ⇒ positive pivots ⇒ exact solve -/
section Ordered
variable {K : Type} [Field K] [LinearOrder K] [IsStrictOrderedRing K]

theorem ldl_pivots_pos (a b : List K) (h : b.length + 1 = a.length) (spd : SPD a b) : pivotsPos a b :=
  spd_pivots a b h spd

omit [IsStrictOrderedRing K] in
theorem pivotsPos_ok (a b : List K) (h : pivotsPos a b) : pivotsOK a b := pivotsPos_pivotsOK a b h

theorem tridiag_solve_spd (a b y : List K) (c : K) (h1 : a.length = y.length)
    (h2 : b.length + 1 = a.length) (spd : SPD a b) :
    mulT a b (solve (mk a b c false) y).2 0 = y :=
  tridiag_solve a b y c h1 h2 (pivotsPos_ok a b (ldl_pivots_pos a b h2 spd))

/-! ## (c) strict diagonal dominance (with the implied positive diagonal) ⇒ SPD -/

theorem sdd_is_spd (a b : List K) (h : b.length + 1 = a.length) (sdd : SDD a b) : SPD a b :=
  sdd_spd a b h sdd

theorem tridiag_solve_sdd (a b y : List K) (c : K) (h1 : a.length = y.length)
    (h2 : b.length + 1 = a.length) (sdd : SDD a b) :
    mulT a b (solve (mk a b c false) y).2 0 = y :=
  tridiag_solve_spd a b y c h1 h2 (sdd_is_spd a b h2 sdd)

/-- cyclic version: dominance with the corner entry counted in the first and last row -/
theorem sddc_is_spdc (a b : List K) (c : K) (h : b.length + 1 = a.length) (sdd : SDDc a b c) :
    SPDc a b c := sddc_spdc a b c h sdd

/-! ## (f) SPD cyclic matrix ⇒ `B` SPD, denominator positive, cyclic solve exact (all n ≥ 2) -/

theorem cyclic_B_spd (a b : List K) (c : K) (h2 : b.length + 1 = a.length) (hn : 2 ≤ a.length)
    (spd : SPDc a b c) : SPD (diagB a c) b := spdc_diagB_spd a b c h2 hn spd

/-- the first diagonal entry (whose negative is the code's `γ`) is positive -/
theorem cyclic_head_pos (a b : List K) (c : K) (h2 : b.length + 1 = a.length)
    (hn : 2 ≤ a.length) (spd : SPDc a b c) : 0 < a.headD 0 := spdc_head_pos a b c h2 hn spd

theorem cyclic_B_pivots (a b : List K) (c : K) (h2 : b.length + 1 = a.length) (hn : 2 ≤ a.length)
    (spd : SPDc a b c) : pivotsPos (diagB a c) b :=
  spd_pivots _ _ (by simpa using h2) (cyclic_B_spd a b c h2 hn spd)

/-- the denominator `1 + v·q` of the code's `factor`, with `q` the vector the model computes -/
theorem cyclic_denominator (a b : List K) (c : K) (h2 : b.length + 1 = a.length) (hn : 2 ≤ a.length)
    (spd : SPDc a b c) : 0 < 1 + vdot a c (qB a b c) := by
  have h2' : b.length + 1 = (diagB a c).length := by simpa using h2
  have hp := pivotsPos_ok _ _ (cyclic_B_pivots a b c h2 hn spd)
  have hu : (diagB a c).length = (uRhs a.length (gam a) c).length := by rw [uRhs_length]; simp
  have hq : qB a b c = solveT (diagB a c) b (uRhs a.length (gam a) c) :=
    subst_factor_eq_solveT (diagB a c) b _ hu h2'
  rw [hq]
  refine denominator_pos a b c _ ?_ h2 hn spd (mulT_solveT_zero _ _ _ hu h2' hp)
  rw [solveT_length _ _ _ hu h2']; simp

/-- unconditional: the cyclic solve is exact for every SPD cyclic matrix of dimension `n ≥ 2`
    (`n = 2`, where the corner coincides with the sub-diagonal, and `n = 3` included) -/
theorem cyclic_solve (a b y : List K) (c : K) (h1 : a.length = y.length)
    (h2 : b.length + 1 = a.length) (hn : 2 ≤ a.length) (spd : SPDc a b c) :
    mulC a b c (solve (mk a b c true) y).2 = y :=
  cyclic_solve_partial a b y c h1 h2 hn (ne_of_gt (cyclic_head_pos a b c h2 hn spd))
    (pivotsPos_ok _ _ (cyclic_B_pivots a b c h2 hn spd))
    (ne_of_gt (cyclic_denominator a b c h2 hn spd))

theorem cyclic_solve_sdd (a b y : List K) (c : K) (h1 : a.length = y.length)
    (h2 : b.length + 1 = a.length) (hn : 2 ≤ a.length) (sdd : SDDc a b c) :
    mulC a b c (solve (mk a b c true) y).2 = y :=
  cyclic_solve a b y c h1 h2 hn (sddc_is_spdc a b c h2 sdd)

end Ordered

/-! ## the hypotheses are satisfiable on concrete data -/

example : pivotsOK [(4 : ℚ), 4, 4] [1, 1] := by simp [pivotsOK]; norm_num
example : pivotsPos [(4 : ℚ), 4, 4] [1, 1] := by simp [pivotsPos]; norm_num
example : SDD [(4 : ℚ), 4, 4] [1, -1] := by simp [SDD, sddFrom]; norm_num
example : SPD [(4 : ℚ), 4, 4] [1, -1] := sdd_is_spd _ _ rfl (by simp [SDD, sddFrom]; norm_num)
example : mulT [(4 : ℚ), 4, 4] [1, 1] (solve (mk [(4 : ℚ), 4, 4] [1, 1] 0 false) [1, 2, 3]).2 0 = [1, 2, 3] := by
  apply tridiag_solve
  · rfl
  · rfl
  · simp [pivotsOK]; norm_num

/-- cyclic, n = 4, and the two small sizes n = 2, n = 3 -/
example : SDDc [(4 : ℚ), 4, 4, 4] [1, -1, 1] (-1) := by simp [SDDc, SDD, sddFrom, setHead, setLast]; norm_num
example : SPDc [(4 : ℚ), 4, 4, 4] [1, -1, 1] (-1) :=
  sddc_is_spdc _ _ _ rfl (by simp [SDDc, SDD, sddFrom, setHead, setLast]; norm_num)
example : SDDc [(4 : ℚ), 4, 4] [1, 1] 1 := by simp [SDDc, SDD, sddFrom, setHead, setLast]; norm_num
example : SDDc [(4 : ℚ), 5] [1] 2 := by simp [SDDc, SDD, sddFrom, setHead, setLast]; norm_num
example : mulC [(4 : ℚ), 5] [1] 2 (solve (mk [(4 : ℚ), 5] [1] 2 true) [1, 2]).2 = [1, 2] :=
  cyclic_solve_sdd _ _ _ _ rfl rfl (by decide) (by simp [SDDc, SDD, sddFrom, setHead, setLast]; norm_num)
/-- hypotheses of `cyclic_solve_partial` on an indefinite matrix (not covered by `cyclic_solve`) -/
example : pivotsOK (diagB [(1 : ℚ), -3, 2] 1) [2, 1] ∧ 1 + vdot [(1 : ℚ), -3, 2] 1 (qB [(1 : ℚ), -3, 2] [2, 1] 1) ≠ 0 := by
  constructor
  · simp [diagB, gam, setHead, setLast, pivotsOK]; norm_num
  · simp [vdot, qB, diagB, gam, setHead, setLast, factor, factorFrom, subst, fwd, fwdFrom, scale, bwd, uRhs]
    norm_num

end C14
