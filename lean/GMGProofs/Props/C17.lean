import GMGProofs.Lemmas.GridLemmas
/-!
# C17 — grid node numbering is a bijection consistent with geometry and periodicity

Property theorems only.  Model: `GMGModel/Grid.lean` (transcribes `polargrid.inl`,
`polargrid.cpp`).  All statements hold for every grid shape: no bound on `nr`, `nt`, `nc`
other than `nt < 2^31` (the code stores it in an `int`).
-/
namespace C17
open Grid

/-- `wrapThetaIndex` is the mathematical residue, on both code paths. -/
theorem wrap_spec (g : Grid) (hv : g.Valid) (x : Int) : g.wrap x = x % (g.nt : Int) := by
  unfold wrap
  by_cases hp : g.pow2 = true
  · simp only [hp, if_true]
    have hf : pow2Flag g.nt = true := by rw [← hv.flag]; exact hp
    obtain ⟨k, hk⟩ := (pow2Flag_iff hv.nt_pos).mp hf
    have hk32 : k ≤ 32 := by
      have h1 := hv.nt_small
      rw [hk] at h1
      have : k < 31 := (Nat.pow_lt_pow_iff_right (by decide)).mp h1
      omega
    rw [hk, and32_pow2 x k hk32]; simp
  · simp only [hp]
    exact tmod_wrap x g.nt (by have := hv.nt_pos; omega)

theorem wrap_range (g : Grid) (hv : g.Valid) (x : Int) : 0 ≤ g.wrap x ∧ g.wrap x < g.nt := by
  rw [wrap_spec g hv]
  have : (0 : Int) < g.nt := by have := hv.nt_pos; omega
  exact ⟨Int.emod_nonneg x (by omega), Int.emod_lt_of_pos x this⟩

/-- periodicity for any integer number of turns -/
theorem wrap_periodic (g : Grid) (hv : g.Valid) (x m : Int) : g.wrap (x + m * g.nt) = g.wrap x := by
  rw [wrap_spec g hv, wrap_spec g hv, Int.add_mul_emod_self_right]

theorem wrap_id (g : Grid) (hv : g.Valid) (j : Nat) (hj : j < g.nt) : g.wrap j = j := by
  rw [wrap_spec g hv]; exact Int.emod_eq_of_lt (by omega) (by omega)

/-- `index` of an unwrapped angular index is `fastIndex` of its residue -/
theorem index_eq_fast (g : Grid) (hv : g.Valid) (i : Nat) (x : Int) :
    g.index i x = g.fastIndex i (x % (g.nt : Int)).toNat := by
  unfold index; rw [wrap_spec g hv]

theorem index_periodic (g : Grid) (hv : g.Valid) (i : Nat) (x m : Int) :
    g.index i (x + m * g.nt) = g.index i x := by
  unfold index; rw [wrap_periodic g hv]

/-- the optimised and the reference index functions agree -/
theorem fast_eq_ref (g : Grid) (i j : Nat) (hv : g.Valid) : g.fastIndex i j = g.refIndex i j := by
  unfold fastIndex refIndex
  split
  · rfl
  · have := hv.nc_le; omega

theorem circ_lt (g : Grid) (i j : Nat) (hi : i < g.nc) (hj : j < g.nt) : j + g.nt * i < g.ncirc := by
  unfold ncirc
  calc j + g.nt * i < g.nt + g.nt * i := by omega
    _ = g.nt * (i + 1) := by rw [Nat.mul_add]; omega
    _ ≤ g.nt * g.nc := Nat.mul_le_mul_left _ hi
    _ = g.nc * g.nt := Nat.mul_comm _ _

theorem and_mask (g : Grid) (hv : g.Valid) (hp : g.pow2 = true) (n : Nat) : n &&& (g.nt - 1) = n % g.nt := by
  have hf : pow2Flag g.nt = true := by rw [← hv.flag]; exact hp
  obtain ⟨k, hk⟩ := (pow2Flag_iff hv.nt_pos).mp hf
  rw [hk, Nat.and_two_pow_sub_one_eq_mod]

/-- the optimised and the reference inverse agree -/
theorem multi_eq_ref (g : Grid) (hv : g.Valid) (n : Nat) : g.multiIndex n = g.refMultiIndex n := by
  unfold multiIndex refMultiIndex
  by_cases hp : g.pow2 = true
  · simp only [hp, if_true, and_mask g hv hp]
  · simp only [hp]; rfl

/-- (i, j) ↦ node ↦ (i, j) -/
theorem multi_index (g : Grid) (hv : g.Valid) (i j : Nat) (hi : i < g.nr) (hj : j < g.nt) :
    g.multiIndex (g.fastIndex i j) = (i, j) := by
  rw [multi_eq_ref g hv]
  unfold refMultiIndex fastIndex
  have hnt := hv.nt_pos
  have hnc := hv.nc_le
  by_cases h : i < g.nc
  · have h1 := circ_lt g i j h hj
    simp only [h, if_true, h1]
    rw [Nat.add_mul_div_left _ _ hnt, Nat.add_mul_mod_self_left, Nat.div_eq_of_lt hj, Nat.mod_eq_of_lt hj]
    simp
  · have hl : i - g.nc < g.len := by unfold len; omega
    have hlpos : 0 < g.len := by omega
    simp only [h, if_false]
    have h2 : ¬ (g.ncirc + i - g.nc + g.len * j < g.ncirc) := by omega
    simp only [h2, if_false]
    have e : g.ncirc + i - g.nc + g.len * j - g.ncirc = (i - g.nc) + g.len * j := by omega
    rw [e, Nat.add_mul_mod_self_left, Nat.add_mul_div_left _ _ hlpos, Nat.mod_eq_of_lt hl, Nat.div_eq_of_lt hl]
    congr 1 <;> omega

/-- the image of the index map is inside `0 .. N-1` -/
theorem index_lt (g : Grid) (hv : g.Valid) (i j : Nat) (hi : i < g.nr) (hj : j < g.nt) :
    g.fastIndex i j < g.numNodes := by
  unfold fastIndex numNodes
  have hnc := hv.nc_le
  by_cases h : i < g.nc
  · simp only [h, if_true]
    have := circ_lt g i j h hj
    unfold ncirc at this
    calc j + g.nt * i < g.nc * g.nt := this
      _ ≤ g.nr * g.nt := Nat.mul_le_mul_right _ hnc
  · simp only [h, if_false]
    have hl : i - g.nc < g.len := by unfold len; omega
    have : g.len * j + (i - g.nc) < g.len * g.nt := by
      calc g.len * j + (i - g.nc) < g.len * j + g.len := by omega
        _ = g.len * (j + 1) := by rw [Nat.mul_add]; omega
        _ ≤ g.len * g.nt := Nat.mul_le_mul_left _ hj
    have e : g.nr * g.nt = g.nc * g.nt + g.len * g.nt := by
      unfold len; rw [← Nat.add_mul]; congr 1; omega
    unfold ncirc; omega

/-- node ↦ (i, j) ↦ node, with both components in range: the map is onto `0 .. N-1` -/
theorem index_multi (g : Grid) (hv : g.Valid) (n : Nat) (hn : n < g.numNodes) :
    (g.multiIndex n).1 < g.nr ∧ (g.multiIndex n).2 < g.nt ∧
    g.fastIndex (g.multiIndex n).1 (g.multiIndex n).2 = n := by
  rw [multi_eq_ref g hv]
  unfold refMultiIndex fastIndex
  have hnt := hv.nt_pos
  have hnc := hv.nc_le
  by_cases h : n < g.ncirc
  · simp only [h, if_true]
    have h1 : n / g.nt < g.nc := by
      apply (Nat.div_lt_iff_lt_mul hnt).mpr; exact h
    refine ⟨by omega, Nat.mod_lt _ hnt, ?_⟩
    simp only [h1, if_true]
    exact Nat.mod_add_div n g.nt
  · simp only [h, if_false]
    have e : g.numNodes = g.ncirc + g.len * g.nt := by
      unfold numNodes ncirc len; rw [← Nat.add_mul]; congr 1; omega
    have hm : n - g.ncirc < g.len * g.nt := by omega
    have hlpos : 0 < g.len := by
      rcases Nat.eq_zero_or_pos g.len with h0 | h0
      · rw [h0] at hm; simp at hm
      · exact h0
    have hr : (n - g.ncirc) % g.len < g.len := Nat.mod_lt _ hlpos
    have hq : (n - g.ncirc) / g.len < g.nt := (Nat.div_lt_iff_lt_mul hlpos).mpr (by rw [Nat.mul_comm]; exact hm)
    refine ⟨by unfold len at hr ⊢; omega, hq, ?_⟩
    have h3 : ¬ (g.nc + (n - g.ncirc) % g.len < g.nc) := by omega
    simp only [h3, if_false]
    have := Nat.mod_add_div (n - g.ncirc) g.len
    have e2 : g.ncirc + (g.nc + (n - g.ncirc) % g.len) - g.nc = g.ncirc + (n - g.ncirc) % g.len := by omega
    rw [e2]; omega

/-- injectivity, as a corollary of the left inverse -/
theorem index_injective (g : Grid) (hv : g.Valid) (i j i' j' : Nat) (hi : i < g.nr) (hj : j < g.nt)
    (hi' : i' < g.nr) (hj' : j' < g.nt) (h : g.fastIndex i j = g.fastIndex i' j') : (i, j) = (i', j') := by
  rw [← multi_index g hv i j hi hj, ← multi_index g hv i' j' hi' hj', h]

/-- the split partitions the nodes exactly: node numbers below `ncirc` are the circle nodes -/
theorem split_partition (g : Grid) (hv : g.Valid) (n : Nat) (hn : n < g.numNodes) :
    (n < g.ncirc ↔ (g.multiIndex n).1 < g.nc) ∧ g.ncirc + g.nrad = g.numNodes ∧ g.nc + g.len = g.nr := by
  have hnt := hv.nt_pos
  have hnc := hv.nc_le
  refine ⟨?_, ?_, by unfold len; omega⟩
  · rw [multi_eq_ref g hv]; unfold refMultiIndex
    by_cases h : n < g.ncirc
    · simp only [h, if_true, true_iff]
      exact (Nat.div_lt_iff_lt_mul hnt).mpr h
    · simp only [h, if_false, false_iff]; omega
  · unfold ncirc nrad numNodes len; rw [← Nat.add_mul]; congr 1; omega

/-! ### neighbour queries -/

theorem jm1_spec (g : Grid) (hv : g.Valid) (j : Nat) (hj : j < g.nt) :
    (g.jm1 j : Int) = ((j : Int) - 1) % g.nt := by
  unfold jm1
  have := hv.nt_pos
  by_cases h : (j : Int) - 1 < 0
  · simp only [h, if_true]
    have : j = 0 := by omega
    subst this
    have h1 : ((-1 : Int) + 1 * (g.nt : Int)) % g.nt = (-1 : Int) % g.nt := Int.add_mul_emod_self_right _ _ _
    have h2 : ((-1 : Int) + 1 * (g.nt : Int)) % g.nt = (-1 : Int) + 1 * (g.nt : Int) :=
      Int.emod_eq_of_lt (by omega) (by omega)
    simp only [Int.natCast_zero, Int.zero_sub]
    rw [← h1, h2]; omega
  · simp only [h, if_false]
    rw [Int.emod_eq_of_lt (by omega) (by omega)]; omega

theorem jp1_spec (g : Grid) (hv : g.Valid) (j : Nat) (hj : j < g.nt) :
    (g.jp1 j : Int) = ((j : Int) + 1) % g.nt := by
  unfold jp1
  have := hv.nt_pos
  by_cases h : j + 1 ≥ g.nt
  · simp only [h, if_true]
    have e : j + 1 = g.nt := by omega
    have : ((j : Int) + 1) = (g.nt : Int) := by omega
    rw [this, Int.emod_self]; omega
  · simp only [h, if_false]
    rw [Int.emod_eq_of_lt (by omega) (by omega)]; omega

theorem idxOrNone_lo (g : Grid) (i j : Nat) (hi : i < g.nr) :
    g.idxOrNone ((i : Int) - 1) j = if i = 0 then (-1 : Int) else ((g.refIndex (i - 1) j : Nat) : Int) := by
  unfold idxOrNone
  by_cases h : i = 0
  · subst h; simp
  · have h1 : ¬ ((i : Int) - 1 < 0 ∨ (i : Int) - 1 ≥ g.nr) := by omega
    have h2 : ((i : Int) - 1).toNat = i - 1 := by omega
    simp only [h1, h, if_false, h2]

theorem idxOrNone_hi (g : Grid) (i j : Nat) (hi : i < g.nr) :
    g.idxOrNone ((i : Int) + 1) j = if i + 1 = g.nr then (-1 : Int) else ((g.refIndex (i + 1) j : Nat) : Int) := by
  unfold idxOrNone
  by_cases h : i + 1 = g.nr
  · have h1 : ((i : Int) + 1 < 0 ∨ (i : Int) + 1 ≥ g.nr) := by omega
    simp only [h1, h, if_true]
  · have h1 : ¬ ((i : Int) + 1 < 0 ∨ (i : Int) + 1 ≥ g.nr) := by omega
    have h2 : ((i : Int) + 1).toNat = i + 1 := by omega
    simp only [h1, h, if_false, h2]

/-- adjacent and diagonal neighbours are the nodes `(i ± 1, j ± 1 mod nt)`, with `-1` exactly at the
    radial boundaries (`jm1`/`jp1` are the periodic predecessor/successor by `jm1_spec`/`jp1_spec`) -/
theorem neighbours_spec (g : Grid) (i j : Nat) (hi : i < g.nr) :
    g.adjacent i j = (if i = 0 then (-1 : Int) else ((g.refIndex (i - 1) j : Nat) : Int),
                      if i + 1 = g.nr then (-1 : Int) else ((g.refIndex (i + 1) j : Nat) : Int),
                      ((g.refIndex i (g.jm1 j) : Nat) : Int), ((g.refIndex i (g.jp1 j) : Nat) : Int)) ∧
    g.diagonal i j = (if i = 0 then (-1 : Int) else ((g.refIndex (i - 1) (g.jm1 j) : Nat) : Int),
                      if i + 1 = g.nr then (-1 : Int) else ((g.refIndex (i + 1) (g.jm1 j) : Nat) : Int),
                      if i = 0 then (-1 : Int) else ((g.refIndex (i - 1) (g.jp1 j) : Nat) : Int),
                      if i + 1 = g.nr then (-1 : Int) else ((g.refIndex (i + 1) (g.jp1 j) : Nat) : Int)) := by
  unfold adjacent diagonal
  simp only [idxOrNone_lo g i _ hi, idxOrNone_hi g i _ hi, and_self]

/-! ### coarsening (`coarseningGrid`) keeps every second node in each direction, both boundaries included -/

/-- odd `nr`: coarse index `I` is fine index `2I`; the last coarse node is the last fine node -/
theorem coarsen_spec (g : Grid) (hodd : g.nr % 2 = 1) (heven : g.nt % 2 = 0) :
    (∀ I, I < g.coarseNr → 2 * I < g.nr) ∧ 2 * (g.coarseNr - 1) = g.nr - 1 ∧
    (∀ J, J ≤ g.coarseNt → 2 * J ≤ g.nt) ∧ 2 * g.coarseNt = g.nt := by
  unfold coarseNr coarseNt
  refine ⟨fun I h => by omega, by omega, fun J h => by omega, by omega⟩

/-- `k`-fold application of the coarse-size map -/
def iterN (f : Nat → Nat) : Nat → Nat → Nat
  | 0, x => x
  | k + 1, x => iterN f k (f x)

/-- the index map of coarse node `I` after `k` coarsenings is `2^k * I`; boundaries stay boundaries.
    `nrAfter k` is the number of radial nodes after `k` coarsenings of a grid with `nr = 2^k * m + 1`. -/
theorem coarsen_chain (m : Nat) : ∀ (k : Nat) (nr : Nat), nr = 2 ^ k * m + 1 →
    (iterN (fun n => (n + 1) / 2) k nr = m + 1) ∧
    (∀ I, I < m + 1 → 2 ^ k * I < nr) ∧ 2 ^ k * m = nr - 1
  | 0, nr, h => by simp at h; subst h; simp [iterN]
  | k + 1, nr, h => by
      have e : (nr + 1) / 2 = 2 ^ k * m + 1 := by
        rw [h, Nat.pow_succ]; have : 2 ^ k * 2 * m = 2 * (2 ^ k * m) := by rw [Nat.mul_comm (2 ^ k) 2, Nat.mul_assoc]
        omega
      obtain ⟨a, b, c⟩ := coarsen_chain m k ((nr + 1) / 2) e
      refine ⟨by simpa [iterN] using a, ?_, by omega⟩
      intro I hI
      have := Nat.mul_le_mul_left (2 ^ (k + 1)) (Nat.le_of_lt_succ hI)
      omega

/-! ### the circle/radial split -/
open Split

theorem autoLoop_range (crit : Nat → Bool) (nr : Nat) : ∀ fuel i, 2 ≤ i →
    autoLoop crit nr i fuel = 2 ∨ (i ≤ autoLoop crit nr i fuel ∧ autoLoop crit nr i fuel + 2 < nr)
  | 0, i, _ => by simp [autoLoop]
  | fuel + 1, i, hi => by
      unfold autoLoop
      by_cases h1 : i + 2 < nr
      · simp only [h1, if_true]
        by_cases h2 : crit i = true
        · simp only [h2, if_true]; right; omega
        · rw [if_neg h2]
          rcases autoLoop_range crit nr fuel (i + 1) (by omega) with h | ⟨ha, hb⟩
          · left; exact h
          · right; exact ⟨by omega, hb⟩
      · simp only [h1, if_false]; left; trivial

/-- automatic split: what the smoothers assume (at least two circles and three radial nodes per line,
    three circles as soon as `nr > 5`), for any outcome of the floating-point criterion -/
theorem splitAuto_bounds (crit : Nat → Bool) (nr : Nat) (h5 : 5 ≤ nr) :
    2 ≤ autoNc crit nr ∧ autoNc crit nr + 3 ≤ nr ∧ (5 < nr → 3 ≤ autoNc crit nr) := by
  unfold autoNc
  dsimp only
  rcases autoLoop_range crit nr nr 2 (by omega) with h | ⟨ha, hb⟩
  · simp only [h]; split <;> omega
  · split <;> omega

/-- the automatic split is the first circle `i ∈ [2, nr-3]` at which the criterion holds -/
theorem autoLoop_first (crit : Nat → Bool) (nr : Nat) : ∀ fuel i, nr ≤ i + fuel →
    (∀ k, i ≤ k → k + 2 < nr → crit k = false) ∧ autoLoop crit nr i fuel = 2 ∨
    (∃ k, i ≤ k ∧ k + 2 < nr ∧ crit k = true ∧ (∀ k', i ≤ k' → k' < k → crit k' = false) ∧
      autoLoop crit nr i fuel = k)
  | 0, i, h => by left; exact ⟨fun k h1 h2 => by omega, by simp [autoLoop]⟩
  | fuel + 1, i, h => by
      unfold autoLoop
      by_cases h1 : i + 2 < nr
      · simp only [h1, if_true]
        by_cases h2 : crit i = true
        · simp only [h2, if_true]; right
          exact ⟨i, Nat.le_refl _, h1, h2, fun k' a b => by omega, rfl⟩
        · rw [if_neg h2]
          have h2' : crit i = false := by simpa using h2
          rcases autoLoop_first crit nr fuel (i + 1) (by omega) with ⟨ha, hb⟩ | ⟨k, a, b, c, d, e⟩
          · left; refine ⟨fun k hk hk2 => ?_, hb⟩
            rcases Nat.eq_or_lt_of_le hk with rfl | hlt
            · exact h2'
            · exact ha k hlt hk2
          · right; refine ⟨k, by omega, b, c, fun k' a' b' => ?_, e⟩
            rcases Nat.eq_or_lt_of_le a' with rfl | hlt
            · exact h2'
            · exact d k' hlt b'
      · simp only [h1, if_false]; left
        exact ⟨fun k a b => by omega, trivial⟩

/-- explicit split: `lower_bound` on radii for which "`< s`" is downward closed along the array (true for every
    sorted array) returns `nc` with exactly the first `nc` radii below `s` -/
theorem lowerBound_spec {α : Type} (lt : α → α → Bool) (s : α) : ∀ (radii : List α),
    List.Pairwise (fun a b => lt b s = true → lt a s = true) radii →
    lowerBound lt radii s ≤ radii.length ∧
    ∀ k (hk : k < radii.length), (k < lowerBound lt radii s ↔ lt radii[k] s = true)
  | [], _ => by simp [lowerBound]
  | r :: rs, hp => by
      rw [List.pairwise_cons] at hp
      obtain ⟨h1, h2⟩ := hp
      obtain ⟨ihl, ih⟩ := lowerBound_spec lt s rs h2
      unfold lowerBound
      by_cases hr : lt r s = true
      · simp only [hr, if_true]
        refine ⟨by simp; omega, ?_⟩
        intro k hk
        cases k with
        | zero => simp [hr]; omega
        | succ k =>
            have hk' : k < rs.length := by simpa using hk
            simp only [List.getElem_cons_succ]
            rw [← ih k hk']; omega
      · rw [if_neg hr]
        refine ⟨by simp, ?_⟩
        intro k hk
        cases k with
        | zero => simp [hr]
        | succ k =>
            have hk' : k < rs.length := by simpa using hk
            simp only [List.getElem_cons_succ]
            constructor
            · intro h; omega
            · intro h; exact absurd (h1 _ (List.getElem_mem hk') h) hr

/-- `explicitNc`: 0 when `s` is below the first radius; otherwise the `lower_bound` position, which is `nr`
    when every radius is below `s` (the code's "only circular indexing" branch) -/
theorem splitExplicit_spec {α : Type} (lt : α → α → Bool) (s r0 : α) (rs : List α)
    (hp : List.Pairwise (fun a b => lt b s = true → lt a s = true) (r0 :: rs)) :
    (lt s r0 = true → explicitNc lt (r0 :: rs) s = 0) ∧
    (lt s r0 = false → explicitNc lt (r0 :: rs) s = lowerBound lt (r0 :: rs) s ∧
      explicitNc lt (r0 :: rs) s ≤ (r0 :: rs).length ∧
      (∀ k (hk : k < (r0 :: rs).length), (k < explicitNc lt (r0 :: rs) s ↔ lt (r0 :: rs)[k] s = true)) ∧
      ((∀ k (hk : k < (r0 :: rs).length), lt (r0 :: rs)[k] s = true) →
        explicitNc lt (r0 :: rs) s = (r0 :: rs).length)) := by
  obtain ⟨hl, hs⟩ := lowerBound_spec lt s (r0 :: rs) hp
  unfold explicitNc
  refine ⟨fun h => by simp [h], fun h => ?_⟩
  simp only [h]
  refine ⟨by simp, hl, hs, fun hall => ?_⟩
  have hlast := (hs rs.length (by simp)).mpr (hall rs.length (by simp))
  simp only [List.length_cons] at hl hlast ⊢
  simp at hlast ⊢
  omega

end C17
