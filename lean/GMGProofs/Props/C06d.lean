import GMGProofs.Props.C06c
import GMGProofs.Lemmas.SmootherCodeSPD1
import GMGProofs.Lemmas.SmootherCodeSPD3
/-!
# C06 / C05 (code level, Dirichlet mode) — the line blocks the smoother factorises ARE symmetric positive definite

`C05.pd_dirichlet` (positive definiteness of the interior operator for a Dirichlet inner boundary and elliptic data) is
transported to the matrices `SmootherTake::buildAscMatrices` stores (`GMGModel/SmootherCode.lean`): every circle matrix is
SPD in the cyclic sense of C14 (`Tridiag.SPDc`), every radial matrix SPD (`Tridiag.SPD`), the innermost circle's matrix is
the identity.  Hence `C06c.LinesOK` is a THEOREM in that mode, and the code-level sweep is an exact zebra relaxation that
never divides by zero and never increases the energy norm of the error — no hypothesis about the line solves left.
Property theorems only; helper lemmas in `GMGProofs/Lemmas/SmootherCodeSPD*.lean`.
-/
namespace C06d
open Stencil Smoother SmootherCode C06c

variable {K : Type} [_root_.Field K] [LinearOrder K] [IsStrictOrderedRing K]

/-- "the line blocks inherit both properties" (C05, last sentence) for the stored circle matrices -/
theorem circle_matrix_spd_dirichlet (o : Op K) (nc : Nat) (hnr : 4 ≤ o.nr) (hnt : 4 ≤ o.nt) (heven : o.nt % 2 = 0)
    (hbc : o.bc = true) (he : Elliptic o) (i : Nat) (hi0 : 0 < i) (hi : i < nc) (hnc : nc < o.nr) :
    Tridiag.SPDc (circleMain o i) (circleSub o i) (circleCorner o i) := by
  intro xs hxs hnz
  have hlen : xs.length = o.nt := by simpa [circleMain] using hxs
  rw [circle_Qc_eq_inner o nc (by omega) i hi0 hi hnc xs hlen]
  refine C05.pd_dirichlet o hnr (by omega) heven hbc he _ (circleField_V0 o i xs hi0 (by omega)) ?_
  obtain ⟨t, ht, hne⟩ := exists_ne_of_not_allZero xs hnz
  refine ⟨i, t, by omega, by omega, ?_⟩
  simpa [circleField, withCircle] using hne

/-- … and for the stored radial matrices (identity row on the outer boundary, coupling to it stored as zero) -/
theorem radial_matrix_spd_dirichlet (o : Op K) (nc : Nat) (hnr : nc + 3 ≤ o.nr) (hnc : 2 ≤ nc) (hnt : 4 ≤ o.nt)
    (heven : o.nt % 2 = 0) (hbc : o.bc = true) (he : Elliptic o) (j : Nat) (hj : j < o.nt) :
    Tridiag.SPD (radialMain o nc j) (radialSub o nc j) := by
  intro xs hxs hnz
  have hlen : xs.length = o.nr - nc := by simpa [radialMain] using hxs
  rw [radial_Q_eq_inner o nc j hnc hnr (by omega) hj xs hlen]
  have hV := radialField_V0 o nc j xs (by omega : 1 ≤ nc)
  obtain ⟨t, ht, hne⟩ := exists_ne_of_not_allZero xs hnz
  by_cases hlast : t = o.nr - nc - 1
  · -- the entry of the Dirichlet node does not vanish
    have h1 := C05.psd_dirichlet o (by omega) (by omega) heven hbc he _ hV
    have h2 : 0 < xs.getD (o.nr - nc - 1) 0 * xs.getD (o.nr - nc - 1) 0 := by
      rw [← hlast]; exact mul_self_pos.mpr hne
    linarith
  · -- the field on the line does not vanish
    have h1 : 0 < inner o (A o (radialField o nc j xs)) (radialField o nc j xs) := by
      refine C05.pd_dirichlet o (by omega) (by omega) heven hbc he _ hV ⟨nc + t, j, by omega, hj, ?_⟩
      rw [radialField_apply, if_pos ⟨by omega, by omega, rfl⟩, Nat.add_sub_cancel_left]
      exact hne
    have h2 := mul_self_nonneg (xs.getD (o.nr - nc - 1) 0)
    linarith

omit [LinearOrder K] [IsStrictOrderedRing K] in
/-- the innermost circle's matrix is the identity in Dirichlet mode: all LU pivots are 1 -/
theorem inner_pivots_dirichlet (o : Op K) (hbc : o.bc = true) (i : Nat) (hi : i < o.nt) :
    SparseLU.den ((SparseLU.factorRows (innerCSR o)).2.getD i []) i = 1 := by
  rw [U_innerCSR_dirichlet o hbc i hi, SparseLU.den_cons, if_pos rfl]

/-- **`LinesOK` is a theorem in Dirichlet mode** -/
theorem linesOK_dirichlet (o : Op K) (nc : Nat) (hnr : nc + 3 ≤ o.nr) (hnc : 2 ≤ nc) (hnt : 4 ≤ o.nt)
    (heven : o.nt % 2 = 0) (hbc : o.bc = true) (he : Elliptic o) : LinesOK o nc := by
  refine linesOK_of_spd o nc hnt hnr ?_ ?_ ?_
  · intro i hi0 hi
    exact circle_matrix_spd_dirichlet o nc (by omega) hnt heven hbc he i hi0 hi (by omega)
  · intro j hj
    exact radial_matrix_spd_dirichlet o nc hnr hnc hnt heven hbc he j hj
  · intro i hi
    rw [inner_pivots_dirichlet o hbc i hi]
    exact one_ne_zero

/-- the code-level sweep is an exact zebra relaxation, no hypothesis on the line solves -/
theorem code_sweep_isSweep_dirichlet (o : Op K) (nc : Nat) (tiny : K → Bool) (f : Stencil.Field K) (x y : Array K)
    (hnr : nc + 3 ≤ o.nr) (hnc : 2 ≤ nc) (hnt : 4 ≤ o.nt) (heven : o.nt % 2 = 0) (hbc : o.bc = true) (he : Elliptic o)
    (hx : x.size = o.nr * o.nt) (hs : sweep o tiny nc f x = some y) :
    IsSweep o nc f (fld o.nt x) (fld o.nt y) := by
  exact code_sweep_isSweep o nc tiny f x y hnt heven hnc hnr hx (linesOK_dirichlet o nc hnr hnc hnt heven hbc he) hs

omit [LinearOrder K] [IsStrictOrderedRing K] in
/-- it returns (no `std::exit`) for every `tiny` test that does not fire on 1 -/
theorem code_sweep_total_dirichlet (o : Op K) (nc : Nat) (tiny : K → Bool) (ht : tiny 1 = false) (f : Stencil.Field K)
    (x : Array K) (hbc : o.bc = true) : ∃ y, sweep o tiny nc f x = some y := by
  refine code_sweep_total o nc tiny f x ?_
  intro i hi
  rw [inner_pivots_dirichlet o hbc i hi]
  exact ht

/-- property clause "once the boundary values carry the data, a sweep never increases the energy norm of the error",
    for the code-level sweep -/
theorem code_sweep_energy_dirichlet (o : Op K) (nc : Nat) (tiny : K → Bool) (f u : Stencil.Field K) (x y : Array K)
    (hnr : nc + 3 ≤ o.nr) (hnc : 2 ≤ nc) (hnt : 4 ≤ o.nt) (heven : o.nt % 2 = 0) (hbc : o.bc = true) (he : Elliptic o)
    (hx : x.size = o.nr * o.nt) (hs : sweep o tiny nc f x = some y)
    (hu : ∀ i j, i < o.nr → j < o.nt → take o f u i j = 0)
    (hxD : ∀ j, j < o.nt → fld o.nt x (o.nr - 1) j = f (o.nr - 1) j ∧ fld o.nt x 0 j = f 0 j) :
    inner o (A o (gridErr o (fld o.nt y) u)) (gridErr o (fld o.nt y) u)
      ≤ inner o (A o (gridErr o (fld o.nt x) u)) (gridErr o (fld o.nt x) u) := by
  exact C06.energy_full o nc f u (fld o.nt x) (fld o.nt y) (by omega) (by omega) heven hbc he hu hxD
    (code_sweep_isSweep_dirichlet o nc tiny f x y hnr hnc hnt heven hbc he hx hs)

end C06d
