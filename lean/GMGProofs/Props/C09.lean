import GMGProofs.Lemmas.InterpFMG
import GMGProofs.Lemmas.InterpExamples
/-!
# C09 — FMG interpolation (interpolation part)

Property theorems only.  Model: `GMGModel/Interp.lean` (`w0 … w3`, `thetaRule`, `fmgInterp`, transcribing
`src/Interpolation/fmg_interpolation.cpp`).  Helper definitions (`Interp.Admissible`, `Interp.PosSpacing`,
`Interp.cubic c0 c1 c2 c3 t = c0 + c1 t + c2 t² + c3 t³`, `Interp.fmgRow`, the concrete pair `exPair`) live in
`GMGProofs/Lemmas/Interp*.lean`.  `K` is an arbitrary linearly ordered field (arbitrary field for the
structural statements), the grid sizes are arbitrary admissible sizes.
-/
namespace C09
open Interp hiding Field

section Ordered
variable {K : Type} [Field K] [LinearOrder K] [IsStrictOrderedRing K]

/-! ## 1. constants -/

theorem fmg_weights_sum (h0 h1 h2 h3 : K) (p0 : 0 < h0) (p1 : 0 < h1) (p2 : 0 < h2) (p3 : 0 < h3) :
    w0 h0 h1 h2 h3 + w1 h0 h1 h2 h3 + w2 h0 h1 h2 h3 + w3 h0 h1 h2 h3 = 1 := w_sum h0 h1 h2 h3 p0 p1 p2 p3

/-- every node class of `fmgInterp` reproduces constants -/
theorem fmg_const (p : Pair K) (hP : PosSpacing p) (c : K) (i j : ℕ) :
    fmgInterp p (fun _ _ => c) i j = c := Interp.fmg_const p hP c i j

/-! ## 2. the four weights are the cubic Lagrange weights -/

/-- nodes at `-(h0+h1), -h1, h2, h2+h3`, evaluation at `0` -/
theorem fmg_cubic (h0 h1 h2 h3 c0 c1 c2 c3 : K) (p0 : 0 < h0) (p1 : 0 < h1) (p2 : 0 < h2) (p3 : 0 < h3) :
    w0 h0 h1 h2 h3 * cubic c0 c1 c2 c3 (-(h0 + h1)) + w1 h0 h1 h2 h3 * cubic c0 c1 c2 c3 (-h1)
      + w2 h0 h1 h2 h3 * cubic c0 c1 c2 c3 h2 + w3 h0 h1 h2 h3 * cubic c0 c1 c2 c3 (h2 + h3)
      = cubic c0 c1 c2 c3 0 := by
  have := w_cubic_at h0 h1 h2 h3 c0 c1 c2 c3 0 p0 p1 p2 p3
  simpa only [zero_sub, zero_add] using this

/-- the same around an arbitrary point `ρ` -/
theorem fmg_cubic_at (h0 h1 h2 h3 c0 c1 c2 c3 ρ : K) (p0 : 0 < h0) (p1 : 0 < h1) (p2 : 0 < h2) (p3 : 0 < h3) :
    w0 h0 h1 h2 h3 * cubic c0 c1 c2 c3 (ρ - (h0 + h1)) + w1 h0 h1 h2 h3 * cubic c0 c1 c2 c3 (ρ - h1)
      + w2 h0 h1 h2 h3 * cubic c0 c1 c2 c3 (ρ + h2) + w3 h0 h1 h2 h3 * cubic c0 c1 c2 c3 (ρ + (h2 + h3))
      = cubic c0 c1 c2 c3 ρ := w_cubic_at h0 h1 h2 h3 c0 c1 c2 c3 ρ p0 p1 p2 p3

/-! ## 3. exactness for cubics on the grid -/

/-- interior odd row, even column: cubic in `r` -/
theorem fmg_cubic_r (p : Pair K) (hP : PosSpacing p) (c0 c1 c2 c3 : K) (r : ℕ → K) (x : Interp.Field K) (i j : ℕ)
    (hodd : i % 2 = 1) (h3 : 3 ≤ i) (hi : i + 3 ≤ p.nrF) (hj : j % 2 = 0)
    (hr : ∀ i, r (i + 1) = r i + p.hF i) (hC : ∀ I, p.hC I = p.hF (2 * I) + p.hF (2 * I + 1))
    (hx : ∀ I J, x I J = cubic c0 c1 c2 c3 (r (2 * I))) :
    fmgInterp p x i j = cubic c0 c1 c2 c3 (r i) := by
  obtain ⟨s, rfl⟩ : ∃ s, i = 2 * s + 3 := ⟨(i - 3) / 2, by omega⟩
  have cj : ¬ j % 2 = 1 := by omega
  rw [fmg_interior_odd p x s j hi]
  have := radial_rule_cubic p hP c0 c1 c2 c3 1 r (fmgRow p x j) s hr hC
    (fun I => by simp only [fmgRow, cj, if_false, hx, mul_one])
  rw [this, mul_one]

/-- the angular rule on one coarse row, seam included: exact when the four coarse values it reads are the
    cubic at the local nodes `t-(k0+k1), t-k1, t+k2, t+(k2+k3)` -/
theorem thetaRule_cubic_local (p : Pair K) (hP : PosSpacing p) (c0 c1 c2 c3 t : K) (x : Interp.Field K) (I j : ℕ)
    (hm : x I (wC p (j / 2 + ntC p - 1))
      = cubic c0 c1 c2 c3 (t - (p.kC (wC p (j / 2 + ntC p - 1)) + p.kF (wF p (j + p.ntF - 1)))))
    (h0 : x I (j / 2) = cubic c0 c1 c2 c3 (t - p.kF (wF p (j + p.ntF - 1))))
    (h1 : x I (wC p (j / 2 + 1)) = cubic c0 c1 c2 c3 (t + p.kF j))
    (h2 : x I (wC p (j / 2 + 2)) = cubic c0 c1 c2 c3 (t + (p.kF j + p.kC (wC p (j / 2 + 1))))) :
    thetaRule p x I j = cubic c0 c1 c2 c3 t :=
  Interp.thetaRule_cubic_local p hP c0 c1 c2 c3 t x I j hm h0 h1 h2

/-- even row (boundary rows included), odd column away from the seam (`3 ≤ j`, `j + 3 < ntF`): cubic in `θ` -/
theorem fmg_cubic_theta (p : Pair K) (hA : Admissible p) (hP : PosSpacing p) (c0 c1 c2 c3 : K) (θ : ℕ → K)
    (x : Interp.Field K) (i j : ℕ) (hi : i % 2 = 0) (hodd : j % 2 = 1) (h3 : 3 ≤ j) (hj : j + 3 < p.ntF)
    (hθ : ∀ j, θ (j + 1) = θ j + p.kF j) (hC : ∀ J, p.kC J = p.kF (2 * J) + p.kF (2 * J + 1))
    (hx : ∀ I J, x I J = cubic c0 c1 c2 c3 (θ (2 * J))) :
    fmgInterp p x i j = cubic c0 c1 c2 c3 (θ j) := by
  rw [fmg_even_row p hA x i j hi, if_pos hodd]
  exact thetaRule_cubic p hA hP c0 c1 c2 c3 θ x (i / 2) j hodd h3 hj hθ hC (fun J => hx _ J)

/-! ## 4. odd/odd interior nodes: exact for products `P(r)·Q(θ)` of cubics -/

theorem fmg_tensor (p : Pair K) (hA : Admissible p) (hP : PosSpacing p) (a0 a1 a2 a3 b0 b1 b2 b3 : K)
    (r θ : ℕ → K) (x : Interp.Field K) (i j : ℕ)
    (hio : i % 2 = 1) (hi3 : 3 ≤ i) (hi : i + 3 ≤ p.nrF) (hjo : j % 2 = 1) (hj3 : 3 ≤ j) (hj : j + 3 < p.ntF)
    (hr : ∀ i, r (i + 1) = r i + p.hF i) (hCr : ∀ I, p.hC I = p.hF (2 * I) + p.hF (2 * I + 1))
    (hθ : ∀ j, θ (j + 1) = θ j + p.kF j) (hCt : ∀ J, p.kC J = p.kF (2 * J) + p.kF (2 * J + 1))
    (hx : ∀ I J, x I J = cubic a0 a1 a2 a3 (r (2 * I)) * cubic b0 b1 b2 b3 (θ (2 * J))) :
    fmgInterp p x i j = cubic a0 a1 a2 a3 (r i) * cubic b0 b1 b2 b3 (θ j) := by
  obtain ⟨s, rfl⟩ : ∃ s, i = 2 * s + 3 := ⟨(i - 3) / 2, by omega⟩
  obtain rfl : x = fun I J => cubic a0 a1 a2 a3 (r (2 * I)) * cubic b0 b1 b2 b3 (θ (2 * J)) := by
    funext I J; exact hx I J
  rw [fmg_interior_odd p _ s j hi]
  apply radial_rule_cubic p hP a0 a1 a2 a3 _ r _ s hr hCr
  intro I
  simp only [fmgRow, hjo, if_true]
  rw [thetaRule_mul p (fun I => cubic a0 a1 a2 a3 (r (2 * I))) (fun J => cubic b0 b1 b2 b3 (θ (2 * J))) I j,
    thetaRule_cubic p hA hP b0 b1 b2 b3 θ _ I j hjo hj3 hj hθ hCt (fun _ => rfl)]

end Ordered

section AnyField
variable {K : Type} [Field K]

/-! ## 5. next to the boundary the radial rule falls back to the two-point rule of `prolong` -/

theorem fmg_fallback (p : Pair K) (hA : Admissible p) (x : Interp.Field K) (i j : ℕ)
    (hi : i = 1 ∨ i + 2 = p.nrF) (hj : j % 2 = 0) : fmgInterp p x i j = prolong p x i j :=
  Interp.fmg_fallback p hA x i j hi hj

/-- the same rows, odd columns: two-point rule in `r` applied to the angular four-point rule -/
theorem fmg_fallback_odd (p : Pair K) (hA : Admissible p) (x : Interp.Field K) (i j : ℕ)
    (hi : i = 1 ∨ i + 2 = p.nrF) (hj : j % 2 = 1) :
    fmgInterp p x i j
      = (p.hF (i - 1) * thetaRule p x (i / 2) j + p.hF i * thetaRule p x (i / 2 + 1) j) / (p.hF (i - 1) + p.hF i) := by
  rw [fmg_near_boundary p hA x i j hi, if_pos hj]

/-! ## 6. only in-range values are read (first index `< nrC` resp. `< nrF`; the second index is wrapped) -/

theorem fmg_inbounds (p : Pair K) (hA : Admissible p) (x x' : Interp.Field K)
    (hx : ∀ I J, I < nrC p → J < ntC p → x I J = x' I J) (i j : ℕ) (hi : i < p.nrF) (hj : j < p.ntF) :
    fmgInterp p x i j = fmgInterp p x' i j := fmg_local p hA x x' hx i j hi hj

theorem prolong_inbounds (p : Pair K) (hA : Admissible p) (x x' : Interp.Field K)
    (hx : ∀ I J, I < nrC p → J < ntC p → x I J = x' I J) (i j : ℕ) (hi : i < p.nrF) (hj : j < p.ntF) :
    prolong p x i j = prolong p x' i j := prolong_local p hA x x' hx i j hi hj

theorem exProlong_inbounds (p : Pair K) (hA : Admissible p) (x x' : Interp.Field K)
    (hx : ∀ I J, I < nrC p → J < ntC p → x I J = x' I J) (i j : ℕ) (hi : i < p.nrF) (hj : j < p.ntF) :
    exProlong p x i j = exProlong p x' i j := exProlong_local p hA x x' hx i j hi hj

theorem restrict_inbounds (p : Pair K) (hA : Admissible p) (y y' : Interp.Field K)
    (hy : ∀ i j, i < p.nrF → j < p.ntF → y i j = y' i j) (I J : ℕ) (hI : I < nrC p) (hJ : J < ntC p) :
    restrict p y I J = restrict p y' I J := restrict_local p hA y y' hy I J hI hJ

theorem exRestrict_inbounds (p : Pair K) (hA : Admissible p) (y y' : Interp.Field K)
    (hy : ∀ i j, i < p.nrF → j < p.ntF → y i j = y' i j) (I J : ℕ) (hI : I < nrC p) (hJ : J < ntC p) :
    exRestrict p y I J = exRestrict p y' I J := exRestrict_local p hA y y' hy I J hI hJ

end AnyField

/-! ## non-vacuity: the hypotheses are satisfiable (non-uniform `7 × 8` pair over ℚ, `r i = i(i+1)/2`) -/

example : Admissible exPair ∧ PosSpacing exPair := ⟨exPair_adm, exPair_pos⟩
/-- `fmg_cubic_r` at the only interior odd row `i = 3` of `nrF = 7` -/
example : fmgInterp exPair (fun I _ => cubic 1 2 3 4 (exR (2 * I))) 3 2 = cubic 1 2 3 4 (exR 3) :=
  fmg_cubic_r exPair exPair_pos 1 2 3 4 exR _ 3 2 (by decide) (by decide) (by decide) (by decide)
    exR_step exPair_hC (fun _ _ => rfl)
/-- `fmg_cubic_theta` at `j = 3` (`j + 3 = 6 < 8`), boundary row `i = 0` and interior even row `i = 2` -/
example : fmgInterp exPair (fun _ J => cubic 1 2 3 4 (exTheta (2 * J))) 0 3 = cubic 1 2 3 4 (exTheta 3) :=
  fmg_cubic_theta exPair exPair_adm exPair_pos 1 2 3 4 exTheta _ 0 3 (by decide) (by decide) (by decide) (by decide)
    exTheta_step exPair_kC (fun _ _ => rfl)
/-- `fmg_tensor` at `(3, 3)` -/
example : fmgInterp exPair (fun I J => cubic 1 2 3 4 (exR (2 * I)) * cubic 4 3 2 1 (exTheta (2 * J))) 3 3
    = cubic 1 2 3 4 (exR 3) * cubic 4 3 2 1 (exTheta 3) :=
  fmg_tensor exPair exPair_adm exPair_pos 1 2 3 4 4 3 2 1 exR exTheta _ 3 3 (by decide) (by decide) (by decide)
    (by decide) (by decide) (by decide) exR_step exPair_hC exTheta_step exPair_kC (fun _ _ => rfl)
/-- `fmg_fallback` rows of `nrF = 7`: `i = 1` and `i = 5` -/
example : (1 = 1 ∨ 1 + 2 = exPair.nrF) ∧ ((5 : ℕ) = 1 ∨ 5 + 2 = exPair.nrF) := ⟨Or.inl rfl, Or.inr rfl⟩

end C09
