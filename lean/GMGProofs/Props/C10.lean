import GMGProofs.Lemmas.CycleExact
import GMGProofs.Lemmas.CycleToy
/-!
# C10 — each multigrid cycle is a consistent correction scheme

Property theorems only.  Model: `GMGModel/Cycle.lean` (the instruction lists produced by
`multigrid_{V,W,F}_Cycle` and `implicitlyExtrapolatedMultigrid_{V,W,F}_Cycle` with their rotation of the
work vectors) and `GMGModel/Solve.lean` (`exec`, abstract operators `Ops V`).  The specification
(`iter`, `cyc`, `excyc`, `cycleSpec`, `ExactData`, `ZeroData`, `writes`) lives in
`GMGProofs/Lemmas/Cycle{Exec,Spec,Exact}.lean`; `cyc_unfold`, `excyc_unfold` below spell it out.

All statements hold for every vector type `V`, every operator family `o : Ops V` (no linearity, nothing
about the scratch value a smoother leaves behind), every memory, all `ν1 ν2 ≥ 0`, all three cycle kinds
and every number of levels.
-/
namespace C10
open MGCycle

variable {V : Type}

/-! ## the specification, spelled out -/

/-- the textbook recursion: `ν1` smoothings, residual, restriction, coarse solve or recursive cycle(s) from
    the zero vector (V: one, W: two, F: an F- then a V-cycle), prolongation, correction, `ν2` smoothings -/
theorem cyc_unfold (o : Ops V) (c : Cfg) (k : Kind) (fuel d : Nat) (u f : V) :
    cyc o c k (fuel + 1) d u f =
      (let u1 := iter (fun v => o.smooth d v f) c.nu1 u
       let g := o.restrict d (o.resid d f u1)
       let z := o.zero (d + 1)
       let e :=
         if d + 1 = c.levels - 1 then o.solve (d + 1) g
         else match k with
           | .V => cyc o c .V fuel (d + 1) z g
           | .W => cyc o c .W fuel (d + 1) (cyc o c .W fuel (d + 1) z g) g
           | .F => cyc o c .V fuel (d + 1) (cyc o c .F fuel (d + 1) z g) g
       iter (fun v => o.smooth d v f) c.nu2 (o.add u1 (o.prolong (d + 1) e))) := by
  cases k <;> rfl

theorem cyc_no_fuel (o : Ops V) (c : Cfg) (k : Kind) (d : Nat) (u f : V) : cyc o c k 0 d u f = u := by simp

/-- the implicitly extrapolated cycle on level 0 -/
theorem excyc_unfold (o : Ops V) (c : Cfg) (k : Kind) (fgs : Bool) (u f f1 : V) :
    excyc o c k fgs u f f1 =
      (let sm := fun v => if fgs then o.smooth 0 v f else o.exSmooth 0 v f
       let u1 := iter sm c.nu1 u
       let g := o.lin43 (o.exRestrict 0 (o.resid 0 f u1)) (o.resid 1 f1 (o.inject 0 u1))
       let z := o.zero 1
       let e :=
         if 1 = c.levels - 1 then o.solve 1 g
         else match k with
           | .V => cyc o c .V (c.levels - 2) 1 z g
           | .W => cyc o c .W (c.levels - 2) 1 (cyc o c .W (c.levels - 2) 1 z g) g
           | .F => cyc o c .V (c.levels - 2) 1 (cyc o c .F (c.levels - 2) 1 z g) g
       iter sm c.nu2 (o.add u1 (o.exProlong 1 e))) := by
  cases k <;> rfl

/-! ## A1 — the buffer-rotating programs refine the recursion; frame -/

/-- `multigrid_{V,W,F}_Cycle` on depth `d` with solution `x`, right-hand side `rhs`, scratch `tmp` (three
    distinct vectors of level `d`): the new `x` is the textbook cycle applied to the old `x` and `rhs`; every
    other vector of levels `≤ d` except `tmp`, and every right-hand side of every level, is unchanged.
    (The hypotheses `fuel = c.levels - 1 - d`, `d + 1 ≤ c.levels - 1` of the solver's calls are not needed.) -/
theorem plain_refines (o : Ops V) (c : Cfg) (k : Kind) (fuel d : Nat) (x rhs tmp : Ref) (m : Mem V)
    (hx : x.1 = d) (hr : rhs.1 = d) (ht : tmp.1 = d) (hxr : x ≠ rhs) (hxt : x ≠ tmp) (hrt : rhs ≠ tmp) :
    exec o (plain c k fuel d x rhs tmp) m x = cyc o c k fuel d (m x) (m rhs) ∧
    (∀ r : Ref, r.1 ≤ d ∨ r.2 = Buf.rhs → r ≠ x → r ≠ tmp → exec o (plain c k fuel d x rhs tmp) m r = m r) :=
  ⟨plain_val o c fuel k d x rhs tmp m hx hr ht hxr hxt hrt,
   fun r h h1 h2 => plain_frame o c k fuel d x rhs tmp m r h1 h2 h⟩

/-- in particular the right-hand side the cycle was called with is intact -/
theorem plain_keeps_rhs (o : Ops V) (c : Cfg) (k : Kind) (fuel d : Nat) (x rhs tmp : Ref) (m : Mem V)
    (hr : rhs.1 = d) (hxr : x ≠ rhs) (hrt : rhs ≠ tmp) :
    exec o (plain c k fuel d x rhs tmp) m rhs = m rhs :=
  plain_frame o c k fuel d x rhs tmp m rhs hxr.symm hrt (Or.inl (Nat.le_of_eq hr))

/-- the top-level call of `solve()` -/
theorem cycle_refines (o : Ops V) (c : Cfg) (k : Kind) (fgs : Bool) (m : Mem V) :
    exec o (cycleAt c k false fgs 0) m (0, .sol) = cyc o c k (c.levels - 1) 0 (m (0, .sol)) (m (0, .rhs)) := by
  simpa [cycleSpec] using cycleAt_val o c k false fgs 0 (fun _ => rfl) m

/-! ## A2 — no stale data -/

/-- the result does not depend on what `tmp` or any deeper-level vector held before the call -/
theorem stale_indep (o : Ops V) (c : Cfg) (k : Kind) (fuel d : Nat) (x rhs tmp : Ref) (m m' : Mem V)
    (hx : x.1 = d) (hr : rhs.1 = d) (ht : tmp.1 = d) (hxr : x ≠ rhs) (hxt : x ≠ tmp) (hrt : rhs ≠ tmp)
    (h1 : m x = m' x) (h2 : m rhs = m' rhs) :
    exec o (plain c k fuel d x rhs tmp) m x = exec o (plain c k fuel d x rhs tmp) m' x := by
  rw [plain_val o c fuel k d x rhs tmp m hx hr ht hxr hxt hrt,
    plain_val o c fuel k d x rhs tmp m' hx hr ht hxr hxt hrt, h1, h2]

/-! ## A3 — the implicitly extrapolated cycle -/

/-- new `(0,sol)` = the extrapolated cycle of the old `(0,sol)`, `(0,rhs)`, `(1,rhs)`; the level-0 vectors
    other than `sol`, `res` and all right-hand sides (in particular `(1,rhs)`, which is read) are unchanged -/
theorem extrap_refines (o : Ops V) (c : Cfg) (k : Kind) (fgs : Bool) (m : Mem V) :
    exec o (extrap c k fgs 0 (0, .sol) (0, .rhs) (0, .res)) m (0, .sol) =
      excyc o c k fgs (m (0, .sol)) (m (0, .rhs)) (m (1, .rhs)) ∧
    (∀ r : Ref, r.1 = 0 ∨ r.2 = Buf.rhs → r ≠ (0, .sol) → r ≠ (0, .res) →
      exec o (extrap c k fgs 0 (0, .sol) (0, .rhs) (0, .res)) m r = m r) :=
  ⟨extrap_val o c k fgs m, fun r h h1 h2 => extrap_frame o c k fgs m r h1 h2 h⟩

theorem extrap_stale_indep (o : Ops V) (c : Cfg) (k : Kind) (fgs : Bool) (m m' : Mem V)
    (h0 : m (0, .sol) = m' (0, .sol)) (h1 : m (0, .rhs) = m' (0, .rhs)) (h2 : m (1, .rhs) = m' (1, .rhs)) :
    exec o (extrap c k fgs 0 (0, .sol) (0, .rhs) (0, .res)) m (0, .sol) =
      exec o (extrap c k fgs 0 (0, .sol) (0, .rhs) (0, .res)) m' (0, .sol) := by
  rw [extrap_val, extrap_val, h0, h1, h2]

/-! ## A4 — two levels, no smoothing: the coarse-grid correction -/

theorem two_level_nosm (o : Ops V) (c : Cfg) (k : Kind) (fgs : Bool) (m : Mem V)
    (hL : c.levels = 2) (h1 : c.nu1 = 0) (h2 : c.nu2 = 0) :
    exec o (cycleAt c k false fgs 0) m (0, .sol) =
      o.add (m (0, .sol)) (o.prolong 1 (o.solve 1 (o.restrict 0 (o.resid 0 (m (0, .rhs)) (m (0, .sol)))))) := by
  rw [cycle_refines, hL, cyc_succ, h1, h2]
  simp [coarseOrSolve, hL]

theorem two_level_nosm_extrap (o : Ops V) (c : Cfg) (k : Kind) (fgs : Bool) (m : Mem V)
    (hL : c.levels = 2) (h1 : c.nu1 = 0) (h2 : c.nu2 = 0) :
    exec o (cycleAt c k true fgs 0) m (0, .sol) =
      o.add (m (0, .sol)) (o.exProlong 1 (o.solve 1
        (o.lin43 (o.exRestrict 0 (o.resid 0 (m (0, .rhs)) (m (0, .sol))))
                 (o.resid 1 (m (1, .rhs)) (o.inject 0 (m (0, .sol))))))) := by
  rw [cycleAt_val o c k true fgs 0 (fun _ => rfl)]
  simp [cycleSpec, excyc, h1, h2, coarseOrSolve, hL]

/-! ## A5 — an exact solution is a fixed point -/

/-- `ExactData o c d u f`: the smoother fixes `u`, the restricted residual of `u` is the coarse zero vector,
    adding the prolongated coarse zero changes nothing, and on the coarser levels (zero iterate, zero
    right-hand side) is mapped to zero (`ZeroData`).  Then every cycle returns `u`. -/
theorem exact_fixed (o : Ops V) (c : Cfg) (k : Kind) (fuel d : Nat) (u f : V) (hL : d + 1 ≤ c.levels - 1)
    (E : ExactData o c d u f) : cyc o c k fuel d u f = u :=
  cyc_exact o c k fuel d u f hL E

/-- on every coarser level the cycle started from zero with zero right-hand side returns zero -/
theorem zero_fixed (o : Ops V) (c : Cfg) (d0 : Nat) (z : ZeroData o c d0) (k : Kind) (fuel d : Nat)
    (hd : d0 ≤ d) (hL : d + 1 ≤ c.levels - 1) : cyc o c k fuel d (o.zero d) (o.zero d) = o.zero d :=
  cyc_zero_zero o c d0 z fuel k d hd hL

/-- the factor-by-factor hypotheses imply `ZeroData` -/
theorem zeroData_of_factors (o : Ops V) (c : Cfg) (d0 : Nat)
    (h1 : ∀ l, o.smooth l (o.zero l) (o.zero l) = o.zero l)
    (h2 : ∀ l, o.resid l (o.zero l) (o.zero l) = o.zero l)
    (h3 : ∀ l, o.restrict l (o.zero l) = o.zero (l + 1))
    (h4 : ∀ l, o.solve l (o.zero l) = o.zero l)
    (h5 : ∀ l, o.prolong (l + 1) (o.zero (l + 1)) = o.zero l)
    (h6 : ∀ l, o.add (o.zero l) (o.zero l) = o.zero l) : ZeroData o c d0 :=
  ZeroData.of_factors o c d0 h1 h2 h3 h4 h5 h6

/-- the program: a cycle of `solve()` leaves an exact `(0,sol)` alone -/
theorem exact_fixed_exec (o : Ops V) (c : Cfg) (k : Kind) (fgs : Bool) (m : Mem V) (hL : 1 ≤ c.levels - 1)
    (E : ExactData o c 0 (m (0, .sol)) (m (0, .rhs))) :
    exec o (cycleAt c k false fgs 0) m (0, .sol) = m (0, .sol) := by
  rw [cycle_refines]; exact cyc_exact o c k _ 0 _ _ hL E

theorem exact_fixed_extrap (o : Ops V) (c : Cfg) (k : Kind) (fgs : Bool) (m : Mem V) (hL : 1 ≤ c.levels - 1)
    (E : ExExactData o c fgs (m (0, .sol)) (m (0, .rhs)) (m (1, .rhs))) :
    exec o (cycleAt c k true fgs 0) m (0, .sol) = m (0, .sol) := by
  rw [cycleAt_val o c k true fgs 0 (fun _ => rfl)]
  simpa [cycleSpec] using excyc_exact o c k fgs _ _ _ hL E

/-! ## A6 — no cycle writes a right-hand side -/

theorem rhs_untouched (c : Cfg) (k : Kind) (ex fgs : Bool) :
    ∀ i ∈ cycleAt c k ex fgs 0, ∀ l : Nat, ((l, .rhs) : Ref) ∉ writes i := by
  intro i hi l hw
  rcases cycleAt_writes c k ex fgs 0 (fun _ => rfl) i hi _ hw with h | h | h
  · exact absurd (congrArg Prod.snd h) (by simp)
  · exact absurd (congrArg Prod.snd h) (by simp)
  · exact h.2 rfl

theorem rhs_untouched_exec (o : Ops V) (c : Cfg) (k : Kind) (ex fgs : Bool) (m : Mem V) (l : Nat) :
    exec o (cycleAt c k ex fgs 0) m (l, .rhs) = m (l, .rhs) :=
  cycleAt_rhs o c k ex fgs 0 (fun _ => rfl) m l

/-! ## non-vacuity -/

/-- the hypotheses of `plain_refines` are met by the solver's own call … -/
example (c : Cfg) (k : Kind) (m : Mem Int) :
    exec toyOps (plain c k (c.levels - 1) 0 (0, .sol) (0, .rhs) (0, .res)) m (0, .sol) =
      cyc toyOps c k (c.levels - 1) 0 (m (0, .sol)) (m (0, .rhs)) :=
  (plain_refines toyOps c k _ 0 _ _ _ m rfl rfl rfl (by decide) (by decide) (by decide)).1

/-- … and by the rotated triple of a recursive call -/
example (c : Cfg) (k : Kind) (d : Nat) (m : Mem Int) :
    exec toyOps (plain c k 2 (d+1) (d+1, .res) (d+1, .err) (d+1, .sol)) m (d+1, .err) = m (d+1, .err) :=
  plain_keeps_rhs toyOps c k 2 (d+1) _ _ _ m rfl (by simp) (by simp)

/-- program and specification are not trivially equal: a concrete W(1,1)-cycle on 4 levels -/
example : exec toyOps (cycleAt ⟨4, 1, 1⟩ .W false true 0) (toyMem (fun l => l + 1) 5) (0, .sol) =
    cyc toyOps ⟨4, 1, 1⟩ .W 3 0 5 1 ∧
    cyc toyOps ⟨4, 1, 1⟩ .W 3 0 5 1 ≠ 5 := by
  refine ⟨by simpa [toyMem] using cycle_refines toyOps ⟨4, 1, 1⟩ .W true (toyMem (fun l => l + 1) 5), by decide⟩

/-- `ExactData` is inhabited (identity operator, exact smoother) and not by every pair -/
example : ExactData idOps ⟨3, 2, 2⟩ 0 5 5 :=
  ⟨rfl, by decide, by decide, ZeroData.of_factors _ _ _ (fun _ => rfl) (fun _ => rfl) (fun _ => rfl) (fun _ => rfl)
    (fun _ => rfl) (fun _ => rfl)⟩

example : ¬ ExactData idOps ⟨3, 2, 2⟩ 0 4 5 := fun E => absurd E.smooth_fix (by decide)

example : ExExactData idOps ⟨3, 2, 2⟩ false 5 5 5 :=
  ⟨by decide, by decide, by decide, ZeroData.of_factors _ _ _ (fun _ => rfl) (fun _ => rfl) (fun _ => rfl) (fun _ => rfl)
    (fun _ => rfl) (fun _ => rfl)⟩

/-- a wrong iterate is changed by the cycle (the fixed-point theorem is not an artefact of a trivial spec) -/
example : cyc idOps ⟨3, 0, 0⟩ .V 2 0 4 5 = 5 := by decide

end C10
