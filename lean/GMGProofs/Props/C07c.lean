import GMGModel.ExSmootherCode
import GMGProofs.Lemmas.ExSmootherCode1
import GMGProofs.Lemmas.ExSmootherCode2
import GMGProofs.Props.C06c
import GMGProofs.Props.C07
/-!
# C07 (code level) — the assembled line systems of `ExtrapolatedSmootherTake` ARE the extrapolated zebra relaxation

Model: `GMGModel/ExSmootherCode.lean` (what `buildAscMatrices` stores in the tridiagonal / diagonal solvers and in the CSR
matrix of the innermost circle, `temp = rhs - A_sc^ortho x` for every node class, the line solves through the models of
`Tridiag.lean` / `SparseLU.lean` and the diagonal solver, the four-phase sweep on a row-major array).  Property theorems only;
helper lemmas live in `GMGProofs/Lemmas/ExSmootherCode*.lean`.

Hypotheses of the main theorem `code_exsweep_isExSweep`: `nt` even and `≥ 4` (divisibility by 4, which the C++ asserts, is
NOT needed: for `nt ≡ 2 mod 4` the antipode of an odd node of the innermost circle is a coarse node whose identity row keeps
its value, and the row equation still holds; instance in section 7), `2 ≤ nc` (inherited from `C06c.radial_split`; the C++
asserts `≥ 3`, the proof does not use it), `nc + 3 ≤ nr` (three radial smoother nodes, asserted by the C++), `nr` odd.  `nr` odd is necessary
(`nr_odd_needed`): with `nr` even the row `i = nr - 2` of an even radial line is a coarse node that the code relaxes, and
the row `i = nr - 1` is a fine Dirichlet node whose value the code keeps.  Every smoothed level of a solver that was set up
successfully has `nr` odd and `nt` divisible by 4 (`C18.levels_admissible`), so no admissible finest-level grid violates it.
-/
namespace C07c
open Stencil Smoother ExSmootherCode
open SmootherCode (fld ofField centerValue leftValue rightValue bottomValue topValue coeff1 coeff2 coeff3 coeff4 diagTerms
  writeCircle writeRadial blackCircles whiteCircles blackRadials whiteRadials)
open C06c (withCircle withRadial)

section AnyField
variable {K : Type} [_root_.Field K]

/-- row `j` of the stored innermost-circle matrix applied to `v` -/
def innerRowDot (o : Op K) (v : Nat → K) (j : Nat) : K :=
  if o.bc then v j
  else if j % 2 = 1 then centerValue o 0 j 0 (ja o j) * v j + leftValue o 0 j 0 (ja o j) * v (ja o j)
  else v j

/-! ## 1  A_sc + A_sc^ortho = A at the relaxed nodes, row by row (pure algebra, any field) -/

/-- a fine node all of whose neighbours are moved to the right-hand side: the operator row on an iterate `w` that agrees
    with `u` at the eight neighbours is `temp` minus the stored diagonal entry times the node value -/
theorem fine_split (o : Op K) (f u w : Stencil.Field K) (i j : Nat) (h0 : 0 < i) (h1 : i + 1 < o.nr)
    (e1 : w (i - 1) j = u (i - 1) j) (e2 : w (i + 1) j = u (i + 1) j)
    (e3 : w i (jm o j) = u i (jm o j)) (e4 : w i (jp o j) = u i (jp o j))
    (e5 : w (i - 1) (jm o j) = u (i - 1) (jm o j)) (e6 : w (i + 1) (jm o j) = u (i + 1) (jm o j))
    (e7 : w (i - 1) (jp o j) = u (i - 1) (jp o j)) (e8 : w (i + 1) (jp o j) = u (i + 1) (jp o j)) :
    take o f w i j = (f i j - diagTerms o u i j (crossTerms o u i j)) - centerValue o i j (i - 1) j * w i j := by
  have hi0 : i ≠ 0 := by omega
  simp only [take, if_pos (And.intro h0 h1), takeInterior, e1, e2, e3, e4, e5, e6, e7, e8, diagTerms, crossTerms,
    centerValue, coeff1, coeff2, coeff3, coeff4, SmootherCode.h1, if_neg hi0]
  ring

/-- odd circle: the cyclic tridiagonal row, as for `SmootherTake` (`C06c.circle_split`) -/
theorem circle_odd_split (o : Op K) (nc : Nat) (f u : Stencil.Field K) (v : Nat → K) (i j : Nat)
    (hi0 : 0 < i) (hinc : i < nc) (hodd : i % 2 = 1) (hnc : nc < o.nr) :
    take o f (withCircle u i v) i j
      = orthoCircle o nc f u i j
        - (centerValue o i j (i - 1) j * v j + bottomValue o i j * v (jm o j) + topValue o i j * v (jp o j)) := by
  rw [orthoCircle_odd o nc f u i j hi0 hinc hodd]
  exact C06c.circle_split o nc f u v i j hi0 hinc hnc

/-- even circle, odd angular index: diagonal row; the angular neighbours are coarse nodes of the same circle, they carry
    their old values (`hv`) -/
theorem circle_even_split (o : Op K) (nc : Nat) (f u : Stencil.Field K) (v : Nat → K) (i j : Nat)
    (hi0 : 0 < i) (hinc : i < nc) (heveni : i % 2 = 0) (hnc : nc < o.nr)
    (heven : o.nt % 2 = 0) (hj : j < o.nt) (hodd : j % 2 = 1)
    (hv : ∀ b, b < o.nt → b % 2 = 0 → v b = u i b) :
    take o f (withCircle u i v) i j = orthoCircle o nc f u i j - centerValue o i j (i - 1) j * v j := by
  have hnt : 0 < o.nt := by omega
  have hm := jm_parity o heven hj
  have hp := jp_parity o heven hj
  have hne1 : i - 1 ≠ i := by omega
  have hne2 : i + 1 ≠ i := by omega
  have hw : withCircle u i v i j = v j := by simp [withCircle]
  rw [fine_split o f u (withCircle u i v) i j hi0 (by omega)
    (by simp [withCircle, hne1]) (by simp [withCircle])
    (by simp only [withCircle, if_true]; exact hv _ (jm_lt o hnt j) (by omega))
    (by simp only [withCircle, if_true]; exact hv _ (jp_lt o hnt j) (by omega))
    (by simp [withCircle, hne1]) (by simp [withCircle]) (by simp [withCircle, hne1]) (by simp [withCircle]), hw]
  unfold orthoCircle
  rw [if_pos ⟨hi0, hinc⟩, if_neg (by omega), if_pos hodd]

/-- innermost circle, odd angular index, both boundary modes: the row keeps Center and the antipode; the angular neighbours
    are coarse nodes of the circle and carry their old values -/
theorem inner_split (o : Op K) (nc : Nat) (f u : Stencil.Field K) (v : Nat → K) (j : Nat)
    (hodd : j % 2 = 1) (hm : v (jm o j) = u 0 (jm o j)) (hp : v (jp o j) = u 0 (jp o j)) :
    take o f (withCircle u 0 v) 0 j = orthoCircle o nc f u 0 j - innerRowDot o v j := by
  have h1 : ¬ (0 < 0 ∧ 0 + 1 < o.nr) := by omega
  have h2 : ¬ (0 < 0 ∧ 0 < nc) := by omega
  have hne : (1 : Nat) ≠ 0 := by omega
  cases hbc : o.bc
  · simp only [take, h1, h2, if_false, if_true, takeOrigin, orthoCircle, innerRowDot, withCircle, hbc, centerValue,
      leftValue, coeff1, coeff2, coeff3, coeff4, SmootherCode.h1, hne, Nat.zero_add, Bool.false_eq_true, hodd, hm, hp]
    ring
  · simp only [take, h1, h2, if_false, if_true, orthoCircle, innerRowDot, withCircle, hbc, hodd]

/-- odd radial line: the tridiagonal row, as for `SmootherTake` (`C06c.radial_split`, `C06c.radialRow`) -/
theorem radial_odd_split (o : Op K) (nc : Nat) (f u : Stencil.Field K) (v : Nat → K) (i j : Nat)
    (hnc : 2 ≤ nc) (hnr : nc + 3 ≤ o.nr) (hnt : 2 ≤ o.nt) (hi : nc ≤ i) (hir : i < o.nr) (hodd : j % 2 = 1)
    (hv : v (o.nr - 1) = f (o.nr - 1) j) :
    take o f (withRadial nc u j v) i j = orthoRadial o nc f u i j - C06c.radialRow o nc j v i := by
  rw [orthoRadial_odd o nc f u i j hodd]
  exact C06c.radial_split o nc f u v i j hnc hnr hnt hi hir hv

/-- `temp` and the stored diagonal entry at the nodes of an even radial line (`nr` odd) -/
theorem radial_even_entries (o : Op K) (nc : Nat) (f u : Stencil.Field K) (i j : Nat)
    (hnrodd : o.nr % 2 = 1) (hi : nc ≤ i) (hir : i < o.nr) (hevenj : j % 2 = 0) :
    (i % 2 = 0 → (radialDiag o nc j).getD (i - nc) 0 = 1 ∧ orthoRadial o nc f u i j = u i j) ∧
    (i % 2 = 1 → i + 1 < o.nr ∧ (radialDiag o nc j).getD (i - nc) 0 = centerValue o i j (i - 1) j ∧
      orthoRadial o nc f u i j = f i j - diagTerms o u i j (crossTerms o u i j)) := by
  have ht : i - nc < o.nr - nc := by omega
  have e : nc + (i - nc) = i := by omega
  have hj1 : ¬ j % 2 = 1 := by omega
  unfold radialDiag orthoRadial
  rw [SparseLU.getD_map_range, if_pos ht]
  simp only [e, if_neg hj1]
  constructor
  · intro hi0
    have hi1 : ¬ i % 2 = 1 := by omega
    simp only [if_neg hi1, Scalar.n_one, Scalar.n_zero]
    split_ifs <;> first | exact ⟨rfl, rfl⟩ | (exfalso; omega)
  · intro hi1
    refine ⟨by omega, ?_⟩
    simp only [if_pos hi1]
    split_ifs <;> first | exact ⟨rfl, rfl⟩ | (exfalso; omega)

/-- even radial line, odd radial index: diagonal row; the radial neighbours are coarse nodes of the same line (or belong to
    the circle section) and carry their old values -/
theorem radial_even_split (o : Op K) (nc : Nat) (f u : Stencil.Field K) (v : Nat → K) (i j : Nat)
    (hnrodd : o.nr % 2 = 1) (hnt : 2 ≤ o.nt) (hi : nc ≤ i) (hir : i < o.nr) (hoddi : i % 2 = 1) (hevenj : j % 2 = 0)
    (hv : ∀ a, nc ≤ a → a < o.nr → a % 2 = 0 → v a = u a j) :
    take o f (withRadial nc u j v) i j = orthoRadial o nc f u i j - centerValue o i j (i - 1) j * v i := by
  obtain ⟨hi1, _, hortho⟩ := (radial_even_entries o nc f u i j hnrodd hi hir hevenj).2 hoddi
  have hm : jm o j ≠ j := by
    by_cases hj : j < o.nt
    · rw [jm_eq o hj]; split <;> omega
    · have := jm_lt o (by omega : 0 < o.nt) j; omega
  have hp : jp o j ≠ j := by
    by_cases hj : j < o.nt
    · rw [jp_eq o hj]; split <;> omega
    · have := jp_lt o (by omega : 0 < o.nt) j; omega
  have hw : withRadial nc u j v i j = v i := by simp [withRadial, hi]
  have hcol : ∀ a b, b ≠ j → withRadial nc u j v a b = u a b := by
    intro a b hb; unfold withRadial; rw [if_neg (fun h => hb h.2)]
  rw [hortho, fine_split o f u (withRadial nc u j v) i j (by omega) hi1 ?_ ?_
    (hcol _ _ hm) (hcol _ _ hp) (hcol _ _ hm) (hcol _ _ hm) (hcol _ _ hp) (hcol _ _ hp), hw]
  · unfold withRadial
    split
    · rename_i h; exact hv (i - 1) h.1 (by omega) (by omega)
    · rfl
  · unfold withRadial
    rw [if_pos ⟨by omega, rfl⟩]
    exact hv (i + 1) (by omega) hi1 (by omega)

/-! ## 2  the stored arrays represent exactly these rows -/

/-- cyclic tridiagonal product of the stored matrix of an odd circle -/
theorem circle_tri_matrix_rows (o : Op K) (i : Nat) (v : Nat → K) (hnt : 3 ≤ o.nt) (j : Nat) (hj : j < o.nt) :
    (Tridiag.mulC (circleTriMain o i) (circleTriSub o i) (circleTriCorner o i) ((List.range o.nt).map v)).getD j 0
      = centerValue o i j (i - 1) j * v j + bottomValue o i j * v (jm o j) + topValue o i j * v (jp o j) :=
  C06c.circle_matrix_rows o i v hnt j hj

/-- tridiagonal product of the stored matrix of an odd radial line -/
theorem radial_tri_matrix_rows (o : Op K) (nc j : Nat) (v : Nat → K) (hnr : nc + 3 ≤ o.nr) (hnc : 1 ≤ nc) (hj : j < o.nt)
    (t : Nat) (ht : t < o.nr - nc) :
    (Tridiag.mulT (radialTriMain o nc j) (radialTriSub o nc j) ((List.range (o.nr - nc)).map fun t => v (nc + t)) 0).getD t 0
      = C06c.radialRow o nc j v (nc + t) := by
  rw [radialTriMain_eq o nc j hnr, radialTriSub_eq o nc j hnr]
  exact C06c.radial_matrix_rows o nc j v hnr hnc hj t ht

/-- the diagonal solver divides by the stored entry: row `t` of `diag(d) · (diagSolve d y) = y` -/
theorem diag_matrix_rows (d y : List K) (h : d.length = y.length) (t : Nat) (ht : t < y.length) (hd : d.getD t 0 ≠ 0) :
    d.getD t 0 * (diagSolve d y).getD t 0 = y.getD t 0 := by
  rw [getD_diagSolve d y h t ht]
  field_simp

/-- the stored diagonal of an even circle: Center at the odd angular indices, `1` at the coarse nodes -/
theorem circle_diag_entries (o : Op K) (i j : Nat) (hj : j < o.nt) :
    (circleDiag o i).getD j 0 = if j % 2 = 1 then centerValue o i j (i - 1) j else 1 := by
  unfold circleDiag
  rw [SparseLU.getD_map_range, if_pos hj, Scalar.n_one]

/-- dense product of the CSR matrix of the innermost circle (two distinct columns in the odd rows need `nt ≥ 2`, even) -/
theorem inner_matrix_rows (o : Op K) (v : Nat → K) (hnt : 2 ≤ o.nt) (heven : o.nt % 2 = 0) (j : Nat) (hj : j < o.nt) :
    (SparseLU.mulDense (innerCSR o) ((List.range o.nt).map v)).getD j 0 = innerRowDot o v j := by
  have hv : ∀ k, k < o.nt → SparseLU.vget ((List.range o.nt).map v) k = v k := by
    intro k hk; unfold SparseLU.vget; rw [SparseLU.getD_map_range, if_pos hk]
  have h0 : 0 < o.nt := by omega
  unfold SparseLU.mulDense
  rw [SparseLU.getD_map_range, if_pos (by exact hj), loadRow_innerCSR o hnt heven j hj]
  unfold innerRow innerRowDot
  cases hbc : o.bc
  · by_cases hodd : j % 2 = 1
    · simp only [Bool.false_eq_true, if_false, if_pos hodd, List.foldl_cons, List.foldl_nil, hv j hj,
        hv _ (ja_lt o h0 j), Scalar.n_zero]
      ring
    · simp only [Bool.false_eq_true, if_false, if_neg hodd, List.foldl_cons, List.foldl_nil, hv j hj, Scalar.n_zero,
        Scalar.n_one]
      ring
  · simp only [if_true, List.foldl_cons, List.foldl_nil, hv j hj, Scalar.n_zero, Scalar.n_one]
    ring

/-! ## 3  the sweep of the code-level model satisfies every equation of the extrapolated sweep of the spec -/

/-- every line system is solved exactly by the line solver model (discharged below from positive definiteness): the cyclic
    tridiagonal systems of the odd circles, the tridiagonal systems of the odd radial lines, non-zero stored diagonal entries
    at the fine nodes of the even circles / even radial lines, non-vanishing pivots of the innermost circle's LU -/
structure ExLinesOK (o : Op K) (nc : Nat) : Prop where
  circle : ∀ i, 0 < i → i < nc → i % 2 = 1 → ∀ y : List K, y.length = o.nt →
    Tridiag.mulC (circleTriMain o i) (circleTriSub o i) (circleTriCorner o i) (Tridiag.solve (circleTriSolver o i) y).2 = y
  radial : ∀ j, j < o.nt → j % 2 = 1 → ∀ y : List K, y.length = o.nr - nc →
    Tridiag.mulT (radialTriMain o nc j) (radialTriSub o nc j) (Tridiag.solve (radialTriSolver o nc j) y).2 0 = y
  diag : ∀ i j, 0 < i → i + 1 < o.nr → j < o.nt →
    (if i < nc then i % 2 = 0 ∧ j % 2 = 1 else i % 2 = 1 ∧ j % 2 = 0) → centerValue o i j (i - 1) j ≠ 0
  inner : ∀ i, i < o.nt → SparseLU.den ((SparseLU.factorRows (innerCSR o)).2.getD i []) i ≠ 0

/-- one circle update of the sweep (odd circle: cyclic LDLᵀ, even circle: diagonal solver, innermost circle: sparse LU):
    the size, the other circles and the coarse nodes of the circle are untouched (exact equality) and the residual of the
    new state vanishes at the other nodes of the circle -/
theorem circle_step_spec (o : Op K) (nc : Nat) (tiny : K → Bool) (f : Stencil.Field K)
    (hnt : 4 ≤ o.nt) (heven : o.nt % 2 = 0) (hnr : nc + 3 ≤ o.nr) (hl : ExLinesOK o nc)
    (i : Nat) (hi : i < nc) (a a' : Array K) (hs : a.size = o.nr * o.nt)
    (h : (solveCircle o tiny nc f (fld o.nt a) i).map (writeCircle o.nt a i) = some a') :
    a'.size = a.size ∧
    (∀ p q, p < o.nr → q < o.nt → (¬ p = i ∨ coarseNode p q = true) → fld o.nt a' p q = fld o.nt a p q) ∧
    (∀ p q, p < o.nr → q < o.nt → p = i → coarseNode p q = false → take o f (fld o.nt a') p q = 0) := by
  obtain ⟨vs, hvs, rfl⟩ := Option.map_eq_some_iff.mp h
  have hir : i < o.nr := by omega
  -- the two facts about the line solution
  have key : (∀ q, q < o.nt → coarseNode i q = true → vs.getD q 0 = fld o.nt a i q) ∧
      (∀ q, q < o.nt → coarseNode i q = false →
        take o f (withCircle (fld o.nt a) i (fun q => vs.getD q 0)) i q = 0) := by
    have htemp : ∀ q, q < o.nt →
        (circleTemp o nc f (fld o.nt a) i).getD q 0 = orthoCircle o nc f (fld o.nt a) i q := by
      intro q hq; unfold circleTemp; rw [SparseLU.getD_map_range, if_pos hq]
    have htl : (circleTemp o nc f (fld o.nt a) i).length = o.nt := by simp [circleTemp]
    by_cases h0 : i = 0
    · -- innermost circle: sparse LU
      subst h0
      have hsol : SparseLU.solve tiny (SparseLU.factorRows (innerCSR o)) (circleTemp o nc f (fld o.nt a) 0)
          = some vs := by simpa [solveCircle] using hvs
      have hmul := C16.lu_solve tiny (innerCSR o) hl.inner _ vs htl hsol
      have hlen : vs.length = o.nt := SmootherCode.sparse_solve_length tiny (innerCSR o) hl.inner _ vs htl hsol
      have hrow : ∀ q, q < o.nt → innerRowDot o (fun q => vs.getD q 0) q = orthoCircle o nc f (fld o.nt a) 0 q := by
        intro q hq
        have := inner_matrix_rows o (fun q => vs.getD q 0) (by omega) heven q hq
        rw [← SmootherCode.list_eq_map_range vs o.nt hlen, hmul, htemp q hq] at this
        exact this.symm
      have hA : ∀ q, q < o.nt → coarseNode 0 q = true → vs.getD q 0 = fld o.nt a 0 q := by
        intro q hq hc
        have hq0 : ¬ q % 2 = 1 := by
          simp only [coarseNode, Bool.and_eq_true, decide_eq_true_eq] at hc; omega
        have := hrow q hq
        unfold innerRowDot orthoCircle at this
        rw [if_neg (by omega : ¬ (0 < 0 ∧ 0 < nc)), if_pos rfl] at this
        cases hbc : o.bc
        · simpa [hbc, hq0] using this
        · simpa [hbc, hq0] using this
      refine ⟨hA, ?_⟩
      intro q hq hc
      have hq1 : q % 2 = 1 := by
        rcases (C07.ex_relaxed_count 0 q).mp hc with h' | h'
        · exact absurd h' (by decide)
        · exact h'
      have hm := jm_parity o heven hq
      have hp := jp_parity o heven hq
      rw [inner_split o nc f _ _ q hq1
        (hA _ (jm_lt o (by omega) q) (by simp [coarseNode]; omega))
        (hA _ (jp_lt o (by omega) q) (by simp [coarseNode]; omega)), hrow q hq]
      ring
    · by_cases hodd : i % 2 = 1
      · -- odd circle: cyclic tridiagonal
        have hsol : (Tridiag.solve (circleTriSolver o i) (circleTemp o nc f (fld o.nt a) i)).2 = vs := by
          simpa [solveCircle, h0, hodd] using hvs
        have hmul := hl.circle i (by omega) hi hodd _ htl
        rw [hsol] at hmul
        have hlen : vs.length = o.nt := by
          have := SmootherCode.length_of_mulC (circleTriMain o i) (circleTriSub o i) (circleTriCorner o i) vs
            (by simp [circleTriMain, circleTriSub]; omega) (by rw [hmul]; simp [circleTriMain, htl])
          simpa [circleTriMain] using this
        refine ⟨fun q _ hc => ?_, fun q hq _ => ?_⟩
        · simp only [coarseNode, Bool.and_eq_true, decide_eq_true_eq] at hc; omega
        · rw [circle_odd_split o nc f _ _ i q (by omega) hi hodd (by omega)]
          have := circle_tri_matrix_rows o i (fun q => vs.getD q 0) (by omega) q hq
          rw [← SmootherCode.list_eq_map_range vs o.nt hlen, hmul, htemp q hq] at this
          rw [← this]; ring
      · -- even circle: diagonal solver
        have hsol : diagSolve (circleDiag o i) (circleTemp o nc f (fld o.nt a) i) = vs := by
          simpa [solveCircle, h0, hodd] using hvs
        have hval : ∀ q, q < o.nt → vs.getD q 0
            = orthoCircle o nc f (fld o.nt a) i q / (if q % 2 = 1 then centerValue o i q (i - 1) q else 1) := by
          intro q hq
          rw [← hsol, getD_diagSolve _ _ (by simp [circleDiag, circleTemp]) q (by rw [htl]; exact hq), htemp q hq,
            circle_diag_entries o i q hq]
        have hA : ∀ q, q < o.nt → coarseNode i q = true → vs.getD q 0 = fld o.nt a i q := by
          intro q hq hc
          have hq0 : ¬ q % 2 = 1 := by
            simp only [coarseNode, Bool.and_eq_true, decide_eq_true_eq] at hc; omega
          rw [hval q hq, if_neg hq0, div_one]
          unfold orthoCircle
          rw [if_pos ⟨by omega, hi⟩, if_neg hodd, if_neg hq0]
        refine ⟨hA, ?_⟩
        intro q hq hc
        have hq1 : q % 2 = 1 := by
          have := (C07.ex_relaxed_count i q).mp hc; omega
        have hd := hl.diag i q (by omega) (by omega) hq (by rw [if_pos hi]; exact ⟨by omega, hq1⟩)
        rw [circle_even_split o nc f _ _ i q (by omega) hi (by omega) (by omega) heven hq hq1
          (fun b hb hb0 => hA b hb (by simp [coarseNode]; omega))]
        show _ - _ * vs.getD q 0 = 0
        rw [hval q hq, if_pos hq1]
        field_simp
        ring
  refine ⟨SmootherCode.size_writeCircle _ _ _ _, ?_, ?_⟩
  · intro p q hp hq hne
    rw [SmootherCode.fld_writeCircle o.nr o.nt a hs i vs p q hp hq]
    by_cases hpi : p = i
    · subst hpi
      rcases hne with hne | hc
      · exact absurd rfl hne
      · rw [if_pos rfl]; exact key.1 q hq hc
    · rw [if_neg hpi]
  · intro p q hp hq hpi hc
    subst hpi
    have hcongr : take o f (fld o.nt (writeCircle o.nt a p vs)) p q
        = take o f (withCircle (fld o.nt a) p (fun q => vs.getD q 0)) p q := by
      apply take_congr_grid o f _ _ (by omega) (by omega) _ p q hp hq
      intro c d hc hd
      rw [SmootherCode.fld_writeCircle o.nr o.nt a hs p vs c d hc hd]
      rfl
    rw [hcongr]
    exact key.2 q hq hc

/-- one radial-line update of the sweep (odd line: LDLᵀ, even line: diagonal solver): the size, all nodes off the line and
    the coarse nodes of the line are untouched and the residual of the new state vanishes at the other nodes of the line -/
theorem radial_step_spec (o : Op K) (nc : Nat) (f : Stencil.Field K)
    (hnt : 2 ≤ o.nt) (hnc : 2 ≤ nc) (hnr : nc + 3 ≤ o.nr) (hnrodd : o.nr % 2 = 1) (hl : ExLinesOK o nc)
    (j : Nat) (hj : j < o.nt) (a : Array K) (hs : a.size = o.nr * o.nt) :
    (radialStep o nc f a j).size = a.size ∧
    (∀ p q, p < o.nr → q < o.nt → (¬ (nc ≤ p ∧ q = j) ∨ coarseNode p q = true) →
      fld o.nt (radialStep o nc f a j) p q = fld o.nt a p q) ∧
    (∀ p q, p < o.nr → q < o.nt → (nc ≤ p ∧ q = j) → coarseNode p q = false →
      take o f (fld o.nt (radialStep o nc f a j)) p q = 0) := by
  unfold radialStep
  generalize hvs : solveRadial o nc f (fld o.nt a) j = vs
  have htl : (radialTemp o nc f (fld o.nt a) j).length = o.nr - nc := by simp [radialTemp]
  have htemp : ∀ t, t < o.nr - nc →
      (radialTemp o nc f (fld o.nt a) j).getD t 0 = orthoRadial o nc f (fld o.nt a) (nc + t) j := by
    intro t ht; unfold radialTemp; rw [SparseLU.getD_map_range, if_pos ht]
  have key : (∀ p, nc ≤ p → p < o.nr → coarseNode p j = true → vs.getD (p - nc) 0 = fld o.nt a p j) ∧
      (∀ p, nc ≤ p → p < o.nr → coarseNode p j = false →
        take o f (withRadial nc (fld o.nt a) j (fun i => vs.getD (i - nc) 0)) p j = 0) := by
    by_cases hodd : j % 2 = 1
    · -- odd line: tridiagonal
      have hsol : (Tridiag.solve (radialTriSolver o nc j) (radialTemp o nc f (fld o.nt a) j)).2 = vs := by
        simpa [solveRadial, hodd] using hvs
      have hmul := hl.radial j hj hodd _ htl
      rw [hsol] at hmul
      have hlen : vs.length = o.nr - nc := by
        have := SmootherCode.length_of_mulT_length (radialTriMain o nc j) (radialTriSub o nc j) vs 0
          (by simp [radialTriMain, radialTriSub]; omega) (by rw [hmul]; simp [radialTriMain, htl])
        simpa [radialTriMain] using this
      have hrow : ∀ t, t < o.nr - nc →
          C06c.radialRow o nc j (fun i => vs.getD (i - nc) 0) (nc + t) = orthoRadial o nc f (fld o.nt a) (nc + t) j := by
        intro t ht
        have := radial_tri_matrix_rows o nc j (fun i => vs.getD (i - nc) 0) hnr (by omega) hj t ht
        rw [← SmootherCode.list_eq_map_range_shift vs (o.nr - nc) nc hlen, hmul, htemp t ht] at this
        exact this.symm
      have hv : (fun i => vs.getD (i - nc) 0) (o.nr - 1) = f (o.nr - 1) j := by
        have h1 := hrow (o.nr - 1 - nc) (by omega)
        have e : nc + (o.nr - 1 - nc) = o.nr - 1 := by omega
        rw [e] at h1
        have e2 : o.nr - 1 + 1 = o.nr := by omega
        simp only [C06c.radialRow, if_pos e2] at h1
        show vs.getD (o.nr - 1 - nc) 0 = _
        rw [h1]
        unfold orthoRadial
        rw [if_neg (by omega), if_neg (by omega), if_neg (by omega), if_pos e2, if_pos hodd]
      refine ⟨fun p _ _ hc => ?_, fun p hpc hp _ => ?_⟩
      · simp only [coarseNode, Bool.and_eq_true, decide_eq_true_eq] at hc; omega
      · rw [radial_odd_split o nc f _ _ p j hnc hnr hnt hpc hp hodd hv]
        have h2 := hrow (p - nc) (by omega)
        have e : nc + (p - nc) = p := by omega
        rw [e] at h2
        rw [h2]; ring
    · -- even line: diagonal solver
      have hevenj : j % 2 = 0 := by omega
      have hsol : diagSolve (radialDiag o nc j) (radialTemp o nc f (fld o.nt a) j) = vs := by
        simpa [solveRadial, hodd] using hvs
      have hval : ∀ p, nc ≤ p → p < o.nr → vs.getD (p - nc) 0
          = orthoRadial o nc f (fld o.nt a) p j / (radialDiag o nc j).getD (p - nc) 0 := by
        intro p hpc hp
        have e : nc + (p - nc) = p := by omega
        rw [← hsol, getD_diagSolve _ _ (by simp [radialDiag, radialTemp]) (p - nc) (by rw [htl]; omega),
          htemp (p - nc) (by omega), e]
      have hA : ∀ p, nc ≤ p → p < o.nr → coarseNode p j = true → vs.getD (p - nc) 0 = fld o.nt a p j := by
        intro p hpc hp hc
        have hp0 : p % 2 = 0 := by
          simp only [coarseNode, Bool.and_eq_true, decide_eq_true_eq] at hc; omega
        obtain ⟨h1, h2⟩ := (radial_even_entries o nc f (fld o.nt a) p j hnrodd hpc hp hevenj).1 hp0
        rw [hval p hpc hp, h1, h2, div_one]
      refine ⟨hA, ?_⟩
      intro p hpc hp hc
      have hp1 : p % 2 = 1 := by
        have := (C07.ex_relaxed_count p j).mp hc; omega
      obtain ⟨h1, h2, _⟩ := (radial_even_entries o nc f (fld o.nt a) p j hnrodd hpc hp hevenj).2 hp1
      have hd := hl.diag p j (by omega) h1 hj (by rw [if_neg (by omega)]; exact ⟨hp1, hevenj⟩)
      rw [radial_even_split o nc f _ _ p j hnrodd hnt hpc hp hp1 hevenj
        (fun b hb hbr hb0 => hA b hb hbr (by simp [coarseNode]; omega))]
      show _ - _ * vs.getD (p - nc) 0 = 0
      rw [hval p hpc hp, h2]
      field_simp
      ring
  refine ⟨SmootherCode.size_writeRadial _ _ _ _ _, ?_, ?_⟩
  · intro p q hp hq hne
    rw [SmootherCode.fld_writeRadial o.nr o.nt nc a hs j _ p q hp hq]
    by_cases hpq : nc ≤ p ∧ q = j
    · rcases hne with hne | hc
      · exact absurd hpq hne
      · obtain ⟨hpc, rfl⟩ := hpq
        rw [if_pos ⟨hpc, rfl⟩]; exact key.1 p hpc hp hc
    · rw [if_neg hpq]
  · intro p q hp hq hpq hc
    obtain ⟨hpc, rfl⟩ := hpq
    have hcongr : take o f (fld o.nt (writeRadial o.nt nc a q vs)) p q
        = take o f (withRadial nc (fld o.nt a) q (fun i => vs.getD (i - nc) 0)) p q := by
      apply take_congr_grid o f _ _ (by omega) (by omega) _ p q hp hq
      intro c d hc hd
      rw [SmootherCode.fld_writeRadial o.nr o.nt nc a hs q vs c d hc hd]
      rfl
    rw [hcongr]
    exact key.2 p hpc hp hc

/-- one circle colour (`c = 0` black, `c = 1` white) of the sweep: nodes of the other phases and coarse nodes keep their
    value, the other nodes of phase `c + 1` have zero residual in the state after the phase -/
theorem circle_phase_spec (o : Op K) (nc : Nat) (tiny : K → Bool) (f : Stencil.Field K)
    (hnt : 4 ≤ o.nt) (heven : o.nt % 2 = 0) (hnc : 2 ≤ nc) (hnr : nc + 3 ≤ o.nr) (hl : ExLinesOK o nc)
    (c : Nat) (hc : c < 2) (a a' : Array K) (hs : a.size = o.nr * o.nt)
    (h : ((List.range nc).filter fun i => (nc - 1 - i) % 2 = c).foldl (circleStep o tiny nc f) (some a) = some a') :
    a'.size = o.nr * o.nt ∧
    ∀ p q, p < o.nr → q < o.nt →
      ((phase nc p q ≠ c + 1 ∨ coarseNode p q = true) → fld o.nt a' p q = fld o.nt a p q) ∧
      (phase nc p q = c + 1 → coarseNode p q = false → take o f (fld o.nt a') p q = 0) := by
  refine ex_phase_fold' o nc f (Or.inl (by omega)) (by omega) (by omega) heven
    (fun a i => (solveCircle o tiny nc f (fld o.nt a) i).map (writeCircle o.nt a i))
    (fun k p _ => p = k) (c + 1) _ ?_ ?_ ?_ a a' hs h
  · intro k hk p q hp hq hpk
    have hk' : k < nc ∧ (nc - 1 - k) % 2 = c := by simpa using hk
    subst hpk
    refine ⟨?_, fun a b => ?_⟩
    · unfold phase; rw [if_pos hk'.1]; split <;> omega
    · unfold sameLine; rw [if_pos hk'.1]
  · intro p q hp hq hph
    unfold phase at hph
    split at hph
    · rename_i hpc
      refine ⟨p, ?_, rfl⟩
      have : (nc - 1 - p) % 2 = c := by split at hph <;> omega
      simpa using ⟨hpc, this⟩
    · split at hph <;> omega
  · intro k hk a a' hs h
    have hk' : k < nc ∧ (nc - 1 - k) % 2 = c := by simpa using hk
    exact circle_step_spec o nc tiny f hnt heven hnr hl k hk'.1 a a' hs h

/-- one radial colour (`c = 0` black, `c = 1` white) of the sweep -/
theorem radial_phase_spec (o : Op K) (nc : Nat) (f : Stencil.Field K)
    (hnt : 4 ≤ o.nt) (heven : o.nt % 2 = 0) (hnc : 2 ≤ nc) (hnr : nc + 3 ≤ o.nr) (hnrodd : o.nr % 2 = 1)
    (hl : ExLinesOK o nc) (c : Nat) (hc : c < 2) (a : Array K) (hs : a.size = o.nr * o.nt) :
    (((List.range o.nt).filter fun j => j % 2 = c).foldl (radialStep o nc f) a).size = o.nr * o.nt ∧
    ∀ p q, p < o.nr → q < o.nt →
      ((phase nc p q ≠ c + 3 ∨ coarseNode p q = true) →
        fld o.nt (((List.range o.nt).filter fun j => j % 2 = c).foldl (radialStep o nc f) a) p q = fld o.nt a p q) ∧
      (phase nc p q = c + 3 → coarseNode p q = false →
        take o f (fld o.nt (((List.range o.nt).filter fun j => j % 2 = c).foldl (radialStep o nc f) a)) p q = 0) := by
  refine ex_phase_fold' o nc f (Or.inl (by omega)) (by omega) (by omega) heven
    (fun a j => some (radialStep o nc f a j))
    (fun k p q => nc ≤ p ∧ q = k) (c + 3) _ ?_ ?_ ?_ a _ hs (SmootherCode.foldl_bind_some _ _ a)
  · intro k hk p q hp hq hpk
    have hk' : k < o.nt ∧ k % 2 = c := by simpa using hk
    obtain ⟨hpc, rfl⟩ := hpk
    refine ⟨?_, fun a b => ?_⟩
    · unfold phase; rw [if_neg (by omega)]; split <;> omega
    · unfold sameLine; rw [if_neg (by omega)]
  · intro p q hp hq hph
    unfold phase at hph
    split at hph
    · split at hph <;> omega
    · rename_i hpc
      refine ⟨q, ?_, by omega, rfl⟩
      have : q % 2 = c := by split at hph <;> omega
      simpa using ⟨hq, this⟩
  · intro k hk a a' hs h
    have hk' : k < o.nt ∧ k % 2 = c := by simpa using hk
    have := radial_step_spec o nc f (by omega) hnc hnr hnrodd hl k hk'.1 a hs
    simp only [Option.some.injEq] at h
    subst h
    exact this

/-- the four intermediate states of a successful sweep -/
theorem sweep_eq_some (o : Op K) (nc : Nat) (tiny : K → Bool) (f : Stencil.Field K) (x y : Array K)
    (hs : sweep o tiny nc f x = some y) :
    ∃ a1 a2, (blackCircles nc).foldl (circleStep o tiny nc f) (some x) = some a1 ∧
      (whiteCircles nc).foldl (circleStep o tiny nc f) (some a1) = some a2 ∧
      y = (whiteRadials o.nt).foldl (radialStep o nc f) ((blackRadials o.nt).foldl (radialStep o nc f) a2) := by
  unfold sweep at hs
  simp only at hs
  cases h1 : (blackCircles nc).foldl (circleStep o tiny nc f) (some x) with
  | none =>
    rw [h1] at hs
    rw [circleStep_none] at hs
    cases hs
  | some a1 =>
    rw [h1] at hs
    cases h2 : (whiteCircles nc).foldl (circleStep o tiny nc f) (some a1) with
    | none => rw [h2] at hs; cases hs
    | some a2 =>
      rw [h2] at hs
      simp only [Option.map_some, Option.some.injEq] at hs
      exact ⟨a1, a2, rfl, h2, hs.symm⟩

/-- the array keeps its size -/
theorem sweep_size (o : Op K) (nc : Nat) (tiny : K → Bool) (f : Stencil.Field K) (x y : Array K)
    (hs : sweep o tiny nc f x = some y) : y.size = x.size := by
  obtain ⟨a1, a2, h1, h2, rfl⟩ := sweep_eq_some o nc tiny f x y hs
  rw [radial_fold_size, radial_fold_size, circle_fold_size o tiny nc f _ a1 a2 h2,
    circle_fold_size o tiny nc f _ x a1 h1]

/-- **refinement**: whatever `ExtrapolatedSmootherTake::extrapolatedSmoothing` (as modelled: assembled tridiagonal / diagonal /
    CSR matrices, `temp`, LDLᵀ / Sherman–Morrison / diagonal / sparse LU solves, four colour phases in code order) returns
    satisfies the equations of the extrapolated sweep of `GMGModel/Smoother.lean`: coarse nodes keep their value, every other
    node satisfies its sweep equation -/
theorem code_exsweep_isExSweep (o : Op K) (nc : Nat) (tiny : K → Bool) (f : Stencil.Field K) (x y : Array K)
    (hnt : 4 ≤ o.nt) (heven : o.nt % 2 = 0) (hnc : 2 ≤ nc) (hnr : nc + 3 ≤ o.nr) (hnrodd : o.nr % 2 = 1)
    (hx : x.size = o.nr * o.nt) (hl : ExLinesOK o nc) (hs : sweep o tiny nc f x = some y) :
    IsExSweep o nc f (fld o.nt x) (fld o.nt y) := by
  obtain ⟨a1, a2, h1, h2, rfl⟩ := sweep_eq_some o nc tiny f x y hs
  obtain ⟨s1, p1⟩ := circle_phase_spec o nc tiny f hnt heven hnc hnr hl 0 (by omega) x a1 hx h1
  obtain ⟨s2, p2⟩ := circle_phase_spec o nc tiny f hnt heven hnc hnr hl 1 (by omega) a1 a2 s1 h2
  obtain ⟨s3, p3⟩ := radial_phase_spec o nc f hnt heven hnc hnr hnrodd hl 0 (by omega) a2 s2
  obtain ⟨_, p4⟩ := radial_phase_spec o nc f hnt heven hnc hnr hnrodd hl 1 (by omega) _ s3
  refine phases_isExSweep o nc f (by omega) (by omega)
    (fun k => match k with
      | 0 => fld o.nt x
      | 1 => fld o.nt a1
      | 2 => fld o.nt a2
      | 3 => fld o.nt ((blackRadials o.nt).foldl (radialStep o nc f) a2)
      | _ => fld o.nt ((whiteRadials o.nt).foldl (radialStep o nc f)
          ((blackRadials o.nt).foldl (radialStep o nc f) a2))) ?_
  intro k hk1 hk4 p q hp hq
  rcases (by omega : k = 1 ∨ k = 2 ∨ k = 3 ∨ k = 4) with rfl | rfl | rfl | rfl
  · exact p1 p q hp hq
  · exact p2 p q hp hq
  · exact p3 p q hp hq
  · exact p4 p q hp hq

/-- the sweep returns (no `std::exit`) when the `tiny` test never fires on the pivots of the innermost circle -/
theorem code_exsweep_total (o : Op K) (nc : Nat) (tiny : K → Bool) (f : Stencil.Field K) (x : Array K)
    (ht : ∀ i, i < o.nt → tiny (SparseLU.den ((SparseLU.factorRows (innerCSR o)).2.getD i []) i) = false) :
    ∃ y, sweep o tiny nc f x = some y := by
  obtain ⟨a1, h1⟩ := circle_fold_total o tiny nc f ht (blackCircles nc) x
  obtain ⟨a2, h2⟩ := circle_fold_total o tiny nc f ht (whiteCircles nc) a1
  unfold sweep
  simp only [h1, h2, Option.map_some]
  exact ⟨_, rfl⟩

/-- corollary (property clause 1): the code-level sweep returns the coarse nodes unchanged — exact equality -/
theorem code_exsweep_coarse_fixed (o : Op K) (nc : Nat) (tiny : K → Bool) (f : Stencil.Field K) (x y : Array K)
    (hnt : 4 ≤ o.nt) (heven : o.nt % 2 = 0) (hnc : 2 ≤ nc) (hnr : nc + 3 ≤ o.nr) (hnrodd : o.nr % 2 = 1)
    (hx : x.size = o.nr * o.nt) (hl : ExLinesOK o nc) (hs : sweep o tiny nc f x = some y)
    (i j : Nat) (hi : i < o.nr) (hj : j < o.nt) (hc : coarseNode i j = true) :
    fld o.nt y i j = fld o.nt x i j :=
  C07.coarse_fixed o nc f _ _ (code_exsweep_isExSweep o nc tiny f x y hnt heven hnc hnr hnrodd hx hl hs) i j hi hj hc

/-- corollary (property clause 2): after the code-level sweep the residual vanishes on the white radial lines (the last
    colour; all of their nodes are fine-only) -/
theorem code_exsweep_last_colour (o : Op K) (nc : Nat) (tiny : K → Bool) (f : Stencil.Field K) (x y : Array K)
    (hnt : 4 ≤ o.nt) (heven : o.nt % 2 = 0) (hnc : 2 ≤ nc) (hnr : nc + 3 ≤ o.nr) (hnrodd : o.nr % 2 = 1)
    (hx : x.size = o.nr * o.nt) (hl : ExLinesOK o nc) (hs : sweep o tiny nc f x = some y)
    (i j : Nat) (hi : i < o.nr) (hj : j < o.nt) (hrad : nc ≤ i) (hodd : j % 2 = 1) :
    take o f (fld o.nt y) i j = 0 :=
  C07.ex_last_colour o nc f _ _ (code_exsweep_isExSweep o nc tiny f x y hnt heven hnc hnr hnrodd hx hl hs)
    i j hi hj hrad hodd

/-- corollary: every fine-only node satisfies its row equation for the iterate after its own colour phase -/
theorem code_exsweep_phase_colour (o : Op K) (nc : Nat) (tiny : K → Bool) (f : Stencil.Field K) (x y : Array K)
    (hnt : 4 ≤ o.nt) (heven : o.nt % 2 = 0) (hnc : 2 ≤ nc) (hnr : nc + 3 ≤ o.nr) (hnrodd : o.nr % 2 = 1)
    (hx : x.size = o.nr * o.nt) (hl : ExLinesOK o nc) (hs : sweep o tiny nc f x = some y)
    (i j : Nat) (hi : i < o.nr) (hj : j < o.nt) (hc : coarseNode i j = false) :
    take o f (mix nc (phase nc i j) (fld o.nt x) (fld o.nt y)) i j = 0 :=
  C07.ex_phase_colour o nc f _ _ (code_exsweep_isExSweep o nc tiny f x y hnt heven hnc hnr hnrodd hx hl hs)
    _ i j hi hj rfl hc

/-- corollary: the outer Dirichlet nodes of the odd radial lines carry the data, those of the even radial lines (coarse
    nodes, `nr` odd) keep the incoming value -/
theorem code_exsweep_dirichlet_outer (o : Op K) (nc : Nat) (tiny : K → Bool) (f : Stencil.Field K) (x y : Array K)
    (hnt : 4 ≤ o.nt) (heven : o.nt % 2 = 0) (hnc : 2 ≤ nc) (hnr : nc + 3 ≤ o.nr) (hnrodd : o.nr % 2 = 1)
    (hx : x.size = o.nr * o.nt) (hl : ExLinesOK o nc) (hs : sweep o tiny nc f x = some y) (j : Nat) (hj : j < o.nt) :
    fld o.nt y (o.nr - 1) j = if j % 2 = 0 then fld o.nt x (o.nr - 1) j else f (o.nr - 1) j := by
  have h := C07.ex_dirichlet_set_outer o nc (by omega) f _ _
    (code_exsweep_isExSweep o nc tiny f x y hnt heven hnc hnr hnrodd hx hl hs) j hj
  rw [h]
  have he : (o.nr - 1) % 2 = 0 := by omega
  by_cases hj0 : j % 2 = 0
  · rw [if_pos hj0, if_pos (by simp [coarseNode, he, hj0])]
  · rw [if_neg hj0, if_neg (by simp [coarseNode, hj0])]

end AnyField

/-! ## 4  the hypothesis `ExLinesOK` from positive definiteness of the line blocks -/
section Ordered
variable {K : Type} [_root_.Field K] [LinearOrder K] [IsStrictOrderedRing K]

/-- SPD tridiagonal line matrices (in the sense of C14), non-zero stored diagonal entries at the fine nodes of the diagonal
    lines and non-vanishing pivots of the innermost circle's LU give `ExLinesOK` -/
theorem exLinesOK_of_spd (o : Op K) (nc : Nat) (hnt : 4 ≤ o.nt) (hnr : nc + 3 ≤ o.nr)
    (hc : ∀ i, 0 < i → i < nc → i % 2 = 1 → Tridiag.SPDc (circleTriMain o i) (circleTriSub o i) (circleTriCorner o i))
    (hr : ∀ j, j < o.nt → j % 2 = 1 → Tridiag.SPD (radialTriMain o nc j) (radialTriSub o nc j))
    (hd : ∀ i j, 0 < i → i + 1 < o.nr → j < o.nt →
      (if i < nc then i % 2 = 0 ∧ j % 2 = 1 else i % 2 = 1 ∧ j % 2 = 0) → centerValue o i j (i - 1) j ≠ 0)
    (hi : ∀ i, i < o.nt → SparseLU.den ((SparseLU.factorRows (innerCSR o)).2.getD i []) i ≠ 0) :
    ExLinesOK o nc := by
  refine ⟨?_, ?_, hd, hi⟩
  · intro i hi0 hinc hodd y hy
    exact C14.cyclic_solve (circleTriMain o i) (circleTriSub o i) y (circleTriCorner o i) (by simp [circleTriMain, hy])
      (by simp [circleTriMain, circleTriSub]; omega) (by simp [circleTriMain]; omega) (hc i hi0 hinc hodd)
  · intro j hj hodd y hy
    exact C14.tridiag_solve_spd (radialTriMain o nc j) (radialTriSub o nc j) y _ (by simp [radialTriMain, hy])
      (by simp [radialTriMain, radialTriSub]; omega) (hr j hj hodd)

/-- positive diagonal entries are in particular non-zero (the diagonal entry of an M-matrix row) -/
theorem exLinesOK_of_spd_pos (o : Op K) (nc : Nat) (hnt : 4 ≤ o.nt) (hnr : nc + 3 ≤ o.nr)
    (hc : ∀ i, 0 < i → i < nc → i % 2 = 1 → Tridiag.SPDc (circleTriMain o i) (circleTriSub o i) (circleTriCorner o i))
    (hr : ∀ j, j < o.nt → j % 2 = 1 → Tridiag.SPD (radialTriMain o nc j) (radialTriSub o nc j))
    (hd : ∀ i j, 0 < i → i + 1 < o.nr → j < o.nt → 0 < centerValue o i j (i - 1) j)
    (hi : ∀ i, i < o.nt → SparseLU.den ((SparseLU.factorRows (innerCSR o)).2.getD i []) i ≠ 0) :
    ExLinesOK o nc :=
  exLinesOK_of_spd o nc hnt hnr hc hr (fun i j h0 h1 hj _ => ne_of_gt (hd i j h0 h1 hj)) hi

end Ordered

/-! ## 5  non-vacuity: a concrete operator on which `ExLinesOK` holds and the sweep runs -/

/-- across the origin (`bc = false`), `nr = 7`, `nt = 4`, three circles, non-uniform spacings, non-zero mixed coefficient -/
def exOp : Op ℚ :=
  { nr := 7, nt := 4, bc := false, r0 := 1 / 2, h := fun i => 1 + i, k := fun j => if j % 2 = 0 then 1 else 2,
    arr := fun i j => 1 + i + j, att := fun i j => 2 + i * j, art := fun i j => (i : ℚ) - j,
    det := fun i _ => 1 + i, beta := fun i => i }

/-- the code's test `std::abs(diag) < 1e-12` -/
def exTiny : ℚ → Bool := fun d => decide (|d| < 1 / 1000000000000)
def exF : Stencil.Field ℚ := fun i j => 1 + i * j
def exX : Array ℚ := ofField 7 4 (fun i j => (i : ℚ) - 2 * j)
/-- the result of the code-level sweep (28 rationals, computed by the kernel) -/
def exY : Array ℚ := (sweep exOp exTiny 3 exF exX).getD #[]

/-- the hypotheses of `exLinesOK_of_spd` hold for `exOp` (the tridiagonal line matrices are strictly diagonally dominant, the
    stored diagonal entries and the pivots of the innermost circle's LU do not vanish), hence `ExLinesOK` -/
theorem exOp_linesOK : ExLinesOK exOp 3 := by
  apply exLinesOK_of_spd exOp 3 (by decide) (by decide)
  · intro i h0 h1 _
    have : i = 1 ∨ i = 2 := by omega
    rcases this with rfl | rfl
    · exact C14.sddc_is_spdc _ _ _ (by decide +kernel) (by decide +kernel)
    · omega
  · intro j hj _
    have hj' : j < 4 := hj
    exact C14.sdd_is_spd _ _
      ((by decide +kernel : ∀ j, j < 4 → (radialTriSub exOp 3 j).length + 1 = (radialTriMain exOp 3 j).length) j hj')
      ((by decide +kernel : ∀ j, j < 4 → Tridiag.SDD (radialTriMain exOp 3 j) (radialTriSub exOp 3 j)) j hj')
  · intro i j _ hi hj _
    have hi' : i < 7 := by have : exOp.nr = 7 := rfl; omega
    have hj' : j < 4 := hj
    exact (by decide +kernel : ∀ i, i < 7 → ∀ j, j < 4 → centerValue exOp i j (i - 1) j ≠ 0) i hi' j hj'
  · intro i hi
    have hi' : i < 4 := hi
    exact (by decide +kernel :
      ∀ i, i < 4 → SparseLU.den ((SparseLU.factorRows (innerCSR exOp)).2.getD i []) i ≠ 0) i hi'

/-- the sweep returns (no pivot is `tiny`) -/
theorem exY_spec : sweep exOp exTiny 3 exF exX = some exY := by decide +kernel

/-- all hypotheses of `code_exsweep_isExSweep` hold on the instance, so its conclusion does -/
example : IsExSweep exOp 3 exF (fld 4 exX) (fld 4 exY) :=
  code_exsweep_isExSweep exOp 3 exTiny exF exX exY (by decide) (by decide) (by decide) (by decide) (by decide)
    (by decide +kernel) exOp_linesOK exY_spec

/-- independent check by evaluation: the 28 equations of the extrapolated sweep hold for the computed `exY`, the sweep
    changed fine nodes on a diagonal circle, on a tridiagonal circle, on the innermost circle and on both kinds of radial
    lines, and kept the coarse nodes -/
example : (∀ i, i < 7 → ∀ j, j < 4 → exDefect exOp 3 exF (fld 4 exX) (fld 4 exY) i j = 0) ∧
    fld 4 exY 2 1 ≠ fld 4 exX 2 1 ∧ fld 4 exY 1 0 ≠ fld 4 exX 1 0 ∧ fld 4 exY 0 1 ≠ fld 4 exX 0 1 ∧
    fld 4 exY 3 2 ≠ fld 4 exX 3 2 ∧ fld 4 exY 4 1 ≠ fld 4 exX 4 1 ∧
    (∀ i, i < 7 → ∀ j, j < 4 → coarseNode i j = true → fld 4 exY i j = fld 4 exX i j) := by decide +kernel

/-- `code_exsweep_total` on the instance -/
example : ∃ y, sweep exOp exTiny 3 exF exX = some y :=
  code_exsweep_total exOp 3 exTiny exF exX (by decide +kernel)

/-! ## 6  the hypothesis `nr` odd is needed -/

/-- the same data on a grid with an even number of radial nodes -/
def evOp : Op ℚ := { exOp with nr := 6 }
def evX : Array ℚ := ofField 6 4 (fun i j => (i : ℚ) - 2 * j)
def evY : Array ℚ := (sweep evOp exTiny 3 exF evX).getD #[]

theorem evOp_linesOK : ExLinesOK evOp 3 := by
  apply exLinesOK_of_spd evOp 3 (by decide) (by decide)
  · intro i h0 h1 _
    have : i = 1 ∨ i = 2 := by omega
    rcases this with rfl | rfl
    · exact C14.sddc_is_spdc _ _ _ (by decide +kernel) (by decide +kernel)
    · omega
  · intro j hj _
    have hj' : j < 4 := hj
    exact C14.sdd_is_spd _ _
      ((by decide +kernel : ∀ j, j < 4 → (radialTriSub evOp 3 j).length + 1 = (radialTriMain evOp 3 j).length) j hj')
      ((by decide +kernel : ∀ j, j < 4 → Tridiag.SDD (radialTriMain evOp 3 j) (radialTriSub evOp 3 j)) j hj')
  · intro i j _ hi hj _
    have hi' : i < 6 := by have : evOp.nr = 6 := rfl; omega
    have hj' : j < 4 := hj
    exact (by decide +kernel : ∀ i, i < 6 → ∀ j, j < 4 → centerValue evOp i j (i - 1) j ≠ 0) i hi' j hj'
  · intro i hi
    have hi' : i < 4 := hi
    exact (by decide +kernel :
      ∀ i, i < 4 → SparseLU.den ((SparseLU.factorRows (innerCSR evOp)).2.getD i []) i ≠ 0) i hi'

theorem evY_spec : sweep evOp exTiny 3 exF evX = some evY := by decide +kernel

/-- **the hypothesis `nr` odd cannot be dropped**: on `evOp` (`nr = 6`, all other hypotheses of `code_exsweep_isExSweep`
    hold) the code-level sweep moves the coarse node `(4, 0)` (row `i = nr - 2` of an even radial line stores Center and
    gets the relaxation right-hand side whatever the parity of `i`; the C++ only `assert`s `i_r % 2 == 1` there) and keeps
    the incoming value at the fine Dirichlet node `(5, 0)` instead of setting the boundary datum.  Grids with `nr` even do
    not occur on the smoothed levels of a solver whose set-up succeeded (`C18.levels_admissible`). -/
theorem nr_odd_needed :
    ¬ ∀ (o : Op ℚ) (nc : Nat) (tiny : ℚ → Bool) (f : Stencil.Field ℚ) (x y : Array ℚ),
      4 ≤ o.nt → o.nt % 2 = 0 → 2 ≤ nc → nc + 3 ≤ o.nr → x.size = o.nr * o.nt → ExLinesOK o nc →
      sweep o tiny nc f x = some y → IsExSweep o nc f (fld o.nt x) (fld o.nt y) := by
  intro h
  have h1 := h evOp 3 exTiny exF evX evY (by decide) (by decide) (by decide) (by decide) (by decide +kernel)
    evOp_linesOK evY_spec
  have h2 := C07.coarse_fixed evOp 3 exF _ _ h1 4 0 (by decide) (by decide) (by decide)
  revert h2
  decide +kernel

/-- the two observable effects on `evOp`: the coarse node `(4, 0)` moves, the Dirichlet node `(5, 0)` keeps the incoming
    value although it differs from the datum -/
example : fld 4 evY 4 0 ≠ fld 4 evX 4 0 ∧ fld 4 evY 5 0 = fld 4 evX 5 0 ∧ fld 4 evX 5 0 ≠ exF 5 0 := by decide +kernel

/-! ## 7  `nt` divisible by 4 is not needed: an instance with `nt = 6` -/

/-- the same data with six angular nodes: `nt / 2` is odd, the antipode of the odd node 1 of the innermost circle is the
    coarse node 4 -/
def op6 : Op ℚ := { exOp with nt := 6 }
def x6 : Array ℚ := ofField 7 6 (fun i j => (i : ℚ) - 2 * j)
def y6 : Array ℚ := (sweep op6 exTiny 3 exF x6).getD #[]
theorem op6_linesOK : ExLinesOK op6 3 := by
  apply exLinesOK_of_spd op6 3 (by decide) (by decide)
  · intro i h0 h1 _
    have : i = 1 ∨ i = 2 := by omega
    rcases this with rfl | rfl
    · exact C14.sddc_is_spdc _ _ _ (by decide +kernel) (by decide +kernel)
    · omega
  · intro j hj _
    have hj' : j < 6 := hj
    exact C14.sdd_is_spd _ _
      ((by decide +kernel : ∀ j, j < 6 → (radialTriSub op6 3 j).length + 1 = (radialTriMain op6 3 j).length) j hj')
      ((by decide +kernel : ∀ j, j < 6 → Tridiag.SDD (radialTriMain op6 3 j) (radialTriSub op6 3 j)) j hj')
  · intro i j _ hi hj _
    have hi' : i < 7 := by have : op6.nr = 7 := rfl; omega
    have hj' : j < 6 := hj
    exact (by decide +kernel : ∀ i, i < 7 → ∀ j, j < 6 → centerValue op6 i j (i - 1) j ≠ 0) i hi' j hj'
  · intro i hi
    have hi' : i < 6 := hi
    exact (by decide +kernel :
      ∀ i, i < 6 → SparseLU.den ((SparseLU.factorRows (innerCSR op6)).2.getD i []) i ≠ 0) i hi'
theorem y6_spec : sweep op6 exTiny 3 exF x6 = some y6 := by decide +kernel
/-- the main theorem applies (no hypothesis `nt % 4 = 0`) -/
example : IsExSweep op6 3 exF (fld 6 x6) (fld 6 y6) :=
  code_exsweep_isExSweep op6 3 exTiny exF x6 y6 (by decide) (by decide) (by decide) (by decide) (by decide)
    (by decide +kernel) op6_linesOK y6_spec
/-- independent check by evaluation -/
example : (∀ i, i < 7 → ∀ j, j < 6 → exDefect op6 3 exF (fld 6 x6) (fld 6 y6) i j = 0) ∧ fld 6 y6 0 1 ≠ fld 6 x6 0 1 ∧ ja op6 1 = 4 := by decide +kernel
end C07c
