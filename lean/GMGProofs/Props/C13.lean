import GMGProofs.Lemmas.CycleLoop
import GMGProofs.Lemmas.CycleToy
/-!
# C13 — a solver object can be reused

Property theorems only.  Model: `MGCycle.solve` (`GMGModel/Solve.lean`, the code after the `fix:` commits:
statistics cleared and the COMBINED smoother switch re-armed at the top of `solve()`).
Every `V`, `R`, `Ops V`, `NormOps V R`, every configuration (all extrapolation modes, with and without FMG,
all cycle kinds), all object states.
-/
namespace C13
open MGCycle

variable {V R : Type}

/-- two objects whose level right-hand sides agree — whatever their work vectors, statistics and (for
    `extrapMode = 3`) smoother switch hold — solve identically -/
theorem reuse_eq_fresh (o : Ops V) (n : NormOps V R) (c : SolveCfg R) (s s' : Obj V R)
    (hr : ∀ l, s.mem (l, .rhs) = s'.mem (l, .rhs)) (hf : c.extrapMode ≠ 3 → s.fgs = s'.fgs) :
    (solve o n c s).iters = (solve o n c s').iters ∧
    (solve o n c s).norms = (solve o n c s').norms ∧
    (solve o n c s).stoppedEarly = (solve o n c s').stoppedEarly ∧
    (solve o n c s).fgs = (solve o n c s').fgs ∧
    (solve o n c s).mem (0, .sol) = (solve o n c s').mem (0, .sol) ∧
    ∀ l, (solve o n c s).mem (l, .rhs) = (solve o n c s').mem (l, .rhs) := by
  have h := loop_sim o n c c.maxit _ _ (startState_sim o c s s' hr hf)
  rw [← solve_eq, ← solve_eq] at h
  exact ⟨h.iters, h.norms, h.stopped, h.fgs, h.sol, h.rhs⟩

/-- a solve keeps the right-hand sides, and the smoother switch unless the mode is COMBINED -/
theorem solve_keeps (o : Ops V) (n : NormOps V R) (c : SolveCfg R) (s : Obj V R) :
    (∀ l, (solve o n c s).mem (l, .rhs) = s.mem (l, .rhs)) ∧
    (c.extrapMode ≠ 3 → (solve o n c s).fgs = s.fgs) :=
  ⟨solve_rhs o n c s, solve_fgs o n c s⟩

/-- hence calling `solve()` a second time on the same object reproduces the first call -/
theorem solve_twice (o : Ops V) (n : NormOps V R) (c : SolveCfg R) (s : Obj V R) :
    (solve o n c (solve o n c s)).iters = (solve o n c s).iters ∧
    (solve o n c (solve o n c s)).norms = (solve o n c s).norms ∧
    (solve o n c (solve o n c s)).stoppedEarly = (solve o n c s).stoppedEarly ∧
    (solve o n c (solve o n c s)).fgs = (solve o n c s).fgs ∧
    (solve o n c (solve o n c s)).mem (0, .sol) = (solve o n c s).mem (0, .sol) := by
  obtain ⟨a, b, d, e, f, _⟩ := reuse_eq_fresh o n c (solve o n c s) s (solve_rhs o n c s) (solve_fgs o n c s)
  exact ⟨a, b, d, e, f⟩

/-! ## non-vacuity -/

/-- a used object (junk `-4` in the work vectors, old statistics, switch already flipped) against a fresh one,
    COMBINED extrapolation with FMG on three levels -/
example : (solve toyOps toyNorm ⟨⟨3, 1, 1⟩, .W, 3, true, .F, 1, 2, some 0, some 0⟩
      ⟨toyMem (fun l => l + 1) (-4), false, [1, 2], 9, true⟩).mem (0, .sol) =
    (solve toyOps toyNorm ⟨⟨3, 1, 1⟩, .W, 3, true, .F, 1, 2, some 0, some 0⟩
      ⟨toyMem (fun l => l + 1) 0, true, [], 0, false⟩).mem (0, .sol) :=
  (reuse_eq_fresh toyOps toyNorm _ _ _ (fun l => by simp [toyMem]) (fun h => absurd rfl h)).2.2.2.2.1

/-- the hypothesis on the switch cannot be dropped for the other modes: with `extrapMode = 1` the switch
    selects the smoother and the results differ -/
example : (solve toyOps toyNorm ⟨⟨2, 1, 0⟩, .V, 1, false, .V, 0, 1, none, none⟩
      ⟨toyMem (fun _ => 1) 0, false, [], 0, false⟩).mem (0, .sol) ≠
    (solve toyOps toyNorm ⟨⟨2, 1, 0⟩, .V, 1, false, .V, 0, 1, none, none⟩
      ⟨toyMem (fun _ => 1) 0, true, [], 0, false⟩).mem (0, .sol) := by decide

end C13
