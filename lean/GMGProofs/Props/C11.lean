import GMGProofs.Lemmas.SchedTake
import GMGProofs.Lemmas.SchedGive
import GMGProofs.Lemmas.SchedSmootherTake
import GMGProofs.Lemmas.SchedSmootherGive
import GMGProofs.Lemmas.SchedExSmootherGive
import GMGProofs.Lemmas.SchedWitness
/-!
# C11 — no data race in any modelled parallel region, for every shape

Property theorems only.  Model: `GMGModel/Sched.lean` (loops, barrier intervals, hand-written kernel footprints);
the twelve regions are the terms `Sched.Gen.*` of `Generated/Sched.lean`, regenerated from the C++ on every check.
The proofs (`GMGProofs/Lemmas/Sched*.lean`) unfold the generated loop terms, so an added `nowait`, a changed stride or start,
or a moved barrier changes the term and breaks the proof.

`RegionRaceFree s reg`: for every barrier interval of `reg`, any two calls of two different iterations of one loop, or of
any iterations of two loops of the interval, never touch the same node `(r, θ)` of the same shared array with at least one
write.  All shapes: `Admissible s` (`2 ≤ nc`, `nc + 3 ≤ nr`, `nt` even `≥ 4`); the smoothers additionally need
`nt % 4 = 0` (`SmoothAdmissible`), and `smootherGive_needs_nt_div4` shows that this hypothesis cannot be dropped.
-/
namespace C11
open Sched

/-! ### gather ("take") regions: every call writes its own row / line -/

theorem race_free_residualTake (s : Shape) (h : Admissible s) : RegionRaceFree s Gen.residualTake :=
  Lem.residualTake_raceFree s h
theorem race_free_directTake (s : Shape) (h : Admissible s) : RegionRaceFree s Gen.directTake :=
  Lem.directTake_raceFree s h
theorem race_free_smootherTakeAsc (s : Shape) (h : Admissible s) : RegionRaceFree s Gen.smootherTakeAsc :=
  Lem.smootherTakeAsc_raceFree s h
theorem race_free_exSmootherTakeAsc (s : Shape) (h : Admissible s) : RegionRaceFree s Gen.exSmootherTakeAsc :=
  Lem.exSmootherTakeAsc_raceFree s h

/-! ### scatter ("give") regions: stride 3, `nowait` overlap of circle section 2 and radial section 0, `nt % 3` remainder -/

theorem race_free_residualGive (s : Shape) (h : Admissible s) : RegionRaceFree s Gen.residualGive :=
  Lem.residualGive_raceFree s h
theorem race_free_directGive (s : Shape) (h : Admissible s) : RegionRaceFree s Gen.directGive :=
  Lem.directGive_raceFree s h
theorem race_free_smootherGiveAsc (s : Shape) (h : Admissible s) : RegionRaceFree s Gen.smootherGiveAsc :=
  Lem.smootherGiveAsc_raceFree s h
theorem race_free_exSmootherGiveAsc (s : Shape) (h : Admissible s) : RegionRaceFree s Gen.exSmootherGiveAsc :=
  Lem.exSmootherGiveAsc_raceFree s h

/-! ### smoothers -/

theorem race_free_smootherTake (s : Shape) (h : SmoothAdmissible s) : RegionRaceFree s Gen.smootherTake :=
  Lem.smootherTake_raceFree s h.toAdmissible
theorem race_free_exSmootherTake (s : Shape) (h : SmoothAdmissible s) : RegionRaceFree s Gen.exSmootherTake :=
  Lem.exSmootherTake_raceFree s h.toAdmissible
/-- the take smoothers do not need `nt % 4 = 0` (two colours of lines, stride 2) -/
theorem race_free_smootherTake_nt_even (s : Shape) (h : Admissible s) : RegionRaceFree s Gen.smootherTake :=
  Lem.smootherTake_raceFree s h
theorem race_free_exSmootherTake_nt_even (s : Shape) (h : Admissible s) : RegionRaceFree s Gen.exSmootherTake :=
  Lem.exSmootherTake_raceFree s h
theorem race_free_smootherGive (s : Shape) (h : SmoothAdmissible s) : RegionRaceFree s Gen.smootherGive :=
  Lem.smootherGive_raceFree s h
theorem race_free_exSmootherGive (s : Shape) (h : SmoothAdmissible s) : RegionRaceFree s Gen.exSmootherGive :=
  Lem.exSmootherGive_raceFree s h

/-- all twelve regions at once, on the shapes the smoothers run on -/
theorem race_free_all (s : Shape) (h : SmoothAdmissible s) : ∀ reg ∈ Gen.all, RegionRaceFree s reg := by
  have hA := h.toAdmissible
  intro reg hreg
  simp only [Gen.all, List.mem_cons, List.not_mem_nil, or_false] at hreg
  rcases hreg with rfl | rfl | rfl | rfl | rfl | rfl | rfl | rfl | rfl | rfl | rfl | rfl
  · exact race_free_residualGive s hA
  · exact race_free_residualTake s hA
  · exact race_free_smootherGive s h
  · exact race_free_smootherTake s h
  · exact race_free_exSmootherGive s h
  · exact race_free_exSmootherTake s h
  · exact race_free_directGive s hA
  · exact race_free_directTake s hA
  · exact race_free_smootherGiveAsc s hA
  · exact race_free_smootherTakeAsc s hA
  · exact race_free_exSmootherGiveAsc s hA
  · exact race_free_exSmootherTakeAsc s hA

/-- `nt % 4 = 0` cannot be dropped for the give smoothers: `nr = 5, nt = 6, nc = 2` is `Admissible`, but iterations 1 and 5
    of loop 7 (black pass over the odd lines `1, 5, …`, stride 4) both update `temp` on line 0 (node `(2, 0)`). -/
theorem smootherGive_needs_nt_div4 : ¬ RegionRaceFree ⟨5, 6, 2⟩ Gen.smootherGive :=
  Lem.smootherGive_not_raceFree_nt6
theorem exSmootherGive_needs_nt_div4 : ¬ RegionRaceFree ⟨5, 6, 2⟩ Gen.exSmootherGive :=
  Lem.exSmootherGive_not_raceFree_nt6

/-- the barriers matter: without the one between circle sections 0 and 1 `ResidualGive` would race on row 3 (`nc = 5`) -/
theorem residualGive_barrier_needed :
    ¬ LoopsRaceFree ⟨8, 8, 5⟩ (Gen.residualGive.loops.getD 0 default) (Gen.residualGive.loops.getD 1 default) false :=
  Lem.residualGive_0_1_conflict
/-- … and without the one after the black circle solve `SmootherGive` would race on `x` of circle 4 (`nc = 5`) -/
theorem smootherGive_barrier_needed :
    ¬ LoopsRaceFree ⟨8, 8, 5⟩ (Gen.smootherGive.loops.getD 3 default) (Gen.smootherGive.loops.getD 4 default) false :=
  Lem.smootherGive_3_4_conflict

/-- the per-thread solver scratch vectors are declared INSIDE the parallel region (private to each thread) -/
theorem private_scratch :
    Gen.smootherGive_private = ["circle_solver_storage_1", "circle_solver_storage_2", "radial_solver_storage"] ∧
    Gen.smootherTake_private = ["circle_solver_storage_1", "circle_solver_storage_2", "radial_solver_storage"] ∧
    Gen.exSmootherGive_private = ["circle_solver_storage_1", "circle_solver_storage_2", "radial_solver_storage"] ∧
    Gen.exSmootherTake_private = ["circle_solver_storage_1", "circle_solver_storage_2", "radial_solver_storage"] :=
  ⟨rfl, rfl, rfl, rfl⟩

/-! ### non-vacuity: the hypotheses are satisfiable, the loops have iterations, the intervals are the real ones -/

example : Admissible ⟨5, 6, 2⟩ := ⟨by decide, by decide, by decide, by decide⟩
example : SmoothAdmissible ⟨8, 8, 5⟩ := ⟨⟨by decide, by decide, by decide, by decide⟩, by decide⟩
example : intervals Gen.residualGive.loops = [[0], [1], [2, 3], [4], [5]] := by decide
example : intervals Gen.smootherGive.loops = [[0], [1], [2], [3], [4, 5], [6, 7], [8, 9], [10, 11], [12], [13], [14], [15]] := by
  decide
example : intervals Gen.smootherTake.loops = [[0], [1, 2], [3]] := by decide
/-- the `nowait` pair of `ResidualGive` really runs: circle section 2 and radial section 0 both have iterations -/
example : (Gen.residualGive.loops.getD 2 default).has ⟨8, 8, 5⟩ 2 ∧ (Gen.residualGive.loops.getD 3 default).has ⟨8, 8, 5⟩ 3 := by
  decide
/-- the model can express a conflict: the same two loops of `SmootherGive` on the same grid size race for `nt = 6` only -/
example : RegionRaceFree ⟨5, 8, 2⟩ Gen.smootherGive ∧ ¬ RegionRaceFree ⟨5, 6, 2⟩ Gen.smootherGive :=
  ⟨race_free_smootherGive _ ⟨⟨by decide, by decide, by decide, by decide⟩, by decide⟩, smootherGive_needs_nt_div4⟩

end C11
