import GMGModel.DirectCode
import Generated.Stencils
import GMGProofs.Props.C04
import GMGProofs.Lemmas.DirectCode3
/-!
# C04 (code level) — the CSR matrix `DirectSolverTakeCustomLU::buildSolverMatrix` assembles IS the operator

Model: `GMGModel/DirectCode.lean` (per-node stores in code order through the offset tables, zero-initialised rows of the
allocated size), instantiated with the tables `tools/stencil_extract.py` regenerates from
`include/DirectSolver/DirectSolverTakeCustomLU/directSolverTakeCustomLU.h` (`Generated/Stencils.lean`).
This discharges the hypothesis `hM` of `C04.solve_inverts` / `pivots_dirichlet` for the code-level matrix.
Property theorems only; helper lemmas in `GMGProofs/Lemmas/DirectCode*.lean`.
-/
namespace C04c
open Stencil Direct SparseLU DirectCode

/-- the offset tables of the header, as regenerated on every check -/
def genTables : Tables :=
  ⟨Stencils.Gen.DirectTake_stencil_interior, Stencils.Gen.DirectTake_stencil_across_origin, Stencils.Gen.DirectTake_stencil_DB,
   Stencils.Gen.DirectTake_stencil_next_inner_DB, Stencils.Gen.DirectTake_stencil_next_outer_DB⟩

/-- the regenerated tables have the values the lemmas of `GMGProofs/Lemmas/DirectCode2.lean` are stated for
    (a change of the header breaks this `rfl`) -/
theorem genTables_good : GoodTables genTables := ⟨rfl, rfl, rfl, rfl, rfl⟩

section AnyField
variable {K : Type} [_root_.Field K]

/-- with the header's tables no store of the assembly leaves its row (no `-1` offset is used, none exceeds the allocated
    row size), for every grid with at least four radial nodes -/
theorem assemble_in_bounds (o : Op K) (hnr : 4 ≤ o.nr) : ∃ M, assemble genTables o = some M :=
  ⟨_, assemble_eq genTables o genTables_good hnr⟩

/-- a table with a missing position DOES produce an out-of-bounds store (the model can see the defect class) -/
theorem assemble_out_of_bounds_detected :
    assemble (α := ℚ) { genTables with interior := [7, 4, 8, 1, 0, 2, 5, 3, -1] }
      ⟨5, 4, true, 1, fun _ => 1, fun _ => 1, fun _ _ => 1, fun _ _ => 1, fun _ _ => 0, fun _ _ => 1, fun _ => 0⟩ = none := by
  rw [assemble, Option.map_eq_none_iff]
  decide +kernel

theorem assemble_rows (o : Op K) (M : CSR K) (h : assemble genTables o = some M) : M.rows = o.nr * o.nt := by
  unfold assemble at h
  obtain ⟨rs, _, rfl⟩ := Option.map_eq_some_iff.mp h
  rfl

/-- **the assembled matrix carries exactly the operator's entries** (row-major numbering) -/
theorem assemble_entries (o : Op K) (hnr : 4 ≤ o.nr) (hnt : 4 ≤ o.nt) (heven : o.nt % 2 = 0)
    (M : CSR K) (h : assemble genTables o = some M) :
    ∀ i j s t, i < o.nr → j < o.nt → s < o.nr → t < o.nt →
      toDense M (i * o.nt + j) (s * o.nt + t) = opEntry o i j s t := by
  intro i j s t hi hj _ ht
  rw [assemble_eq genTables o genTables_good hnr] at h
  obtain rfl := Option.some.inj h
  have hlen : i * o.nt + j < (rowList o).length := by rw [rowList_length]; exact idx_lt hi hj
  have hrow := rowList_getD o hi hj
  rw [toDense_csrRows _ _ _ _ hlen
    (by rw [hrow]
        exact uniq_nodeRow o _ (writes_nodes o hnr hnt heven hi hj).1 (writes_nodes o hnr hnt heven hi hj).2),
    hrow]
  exact row_entries o hnr hnt heven hi hj ht

/-- code-level form of `C04.solve_inverts`: what the modelled `DirectSolverTakeCustomLU` returns has zero residual -/
theorem code_solve_inverts (o : Op K) (hnr : 4 ≤ o.nr) (hnt : 4 ≤ o.nt) (heven : o.nt % 2 = 0) (tiny : K → Bool)
    (M : CSR K) (hM : assemble genTables o = some M)
    (hp : ∀ r, r < M.rows → den ((factorRows M).2.getD r []) r ≠ 0)
    (b xv : List K) (hb : b.length = o.nr * o.nt)
    (hs : DirectCode.solve genTables o tiny b = some (some xv)) :
    ∀ i j, i < o.nr → j < o.nt →
      take o (fun i j => vget b (i * o.nt + j)) (fun i j => vget xv (i * o.nt + j)) i j = 0 := by
  have hrows := assemble_rows o M hM
  unfold DirectCode.solve at hs
  rw [hM] at hs
  have hs' : SparseLU.solve tiny (factorRows M) b = some xv := Option.some.inj hs
  exact C04.solve_inverts o (by omega) (by omega) tiny M hrows (assemble_entries o hnr hnt heven M hM) hp b xv
    (by rw [hrows]; exact hb) hs'

end AnyField

section Ordered
variable {K : Type} [_root_.Field K] [LinearOrder K] [IsStrictOrderedRing K]

/-- Dirichlet inner boundary, elliptic data: no pivot hypothesis — the code-level solve either takes the `tiny` exit or
    returns the solution of the discrete system -/
theorem code_solve_inverts_dirichlet (o : Op K) (hnr : 4 ≤ o.nr) (hnt : 4 ≤ o.nt) (heven : o.nt % 2 = 0)
    (hbc : o.bc = true) (he : Elliptic o) (tiny : K → Bool) (b xv : List K) (hb : b.length = o.nr * o.nt)
    (hs : DirectCode.solve genTables o tiny b = some (some xv)) :
    ∀ i j, i < o.nr → j < o.nt →
      take o (fun i j => vget b (i * o.nt + j)) (fun i j => vget xv (i * o.nt + j)) i j = 0 := by
  obtain ⟨M, hM⟩ := assemble_in_bounds o hnr
  have hrows := assemble_rows o M hM
  unfold DirectCode.solve at hs
  rw [hM] at hs
  have hs' : SparseLU.solve tiny (factorRows M) b = some xv := Option.some.inj hs
  exact C04.solve_inverts_dirichlet o hnr (by omega) heven hbc he tiny M hrows
    (assemble_entries o hnr hnt heven M hM) b xv (by rw [hrows]; exact hb) hs'

end Ordered
end C04c
