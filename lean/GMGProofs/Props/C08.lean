import GMGProofs.Lemmas.InterpAdjoint
import GMGProofs.Lemmas.InterpAdjointEx
import GMGProofs.Lemmas.InterpPointwise
import GMGProofs.Lemmas.InterpExamples
/-!
# C08 — grid transfer: prolongation, restriction, their extrapolated variants, injection

Property theorems only.  Model: `GMGModel/Interp.lean` (transcribes `src/Interpolation/*.cpp`).
Helper definitions (`Interp.Admissible`, `Interp.PosSpacing`, the 1-D rules `Pr Pt Rr Rt`, the concrete pairs
`exPair exPairU exPairBad`) live in `GMGProofs/Lemmas/Interp*.lean`.

`Admissible p`: `nrF` odd and `≥ 3`, `ntF` even and `≥ 4` (any such size).  `K` is an arbitrary field
(linearly ordered where positivity is mentioned).  Inner products are the plain double sums over all nodes.
-/
namespace C08
open Interp hiding Field
open Finset

section AnyField
variable {K : Type} [Field K]

/-! ## 1. `restrict` is the transpose of `prolong` — pure field identity, no spacing assumed non-zero -/

/-- radial 1-D rule (non-periodic, `2m+1` fine nodes, code weights) -/
theorem adjoint_radial (m : ℕ) (h u w : ℕ → K) :
    ∑ i ∈ range (2 * m + 1), Pr h u i * w i = ∑ I ∈ range (m + 1), u I * Rr (m + 1) h w I :=
  adjoint_r m h u w

/-- angular 1-D rule (periodic, `2q` fine nodes, code weights) -/
theorem adjoint_angular (q : ℕ) (k v z : ℕ → K) :
    ∑ j ∈ range (2 * q), Pt (2 * q) q k v j * z j = ∑ J ∈ range q, v J * Rt (2 * q) k z J :=
  adjoint_t q k v z

/-- the model operators are the tensor products of the 1-D rules -/
theorem prolong_tensor (p : Pair K) (x : Interp.Field K) (i j : ℕ) :
    prolong p x i j = Pr p.hF (fun I => Pt p.ntF (ntC p) p.kF (x I) j) i := prolong_eq_tensor p x i j

theorem restrict_tensor (p : Pair K) (y : Interp.Field K) (I J : ℕ) :
    restrict p y I J = Rr (nrC p) p.hF (fun i => Rt p.ntF p.kF (y i) J) I := restrict_eq_tensor p y I J

/-- ⟨P x, y⟩_fine = ⟨x, R y⟩_coarse for every admissible size, every coarse `x`, every fine `y` -/
theorem adjoint (p : Pair K) (hA : Admissible p) (x y : Interp.Field K) :
    ∑ i ∈ range p.nrF, ∑ j ∈ range p.ntF, prolong p x i j * y i j
      = ∑ I ∈ range (nrC p), ∑ J ∈ range (ntC p), x I J * restrict p y I J := by
  obtain ⟨m, q, _, _, hnr, hnt, _, _⟩ := hA.exists_mq
  exact adjoint_mq p m q hnr hnt x y

/-! ## 2. the same for the extrapolated pair (anti-diagonal at odd/odd nodes, not a tensor product) -/

theorem adjoint_ex (p : Pair K) (hA : Admissible p) (x y : Interp.Field K) :
    ∑ i ∈ range p.nrF, ∑ j ∈ range p.ntF, exProlong p x i j * y i j
      = ∑ I ∈ range (nrC p), ∑ J ∈ range (ntC p), x I J * exRestrict p y I J := by
  obtain ⟨m, q, _, _, hnr, hnt, _, _⟩ := hA.exists_mq
  exact adjoint_ex_mq p m q hnr hnt x y

/-! ## 3. coarse values are copied -/

theorem inject_prolong (p : Pair K) (x : Interp.Field K) (I J : ℕ) : inject (prolong p x) I J = x I J := by
  unfold inject
  rw [prolong_eq_tensor, Pr_even, Pt_even]

theorem inject_exProlong (p : Pair K) (x : Interp.Field K) (I J : ℕ) : inject (exProlong p x) I J = x I J :=
  exProlong_ee p x I J

theorem inject_fmgInterp (p : Pair K) (hA : Admissible p) (x : Interp.Field K) (I J : ℕ) :
    inject (fmgInterp p x) I J = x I J := inject_fmg p hA x I J

/-! ## 4./5. constants and linear data, denominators non-zero -/

/-- constants are reproduced as soon as the two denominators of the node do not vanish -/
theorem prolong_const_of_ne (p : Pair K) (c : K) (i j : ℕ) (hh : p.hF (i - 1) + p.hF i ≠ 0)
    (hk : p.kF (wF p (j + p.ntF - 1)) + p.kF j ≠ 0) : prolong p (fun _ _ => c) i j = c :=
  Interp.prolong_const_of_ne p c i j hh hk

end AnyField

section Ordered
variable {K : Type} [Field K] [LinearOrder K] [IsStrictOrderedRing K]

/-! ## 4. convexity -/

theorem prolong_const (p : Pair K) (hP : PosSpacing p) (c : K) (i j : ℕ) :
    prolong p (fun _ _ => c) i j = c := by
  apply Interp.prolong_const_of_ne
  · have := hP.hF (i - 1); have := hP.hF i; positivity
  · have := hP.kF (wF p (j + p.ntF - 1)); have := hP.kF j; positivity

/-- positive spacings: every prolongated value lies between the bounds of the coarse data -/
theorem prolong_bounds (p : Pair K) (hP : PosSpacing p) (x : Interp.Field K) (lo hi : K)
    (hx : ∀ I J, lo ≤ x I J ∧ x I J ≤ hi) (i j : ℕ) :
    lo ≤ prolong p x i j ∧ prolong p x i j ≤ hi := by
  rw [prolong_eq_tensor]
  exact Pr_bounds p.hF _ lo hi i hP.hF (fun I => Pt_bounds p.ntF (ntC p) p.kF (x I) lo hi j hP.kF (hx I))

/-- positive spacings: `prolong` at a fine node is a convex combination (weights independent of the data,
    non-negative, summing to one) of the four surrounding coarse values -/
theorem convex (p : Pair K) (hP : PosSpacing p) (i j : ℕ) :
    ∃ w00 w10 w01 w11 : K, 0 ≤ w00 ∧ 0 ≤ w10 ∧ 0 ≤ w01 ∧ 0 ≤ w11 ∧ w00 + w10 + w01 + w11 = 1 ∧
      ∀ x : Interp.Field K, prolong p x i j = w00 * x (i / 2) (j / 2) + w10 * x (i / 2 + 1) (j / 2)
        + w01 * x (i / 2) (wC p (j / 2 + 1)) + w11 * x (i / 2 + 1) (wC p (j / 2 + 1)) :=
  prolong_convex_weights p hP i j

/-! ## 5. linear data -/

/-- radial linear data `a + b r`: the code's weights return `a + b (r_i + (h_i - h_{i-1}))` at odd `i` -/
theorem prolong_linear_r (p : Pair K) (hP : PosSpacing p) (a b : K) (r : ℕ → K) (x : Interp.Field K) (i j : ℕ)
    (hr : ∀ i, r (i + 1) = r i + p.hF i) (hx : ∀ I J, x I J = a + b * r (2 * I)) :
    prolong p x i j = a + b * (r i + (if i % 2 = 1 then p.hF i - p.hF (i - 1) else 0)) := by
  have hh : p.hF (i - 1) + p.hF i ≠ 0 := by have := hP.hF (i - 1); have := hP.hF i; positivity
  have hk : p.kF ((j + p.ntF - 1) % p.ntF) + p.kF j ≠ 0 := by
    have := hP.kF ((j + p.ntF - 1) % p.ntF); have := hP.kF j; positivity
  obtain rfl : x = fun I _ => a + b * r (2 * I) := by funext I J; exact hx I J
  rw [prolong_eq_tensor]
  simp only [Pt_const p.ntF (ntC p) p.kF _ j hk]
  exact Pr_linear p.hF r a b i hr hh

/-- midpoint nodes: radial linear data are reproduced -/
theorem linear_mid (p : Pair K) (hP : PosSpacing p) (a b : K) (r : ℕ → K) (x : Interp.Field K) (i j : ℕ)
    (hr : ∀ i, r (i + 1) = r i + p.hF i) (hx : ∀ I J, x I J = a + b * r (2 * I))
    (hmid : i % 2 = 1 → p.hF (i - 1) = p.hF i) :
    prolong p x i j = a + b * r i := by
  rw [prolong_linear_r p hP a b r x i j hr hx]
  split_ifs with h
  · rw [hmid h]; ring
  · ring

/-- angular linear data away from the periodic seam -/
theorem prolong_linear_theta (p : Pair K) (hA : Admissible p) (hP : PosSpacing p) (a b : K) (θ : ℕ → K)
    (x : Interp.Field K) (i j : ℕ) (hj : j + 1 < p.ntF)
    (hθ : ∀ j, θ (j + 1) = θ j + p.kF j) (hx : ∀ I J, x I J = a + b * θ (2 * J)) :
    prolong p x i j = a + b * (θ j + (if j % 2 = 1 then p.kF j - p.kF (j - 1) else 0)) := by
  obtain ⟨m, q, _, _, hnr, hnt, _, hq⟩ := hA.exists_mq
  have hh : p.hF (i - 1) + p.hF i ≠ 0 := by have := hP.hF (i - 1); have := hP.hF i; positivity
  have hk : p.kF (j - 1) + p.kF j ≠ 0 := by have := hP.kF (j - 1); have := hP.kF j; positivity
  obtain rfl : x = fun _ J => a + b * θ (2 * J) := by funext I J; exact hx I J
  rw [prolong_eq_tensor]
  simp only [hnt, hq]
  rw [Pt_linear q p.kF θ a b j (by omega) hθ hk]
  exact Pr_const p.hF _ i hh

theorem linear_mid_theta (p : Pair K) (hA : Admissible p) (hP : PosSpacing p) (a b : K) (θ : ℕ → K)
    (x : Interp.Field K) (i j : ℕ) (hj : j + 1 < p.ntF)
    (hθ : ∀ j, θ (j + 1) = θ j + p.kF j) (hx : ∀ I J, x I J = a + b * θ (2 * J))
    (hmid : j % 2 = 1 → p.kF (j - 1) = p.kF j) :
    prolong p x i j = a + b * θ j := by
  rw [prolong_linear_theta p hA hP a b θ x i j hj hθ hx]
  split_ifs with h
  · rw [hmid h]; ring
  · ring

end Ordered

/-! ## 6. without the midpoint hypothesis linear data are NOT reproduced -/

/-- fine radii `0, 1, 4`: the coarse values `0, 4` are combined with weights `1/4, 3/4` (the larger weight on the
    farther node), giving `3` at the fine node of radius `1` -/
theorem not_linear_general :
    ∃ (p : Pair ℚ) (x : Interp.Field ℚ) (r : ℕ → ℚ), Admissible p ∧ PosSpacing p
      ∧ (∀ i, r (i + 1) = r i + p.hF i) ∧ (∀ I, p.hC I = p.hF (2 * I) + p.hF (2 * I + 1))
      ∧ (∀ I J, x I J = r (2 * I)) ∧ r 1 = 1 ∧ prolong p x 1 0 = 3 ∧ prolong p x 1 0 ≠ r 1 := by
  refine ⟨exPairBad, fun I _ => exRBad (2 * I), exRBad, exPairBad_adm, exPairBad_pos, exRBad_step, exPairBad_hC,
    fun _ _ => rfl, ?_, ?_, ?_⟩
  · norm_num [exRBad]
  · norm_num [prolong, exPairBad, exRBad]
  · norm_num [prolong, exPairBad, exRBad]

/-! ## non-vacuity: the hypotheses are satisfiable (concrete data over ℚ) -/

example : Admissible exPair ∧ PosSpacing exPair := ⟨exPair_adm, exPair_pos⟩
example : Admissible exPairU ∧ PosSpacing exPairU := ⟨exPairU_adm, exPairU_pos⟩
/-- `adjoint`, `adjoint_ex` on the non-uniform `7 × 8` pair with concrete fields -/
example : ∑ i ∈ range exPair.nrF, ∑ j ∈ range exPair.ntF,
      prolong exPair (fun I J => (I : ℚ) + 2 * J) i j * (fun i j => (i : ℚ) * j + 1) i j
    = ∑ I ∈ range (nrC exPair), ∑ J ∈ range (ntC exPair),
      (fun I J => (I : ℚ) + 2 * J) I J * restrict exPair (fun i j => (i : ℚ) * j + 1) I J :=
  adjoint exPair exPair_adm _ _
example : ∑ i ∈ range exPair.nrF, ∑ j ∈ range exPair.ntF,
      exProlong exPair (fun I J => (I : ℚ) + 2 * J) i j * (fun i j => (i : ℚ) * j + 1) i j
    = ∑ I ∈ range (nrC exPair), ∑ J ∈ range (ntC exPair),
      (fun I J => (I : ℚ) + 2 * J) I J * exRestrict exPair (fun i j => (i : ℚ) * j + 1) I J :=
  adjoint_ex exPair exPair_adm _ _
/-- bounds hypothesis -/
example : ∀ I J : ℕ, (0 : ℚ) ≤ (fun (_ _ : ℕ) => (1 : ℚ)) I J ∧ (fun (_ _ : ℕ) => (1 : ℚ)) I J ≤ 2 := by
  intro I J; norm_num
/-- `linear_mid` on the uniform pair (radii `r i = i`, every odd node a midpoint), odd node `i = 1` -/
example : prolong exPairU (fun I _ => 2 + 5 * ((2 * I : ℕ) : ℚ)) 1 3 = 2 + 5 * ((1 : ℕ) : ℚ) :=
  linear_mid exPairU exPairU_pos 2 5 (fun i => (i : ℚ)) _ 1 3 (fun i => by simp [exPairU]) (fun _ _ => rfl)
    (fun _ => rfl)
/-- `linear_mid_theta` on the uniform pair, odd node `j = 3` (`j + 1 < ntF = 6`) -/
example : prolong exPairU (fun _ J => 2 + 5 * ((2 * J : ℕ) : ℚ)) 1 3 = 2 + 5 * ((3 : ℕ) : ℚ) :=
  linear_mid_theta exPairU exPairU_adm exPairU_pos 2 5 (fun j => (j : ℚ)) _ 1 3 (by decide)
    (fun j => by simp [exPairU]) (fun _ _ => rfl) (fun _ => rfl)
/-- `prolong_linear_r` on the non-uniform pair: radii `r i = i(i+1)/2` -/
example : ∀ i, exR (i + 1) = exR i + exPair.hF i := exR_step

end C08
