import GMGProofs.Lemmas.StencilLemmas6
import GMGProofs.Props.C03
import Mathlib.Algebra.Order.Field.Rat
import Mathlib.Tactic.NormNum
/-!
# C05 — symmetry and energy of the discrete operator

Property theorems only.  With `A o x := -(take o 0 x)` (so `take o f x = f - A x`), `V0 o` the fields
vanishing on the Dirichlet nodes, `inner o` the grid inner product, `Bn o x y i j` the pairing of the
updates of node `(i, j)` with `y` at their targets, `Bform` its closed form on `V0`, and `Elliptic o` the
positivity data (`h, k, arr, att > 0`, `art² ≤ 4·arr·att`, `beta, det ≥ 0` on the grid) — all defined in
`GMGProofs/Lemmas/StencilLemmas{4,5,6}.lean`.
-/
namespace C05
open Stencil Finset

section AnyField
variable {K : Type} [_root_.Field K]

/-- `A` is the operator of the gather form: `take o f x = f - A x` at every node -/
theorem take_eq_rhs_sub_A (o : Op K) (f x : Stencil.Field K) (i j : Nat) :
    take o f x i j = f i j - A o x i j := take_eq_sub_A o f x i j

/-- the scatter form is the energy decomposition: `⟨A x, y⟩ = Σ_s Bn_s(x, y)` for ALL fields `x, y` -/
theorem inner_eq_sum_nodal (o : Op K) (hnr : 4 ≤ o.nr) (hnt : 2 ≤ o.nt) (heven : o.nt % 2 = 0)
    (hk : o.bc = false → ∀ j, j < o.nt → o.k (ja o j) = o.k j) (x y : Stencil.Field K) :
    inner o (A o x) y = ∑ i ∈ range o.nr, ∑ j ∈ range o.nt, Bn o x y i j :=
  inner_A_eq_sum_Bn o hnr hnt heven hk x y

/-- on `V0` every nodal bilinear form has the closed form `Bform` … -/
theorem nodal_closed_form (o : Op K) (hnr : 4 ≤ o.nr) (x y : Stencil.Field K) (hx : V0 o x) (hy : V0 o y)
    (i j : Nat) (hi : i < o.nr) : Bn o x y i j = Bform o x y i j :=
  Bn_eq_Bform o x y hnr hx hy i j hi

/-- … which is symmetric (both boundary modes, no hypothesis at all) -/
theorem nodal_symm (o : Op K) (x y : Stencil.Field K) (i j : Nat) :
    Bform o x y i j = Bform o y x i j := Bform_symm o x y i j

/-- **symmetry** of the operator on `V0`, both inner-boundary modes -/
theorem symm (o : Op K) (hnr : 4 ≤ o.nr) (hnt : 2 ≤ o.nt) (heven : o.nt % 2 = 0)
    (hk : o.bc = false → ∀ j, j < o.nt → o.k (ja o j) = o.k j)
    (x y : Stencil.Field K) (hx : V0 o x) (hy : V0 o y) :
    inner o (A o x) y = inner o x (A o y) :=
  A_symm o hnr hnt heven hk x y hx hy

/-- **energy split**: `⟨A x, x⟩ = Σ_s q_s(x)` with the nodal energies `q_s(x) = Bform_s(x, x)` -/
theorem energy_split (o : Op K) (hnr : 4 ≤ o.nr) (hnt : 2 ≤ o.nt) (heven : o.nt % 2 = 0)
    (hk : o.bc = false → ∀ j, j < o.nt → o.k (ja o j) = o.k j)
    (x : Stencil.Field K) (hx : V0 o x) :
    inner o (A o x) x = ∑ i ∈ range o.nr, ∑ j ∈ range o.nt, Bform o x x i j :=
  inner_A_eq_sum_Bform o hnr hnt heven hk x x hx hx

end AnyField

section Ordered
variable {K : Type} [_root_.Field K] [LinearOrder K] [IsStrictOrderedRing K]

/-- probe E4 -/
theorem form_nonneg (a b c X Y : K) (ha : 0 < a) (hd : b^2 ≤ 4*a*c) :
    0 ≤ a*X^2 + b*X*Y + c*Y^2 := Stencil.form_nonneg a b c X Y ha hd

/-- probe E4: four-quadrant identity of the nodal energy on a non-uniform grid -/
theorem node_energy_split (arr att art h1 h2 k1 k2 dl dr db dt : K)
    (p1 : 0 < h1) (p2 : 0 < h2) (q1 : 0 < k1) (q2 : 0 < k2) :
    arr*(((k1+k2)/2)/h1*dl^2 + ((k1+k2)/2)/h2*dr^2) + att*(((h1+h2)/2)/k1*db^2 + ((h1+h2)/2)/k2*dt^2)
      + (1/2)*art*(dr - dl)*(dt - db)
    = (1/2) * ( (arr*(k2*dr)^2 + art*(k2*dr)*(h2*dt) + att*(h2*dt)^2)/(h2*k2)
              + (arr*(k1*dr)^2 + art*(k1*dr)*(-(h2*db)) + att*(h2*db)^2)/(h2*k1)
              + (arr*(k2*dl)^2 + art*(-(k2*dl))*(h1*dt) + att*(h1*dt)^2)/(h1*k2)
              + (arr*(k1*dl)^2 + art*(k1*dl)*(h1*db) + att*(h1*db)^2)/(h1*k1) ) :=
  Stencil.node_energy_split arr att art h1 h2 k1 k2 dl dr db dt p1 p2 q1 q2

/-- the nodal energy of a 9-point node IS the mass term plus the E4 energy in the four differences -/
theorem nodal_energy_eq (o : Op K) (x : Stencil.Field K) (i j : Nat) (h1 xL : K) (p1 : 0 < h1)
    (p2 : 0 < o.h i) (q1 : 0 < o.k (jm o j)) (q2 : 0 < o.k j) :
    Bfull o x x i j h1 xL xL =
      (1/4) * (h1 + o.h i) * (o.k (jm o j) + o.k j) * o.beta i * o.det i j * (x i j * x i j)
      + (o.arr i j * (((o.k (jm o j) + o.k j)/2)/h1*(xL - x i j)^2
            + ((o.k (jm o j) + o.k j)/2)/o.h i*(x (i+1) j - x i j)^2)
        + o.att i j * (((h1 + o.h i)/2)/o.k (jm o j)*(x i (jm o j) - x i j)^2
            + ((h1 + o.h i)/2)/o.k j*(x i (jp o j) - x i j)^2)
        + (1/2)*o.art i j*((x (i+1) j - x i j) - (xL - x i j))*((x i (jp o j) - x i j) - (x i (jm o j) - x i j))) :=
  Bfull_eq_energy o x i j h1 xL p1 p2 q1 q2

/-- every nodal energy is non-negative (Dirichlet inner boundary) -/
theorem nodal_energy_nonneg (o : Op K) (x : Stencil.Field K) (hnr : 4 ≤ o.nr) (hnt : 0 < o.nt)
    (hbc : o.bc = true) (he : Elliptic o) (i j : Nat) (hi : i < o.nr) (hj : j < o.nt) :
    0 ≤ Bform o x x i j := Bform_nonneg o x hnr hnt hbc he i j hi hj

/-- **positive semi-definiteness**, Dirichlet inner boundary -/
theorem psd_dirichlet (o : Op K) (hnr : 4 ≤ o.nr) (hnt : 2 ≤ o.nt) (heven : o.nt % 2 = 0)
    (hbc : o.bc = true) (he : Elliptic o) (x : Stencil.Field K) (hx : V0 o x) :
    0 ≤ inner o (A o x) x := A_psd_dirichlet o x hnr hnt heven hbc he hx

/-- **positive definiteness**, Dirichlet inner boundary (non-strict ellipticity `art² ≤ 4·arr·att`
    suffices: the energy vanishes row by row from the outer boundary inwards) -/
theorem pd_dirichlet (o : Op K) (hnr : 4 ≤ o.nr) (hnt : 2 ≤ o.nt) (heven : o.nt % 2 = 0)
    (hbc : o.bc = true) (he : Elliptic o) (x : Stencil.Field K) (hx : V0 o x)
    (hne : ∃ i j, i < o.nr ∧ j < o.nt ∧ x i j ≠ 0) :
    0 < inner o (A o x) x := A_pd_dirichlet o x hnr hnt heven hbc he hx hne

end Ordered

/-! ## non-vacuity -/

/-- a Dirichlet-mode operator with non-uniform spacings and a genuinely mixed coefficient -/
def exOpD : Op ℚ :=
  { nr := 4, nt := 4, bc := true, r0 := 1 / 10, h := fun i => 1 + i, k := fun j => 1 + j,
    arr := fun i j => 1 + i + j, att := fun i j => 2 + i * j, art := fun _ _ => 1,
    det := fun i _ => 1 + i, beta := fun i => i }

/-- a non-zero element of `V0` -/
def exX : Stencil.Field ℚ := fun i j => if i = 1 ∧ j = 2 then 1 else if i = 2 then 3 else 0

example : Elliptic exOpD where
  h_pos := fun i _ => by simp only [exOpD]; positivity
  k_pos := fun j _ => by simp only [exOpD]; positivity
  arr_pos := fun i j _ _ => by simp only [exOpD]; positivity
  att_pos := fun i j _ _ => by simp only [exOpD]; positivity
  art_le := fun i j _ _ => by
    simp only [exOpD]
    have hi : (0 : ℚ) ≤ i := Nat.cast_nonneg i
    have hj : (0 : ℚ) ≤ j := Nat.cast_nonneg j
    nlinarith [mul_nonneg hi hj, mul_nonneg (mul_nonneg hi hj) hi, mul_nonneg (mul_nonneg hi hj) hj]
  beta_nonneg := fun i _ => by simp only [exOpD]; positivity
  det_nonneg := fun i j _ _ => by simp only [exOpD]; positivity

example : 4 ≤ exOpD.nr ∧ 2 ≤ exOpD.nt ∧ exOpD.nt % 2 = 0 ∧ exOpD.bc = true ∧ V0 exOpD exX ∧
    (∃ i j, i < exOpD.nr ∧ j < exOpD.nt ∧ exX i j ≠ 0) := by
  refine ⟨by decide, by decide, by decide, rfl, ⟨fun j => ?_, fun _ j => ?_⟩, 1, 2, by decide, by decide, ?_⟩
  · simp [exX, exOpD]
  · simp [exX]
  · simp [exX]

/-- the energy of `exX` evaluated exactly: strictly positive, as `pd_dirichlet` predicts -/
example : 0 < inner exOpD (A exOpD exX) exX := by decide +kernel

/-- `symm` is not vacuous across the origin either: `C03.exOp` (`bc = false`, antipodally symmetric `k`)
    and two fields of `V0` that do not vanish at the origin row -/
example : V0 C03.exOp (fun i j => if i = 3 then 0 else 1 + (i : ℚ) + j) ∧
    inner C03.exOp (A C03.exOp (fun i j => if i = 3 then 0 else 1 + (i : ℚ) + j))
        (fun i j => if i = 3 then 0 else (j : ℚ) * j)
      = inner C03.exOp (fun i j => if i = 3 then 0 else 1 + (i : ℚ) + j)
        (A C03.exOp (fun i j => if i = 3 then 0 else (j : ℚ) * j)) := by
  refine ⟨⟨fun j => by simp [C03.exOp], fun h => by simp [C03.exOp] at h⟩, ?_⟩
  decide +kernel

/-! ## a limit of the result: across the origin the operator is symmetric but NOT positive semi-definite
under the pointwise hypotheses `Elliptic` alone (the mixed terms towards the antipode are dropped in
`takeOrigin` / `fillLAcross`, so the origin nodes' energies are not sums of quadrant forms) -/

/-- `bc = false`, uniform `k` (hence antipodally symmetric), `arr = att = 1`, strictly elliptic
    `art² ≤ 1 < 4`, but `art` varies along the innermost circle; one long radial step before the outer
    boundary makes the decay to the Dirichlet value cheap -/
def exOpA : Op ℚ :=
  { nr := 4, nt := 4, bc := false, r0 := 1 / 2, h := fun i => if i = 2 then 1000 else 1, k := fun _ => 1,
    arr := fun _ _ => 1, att := fun _ _ => 1, art := fun i j => if i = 0 ∧ j = 0 then 1 else 0,
    det := fun _ _ => 1, beta := fun _ => 0 }

def exXA : Stencil.Field ℚ := fun i j =>
  if i ≤ 1 then (if j = 1 then 49 / 50 else if j = 3 then 51 / 50 else 1) else if i = 2 then 1 else 0

theorem exOpA_elliptic : Elliptic exOpA where
  h_pos := fun i _ => by simp only [exOpA]; split <;> norm_num
  k_pos := fun j _ => by simp only [exOpA]; norm_num
  arr_pos := fun i j _ _ => by simp only [exOpA]; norm_num
  att_pos := fun i j _ _ => by simp only [exOpA]; norm_num
  art_le := fun i j _ _ => by simp only [exOpA]; split <;> norm_num
  beta_nonneg := fun i _ => by simp only [exOpA]; norm_num
  det_nonneg := fun i j _ _ => by simp only [exOpA]; norm_num

/-- every hypothesis of `symm` and of `psd_dirichlet` except `bc = true` holds, and the energy is `-1/1250` -/
theorem psd_across_fails :
    4 ≤ exOpA.nr ∧ 2 ≤ exOpA.nt ∧ exOpA.nt % 2 = 0 ∧ exOpA.bc = false ∧
    (∀ j, j < exOpA.nt → exOpA.k (ja exOpA j) = exOpA.k j) ∧ Elliptic exOpA ∧ V0 exOpA exXA ∧
    inner exOpA (A exOpA exXA) exXA = -1 / 1250 := by
  refine ⟨by decide, by decide, by decide, rfl, fun _ _ => rfl, exOpA_elliptic,
    ⟨fun j => by simp [exOpA, exXA], fun h => by simp [exOpA] at h⟩, by decide +kernel⟩

end C05
