import GMGProofs.Lemmas.CycleLoop
import GMGProofs.Lemmas.CycleToy
/-!
# C01 — the stop test of `solve()`

Property theorems only.  Model: `MGCycle.loop`, `MGCycle.solve`, `MGCycle.converged` (`GMGModel/Solve.lean`).
Definitions used in the statements (`relOf`, `tested`, `exposed`, `written`, `WritesIn`) are in
`GMGProofs/Lemmas/Cycle{Exec,Loop}.lean`.  Every vector type `V`, scalar type `R`, operators `Ops V`,
norm arithmetic `NormOps V R` (nothing is assumed about `gt`, `div`, `norm`), every object state.
-/
namespace C01
open MGCycle

variable {V R : Type}

/-! ## the relative residual -/

theorem rel_first (n : NormOps V R) (cur : R) : relOf n [] cur = n.one := rfl

theorem rel_later (n : NormOps V R) (initial : R) (t : List R) (cur : R) :
    relOf n (initial :: t) cur = n.div cur initial := rfl

/-! ## C1 — iteration budget -/

theorem budget (o : Ops V) (n : NormOps V R) (c : SolveCfg R) (s : Obj V R) :
    (solve o n c s).iters ≤ c.maxit := by
  rw [solve_eq]
  have := loop_iters_le o n c c.maxit (startState o c s)
  simpa [startState] using this

/-! ## C2 — a reported convergence is true of the returned state -/

/-- the residual program reads `(0,rhs)`, `(0,sol)`, `(1,rhs)` (before writing them: nothing else) … -/
theorem stop_reads (ex : Bool) : ∀ r ∈ exposed (stopResidual ex), r ∈ [((0, .rhs) : Ref), (0, .sol), (1, .rhs)] :=
  stopResidual_exposed ex

/-- … and writes `(0,res)`, `(1,sol)`, `(1,res)` -/
theorem stop_writes (ex : Bool) :
    ∀ i ∈ stopResidual ex, ∀ w ∈ writes i, w ∈ [((0, .res) : Ref), (1, .sol), (1, .res)] :=
  stopResidual_writes ex

/-- so its result is a function of those three vectors … -/
theorem stop_residual_congr (o : Ops V) (ex : Bool) (m m' : Mem V) (h0 : m (0, .rhs) = m' (0, .rhs))
    (h1 : m (0, .sol) = m' (0, .sol)) (h2 : m (1, .rhs) = m' (1, .rhs)) :
    exec o (stopResidual ex) m (0, .res) = exec o (stopResidual ex) m' (0, .res) :=
  stopResidual_congr o ex m m' h0 h1 h2

/-- … and re-evaluating it on its own output reproduces the residual -/
theorem stop_residual_idem (o : Ops V) (ex : Bool) (m : Mem V) :
    exec o (stopResidual ex) (exec o (stopResidual ex) m) (0, .res) = exec o (stopResidual ex) m (0, .res) :=
  stopResidual_idem o ex m

/-- if `solve` reports convergence then the last recorded norm `cur` is the norm of the returned `(0,res)`,
    that vector is the stop residual of the *returned* memory (no instruction ran after the test), and the
    test holds for `cur` with the relative residual `1` (first test) resp. `cur / norms.head` -/
theorem reported_true (o : Ops V) (n : NormOps V R) (c : SolveCfg R) (s : Obj V R)
    (h : (solve o n c s).stoppedEarly = true) :
    ∃ pre cur, (solve o n c s).norms = pre ++ [cur] ∧
      cur = n.norm ((solve o n c s).mem (0, .res)) ∧
      (solve o n c s).mem (0, .res) =
        exec o (stopResidual (c.extrapMode != 0)) (solve o n c s).mem (0, .res) ∧
      converged n c cur (relOf n pre cur) = true := by
  cases ht : tested c
  · rw [(solve_blind o n c s ht).1] at h; cases h
  · rcases solve_tested o n c s ht with ⟨h1, _⟩ | ⟨_, pre, cur, h2, _, h4, h5, ⟨m0, h6⟩, _, _⟩
    · rw [h1] at h; cases h
    · exact ⟨pre, cur, h2, h5, by rw [h6, stopResidual_idem], h4⟩

/-! ## C3 — when the loop leaves early -/

/-- early exit ⇔ some recorded test met a tolerance -/
theorem stop_iff (o : Ops V) (n : NormOps V R) (c : SolveCfg R) (s : Obj V R) :
    (solve o n c s).stoppedEarly = true ↔
      ∃ pre cur suf, (solve o n c s).norms = pre ++ cur :: suf ∧ converged n c cur (relOf n pre cur) = true := by
  constructor
  · intro h
    obtain ⟨pre, cur, h1, _, _, h4⟩ := reported_true o n c s h
    exact ⟨pre, cur, [], h1, h4⟩
  · rintro ⟨pre, cur, suf, h1, h2⟩
    cases ht : tested c
    · rw [(solve_blind o n c s ht).2.2] at h1; simp at h1
    · rcases solve_tested o n c s ht with ⟨_, hf, _⟩ | ⟨h, _⟩
      · rw [hf pre cur suf h1] at h2; cases h2
      · exact h

/-- it leaves at the first such test: every test before the last recorded one failed -/
theorem first_hit (o : Ops V) (n : NormOps V R) (c : SolveCfg R) (s : Obj V R) (pre : List R) (cur : R)
    (suf : List R) (h : (solve o n c s).norms = pre ++ cur :: suf) (hs : suf ≠ []) :
    converged n c cur (relOf n pre cur) = false := by
  cases ht : tested c
  · rw [(solve_blind o n c s ht).2.2] at h; simp at h
  · rcases solve_tested o n c s ht with ⟨_, hf, _⟩ | ⟨_, pre0, cur0, h2, h3, _⟩
    · exact hf pre cur suf h
    · rw [h2] at h
      rcases append_singleton_split h with ⟨e, _, _⟩ | ⟨suf', _, e⟩
      · exact absurd e hs
      · exact h3 pre cur suf' e

/-- without tolerances: never early, exactly `maxit` cycles, no norm recorded -/
theorem no_tolerance (o : Ops V) (n : NormOps V R) (c : SolveCfg R) (s : Obj V R)
    (ha : c.absTol = none) (hr : c.relTol = none) :
    (solve o n c s).stoppedEarly = false ∧ (solve o n c s).iters = c.maxit ∧ (solve o n c s).norms = [] :=
  solve_blind o n c s (by simp [tested, ha, hr])

/-- not early ⇒ the whole budget was used; early ⇒ one norm per cycle plus the final one, budget not exhausted -/
theorem iters_of_stop (o : Ops V) (n : NormOps V R) (c : SolveCfg R) (s : Obj V R) :
    ((solve o n c s).stoppedEarly = false → (solve o n c s).iters = c.maxit) ∧
    ((solve o n c s).stoppedEarly = true →
      (solve o n c s).norms.length = (solve o n c s).iters + 1 ∧ (solve o n c s).iters < c.maxit) := by
  cases ht : tested c
  · obtain ⟨h1, h2, _⟩ := solve_blind o n c s ht
    exact ⟨fun _ => h2, fun h => (by rw [h1] at h; cases h)⟩
  · rcases solve_tested o n c s ht with ⟨h1, _, h3, _⟩ | ⟨h1, pre, cur, h2, _, _, _, _, h7, h8⟩
    · exact ⟨fun _ => h3, fun h => (by rw [h1] at h; cases h)⟩
    · exact ⟨fun h => (by rw [h1] at h; cases h), fun _ => ⟨(by rw [h2, h7]; simp), h8⟩⟩

/-! ## C4 — the statistics are local to one solve -/

theorem norms_local (o : Ops V) (n : NormOps V R) (c : SolveCfg R) (s : Obj V R) :
    (solve o n c s).norms.length ≤ c.maxit ∧ (solve o n c s).norms.length ≤ c.maxit + 1 ∧
    ∀ (l : List R) (i : Nat) (b : Bool),
      solve o n c { s with norms := l, iters := i, stoppedEarly := b } = solve o n c s := by
  have := loop_norms_length o n c c.maxit (startState o c s)
  rw [← solve_eq] at this
  simp only [startState, List.length_nil, Nat.zero_add] at this
  exact ⟨this, Nat.le_succ_of_le this, fun _ _ _ => rfl⟩

/-! ## non-vacuity -/

/-- a solve that stops early … -/
example : (solve idOps toyNorm ⟨⟨2, 1, 1⟩, .V, 0, true, .V, 0, 5, some 0, none⟩
    ⟨toyMem (fun _ => 3) 7, true, [99], 4, false⟩).stoppedEarly = true := by decide

/-- … and one that uses its budget -/
example : (solve toyOps toyNorm ⟨⟨2, 1, 1⟩, .V, 0, false, .V, 0, 3, some 0, some 0⟩
    ⟨toyMem (fun _ => 3) 7, true, [], 0, false⟩).iters = 3 := by decide

end C01
