import GMGModel.Cache
import GMGProofs.Props.C17
import GMGProofs.Lemmas.FieldScalar
import GMGProofs.Lemmas.Cache1
import GMGProofs.Lemmas.Cache2
/-!
# C03 (code level) — coefficient caches on coarse levels equal a fresh evaluation at the coarse nodes

Model: `GMGModel/Cache.lean` (both `LevelCache` constructors with the library's node numbering and the different
circle/radial splits of the two levels, `obtainValues`).  The input functions are arbitrary (`Env`), the scalar type is
arbitrary (`[Scalar α]`: the statements are equalities of stored values, so they hold for IEEE doubles as well).
Property theorems only; helper lemmas in `GMGProofs/Lemmas/Cache*.lean`.
-/
namespace C03c
open Cache

variable {α : Type} [Scalar α]

/-- the coarse grid is the every-second-node subgrid of the fine grid (what `coarseningGrid` builds, C17/C18) -/
structure Nested (GF GC : GridData α) : Prop where
  validF : GF.g.Valid
  validC : GC.g.Valid
  nr : GF.g.nr = 2 * GC.g.nr - 1
  nt : GF.g.nt = 2 * GC.g.nt
  radius : ∀ i, i < GC.g.nr → GC.radius i = GF.radius (2 * i)
  theta : ∀ j, j < GC.g.nt → GC.theta j = GF.theta (2 * j)

/-- **1** whatever the cache flags, an operator obtains from a freshly built cache exactly the direct evaluation -/
theorem fresh_obtain (E : Env α) (G : GridData α) (hv : G.g.Valid) (cc cg : Bool) (i j : Nat)
    (hi : i < G.g.nr) (hj : j < G.g.nt) :
    obtain E G (fresh E G cc cg) i j = direct E G i j := by
  have hs : ∀ f : Nat → α, (Array.ofFn (n := G.g.nt) fun j => f j.val).getD j (Scalar.n 0) = f j :=
    fun f => ofFn_getD _ f j _ hj
  have hr : ∀ f : Nat → α, (Array.ofFn (n := G.g.nr) fun i => f i.val).getD i (Scalar.n 0) = f i :=
    fun f => ofFn_getD _ f i _ hi
  unfold obtain direct fresh
  cases cc <;> cases cg <;>
    simp only [hs (fun j => E.sinF (G.theta j)), hs (fun j => E.cosF (G.theta j)), hr (fun i => E.beta (G.radius i)),
      hr (fun i => E.alpha (G.radius i)), fillNodes_getD G.g hv _ _ i j hi hj,
      Bool.false_eq_true, if_false, if_true, false_and, not_true_eq_false, not_false_eq_true, and_self,
      and_false]

/-- **2** the sampling constructor reproduces the fresh constructor on the coarse grid, array by array — although the two
    levels number their nodes with different circle/radial splits -/
theorem coarsen_fresh (E : Env α) (GF GC : GridData α) (h : Nested GF GC) (cc cg : Bool) :
    coarsen (fresh E GF cc cg) GF.g GC.g = fresh E GC cc cg := by
  obtain ⟨hF, hC, hnr, hnt, hrad, hth⟩ := h
  have hsin := sample_ofFn GF.g.nt GC.g.nt (fun j => E.sinF (GF.theta j)) (fun j => E.sinF (GC.theta j)) (Scalar.n 0)
    (fun j hj => by omega) (fun j hj => by rw [hth j hj])
  have hcos := sample_ofFn GF.g.nt GC.g.nt (fun j => E.cosF (GF.theta j)) (fun j => E.cosF (GC.theta j)) (Scalar.n 0)
    (fun j hj => by omega) (fun j hj => by rw [hth j hj])
  have halpha := sample_ofFn GF.g.nr GC.g.nr (fun i => E.alpha (GF.radius i)) (fun i => E.alpha (GC.radius i))
    (Scalar.n 0) (fun i hi => by omega) (fun i hi => by rw [hrad i hi])
  have hbeta := sample_ofFn GF.g.nr GC.g.nr (fun i => E.beta (GF.radius i)) (fun i => E.beta (GC.radius i))
    (Scalar.n 0) (fun i hi => by omega) (fun i hi => by rw [hrad i hi])
  have hca := cond_ofFn GF.g.nr GC.g.nr (fun i => E.alpha (GF.radius i.val))
    (fun i => E.alpha (GC.radius i.val)) (by omega)
  have hcb := cond_ofFn GF.g.nr GC.g.nr (fun i => E.beta (GF.radius i.val))
    (fun i => E.beta (GC.radius i.val)) (by omega)
  have hfill : ∀ π : α × α × α × α → α,
      fillNodes GC.g
        (if 0 < (fillNodes GF.g GF.g.numNodes fun i j => π (elements E (GF.radius i) (GF.theta j)
              ((Array.ofFn (n := GF.g.nt) fun j => E.sinF (GF.theta j.val)).getD j (Scalar.n 0))
              ((Array.ofFn (n := GF.g.nt) fun j => E.cosF (GF.theta j.val)).getD j (Scalar.n 0))
              (E.alpha (GF.radius i)))).size then GC.g.numNodes else 0)
        (fun i j => (fillNodes GF.g GF.g.numNodes fun i j => π (elements E (GF.radius i) (GF.theta j)
              ((Array.ofFn (n := GF.g.nt) fun j => E.sinF (GF.theta j.val)).getD j (Scalar.n 0))
              ((Array.ofFn (n := GF.g.nt) fun j => E.cosF (GF.theta j.val)).getD j (Scalar.n 0))
              (E.alpha (GF.radius i)))).getD (GF.g.fastIndex (2 * i) (2 * j)) (Scalar.n 0))
      = fillNodes GC.g GC.g.numNodes fun i j => π (elements E (GC.radius i) (GC.theta j)
              ((Array.ofFn (n := GC.g.nt) fun j => E.sinF (GC.theta j.val)).getD j (Scalar.n 0))
              ((Array.ofFn (n := GC.g.nt) fun j => E.cosF (GC.theta j.val)).getD j (Scalar.n 0))
              (E.alpha (GC.radius i))) := by
    intro π
    apply sample_fill GF.g GC.g hF hC hnr hnt
    intro i j hi hj
    rw [ofFn_getD GF.g.nt (fun j => E.sinF (GF.theta j)) (2 * j) _ (by omega),
      ofFn_getD GF.g.nt (fun j => E.cosF (GF.theta j)) (2 * j) _ (by omega),
      ofFn_getD GC.g.nt (fun j => E.sinF (GC.theta j)) j _ hj,
      ofFn_getD GC.g.nt (fun j => E.cosF (GC.theta j)) j _ hj, hth j hj, hrad i hi]
  have h1 := hfill fun x => x.1
  have h2 := hfill fun x => x.2.1
  have h3 := hfill fun x => x.2.2.1
  have h4 := hfill fun x => x.2.2.2
  unfold coarsen fresh
  cases cc <;> cases cg <;>
    simp only [Bool.false_eq_true, if_false, if_true, false_and, not_true_eq_false,
      not_false_eq_true, and_self, and_false, fillNodes_zero, Array.size_empty, Nat.lt_irrefl, gt_iff_lt,
      Array.replicate_zero, hsin, hcos, hca, hcb, halpha, hbeta, h1, h2, h3, h4]

/-- **3** hence on every level of a coarsening chain the cache is the fresh one … -/
theorem chain_fresh (E : Env α) (cc cg : Bool) (Gs : List (GridData α)) (G0 : GridData α)
    (hchain : List.IsChain Nested (G0 :: Gs)) :
    (Gs.foldl (fun (acc : LevelCache α × GridData α) G => (coarsen acc.1 acc.2.g G.g, G)) (fresh E G0 cc cg, G0)).1
      = fresh E ((G0 :: Gs).getLast (by simp)) cc cg := by
  induction Gs generalizing G0 with
  | nil => rfl
  | cons G Gs ih =>
      rw [List.isChain_cons_cons] at hchain
      rw [List.foldl_cons]
      simp only [coarsen_fresh E G0 G hchain.1 cc cg]
      rw [ih G hchain.2]
      simp [List.getLast_cons]

/-- **3** … and what the operators obtain on a coarse level is the direct evaluation at the coarse nodes -/
theorem coarsen_obtain (E : Env α) (GF GC : GridData α) (h : Nested GF GC) (cc cg : Bool) (i j : Nat)
    (hi : i < GC.g.nr) (hj : j < GC.g.nt) :
    obtain E GC (coarsen (fresh E GF cc cg) GF.g GC.g) i j = direct E GC i j := by
  rw [coarsen_fresh E GF GC h cc cg]
  exact fresh_obtain E GC h.validC cc cg i j hi hj

/-- **4** the realistic defect class is visible to the model: sampling `coeff_alpha` at `i` instead of `2 i` gives a cache
    that differs from the fresh one (concrete instance over ℚ) -/
theorem wrong_sampling_detected : ∃ (E : Env ℚ) (GF GC : GridData ℚ), Nested GF GC ∧
    (let c := fresh E GF true false
     { coarsen c GF.g GC.g with alpha := Array.ofFn (n := GC.g.nr) fun i => c.alpha.getD i.val 0 }) ≠ fresh E GC true false := by
  refine ⟨{ sinF := fun _ => 0, cosF := fun _ => 1, alpha := fun r => r, beta := fun _ => 1,
            jac := fun _ _ _ _ => (1, 0, 0, 1), absF := fun x => x },
    { g := ⟨3, 2, 0, true⟩, radius := fun i => (i : ℚ), theta := fun _ => 0 },
    { g := ⟨2, 1, 0, true⟩, radius := fun i => 2 * (i : ℚ), theta := fun _ => 0 },
    ⟨⟨by decide, by decide, by decide, by decide⟩, ⟨by decide, by decide, by decide, by decide⟩, rfl, rfl,
      fun i _ => by simp, fun _ _ => rfl⟩, ?_⟩
  intro h
  have h1 := congrArg (fun c => c.alpha.getD 1 0) h
  simp [fresh] at h1

end C03c
