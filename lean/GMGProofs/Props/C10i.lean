import GMGModel.Build
import GMGProofs.Lemmas.InputsOK
import GMGProofs.Props.C10h
import GMGProofs.Props.C03c
import GMGProofs.Lemmas.Concrete15
/-!
# From the inputs to the fixed point: the hierarchy `setup()` builds, and the whole-cycle theorems on it

`GMGModel/Build.lean` builds the hierarchy from the level grids and the input functions through the cache constructors.  Theorems:
* the caches of the chain are the fresh caches of each level (C03c `chain_fresh`), hence the hierarchy built through SAMPLED caches is
  the hierarchy of per-level fresh caches — for all four cache-flag pairs;
* the operator data obtained through a fresh cache equal the direct evaluation of the input functions at every node (`fresh_obtain`);
* they are elliptic in the sense the operator theorems need (`Stencil.Elliptic`) as soon as the coordinates increase, `α > 0`, `β ≥ 0`
  and `det DF ≠ 0` at the nodes;
* end to end: for grids produced by the level selection with automatic splits, a Dirichlet inner boundary and such input functions,
  the concrete V-, W-, F-cycle on the BUILT hierarchy leaves the exact discrete solution unchanged (C10h instantiated) — the
  hypotheses speak about the inputs only (and the coarse `tiny` test).
-/
namespace C10i
open MGCycle Concrete Stencil Cache Build GridGen GridGenL Grid

section AnyScalar
variable {α : Type} [Scalar α]

/-- the caches of a nested chain are the fresh caches of the levels -/
theorem caches_eq_fresh (E : Env α) (cc cg : Bool) (G0 : GridData α) (Gs : List (GridData α))
    (hchain : List.IsChain C03c.Nested (G0 :: Gs)) :
    caches E cc cg (G0 :: Gs) = (G0 :: Gs).map fun G => fresh E G cc cg := by
  exact Concrete15.cachesFrom_fresh E cc cg Gs G0 hchain

/-- hence the built hierarchy is the hierarchy of per-level fresh caches -/
theorem hier_eq_fresh_levels (E : Env α) (cc cg bc : Bool) (G0 : GridData α) (Gs : List (GridData α))
    (hchain : List.IsChain C03c.Nested (G0 :: Gs)) (tiny : α → Bool) (T : DirectCode.Tables) :
    (hier E (G0 :: Gs) bc cc cg tiny T).levels = (G0 :: Gs).map fun G => ⟨opOf E G bc (fresh E G cc cg), G.g.nc⟩ := by
  show ((G0 :: Gs).zip (caches E cc cg (G0 :: Gs))).map _ = _
  rw [caches_eq_fresh E cc cg G0 Gs hchain, Concrete15.zip_map_self, List.map_map]
  rfl

/-- through a fresh cache (any flags) the operators obtain the direct evaluation, at every node -/
theorem opOf_fresh_eq_direct (E : Env α) (G : GridData α) (hv : G.g.Valid) (bc cc cg : Bool) (i j : Nat)
    (hi : i < G.g.nr) (hj : j < G.g.nt) :
    (opOf E G bc (fresh E G cc cg)).arr i j = (opDirect E G bc).arr i j ∧
    (opOf E G bc (fresh E G cc cg)).att i j = (opDirect E G bc).att i j ∧
    (opOf E G bc (fresh E G cc cg)).art i j = (opDirect E G bc).art i j ∧
    (opOf E G bc (fresh E G cc cg)).det i j = (opDirect E G bc).det i j ∧
    (opOf E G bc (fresh E G cc cg)).beta i = (opDirect E G bc).beta i := by
  have h := C03c.fresh_obtain E G hv cc cg i j hi hj
  have h0 := C03c.fresh_obtain E G hv cc cg i 0 hi hv.nt_pos
  simp only [opOf, opDirect, h, h0, and_self]

end AnyScalar

section Ordered
variable {K : Type} [_root_.Field K] [LinearOrder K] [IsStrictOrderedRing K]

/-- **the operator data `setup()` hands out are elliptic** -/
theorem opOf_elliptic (E : Env K) (G : GridData K) (h : InputsOK E G) (bc cc cg : Bool) :
    Elliptic (opOf E G bc (fresh E G cc cg)) := by
  obtain ⟨hv, hr, hth, ha, hb, hd, habs⟩ := h
  have hob : ∀ i j, i < G.g.nr → j < G.g.nt → obtain E G (fresh E G cc cg) i j = direct E G i j :=
    fun i j hi hj => C03c.fresh_obtain E G hv cc cg i j hi hj
  have hdpos : ∀ i j (hi : i < G.g.nr) (hj : j < G.g.nt),
      0 < E.absF ((E.jac (G.radius i) (G.theta j) (E.sinF (G.theta j)) (E.cosF (G.theta j))).1 *
          (E.jac (G.radius i) (G.theta j) (E.sinF (G.theta j)) (E.cosF (G.theta j))).2.2.2 -
        (E.jac (G.radius i) (G.theta j) (E.sinF (G.theta j)) (E.cosF (G.theta j))).2.2.1 *
          (E.jac (G.radius i) (G.theta j) (E.sinF (G.theta j)) (E.cosF (G.theta j))).2.1) := by
    intro i j hi hj
    rw [habs]
    exact abs_pos.mpr (hd i j hi hj)
  refine ⟨fun i hi => ?_, fun j hj => ?_, fun i j hi hj => ?_, fun i j hi hj => ?_, fun i j hi hj => ?_, fun i hi => ?_,
    fun i j hi hj => ?_⟩
  · exact sub_pos.mpr (hr i hi)
  · exact sub_pos.mpr (hth j hj)
  · show 0 < (obtain E G (fresh E G cc cg) i j).2.2.2.1
    rw [hob i j hi hj, Concrete15.direct_eq]
    exact (C03.arr_att_pos E.absF _ _ _ _ _ (hd i j hi hj) (hdpos i j hi hj) (ha i hi)).1
  · show 0 < (obtain E G (fresh E G cc cg) i j).2.2.2.2.1
    rw [hob i j hi hj, Concrete15.direct_eq]
    exact (C03.arr_att_pos E.absF _ _ _ _ _ (hd i j hi hj) (hdpos i j hi hj) (ha i hi)).2
  · show (obtain E G (fresh E G cc cg) i j).2.2.2.2.2.1 ^ 2
      ≤ 4 * (obtain E G (fresh E G cc cg) i j).2.2.2.1 * (obtain E G (fresh E G cc cg) i j).2.2.2.2.1
    rw [hob i j hi hj, Concrete15.direct_eq, pow_two]
    refine le_of_lt (C03.ellipticity_strict E.absF _ _ _ _ _ (hd i j hi hj) ?_ (ne_of_gt (ha i hi)))
    rw [habs]
    exact abs_mul_abs_self _
  · show 0 ≤ (obtain E G (fresh E G cc cg) i 0).2.2.1
    rw [hob i 0 hi hv.nt_pos]
    exact hb i hi
  · show 0 ≤ E.absF _
    rw [habs]
    exact abs_nonneg _

/-- **end to end**: inputs → hierarchy → fixed point.  `grids` are the level grids (finest first) of a finest `nr × nt` grid for which
    the level selection accepted `L` levels, nested (`C03c.Nested`: coarse nodes are the even fine nodes), with the automatic split on
    every level; Dirichlet inner boundary; admissible input functions on every level's nodes -/
theorem concrete_exact_fixed_setup (E : Env K) (grids : List (GridData K)) (cc cg : Bool) (tiny : K → Bool)
    (nr nt : Nat) (maxLevels : Int) (L : Nat) (crit : Nat → Nat → Bool)
    (hsel : chooseLevels nr nt maxLevels = .ok L) (hlen : grids.length = L)
    (hchain : List.IsChain C03c.Nested grids)
    (hshape : ∀ l (hl : l < grids.length), (grids[l]).g.nr = coarsenR l nr ∧ (grids[l]).g.nt = coarsenT l nt ∧
      (grids[l]).g.nc = Split.autoNc (crit l) (coarsenR l nr))
    (hin : ∀ G ∈ grids, InputsOK E G)
    (k : Kind) (nu1 nu2 : Nat) (fgs : Bool) (u f : Array K) (ht1 : tiny 1 = false)
    (M : SparseLU.CSR K)
    (hM : DirectCode.assemble C04c.genTables (lvl (hier E grids true cc cg tiny C04c.genTables) (L - 1)).op = some M)
    (ht : ∀ r, r < M.rows → tiny (SparseLU.den ((SparseLU.factorRows M).2.getD r []) r) = false)
    (hu : u.size = nr * nt)
    (hsol : ∀ i j, i < nr → j < nt →
      take (lvl (hier E grids true cc cg tiny C04c.genTables) 0).op (SmootherCode.fld nt f) (SmootherCode.fld nt u) i j = 0)
    (m : Mem (Option (Array K))) (hm : m (0, Buf.sol) = some u) (hr : m (0, Buf.rhs) = some f) :
    cycle (hier E grids true cc cg tiny C04c.genTables) ⟨L, nu1, nu2⟩ k false fgs m (0, Buf.sol) = some u := by
  have hL2 : 2 ≤ L := (chain_sizes hsel).1
  obtain ⟨G0, Gs, rfl⟩ : ∃ G0 Gs, grids = G0 :: Gs := by
    cases grids with
    | nil => simp only [List.length_nil] at hlen; omega
    | cons a b => exact ⟨a, b, rfl⟩
  have hlev := hier_eq_fresh_levels E cc cg true G0 Gs hchain tiny C04c.genTables
  have hl : ∀ l (hl : l < (G0 :: Gs).length), lvl (hier E (G0 :: Gs) true cc cg tiny C04c.genTables) l
      = ⟨opOf E (G0 :: Gs)[l] true (fresh E (G0 :: Gs)[l] cc cg), (G0 :: Gs)[l].g.nc⟩ :=
    fun l hl => Concrete15.lvl_map _ (G0 :: Gs) _ hlev l hl
  have hb : C10h.BuiltBy (hier E (G0 :: Gs) true cc cg tiny C04c.genTables) nr nt crit L := by
    refine ⟨fun l h => ?_, fun l h => ?_, fun l h => ?_⟩
    · rw [hl l (by omega)]; exact (hshape l (by omega)).1
    · rw [hl l (by omega)]; exact (hshape l (by omega)).2.1
    · rw [hl l (by omega)]; exact (hshape l (by omega)).2.2
  have hdata : ∀ l, l + 1 < L → (lvl (hier E (G0 :: Gs) true cc cg tiny C04c.genTables) l).op.bc = true ∧
      Elliptic (lvl (hier E (G0 :: Gs) true cc cg tiny C04c.genTables) l).op := by
    intro l h
    rw [hl l (by omega)]
    exact ⟨rfl, opOf_elliptic E _ (hin _ (List.getElem_mem _)) true cc cg⟩
  have hnr0 : (lvl (hier E (G0 :: Gs) true cc cg tiny C04c.genTables) 0).op.nr = nr := hb.shapeR 0 (by omega)
  have hnt0 : (lvl (hier E (G0 :: Gs) true cc cg tiny C04c.genTables) 0).op.nt = nt := hb.shapeT 0 (by omega)
  refine C10h.concrete_exact_fixed_built _ nr nt maxLevels L crit hsel hb hdata k nu1 nu2 fgs u f ht1 M hM ht ?_ ?_ m hm hr
  · rw [hnr0, hnt0]; exact hu
  · rw [hnr0, hnt0]; exact hsol

end Ordered

/-! ## non-vacuity: input functions over ℚ and a two-level nested chain 9 × 16 → 5 × 8 with non-uniform coordinates -/

/-- `sin`, `cos` are parameters: the constants `3/5`, `4/5`; the mapping is the polar one, `DF = [[c, −r s], [s, r c]]`,
    `det DF = r (c² + s²) = r`; `α(r) = 1 + r`, `β = 1` -/
def exEnv : Env ℚ :=
  { sinF := fun _ => 3 / 5, cosF := fun _ => 4 / 5, alpha := fun r => 1 + r, beta := fun _ => 1,
    jac := fun r _ s c => (c, s, -(r * s), r * c), absF := fun x => |x| }

/-- non-uniform node coordinates of the finest grid -/
def exR (i : Nat) : ℚ := (1 + i + (i : ℚ) * i) / 10
def exTh (j : Nat) : ℚ := (20 * j + (j : ℚ) * j) / 100

/-- split criterion: first true at circle 4 on level 0, never true on level 1 -/
def exCrit : Nat → Nat → Bool := fun l i => decide (l = 0 ∧ 4 ≤ i)

def exG0 : GridData ℚ := ⟨⟨9, 16, Split.autoNc (exCrit 0) 9, true⟩, exR, exTh⟩
def exG1 : GridData ℚ := ⟨⟨5, 8, Split.autoNc (exCrit 1) 5, true⟩, fun i => exR (2 * i), fun j => exTh (2 * j)⟩

/-- shapes and splits: 9 × 16 with `nc = 4`, 5 × 8 with `nc = 2` -/
example : (exG0.g.nr, exG0.g.nt, exG0.g.nc, exG1.g.nr, exG1.g.nt, exG1.g.nc) = (9, 16, 4, 5, 8, 2) := by decide

theorem exG0_valid : exG0.g.Valid := ⟨by decide, by decide, by decide, by decide⟩
theorem exG1_valid : exG1.g.Valid := ⟨by decide, by decide, by decide, by decide⟩

theorem exR_pos (i : Nat) : 0 < exR i := by unfold exR; positivity
theorem exR_inc (i : Nat) : exR i < exR (i + 1) := by
  unfold exR
  have : (0 : ℚ) ≤ i := Nat.cast_nonneg i
  push_cast
  nlinarith
theorem exTh_inc (j : Nat) : exTh j < exTh (j + 1) := by
  unfold exTh
  have : (0 : ℚ) ≤ j := Nat.cast_nonneg j
  push_cast
  nlinarith
theorem exR_inc2 (i : Nat) : exR (2 * i) < exR (2 * (i + 1)) :=
  lt_trans (exR_inc (2 * i)) (exR_inc (2 * i + 1))
theorem exTh_inc2 (j : Nat) : exTh (2 * j) < exTh (2 * (j + 1)) :=
  lt_trans (exTh_inc (2 * j)) (exTh_inc (2 * j + 1))

/-- the determinant of the example mapping at radius `r` is `r` -/
theorem exEnv_det (r th : ℚ) :
    let J := exEnv.jac r th (exEnv.sinF th) (exEnv.cosF th)
    J.1 * J.2.2.2 - J.2.2.1 * J.2.1 = r := by
  show (4 / 5 : ℚ) * (r * (4 / 5)) - -(r * (3 / 5)) * (3 / 5) = r
  ring

/-- **`InputsOK` is satisfiable**, on both levels -/
theorem exG0_ok : InputsOK exEnv exG0 where
  valid := exG0_valid
  radius_inc := fun i _ => exR_inc i
  theta_inc := fun j _ => exTh_inc j
  alpha_pos := fun i _ => by
    show (0 : ℚ) < 1 + exR i
    have := exR_pos i
    linarith
  beta_nonneg := fun _ _ => zero_le_one
  det_ne := fun i j _ _ => by
    show _ ≠ (0 : ℚ)
    rw [exEnv_det]
    exact ne_of_gt (exR_pos i)
  abs_is := fun _ => rfl

theorem exG1_ok : InputsOK exEnv exG1 where
  valid := exG1_valid
  radius_inc := fun i _ => exR_inc2 i
  theta_inc := fun j _ => exTh_inc2 j
  alpha_pos := fun i _ => by
    show (0 : ℚ) < 1 + exR (2 * i)
    have := exR_pos (2 * i)
    linarith
  beta_nonneg := fun _ _ => zero_le_one
  det_ne := fun i j _ _ => by
    show _ ≠ (0 : ℚ)
    rw [exEnv_det]
    exact ne_of_gt (exR_pos (2 * i))
  abs_is := fun _ => rfl

/-- the chain is nested -/
theorem ex_chain : List.IsChain C03c.Nested [exG0, exG1] := by
  rw [List.isChain_cons_cons]
  exact ⟨⟨exG0_valid, exG1_valid, rfl, rfl, fun _ _ => rfl, fun _ _ => rfl⟩, List.isChain_singleton _⟩

/-- the level selection accepts two levels for 9 × 16, and the grids have the shapes and the automatic splits -/
theorem ex_shape : ∀ l (hl : l < [exG0, exG1].length), ([exG0, exG1][l]).g.nr = coarsenR l 9 ∧
    ([exG0, exG1][l]).g.nt = coarsenT l 16 ∧ ([exG0, exG1][l]).g.nc = Split.autoNc (exCrit l) (coarsenR l 9) := by
  intro l hl
  have hl' : l < 2 := hl
  rcases (by omega : l = 0 ∨ l = 1) with rfl | rfl <;> exact ⟨rfl, rfl, rfl⟩

theorem ex_in : ∀ G ∈ [exG0, exG1], InputsOK exEnv G := by
  intro G hG
  simp only [List.mem_cons, List.not_mem_nil, or_false] at hG
  rcases hG with rfl | rfl
  · exact exG0_ok
  · exact exG1_ok

/-- the operator data of the built hierarchy are elliptic on both levels, for all four cache-flag pairs -/
example (bc cc cg : Bool) : Elliptic (opOf exEnv exG0 bc (fresh exEnv exG0 cc cg)) ∧
    Elliptic (opOf exEnv exG1 bc (fresh exEnv exG1 cc cg)) :=
  ⟨opOf_elliptic exEnv exG0 exG0_ok bc cc cg, opOf_elliptic exEnv exG1 exG1_ok bc cc cg⟩

/-- and the built hierarchy is the hierarchy of per-level fresh caches -/
example (cc cg : Bool) : (hier exEnv [exG0, exG1] true cc cg C06c.exTiny C04c.genTables).levels =
    [⟨opOf exEnv exG0 true (fresh exEnv exG0 cc cg), 4⟩, ⟨opOf exEnv exG1 true (fresh exEnv exG1 cc cg), 2⟩] :=
  hier_eq_fresh_levels exEnv cc cg true exG0 [exG1] ex_chain C06c.exTiny C04c.genTables

/-- the hierarchy `setup()` builds from these inputs, both caches on -/
def exH : Hier ℚ := hier exEnv [exG0, exG1] true true true C06c.exTiny C04c.genTables

theorem exH_lvl1 : (lvl exH 1).op = opOf exEnv exG1 true (fresh exEnv exG1 true true) := by
  have h := Concrete15.lvl_map exH [exG0, exG1] _
    (hier_eq_fresh_levels exEnv true true true exG0 [exG1] ex_chain C06c.exTiny C04c.genTables) 1 (by decide)
  rw [h]
  rfl

/-- the 40 pivots of the coarse (5 × 8) matrix assembled from the cached data, evaluated exactly: none is tiny -/
theorem ex_pivots :
    (DirectCode.assemble C04c.genTables (opOf exEnv exG1 true (fresh exEnv exG1 true true))).all (fun M =>
      (List.range M.rows).all fun r => !C06c.exTiny (SparseLU.den ((SparseLU.factorRows M).2.getD r []) r)) = true := by
  decide +kernel

/-- a field that is not zero and its right-hand side `f := A u` on the 9 × 16 level of the built hierarchy -/
def exU : Array ℚ := SmootherCode.ofField 9 16 fun i j => 1 + (i : ℚ) * i - 3 * j
def exF : Array ℚ := SmootherCode.ofField 9 16 (A (lvl exH 0).op (SmootherCode.fld 16 exU))

/-- **`concrete_exact_fixed_setup` applies**: all hypotheses hold jointly, for a solution that is not zero -/
example (k : Kind) (nu1 nu2 : Nat) (fgs : Bool) (m : Mem (Option (Array ℚ)))
    (hm : m (0, Buf.sol) = some exU) (hr : m (0, Buf.rhs) = some exF) :
    cycle exH ⟨2, nu1, nu2⟩ k false fgs m (0, Buf.sol) = some exU ∧ SmootherCode.fld 16 exU 0 10 = -29 := by
  obtain ⟨M, hM⟩ := C04c.assemble_in_bounds (opOf exEnv exG1 true (fresh exEnv exG1 true true)) (by decide)
  have ht : ∀ r, r < M.rows → C06c.exTiny (SparseLU.den ((SparseLU.factorRows M).2.getD r []) r) = false := by
    intro r hr'
    have h := ex_pivots
    rw [hM] at h
    simp only [Option.all_some, List.all_eq_true, List.mem_range, Bool.not_eq_true'] at h
    exact h r hr'
  refine ⟨concrete_exact_fixed_setup exEnv [exG0, exG1] true true C06c.exTiny 9 16 (-1) 2 exCrit rfl rfl ex_chain ex_shape ex_in
    k nu1 nu2 fgs exU exF (by decide +kernel) M (by rw [← hM]; exact congrArg _ exH_lvl1) ht ?_ ?_ m hm hr, ?_⟩
  · simp [exU, SmootherCode.ofField]
  · intro i j hi hj
    rw [take_eq_sub_A]
    show SmootherCode.fld 16 exF i j - _ = 0
    unfold exF
    rw [fld_ofField_grid 9 16 _ i j hi hj]
    exact sub_self _
  · unfold exU
    rw [fld_ofField_grid 9 16 _ 0 10 (by decide) (by decide)]
    norm_num

end C10i
