import GMGProofs.Props.C10e
import GMGProofs.Props.C09c
import GMGProofs.Lemmas.Concrete18
import GMGProofs.Lemmas.Concrete19
/-!
# C10 for the implicitly extrapolated cycle over the code-level models: totality and translation invariance

`C10e` proves totality and translation invariance for the plain concrete cycle.  Here the same for the implicitly extrapolated cycle
(level-0 smoother `SmootherCode.sweep` when `fgs`, `ExSmootherCode.sweep` otherwise; extrapolated transfers; the 4/3, −1/3 combination
of the two residuals).  Translation: shifting the iterate by `w`, the level-0 right-hand side by `A₀ w` and the level-1 right-hand side
by `A₁ (inject w)` shifts the result by `w` — the error propagation of the extrapolated cycle does not depend on the solution either.
`hshape`: the injection of the shifted iterate reads an ARRAY of the size of level 0, so either level 1 has (at most) every second node
of level 0 (what `setup()` builds), or `w` is no longer than that array; otherwise `hAw1` speaks about entries of `w` the code never adds.
Property theorems only; helper lemmas in `GMGProofs/Lemmas/Concrete18.lean` (abstract `excyc_shift`), `Concrete19.lean`.
-/
namespace C10f
open MGCycle Concrete Stencil C10d

section AnyField
variable {K : Type} [_root_.Field K]

/-- **the extrapolated concrete cycle is total** (either level-0 smoother, any depth, V/W/F, any smoothing counts): the hypotheses of
    `C10e.concrete_cycle_total_bc`, and the level-1 right-hand side present (any size; the level-0 one any size as well).  No order on
    the field, no ellipticity, no size conditions on the grids. -/
theorem concrete_excycle_total (H : Hier K) (L : Nat) (hL : 2 ≤ L) (k : Kind) (nu1 nu2 : Nat) (fgs : Bool) (u f f1 : Array K)
    (hbc : ∀ l, l + 1 < L → (lvl H l).op.bc = true) (ht1 : H.tiny 1 = false)
    (M : SparseLU.CSR K) (hM : DirectCode.assemble H.tables (lvl H (L - 1)).op = some M)
    (ht : ∀ r, r < M.rows → H.tiny (SparseLU.den ((SparseLU.factorRows M).2.getD r []) r) = false)
    (hu : u.size = (lvl H 0).op.nr * (lvl H 0).op.nt)
    (m : Mem (Option (Array K))) (hm : m (0, Buf.sol) = some u) (hr : m (0, Buf.rhs) = some f) (hr1 : m (1, Buf.rhs) = some f1) :
    ∃ y, cycle H ⟨L, nu1, nu2⟩ k true fgs m (0, Buf.sol) = some y ∧ y.size = (lvl H 0).op.nr * (lvl H 0).op.nt := by
  unfold cycle
  rw [cycleAt_val (ops H) ⟨L, nu1, nu2⟩ k true fgs 0 (fun _ => rfl)]
  show PU H 0 (excyc (ops H) ⟨L, nu1, nu2⟩ k fgs (m (0, Buf.sol)) (m (0, Buf.rhs)) (m (1, Buf.rhs)))
  rw [hm, hr, hr1]
  exact excyc_inv (ops H) ⟨L, nu1, nu2⟩ (PU H) (QFL H L) _ (opsInvL H L nu1 nu2 hL hbc ht1 M hM ht) fgs
    (exOpsInvU H L fgs (hbc 0 (by omega)) ht1) (show 1 ≤ L - 1 by omega) k (some u) (some f) (some f1)
    ⟨u, rfl, hu⟩ ⟨f, rfl, fun h => by omega⟩ ⟨f1, rfl⟩

end AnyField

section Ordered
variable {K : Type} [_root_.Field K] [LinearOrder K] [IsStrictOrderedRing K]

/-- **translation invariance of the extrapolated concrete cycle**, strongest form: only level 0 has to be an admissible smoothing
    level (uniqueness of the sweep equations), the other smoothing levels need the Dirichlet inner boundary (totality); level 1
    Dirichlet or with two radial nodes (the grid congruence of its residual) -/
theorem concrete_excycle_translate_bc (H : Hier K) (L : Nat) (hL : 2 ≤ L) (k : Kind) (nu1 nu2 : Nat) (fgs : Bool)
    (u f f1 w g g1 : Array K)
    (h0 : LevelOK (lvl H 0)) (hbc : ∀ l, l + 1 < L → (lvl H l).op.bc = true)
    (hodd : fgs = false → (lvl H 0).op.nr % 2 = 1) (ht1 : H.tiny 1 = false)
    (h01 : (lvl H 1).op.bc = true ∨ 2 ≤ (lvl H 1).op.nr)
    (hshape : (2 * (lvl H 1).op.nr ≤ (lvl H 0).op.nr + 1 ∧ 2 * (lvl H 1).op.nt ≤ (lvl H 0).op.nt) ∨
      w.size ≤ (lvl H 0).op.nr * (lvl H 0).op.nt)
    (M : SparseLU.CSR K) (hM : DirectCode.assemble H.tables (lvl H (L - 1)).op = some M)
    (ht : ∀ r, r < M.rows → H.tiny (SparseLU.den ((SparseLU.factorRows M).2.getD r []) r) = false)
    (hu : u.size = (lvl H 0).op.nr * (lvl H 0).op.nt) (hf : (lvl H 0).op.nr * (lvl H 0).op.nt ≤ f.size)
    (hf1 : (lvl H 1).op.nr * (lvl H 1).op.nt ≤ f1.size)
    (hAw : ∀ i j, i < (lvl H 0).op.nr → j < (lvl H 0).op.nt →
      take (lvl H 0).op (SmootherCode.fld (lvl H 0).op.nt g) (SmootherCode.fld (lvl H 0).op.nt w) i j = 0)
    (hAw1 : ∀ i j, i < (lvl H 1).op.nr → j < (lvl H 1).op.nt →
      take (lvl H 1).op (SmootherCode.fld (lvl H 1).op.nt g1) (Interp.inject (SmootherCode.fld (lvl H 0).op.nt w)) i j = 0)
    (m m' : Mem (Option (Array K)))
    (hm : m (0, Buf.sol) = some u) (hr : m (0, Buf.rhs) = some f) (hr1 : m (1, Buf.rhs) = some f1)
    (hm' : m' (0, Buf.sol) = some (Array.ofFn (n := u.size) fun p => u[p] + w.getD p.val 0))
    (hr' : m' (0, Buf.rhs) = some (Array.ofFn (n := f.size) fun p => f[p] + g.getD p.val 0))
    (hr1' : m' (1, Buf.rhs) = some (Array.ofFn (n := f1.size) fun p => f1[p] + g1.getD p.val 0)) :
    ∃ y, y.size = (lvl H 0).op.nr * (lvl H 0).op.nt ∧
      cycle H ⟨L, nu1, nu2⟩ k true fgs m (0, Buf.sol) = some y ∧
      cycle H ⟨L, nu1, nu2⟩ k true fgs m' (0, Buf.sol) = some (Array.ofFn (n := y.size) fun p => y[p] + w.getD p.val 0) := by
  have hinj : ∀ p q, p < (lvl H 1).op.nr → q < (lvl H 1).op.nt →
      2 * p * (lvl H 0).op.nt + 2 * q < (lvl H 0).op.nr * (lvl H 0).op.nt ∨
        w.getD (2 * p * (lvl H 0).op.nt + 2 * q) 0 = 0 := by
    intro p q hp hq
    rcases hshape with ⟨h1, h2⟩ | hw
    · exact Or.inl (SmootherCode.idx_lt (by omega) (by omega))
    · by_cases hlt : 2 * p * (lvl H 0).op.nt + 2 * q < (lvl H 0).op.nr * (lvl H 0).op.nt
      · exact Or.inl hlt
      · refine Or.inr ?_
        rw [Array.getD_eq_getD_getElem?, Array.getElem?_eq_none (by omega)]
        rfl
  obtain ⟨y, h1, h2, h3⟩ := excyc_translate H L nu1 nu2 hL k fgs h0.hyp hodd hbc ht1 h01 M hM ht f g f1 g1 w hf hf1 hinj hAw hAw1
    (some u) (some (addArr u w)) ⟨u, rfl, hu, rfl⟩
  refine ⟨y, h2, ?_, ?_⟩
  · unfold cycle
    rw [cycleAt_val (ops H) ⟨L, nu1, nu2⟩ k true fgs 0 (fun _ => rfl)]
    show excyc (ops H) ⟨L, nu1, nu2⟩ k fgs (m (0, Buf.sol)) (m (0, Buf.rhs)) (m (1, Buf.rhs)) = some y
    rw [hm, hr, hr1]
    exact h1
  · unfold cycle
    rw [cycleAt_val (ops H) ⟨L, nu1, nu2⟩ k true fgs 0 (fun _ => rfl)]
    show excyc (ops H) ⟨L, nu1, nu2⟩ k fgs (m' (0, Buf.sol)) (m' (0, Buf.rhs)) (m' (1, Buf.rhs)) = _
    rw [hm', hr', hr1']
    exact h3

/-- **translation invariance of the extrapolated concrete cycle** (the hypotheses of `C10d.concrete_exact_fixed_extrap(_fgs)` on the
    hierarchy): if `A₀ w = g` and `A₁ (inject w) = g₁` (stated as `take … = 0`), the cycle on `(u, f, f₁)` returns some `y` of the size
    of level 0 and the cycle on `(u + w, f + g, f₁ + g₁)` returns `y + w`; either level-0 smoother (`nr` odd for the extrapolated one) -/
theorem concrete_excycle_translate (H : Hier K) (L : Nat) (hL : 2 ≤ L) (k : Kind) (nu1 nu2 : Nat) (fgs : Bool)
    (u f f1 w g g1 : Array K)
    (hlev : ∀ l, l + 1 < L → LevelOK (lvl H l)) (hodd : fgs = false → (lvl H 0).op.nr % 2 = 1) (ht1 : H.tiny 1 = false)
    (hnr1 : L = 2 → (lvl H 1).op.bc = true ∨ 2 ≤ (lvl H 1).op.nr)
    (hshape : (2 * (lvl H 1).op.nr ≤ (lvl H 0).op.nr + 1 ∧ 2 * (lvl H 1).op.nt ≤ (lvl H 0).op.nt) ∨
      w.size ≤ (lvl H 0).op.nr * (lvl H 0).op.nt)
    (M : SparseLU.CSR K) (hM : DirectCode.assemble H.tables (lvl H (L - 1)).op = some M)
    (ht : ∀ r, r < M.rows → H.tiny (SparseLU.den ((SparseLU.factorRows M).2.getD r []) r) = false)
    (hu : u.size = (lvl H 0).op.nr * (lvl H 0).op.nt) (hf : (lvl H 0).op.nr * (lvl H 0).op.nt ≤ f.size)
    (hf1 : (lvl H 1).op.nr * (lvl H 1).op.nt ≤ f1.size)
    (hAw : ∀ i j, i < (lvl H 0).op.nr → j < (lvl H 0).op.nt →
      take (lvl H 0).op (SmootherCode.fld (lvl H 0).op.nt g) (SmootherCode.fld (lvl H 0).op.nt w) i j = 0)
    (hAw1 : ∀ i j, i < (lvl H 1).op.nr → j < (lvl H 1).op.nt →
      take (lvl H 1).op (SmootherCode.fld (lvl H 1).op.nt g1) (Interp.inject (SmootherCode.fld (lvl H 0).op.nt w)) i j = 0)
    (m m' : Mem (Option (Array K)))
    (hm : m (0, Buf.sol) = some u) (hr : m (0, Buf.rhs) = some f) (hr1 : m (1, Buf.rhs) = some f1)
    (hm' : m' (0, Buf.sol) = some (Array.ofFn (n := u.size) fun p => u[p] + w.getD p.val 0))
    (hr' : m' (0, Buf.rhs) = some (Array.ofFn (n := f.size) fun p => f[p] + g.getD p.val 0))
    (hr1' : m' (1, Buf.rhs) = some (Array.ofFn (n := f1.size) fun p => f1[p] + g1.getD p.val 0)) :
    ∃ y, y.size = (lvl H 0).op.nr * (lvl H 0).op.nt ∧
      cycle H ⟨L, nu1, nu2⟩ k true fgs m (0, Buf.sol) = some y ∧
      cycle H ⟨L, nu1, nu2⟩ k true fgs m' (0, Buf.sol) = some (Array.ofFn (n := y.size) fun p => y[p] + w.getD p.val 0) := by
  have h01 : (lvl H 1).op.bc = true ∨ 2 ≤ (lvl H 1).op.nr := by
    by_cases h2 : L = 2
    · exact hnr1 h2
    · exact Or.inl (hlev 1 (by omega)).bc
  exact concrete_excycle_translate_bc H L hL k nu1 nu2 fgs u f f1 w g g1 (hlev 0 (by omega)) (fun l h => (hlev l h).bc) hodd ht1
    h01 hshape M hM ht hu hf hf1 hAw hAw1 m m' hm hr hr1 hm' hr' hr1'

end Ordered

/-! ## non-vacuity -/

/-- `concrete_excycle_total` on the three-level hierarchy `C10d.exH3` (13 × 16 → 7 × 8 → 4 × 4): EVERY iterate of the right size, EVERY
    pair of right-hand sides, any kind, any smoothing counts, either level-0 smoother -/
example (k : Kind) (nu1 nu2 : Nat) (fgs : Bool) (u f f1 : Array ℚ) (hu : u.size = 13 * 16) (m : Mem (Option (Array ℚ)))
    (hm : m (0, Buf.sol) = some u) (hr : m (0, Buf.rhs) = some f) (hr1 : m (1, Buf.rhs) = some f1) :
    ∃ y, cycle exH3 ⟨3, nu1, nu2⟩ k true fgs m (0, Buf.sol) = some y ∧ y.size = 13 * 16 := by
  obtain ⟨M, hM⟩ := C04c.assemble_in_bounds C10c.exL1.op (by decide)
  exact concrete_excycle_total exH3 3 (by decide) k nu1 nu2 fgs u f f1 (fun l hl => (exH3_levels l hl).bc) (by decide +kernel) M hM
    (fun r hr' => (C10c.exH_twoLevel.coarse_ok M hM r hr').1) hu m hm hr hr1

/-- `concrete_excycle_translate` on `C10d.exH3`: shift by the non-zero field `C10d.exU` with `g := A₀ exU = C10d.exF`,
    `g₁ := A₁ (inject exU) = C10d.exF1`; every iterate of the right size, all right-hand sides covering their grids, either level-0
    smoother (`nr = 13` is odd; level 1 is 7 × 8 = every second node of 13 × 16) -/
example (k : Kind) (nu1 nu2 : Nat) (fgs : Bool) (u f f1 : Array ℚ) (hu : u.size = 13 * 16) (hf : 13 * 16 ≤ f.size)
    (hf1 : 7 * 8 ≤ f1.size) (m m' : Mem (Option (Array ℚ)))
    (hm : m (0, Buf.sol) = some u) (hr : m (0, Buf.rhs) = some f) (hr1 : m (1, Buf.rhs) = some f1)
    (hm' : m' (0, Buf.sol) = some (Array.ofFn (n := u.size) fun p => u[p] + exU.getD p.val 0))
    (hr' : m' (0, Buf.rhs) = some (Array.ofFn (n := f.size) fun p => f[p] + exF.getD p.val 0))
    (hr1' : m' (1, Buf.rhs) = some (Array.ofFn (n := f1.size) fun p => f1[p] + exF1.getD p.val 0)) :
    ∃ y, y.size = 13 * 16 ∧ cycle exH3 ⟨3, nu1, nu2⟩ k true fgs m (0, Buf.sol) = some y ∧
      cycle exH3 ⟨3, nu1, nu2⟩ k true fgs m' (0, Buf.sol) =
        some (Array.ofFn (n := y.size) fun p => y[p] + exU.getD p.val 0) ∧ exU[10]? = some (-29 : ℚ) := by
  obtain ⟨M, hM⟩ := C04c.assemble_in_bounds C10c.exL1.op (by decide)
  have ht : ∀ r, r < M.rows → exH3.tiny (SparseLU.den ((SparseLU.factorRows M).2.getD r []) r) = false :=
    fun r hr' => (C10c.exH_twoLevel.coarse_ok M hM r hr').1
  obtain ⟨y, h1, h2, h3⟩ := concrete_excycle_translate exH3 3 (by decide) k nu1 nu2 fgs u f f1 exU exF exF1 exH3_levels
    (fun _ => by decide) (by decide +kernel) (fun h => absurd h (by decide)) (Or.inl ⟨by decide, by decide⟩) M hM ht hu hf hf1
    exU_sol exU_sol1 m m' hm hr hr1 hm' hr' hr1'
  exact ⟨y, h1, h2, h3, by decide +kernel⟩

end C10f
