import GMGProofs.Props.C19
import GMGProofs.Lemmas.InputsOK
/-!
# The shipped input functions are admissible inputs of the end-to-end theorem

`C10i.concrete_exact_fixed_setup` assumes `C10i.InputsOK E G` (α > 0, β ≥ 0, det DF ≠ 0 at the nodes, increasing coordinates) for the
input functions `E : Cache.Env`.  Here `E` is built from the GENERATED terms of the shipped classes (`Generated/InputFns.lean`,
re-translated from the C++ on every run by `tools/cxx_expr.py`): the code's Jacobian functions of the Circular, Shafranov and Czarny
geometries and the seven coefficient profiles, evaluated over ℝ — and `InputsOK` is PROVED for every combination on every grid with
`0 < r_0 < … ≤ Rmax` and increasing angles, under the parameter ranges the classes document (Shafranov: `0 < 1 − κ − 2δ`, Czarny:
`0 < ε < 1`, `0 < e`).  This closes the chain "shipped test problem → hypotheses of the whole-cycle theorems".
-/
namespace C19i
open Sym Sym.Expr InputFns Cache

/-- the input functions of a shipped (geometry, profile) pair as the level caches call them: `jac` are the code's four Jacobian
    functions, `alpha`, `beta` the profile; parameters `env 0 = Rmax`, `env 1`, `env 2` the geometry parameters -/
noncomputable def shippedEnv (env : Nat → ℝ) (dFx_dr dFy_dr dFx_dt dFy_dt alphaT betaT : Expr) : Env ℝ where
  sinF := Real.sin
  cosF := Real.cos
  alpha := fun r => ev env r 0 alphaT
  beta := fun r => ev env r 0 betaT
  jac := fun r th _ _ => (ev env r th dFx_dr, ev env r th dFy_dr, ev env r th dFx_dt, ev env r th dFy_dt)
  absF := fun x => |x|

/-- the seven shipped coefficient profiles -/
def profiles : List (Expr × Expr) :=
  [(Gen.PoissonCoefficients_alpha, Gen.PoissonCoefficients_beta),
   (Gen.SonnendruckerCoefficients_alpha, Gen.SonnendruckerCoefficients_beta),
   (Gen.SonnendruckerGyroCoefficients_alpha, Gen.SonnendruckerGyroCoefficients_beta),
   (Gen.ZoniCoefficients_alpha, Gen.ZoniCoefficients_beta),
   (Gen.ZoniGyroCoefficients_alpha, Gen.ZoniGyroCoefficients_beta),
   (Gen.ZoniShiftedCoefficients_alpha, Gen.ZoniShiftedCoefficients_beta),
   (Gen.ZoniShiftedGyroCoefficients_alpha, Gen.ZoniShiftedGyroCoefficients_beta)]

/-- a grid inside the domain: valid shape, `0 < r_0`, increasing radii up to `Rmax = env 0`, increasing angles -/
structure GridOK (env : Nat → ℝ) (G : GridData ℝ) : Prop where
  valid : G.g.Valid
  r0_pos : 0 < G.radius 0
  radius_inc : ∀ i, i + 1 < G.g.nr → G.radius i < G.radius (i + 1)
  radius_le : ∀ i, i < G.g.nr → G.radius i ≤ env 0
  theta_inc : ∀ j, j < G.g.nt → G.theta j < G.theta (j + 1)

/-- all radii of a grid inside the domain are positive -/
theorem GridOK.radius_pos {env : Nat → ℝ} {G : GridData ℝ} (hG : GridOK env G) : ∀ i, i < G.g.nr → 0 < G.radius i := by
  intro i
  induction i with
  | zero => intro _; exact hG.r0_pos
  | succ k ih => intro h; exact lt_trans (ih (by omega)) (hG.radius_inc k h)

/-- every shipped profile is positive / non-negative inside the domain (`h0 : 0 < r` is not used: only `r ≤ Rmax` matters) -/
theorem profiles_ok (env : Nat → ℝ) (hR : 0 < env 0) (p : Expr × Expr) (hp : p ∈ profiles) (r : ℝ) (h0 : 0 < r) (h1 : r ≤ env 0) :
    0 < ev env r 0 p.1 ∧ 0 ≤ ev env r 0 p.2 := by
  have _ := h0
  have hle : r / env 0 ≤ 1 := (div_le_one hR).mpr h1
  have hZ := C19.alpha_pos_Zoni (env := env) (r := r) (th := 0)
  have hS := C19.alpha_pos_Sonnendrucker (env := env) (r := r) (th := 0) hle
  simp only [profiles, List.mem_cons, List.not_mem_nil, or_false] at hp
  rcases hp with rfl | rfl | rfl | rfl | rfl | rfl | rfl
  · simp [Gen.PoissonCoefficients_alpha, Gen.PoissonCoefficients_beta]
  · exact ⟨hS.2, by simp [Gen.SonnendruckerCoefficients_beta]⟩
  · refine ⟨hS.1, ?_⟩
    have hg := C19.gyro_Sonnendrucker (env := env) (r := r) (th := 0) hle
    have hm : 0 < ev env r 0 Gen.SonnendruckerGyroCoefficients_alpha * ev env r 0 Gen.SonnendruckerGyroCoefficients_beta := by
      rw [hg]; exact one_pos
    exact ((pos_iff_pos_of_mul_pos hm).mp hS.1).le
  · exact ⟨hZ.1, by simp [Gen.ZoniCoefficients_beta]⟩
  · refine ⟨hZ.2.1, ?_⟩
    simp only [Gen.ZoniGyroCoefficients_beta, sym_ev]
    exact (Real.exp_pos _).le
  · exact ⟨hZ.2.2.1, by simp [Gen.ZoniShiftedCoefficients_beta]⟩
  · refine ⟨hZ.2.2.2, ?_⟩
    simp only [Gen.ZoniShiftedGyroCoefficients_beta, sym_ev]
    exact (Real.exp_pos _).le

/-- `InputsOK` from `GridOK`, `profiles_ok` and a regular code Jacobian at every point `0 < r ≤ Rmax` of the domain -/
theorem inputsOK_of_det (env : Nat → ℝ) (hR : 0 < env 0) (a b c d : Expr) (p : Expr × Expr) (hp : p ∈ profiles)
    (G : GridData ℝ) (hG : GridOK env G)
    (hdet : ∀ r th, 0 < r → r ≤ env 0 → ev env r th a * ev env r th d - ev env r th c * ev env r th b ≠ 0) :
    C10i.InputsOK (shippedEnv env a b c d p.1 p.2) G where
  valid := hG.valid
  radius_inc := hG.radius_inc
  theta_inc := hG.theta_inc
  alpha_pos := fun i hi => (profiles_ok env hR p hp _ (hG.radius_pos i hi) (hG.radius_le i hi)).1
  beta_nonneg := fun i hi => (profiles_ok env hR p hp _ (hG.radius_pos i hi) (hG.radius_le i hi)).2
  det_ne := fun i _ hi _ => hdet _ _ (hG.radius_pos i hi) (hG.radius_le i hi)
  abs_is := fun _ => rfl

/-- determinant of the code's Jacobian functions, circular geometry: `r / Rmax²` -/
theorem det_Circular (env : Nat → ℝ) (r th : ℝ) (hR : env 0 ≠ 0) :
    ev env r th Gen.CircularGeometry_dFx_dr * ev env r th Gen.CircularGeometry_dFy_dt
      - ev env r th Gen.CircularGeometry_dFx_dt * ev env r th Gen.CircularGeometry_dFy_dr = r / env 0 ^ 2 := by
  obtain ⟨j1, j2, j3, j4⟩ := C19.jacobian_Circular (r := r) (th := th) hR
  have h := C19.detJ_Circular (env := env) (r := r) (th := th) Expr.zero Expr.zero Expr.zero
  rw [ev_detJ] at h
  rw [j1, j2, j3, j4]; exact h

/-- determinant of the code's Jacobian functions, Shafranov geometry -/
theorem det_Shafranov (env : Nat → ℝ) (r th : ℝ) (hR : env 0 ≠ 0) :
    ev env r th Gen.ShafranovGeometry_dFx_dr * ev env r th Gen.ShafranovGeometry_dFy_dt
      - ev env r th Gen.ShafranovGeometry_dFx_dt * ev env r th Gen.ShafranovGeometry_dFy_dr
      = (1 + env 1) * r / env 0 ^ 2 * (1 - env 1 - 2 * env 2 * (r / env 0) * Real.cos th) := by
  obtain ⟨j1, j2, j3, j4⟩ := C19.jacobian_Shafranov (r := r) (th := th) hR
  have h := C19.detJ_Shafranov (env := env) (r := r) (th := th) Expr.zero Expr.zero Expr.zero
  rw [ev_detJ] at h
  rw [j1, j2, j3, j4]; exact h

/-- determinant of the code's Jacobian functions, Czarny geometry (under the side conditions of `C19.jacobian_Czarny`) -/
theorem det_Czarny (env : Nat → ℝ) (r th : ℝ) (hR : env 0 ≠ 0) (he : env 1 ≠ 0) (hrad : 0 < czRad env r th)
    (h2 : 2 - Real.sqrt (czRad env r th) ≠ 0) :
    ev env r th Gen.CzarnyGeometry_dFx_dr * ev env r th Gen.CzarnyGeometry_dFy_dt
      - ev env r th Gen.CzarnyGeometry_dFx_dt * ev env r th Gen.CzarnyGeometry_dFy_dr
      = -(env 2 * (1 / Real.sqrt (1 - env 1 * env 1 / 4)) * (r / env 0))
        / (env 0 * Real.sqrt (czRad env r th) * (2 - Real.sqrt (czRad env r th))) := by
  obtain ⟨j1, j2, j3, j4⟩ := C19.jacobian_Czarny (r := r) (th := th) hR he hrad h2
  have h := C19.detJ_Czarny (env := env) (r := r) (th := th) Expr.zero Expr.zero Expr.zero hR he hrad h2
  rw [ev_detJ] at h
  rw [j1, j2, j3, j4]; exact h

theorem inputsOK_Circular (env : Nat → ℝ) (hR : 0 < env 0) (p : Expr × Expr) (hp : p ∈ profiles) (G : GridData ℝ) (hG : GridOK env G) :
    C10i.InputsOK (shippedEnv env Gen.CircularGeometry_dFx_dr Gen.CircularGeometry_dFy_dr Gen.CircularGeometry_dFx_dt
      Gen.CircularGeometry_dFy_dt p.1 p.2) G := by
  refine inputsOK_of_det env hR _ _ _ _ p hp G hG ?_
  intro r th h0 _
  rw [det_Circular env r th hR.ne']
  exact (div_pos h0 (pow_pos hR 2)).ne'

/-- Shafranov: stretching `κ = env 1`, shift `δ = env 2` with `0 ≤ κ`, `0 ≤ δ`, `κ + 2 δ < 1` (then the mapping is a diffeomorphism of the disc) -/
theorem inputsOK_Shafranov (env : Nat → ℝ) (hR : 0 < env 0) (hk : 0 ≤ env 1) (hd : 0 ≤ env 2) (hkd : env 1 + 2 * env 2 < 1)
    (p : Expr × Expr) (hp : p ∈ profiles) (G : GridData ℝ) (hG : GridOK env G) :
    C10i.InputsOK (shippedEnv env Gen.ShafranovGeometry_dFx_dr Gen.ShafranovGeometry_dFy_dr Gen.ShafranovGeometry_dFx_dt
      Gen.ShafranovGeometry_dFy_dt p.1 p.2) G := by
  refine inputsOK_of_det env hR _ _ _ _ p hp G hG ?_
  intro r th h0 h1
  rw [det_Shafranov env r th hR.ne']
  have hrho0 : 0 < r / env 0 := div_pos h0 hR
  have hrho1 : r / env 0 ≤ 1 := (div_le_one hR).mpr h1
  have hc : r / env 0 * Real.cos th ≤ 1 := by
    have := Real.cos_le_one th
    nlinarith
  have hfac : 0 < 1 - env 1 - 2 * env 2 * (r / env 0) * Real.cos th := by nlinarith
  have h1k : 0 < (1 + env 1) * r / env 0 ^ 2 := div_pos (mul_pos (by linarith) h0) (pow_pos hR 2)
  exact (mul_pos h1k hfac).ne'

/-- Czarny: inverse aspect ratio `ε = env 1 ∈ (0, 1)`, ellipticity `e = env 2 > 0` -/
theorem inputsOK_Czarny (env : Nat → ℝ) (hR : 0 < env 0) (he0 : 0 < env 1) (he1 : env 1 < 1) (hel : 0 < env 2)
    (p : Expr × Expr) (hp : p ∈ profiles) (G : GridData ℝ) (hG : GridOK env G) :
    C10i.InputsOK (shippedEnv env Gen.CzarnyGeometry_dFx_dr Gen.CzarnyGeometry_dFy_dr Gen.CzarnyGeometry_dFx_dt
      Gen.CzarnyGeometry_dFy_dt p.1 p.2) G := by
  refine inputsOK_of_det env hR _ _ _ _ p hp G hG ?_
  intro r th h0 h1
  obtain ⟨he, hxi, hrad, h2⟩ := C19.czarny_domain (th := th) he0 he1 (abs_rho_le_one hR h0.le h1)
  rw [det_Czarny env r th hR.ne' he hrad h2]
  have hs := Real.sqrt_pos.mpr hrad
  have hq := Real.sqrt_pos.mpr hxi
  have hnum : 0 < env 2 * (1 / Real.sqrt (1 - env 1 * env 1 / 4)) * (r / env 0) :=
    mul_pos (mul_pos hel (one_div_pos.mpr hq)) (div_pos h0 hR)
  exact div_ne_zero (neg_ne_zero.mpr hnum.ne') (mul_ne_zero (mul_ne_zero hR.ne' hs.ne') h2)

/-! ## non-vacuity: a concrete grid inside the domain and one instance per geometry -/

/-- parameters `Rmax = 13/10`, `env 1 = 3/10`, `env 2 = 1/5` (admissible for all three geometries) -/
noncomputable def exEnv : Nat → ℝ
  | 0 => 13 / 10
  | 1 => 3 / 10
  | 2 => 1 / 5
  | _ => 0

/-- `nr = 5`, `nt = 8`, `r_i = (1 + i)/10`, `θ_j = j/2` -/
noncomputable def exGrid : GridData ℝ where
  g := ⟨5, 8, 2, true⟩
  radius := fun i => (1 + (i : ℝ)) / 10
  theta := fun j => (j : ℝ) / 2

theorem exGrid_ok : GridOK exEnv exGrid where
  valid := ⟨by decide, by decide, by decide, by decide⟩
  r0_pos := by simp [exGrid]
  radius_inc := fun i _ => by simp only [exGrid]; push_cast; linarith
  radius_le := fun i hi => by
    have : (i : ℝ) ≤ 4 := by exact_mod_cast Nat.lt_succ_iff.mp hi
    simp only [exGrid, exEnv]; linarith
  theta_inc := fun j _ => by simp only [exGrid]; push_cast; linarith

example : C10i.InputsOK (shippedEnv exEnv Gen.CircularGeometry_dFx_dr Gen.CircularGeometry_dFy_dr Gen.CircularGeometry_dFx_dt
    Gen.CircularGeometry_dFy_dt Gen.SonnendruckerGyroCoefficients_alpha Gen.SonnendruckerGyroCoefficients_beta) exGrid :=
  inputsOK_Circular exEnv (by norm_num [exEnv]) (Gen.SonnendruckerGyroCoefficients_alpha, Gen.SonnendruckerGyroCoefficients_beta)
    (by simp [profiles]) exGrid exGrid_ok

example : C10i.InputsOK (shippedEnv exEnv Gen.ShafranovGeometry_dFx_dr Gen.ShafranovGeometry_dFy_dr Gen.ShafranovGeometry_dFx_dt
    Gen.ShafranovGeometry_dFy_dt Gen.ZoniShiftedGyroCoefficients_alpha Gen.ZoniShiftedGyroCoefficients_beta) exGrid :=
  inputsOK_Shafranov exEnv (by norm_num [exEnv]) (by norm_num [exEnv]) (by norm_num [exEnv]) (by norm_num [exEnv])
    (Gen.ZoniShiftedGyroCoefficients_alpha, Gen.ZoniShiftedGyroCoefficients_beta) (by simp [profiles]) exGrid exGrid_ok

example : C10i.InputsOK (shippedEnv exEnv Gen.CzarnyGeometry_dFx_dr Gen.CzarnyGeometry_dFy_dr Gen.CzarnyGeometry_dFx_dt
    Gen.CzarnyGeometry_dFy_dt Gen.PoissonCoefficients_alpha Gen.PoissonCoefficients_beta) exGrid :=
  inputsOK_Czarny exEnv (by norm_num [exEnv]) (by norm_num [exEnv]) (by norm_num [exEnv]) (by norm_num [exEnv])
    (Gen.PoissonCoefficients_alpha, Gen.PoissonCoefficients_beta) (by simp [profiles]) exGrid exGrid_ok

end C19i
