import GMGModel.ExSmootherGiveCode
import Generated.Stencils
import GMGProofs.Props.C07c
import GMGProofs.Lemmas.ExSmootherGiveCode14
/-!
# C07 (code level, give) — `ExtrapolatedSmootherGive` assembles the same line systems, builds the same `temp` and performs the
same sweep as `ExtrapolatedSmootherTake`

Model: `GMGModel/ExSmootherGiveCode.lean` (every node ACCUMULATES its contributions into the solver object of its own line and
into those of its neighbours, in the sequential node order, into zero-initialised storage; the scatter kernels `temp[…] -= …` of
`smootherSolver.cpp` colour phase by colour phase; the sequential sweep), instantiated with the offset tables
`tools/stencil_extract.py` regenerates from `extrapolatedSmootherGive.h` (`Generated/Stencils.lean`, `ExSmootherGive_*`).

The hypotheses (`Admissible`): the header's tables; `3 ≤ nc` and `nc + 3 ≤ nr` (both asserted by the C++; with two circles the
node `(1, j)` stores into the never-constructed `circle_diagonal_solver_[0]`: `nc_two_out_of_bounds`); `nr` odd (with `nr` even
the row `nr - 2` of an even radial line is a coarse node the give assembly treats as fine while its neighbour does not give to
it: `nr_odd_needed`); `nt` even and `≥ 4`; across the origin `nt` divisible by 4 (asserted by the C++: otherwise the `Left`
store of an odd node goes beyond the one-slot row of its even antipode: `nt_six_out_of_bounds`) and antipodally symmetric
angular spacing (`hk_needed`).  Every smoothed level of a solver that was set up successfully has `nr` odd and `nt` divisible
by 4 (`C18.levels_admissible`), uniform refinement keeps the angular spacing antipodally symmetric.

Property theorems only; helper lemmas in `GMGProofs/Lemmas/ExSmootherGiveCode{1..14}.lean`.
-/
namespace C07g
open Stencil Smoother ExSmootherGiveCode
open SmootherCode (fld ofField blackCircles whiteCircles blackRadials whiteRadials)

/-- the offset tables of the give header, as regenerated on every check -/
def genTables : Tables := ⟨Stencils.Gen.ExSmootherGive_stencil_center, Stencils.Gen.ExSmootherGive_stencil_center_left⟩

/-- the regenerated tables have the values the lemmas are stated for (a change of the header breaks this `rfl`) -/
theorem genTables_good : GoodTables genTables := ⟨rfl, rfl⟩

section AnyField
variable {K : Type} [_root_.Field K]

/-! ## 1  the assembly -/

/-- (a) no store of the scatter assembly leaves its array -/
theorem exgive_assemble_in_bounds (T : Tables) (o : Op K) (nc : Nat) (A : Admissible T o nc) :
    ∃ m, assemble T o nc = some m := by
  obtain ⟨mf, h, _⟩ := assemble_values T o nc A
  exact ⟨mf, h⟩

/-- the shape of the solver vectors: `circle_diagonal_solver_[0]` keeps dimension 0, every other element has the dimension
    of its line, the corner member of the (non-cyclic) radial solvers is never written -/
theorem exgive_shape (T : Tables) (o : Op K) (nc : Nat) (A : Admissible T o nc) (m : Mem K)
    (hm : assemble T o nc = some m) :
    (m (.cd 0)).length = 0 ∧
    (∀ k, k < nc / 2 → (m (.ctMain k)).length = o.nt ∧ (m (.ctSub k)).length = o.nt - 1) ∧
    (∀ k, 0 < k → k < nc - nc / 2 → (m (.cd k)).length = o.nt) ∧
    (∀ k, k < o.nt / 2 → (m (.rtMain k)).length = o.nr - nc ∧ (m (.rtSub k)).length = o.nr - nc - 1 ∧
      (m (.rd k)).length = o.nr - nc) := by
  obtain ⟨mf, h, hl, _⟩ := assemble_values T o nc A
  rw [h] at hm
  obtain rfl := Option.some.inj hm
  refine ⟨by rw [hl]; simp [alloc], fun k hk => ?_, fun k h0 hk => ?_, fun k hk => ?_⟩
  · constructor <;> rw [hl] <;> simp [alloc, hk]
  · rw [hl]; simp [alloc, h0, hk]
  · refine ⟨?_, ?_, ?_⟩ <;> rw [hl] <;> simp [alloc, hk]

/-- (b) **every stored array of the scatter assembly equals the corresponding array of the gather assembly**
    (`GMGModel/ExSmootherCode.lean`): the cyclic tridiagonal solvers of the odd circles (main diagonal, sub-diagonal, corner
    element), the diagonal solvers of the even circles, the tridiagonal solvers of the odd radial lines (incl. the `0.0` next to
    the outer boundary), the diagonal solvers of the even radial lines, and the CSR matrix of the innermost circle slot by slot
    (column indices and values, storage order) -/
theorem exgive_matrices_eq_take (T : Tables) (o : Op K) (nc : Nat) (A : Admissible T o nc) (m : Mem K)
    (hm : assemble T o nc = some m) :
    (∀ i, 0 < i → i < nc → i % 2 = 1 → circleTriSolver m i = ExSmootherCode.circleTriSolver o i) ∧
    (∀ i, 0 < i → i < nc → ¬ i % 2 = 1 → circleDiag m i = ExSmootherCode.circleDiag o i) ∧
    (∀ j, j < o.nt → j % 2 = 1 → radialTriSolver m j = ExSmootherCode.radialTriSolver o nc j) ∧
    (∀ j, j < o.nt → ¬ j % 2 = 1 → radialDiag m j = ExSmootherCode.radialDiag o nc j) ∧
    innerCSR o m = ExSmootherCode.innerCSR o := by
  obtain ⟨mf, h, hl, hv, hf⟩ := assemble_values T o nc A
  rw [h] at hm
  obtain rfl := Option.some.inj hm
  exact ⟨circleTriSolver_eq T o nc mf A hl hv, vals_cd T o nc mf A hl hv, radialTriSolver_eq T o nc mf A hl hv,
    vals_rd T o nc mf A hl hv, innerCSR_eq T o nc mf A hl hv hf⟩

/-! ## 2  `temp` -/

/-- (c) **`temp` of the circle section**: after Asc-ortho(`colour`) has been scattered over the circle section (Black:
    `i_r = 0 … nc`, White: `i_r = 0 … nc - 1`), `temp` holds on every circle of that colour the value the gather kernel
    computes, `rhs - A_sc^ortho x` (`ExSmootherCode.orthoCircle`), provided it held the initial value
    (`rhs` at the fine nodes, `x` at the coarse nodes) before; all other entries of `temp` are untouched -/
theorem exgive_temp_eq_take_circle (o : Op K) (nc : Nat) (hnc : 3 ≤ nc) (hnt : 2 ≤ o.nt) (heven : o.nt % 2 = 0)
    (black : Bool) (f x t : Stencil.Field K) (a b : Nat) (hb : b < o.nt) :
    (a < nc → circleNodeBlack nc a = black → t a b = initTemp f x a b →
      ((circlePhase o nc black (lastOf nc black) x).foldl Stencil.applyUpd t) a b
        = ExSmootherCode.orthoCircle o nc f x a b) ∧
    ((nc ≤ a ∨ ¬ circleNodeBlack nc a = black) →
      ((circlePhase o nc black (lastOf nc black) x).foldl Stencil.applyUpd t) a b = t a b) :=
  ⟨fun ha hcol ht => circle_temp_own o nc black f x hnc hnt heven t a b ha hb hcol ht,
   fun h => circle_temp_other o nc black x hnc hnt t a b hb h⟩

/-- (c) **`temp` of the radial section**, likewise (`ExSmootherCode.orthoRadial`; a radial line is Black iff `i_theta` is
    even) -/
theorem exgive_temp_eq_take_radial (o : Op K) (nc : Nat) (hnc : 3 ≤ nc) (hnr : nc + 3 ≤ o.nr) (hodd : o.nr % 2 = 1)
    (hnt : 2 ≤ o.nt) (heven : o.nt % 2 = 0) (black : Bool) (f x t : Stencil.Field K) (a b : Nat) (ha : a < o.nr)
    (hb : b < o.nt) :
    (nc ≤ a → (!decide (b % 2 = 1)) = black → t a b = initTemp f x a b →
      ((radialPhase o nc black f x).foldl Stencil.applyUpd t) a b = ExSmootherCode.orthoRadial o nc f x a b) ∧
    ((a < nc ∨ ¬ (!decide (b % 2 = 1)) = black) →
      ((radialPhase o nc black f x).foldl Stencil.applyUpd t) a b = t a b) :=
  ⟨fun ha0 hcol ht => radial_temp_own o nc black f x hnc hnr hodd hnt heven t a b ha0 ha hb hcol ht,
   fun h => radial_temp_other o nc black f x hnc hnr hnt heven t a b ha hb h⟩

/-- all four scatter phases on one iterate (what the correspondence harness dumps): at EVERY node the gather kernel's value -/
theorem exgive_scatterAll_eq_take (o : Op K) (nc : Nat) (hnc : 3 ≤ nc) (hnr : nc + 3 ≤ o.nr) (hodd : o.nr % 2 = 1)
    (hnt : 2 ≤ o.nt) (heven : o.nt % 2 = 0) (f x : Stencil.Field K) (a b : Nat) (ha : a < o.nr) (hb : b < o.nt) :
    scatterAll o nc f x a b
      = if a < nc then ExSmootherCode.orthoCircle o nc f x a b else ExSmootherCode.orthoRadial o nc f x a b := by
  show (List.foldl Stencil.applyUpd (List.foldl Stencil.applyUpd (List.foldl Stencil.applyUpd
    (List.foldl Stencil.applyUpd (initTemp f x) (circlePhase o nc true (lastOf nc true) x))
    (circlePhase o nc false (lastOf nc false) x)) (radialPhase o nc true f x)) (radialPhase o nc false f x)) a b = _
  by_cases hac : a < nc
  · rw [if_pos hac,
      radial_temp_other o nc false f x hnc hnr hnt heven _ a b ha hb (Or.inl hac),
      radial_temp_other o nc true f x hnc hnr hnt heven _ a b ha hb (Or.inl hac)]
    by_cases hcol : circleNodeBlack nc a = true
    · rw [circle_temp_other o nc false x hnc hnt _ a b hb (Or.inr (by rw [hcol]; simp))]
      exact circle_temp_own o nc true f x hnc hnt heven _ a b hac hb hcol rfl
    · have hcol' : circleNodeBlack nc a = false := by simpa using hcol
      apply circle_temp_own o nc false f x hnc hnt heven _ a b hac hb hcol'
      exact circle_temp_other o nc true x hnc hnt _ a b hb (Or.inr (by rw [hcol']; simp))
  · rw [if_neg hac]
    have hge : nc ≤ a := by omega
    have hc0 : ∀ t : Stencil.Field K, ∀ bl : Bool,
        ((circlePhase o nc bl (lastOf nc bl) x).foldl Stencil.applyUpd t) a b = t a b :=
      fun t bl => circle_temp_other o nc bl x hnc hnt t a b hb (Or.inl hge)
    by_cases hbo : b % 2 = 1
    · apply radial_temp_own o nc false f x hnc hnr hodd hnt heven _ a b hge ha hb (by simp [hbo])
      rw [radial_temp_other o nc true f x hnc hnr hnt heven _ a b ha hb (Or.inr (by simp [hbo])), hc0, hc0]
    · rw [radial_temp_other o nc false f x hnc hnr hnt heven _ a b ha hb (Or.inr (by simp [hbo]))]
      apply radial_temp_own o nc true f x hnc hnr hodd hnt heven _ a b hge ha hb (by simp [hbo])
      rw [hc0, hc0]

/-! ## 3  the sweep -/

theorem pairwise_filter_range (n : Nat) (P : Nat → Bool) (R : Nat → Nat → Prop)
    (h : ∀ i i', i < i' → i' < n → P i = true → P i' = true → R i i') :
    ((List.range n).filter P).Pairwise R := by
  have hlt : ((List.range n).filter P).Pairwise (· < ·) := List.Pairwise.filter _ List.pairwise_lt_range
  apply List.Pairwise.imp_of_mem _ hlt
  intro i i' hi hi' hlt'
  have h1 := List.mem_filter.mp hi
  have h2 := List.mem_filter.mp hi'
  exact h i i' hlt' (List.mem_range.mp h2.1) h1.2 h2.2

/-- (d) **the sequential sweep of the scatter strategy returns exactly what the sweep of the gather strategy returns**
    (the same array, or both take the sparse LU's exit branch): same stored matrices, same `temp` at the moment each line is
    solved, same line solves, same write-back -/
theorem exgive_sweep_eq_take_sweep (T : Tables) (o : Op K) (nc : Nat) (A : Admissible T o nc) (m : Mem K)
    (hm : assemble T o nc = some m) (tiny : K → Bool) (f : Stencil.Field K) (x : Array K)
    (hx : x.size = o.nr * o.nt) :
    sweep o m tiny nc f x = ExSmootherCode.sweep o tiny nc f x := by
  have hnc := A.hnc
  have hnr := A.hnr
  have hnt := A.hnt
  have heven := A.heven
  have hodd := A.hodd
  obtain ⟨M1, M2, M3, M4, M5⟩ := exgive_matrices_eq_take T o nc A m hm
  have CM : CircleMats o nc m := ⟨M5, M1, M2⟩
  have RM : RadialMats o nc m := ⟨M3, M4⟩
  -- the four line lists
  have mem_bc : ∀ i, i ∈ blackCircles nc ↔ i < nc ∧ (nc - 1 - i) % 2 = 0 := by
    intro i; simp [blackCircles]
  have mem_wc : ∀ i, i ∈ whiteCircles nc ↔ i < nc ∧ (nc - 1 - i) % 2 = 1 := by
    intro i; simp [whiteCircles]
  have mem_br : ∀ j, j ∈ blackRadials o.nt ↔ j < o.nt ∧ j % 2 = 0 := by
    intro j; simp [blackRadials]
  have mem_wr : ∀ j, j ∈ whiteRadials o.nt ↔ j < o.nt ∧ j % 2 = 1 := by
    intro j; simp [whiteRadials]
  have pw_bc : (blackCircles nc).Pairwise (fun i i' => i ≠ i' ∧ i + 1 ≠ i' ∧ i' + 1 ≠ i) :=
    pairwise_filter_range nc _ _ (fun i i' h1 h2 p1 p2 => by simp at p1 p2; omega)
  have pw_wc : (whiteCircles nc).Pairwise (fun i i' => i ≠ i' ∧ i + 1 ≠ i' ∧ i' + 1 ≠ i) :=
    pairwise_filter_range nc _ _ (fun i i' h1 h2 p1 p2 => by simp at p1 p2; omega)
  have pw_br : (blackRadials o.nt).Pairwise (fun j j' => j ≠ j' ∧ jm o j' ≠ j ∧ jp o j' ≠ j) :=
    pairwise_filter_range o.nt _ _ (fun j j' h1 h2 p1 p2 => by
      simp at p1 p2
      have := ExSmootherGiveCode.jm_parity o heven h2
      have := ExSmootherGiveCode.jp_parity o heven h2
      omega)
  have pw_wr : (whiteRadials o.nt).Pairwise (fun j j' => j ≠ j' ∧ jm o j' ≠ j ∧ jp o j' ≠ j) :=
    pairwise_filter_range o.nt _ _ (fun j j' h1 h2 p1 p2 => by
      simp at p1 p2
      have := ExSmootherGiveCode.jm_parity o heven h2
      have := ExSmootherGiveCode.jp_parity o heven h2
      omega)
  -- phase 1: black circles
  set t0 := initTemp f (fld o.nt x) with ht0
  set t1 := (circlePhase o nc true (nc + 1) (fld o.nt x)).foldl Stencil.applyUpd t0 with ht1
  have ht1own : ∀ i ∈ blackCircles nc, ∀ b, b < o.nt → t1 i b = ExSmootherCode.orthoCircle o nc f (fld o.nt x) i b := by
    intro i hi b hb
    obtain ⟨hi1, hi2⟩ := (mem_bc i).mp hi
    exact circle_temp_own o nc true f (fld o.nt x) hnc (by omega) heven t0 i b hi1 hb
      ((circleNodeBlack_iff nc hi1).mpr hi2) rfl
  have ht1other : ∀ p q, q < o.nt → p ∉ blackCircles nc → t1 p q = t0 p q := by
    intro p q hq hp
    apply circle_temp_other o nc true (fld o.nt x) hnc (by omega) t0 p q hq
    by_cases hpn : p < nc
    · right
      intro hcb
      exact hp ((mem_bc p).mpr ⟨hpn, (circleNodeBlack_iff nc hpn).mp hcb⟩)
    · left; omega
  unfold sweep ExSmootherCode.sweep
  simp only []
  rcases circle_fold_sim o nc f m tiny CM (by omega) (blackCircles nc) (fun i hi => ((mem_bc i).mp hi).1) pw_bc x t1 hx
      ht1own with ⟨a1, t1', hg1, hk1, hs1, ht1', hf1⟩ | ⟨hg1, hk1⟩
  swap
  · rw [hg1, hk1, ExSmootherCode.circleStep_none]; rfl
  rw [hg1, hk1]
  simp only [Option.bind_some]
  have hs1' : a1.size = o.nr * o.nt := by rw [hs1, hx]
  -- phase 2: white circles
  set t2 := (circlePhase o nc false nc (fld o.nt a1)).foldl Stencil.applyUpd t1' with ht2
  have init_eq : ∀ (u u' : Stencil.Field K) p q, u p q = u' p q → initTemp f u p q = initTemp f u' p q := by
    intro u u' p q h; unfold initTemp; rw [h]
  have ht2own : ∀ i ∈ whiteCircles nc, ∀ b, b < o.nt → t2 i b = ExSmootherCode.orthoCircle o nc f (fld o.nt a1) i b := by
    intro i hi b hb
    obtain ⟨hi1, hi2⟩ := (mem_wc i).mp hi
    have hnb : i ∉ blackCircles nc := fun h => by have := ((mem_bc i).mp h).2; omega
    apply circle_temp_own o nc false f (fld o.nt a1) hnc (by omega) heven t1' i b hi1 hb
    · cases hc : circleNodeBlack nc i with
      | false => rfl
      | true => have := (circleNodeBlack_iff nc hi1).mp hc; omega
    · rw [ht1' i b hnb, ht1other i b hb hnb]
      exact init_eq _ _ i b (hf1 i b hnb (by omega) hb).symm
  have ht2other : ∀ p q, q < o.nt → p ∉ whiteCircles nc → t2 p q = t1' p q := by
    intro p q hq hp
    apply circle_temp_other o nc false (fld o.nt a1) hnc (by omega) t1' p q hq
    by_cases hpn : p < nc
    · right
      intro hcb
      apply hp
      refine (mem_wc p).mpr ⟨hpn, ?_⟩
      have : ¬ (nc - 1 - p) % 2 = 0 := fun h => by
        have := (circleNodeBlack_iff nc hpn).mpr h
        rw [hcb] at this; cases this
      omega
    · left; omega
  rcases circle_fold_sim o nc f m tiny CM (by omega) (whiteCircles nc) (fun i hi => ((mem_wc i).mp hi).1) pw_wc a1 t2 hs1'
      ht2own with ⟨a2, t2', hg2, hk2, hs2, ht2', hf2⟩ | ⟨hg2, hk2⟩
  swap
  · rw [hg2, hk2]; rfl
  rw [hg2, hk2]
  simp only [Option.map_some]
  congr 1
  have hs2' : a2.size = o.nr * o.nt := by rw [hs2, hs1']
  -- what `temp` and the iterate hold on the radial section after the circle phases
  have rad_t : ∀ p q, nc ≤ p → q < o.nt → t2' p q = t0 p q := by
    intro p q hp hq
    have n1 : p ∉ whiteCircles nc := fun h => by have := ((mem_wc p).mp h).1; omega
    have n2 : p ∉ blackCircles nc := fun h => by have := ((mem_bc p).mp h).1; omega
    rw [ht2' p q n1, ht2other p q hq n1, ht1' p q n2, ht1other p q hq n2]
  have rad_x : ∀ p q, nc ≤ p → p < o.nr → q < o.nt → fld o.nt a2 p q = fld o.nt x p q := by
    intro p q hp hpn hq
    have n1 : p ∉ whiteCircles nc := fun h => by have := ((mem_wc p).mp h).1; omega
    have n2 : p ∉ blackCircles nc := fun h => by have := ((mem_bc p).mp h).1; omega
    rw [hf2 p q n1 hpn hq, hf1 p q n2 hpn hq]
  -- phase 3: black radial lines
  set t3 := (radialPhase o nc true f (fld o.nt a2)).foldl Stencil.applyUpd t2' with ht3
  have ht3own : ∀ j ∈ blackRadials o.nt, ∀ s, s < o.nr - nc →
      t3 (nc + s) j = ExSmootherCode.orthoRadial o nc f (fld o.nt a2) (nc + s) j := by
    intro j hj s hs
    obtain ⟨hj1, hj2⟩ := (mem_br j).mp hj
    apply radial_temp_own o nc true f (fld o.nt a2) hnc hnr hodd (by omega) heven t2' (nc + s) j (by omega) (by omega) hj1
    · have : ¬ j % 2 = 1 := by omega
      simp [this]
    · rw [rad_t (nc + s) j (by omega) hj1]
      exact init_eq _ _ _ _ (rad_x (nc + s) j (by omega) (by omega) hj1).symm
  obtain ⟨hr1, hr2, hr3⟩ := radial_fold_sim o nc f m RM hnr (blackRadials o.nt) (fun j hj => ((mem_br j).mp hj).1) pw_br a2 t3
    hs2' ht3own
  -- phase 4: white radial lines
  set st3 := (blackRadials o.nt).foldl (radialStep o m nc) (a2, t3) with hst3
  have hs3' : st3.1.size = o.nr * o.nt := by
    rw [hr1, ExSmootherCode.radial_fold_size]; exact hs2'
  set t4 := (radialPhase o nc false f (fld o.nt st3.1)).foldl Stencil.applyUpd st3.2 with ht4
  have ht4own : ∀ j ∈ whiteRadials o.nt, ∀ s, s < o.nr - nc →
      t4 (nc + s) j = ExSmootherCode.orthoRadial o nc f (fld o.nt st3.1) (nc + s) j := by
    intro j hj s hs
    obtain ⟨hj1, hj2⟩ := (mem_wr j).mp hj
    have hnb : j ∉ blackRadials o.nt := fun h => by have := ((mem_br j).mp h).2; omega
    apply radial_temp_own o nc false f (fld o.nt st3.1) hnc hnr hodd (by omega) heven st3.2 (nc + s) j (by omega)
      (by omega) hj1
    · simp [hj2]
    · rw [hr2 (nc + s) j hnb, ht3,
        radial_temp_other o nc true f (fld o.nt a2) hnc hnr (by omega) heven t2' (nc + s) j (by omega) hj1
          (Or.inr (by simp [hj2])),
        rad_t (nc + s) j (by omega) hj1, ht0]
      unfold initTemp
      rw [if_pos (Or.inr hj2), if_pos (Or.inr hj2)]
  obtain ⟨hw1, _, _⟩ := radial_fold_sim o nc f m RM hnr (whiteRadials o.nt) (fun j hj => ((mem_wr j).mp hj).1) pw_wr st3.1 t4
    hs3' ht4own
  rw [hw1, hr1]

/-- the modelled class: constructor followed by one `extrapolatedSmoothing` -/
theorem exgive_run_eq_take (T : Tables) (o : Op K) (nc : Nat) (A : Admissible T o nc) (tiny : K → Bool)
    (f : Stencil.Field K) (x : Array K) (hx : x.size = o.nr * o.nt) :
    run T o tiny nc f x = some (ExSmootherCode.sweep o tiny nc f x) := by
  obtain ⟨m, hm⟩ := exgive_assemble_in_bounds T o nc A
  unfold run
  rw [hm, Option.map_some, exgive_sweep_eq_take_sweep T o nc A m hm tiny f x hx]

/-- (e) **refinement** (property clause "is identical for both strategies"): whatever the modelled
    `ExtrapolatedSmootherGive::extrapolatedSmoothing` returns satisfies the equations of the extrapolated sweep of
    `GMGModel/Smoother.lean` — the theorem `C07c.code_exsweep_isExSweep` transfers -/
theorem exgive_code_sweep_isExSweep (T : Tables) (o : Op K) (nc : Nat) (A : Admissible T o nc) (m : Mem K)
    (hm : assemble T o nc = some m) (tiny : K → Bool) (f : Stencil.Field K) (x y : Array K)
    (hx : x.size = o.nr * o.nt) (hl : C07c.ExLinesOK o nc) (hs : sweep o m tiny nc f x = some y) :
    IsExSweep o nc f (fld o.nt x) (fld o.nt y) := by
  have hnc := A.hnc
  rw [exgive_sweep_eq_take_sweep T o nc A m hm tiny f x hx] at hs
  exact C07c.code_exsweep_isExSweep o nc tiny f x y A.hnt A.heven (by omega) A.hnr A.hodd hx hl hs

/-- corollary (property clause 1): the scatter sweep returns the coarse nodes unchanged — exact equality -/
theorem exgive_code_sweep_coarse_fixed (T : Tables) (o : Op K) (nc : Nat) (A : Admissible T o nc) (m : Mem K)
    (hm : assemble T o nc = some m) (tiny : K → Bool) (f : Stencil.Field K) (x y : Array K)
    (hx : x.size = o.nr * o.nt) (hl : C07c.ExLinesOK o nc) (hs : sweep o m tiny nc f x = some y)
    (i j : Nat) (hi : i < o.nr) (hj : j < o.nt) (hc : coarseNode i j = true) :
    fld o.nt y i j = fld o.nt x i j :=
  C07.coarse_fixed o nc f _ _ (exgive_code_sweep_isExSweep T o nc A m hm tiny f x y hx hl hs) i j hi hj hc

/-- corollary (property clause 2): every fine-only node satisfies its row equation for the iterate after its own colour phase -/
theorem exgive_code_sweep_phase_colour (T : Tables) (o : Op K) (nc : Nat) (A : Admissible T o nc) (m : Mem K)
    (hm : assemble T o nc = some m) (tiny : K → Bool) (f : Stencil.Field K) (x y : Array K)
    (hx : x.size = o.nr * o.nt) (hl : C07c.ExLinesOK o nc) (hs : sweep o m tiny nc f x = some y)
    (i j : Nat) (hi : i < o.nr) (hj : j < o.nt) (hc : coarseNode i j = false) :
    take o f (mix nc (phase nc i j) (fld o.nt x) (fld o.nt y)) i j = 0 :=
  C07.ex_phase_colour o nc f _ _ (exgive_code_sweep_isExSweep T o nc A m hm tiny f x y hx hl hs) _ i j hi hj rfl hc

/-- the scatter sweep returns (no `std::exit`) when the `tiny` test never fires on the pivots of the innermost circle -/
theorem exgive_code_sweep_total (T : Tables) (o : Op K) (nc : Nat) (A : Admissible T o nc) (m : Mem K)
    (hm : assemble T o nc = some m) (tiny : K → Bool) (f : Stencil.Field K) (x : Array K) (hx : x.size = o.nr * o.nt)
    (ht : ∀ i, i < o.nt →
      tiny (SparseLU.den ((SparseLU.factorRows (ExSmootherCode.innerCSR o)).2.getD i []) i) = false) :
    ∃ y, sweep o m tiny nc f x = some y := by
  rw [exgive_sweep_eq_take_sweep T o nc A m hm tiny f x hx]
  exact C07c.code_exsweep_total o nc tiny f x ht

end AnyField

/-! ## 4  non-vacuity and sharpness -/

/-- the operator of `C07c` (across the origin, `nr = 7`, `nt = 4`, three circles, non-uniform antipodally symmetric angular
    spacing) is admissible -/
theorem exOp_admissible : Admissible genTables C07c.exOp 3 := by
  refine ⟨genTables_good, by decide, by decide, by decide, by decide, by decide, fun _ => by decide, ?_⟩
  intro _ j hj
  have : j < 4 := hj
  rcases (by omega : j = 0 ∨ j = 1 ∨ j = 2 ∨ j = 3) with rfl | rfl | rfl | rfl <;> simp [C07c.exOp, ja]

/-- … and the modelled give class returns on it the 28 rationals `C07c.exY` the take class returns -/
theorem exOp_run : run genTables C07c.exOp C07c.exTiny 3 C07c.exF C07c.exX = some (some C07c.exY) := by
  rw [exgive_run_eq_take genTables C07c.exOp 3 exOp_admissible C07c.exTiny C07c.exF C07c.exX (by decide),
    C07c.exY_spec]

/-- `3 ≤ nc` is sharp: with two circles the odd node `(1, 1)` gives to the row of `(0, 1)` through
    `circle_diagonal_solver_[0]`, which was never constructed (`assert(i_r > 1)` of the class "next to radial section") -/
theorem nc_two_out_of_bounds : (assemble genTables { C07c.exOp with bc := true } 2).isNone = true := by
  decide +kernel

/-- across the origin `nt` must be divisible by 4: with `nt = 6` the antipode of the odd node `(0, 1)` is the even node
    `(0, 4)`, whose row has a single slot — the store through `LeftStencil[Left]` (offset 1) leaves the row
    (`assert((ntheta / 2) % 2 == 0)`) -/
theorem nt_six_out_of_bounds : (assemble genTables { C07c.exOp with nt := 6 } 3).isNone = true := by
  decide +kernel

/-- the antipodal symmetry of the angular spacing is needed across the origin: with `k = (1, 1, 1, 2)` the assembly succeeds
    but the inner matrix is not the gather assembly's -/
theorem hk_needed :
    (assemble genTables { C07c.exOp with k := fun j => if j = 3 then 2 else 1 } 3).map
        (fun m => (innerCSR { C07c.exOp with k := fun j => if j = 3 then 2 else 1 } m).values)
      ≠ some (ExSmootherCode.innerCSR { C07c.exOp with k := fun j => if j = 3 then 2 else 1 }).values := by
  decide +kernel

/-- `nr` odd is needed: with `nr = 8` the row `i = 6 = nr - 2` of the even radial line `j = 0` is a coarse node that both
    assemblies treat as fine, but its left neighbour (odd `i`, even `j`) gives nothing to it in the scatter assembly -/
theorem nr_odd_needed :
    (assemble genTables { C07c.exOp with nr := 8 } 3).map (fun m => radialDiag m 0)
      ≠ some (ExSmootherCode.radialDiag { C07c.exOp with nr := 8 } 3 0) := by
  decide +kernel

end C07g
