import GMGModel.Options
import GMGProofs.Props.C18
/-!
# C20 — every option combination is either rejected cleanly or runs

Property theorems about the decision model `Options.classify` (tied to the real parser / `setup()` / `solve()` by the
correspondence check on random option tuples, each run in a child process).  The memory-safety part of the property for
the accepted runs rests on the in-bounds theorems of the modelled kernels (C17 index arithmetic, C18 grid generation, C09
interpolation reads) and, for code that is only spec-modelled, on sanitizer runs of the correspondence harnesses.
-/
namespace C20
open Options GridGen

/-- the model never predicts undefined behaviour: every option tuple ends in a usage exit, an exception or a run -/
theorem never_undefined (acc : List (Nat × Nat × Nat × Nat)) (r : Raw) (w : String) : classify acc r ≠ .undefined w := by
  intro h
  unfold classify at h
  split at h
  · cases h
  split at h
  · cases h
  split at h
  · cases h
  split at h
  · cases h
  rename_i hR
  split at h
  · cases h
  rename_i hN
  have h1 : r.R0 < r.Rmax := by
    simp at hR
    exact hR.2
  split at h
  · cases h
  · rename_i w' heq
    exact C18.generate_never_ub _ h1 (fun _ => by dsimp only; omega) _ heq
  · rename_i radii nt heq
    split at h
    · cases h
    · cases h
    · rename_i w' hl
      exact C18.levels_never_ub _ _ _ _ hl

/-- what a run guarantees about the options and the generated hierarchy -/
theorem runs_spec (acc : List (Nat × Nat × Nat × Nat)) (r : Raw) (L nr nt : Nat) (h : classify acc r = .runs L nr nt) :
    acc.contains (r.problem.toNat, r.geometry.toNat, r.alpha.toNat, r.beta.toNat) = true ∧
    (r.stencil = 0 → r.cacheCoef = true ∧ r.cacheGeo = true) ∧
    ∃ radii, generate ⟨r.R0, r.Rmax, r.nrExp, r.ntExp, r.alphaJump, r.aniso, r.div⟩ = .ok (radii, nt) ∧ radii.length = nr ∧
      chooseLevels nr nt r.maxLevels = .ok L := by
  unfold classify at h
  split at h
  · cases h
  split at h
  · cases h
  rename_i hacc
  split at h
  · cases h
  rename_i hst
  split at h
  · cases h
  split at h
  · cases h
  split at h
  · cases h
  · cases h
  · rename_i radii nt' hg
    split at h
    · rename_i L' hl
      cases h
      refine ⟨by simpa using hacc, ?_, radii, hg, rfl, hl⟩
      intro h0
      simp only [h0, beq_self_eq_true, Bool.true_and, Bool.not_eq_true, Bool.not_eq_false, Bool.and_eq_true] at hst
      simpa using hst
    · cases h
    · cases h

/-- an accepted run has at least two levels, every level but the coarsest can be coarsened (odd `nr`, `nt` divisible by 4),
    the coarsest still has `nr ≥ 5`, `nt ≥ 4`, and the radii are positive and strictly increasing -/
theorem accepted_safe (acc : List (Nat × Nat × Nat × Nat)) (r : Raw) (L nr nt : Nat) (h : classify acc r = .runs L nr nt) :
    2 ≤ L ∧ (∀ l, l + 1 < L → GridGenL.coarsenR l nr % 2 = 1 ∧ GridGenL.coarsenT l nt % 4 = 0) ∧
    5 ≤ GridGenL.coarsenR (L - 1) nr ∧ 4 ≤ GridGenL.coarsenT (L - 1) nt ∧ 2 ≤ nr ∧ nt % 2 = 0 := by
  obtain ⟨_, _, radii, hg, hlen, hl⟩ := runs_spec acc r L nr nt h
  obtain ⟨h2, hlev, hc1, hc2⟩ := C18.levels_admissible nr nt r.maxLevels L hl
  obtain ⟨hr2, _, _, _, hnt⟩ := C18.generate_ok_shape _ radii nt hg
  exact ⟨h2, hlev, hc1, hc2, by omega, hnt⟩

/-- the take strategy without both caches is rejected by `setup()` (when the options are otherwise well formed) -/
theorem take_needs_caches (acc : List (Nat × Nat × Nat × Nat)) (r : Raw) (h0 : r.stencil = 0) (hc : (r.cacheCoef && r.cacheGeo) = false) :
    classify acc r = .usageExit ∨ classify acc r = .rejected "params" ∨ classify acc r = .rejected "setup" := by
  unfold classify
  split
  · left; rfl
  split
  · right; left; rfl
  · right; right
    simp [h0, hc]

/-- an enumeration value outside its range ends in the parser's usage exit -/
theorem invalid_enum_usage (acc : List (Nat × Nat × Nat × Nat)) (r : Raw)
    (h : ¬ (0 ≤ r.extrapolation ∧ r.extrapolation ≤ 3) ∨ ¬ (0 ≤ r.cycle ∧ r.cycle ≤ 2) ∨ ¬ (0 ≤ r.stencil ∧ r.stencil ≤ 1) ∨
         ¬ (0 ≤ r.geometry ∧ r.geometry ≤ 3)) :
    classify acc r = .usageExit := by
  unfold classify
  split
  · rfl
  · rename_i hh
    exfalso
    simp [inRange] at hh
    omega

example : classify [(0, 0, 0, 0)] ⟨0, 0, 0, 0, 0, 0, 0, 0, 1, true, true, 1/100000, 13/10, 0, 4, -1, 0, 0, -1⟩ = .runs 3 17 32 := by decide +kernel

end C20
