import GMGProofs.Lemmas.SparseLULemmas
import GMGProofs.Lemmas.SparseLUPivots
/-!
# C16 — sparse LU without pivoting solves every system with non-vanishing pivots, any storage order

Property theorems only.  Model: `GMGModel/SparseLU.lean` (transcribes `csr_matrix.h` constructors and
`sparseLUSolver.h:145-245`).  `K` is an arbitrary field (`Scalar K` through `instScalarField`); the
finite-map lemmas hold for every scalar type.  `std::unordered_map` iteration order is the list order
of a `Row`; no theorem depends on it.
-/
namespace C16
open SparseLU Finset

/-! ## (a) the finite map -/
section Maps
variable {α : Type} [Scalar α]

/-- `find` after `map[k] = v` (any list, even with repeated keys) -/
theorem get_set (r : Row α) (k k' : Nat) (v : α) :
    get (set r k v) k' = if k' = k then some v else get r k' := SparseLU.get_set r k k' v

/-- `operator[]` after `map[k] = v` -/
theorem den_set (r : Row α) (k k' : Nat) (v : α) :
    den (set r k v) k' = if k' = k then v else den r k' := SparseLU.den_set r k k' v

/-- `map[k] = v` never creates a second entry for a key -/
theorem uniq_set {r : Row α} (hu : Uniq r) (k : Nat) (v : α) : Uniq (set r k v) := SparseLU.uniq_set hu k v

/-- the key set after `map[k] = v` -/
theorem keys_set (r : Row α) (k : Nat) (v : α) :
    keys (set r k v) = if k ∈ keys r then keys r else keys r ++ [k] := SparseLU.keys_set r k v

/-- a missing key reads as `T()` -/
theorem den_absent {r : Row α} {k : Nat} (h : k ∉ keys r) : den r k = Scalar.n 0 := den_of_not_mem h

/-- with unique keys `find` returns exactly the stored pairs -/
theorem get_eq_some_iff {r : Row α} (hu : Uniq r) {k : Nat} {v : α} :
    get r k = some v ↔ (k, v) ∈ r := SparseLU.get_eq_some_iff hu

/-- splitting a row into its L part / U part (`filter` on the key) -/
theorem den_filter (r : Row α) (p : Nat → Bool) (k : Nat) :
    den (r.filter (fun e => p e.1)) k = if p k then den r k else Scalar.n 0 := SparseLU.den_filter r p k

/-- the working row loaded from CSR storage has unique keys whatever the stored pattern -/
theorem uniq_loadRow {K : Type} [Field K] (A : CSR K) (i : Nat) : Uniq (loadRow A i) :=
  SparseLU.uniq_loadRow A i

end Maps

variable {K : Type} [Field K]

/-! ## (b) one elimination step, densely -/

/-- dense semantics of `elimStep`: column `j` becomes the multiplier, columns `> j` get the update
    (also on the skip branch `find(j) == end`, where the multiplier is `0`) -/
theorem elimStep_den (Uj : Row K) (hu : Uniq Uj) (j : Nat) (row : Row K) (k : Nat) :
    den (elimStep Uj j row) k =
      if k = j then den row j / den Uj j
      else if j < k then den row k - (den row j / den Uj j) * den Uj k else den row k :=
  SparseLU.elimStep_den Uj hu j row k

/-- fill-in keeps the keys of the working row unique -/
theorem elimStep_uniq (Uj : Row K) (j : Nat) (row : Row K) (h : Uniq row) : Uniq (elimStep Uj j row) :=
  uniq_elimStep Uj j row h

/-- the map-level row elimination computes the dense recurrence `elim` of probe E12 -/
theorem elimRow_is_elim (U : List (Row K)) (row : Row K) (i : Nat)
    (hU : ∀ m, m < i → Uniq (U.getD m [])) (k : Nat) :
    den (elimRow U i row) k = elim (fun m k => den (U.getD m []) k) i (den row) k :=
  elimRow_den U row i hU k

/-! ## (c) the row invariant -/

/-- after eliminating columns `0 … i-1` of `row` against `U₀ … U_{i-1}` (pivots `≠ 0`):
    `row = Σ_{m<i} l_m · (upper part of U_m) + (remaining part of the working row)`,
    `l_m` = entry `m` of the eliminated row -/
theorem lu_row_invariant (U : List (Row K)) (row : Row K) (i : Nat)
    (hU : ∀ m, m < i → Uniq (U.getD m []))
    (hp : ∀ m, m < i → den (U.getD m []) m ≠ 0) (k : Nat) :
    den row k = ∑ m ∈ range i, den (elimRow U i row) m * (if m ≤ k then den (U.getD m []) k else 0)
      + (if i ≤ k then den (elimRow U i row) k else 0) := by
  have h := elim_invariant (denU U) (den row) i hp k
  simp only [← elimRow_den U row i hU] at h
  exact h

/-! ## (d) L·U = A -/

/-- `A = L·U` entrywise, `L` strictly lower (unit diagonal implicit), `U` upper triangular.
    Holds for every column index `k` (also beyond `A.rows`). -/
theorem lu_product (A : CSR K)
    (hp : ∀ i, i < A.rows → den ((factorRows A).2.getD i []) i ≠ 0) :
    (∀ i k, i < A.rows →
      toDense A i k = ∑ m ∈ range i, den ((factorRows A).1.getD i []) m * den ((factorRows A).2.getD m []) k
        + den ((factorRows A).2.getD i []) k) ∧
    (∀ i k, k < i → den ((factorRows A).2.getD i []) k = 0) ∧
    (∀ i m, i ≤ m → den ((factorRows A).1.getD i []) m = 0) ∧
    (factorRows A).1.length = A.rows ∧ (factorRows A).2.length = A.rows :=
  ⟨fun i k hi => lu_product_row A hp i k hi, U_upper A, L_lower A,
   (factorRows_length A).1, (factorRows_length A).2⟩

/-- the rows of the stored factors are proper maps -/
theorem factor_uniq (A : CSR K) (i : Nat) :
    Uniq ((factorRows A).1.getD i []) ∧ Uniq ((factorRows A).2.getD i []) := ⟨uniq_L A i, uniq_U A i⟩

/-! ## (e) the solve -/

/-- forward substitution: `y + L y = b` (unit lower triangular system) -/
theorem fwdSolve_correct (A : CSR K) (b : List K) (hb : b.length = A.rows) :
    (fwdSolve (factorRows A).1 b).length = A.rows ∧
    ∀ i, i < A.rows → vget (fwdSolve (factorRows A).1 b) i
      + ∑ m ∈ range i, den ((factorRows A).1.getD i []) m * vget (fwdSolve (factorRows A).1 b) m
      = vget b i := fwdSolve_spec A b hb

/-- backward substitution: `U x = y` whenever the `std::exit` branch is not taken -/
theorem bwdSolve_correct (tiny : K → Bool) (A : CSR K)
    (hp : ∀ i, i < A.rows → den ((factorRows A).2.getD i []) i ≠ 0)
    (y x : List K) (hy : y.length = A.rows)
    (hs : bwdSolve tiny (factorRows A).2 A.rows y = some x) :
    x.length = A.rows ∧
    ∀ j, j < A.rows → ∑ k ∈ range A.rows, den ((factorRows A).2.getD j []) k * vget x k = vget y j :=
  bwdSolve_spec tiny A hp y x hy hs

/-- what `mulDense` computes: the dense matrix-vector product (columns `≥ x.length` read `0`) -/
theorem mulDense_spec (A : CSR K) (x : List K) (i : Nat) (hi : i < A.rows) :
    vget (mulDense A x) i = ∑ k ∈ range x.length, toDense A i k * vget x k := vget_mulDense A x i hi

/-- non-vanishing pivots and no error outcome ⇒ the computed vector solves `A x = b`,
    for every test `tiny`, every storage order, stored zeros, repeated columns (last one wins) -/
theorem lu_solve (tiny : K → Bool) (A : CSR K)
    (hp : ∀ i, i < A.rows → den ((factorRows A).2.getD i []) i ≠ 0)
    (b x : List K) (hb : b.length = A.rows)
    (hs : solve tiny (factorRows A) b = some x) : mulDense A x = b :=
  lu_solve_vget tiny A hp b x hb hs

/-- the error outcome (`std::exit`) occurs exactly when some pivot passes the `tiny` test — finding F7:
    with `tiny d := |d| < 1e-12` a matrix with non-zero pivots can still exit -/
theorem solve_exit_iff (tiny : K → Bool) (A : CSR K) (b : List K) :
    solve tiny (factorRows A) b = none ↔
      ∃ j, j < A.rows ∧ tiny (den ((factorRows A).2.getD j []) j) = true := solve_none_iff tiny A b

/-- total form: non-zero pivots none of which is `tiny` ⇒ a solution is returned and it is correct -/
theorem lu_solve_total (tiny : K → Bool) (A : CSR K)
    (hp : ∀ i, i < A.rows → den ((factorRows A).2.getD i []) i ≠ 0)
    (ht : ∀ i, i < A.rows → tiny (den ((factorRows A).2.getD i []) i) = false)
    (b : List K) (hb : b.length = A.rows) :
    ∃ x, solve tiny (factorRows A) b = some x ∧ mulDense A x = b := by
  cases hs : solve tiny (factorRows A) b with
  | none =>
      obtain ⟨j, hj, h⟩ := (solve_none_iff tiny A b).mp hs
      rw [ht j hj] at h; exact absurd h (by simp)
  | some x => exact ⟨x, rfl, lu_solve tiny A hp b x hb hs⟩

/-! ## (f) storage order, explicit zeros, several right-hand sides -/

/-- a map row read in any storage order has the same dense meaning -/
theorem den_perm {r r' : Row K} (hu : Uniq r) (hp : r.Perm r') (k : Nat) : den r k = den r' k :=
  SparseLU.den_perm hu hp k

/-- without repeated columns the working row is the stored (column, value) list itself -/
theorem loadRow_eq_rowEntries (A : CSR K) (i : Nat) (h : Uniq (rowEntries A i)) :
    loadRow A i = rowEntries A i := SparseLU.loadRow_eq_rowEntries A i h

/-- permuting the stored entries of a row and inserting explicit zeros leaves `toDense` unchanged -/
theorem toDense_perm (A B : CSR K) (i : Nat) (zs : Row K)
    (hB : Uniq (rowEntries B i))
    (hperm : (rowEntries B i).Perm (rowEntries A i ++ zs))
    (hz : ∀ e ∈ zs, e.2 = 0) (k : Nat) : toDense B i k = toDense A i k := by
  have hA : Uniq (rowEntries A i) := by
    have h1 : Uniq (rowEntries A i ++ zs) := by
      unfold Uniq keys at *; exact (hperm.map _).nodup_iff.mp hB
    unfold Uniq keys at *
    rw [List.map_append] at h1
    exact h1.of_append_left
  unfold toDense
  rw [SparseLU.loadRow_eq_rowEntries B i hB, SparseLU.loadRow_eq_rowEntries A i hA]
  exact den_perm_zeros _ _ zs hB hperm hz k

/-- `solveInPlace` is `const` on the factorisation: solving `b₁` first does not change what `b₂` gives
    (the model is a pure function of the stored factors; documentation theorem) -/
theorem multi_rhs (tiny : K → Bool) (LU : List (Row K) × List (Row K)) (b₁ b₂ : List K) :
    let after := (LU, solve tiny LU b₁)
    solve tiny after.1 b₂ = solve tiny LU b₂ := rfl

/-! ## (g) strictly diagonally dominant rows -/
section SDD
variable {F : Type} [Field F] [LinearOrder F] [IsStrictOrderedRing F]

/-- rows strictly diagonally dominant (over the columns `< N`, `A.rows ≤ N`; in particular over all
    `A.cols` columns of a square matrix) ⇒ every pivot is non-zero -/
theorem sdd_pivots (A : CSR F) (N : ℕ) (hN : A.rows ≤ N)
    (hsdd : ∀ i, i < A.rows →
      ∑ k ∈ range N, (if k = i then 0 else |toDense A i k|) < |toDense A i i|) :
    ∀ i, i < A.rows → den ((factorRows A).2.getD i []) i ≠ 0 :=
  fun i hi => (sdd_pivots_aux A N hN hsdd i hi).1

/-- … and the rows of `U` are again (weakly) dominated by their pivot -/
theorem sdd_U_dominant (A : CSR F) (N : ℕ) (hN : A.rows ≤ N)
    (hsdd : ∀ i, i < A.rows →
      ∑ k ∈ range N, (if k = i then 0 else |toDense A i k|) < |toDense A i i|) :
    ∀ i, i < A.rows → ∑ k ∈ Ico (i + 1) N, |den ((factorRows A).2.getD i []) k|
      ≤ |den ((factorRows A).2.getD i []) i| :=
  fun i hi => (sdd_pivots_aux A N hN hsdd i hi).2

/-- strictly diagonally dominant system: whenever `solveInPlace` returns, it returns the solution -/
theorem sdd_solve (tiny : F → Bool) (A : CSR F) (N : ℕ) (hN : A.rows ≤ N)
    (hsdd : ∀ i, i < A.rows →
      ∑ k ∈ range N, (if k = i then 0 else |toDense A i k|) < |toDense A i i|)
    (b x : List F) (hb : b.length = A.rows)
    (hs : solve tiny (factorRows A) b = some x) : mulDense A x = b :=
  lu_solve tiny A (sdd_pivots A N hN hsdd) b x hb hs

/-- the dominance hypothesis is satisfiable: `[[2,1],[1,2]]` -/
example : let A : CSR F := ⟨2, 2, [2, 1, 1, 2], [0, 1, 0, 1], [0, 2, 4]⟩
    ∀ i, i < A.rows → ∑ k ∈ range 2, (if k = i then 0 else |toDense A i k|) < |toDense A i i| := by
  intro A i hi
  have : i = 0 ∨ i = 1 := by simp [A] at hi; omega
  rcases this with h | h <;> subst h <;>
    simp [A, Finset.sum_range_succ, toDense, loadRow, List.range_succ, SparseLU.set, den, SparseLU.get,
      List.find?]

end SDD

/-! ## non-vacuity -/

example : factorRows (exA : CSR K) = ([[], [(0,1)]], [[(1,1),(0,1)],[(1,1)]]) := by
  simp [exA, factorRows, CSR.ofTriplets, rowStarts, skipRow, List.range_succ, elimRow, loadRow,
    SparseLU.set, elimStep, SparseLU.get, den, List.find?]

/-- the hypotheses of `lu_product` / `lu_solve` are satisfiable and the solve does not exit -/
example (b0 b1 : K) :
    (∀ i, i < (exA : CSR K).rows → den ((factorRows (exA : CSR K)).2.getD i []) i ≠ 0) ∧
    solve (fun _ => false) (factorRows (exA : CSR K)) [b0, b1] = some [b0 - (b1 - b0), b1 - b0] := by
  have hf : factorRows (exA : CSR K) = ([[], [(0,1)]], [[(1,1),(0,1)],[(1,1)]]) := by
    simp [exA, factorRows, CSR.ofTriplets, rowStarts, skipRow, List.range_succ, elimRow, loadRow,
      SparseLU.set, elimStep, SparseLU.get, den, List.find?]
  rw [hf]
  constructor
  · intro i hi
    have : i = 0 ∨ i = 1 := by simp [exA, CSR.ofTriplets] at hi; omega
    rcases this with h | h <;> subst h <;> simp [den, SparseLU.get, List.find?]
  · simp [solve, fwdSolve, bwdSolve, bwdRow, vget, List.range_succ]

/-- `toDense_perm` instance: `[(0,2),(2,5)]` against `[(2,5),(1,0),(0,2)]` -/
example (k : Nat) :
    toDense (⟨1, 3, [5, 0, 1+1], [2, 1, 0], [0, 3]⟩ : CSR K) 0 k
      = toDense (⟨1, 3, [1+1, 5], [0, 2], [0, 2]⟩ : CSR K) 0 k := by
  apply toDense_perm _ _ 0 [(1, 0)]
  · simp [rowEntries, Uniq, keys, List.range_succ]
  · simp [rowEntries, List.range_succ]
    exact ((List.Perm.swap _ _ _).cons _).trans (List.Perm.swap _ _ _)
  · simp

/-! ## (h) injective leading principal blocks: no zero pivot without any dominance -/

/-- the row identity of `lu_product` for row `i` needs the pivots `m < i` only -/
theorem lu_product_row_of_lt (A : CSR K) (i k : Nat) (hi : i < A.rows)
    (hp : ∀ m, m < i → den ((factorRows A).2.getD m []) m ≠ 0) :
    toDense A i k = ∑ m ∈ range i, den ((factorRows A).1.getD i []) m * den ((factorRows A).2.getD m []) k
        + den ((factorRows A).2.getD i []) k := SparseLU.lu_product_row_of_lt A i k hi hp

/-- if every leading principal block of `A` is injective, the elimination without pivoting never meets a
    zero pivot (no hypothesis on `A.cols`, the stored pattern or the storage order) -/
theorem pivots_of_leading_injective (A : CSR K)
    (hinj : ∀ k, k < A.rows → ∀ x : ℕ → K,
      (∀ i, i ≤ k → ∑ m ∈ range (k + 1), toDense A i m * x m = 0) → ∀ m, m ≤ k → x m = 0) :
    ∀ i, i < A.rows → den ((factorRows A).2.getD i []) i ≠ 0 :=
  pivots_of_leading_injective_aux A hinj

/-- … hence whenever `solveInPlace` returns, it returns the solution -/
theorem leading_injective_solve (tiny : K → Bool) (A : CSR K)
    (hinj : ∀ k, k < A.rows → ∀ x : ℕ → K,
      (∀ i, i ≤ k → ∑ m ∈ range (k + 1), toDense A i m * x m = 0) → ∀ m, m ≤ k → x m = 0)
    (b x : List K) (hb : b.length = A.rows)
    (hs : solve tiny (factorRows A) b = some x) : mulDense A x = b :=
  lu_solve tiny A (pivots_of_leading_injective A hinj) b x hb hs

/-- the hypothesis matters: `[[0,1],[1,0]]` is invertible, its leading 1×1 block is singular, and the first
    pivot IS zero (the code would divide by it / exit) -/
theorem zero_pivot_of_singular_leading_block :
    let A : CSR K := ⟨2, 2, [1, 1], [1, 0], [0, 1, 2]⟩
    (∀ x : ℕ → K, (∀ i, i < 2 → ∑ m ∈ range 2, toDense A i m * x m = 0) → ∀ m, m < 2 → x m = 0) ∧
    den ((factorRows A).2.getD 0 []) 0 = 0 := by
  intro A
  have d00 : toDense A 0 0 = 0 := by
    simp [A, toDense, loadRow, List.range_succ, SparseLU.set, den, SparseLU.get, List.find?]
  have d01 : toDense A 0 1 = 1 := by
    simp [A, toDense, loadRow, List.range_succ, SparseLU.set, den, SparseLU.get]
  have d10 : toDense A 1 0 = 1 := by
    simp [A, toDense, loadRow, List.range_succ, SparseLU.set, den, SparseLU.get]
  have d11 : toDense A 1 1 = 0 := by
    simp [A, toDense, loadRow, List.range_succ, SparseLU.set, den, SparseLU.get, List.find?]
  constructor
  · intro x hx m hm
    have h0 := hx 0 (by omega)
    have h1 := hx 1 (by omega)
    simp only [Finset.sum_range_succ, Finset.sum_range_zero, d00, d01, d10, d11] at h0 h1
    have : m = 0 ∨ m = 1 := by omega
    rcases this with h | h <;> subst h
    · simpa using h1
    · simpa using h0
  · simp [A, factorRows, List.range_succ, elimRow, loadRow, SparseLU.set, den, SparseLU.get, List.find?]

section PD
variable {F : Type} [Field F] [LinearOrder F] [IsStrictOrderedRing F]

/-- a positive definite quadratic form (symmetry not needed) ⇒ every pivot is non-zero -/
theorem pd_pivots (A : CSR F)
    (hpd : ∀ x : ℕ → F, (∃ m, m < A.rows ∧ x m ≠ 0) → (∀ m, A.rows ≤ m → x m = 0) →
      0 < ∑ i ∈ range A.rows, x i * ∑ m ∈ range A.rows, toDense A i m * x m) :
    ∀ i, i < A.rows → den ((factorRows A).2.getD i []) i ≠ 0 :=
  pivots_of_leading_injective A (leading_injective_of_pd A hpd)

/-- non-vacuity: `[[1,2],[1,1]]` is NOT diagonally dominant (row 0), its leading blocks are injective,
    and its pivots are `1, -1` -/
example : let A : CSR F := ⟨2, 2, [1, 2, 1, 1], [0, 1, 0, 1], [0, 2, 4]⟩
    (∀ k, k < A.rows → ∀ x : ℕ → F,
      (∀ i, i ≤ k → ∑ m ∈ range (k + 1), toDense A i m * x m = 0) → ∀ m, m ≤ k → x m = 0) ∧
    ¬ (∀ i, i < A.rows → ∑ k ∈ range 2, (if k = i then 0 else |toDense A i k|) < |toDense A i i|) ∧
    den ((factorRows A).2.getD 0 []) 0 = 1 ∧ den ((factorRows A).2.getD 1 []) 1 = -1 := by
  intro A
  have d00 : toDense A 0 0 = 1 := by
    simp [A, toDense, loadRow, List.range_succ, SparseLU.set, den, SparseLU.get]
  have d01 : toDense A 0 1 = 2 := by
    simp [A, toDense, loadRow, List.range_succ, SparseLU.set, den, SparseLU.get, List.find?]
  have d10 : toDense A 1 0 = 1 := by
    simp [A, toDense, loadRow, List.range_succ, SparseLU.set, den, SparseLU.get]
  have d11 : toDense A 1 1 = 1 := by
    simp [A, toDense, loadRow, List.range_succ, SparseLU.set, den, SparseLU.get, List.find?]
  refine ⟨?_, ?_, ?_, ?_⟩
  · intro k hk x hx m hm
    have hk' : k = 0 ∨ k = 1 := by simp [A] at hk; omega
    rcases hk' with h | h <;> subst h
    · have h0 := hx 0 (le_refl _)
      simp only [Finset.sum_range_succ, Finset.sum_range_zero, d00] at h0
      have : m = 0 := by omega
      subst this; simpa using h0
    · have h0 := hx 0 (by omega)
      have h1 := hx 1 (by omega)
      simp only [Finset.sum_range_succ, Finset.sum_range_zero, d00, d01, d10, d11] at h0 h1
      have hx1 : x 1 = 0 := by linarith
      have hx0 : x 0 = 0 := by linarith
      have : m = 0 ∨ m = 1 := by omega
      rcases this with h | h <;> subst h <;> assumption
  · intro h
    have := h 0 (by simp [A])
    simp [Finset.sum_range_succ, d00, d01] at this
  · simp [A, factorRows, List.range_succ, elimRow, loadRow, SparseLU.set, elimStep, den, SparseLU.get,
      List.find?]
  · simp [A, factorRows, List.range_succ, elimRow, loadRow, SparseLU.set, elimStep, den, SparseLU.get,
      List.find?]
    norm_num

end PD

end C16
