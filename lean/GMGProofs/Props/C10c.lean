import GMGModel.Concrete
import GMGProofs.Props.C10
import GMGProofs.Props.C06d
import GMGProofs.Props.C04c
import GMGProofs.Lemmas.Concrete1
import GMGProofs.Lemmas.Concrete3
/-!
# C10 (the whole cycle inside the model) — composition of the code-level models through the control-flow IR

`GMGModel/Concrete.lean` instantiates the abstract operators of `MGCycle.Ops` with the code-level models (smoothers,
residual, transfers, coarse direct solver, vector kernels).  Theorems:
* the strict association-list interpreter the driver runs computes exactly what the interpreter of the C10 theorems
  (`MGCycle.exec` over a function memory) computes;
* the capstone: on a two-level hierarchy with a Dirichlet inner boundary and elliptic data, a V-, W- or F-cycle of the
  CONCRETE model (assembled line matrices, LDLᵀ line solves, sparse LU coarse solve, bilinear transfers) started from the
  exact discrete solution returns it — C10's first clause for the code-level models, obtained by composing
  `C10.exact_fixed_exec`, `C06d.code_sweep_isSweep_dirichlet`, `C06.sweep_unique_dirichlet` and the linearity of the
  transfer and direct-solver models.
Property theorems only; helper lemmas in `GMGProofs/Lemmas/Concrete*.lean`.
-/
namespace C10c
open MGCycle Concrete Stencil

/-! ## 1  the strict interpreter is the interpreter -/

/-- reading the association-list memory after `execL` gives what `exec` gives on the function memory `d` -/
theorem execL_eq_exec {V : Type} (o : Ops V) (d : Ref → V) (p : List Instr) (r : Ref) :
    (execL o d p []).get d r = exec o p d r :=
  congrFun (execL_den o d p []) r

/-- what the driver computes is the level-0 solution of `Concrete.cycle` -/
theorem cycleL_eq_cycle {α : Type} [Scalar α] (H : Hier α) (c : Cfg) (k : Kind) (ex fgs : Bool) (d : Ref → Option (Array α)) :
    cycleL H c k ex fgs d = cycle H c k ex fgs d (0, Buf.sol) :=
  execL_eq_exec (ops H) d (cycleAt c k ex fgs 0) (0, Buf.sol)

/-! ## 2  capstone: the exact discrete solution is a fixed point of the concrete two-level cycle -/

section Ordered
variable {K : Type} [_root_.Field K] [LinearOrder K] [IsStrictOrderedRing K]

/-- admissible two-level hierarchy, Dirichlet inner boundary, elliptic data on the fine level; the `tiny` test of the sparse LU
    fires neither on 1 (identity rows) nor on the pivots of the coarse matrix.
    Satisfiable: `exH_twoLevel` below.  The fields `pairs`, `pairF`, `shape1` and the conjunct `… ≠ 0` of `coarse_ok` describe
    the hierarchy `setup()` builds but are NOT used by the proof of `concrete_exact_fixed` (zero goes to zero through every
    transfer pair and every shape, and `0 / pivot = 0`); `concrete_exact_fixed_lvl` is the statement without them. -/
structure TwoLevel (H : Hier K) (L0 L1 : LevelData K) (P : Interp.Pair K) : Prop where
  levels : H.levels = [L0, L1]
  pairs : H.pairs = [P]
  nt0 : 4 ≤ L0.op.nt
  even0 : L0.op.nt % 2 = 0
  nc0 : 2 ≤ L0.nc
  nr0 : L0.nc + 3 ≤ L0.op.nr
  bc0 : L0.op.bc = true
  ell0 : Elliptic L0.op
  pairF : P.nrF = L0.op.nr ∧ P.ntF = L0.op.nt
  shape1 : L1.op.nr = (L0.op.nr + 1) / 2 ∧ L1.op.nt = L0.op.nt / 2
  nr1 : 4 ≤ L1.op.nr
  tiny1 : H.tiny 1 = false
  tables : H.tables = C04c.genTables
  coarse_ok : ∀ M, DirectCode.assemble H.tables L1.op = some M →
    ∀ r, r < M.rows → H.tiny (SparseLU.den ((SparseLU.factorRows M).2.getD r []) r) = false ∧
                      SparseLU.den ((SparseLU.factorRows M).2.getD r []) r ≠ 0

/-- the same statement with only the hypotheses the proof uses, phrased through `lvl H 0` / `lvl H 1`: level 0 has a Dirichlet
    inner boundary, elliptic data and an admissible circle/radial split; the coarse assembly stays in bounds and the `tiny`
    test fires neither on 1 nor on a coarse pivot.  No assumption on `H.pairs`, on the shape of level 1, on further levels
    of the list, or that the coarse pivots are nonzero (zero goes to zero through every link of the chain). -/
theorem concrete_exact_fixed_lvl (H : Hier K) (k : Kind) (nu1 nu2 : Nat) (fgs : Bool) (u f : Array K)
    (hnt : 4 ≤ (lvl H 0).op.nt) (heven : (lvl H 0).op.nt % 2 = 0) (hnc : 2 ≤ (lvl H 0).nc)
    (hnr : (lvl H 0).nc + 3 ≤ (lvl H 0).op.nr) (hbc : (lvl H 0).op.bc = true) (he : Elliptic (lvl H 0).op)
    (ht1 : H.tiny 1 = false)
    (M : SparseLU.CSR K) (hM : DirectCode.assemble H.tables (lvl H 1).op = some M)
    (ht : ∀ r, r < M.rows → H.tiny (SparseLU.den ((SparseLU.factorRows M).2.getD r []) r) = false)
    (hu : u.size = (lvl H 0).op.nr * (lvl H 0).op.nt)
    (hsol : ∀ i j, i < (lvl H 0).op.nr → j < (lvl H 0).op.nt →
      take (lvl H 0).op (SmootherCode.fld (lvl H 0).op.nt f) (SmootherCode.fld (lvl H 0).op.nt u) i j = 0)
    (m : Mem (Option (Array K))) (hm : m (0, Buf.sol) = some u) (hr : m (0, Buf.rhs) = some f) :
    cycle H ⟨2, nu1, nu2⟩ k false fgs m (0, Buf.sol) = some u := by
  have E : ExactData (ops H) ⟨2, nu1, nu2⟩ 0 (m (0, Buf.sol)) (m (0, Buf.rhs)) := by
    rw [hm, hr]
    exact exactData_twoLevel H nu1 nu2 u f hnt heven hnc hnr hbc he ht1 M hM ht hu hsol
  unfold cycle
  rw [C10.exact_fixed_exec (ops H) ⟨2, nu1, nu2⟩ k fgs m (Nat.le_refl 1) E, hm]

set_option linter.unusedVariables false in
/-- **the concrete cycle leaves the exact discrete solution alone** (V, W or F; any smoothing counts).
    (`hf` is not used: the model reads vectors with a default, so the size of `f` does not matter.) -/
theorem concrete_exact_fixed (H : Hier K) (L0 L1 : LevelData K) (P : Interp.Pair K) (h : TwoLevel H L0 L1 P)
    (k : Kind) (nu1 nu2 : Nat) (fgs : Bool) (u f : Array K)
    (hu : u.size = L0.op.nr * L0.op.nt) (hf : f.size = L0.op.nr * L0.op.nt)
    (hsol : ∀ i j, i < L0.op.nr → j < L0.op.nt →
      take L0.op (SmootherCode.fld L0.op.nt f) (SmootherCode.fld L0.op.nt u) i j = 0)
    (m : Mem (Option (Array K))) (hm : m (0, Buf.sol) = some u) (hr : m (0, Buf.rhs) = some f) :
    cycle H ⟨2, nu1, nu2⟩ k false fgs m (0, Buf.sol) = some u := by
  have hl0 : lvl H 0 = L0 := by unfold lvl; rw [h.levels]; rfl
  have hl1 : lvl H 1 = L1 := by unfold lvl; rw [h.levels]; rfl
  obtain ⟨M, hM⟩ : ∃ M, DirectCode.assemble H.tables (lvl H 1).op = some M := by
    rw [hl1, h.tables]; exact C04c.assemble_in_bounds L1.op h.nr1
  have ht : ∀ r, r < M.rows → H.tiny (SparseLU.den ((SparseLU.factorRows M).2.getD r []) r) = false :=
    fun r hr' => (h.coarse_ok M (by rw [← hl1]; exact hM) r hr').1
  refine concrete_exact_fixed_lvl H k nu1 nu2 fgs u f ?_ ?_ ?_ ?_ ?_ ?_ h.tiny1 M hM ht ?_ ?_ m hm hr
  all_goals rw [hl0]
  exacts [h.nt0, h.even0, h.nc0, h.nr0, h.bc0, h.ell0, hu, hsol]

end Ordered

/-! ## non-vacuity: a hierarchy over ℚ that satisfies every field of `TwoLevel`, and an exact solution that is not zero -/

/-- fine level 7 × 8 (two smoother circles), non-uniform spacings, a genuinely mixed coefficient -/
def exL0 : LevelData ℚ :=
  ⟨{ nr := 7, nt := 8, bc := true, r0 := 1 / 10, h := fun i => 1 + i, k := fun j => 1 + j,
     arr := fun i j => 1 + i + j, att := fun i j => 2 + i * j, art := fun _ _ => 1,
     det := fun i _ => 1 + i, beta := fun i => i }, 2⟩

/-- coarse level 4 × 4 -/
def exL1 : LevelData ℚ :=
  ⟨{ nr := 4, nt := 4, bc := true, r0 := 1 / 10, h := fun i => 2 + i, k := fun j => 2 + j,
     arr := fun i j => 1 + i + j, att := fun i j => 2 + i * j, art := fun _ _ => 1,
     det := fun i _ => 1 + i, beta := fun i => i }, 1⟩

def exP : Interp.Pair ℚ := ⟨7, 8, fun i => 1 + i, fun j => 1 + j, fun i => 2 + i, fun j => 2 + j⟩

/-- the `abs(pivot) < 1e-12` test, the generated offset tables -/
def exH : Hier ℚ := ⟨[exL0, exL1], [exP], C06c.exTiny, C04c.genTables⟩

theorem exL0_elliptic : Elliptic exL0.op where
  h_pos := fun i _ => by simp only [exL0]; positivity
  k_pos := fun j _ => by simp only [exL0]; positivity
  arr_pos := fun i j _ _ => by simp only [exL0]; positivity
  att_pos := fun i j _ _ => by simp only [exL0]; positivity
  art_le := fun i j _ _ => by
    simp only [exL0]
    have hi : (0 : ℚ) ≤ i := Nat.cast_nonneg i
    have hj : (0 : ℚ) ≤ j := Nat.cast_nonneg j
    nlinarith [mul_nonneg hi hj, mul_nonneg (mul_nonneg hi hj) hi, mul_nonneg (mul_nonneg hi hj) hj]
  beta_nonneg := fun i _ => by simp only [exL0]; positivity
  det_nonneg := fun i j _ _ => by simp only [exL0]; positivity

/-- the 16 pivots of the coarse matrix, evaluated exactly: none is tiny, none is zero -/
theorem exH_pivots :
    (DirectCode.assemble C04c.genTables exL1.op).all (fun M => (List.range M.rows).all fun r =>
      !C06c.exTiny (SparseLU.den ((SparseLU.factorRows M).2.getD r []) r) &&
        decide (SparseLU.den ((SparseLU.factorRows M).2.getD r []) r ≠ 0)) = true := by
  decide +kernel

/-- **`TwoLevel` is satisfiable** (every field, as stated) -/
theorem exH_twoLevel : TwoLevel exH exL0 exL1 exP where
  levels := rfl
  pairs := rfl
  nt0 := by decide
  even0 := by decide
  nc0 := by decide
  nr0 := by decide
  bc0 := rfl
  ell0 := exL0_elliptic
  pairF := ⟨rfl, rfl⟩
  shape1 := ⟨by decide, by decide⟩
  nr1 := by decide
  tiny1 := by decide +kernel
  tables := rfl
  coarse_ok := by
    intro M hM r hr
    have h := exH_pivots
    rw [show DirectCode.assemble C04c.genTables exL1.op = some M from hM] at h
    simp only [Option.all_some, List.all_eq_true, List.mem_range, Bool.and_eq_true, Bool.not_eq_true',
      decide_eq_true_eq] at h
    exact h r hr

/-- a field that is not zero and its right-hand side `f := A u` -/
def exU : Array ℚ := SmootherCode.ofField 7 8 fun i j => 1 + (i : ℚ) * i - 3 * j
def exF : Array ℚ := SmootherCode.ofField 7 8 (A exL0.op (SmootherCode.fld 8 exU))

/-- the capstone applies to it: all hypotheses of `concrete_exact_fixed` hold jointly, for a solution with non-zero entries and a
    non-zero right-hand side -/
example (k : Kind) (nu1 nu2 : Nat) (fgs : Bool) (m : Mem (Option (Array ℚ)))
    (hm : m (0, Buf.sol) = some exU) (hr : m (0, Buf.rhs) = some exF) :
    cycle exH ⟨2, nu1, nu2⟩ k false fgs m (0, Buf.sol) = some exU ∧ exU[10]? = some (-4 : ℚ) ∧ exF[10]? ≠ some 0 := by
  refine ⟨concrete_exact_fixed exH exL0 exL1 exP exH_twoLevel k nu1 nu2 fgs exU exF (by simp [exU, exL0, SmootherCode.ofField])
    (by simp [exF, exL0, SmootherCode.ofField]) ?_ m hm hr, by decide +kernel, by decide +kernel⟩
  intro i j hi hj
  rw [take_eq_sub_A]
  show SmootherCode.fld 8 exF i j - _ = 0
  unfold exF
  rw [fld_ofField_grid 7 8 _ i j hi hj]
  exact sub_self _

end C10c
