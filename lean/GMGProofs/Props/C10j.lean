import GMGProofs.Props.C10h
import GMGProofs.Props.C10f
import GMGProofs.Props.C09c
import GMGProofs.Props.C10i
/-!
# Totality and translation invariance for every hierarchy `setup()` builds

`C10h` derives the size hypotheses of the fixed-point and give = take theorems from the theorems about level selection and the
automatic split (C17, C18).  Here the same is done for the remaining whole-cycle theorems: totality (`C10e`, `C10f`) and translation
invariance (`C10e`, `C10f`), plain and implicitly extrapolated.  For the extrapolated translation theorem three more hypotheses
disappear: the odd `nr` of level 0 (extrapolated smoother), the side condition on level 1 and the shape relation between level 1 and
level 0 (`hshape`) are all consequences of `BuiltBy`.  What remains is about the DATA only (boundary mode, ellipticity, coarse pivots).
Property theorems only.
-/
namespace C10j
open MGCycle Concrete Stencil GridGen GridGenL Grid C10h

section AnyField
variable {K : Type} [_root_.Field K]

/-- `C10e.concrete_cycle_total_bc` for built hierarchies: `2 ≤ L` is derived from the accepted level count -/
theorem concrete_cycle_total_built (H : Hier K) (nr nt : Nat) (maxLevels : Int) (L : Nat) (crit : Nat → Nat → Bool)
    (h : chooseLevels nr nt maxLevels = .ok L) (hb : BuiltBy H nr nt crit L)
    (k : Kind) (nu1 nu2 : Nat) (fgs : Bool) (u f : Array K)
    (hbc : ∀ l, l + 1 < L → (lvl H l).op.bc = true) (ht1 : H.tiny 1 = false)
    (M : SparseLU.CSR K) (hM : DirectCode.assemble H.tables (lvl H (L - 1)).op = some M)
    (ht : ∀ r, r < M.rows → H.tiny (SparseLU.den ((SparseLU.factorRows M).2.getD r []) r) = false)
    (hu : u.size = coarsenR 0 nr * coarsenT 0 nt)
    (m : Mem (Option (Array K))) (hm : m (0, Buf.sol) = some u) (hr : m (0, Buf.rhs) = some f) :
    ∃ y, cycle H ⟨L, nu1, nu2⟩ k false fgs m (0, Buf.sol) = some y ∧ y.size = coarsenR 0 nr * coarsenT 0 nt := by
  have h2 := (built_sizes H nr nt maxLevels L crit h hb).1
  rw [← hb.shapeR 0 (by omega), ← hb.shapeT 0 (by omega)] at hu ⊢
  exact C10e.concrete_cycle_total_bc H L h2 k nu1 nu2 fgs u f hbc ht1 M hM ht hu m hm hr

/-- `C10f.concrete_excycle_total` for built hierarchies -/
theorem concrete_excycle_total_built (H : Hier K) (nr nt : Nat) (maxLevels : Int) (L : Nat) (crit : Nat → Nat → Bool)
    (h : chooseLevels nr nt maxLevels = .ok L) (hb : BuiltBy H nr nt crit L)
    (k : Kind) (nu1 nu2 : Nat) (fgs : Bool) (u f f1 : Array K)
    (hbc : ∀ l, l + 1 < L → (lvl H l).op.bc = true) (ht1 : H.tiny 1 = false)
    (M : SparseLU.CSR K) (hM : DirectCode.assemble H.tables (lvl H (L - 1)).op = some M)
    (ht : ∀ r, r < M.rows → H.tiny (SparseLU.den ((SparseLU.factorRows M).2.getD r []) r) = false)
    (hu : u.size = coarsenR 0 nr * coarsenT 0 nt)
    (m : Mem (Option (Array K))) (hm : m (0, Buf.sol) = some u) (hr : m (0, Buf.rhs) = some f) (hr1 : m (1, Buf.rhs) = some f1) :
    ∃ y, cycle H ⟨L, nu1, nu2⟩ k true fgs m (0, Buf.sol) = some y ∧ y.size = coarsenR 0 nr * coarsenT 0 nt := by
  have h2 := (built_sizes H nr nt maxLevels L crit h hb).1
  rw [← hb.shapeR 0 (by omega), ← hb.shapeT 0 (by omega)] at hu ⊢
  exact C10f.concrete_excycle_total H L h2 k nu1 nu2 fgs u f f1 hbc ht1 M hM ht hu m hm hr hr1

/-- `C09c.concrete_start_total` for built hierarchies: the FMG start-up (any FMG cycle kind and count, plain or extrapolated) returns
    a start vector of the size the coarsening chain gives level 0 -/
theorem concrete_start_total_built (H : Hier K) (nr nt : Nat) (maxLevels : Int) (L : Nat) (crit : Nat → Nat → Bool)
    (h : chooseLevels nr nt maxLevels = .ok L) (hb : BuiltBy H nr nt crit L)
    (fk : Kind) (fi nu1 nu2 : Nat) (ex fgs : Bool)
    (hbc : ∀ l, l + 1 < L → (lvl H l).op.bc = true) (ht1 : H.tiny 1 = false)
    (M : SparseLU.CSR K) (hM : DirectCode.assemble H.tables (lvl H (L - 1)).op = some M)
    (ht : ∀ r, r < M.rows → H.tiny (SparseLU.den ((SparseLU.factorRows M).2.getD r []) r) = false)
    (m : Mem (Option (Array K)))
    (hrhs : ∀ l, l < L → (l + 1 < L → 0 < fi) → ∃ f, m (l, Buf.rhs) = some f) :
    ∃ y, start H ⟨L, nu1, nu2⟩ true fk fi ex fgs m (0, Buf.sol) = some y ∧ y.size = coarsenR 0 nr * coarsenT 0 nt := by
  have h2 := (built_sizes H nr nt maxLevels L crit h hb).1
  rw [← hb.shapeR 0 (by omega), ← hb.shapeT 0 (by omega)]
  exact C09c.concrete_start_total H L h2 fk fi nu1 nu2 ex fgs hbc ht1 M hM ht m hrhs

/-- `C09c.give_start_eq_take_start` for built hierarchies: the start-up of the give strategy equals the one of the take strategy
    (with or without FMG, plain or extrapolated, ANY initial memory) — sizes and the admissibility of the extrapolated give smoother
    derived; only the antipodal symmetry of the angular spacing (across the origin) remains a hypothesis -/
theorem give_start_eq_take_start_built (H : Hier K) (G : GiveTables) (hG : G.direct = C04g.genTablesGive)
    (hGe : G.exSmoother = C07g.genTables)
    (htab : H.tables = C04c.genTables) (nr nt : Nat) (maxLevels : Int) (L : Nat) (crit : Nat → Nat → Bool)
    (h : chooseLevels nr nt maxLevels = .ok L) (hb : BuiltBy H nr nt crit L)
    (hk : ∀ l, l < L → (lvl H l).op.bc = false → ∀ j, j < (lvl H l).op.nt → (lvl H l).op.k (ja (lvl H l).op j) = (lvl H l).op.k j)
    (fmg : Bool) (fk : Kind) (fi nu1 nu2 : Nat) (ex fgs : Bool) (m : Mem (Option (Array K))) :
    exec (opsGive H G) (initSolution ⟨L, nu1, nu2⟩ fmg fk fi ex fgs (L - 1)) m (0, Buf.sol) =
      start H ⟨L, nu1, nu2⟩ fmg fk fi ex fgs m (0, Buf.sol) := by
  obtain ⟨h2, hs, r5, t4, te, -⟩ := built_sizes H nr nt maxLevels L crit h hb
  refine C09c.give_start_eq_take_start H G hG htab L fmg fk fi nu1 nu2 ex fgs (fun l hl => ?_) ?_ (fun _ _ _ => ?_) m
  · obtain ⟨t4, m4, -, c3, c⟩ := hs l hl
    exact ⟨t4, by omega, by omega, c, hk l (by omega)⟩
  · exact ⟨by omega, t4, te, hk (L - 1) (by omega)⟩
  · obtain ⟨t4, m4, o, c3, c⟩ := hs 0 (by omega)
    exact ⟨hGe ▸ C07g.genTables_good, c3, c, o, t4, by omega, fun _ => m4, hk 0 (by omega)⟩

/-- the hierarchy `Build.hier` makes from level grids of the coarsening chain (Dirichlet inner boundary) is `BuiltBy`, and every
    level carries the Dirichlet flag — no hypothesis on the input functions -/
theorem setup_built (E : Cache.Env K) (grids : List (Cache.GridData K)) (cc cg : Bool) (tiny : K → Bool)
    (nr nt : Nat) (maxLevels : Int) (L : Nat) (crit : Nat → Nat → Bool)
    (hsel : chooseLevels nr nt maxLevels = .ok L) (hlen : grids.length = L)
    (hchain : List.IsChain C03c.Nested grids)
    (hshape : ∀ l (hl : l < grids.length), (grids[l]).g.nr = coarsenR l nr ∧ (grids[l]).g.nt = coarsenT l nt ∧
      (grids[l]).g.nc = Split.autoNc (crit l) (coarsenR l nr)) :
    BuiltBy (Build.hier E grids true cc cg tiny C04c.genTables) nr nt crit L ∧
    ∀ l, l < L → (lvl (Build.hier E grids true cc cg tiny C04c.genTables) l).op.bc = true := by
  have hL2 : 2 ≤ L := (chain_sizes hsel).1
  obtain ⟨G0, Gs, rfl⟩ : ∃ G0 Gs, grids = G0 :: Gs := by
    cases grids with
    | nil => simp only [List.length_nil] at hlen; omega
    | cons a b => exact ⟨a, b, rfl⟩
  have hlev := C10i.hier_eq_fresh_levels E cc cg true G0 Gs hchain tiny C04c.genTables
  have hl : ∀ l (hl : l < (G0 :: Gs).length), lvl (Build.hier E (G0 :: Gs) true cc cg tiny C04c.genTables) l
      = ⟨Build.opOf E (G0 :: Gs)[l] true (Cache.fresh E (G0 :: Gs)[l] cc cg), (G0 :: Gs)[l].g.nc⟩ :=
    fun l hl => Concrete15.lvl_map _ (G0 :: Gs) _ hlev l hl
  refine ⟨⟨fun l h => ?_, fun l h => ?_, fun l h => ?_⟩, fun l h => ?_⟩
  · rw [hl l (by omega)]; exact (hshape l (by omega)).1
  · rw [hl l (by omega)]; exact (hshape l (by omega)).2.1
  · rw [hl l (by omega)]; exact (hshape l (by omega)).2.2
  · rw [hl l (by omega)]; rfl

/-- **end to end, totality**: inputs → hierarchy → the plain and the implicitly extrapolated concrete cycle return a vector of
    `nr · nt` entries for EVERY iterate of that size and every right-hand side — nothing is assumed about the input functions
    (no ellipticity, no sign): the exit branch of the sparse LU and out-of-bounds stores are excluded by the shapes alone, the
    `tiny` test on the coarse pivots (known finding F7) stays a hypothesis -/
theorem concrete_cycles_total_setup (E : Cache.Env K) (grids : List (Cache.GridData K)) (cc cg : Bool) (tiny : K → Bool)
    (nr nt : Nat) (maxLevels : Int) (L : Nat) (crit : Nat → Nat → Bool)
    (hsel : chooseLevels nr nt maxLevels = .ok L) (hlen : grids.length = L)
    (hchain : List.IsChain C03c.Nested grids)
    (hshape : ∀ l (hl : l < grids.length), (grids[l]).g.nr = coarsenR l nr ∧ (grids[l]).g.nt = coarsenT l nt ∧
      (grids[l]).g.nc = Split.autoNc (crit l) (coarsenR l nr))
    (k : Kind) (nu1 nu2 : Nat) (fgs : Bool) (u f f1 : Array K) (ht1 : tiny 1 = false)
    (M : SparseLU.CSR K)
    (hM : DirectCode.assemble C04c.genTables (lvl (Build.hier E grids true cc cg tiny C04c.genTables) (L - 1)).op = some M)
    (ht : ∀ r, r < M.rows → tiny (SparseLU.den ((SparseLU.factorRows M).2.getD r []) r) = false)
    (hu : u.size = coarsenR 0 nr * coarsenT 0 nt)
    (m : Mem (Option (Array K))) (hm : m (0, Buf.sol) = some u) (hr : m (0, Buf.rhs) = some f) (hr1 : m (1, Buf.rhs) = some f1) :
    (∃ y, cycle (Build.hier E grids true cc cg tiny C04c.genTables) ⟨L, nu1, nu2⟩ k false fgs m (0, Buf.sol) = some y ∧
      y.size = coarsenR 0 nr * coarsenT 0 nt) ∧
    (∃ y, cycle (Build.hier E grids true cc cg tiny C04c.genTables) ⟨L, nu1, nu2⟩ k true fgs m (0, Buf.sol) = some y ∧
      y.size = coarsenR 0 nr * coarsenT 0 nt) := by
  obtain ⟨hb, hbc⟩ := setup_built E grids cc cg tiny nr nt maxLevels L crit hsel hlen hchain hshape
  exact ⟨concrete_cycle_total_built _ nr nt maxLevels L crit hsel hb k nu1 nu2 fgs u f (fun l hl => hbc l (by omega)) ht1 M hM ht
      hu m hm hr,
    concrete_excycle_total_built _ nr nt maxLevels L crit hsel hb k nu1 nu2 fgs u f f1 (fun l hl => hbc l (by omega)) ht1 M hM ht
      hu m hm hr hr1⟩

end AnyField

section Ordered
variable {K : Type} [_root_.Field K] [LinearOrder K] [IsStrictOrderedRing K]

/-- `C10e.concrete_cycle_translate_bc` for built hierarchies: sizes derived, data hypotheses (Dirichlet inner boundary on the
    smoothing levels, elliptic coefficients on level 0) remain -/
theorem concrete_cycle_translate_built (H : Hier K) (nr nt : Nat) (maxLevels : Int) (L : Nat) (crit : Nat → Nat → Bool)
    (h : chooseLevels nr nt maxLevels = .ok L) (hb : BuiltBy H nr nt crit L)
    (hbc : ∀ l, l + 1 < L → (lvl H l).op.bc = true) (hell : Elliptic (lvl H 0).op)
    (k : Kind) (nu1 nu2 : Nat) (fgs : Bool) (u f w g : Array K) (ht1 : H.tiny 1 = false)
    (M : SparseLU.CSR K) (hM : DirectCode.assemble H.tables (lvl H (L - 1)).op = some M)
    (ht : ∀ r, r < M.rows → H.tiny (SparseLU.den ((SparseLU.factorRows M).2.getD r []) r) = false)
    (hu : u.size = (lvl H 0).op.nr * (lvl H 0).op.nt) (hf : (lvl H 0).op.nr * (lvl H 0).op.nt ≤ f.size)
    (hAw : ∀ i j, i < (lvl H 0).op.nr → j < (lvl H 0).op.nt →
      take (lvl H 0).op (SmootherCode.fld (lvl H 0).op.nt g) (SmootherCode.fld (lvl H 0).op.nt w) i j = 0)
    (m m' : Mem (Option (Array K)))
    (hm : m (0, Buf.sol) = some u) (hr : m (0, Buf.rhs) = some f)
    (hm' : m' (0, Buf.sol) = some (Array.ofFn (n := u.size) fun p => u[p] + w.getD p.val 0))
    (hr' : m' (0, Buf.rhs) = some (Array.ofFn (n := f.size) fun p => f[p] + g.getD p.val 0)) :
    ∃ y, y.size = (lvl H 0).op.nr * (lvl H 0).op.nt ∧
      cycle H ⟨L, nu1, nu2⟩ k false fgs m (0, Buf.sol) = some y ∧
      cycle H ⟨L, nu1, nu2⟩ k false fgs m' (0, Buf.sol) = some (Array.ofFn (n := y.size) fun p => y[p] + w.getD p.val 0) := by
  obtain ⟨h2, hs, -⟩ := built_sizes H nr nt maxLevels L crit h hb
  obtain ⟨t4, m4, -, c3, c⟩ := hs 0 (by omega)
  have h0 : C10d.LevelOK (lvl H 0) := ⟨t4, by omega, by omega, c, hbc 0 (by omega), hell⟩
  exact C10e.concrete_cycle_translate_bc H L h2 k nu1 nu2 fgs u f w g h0 hbc ht1 M hM ht hu hf hAw m m' hm hr hm' hr'

/-- `C10f.concrete_excycle_translate_bc` for built hierarchies: besides the sizes, the odd `nr` of level 0, the side condition on
    level 1 and the shape relation between levels 0 and 1 are derived from `BuiltBy` -/
theorem concrete_excycle_translate_built (H : Hier K) (nr nt : Nat) (maxLevels : Int) (L : Nat) (crit : Nat → Nat → Bool)
    (h : chooseLevels nr nt maxLevels = .ok L) (hb : BuiltBy H nr nt crit L)
    (hbc : ∀ l, l + 1 < L → (lvl H l).op.bc = true) (hell : Elliptic (lvl H 0).op)
    (k : Kind) (nu1 nu2 : Nat) (fgs : Bool) (u f f1 w g g1 : Array K) (ht1 : H.tiny 1 = false)
    (M : SparseLU.CSR K) (hM : DirectCode.assemble H.tables (lvl H (L - 1)).op = some M)
    (ht : ∀ r, r < M.rows → H.tiny (SparseLU.den ((SparseLU.factorRows M).2.getD r []) r) = false)
    (hu : u.size = (lvl H 0).op.nr * (lvl H 0).op.nt) (hf : (lvl H 0).op.nr * (lvl H 0).op.nt ≤ f.size)
    (hf1 : (lvl H 1).op.nr * (lvl H 1).op.nt ≤ f1.size)
    (hAw : ∀ i j, i < (lvl H 0).op.nr → j < (lvl H 0).op.nt →
      take (lvl H 0).op (SmootherCode.fld (lvl H 0).op.nt g) (SmootherCode.fld (lvl H 0).op.nt w) i j = 0)
    (hAw1 : ∀ i j, i < (lvl H 1).op.nr → j < (lvl H 1).op.nt →
      take (lvl H 1).op (SmootherCode.fld (lvl H 1).op.nt g1) (Interp.inject (SmootherCode.fld (lvl H 0).op.nt w)) i j = 0)
    (m m' : Mem (Option (Array K)))
    (hm : m (0, Buf.sol) = some u) (hr : m (0, Buf.rhs) = some f) (hr1 : m (1, Buf.rhs) = some f1)
    (hm' : m' (0, Buf.sol) = some (Array.ofFn (n := u.size) fun p => u[p] + w.getD p.val 0))
    (hr' : m' (0, Buf.rhs) = some (Array.ofFn (n := f.size) fun p => f[p] + g.getD p.val 0))
    (hr1' : m' (1, Buf.rhs) = some (Array.ofFn (n := f1.size) fun p => f1[p] + g1.getD p.val 0)) :
    ∃ y, y.size = (lvl H 0).op.nr * (lvl H 0).op.nt ∧
      cycle H ⟨L, nu1, nu2⟩ k true fgs m (0, Buf.sol) = some y ∧
      cycle H ⟨L, nu1, nu2⟩ k true fgs m' (0, Buf.sol) = some (Array.ofFn (n := y.size) fun p => y[p] + w.getD p.val 0) := by
  obtain ⟨h2, hs, r5, -, -, hch⟩ := built_sizes H nr nt maxLevels L crit h hb
  obtain ⟨t4, m4, odd, c3, c⟩ := hs 0 (by omega)
  have h0 : C10d.LevelOK (lvl H 0) := ⟨t4, by omega, by omega, c, hbc 0 (by omega), hell⟩
  have eR : (lvl H 1).op.nr = ((lvl H 0).op.nr + 1) / 2 := (hch 0 (by omega)).1
  have eT : (lvl H 1).op.nt = (lvl H 0).op.nt / 2 := (hch 0 (by omega)).2
  have h01 : (lvl H 1).op.bc = true ∨ 2 ≤ (lvl H 1).op.nr := by
    by_cases hL : L = 2
    · subst hL
      have r5' : 5 ≤ (lvl H 1).op.nr := r5
      exact Or.inr (by omega)
    · exact Or.inl (hbc 1 (by omega))
  exact C10f.concrete_excycle_translate_bc H L h2 k nu1 nu2 fgs u f f1 w g g1 h0 hbc (fun _ => odd) ht1 h01
    (Or.inl ⟨by omega, by omega⟩) M hM ht hu hf hf1 hAw hAw1 m m' hm hr hr1 hm' hr' hr1'

/-- **end to end, implicitly extrapolated**: inputs → hierarchy → fixed point of the extrapolated cycle (either level-0 smoother).
    The hypotheses of `C10i.concrete_exact_fixed_setup`, plus the level-1 right-hand side `f1` for which the injection of `u` solves
    the level-1 system (what the implicit extrapolation presupposes) -/
theorem concrete_exact_fixed_extrap_setup (E : Cache.Env K) (grids : List (Cache.GridData K)) (cc cg : Bool) (tiny : K → Bool)
    (nr nt : Nat) (maxLevels : Int) (L : Nat) (crit : Nat → Nat → Bool)
    (hsel : chooseLevels nr nt maxLevels = .ok L) (hlen : grids.length = L)
    (hchain : List.IsChain C03c.Nested grids)
    (hshape : ∀ l (hl : l < grids.length), (grids[l]).g.nr = coarsenR l nr ∧ (grids[l]).g.nt = coarsenT l nt ∧
      (grids[l]).g.nc = Split.autoNc (crit l) (coarsenR l nr))
    (hin : ∀ G ∈ grids, C10i.InputsOK E G)
    (k : Kind) (nu1 nu2 : Nat) (fgs : Bool) (u f f1 : Array K) (ht1 : tiny 1 = false)
    (M : SparseLU.CSR K)
    (hM : DirectCode.assemble C04c.genTables (lvl (Build.hier E grids true cc cg tiny C04c.genTables) (L - 1)).op = some M)
    (ht : ∀ r, r < M.rows → tiny (SparseLU.den ((SparseLU.factorRows M).2.getD r []) r) = false)
    (hu : u.size = nr * nt)
    (hsol : ∀ i j, i < nr → j < nt →
      take (lvl (Build.hier E grids true cc cg tiny C04c.genTables) 0).op (SmootherCode.fld nt f) (SmootherCode.fld nt u) i j = 0)
    (hsol1 : ∀ i j, i < coarsenR 1 nr → j < coarsenT 1 nt →
      take (lvl (Build.hier E grids true cc cg tiny C04c.genTables) 1).op (SmootherCode.fld (coarsenT 1 nt) f1)
        (Interp.inject (SmootherCode.fld nt u)) i j = 0)
    (m : Mem (Option (Array K))) (hm : m (0, Buf.sol) = some u) (hr : m (0, Buf.rhs) = some f)
    (hr1 : m (1, Buf.rhs) = some f1) :
    cycle (Build.hier E grids true cc cg tiny C04c.genTables) ⟨L, nu1, nu2⟩ k true fgs m (0, Buf.sol) = some u := by
  have hL2 : 2 ≤ L := (chain_sizes hsel).1
  obtain ⟨G0, Gs, rfl⟩ : ∃ G0 Gs, grids = G0 :: Gs := by
    cases grids with
    | nil => simp only [List.length_nil] at hlen; omega
    | cons a b => exact ⟨a, b, rfl⟩
  have hlev := C10i.hier_eq_fresh_levels E cc cg true G0 Gs hchain tiny C04c.genTables
  have hl : ∀ l (hl : l < (G0 :: Gs).length), lvl (Build.hier E (G0 :: Gs) true cc cg tiny C04c.genTables) l
      = ⟨Build.opOf E (G0 :: Gs)[l] true (Cache.fresh E (G0 :: Gs)[l] cc cg), (G0 :: Gs)[l].g.nc⟩ :=
    fun l hl => Concrete15.lvl_map _ (G0 :: Gs) _ hlev l hl
  have hb : C10h.BuiltBy (Build.hier E (G0 :: Gs) true cc cg tiny C04c.genTables) nr nt crit L := by
    refine ⟨fun l h => ?_, fun l h => ?_, fun l h => ?_⟩
    · rw [hl l (by omega)]; exact (hshape l (by omega)).1
    · rw [hl l (by omega)]; exact (hshape l (by omega)).2.1
    · rw [hl l (by omega)]; exact (hshape l (by omega)).2.2
  have hdata : ∀ l, l + 1 < L → (lvl (Build.hier E (G0 :: Gs) true cc cg tiny C04c.genTables) l).op.bc = true ∧
      Elliptic (lvl (Build.hier E (G0 :: Gs) true cc cg tiny C04c.genTables) l).op := by
    intro l h
    rw [hl l (by omega)]
    exact ⟨rfl, C10i.opOf_elliptic E _ (hin _ (List.getElem_mem _)) true cc cg⟩
  have hnr0 : (lvl (Build.hier E (G0 :: Gs) true cc cg tiny C04c.genTables) 0).op.nr = nr := hb.shapeR 0 (by omega)
  have hnt0 : (lvl (Build.hier E (G0 :: Gs) true cc cg tiny C04c.genTables) 0).op.nt = nt := hb.shapeT 0 (by omega)
  have hnr1 : (lvl (Build.hier E (G0 :: Gs) true cc cg tiny C04c.genTables) 1).op.nr = coarsenR 1 nr := hb.shapeR 1 (by omega)
  have hnt1 : (lvl (Build.hier E (G0 :: Gs) true cc cg tiny C04c.genTables) 1).op.nt = coarsenT 1 nt := hb.shapeT 1 (by omega)
  refine C10h.concrete_exact_fixed_extrap_built _ nr nt maxLevels L crit hsel hb hdata k nu1 nu2 fgs u f f1 ht1 M hM ht ?_ ?_ ?_
    m hm hr hr1
  · rw [hnr0, hnt0]; exact hu
  · rw [hnr0, hnt0]; exact hsol
  · rw [hnr1, hnt1, hnt0]; exact hsol1

/-- **end to end, translation invariance**: inputs → hierarchy → the error propagation of the plain concrete cycle does not depend
    on the solution; only the FINEST grid's input functions have to be admissible (`C10i.InputsOK` on level 0) -/
theorem concrete_cycle_translate_setup (E : Cache.Env K) (grids : List (Cache.GridData K)) (cc cg : Bool) (tiny : K → Bool)
    (nr nt : Nat) (maxLevels : Int) (L : Nat) (crit : Nat → Nat → Bool)
    (hsel : chooseLevels nr nt maxLevels = .ok L) (hlen : grids.length = L)
    (hchain : List.IsChain C03c.Nested grids)
    (hshape : ∀ l (hl : l < grids.length), (grids[l]).g.nr = coarsenR l nr ∧ (grids[l]).g.nt = coarsenT l nt ∧
      (grids[l]).g.nc = Split.autoNc (crit l) (coarsenR l nr))
    (hin0 : ∀ G, grids[0]? = some G → C10i.InputsOK E G)
    (k : Kind) (nu1 nu2 : Nat) (fgs : Bool) (u f w g : Array K) (ht1 : tiny 1 = false)
    (M : SparseLU.CSR K)
    (hM : DirectCode.assemble C04c.genTables (lvl (Build.hier E grids true cc cg tiny C04c.genTables) (L - 1)).op = some M)
    (ht : ∀ r, r < M.rows → tiny (SparseLU.den ((SparseLU.factorRows M).2.getD r []) r) = false)
    (hu : u.size = (lvl (Build.hier E grids true cc cg tiny C04c.genTables) 0).op.nr *
      (lvl (Build.hier E grids true cc cg tiny C04c.genTables) 0).op.nt)
    (hf : (lvl (Build.hier E grids true cc cg tiny C04c.genTables) 0).op.nr *
      (lvl (Build.hier E grids true cc cg tiny C04c.genTables) 0).op.nt ≤ f.size)
    (hAw : ∀ i j, i < (lvl (Build.hier E grids true cc cg tiny C04c.genTables) 0).op.nr →
      j < (lvl (Build.hier E grids true cc cg tiny C04c.genTables) 0).op.nt →
      take (lvl (Build.hier E grids true cc cg tiny C04c.genTables) 0).op
        (SmootherCode.fld (lvl (Build.hier E grids true cc cg tiny C04c.genTables) 0).op.nt g)
        (SmootherCode.fld (lvl (Build.hier E grids true cc cg tiny C04c.genTables) 0).op.nt w) i j = 0)
    (m m' : Mem (Option (Array K)))
    (hm : m (0, Buf.sol) = some u) (hr : m (0, Buf.rhs) = some f)
    (hm' : m' (0, Buf.sol) = some (Array.ofFn (n := u.size) fun p => u[p] + w.getD p.val 0))
    (hr' : m' (0, Buf.rhs) = some (Array.ofFn (n := f.size) fun p => f[p] + g.getD p.val 0)) :
    ∃ y, y.size = (lvl (Build.hier E grids true cc cg tiny C04c.genTables) 0).op.nr *
        (lvl (Build.hier E grids true cc cg tiny C04c.genTables) 0).op.nt ∧
      cycle (Build.hier E grids true cc cg tiny C04c.genTables) ⟨L, nu1, nu2⟩ k false fgs m (0, Buf.sol) = some y ∧
      cycle (Build.hier E grids true cc cg tiny C04c.genTables) ⟨L, nu1, nu2⟩ k false fgs m' (0, Buf.sol) =
        some (Array.ofFn (n := y.size) fun p => y[p] + w.getD p.val 0) := by
  obtain ⟨hb, hbc⟩ := setup_built E grids cc cg tiny nr nt maxLevels L crit hsel hlen hchain hshape
  have hL2 : 2 ≤ L := (chain_sizes hsel).1
  have hell : Elliptic (lvl (Build.hier E grids true cc cg tiny C04c.genTables) 0).op := by
    obtain ⟨G0, Gs, rfl⟩ : ∃ G0 Gs, grids = G0 :: Gs := by
      cases grids with
      | nil => simp only [List.length_nil] at hlen; omega
      | cons a b => exact ⟨a, b, rfl⟩
    have hlev := C10i.hier_eq_fresh_levels E cc cg true G0 Gs hchain tiny C04c.genTables
    have h0 := Concrete15.lvl_map _ (G0 :: Gs) _ hlev 0 (by simp)
    rw [h0]
    exact C10i.opOf_elliptic E _ (hin0 G0 rfl) true cc cg
  exact concrete_cycle_translate_built _ nr nt maxLevels L crit hsel hb (fun l hl => hbc l (by omega)) hell k nu1 nu2 fgs u f w g
    ht1 M hM ht hu hf hAw m m' hm hr hm' hr'

end Ordered

/-! ## non-vacuity: the four-level hierarchy `C10h.exH` (33 × 64 → 17 × 32 → 9 × 16 → 5 × 8) built by the chain -/

theorem exH_ht (M : SparseLU.CSR ℚ) (hM : DirectCode.assemble C04c.genTables (exOp 5 8) = some M) :
    ∀ r, r < M.rows → exH.tiny (SparseLU.den ((SparseLU.factorRows M).2.getD r []) r) = false := by
  intro r hr'
  have h := exH_pivots
  rw [hM] at h
  simp only [Option.all_some, List.all_eq_true, List.mem_range, Bool.not_eq_true'] at h
  exact h r hr'

/-- both totality theorems apply to EVERY iterate of the right size and EVERY right-hand sides, any kind, any smoothing counts -/
example (k : Kind) (nu1 nu2 : Nat) (fgs : Bool) (u f f1 : Array ℚ) (hu : u.size = 33 * 64) (m : Mem (Option (Array ℚ)))
    (hm : m (0, Buf.sol) = some u) (hr : m (0, Buf.rhs) = some f) (hr1 : m (1, Buf.rhs) = some f1) :
    (∃ y, cycle exH ⟨4, nu1, nu2⟩ k false fgs m (0, Buf.sol) = some y ∧ y.size = 33 * 64) ∧
    (∃ y, cycle exH ⟨4, nu1, nu2⟩ k true fgs m (0, Buf.sol) = some y ∧ y.size = 33 * 64) := by
  obtain ⟨M, hM⟩ := C04c.assemble_in_bounds (exOp 5 8) (by decide)
  have hl3 : (lvl exH (4 - 1)).op = exOp 5 8 := rfl
  exact ⟨concrete_cycle_total_built exH 33 64 (-1) 4 exCrit rfl exH_built k nu1 nu2 fgs u f
      (fun l hl => (exH_data l hl).1) (by decide +kernel) M (by rw [hl3]; exact hM) (exH_ht M hM) hu m hm hr,
    concrete_excycle_total_built exH 33 64 (-1) 4 exCrit rfl exH_built k nu1 nu2 fgs u f f1
      (fun l hl => (exH_data l hl).1) (by decide +kernel) M (by rw [hl3]; exact hM) (exH_ht M hM) hu m hm hr hr1⟩

/-- the plain translation theorem applies with the zero shift (`w = g = ∅`, read with default 0): all its hypotheses hold jointly -/
example (k : Kind) (nu1 nu2 : Nat) (fgs : Bool) (u f : Array ℚ) (hu : u.size = 33 * 64) (hf : 33 * 64 ≤ f.size)
    (m m' : Mem (Option (Array ℚ)))
    (hm : m (0, Buf.sol) = some u) (hr : m (0, Buf.rhs) = some f)
    (hm' : m' (0, Buf.sol) = some (Array.ofFn (n := u.size) fun p => u[p] + (#[] : Array ℚ).getD p.val 0))
    (hr' : m' (0, Buf.rhs) = some (Array.ofFn (n := f.size) fun p => f[p] + (#[] : Array ℚ).getD p.val 0)) :
    ∃ y, y.size = 33 * 64 ∧ cycle exH ⟨4, nu1, nu2⟩ k false fgs m (0, Buf.sol) = some y ∧
      cycle exH ⟨4, nu1, nu2⟩ k false fgs m' (0, Buf.sol) = some (Array.ofFn (n := y.size) fun p => y[p] + (#[] : Array ℚ).getD p.val 0) := by
  obtain ⟨M, hM⟩ := C04c.assemble_in_bounds (exOp 5 8) (by decide)
  have hl3 : (lvl exH (4 - 1)).op = exOp 5 8 := rfl
  refine concrete_cycle_translate_built exH 33 64 (-1) 4 exCrit rfl exH_built (fun l hl => (exH_data l hl).1)
    (exH_data 0 (by omega)).2 k nu1 nu2 fgs u f #[] #[] (by decide +kernel) M (by rw [hl3]; exact hM) (exH_ht M hM) hu hf ?_
    m m' hm hr hm' hr'
  intro i j hi hj
  have hz : SmootherCode.fld (lvl exH 0).op.nt (#[] : Array ℚ) = fun _ _ => 0 := by
    funext a b; simp [SmootherCode.fld]
  rw [hz]
  unfold take takeInterior takeOrigin
  split_ifs <;> simp

/-- the start-up theorems apply: the FMG start-up on `exH` returns a 33 × 64 vector for every memory holding the level right-hand
    sides, and the give start-up equals the take start-up for EVERY memory -/
example (fmg : Bool) (fk : Kind) (fi nu1 nu2 : Nat) (ex fgs : Bool) (m : Mem (Option (Array ℚ)))
    (hrhs : ∀ l, l < 4 → ∃ f, m (l, Buf.rhs) = some f) :
    (∃ y, start exH ⟨4, nu1, nu2⟩ true fk fi ex fgs m (0, Buf.sol) = some y ∧ y.size = 33 * 64) ∧
    exec (opsGive exH C10g.genG) (initSolution ⟨4, nu1, nu2⟩ fmg fk fi ex fgs (4 - 1)) m (0, Buf.sol) =
      start exH ⟨4, nu1, nu2⟩ fmg fk fi ex fgs m (0, Buf.sol) := by
  obtain ⟨M, hM⟩ := C04c.assemble_in_bounds (exOp 5 8) (by decide)
  have hl3 : (lvl exH (4 - 1)).op = exOp 5 8 := rfl
  refine ⟨concrete_start_total_built exH 33 64 (-1) 4 exCrit rfl exH_built fk fi nu1 nu2 ex fgs
      (fun l hl => (exH_data l hl).1) (by decide +kernel) M (by rw [hl3]; exact hM) (exH_ht M hM) m (fun l hl _ => hrhs l hl),
    give_start_eq_take_start_built exH C10g.genG rfl rfl rfl 33 64 (-1) 4 exCrit rfl exH_built ?_ fmg fk fi nu1 nu2 ex fgs m⟩
  intro l hl
  rcases (by omega : l = 0 ∨ l = 1 ∨ l = 2 ∨ l = 3) with rfl | rfl | rfl | rfl <;> exact fun h => absurd h (by decide)

/-- the level-1 right-hand side that makes the injection of `C10i.exU` the level-1 solution -/
def exF1 : Array ℚ := SmootherCode.ofField 5 8
  (A (lvl C10i.exH 1).op (Interp.inject (SmootherCode.fld 16 C10i.exU)))

/-- **`concrete_exact_fixed_extrap_setup` applies** on the hierarchy built from `C10i.exEnv` and the nested chain 9 × 16 → 5 × 8: all
    hypotheses hold jointly, for a solution that is not zero, either level-0 smoother -/
example (k : Kind) (nu1 nu2 : Nat) (fgs : Bool) (m : Mem (Option (Array ℚ)))
    (hm : m (0, Buf.sol) = some C10i.exU) (hr : m (0, Buf.rhs) = some C10i.exF) (hr1 : m (1, Buf.rhs) = some exF1) :
    cycle C10i.exH ⟨2, nu1, nu2⟩ k true fgs m (0, Buf.sol) = some C10i.exU := by
  obtain ⟨M, hM⟩ := C04c.assemble_in_bounds
    (Build.opOf C10i.exEnv C10i.exG1 true (Cache.fresh C10i.exEnv C10i.exG1 true true)) (by decide)
  have ht : ∀ r, r < M.rows → C06c.exTiny (SparseLU.den ((SparseLU.factorRows M).2.getD r []) r) = false := by
    intro r hr'
    have h := C10i.ex_pivots
    rw [hM] at h
    simp only [Option.all_some, List.all_eq_true, List.mem_range, Bool.not_eq_true'] at h
    exact h r hr'
  refine concrete_exact_fixed_extrap_setup C10i.exEnv [C10i.exG0, C10i.exG1] true true C06c.exTiny 9 16 (-1) 2 C10i.exCrit rfl rfl
    C10i.ex_chain C10i.ex_shape C10i.ex_in k nu1 nu2 fgs C10i.exU C10i.exF exF1 (by decide +kernel) M
    (by rw [← hM]; exact congrArg _ C10i.exH_lvl1) ht ?_ ?_ ?_ m hm hr hr1
  · simp [C10i.exU, SmootherCode.ofField]
  · intro i j hi hj
    rw [take_eq_sub_A]
    show SmootherCode.fld 16 C10i.exF i j - _ = 0
    unfold C10i.exF
    rw [fld_ofField_grid 9 16 _ i j hi hj]
    exact sub_self _
  · intro i j hi hj
    rw [take_eq_sub_A]
    show SmootherCode.fld 8 exF1 i j - _ = 0
    unfold exF1
    rw [fld_ofField_grid 5 8 _ i j hi hj]
    exact sub_self _

/-- `concrete_cycles_total_setup` applies on the hierarchy built from `C10i.exEnv` and the chain 9 × 16 → 5 × 8: EVERY iterate of the
    right size, EVERY pair of right-hand sides, any kind, any smoothing counts, either level-0 smoother -/
example (k : Kind) (nu1 nu2 : Nat) (fgs : Bool) (u f f1 : Array ℚ) (hu : u.size = 9 * 16) (m : Mem (Option (Array ℚ)))
    (hm : m (0, Buf.sol) = some u) (hr : m (0, Buf.rhs) = some f) (hr1 : m (1, Buf.rhs) = some f1) :
    (∃ y, cycle C10i.exH ⟨2, nu1, nu2⟩ k false fgs m (0, Buf.sol) = some y ∧ y.size = 9 * 16) ∧
    (∃ y, cycle C10i.exH ⟨2, nu1, nu2⟩ k true fgs m (0, Buf.sol) = some y ∧ y.size = 9 * 16) := by
  obtain ⟨M, hM⟩ := C04c.assemble_in_bounds
    (Build.opOf C10i.exEnv C10i.exG1 true (Cache.fresh C10i.exEnv C10i.exG1 true true)) (by decide)
  have ht : ∀ r, r < M.rows → C06c.exTiny (SparseLU.den ((SparseLU.factorRows M).2.getD r []) r) = false := by
    intro r hr'
    have h := C10i.ex_pivots
    rw [hM] at h
    simp only [Option.all_some, List.all_eq_true, List.mem_range, Bool.not_eq_true'] at h
    exact h r hr'
  exact concrete_cycles_total_setup C10i.exEnv [C10i.exG0, C10i.exG1] true true C06c.exTiny 9 16 (-1) 2 C10i.exCrit rfl rfl
    C10i.ex_chain C10i.ex_shape k nu1 nu2 fgs u f f1 (by decide +kernel) M
    (by rw [← hM]; exact congrArg _ C10i.exH_lvl1) ht hu m hm hr hr1

end C10j
