import GMGProofs.Props.C10g
import GMGProofs.Props.C09s
import GMGProofs.Lemmas.Concrete16
import GMGProofs.Lemmas.Concrete17
/-!
# C09 at the level of the code-level models: the nested-iteration start-up executed over `Concrete.ops`

`C09s` is about the instruction program of `initializeSolution()` over abstract operators.  Here the operators are the code-level
models (`Concrete.ops`, `Concrete.opsGive`):
* `concrete_fmg_two_level`: two levels, no FMG cycles: the start vector is the FMG interpolation of a SOLUTION of the coarse system the
  code-level direct solver assembles, with the level-1 right-hand side — `A_c⁻¹` no longer abstract;
* `concrete_start_total`: on admissible hierarchies (Dirichlet inner boundary on the smoothing levels, coarse `tiny` test silent) the
  start-up never ends in `none`, for any depth, FMG cycle type and iteration count, plain or implicitly extrapolated (either
  level-0 smoother), and returns an array of the level-0 size; of the initial memory only the PRESENCE of the level right-hand
  sides is needed (coarsest level always, the others if FMG cycles are run), not their sizes;
  `start_none_of_coarse_rhs_none`: an absent coarsest right-hand side does end in `none`;
* `give_start_eq_take_start`: the start-up over the give operators returns what the start-up over the take operators returns, with
  or without FMG, plain or implicitly extrapolated, for ANY initial memory (no hypothesis on the level right-hand sides) and any
  number of levels.
Property theorems only; helper lemmas in `GMGProofs/Lemmas/Concrete16.lean` (abstract operators), `Concrete17.lean`.
-/
namespace C09c
open MGCycle Concrete Stencil

section Ordered
variable {K : Type} [_root_.Field K] [LinearOrder K] [IsStrictOrderedRing K]

/-- **two levels, no FMG cycles**: if the start-up returns `some y`, then `y` is the FMG interpolation of a vector `e` of the size of
    level 1 that solves the coarse system with the level-1 right-hand side (any FMG cycle type, smoothing counts, plain or
    extrapolated: without FMG cycles none of them is used) -/
theorem concrete_fmg_two_level (H : Hier K) (fk : Kind) (nu1 nu2 : Nat) (ex fgs : Bool) (f1 y : Array K)
    (htab : H.tables = C04c.genTables)
    (hnr1 : 4 ≤ (lvl H 1).op.nr) (hnt1 : 4 ≤ (lvl H 1).op.nt) (heven1 : (lvl H 1).op.nt % 2 = 0)
    (hbc1 : (lvl H 1).op.bc = true) (he1 : Elliptic (lvl H 1).op)
    (hf1 : f1.size = (lvl H 1).op.nr * (lvl H 1).op.nt)
    (m : Mem (Option (Array K))) (hr1 : m (1, Buf.rhs) = some f1)
    (hy : start H ⟨2, nu1, nu2⟩ true fk 0 ex fgs m (0, Buf.sol) = some y) :
    ∃ e : Array K, e.size = (lvl H 1).op.nr * (lvl H 1).op.nt ∧
      (∀ I J, I < (lvl H 1).op.nr → J < (lvl H 1).op.nt →
        take (lvl H 1).op (SmootherCode.fld (lvl H 1).op.nt f1) (SmootherCode.fld (lvl H 1).op.nt e) I J = 0) ∧
      y = SmootherCode.ofField (lvl H 0).op.nr (lvl H 0).op.nt
            (Interp.fmgInterp (pair H 0) (SmootherCode.fld (lvl H 1).op.nt e)) := by
  unfold start at hy
  rw [C09s.fmg_two_level (ops H) ⟨2, nu1, nu2⟩ fk ex fgs m rfl, hr1] at hy
  exact ops_fmg_correction H f1 y htab hnr1 hnt1 heven1 hbc1 he1 hf1 hy

end Ordered

section AnyField
variable {K : Type} [_root_.Field K]

/-- **the start-up is total** (FMG on), plain (`ex = false`) and implicitly extrapolated (`ex = true`, either level-0 smoother): the
    hypotheses of `C10e.concrete_cycle_total_bc` on the hierarchy; of the initial memory: the right-hand side of the coarsest level
    is present, those of the other levels are present if FMG cycles are run (`0 < fi`).  No hypothesis on the SIZES of the level
    right-hand sides, no order on the field. -/
theorem concrete_start_total (H : Hier K) (L : Nat) (hL : 2 ≤ L) (fk : Kind) (fi nu1 nu2 : Nat) (ex fgs : Bool)
    (hbc : ∀ l, l + 1 < L → (lvl H l).op.bc = true) (ht1 : H.tiny 1 = false)
    (M : SparseLU.CSR K) (hM : DirectCode.assemble H.tables (lvl H (L - 1)).op = some M)
    (ht : ∀ r, r < M.rows → H.tiny (SparseLU.den ((SparseLU.factorRows M).2.getD r []) r) = false)
    (m : Mem (Option (Array K)))
    (hrhs : ∀ l, l < L → (l + 1 < L → 0 < fi) → ∃ f, m (l, Buf.rhs) = some f) :
    ∃ y, start H ⟨L, nu1, nu2⟩ true fk fi ex fgs m (0, Buf.sol) = some y ∧ y.size = (lvl H 0).op.nr * (lvl H 0).op.nt := by
  unfold start
  rw [C09s.fmg_refines]
  exact ops_start_total H L hL fk fi nu1 nu2 ex fgs hbc ht1 M hM ht (fun l => m (l, Buf.rhs)) hrhs

/-- the hypothesis on the coarsest right-hand side is needed: absent, the start-up ends in `none` (any hierarchy, any depth) -/
theorem start_none_of_coarse_rhs_none (H : Hier K) (L : Nat) (fk : Kind) (fi nu1 nu2 : Nat) (ex fgs : Bool)
    (m : Mem (Option (Array K))) (hnone : m (L - 1, Buf.rhs) = none) :
    start H ⟨L, nu1, nu2⟩ true fk fi ex fgs m (0, Buf.sol) = none := by
  unfold start
  rw [C09s.fmg_refines]
  show fmgSpec (ops H) ⟨L, nu1, nu2⟩ fk fi ex fgs (fun l => m (l, Buf.rhs)) (L - 1)
    ((ops H).solve (L - 1) (m (L - 1, Buf.rhs))) = none
  rw [hnone]
  exact ops_fmgSpec_none H _ fk fi ex fgs _ _

/-- **give = take for the start-up**: with or without FMG, plain or implicitly extrapolated, ANY initial memory, any number of levels;
    hypotheses on the hierarchy as in `C10g.give_cycle_eq_take_cycle` / `C10g.give_excycle_eq_take_excycle` (`hex` is only asked
    for when the extrapolated give smoother is run at all) -/
theorem give_start_eq_take_start (H : Hier K) (G : GiveTables) (hG : G.direct = C04g.genTablesGive)
    (htab : H.tables = C04c.genTables) (L : Nat) (fmg : Bool) (fk : Kind) (fi nu1 nu2 : Nat) (ex fgs : Bool)
    (hlev : ∀ l, l + 1 < L → C10g.GiveLevelOK (lvl H l)) (hcoarse : C10g.GiveCoarseOK (lvl H (L - 1)))
    (hex : fmg = true → ex = true → fgs = false → ExSmootherGiveCode.Admissible G.exSmoother (lvl H 0).op (lvl H 0).nc)
    (m : Mem (Option (Array K))) :
    exec (opsGive H G) (initSolution ⟨L, nu1, nu2⟩ fmg fk fi ex fgs (L - 1)) m (0, Buf.sol) =
      start H ⟨L, nu1, nu2⟩ fmg fk fi ex fgs m (0, Buf.sol) := by
  unfold start
  cases fmg
  · rw [C09s.nofmg_start, C09s.nofmg_start]
    rfl
  · show exec (opsGive H G) (initSolution ⟨L, nu1, nu2⟩ true fk fi ex fgs ((⟨L, nu1, nu2⟩ : Cfg).levels - 1)) m (0, Buf.sol) =
      exec (ops H) (initSolution ⟨L, nu1, nu2⟩ true fk fi ex fgs ((⟨L, nu1, nu2⟩ : Cfg).levels - 1)) m (0, Buf.sol)
    rw [C09s.fmg_refines, C09s.fmg_refines]
    by_cases hL : 2 ≤ L
    · exact ops_start_agree H G hG htab L hL fk fi nu1 nu2 ex fgs (fun l hl => ⟨(hlev l hl).nc, (hlev l hl).nr⟩)
        (C10g.levels_res H L hlev hcoarse) (hex rfl) (fun l => m (l, Buf.rhs))
    · -- fewer than two levels: the start-up is the coarse solve
      have h0 : L - 1 = 0 := by omega
      rw [h0] at hcoarse
      obtain ⟨h1, h2, h3, h4⟩ := hcoarse.res
      obtain rfl | rfl : L = 0 ∨ L = 1 := by omega
      · exact opsGive_solve_eq H G hG htab 0 h1 h2 h3 h4 _
      · exact opsGive_solve_eq H G hG htab 0 h1 h2 h3 h4 _

end AnyField

/-! ## non-vacuity -/

/-- `concrete_start_total` and `concrete_fmg_two_level` on `C10c.exH` (7 × 8 → 4 × 4; level 1 is 4 × 4, Dirichlet, elliptic:
    `C10e.exL1_elliptic`): for EVERY level-1 right-hand side of the right size (nothing about the other cells of the memory) the
    start-up returns some `y` — so the hypothesis `hy` of `concrete_fmg_two_level` is met — and `y` is the FMG interpolation of a
    solution of the coarse system -/
example (fk : Kind) (nu1 nu2 : Nat) (ex fgs : Bool) (f1 : Array ℚ) (hf1 : f1.size = 4 * 4) (m : Mem (Option (Array ℚ)))
    (hr1 : m (1, Buf.rhs) = some f1) :
    ∃ y e : Array ℚ, start C10c.exH ⟨2, nu1, nu2⟩ true fk 0 ex fgs m (0, Buf.sol) = some y ∧ y.size = 7 * 8 ∧ e.size = 4 * 4 ∧
      (∀ I J, I < 4 → J < 4 → take C10c.exL1.op (SmootherCode.fld 4 f1) (SmootherCode.fld 4 e) I J = 0) ∧
      y = SmootherCode.ofField 7 8 (Interp.fmgInterp C10c.exP (SmootherCode.fld 4 e)) := by
  obtain ⟨M, hM⟩ := C04c.assemble_in_bounds C10c.exL1.op (by decide)
  obtain ⟨y, hy, hys⟩ := concrete_start_total C10c.exH 2 (by decide) fk 0 nu1 nu2 ex fgs
    (fun l hl => by have : l = 0 := by omega
                    subst this; rfl)
    (by decide +kernel) M hM (fun r hr' => (C10c.exH_twoLevel.coarse_ok M hM r hr').1) m
    (fun l hl h => by
      have : l = 1 := by omega
      subst this
      exact ⟨f1, hr1⟩)
  obtain ⟨e, h1, h2, h3⟩ := concrete_fmg_two_level C10c.exH fk nu1 nu2 ex fgs f1 y rfl (by decide) (by decide) (by decide) rfl
    C10e.exL1_elliptic hf1 m hr1 hy
  exact ⟨y, e, hy, hys, h1, h2, h3⟩

/-- `concrete_start_total` on the three-level hierarchy `C10d.exH3` (13 × 16 → 7 × 8 → 4 × 4): every FMG cycle type and count, every
    smoothing counts, plain and extrapolated with either level-0 smoother, EVERY memory whose three level right-hand sides are
    present (any sizes) -/
theorem exH3_start_total (fk : Kind) (fi nu1 nu2 : Nat) (ex fgs : Bool) (m : Mem (Option (Array ℚ)))
    (hrhs : ∀ l, l < 3 → ∃ f, m (l, Buf.rhs) = some f) :
    ∃ y, start C10d.exH3 ⟨3, nu1, nu2⟩ true fk fi ex fgs m (0, Buf.sol) = some y ∧ y.size = 13 * 16 := by
  obtain ⟨M, hM⟩ := C04c.assemble_in_bounds C10c.exL1.op (by decide)
  exact concrete_start_total C10d.exH3 3 (by decide) fk fi nu1 nu2 ex fgs (fun l hl => (C10d.exH3_levels l hl).bc)
    (by decide +kernel) M hM (fun r hr' => (C10c.exH_twoLevel.coarse_ok M hM r hr').1) m (fun l hl _ => hrhs l hl)

/-- … and `start_none_of_coarse_rhs_none` there: without the coarsest right-hand side it returns `none` -/
example (fk : Kind) (fi nu1 nu2 : Nat) (ex fgs : Bool) (m : Mem (Option (Array ℚ))) (h : m (2, Buf.rhs) = none) :
    start C10d.exH3 ⟨3, nu1, nu2⟩ true fk fi ex fgs m (0, Buf.sol) = none :=
  start_none_of_coarse_rhs_none C10d.exH3 3 fk fi nu1 nu2 ex fgs m h

/-- `give_start_eq_take_start` on `C10d.exH3` with the generated give tables: all hypotheses hold jointly (with and without FMG, plain
    and extrapolated, both level-0 smoothers, every memory) -/
example (fmg : Bool) (fk : Kind) (fi nu1 nu2 : Nat) (ex fgs : Bool) (m : Mem (Option (Array ℚ))) :
    exec (opsGive C10d.exH3 C10g.genG) (initSolution ⟨3, nu1, nu2⟩ fmg fk fi ex fgs (3 - 1)) m (0, Buf.sol) =
      start C10d.exH3 ⟨3, nu1, nu2⟩ fmg fk fi ex fgs m (0, Buf.sol) :=
  give_start_eq_take_start C10d.exH3 C10g.genG rfl rfl 3 fmg fk fi nu1 nu2 ex fgs C10g.exH3_levels C10g.exH3_coarse
    (fun _ _ _ => C10g.exH3_admissible) m

/-- … and the common value is an array, not `none = none`: the start-up over the GIVE operators is total there -/
example (fk : Kind) (fi nu1 nu2 : Nat) (ex fgs : Bool) (m : Mem (Option (Array ℚ)))
    (hrhs : ∀ l, l < 3 → ∃ f, m (l, Buf.rhs) = some f) :
    ∃ y, exec (opsGive C10d.exH3 C10g.genG) (initSolution ⟨3, nu1, nu2⟩ true fk fi ex fgs (3 - 1)) m (0, Buf.sol) = some y ∧
      y.size = 13 * 16 := by
  rw [give_start_eq_take_start C10d.exH3 C10g.genG rfl rfl 3 true fk fi nu1 nu2 ex fgs C10g.exH3_levels C10g.exH3_coarse
    (fun _ _ _ => C10g.exH3_admissible) m]
  exact exH3_start_total fk fi nu1 nu2 ex fgs m hrhs

/-- `give_start_eq_take_start` across the origin (`DirBC_Interior = false`, where the antipodal symmetry of the angular spacings is
    a genuine condition): the two-level hierarchy `C10g.exHo` (7 × 8 → 4 × 4, non-constant antipodally symmetric spacings) -/
example (fmg : Bool) (fk : Kind) (fi nu1 nu2 : Nat) (ex fgs : Bool) (m : Mem (Option (Array ℚ))) :
    (lvl C10g.exHo 0).op.bc = false ∧
    exec (opsGive C10g.exHo C10g.genG) (initSolution ⟨2, nu1, nu2⟩ fmg fk fi ex fgs (2 - 1)) m (0, Buf.sol) =
      start C10g.exHo ⟨2, nu1, nu2⟩ fmg fk fi ex fgs m (0, Buf.sol) := by
  have hl0 : lvl C10g.exHo 0 = ⟨C10g.exOp8, 3⟩ := rfl
  have hl1 : lvl C10g.exHo 1 = ⟨C03.exOp, 1⟩ := rfl
  have hlev : ∀ l, l + 1 < 2 → C10g.GiveLevelOK (lvl C10g.exHo l) := by
    intro l hl
    have : l = 0 := by omega
    subst this
    rw [hl0]
    exact ⟨by decide, by decide, by decide, by decide, fun _ => C10g.exOp8_hk⟩
  have hcoarse : C10g.GiveCoarseOK (lvl C10g.exHo (2 - 1)) := by
    show C10g.GiveCoarseOK (lvl C10g.exHo 1)
    rw [hl1]
    exact ⟨by decide, by decide, by decide, fun _ => C10g.exOp4_hk⟩
  have hadm : ExSmootherGiveCode.Admissible C10g.genG.exSmoother (lvl C10g.exHo 0).op (lvl C10g.exHo 0).nc := by
    rw [hl0]
    exact ⟨C07g.genTables_good, by decide, by decide, by decide, by decide, by decide, fun _ => by decide,
      fun _ => C10g.exOp8_hk⟩
  exact ⟨rfl, give_start_eq_take_start C10g.exHo C10g.genG rfl rfl 2 fmg fk fi nu1 nu2 ex fgs hlev hcoarse (fun _ _ _ => hadm) m⟩

end C09c
