import GMGProofs.Props.C10g
import GMGProofs.Props.C17
import GMGProofs.Props.C18
import GMGProofs.Lemmas.Concrete14
/-!
# The size hypotheses of C10c–C10g hold for every hierarchy `setup()` builds

The whole-cycle theorems (C10c … C10g) assume per-level size conditions (`4 ≤ nt`, `nt` even, `2 ≤ nc`, `nc + 3 ≤ nr`, odd `nr` for the
extrapolated smoother, `nc ≥ 3` for the extrapolated give smoother, `4 ≤ nr, nt` on the coarsest level).  Here they are DERIVED from the
theorems about the code that produces the hierarchy: `GridGen.chooseLevels` (C18: `levels_admissible`), the coarsening chain and the
automatic circle / radial split `Grid.Split.autoNc` (C17: `splitAuto_bounds`), for every finest shape `nr × nt`, every level cap and
every (floating-point) split criterion.  What remains a hypothesis of the whole-cycle theorems is then only about the DATA: the
boundary mode, ellipticity of the transformed coefficients (C03 `ellipticity`) and, across the origin, the antipodal symmetry of the
angular spacing.
-/
namespace C10h
open MGCycle Concrete Stencil GridGen GridGenL Grid

section
variable {K : Type} [Scalar K]

/-- the hierarchy has the shapes the coarsening chain gives to a finest `nr × nt` grid, and on every level the automatic split
    (with that level's own floating-point criterion `crit l`) -/
structure BuiltBy (H : Hier K) (nr nt : Nat) (crit : Nat → Nat → Bool) (L : Nat) : Prop where
  shapeR : ∀ l, l < L → (lvl H l).op.nr = coarsenR l nr
  shapeT : ∀ l, l < L → (lvl H l).op.nt = coarsenT l nt
  split : ∀ l, l < L → (lvl H l).nc = Split.autoNc (crit l) (coarsenR l nr)

/-- **every size hypothesis of the whole-cycle theorems**, for every hierarchy built from an accepted level count -/
theorem built_sizes (H : Hier K) (nr nt : Nat) (maxLevels : Int) (L : Nat) (crit : Nat → Nat → Bool)
    (h : chooseLevels nr nt maxLevels = .ok L) (hb : BuiltBy H nr nt crit L) :
    2 ≤ L ∧
    (∀ l, l + 1 < L →
      4 ≤ (lvl H l).op.nt ∧ (lvl H l).op.nt % 4 = 0 ∧ (lvl H l).op.nr % 2 = 1 ∧
      3 ≤ (lvl H l).nc ∧ (lvl H l).nc + 3 ≤ (lvl H l).op.nr) ∧
    5 ≤ (lvl H (L - 1)).op.nr ∧ 4 ≤ (lvl H (L - 1)).op.nt ∧ (lvl H (L - 1)).op.nt % 2 = 0 ∧
    (∀ l, l + 1 < L → (lvl H (l + 1)).op.nr = ((lvl H l).op.nr + 1) / 2 ∧ (lvl H (l + 1)).op.nt = (lvl H l).op.nt / 2) := by
  obtain ⟨h2, hc⟩ := chain_sizes h
  refine ⟨h2, fun l hl => ?_, ?_, ?_, ?_, fun l hl => ?_⟩
  · obtain ⟨o, n9, m4, n8, -⟩ := hc l hl
    have sb := C17.splitAuto_bounds (crit l) (coarsenR l nr) (by omega)
    rw [hb.shapeR l (by omega), hb.shapeT l (by omega), hb.split l (by omega)]
    exact ⟨by omega, m4, o, sb.2.2 (by omega), sb.2.1⟩
  · obtain ⟨-, -, -, -, -, -, r5, -, -⟩ := hc (L - 2) (by omega)
    rw [hb.shapeR (L - 1) (by omega)]
    rwa [show L - 2 + 1 = L - 1 by omega] at r5
  · obtain ⟨-, -, -, -, -, -, -, t4, -⟩ := hc (L - 2) (by omega)
    rw [hb.shapeT (L - 1) (by omega)]
    rwa [show L - 2 + 1 = L - 1 by omega] at t4
  · obtain ⟨-, -, -, -, -, -, -, -, te⟩ := hc (L - 2) (by omega)
    rw [hb.shapeT (L - 1) (by omega)]
    rwa [show L - 2 + 1 = L - 1 by omega] at te
  · obtain ⟨-, -, -, -, eR, eT, -⟩ := hc l hl
    rw [hb.shapeR (l + 1) hl, hb.shapeT (l + 1) hl, hb.shapeR l (by omega), hb.shapeT l (by omega)]
    exact ⟨eR, eT⟩

/-- more than the whole-cycle theorems use: a smoothing level of a built hierarchy has at least 9 × 8 nodes -/
theorem built_sizes_smoothing (H : Hier K) (nr nt : Nat) (maxLevels : Int) (L : Nat) (crit : Nat → Nat → Bool)
    (h : chooseLevels nr nt maxLevels = .ok L) (hb : BuiltBy H nr nt crit L) :
    ∀ l, l + 1 < L → 9 ≤ (lvl H l).op.nr ∧ 8 ≤ (lvl H l).op.nt := by
  intro l hl
  obtain ⟨-, n9, -, n8, -⟩ := (chain_sizes h).2 l hl
  rw [hb.shapeR l (by omega), hb.shapeT l (by omega)]
  exact ⟨n9, n8⟩

end

section Ordered
variable {K : Type} [_root_.Field K] [LinearOrder K] [IsStrictOrderedRing K]

omit [IsStrictOrderedRing K] in
/-- the data hypotheses that remain: Dirichlet inner boundary and elliptic coefficients on the smoothing levels -/
theorem levelOK_of_built (H : Hier K) (nr nt : Nat) (maxLevels : Int) (L : Nat) (crit : Nat → Nat → Bool)
    (h : chooseLevels nr nt maxLevels = .ok L) (hb : BuiltBy H nr nt crit L)
    (hdata : ∀ l, l + 1 < L → (lvl H l).op.bc = true ∧ Elliptic (lvl H l).op) :
    ∀ l, l + 1 < L → C10d.LevelOK (lvl H l) := by
  intro l hl
  obtain ⟨-, hs, -⟩ := built_sizes H nr nt maxLevels L crit h hb
  obtain ⟨t4, m4, -, c3, c⟩ := hs l hl
  exact ⟨t4, by omega, by omega, c, (hdata l hl).1, (hdata l hl).2⟩

/-- C10d for built hierarchies: the concrete V-, W-, F-cycle leaves the exact discrete solution alone — sizes no longer assumed -/
theorem concrete_exact_fixed_built (H : Hier K) (nr nt : Nat) (maxLevels : Int) (L : Nat) (crit : Nat → Nat → Bool)
    (h : chooseLevels nr nt maxLevels = .ok L) (hb : BuiltBy H nr nt crit L)
    (hdata : ∀ l, l + 1 < L → (lvl H l).op.bc = true ∧ Elliptic (lvl H l).op)
    (k : Kind) (nu1 nu2 : Nat) (fgs : Bool) (u f : Array K) (ht1 : H.tiny 1 = false)
    (M : SparseLU.CSR K) (hM : DirectCode.assemble H.tables (lvl H (L - 1)).op = some M)
    (ht : ∀ r, r < M.rows → H.tiny (SparseLU.den ((SparseLU.factorRows M).2.getD r []) r) = false)
    (hu : u.size = (lvl H 0).op.nr * (lvl H 0).op.nt)
    (hsol : ∀ i j, i < (lvl H 0).op.nr → j < (lvl H 0).op.nt →
      take (lvl H 0).op (SmootherCode.fld (lvl H 0).op.nt f) (SmootherCode.fld (lvl H 0).op.nt u) i j = 0)
    (m : Mem (Option (Array K))) (hm : m (0, Buf.sol) = some u) (hr : m (0, Buf.rhs) = some f) :
    cycle H ⟨L, nu1, nu2⟩ k false fgs m (0, Buf.sol) = some u := by
  exact C10d.concrete_exact_fixed_depth H L (built_sizes H nr nt maxLevels L crit h hb).1 k nu1 nu2 fgs u f
    (levelOK_of_built H nr nt maxLevels L crit h hb hdata) ht1 M hM ht hu hsol m hm hr

/-- C10d for built hierarchies, implicitly extrapolated cycle with either level-0 smoother: the odd `nr` the extrapolated smoother
    needs and the side condition on level 1 of a two-level hierarchy are derived, not assumed -/
theorem concrete_exact_fixed_extrap_built (H : Hier K) (nr nt : Nat) (maxLevels : Int) (L : Nat) (crit : Nat → Nat → Bool)
    (h : chooseLevels nr nt maxLevels = .ok L) (hb : BuiltBy H nr nt crit L)
    (hdata : ∀ l, l + 1 < L → (lvl H l).op.bc = true ∧ Elliptic (lvl H l).op)
    (k : Kind) (nu1 nu2 : Nat) (fgs : Bool) (u f f1 : Array K) (ht1 : H.tiny 1 = false)
    (M : SparseLU.CSR K) (hM : DirectCode.assemble H.tables (lvl H (L - 1)).op = some M)
    (ht : ∀ r, r < M.rows → H.tiny (SparseLU.den ((SparseLU.factorRows M).2.getD r []) r) = false)
    (hu : u.size = (lvl H 0).op.nr * (lvl H 0).op.nt)
    (hsol : ∀ i j, i < (lvl H 0).op.nr → j < (lvl H 0).op.nt →
      take (lvl H 0).op (SmootherCode.fld (lvl H 0).op.nt f) (SmootherCode.fld (lvl H 0).op.nt u) i j = 0)
    (hsol1 : ∀ i j, i < (lvl H 1).op.nr → j < (lvl H 1).op.nt →
      take (lvl H 1).op (SmootherCode.fld (lvl H 1).op.nt f1)
        (Interp.inject (SmootherCode.fld (lvl H 0).op.nt u)) i j = 0)
    (m : Mem (Option (Array K))) (hm : m (0, Buf.sol) = some u) (hr : m (0, Buf.rhs) = some f)
    (hr1 : m (1, Buf.rhs) = some f1) :
    cycle H ⟨L, nu1, nu2⟩ k true fgs m (0, Buf.sol) = some u := by
  obtain ⟨h2, hs, r5, -⟩ := built_sizes H nr nt maxLevels L crit h hb
  have hlev := levelOK_of_built H nr nt maxLevels L crit h hb hdata
  have hnr1 : L = 2 → (lvl H 1).op.bc = true ∨ 2 ≤ (lvl H 1).op.nr := by
    intro hL; subst hL
    have r5' : 5 ≤ (lvl H 1).op.nr := r5
    exact Or.inr (by omega)
  cases fgs
  · exact C10d.concrete_exact_fixed_extrap H L h2 k nu1 nu2 u f f1 hlev (hs 0 (by omega)).2.2.1 ht1 M hM ht hu hsol hnr1 hsol1
      m hm hr hr1
  · exact C10d.concrete_exact_fixed_extrap_fgs H L h2 k nu1 nu2 u f f1 hlev ht1 M hM ht hu hsol hnr1 hsol1 m hm hr hr1

end Ordered

section AnyField
variable {K : Type} [_root_.Field K]

/-- C10g for built hierarchies: give = take for whole cycles — only the antipodal symmetry of the angular spacing (across the origin)
    remains a hypothesis -/
theorem give_cycle_eq_take_cycle_built (H : Hier K) (G : GiveTables) (hG : G.direct = C04g.genTablesGive)
    (htab : H.tables = C04c.genTables) (nr nt : Nat) (maxLevels : Int) (L : Nat) (crit : Nat → Nat → Bool)
    (h : chooseLevels nr nt maxLevels = .ok L) (hb : BuiltBy H nr nt crit L)
    (hk : ∀ l, l < L → (lvl H l).op.bc = false → ∀ j, j < (lvl H l).op.nt → (lvl H l).op.k (ja (lvl H l).op j) = (lvl H l).op.k j)
    (k : Kind) (nu1 nu2 : Nat) (fgs : Bool) (u f : Array K)
    (hu : u.size = (lvl H 0).op.nr * (lvl H 0).op.nt)
    (m : Mem (Option (Array K))) (hm : m (0, Buf.sol) = some u) (hr : m (0, Buf.rhs) = some f) :
    cycleGive H G ⟨L, nu1, nu2⟩ k false fgs m (0, Buf.sol) = cycle H ⟨L, nu1, nu2⟩ k false fgs m (0, Buf.sol) := by
  obtain ⟨h2, hs, r5, t4, te, -⟩ := built_sizes H nr nt maxLevels L crit h hb
  refine C10g.give_cycle_eq_take_cycle H G hG htab L h2 k nu1 nu2 fgs u f (fun l hl => ?_) ?_ hu m hm hr
  · obtain ⟨t4, m4, -, c3, c⟩ := hs l hl
    exact ⟨t4, by omega, by omega, c, hk l (by omega)⟩
  · exact ⟨by omega, t4, te, hk (L - 1) (by omega)⟩

/-- C10g for built hierarchies, implicitly extrapolated cycles (both level-0 smoothers): everything `C07g.Admissible` lists about
    sizes (odd `nr`, `nc ≥ 3`, `nt % 4 = 0`) is derived -/
theorem give_excycle_eq_take_excycle_built (H : Hier K) (G : GiveTables) (hG : G.direct = C04g.genTablesGive)
    (hGe : G.exSmoother = C07g.genTables)
    (htab : H.tables = C04c.genTables) (nr nt : Nat) (maxLevels : Int) (L : Nat) (crit : Nat → Nat → Bool)
    (h : chooseLevels nr nt maxLevels = .ok L) (hb : BuiltBy H nr nt crit L)
    (hk : ∀ l, l < L → (lvl H l).op.bc = false → ∀ j, j < (lvl H l).op.nt → (lvl H l).op.k (ja (lvl H l).op j) = (lvl H l).op.k j)
    (k : Kind) (nu1 nu2 : Nat) (fgs : Bool) (u f f1 : Array K)
    (hu : u.size = (lvl H 0).op.nr * (lvl H 0).op.nt)
    (m : Mem (Option (Array K))) (hm : m (0, Buf.sol) = some u) (hr : m (0, Buf.rhs) = some f)
    (hr1 : m (1, Buf.rhs) = some f1) :
    cycleGive H G ⟨L, nu1, nu2⟩ k true fgs m (0, Buf.sol) = cycle H ⟨L, nu1, nu2⟩ k true fgs m (0, Buf.sol) := by
  obtain ⟨h2, hs, r5, t4, te, -⟩ := built_sizes H nr nt maxLevels L crit h hb
  refine C10g.give_excycle_eq_take_excycle H G hG htab L h2 k nu1 nu2 fgs u f f1 (fun l hl => ?_) ?_ (fun _ => ?_) hu m hm hr hr1
  · obtain ⟨t4, m4, -, c3, c⟩ := hs l hl
    exact ⟨t4, by omega, by omega, c, hk l (by omega)⟩
  · exact ⟨by omega, t4, te, hk (L - 1) (by omega)⟩
  · obtain ⟨t4, m4, o, c3, c⟩ := hs 0 (by omega)
    exact ⟨hGe ▸ C07g.genTables_good, c3, c, o, t4, by omega, fun _ => m4, hk 0 (by omega)⟩

end AnyField

/-! ## non-vacuity: a four-level hierarchy over ℚ with the shapes and splits `setup()` gives to a 33 × 64 grid -/

/-- `33 → 17 → 9 → 5`, `64 → 32 → 16 → 8` -/
example : chooseLevels 33 64 (-1) = .ok 4 := rfl
example : chooseLevels 33 64 3 = .ok 3 := rfl
example : chooseLevels 17 32 0 = .ok 3 := rfl
example : chooseLevels 9 16 (-1) = .ok 2 := rfl
example : chooseLevels 129 128 (-1) = .ok 6 := rfl

/-- a level of any shape: non-uniform spacings, a genuinely mixed coefficient, Dirichlet inner boundary -/
def exOp (nr nt : Nat) : Op ℚ :=
  { nr := nr, nt := nt, bc := true, r0 := 1 / 10, h := fun i => 1 + i, k := fun j => 1 + j,
    arr := fun i j => 1 + i + j, att := fun i j => 2 + i * j, art := fun _ _ => 1,
    det := fun i _ => 1 + i, beta := fun i => i }

theorem exOp_elliptic (nr nt : Nat) : Elliptic (exOp nr nt) where
  h_pos := fun i _ => by simp only [exOp]; positivity
  k_pos := fun j _ => by simp only [exOp]; positivity
  arr_pos := fun i j _ _ => by simp only [exOp]; positivity
  att_pos := fun i j _ _ => by simp only [exOp]; positivity
  art_le := fun i j _ _ => by
    simp only [exOp]
    have hi : (0 : ℚ) ≤ i := Nat.cast_nonneg i
    have hj : (0 : ℚ) ≤ j := Nat.cast_nonneg j
    nlinarith [mul_nonneg hi hj, mul_nonneg (mul_nonneg hi hj) hi, mul_nonneg (mul_nonneg hi hj) hj]
  beta_nonneg := fun i _ => by simp only [exOp]; positivity
  det_nonneg := fun i j _ _ => by simp only [exOp]; positivity

/-- a split criterion that depends on the level and on the circle (level 0 and 1: first true at circle 4; level 2: never true,
    so the `nc < 3 ∧ nr > 5` correction gives 3; level 3, `nr = 5`: the loop ends at once, `nc = 2`) -/
def exCrit : Nat → Nat → Bool := fun l i => decide (l < 2 ∧ 4 ≤ i)

/-- the level `l` of the chain from `33 × 64` -/
def exLevel (l : Nat) : LevelData ℚ := ⟨exOp (coarsenR l 33) (coarsenT l 64), Split.autoNc (exCrit l) (coarsenR l 33)⟩

def exH : Hier ℚ := ⟨[exLevel 0, exLevel 1, exLevel 2, exLevel 3], [], C06c.exTiny, C04c.genTables⟩

/-- the four levels: 33 × 64 with `nc = 4`, 17 × 32 with `nc = 4`, 9 × 16 with `nc = 3`, 5 × 8 with `nc = 2` -/
example : (List.range 4).map (fun l => ((lvl exH l).op.nr, (lvl exH l).op.nt, (lvl exH l).nc))
    = [(33, 64, 4), (17, 32, 4), (9, 16, 3), (5, 8, 2)] := by decide

/-- **`BuiltBy` is satisfiable** -/
theorem exH_built : BuiltBy exH 33 64 exCrit 4 := by
  have hl : ∀ l, l < 4 → lvl exH l = exLevel l := by
    intro l hl
    rcases (by omega : l = 0 ∨ l = 1 ∨ l = 2 ∨ l = 3) with rfl | rfl | rfl | rfl <;> rfl
  exact ⟨fun l h => by rw [hl l h]; rfl, fun l h => by rw [hl l h]; rfl, fun l h => by rw [hl l h]; rfl⟩

theorem exH_data : ∀ l, l + 1 < 4 → (lvl exH l).op.bc = true ∧ Elliptic (lvl exH l).op := by
  intro l hl
  rcases (by omega : l = 0 ∨ l = 1 ∨ l = 2) with rfl | rfl | rfl <;> exact ⟨rfl, exOp_elliptic _ _⟩

/-- every size clause, instantiated -/
example : ∀ l, l + 1 < 4 → C10d.LevelOK (lvl exH l) :=
  levelOK_of_built exH 33 64 (-1) 4 exCrit rfl exH_built exH_data

/-- the 40 pivots of the coarsest (5 × 8) matrix, evaluated exactly: none is tiny -/
theorem exH_pivots :
    (DirectCode.assemble C04c.genTables (exOp 5 8)).all (fun M => (List.range M.rows).all fun r =>
      !C06c.exTiny (SparseLU.den ((SparseLU.factorRows M).2.getD r []) r)) = true := by
  decide +kernel

/-- a field that is not zero and its right-hand side `f := A u` on the 33 × 64 level -/
def exU : Array ℚ := SmootherCode.ofField 33 64 fun i j => 1 + (i : ℚ) * i - 3 * j
def exF : Array ℚ := SmootherCode.ofField 33 64 (A (exOp 33 64) (SmootherCode.fld 64 exU))

/-- `concrete_exact_fixed_built` applies: all hypotheses hold jointly, for a solution that is not zero -/
example (k : Kind) (nu1 nu2 : Nat) (fgs : Bool) (m : Mem (Option (Array ℚ)))
    (hm : m (0, Buf.sol) = some exU) (hr : m (0, Buf.rhs) = some exF) :
    cycle exH ⟨4, nu1, nu2⟩ k false fgs m (0, Buf.sol) = some exU ∧ SmootherCode.fld 64 exU 0 10 = -29 := by
  have hl0 : lvl exH 0 = ⟨exOp 33 64, 4⟩ := rfl
  have hl3 : (lvl exH (4 - 1)).op = exOp 5 8 := rfl
  obtain ⟨M, hM⟩ := C04c.assemble_in_bounds (exOp 5 8) (by decide)
  have ht : ∀ r, r < M.rows → exH.tiny (SparseLU.den ((SparseLU.factorRows M).2.getD r []) r) = false := by
    intro r hr'
    have h := exH_pivots
    rw [hM] at h
    simp only [Option.all_some, List.all_eq_true, List.mem_range, Bool.not_eq_true'] at h
    exact h r hr'
  refine ⟨concrete_exact_fixed_built exH 33 64 (-1) 4 exCrit rfl exH_built exH_data k nu1 nu2 fgs exU exF
    (by decide +kernel) M (by rw [hl3]; exact hM) ht ?_ ?_ m hm hr, ?_⟩
  · rw [hl0]; simp [exU, exOp, SmootherCode.ofField]
  · rw [hl0]
    intro i j hi hj
    rw [take_eq_sub_A]
    show SmootherCode.fld 64 exF i j - _ = 0
    unfold exF
    rw [fld_ofField_grid 33 64 _ i j hi hj]
    exact sub_self _
  · unfold exU
    rw [fld_ofField_grid 33 64 _ 0 10 (by decide) (by decide)]
    norm_num

/-- `give_cycle_eq_take_cycle_built` applies (Dirichlet inner boundary: the symmetry hypothesis is void), for every iterate of
    the right size and every right-hand side -/
example (k : Kind) (nu1 nu2 : Nat) (fgs : Bool) (u f : Array ℚ) (hu : u.size = 33 * 64) (m : Mem (Option (Array ℚ)))
    (hm : m (0, Buf.sol) = some u) (hr : m (0, Buf.rhs) = some f) :
    cycleGive exH C10g.genG ⟨4, nu1, nu2⟩ k false fgs m (0, Buf.sol) = cycle exH ⟨4, nu1, nu2⟩ k false fgs m (0, Buf.sol) := by
  refine give_cycle_eq_take_cycle_built exH C10g.genG rfl rfl 33 64 (-1) 4 exCrit rfl exH_built ?_ k nu1 nu2 fgs u f hu
    m hm hr
  intro l hl
  rcases (by omega : l = 0 ∨ l = 1 ∨ l = 2 ∨ l = 3) with rfl | rfl | rfl | rfl <;> exact fun h => absurd h (by decide)

end C10h
