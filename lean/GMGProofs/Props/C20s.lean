import GMGModel.Setup
import GMGProofs.Props.C01
import GMGProofs.Lemmas.Setup2
import GMGProofs.Lemmas.Setup3
/-!
# C20 / C02 / C09 (orchestration) — `solve()` touches only what `setup()` provided

Model: `GMGModel/Setup.lean` (decision table of `setup()`: operator objects per level, built right-hand sides, initial
smoother switch) against the control-flow IR of `GMGModel/Cycle.lean` / `Solve.lean` (every program `solve()` can run).
For every level count ≥ 2, extrapolation mode, cycle type, FMG setting, FMG cycle type / iteration count and smoothing
counts: no instruction calls an operator object that was not initialised (`… not initialized` exceptions of
`src/Level/level.cpp`), indexes a level that does not exist, reads a level right-hand side that was not built, or writes a
right-hand side.  Property theorems only; helper lemmas in `GMGProofs/Lemmas/Setup*.lean`.
-/
namespace C20s
open MGCycle Setup

/-- the smoother switch `setup()` leaves is consistent with the mode -/
theorem fgs_after_setup (mode : Nat) : fgsConsistent mode (fgsAfterSetup mode) = true := by
  unfold fgsConsistent fgsAfterSetup
  match mode with
  | 0 | 1 | 2 | 3 | n + 4 => rfl

/-- … and `solve()` keeps it consistent: the top of `solve()` re-arms it only for COMBINED, the loop clears it only for COMBINED -/
theorem fgs_rearm (mode : Nat) (fgs : Bool) (h : fgsConsistent mode fgs = true) :
    fgsConsistent mode (if mode == 3 then true else fgs) = true := by
  match mode, h with
  | 0, h | 1, h | 2, h | n + 4, h => simpa using h
  | 3, _ => rfl

theorem fgs_switch (mode : Nat) (fgs sw : Bool) (h : fgsConsistent mode fgs = true) (hsw : sw = true → mode = 3) :
    fgsConsistent mode (if sw then false else fgs) = true := by
  cases sw with
  | false => simpa using h
  | true => cases hsw rfl; rfl

/-- **the stop test's residual evaluation** -/
theorem stop_ok (c : Setup.Cfg) (h2 : 2 ≤ c.levels) :
    progOK c (stopResidual (c.extrapMode != 0)) = true := by
  have h1 := rhsLevels_pos c h2
  have w0r : wref c (0, .res) := ⟨by omega, by simp⟩
  have w0s : wref c (0, .sol) := ⟨by omega, by simp⟩
  have r0 : rref c (0, .rhs) := ⟨by omega, fun _ => by show 0 < rhsLevels c; omega⟩
  have hA : instrOK c (.residual 0 (0, .res) (0, .rhs) (0, .sol)) = true := ok_residual w0r r0 w0s.rref
  by_cases hm : c.extrapMode = 0
  · have e : (c.extrapMode != 0) = false := by simp [hm]
    simp only [stopResidual, e, progOK_append, progOK_cons, progOK_nil, hA, Bool.false_eq_true, if_false, Bool.and_true]
  · have e : (c.extrapMode != 0) = true := by simp [hm]
    have hr2 := rhsLevels_two c h2 hm
    have w1s : wref c (1, .sol) := ⟨by omega, by simp⟩
    have w1r : wref c (1, .res) := ⟨by omega, by simp⟩
    have r1 : rref c (1, .rhs) := ⟨by omega, fun _ => by show 1 < rhsLevels c; omega⟩
    simp only [stopResidual, e, progOK_append, progOK_cons, progOK_nil, hA, if_true, ok_inject w1s w0s.rref,
      ok_residual w1r r1 w1s.rref, ok_exResidual w0r w1r.rref, Bool.and_true]

/-- **one top-level cycle** of any type on the finest level; holds for every mode value (no `extrapMode ≤ 3` needed:
    the `default:` branch of `setup()` creates both smoothers on level 0) -/
theorem cycle_ok (c : Setup.Cfg) (cy : MGCycle.Cfg) (hl : cy.levels = c.levels) (h2 : 2 ≤ c.levels)
    (k : Kind) (fgs : Bool) (hf : fgsConsistent c.extrapMode fgs = true) :
    progOK c (cycleAt cy k (c.extrapMode != 0) fgs 0) = true :=
  cycleAt0_ok c cy hl h2 k fgs hf

/-- **the start-up** (`initializeSolution`: zero start, or FMG from the coarsest level with cycles on every level) -/
theorem init_ok (c : Setup.Cfg) (cy : MGCycle.Cfg) (hl : cy.levels = c.levels) (h2 : 2 ≤ c.levels)
    (fmgKind : Kind) (fmgIters : Nat) (fgs : Bool) (hf : fgsConsistent c.extrapMode fgs = true) :
    progOK c (initSolution cy c.fmg fmgKind fmgIters (c.extrapMode != 0) fgs (c.levels - 1)) = true := by
  unfold initSolution
  cases hfmg : c.fmg with
  | false =>
    have w0 : wref c (0, .sol) := ⟨by omega, by simp⟩
    simp only [Bool.not_false, if_true, progOK_cons, progOK_nil, ok_zero w0, Bool.and_true]
  | true =>
    have hrl := rhsLevels_fmg c hfmg
    have wl : wref c (c.levels - 1, .sol) := ⟨by omega, by simp⟩
    have rl : rref c (c.levels - 1, .rhs) := ⟨by omega, fun _ => by show c.levels - 1 < rhsLevels c; omega⟩
    simp only [Bool.not_true, Bool.false_eq_true, if_false, hl, progOK_append, progOK_cons, progOK_nil, ok_copy wl rl,
      ok_directSolve (ops_direct_last c (c.levels - 1) (by omega) rfl) wl,
      fmgLoop_ok c cy hl h2 hfmg fmgKind fmgIters fgs hf (c.levels - 1) (by omega), Bool.and_true]

/-- no program of `solve()` writes a level right-hand side (so what is read is what `setup()` built), stated on the IR -/
theorem rhs_never_written (cy : MGCycle.Cfg) (k : Kind) (ex fgs : Bool) (d : Nat) :
    ∀ i ∈ cycleAt cy k ex fgs d, ∀ r ∈ Setup.writes i, r.2 ≠ Buf.rhs := by
  intro i hi r hr
  have h := cycleAt_noRhsWrite cy k ex fgs d
  simp only [noRhsWrite, List.all_eq_true] at h
  simpa using h i hi r hr

/-! ### the model sees the defect classes (negative theorems on concrete configurations) -/

/-- a one-level hierarchy (what `chooseNumberOfLevels` must never return, C18.levels…) is NOT ok: the FMG start-up calls the
    direct solver of level 0, which `setup()` did not create ("Coarse Solver not initialized") -/
theorem one_level_not_ok :
    progOK ⟨1, 0, true, 1, fun _ => 1⟩ (initSolution ⟨1, 1, 1⟩ true .V 0 false true 0) = false := by
  decide

/-- COMBINED extrapolation reads the right-hand side of level 1: a setup that builds it on level 0 only is NOT ok -/
theorem combined_needs_level1_rhs :
    (stopResidual true).all (fun i => (refs i).all fun r => r.2 != Buf.rhs || decide (r.1 < 1)) = false := by
  decide

/-- IMPLICIT_EXTRAPOLATION has no plain smoother on level 0: a plain cycle there is NOT ok -/
theorem implicit_has_no_plain_smoother :
    progOK ⟨3, 1, false, 1, fun _ => 1⟩ (cycleAt ⟨3, 1, 1⟩ .V false false 0) = false := by
  decide

end C20s
