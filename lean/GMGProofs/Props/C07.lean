import GMGProofs.Lemmas.SmootherLemmas
import GMGProofs.Props.C03
import GMGProofs.Props.C05
/-!
# C07 — extrapolated smoothing: coarse nodes are kept, the other nodes are relaxed exactly

Property theorems only.  Model: `GMGModel/Smoother.lean` (`coarseNode`, `exDefect`).
`IsExSweep o nc f x y` (`GMGProofs/Lemmas/SmootherLemmas.lean`) says `exDefect … = 0` at every grid node.
Stated over an arbitrary field `K` (over a bare `Scalar` there are no axioms to conclude `y = x` from
`y - x = 0`; bitwise invariance of the coarse values in the implementation is checked by the
correspondence harness).
-/
namespace C07
open Stencil Smoother

variable {K : Type} [_root_.Field K]

/-- **1** coarse nodes keep their value -/
theorem coarse_fixed (o : Op K) (nc : Nat) (f x y : Stencil.Field K) (h : IsExSweep o nc f x y)
    (i j : Nat) (hi : i < o.nr) (hj : j < o.nt) (hc : coarseNode i j = true) : y i j = x i j := by
  have := h i j hi hj
  unfold exDefect at this
  rw [if_pos hc] at this
  exact sub_eq_zero.mp this

/-- the relaxed nodes satisfy the ordinary sweep equation -/
theorem relaxed_defect (o : Op K) (nc : Nat) (f x y : Stencil.Field K) (i j : Nat)
    (hc : coarseNode i j = false) : exDefect o nc f x y i j = defect o nc f x y i j := by
  unfold exDefect defect
  rw [if_neg (by simp [hc])]

/-- **2** a field with zero residual at all non-coarse nodes is a fixed point of the extrapolated sweep -/
theorem ex_fixed_point (o : Op K) (nc : Nat) (f u : Stencil.Field K)
    (hu : ∀ i j, i < o.nr → j < o.nt → coarseNode i j = false → take o f u i j = 0) :
    IsExSweep o nc f u u := by
  intro i j hi hj
  unfold exDefect
  split
  · exact sub_self _
  · rename_i hc
    rw [Smoother.mix_self]
    exact hu i j hi hj (by simpa using hc)

/-- … and conversely -/
theorem ex_fixed_point_iff (o : Op K) (nc : Nat) (f u : Stencil.Field K) :
    IsExSweep o nc f u u ↔ ∀ i j, i < o.nr → j < o.nt → coarseNode i j = false → take o f u i j = 0 := by
  constructor
  · intro h i j hi hj hc
    have := h i j hi hj
    unfold exDefect at this
    rwa [if_neg (by simp [hc]), Smoother.mix_self] at this
  · exact ex_fixed_point o nc f u

/-- **3** (general form) a relaxed node of phase `p` satisfies its row equation for the iterate after
    phase `p` -/
theorem ex_phase_colour (o : Op K) (nc : Nat) (f x y : Stencil.Field K) (h : IsExSweep o nc f x y)
    (p i j : Nat) (hi : i < o.nr) (hj : j < o.nt) (hp : phase nc i j = p) (hc : coarseNode i j = false) :
    take o f (mix nc p x y) i j = 0 := by
  have := h i j hi hj
  unfold exDefect at this
  rwa [if_neg (by simp [hc]), hp] at this

/-- **3** the residual of the NEW iterate vanishes at the relaxed nodes of the white radial lines;
    every node of a white radial line (`j` odd) is relaxed -/
theorem ex_last_colour (o : Op K) (nc : Nat) (f x y : Stencil.Field K) (h : IsExSweep o nc f x y)
    (i j : Nat) (hi : i < o.nr) (hj : j < o.nt) (hrad : nc ≤ i) (hodd : j % 2 = 1) :
    take o f y i j = 0 := by
  have hc : coarseNode i j = false := by simp [coarseNode, hodd]
  have := ex_phase_colour o nc f x y h 4 i j hi hj (phase_white_radial hrad hodd) hc
  rwa [Smoother.mix_four] at this

/-- **4** the relaxed nodes are exactly those with an odd index -/
theorem ex_relaxed_count (i j : Nat) : coarseNode i j = false ↔ i % 2 = 1 ∨ j % 2 = 1 := by
  unfold coarseNode
  rcases Nat.mod_two_eq_zero_or_one i with hi | hi <;> rcases Nat.mod_two_eq_zero_or_one j with hj | hj <;>
    simp [hi, hj]

/-- **4** on an even circle the relaxed nodes are the odd angular positions; on an odd circle every node -/
theorem ex_relaxed_circle (i j : Nat) :
    (i % 2 = 0 → (coarseNode i j = false ↔ j % 2 = 1)) ∧ (i % 2 = 1 → coarseNode i j = false) := by
  constructor
  · intro hi; rw [ex_relaxed_count]; omega
  · intro hi; rw [ex_relaxed_count]; omega

/-- **4** on an even radial line the relaxed nodes are the odd radial positions; on an odd line every node -/
theorem ex_relaxed_radial (i j : Nat) :
    (j % 2 = 0 → (coarseNode i j = false ↔ i % 2 = 1)) ∧ (j % 2 = 1 → coarseNode i j = false) := by
  constructor
  · intro hj; rw [ex_relaxed_count]; omega
  · intro hj; rw [ex_relaxed_count]; omega

/-- Dirichlet values are set only at the relaxed boundary nodes; at coarse boundary nodes the old value
    is kept (so the incoming iterate must already carry the boundary data there) -/
theorem ex_dirichlet_set_outer (o : Op K) (nc : Nat) (hnr : 2 ≤ o.nr) (f x y : Stencil.Field K)
    (h : IsExSweep o nc f x y) (j : Nat) (hj : j < o.nt) :
    y (o.nr - 1) j = if coarseNode (o.nr - 1) j then x (o.nr - 1) j else f (o.nr - 1) j := by
  have := h (o.nr - 1) j (by omega) hj
  unfold exDefect at this
  split
  · rename_i hc; rw [if_pos hc] at this; exact sub_eq_zero.mp this
  · rename_i hc
    rw [if_neg hc, C03.dirichlet_rows_outer o hnr, mix_of_le (le_refl _)] at this
    exact (sub_eq_zero.mp this).symm

/-! ## non-vacuity -/

/-- `IsExSweep` is satisfiable for ANY pair `x`, `y` that agree on the coarse nodes -/
example (o : Op ℚ) (nc : Nat) (x y : Stencil.Field ℚ) (hxy : ∀ i j, coarseNode i j = true → y i j = x i j) :
    IsExSweep o nc (fun i j => A o (mix nc (phase nc i j) x y) i j) x y := by
  intro i j _ _
  unfold exDefect
  split
  · rename_i hc; rw [hxy i j hc]; ring
  · rw [take_eq_sub_A]; ring

/-- a fixed point: `C05.exX` with `f := A exX` on the Dirichlet operator `C05.exOpD` -/
example : IsExSweep C05.exOpD 2 (A C05.exOpD C05.exX) C05.exX C05.exX := by
  refine ex_fixed_point _ _ _ _ (fun i j _ _ _ => ?_)
  rw [take_eq_sub_A]; ring

example : coarseNode 2 4 = true ∧ coarseNode 2 3 = false ∧ coarseNode 1 4 = false := by decide

end C07
