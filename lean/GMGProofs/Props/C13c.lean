import GMGProofs.Props.C10e
import GMGProofs.Props.C09s
import GMGProofs.Props.C10
/-!
# C13 at the level of the code-level models: what a second solve on a used object can depend on

`C13` proves reuse = fresh on the object model of the solver.  Here the same fact where the NUMBERS are made: over `Concrete.ops`
(and therefore over the give operators too, C10g / C09c) the start-up and every cycle read nothing that an earlier solve could have
left behind — the start vector is a function of the level right-hand sides only, a cycle of `(0, sol)`, `(0, rhs)` (and `(1, rhs)` when
extrapolated) only.  Instances of the IR theorems `C09s.fmg_no_stale`, `C09s.nofmg_start`, `C10.cycle_refines`, `C10.extrap_stale_indep`
for the concrete operators; stated separately because they are what the reuse property needs from the numerical core.
-/
namespace C13c
open MGCycle Concrete

variable {α : Type} [Scalar α]

/-- the FMG start vector of the concrete model depends on the level right-hand sides only -/
theorem concrete_start_no_stale (H : Hier α) (c : Cfg) (fk : Kind) (fi : Nat) (ex fgs : Bool) (m m' : Mem (Option (Array α)))
    (h : ∀ l, m (l, Buf.rhs) = m' (l, Buf.rhs)) :
    start H c true fk fi ex fgs m (0, Buf.sol) = start H c true fk fi ex fgs m' (0, Buf.sol) :=
  C09s.fmg_no_stale (ops H) c fk fi ex fgs m m' h

/-- without FMG the start is the zero vector of level 0, whatever the memory holds -/
theorem concrete_start_zero (H : Hier α) (c : Cfg) (fk : Kind) (fi : Nat) (ex fgs : Bool) (m : Mem (Option (Array α))) :
    start H c false fk fi ex fgs m (0, Buf.sol) = (ops H).zero 0 :=
  C09s.nofmg_start (ops H) c fk fi ex fgs (c.levels - 1) m

/-- a plain concrete cycle depends on the iterate and the level-0 right-hand side only -/
theorem concrete_cycle_no_stale (H : Hier α) (c : Cfg) (k : Kind) (fgs : Bool) (m m' : Mem (Option (Array α)))
    (h0 : m (0, Buf.sol) = m' (0, Buf.sol)) (h1 : m (0, Buf.rhs) = m' (0, Buf.rhs)) :
    cycle H c k false fgs m (0, Buf.sol) = cycle H c k false fgs m' (0, Buf.sol) := by
  unfold cycle
  rw [C10.cycle_refines, C10.cycle_refines, h0, h1]

/-- an implicitly extrapolated concrete cycle depends on the iterate and the right-hand sides of levels 0 and 1 only -/
theorem concrete_excycle_no_stale (H : Hier α) (c : Cfg) (k : Kind) (fgs : Bool) (m m' : Mem (Option (Array α)))
    (h0 : m (0, Buf.sol) = m' (0, Buf.sol)) (h1 : m (0, Buf.rhs) = m' (0, Buf.rhs)) (h2 : m (1, Buf.rhs) = m' (1, Buf.rhs)) :
    cycle H c k true fgs m (0, Buf.sol) = cycle H c k true fgs m' (0, Buf.sol) := by
  unfold cycle
  rw [MGCycle.cycleAt_val (ops H) c k true fgs 0 (fun _ => rfl), MGCycle.cycleAt_val (ops H) c k true fgs 0 (fun _ => rfl)]
  simp only [MGCycle.cycleSpec, h0, h1, h2, if_true]

end C13c
