import GMGProofs.Props.C10d
import GMGProofs.Lemmas.Concrete9
import GMGProofs.Lemmas.Concrete10
/-!
# C10 (the whole cycle inside the model, continued): totality, the coarse-grid correction, translation invariance

* `concrete_cycle_total` / `concrete_cycle_total_bc`: on an admissible hierarchy (Dirichlet inner boundary on every smoothing level,
  `tiny 1 = false`, a coarse sparse LU whose `tiny` test does not fire) the concrete cycle never ends in `none` — the modelled
  process neither leaves through the sparse LU's `std::exit` branch nor stores out of bounds — for ANY iterate and right-hand
  side, any depth, V/W/F, any smoothing counts; and the result has the size of the level-0 grid.  Ellipticity, grid sizes and
  non-zero coarse pivots are not needed for this.
* `concrete_two_level_correction_arr` / `concrete_two_level_correction`: two levels without smoothing: the new iterate is `u + P e`
  where `e` SOLVES the coarse system `A₁ e = R (f − A₀ u)` assembled by the code-level direct solver (C10's clause "two levels
  without smoothing equal u + P A_c⁻¹ R (f − A u)" with A_c⁻¹ no longer abstract).  `_arr`: `R` applied to the residual array
  the code holds (no shape assumption); the other: `R` applied to the residual field, which needs the pair / the coarse level
  to fit the fine grid (`two_level_correction_pair_needed`: false otherwise).
* `concrete_cycle_translate` / `concrete_cycle_translate_bc` (error propagation does not depend on the solution): shifting the iterate
  by `w` and the right-hand side by `A₀ w` shifts the result by `w`.
Property theorems only; helper lemmas in `GMGProofs/Lemmas/Concrete*.lean`.
-/
namespace C10e
open MGCycle Concrete Stencil C10d

section Ordered
variable {K : Type} [_root_.Field K] [LinearOrder K] [IsStrictOrderedRing K]

omit [LinearOrder K] [IsStrictOrderedRing K] in
/-- **the concrete cycle is total**, minimal hypotheses: a Dirichlet inner boundary on the smoothing levels (then the only sparse LU
    inside a sweep has pivots 1), `tiny 1 = false`, the coarse assembly in bounds, `tiny` firing on no coarse pivot.  No
    ellipticity, no size conditions on the grids, no order on the field, zero coarse pivots allowed (`x / 0` is a value of the
    model; with IEEE doubles it is ±inf/NaN, which the C++ does not test either). -/
theorem concrete_cycle_total_bc (H : Hier K) (L : Nat) (hL : 2 ≤ L) (k : Kind) (nu1 nu2 : Nat) (fgs : Bool) (u f : Array K)
    (hbc : ∀ l, l + 1 < L → (lvl H l).op.bc = true) (ht1 : H.tiny 1 = false)
    (M : SparseLU.CSR K) (hM : DirectCode.assemble H.tables (lvl H (L - 1)).op = some M)
    (ht : ∀ r, r < M.rows → H.tiny (SparseLU.den ((SparseLU.factorRows M).2.getD r []) r) = false)
    (hu : u.size = (lvl H 0).op.nr * (lvl H 0).op.nt)
    (m : Mem (Option (Array K))) (hm : m (0, Buf.sol) = some u) (hr : m (0, Buf.rhs) = some f) :
    ∃ y, cycle H ⟨L, nu1, nu2⟩ k false fgs m (0, Buf.sol) = some y ∧ y.size = (lvl H 0).op.nr * (lvl H 0).op.nt := by
  unfold cycle
  rw [C10.cycle_refines, hm, hr]
  exact cyc_inv (ops H) ⟨L, nu1, nu2⟩ (PU H) (QF H) (opsInv H L nu1 nu2 hL hbc ht1 M hM ht) _ k 0 (some u) (some f)
    (show 0 < L - 1 by omega) ⟨u, rfl, hu⟩ ⟨f, rfl, fun h => absurd h (Nat.lt_irrefl 0)⟩

omit [IsStrictOrderedRing K] in
/-- **the concrete cycle is total** (the hypotheses of `C10d.concrete_exact_fixed_depth`, without exactness of `u`) -/
theorem concrete_cycle_total (H : Hier K) (L : Nat) (hL : 2 ≤ L) (k : Kind) (nu1 nu2 : Nat) (fgs : Bool) (u f : Array K)
    (hlev : ∀ l, l + 1 < L → LevelOK (lvl H l)) (ht1 : H.tiny 1 = false)
    (M : SparseLU.CSR K) (hM : DirectCode.assemble H.tables (lvl H (L - 1)).op = some M)
    (ht : ∀ r, r < M.rows → H.tiny (SparseLU.den ((SparseLU.factorRows M).2.getD r []) r) = false)
    (hu : u.size = (lvl H 0).op.nr * (lvl H 0).op.nt)
    (m : Mem (Option (Array K))) (hm : m (0, Buf.sol) = some u) (hr : m (0, Buf.rhs) = some f) :
    ∃ y, cycle H ⟨L, nu1, nu2⟩ k false fgs m (0, Buf.sol) = some y ∧ y.size = (lvl H 0).op.nr * (lvl H 0).op.nt :=
  concrete_cycle_total_bc H L hL k nu1 nu2 fgs u f (fun l h => (hlev l h).bc) ht1 M hM ht hu m hm hr

/-- **two levels, no smoothing: the coarse-grid correction with the code-level coarse solve**, no assumption on the shapes: the
    right-hand side of the coarse system is the restriction of the residual ARRAY the code holds, read back as a node field
    (zero outside the fine grid) -/
theorem concrete_two_level_correction_arr (H : Hier K) (k : Kind) (fgs : Bool) (u f y : Array K)
    (htab : H.tables = C04c.genTables)
    (hnr1 : 4 ≤ (lvl H 1).op.nr) (hnt1 : 4 ≤ (lvl H 1).op.nt) (heven1 : (lvl H 1).op.nt % 2 = 0)
    (hbc1 : (lvl H 1).op.bc = true) (he1 : Elliptic (lvl H 1).op)
    (hu : u.size = (lvl H 0).op.nr * (lvl H 0).op.nt)
    (m : Mem (Option (Array K))) (hm : m (0, Buf.sol) = some u) (hr : m (0, Buf.rhs) = some f)
    (hy : cycle H ⟨2, 0, 0⟩ k false fgs m (0, Buf.sol) = some y) :
    ∃ e : Array K, e.size = (lvl H 1).op.nr * (lvl H 1).op.nt ∧
      (∀ I J, I < (lvl H 1).op.nr → J < (lvl H 1).op.nt →
        take (lvl H 1).op
          (Interp.restrict (pair H 0) (SmootherCode.fld (lvl H 0).op.nt
            (SmootherCode.ofField (lvl H 0).op.nr (lvl H 0).op.nt
              (take (lvl H 0).op (SmootherCode.fld (lvl H 0).op.nt f) (SmootherCode.fld (lvl H 0).op.nt u)))))
          (SmootherCode.fld (lvl H 1).op.nt e) I J = 0) ∧
      ∀ i j, i < (lvl H 0).op.nr → j < (lvl H 0).op.nt →
        SmootherCode.fld (lvl H 0).op.nt y i j =
          SmootherCode.fld (lvl H 0).op.nt u i j + Interp.prolong (pair H 0) (SmootherCode.fld (lvl H 1).op.nt e) i j := by
  unfold cycle at hy
  rw [C10.two_level_nosm (ops H) ⟨2, 0, 0⟩ k fgs m rfl rfl rfl, hm, hr] at hy
  exact ops_correction H u f y htab hnr1 hnt1 heven1 hbc1 he1 hu hy

/-- **two levels, no smoothing: `y = u + P e` with `A₁ e = R (f − A₀ u)`**, the residual as a node field.  `hpair`, `hshape`: the
    transfer pair describes (at most) the fine grid and the coarse grid has (at most) every second node — what `setup()` builds
    (`C10c.TwoLevel.pairF`, `.shape1` with equalities); without them `Interp.restrict` at a coarse node would read nodes outside
    the fine grid, where the code reads the residual ARRAY (zeros) and `take …` is some other value. -/
theorem concrete_two_level_correction (H : Hier K) (k : Kind) (fgs : Bool) (u f y : Array K)
    (htab : H.tables = C04c.genTables)
    (hnr1 : 4 ≤ (lvl H 1).op.nr) (hnt1 : 4 ≤ (lvl H 1).op.nt) (heven1 : (lvl H 1).op.nt % 2 = 0)
    (hbc1 : (lvl H 1).op.bc = true) (he1 : Elliptic (lvl H 1).op)
    (hpair : (pair H 0).nrF ≤ (lvl H 0).op.nr ∧ (pair H 0).ntF ≤ (lvl H 0).op.nt)
    (hshape : 2 * (lvl H 1).op.nr ≤ (lvl H 0).op.nr + 1 ∧ 2 * (lvl H 1).op.nt ≤ (lvl H 0).op.nt)
    (hu : u.size = (lvl H 0).op.nr * (lvl H 0).op.nt)
    (m : Mem (Option (Array K))) (hm : m (0, Buf.sol) = some u) (hr : m (0, Buf.rhs) = some f)
    (hy : cycle H ⟨2, 0, 0⟩ k false fgs m (0, Buf.sol) = some y) :
    ∃ e : Array K, e.size = (lvl H 1).op.nr * (lvl H 1).op.nt ∧
      (∀ I J, I < (lvl H 1).op.nr → J < (lvl H 1).op.nt →
        take (lvl H 1).op
          (Interp.restrict (pair H 0) (take (lvl H 0).op (SmootherCode.fld (lvl H 0).op.nt f) (SmootherCode.fld (lvl H 0).op.nt u)))
          (SmootherCode.fld (lvl H 1).op.nt e) I J = 0) ∧
      ∀ i j, i < (lvl H 0).op.nr → j < (lvl H 0).op.nt →
        SmootherCode.fld (lvl H 0).op.nt y i j =
          SmootherCode.fld (lvl H 0).op.nt u i j + Interp.prolong (pair H 0) (SmootherCode.fld (lvl H 1).op.nt e) i j := by
  obtain ⟨e, h1, h2, h3⟩ := concrete_two_level_correction_arr H k fgs u f y htab hnr1 hnt1 heven1 hbc1 he1 hu m hm hr hy
  refine ⟨e, h1, fun I J hI hJ => ?_, h3⟩
  rw [← h2 I J hI hJ]
  apply take_congr_rhs
  refine restrict_congr_grid (pair H 0) (lvl H 0).op.nr (lvl H 0).op.nt _ _
    (fun a b ha hb => (fld_ofField_grid _ _ _ a b ha hb).symm) I J (by omega) (fun h => ?_) (by omega) hpair.2
  unfold Interp.nrC at h
  omega

/-- **translation invariance**, strongest form: only level 0 has to be an admissible smoothing level (uniqueness of the sweep
    equations), the other smoothing levels need the Dirichlet inner boundary (totality); the cycle on `(u, f)` returns some `y` of
    the size of level 0 and the cycle on `(u + w, f + g)` returns `y + w`.  Nothing is assumed about the sizes of `w`, `g` (the
    model reads them with a default and only on the grid); `f` must cover the grid, otherwise `f += g` is cut off. -/
theorem concrete_cycle_translate_bc (H : Hier K) (L : Nat) (hL : 2 ≤ L) (k : Kind) (nu1 nu2 : Nat) (fgs : Bool) (u f w g : Array K)
    (h0 : LevelOK (lvl H 0)) (hbc : ∀ l, l + 1 < L → (lvl H l).op.bc = true) (ht1 : H.tiny 1 = false)
    (M : SparseLU.CSR K) (hM : DirectCode.assemble H.tables (lvl H (L - 1)).op = some M)
    (ht : ∀ r, r < M.rows → H.tiny (SparseLU.den ((SparseLU.factorRows M).2.getD r []) r) = false)
    (hu : u.size = (lvl H 0).op.nr * (lvl H 0).op.nt) (hf : (lvl H 0).op.nr * (lvl H 0).op.nt ≤ f.size)
    (hAw : ∀ i j, i < (lvl H 0).op.nr → j < (lvl H 0).op.nt →
      take (lvl H 0).op (SmootherCode.fld (lvl H 0).op.nt g) (SmootherCode.fld (lvl H 0).op.nt w) i j = 0)
    (m m' : Mem (Option (Array K)))
    (hm : m (0, Buf.sol) = some u) (hr : m (0, Buf.rhs) = some f)
    (hm' : m' (0, Buf.sol) = some (Array.ofFn (n := u.size) fun p => u[p] + w.getD p.val 0))
    (hr' : m' (0, Buf.rhs) = some (Array.ofFn (n := f.size) fun p => f[p] + g.getD p.val 0)) :
    ∃ y, y.size = (lvl H 0).op.nr * (lvl H 0).op.nt ∧
      cycle H ⟨L, nu1, nu2⟩ k false fgs m (0, Buf.sol) = some y ∧
      cycle H ⟨L, nu1, nu2⟩ k false fgs m' (0, Buf.sol) = some (Array.ofFn (n := y.size) fun p => y[p] + w.getD p.val 0) := by
  have h := cyc_translate H L nu1 nu2 hL k h0.hyp hbc ht1 M hM ht f g w hf hAw (some u) (some (addArr u w)) ⟨u, rfl, hu, rfl⟩
  obtain ⟨y, h1, h2, h3⟩ := h
  refine ⟨y, h2, ?_, ?_⟩
  · unfold cycle
    rw [C10.cycle_refines, hm, hr]
    exact h1
  · unfold cycle
    rw [C10.cycle_refines, hm', hr']
    exact h3

/-- **translation invariance** (the error propagation of the concrete cycle does not depend on the solution): if `A₀ w = g`
    (stated as `take op₀ g w = 0`), then running the cycle on `(u + w, f + g)` gives the result for `(u, f)` shifted by `w` -/
theorem concrete_cycle_translate (H : Hier K) (L : Nat) (hL : 2 ≤ L) (k : Kind) (nu1 nu2 : Nat) (fgs : Bool) (u f w g y : Array K)
    (hlev : ∀ l, l + 1 < L → LevelOK (lvl H l)) (ht1 : H.tiny 1 = false)
    (M : SparseLU.CSR K) (hM : DirectCode.assemble H.tables (lvl H (L - 1)).op = some M)
    (ht : ∀ r, r < M.rows → H.tiny (SparseLU.den ((SparseLU.factorRows M).2.getD r []) r) = false)
    (hu : u.size = (lvl H 0).op.nr * (lvl H 0).op.nt) (hf : (lvl H 0).op.nr * (lvl H 0).op.nt ≤ f.size)
    (hAw : ∀ i j, i < (lvl H 0).op.nr → j < (lvl H 0).op.nt →
      take (lvl H 0).op (SmootherCode.fld (lvl H 0).op.nt g) (SmootherCode.fld (lvl H 0).op.nt w) i j = 0)
    (m m' : Mem (Option (Array K)))
    (hm : m (0, Buf.sol) = some u) (hr : m (0, Buf.rhs) = some f)
    (hm' : m' (0, Buf.sol) = some (Array.ofFn (n := u.size) fun p => u[p] + w.getD p.val 0))
    (hr' : m' (0, Buf.rhs) = some (Array.ofFn (n := f.size) fun p => f[p] + g.getD p.val 0))
    (hy : cycle H ⟨L, nu1, nu2⟩ k false fgs m (0, Buf.sol) = some y) :
    cycle H ⟨L, nu1, nu2⟩ k false fgs m' (0, Buf.sol) = some (Array.ofFn (n := y.size) fun p => y[p] + w.getD p.val 0) := by
  obtain ⟨y', _, h1, h2⟩ := concrete_cycle_translate_bc H L hL k nu1 nu2 fgs u f w g (hlev 0 (by omega))
    (fun l h => (hlev l h).bc) ht1 M hM ht hu hf hAw m m' hm hr hm' hr'
  rw [hy] at h1
  rw [Option.some.inj h1]
  exact h2

end Ordered

/-! ## non-vacuity, and the shape hypotheses of `concrete_two_level_correction` are needed -/

/-- the coarse level of `C10c.exH` carries elliptic data (it is a direct-solve level there, so `C10c` did not need this) -/
theorem exL1_elliptic : Elliptic C10c.exL1.op where
  h_pos := fun i _ => by simp only [C10c.exL1]; positivity
  k_pos := fun j _ => by simp only [C10c.exL1]; positivity
  arr_pos := fun i j _ _ => by simp only [C10c.exL1]; positivity
  att_pos := fun i j _ _ => by simp only [C10c.exL1]; positivity
  art_le := fun i j _ _ => by
    simp only [C10c.exL1]
    have hi : (0 : ℚ) ≤ i := Nat.cast_nonneg i
    have hj : (0 : ℚ) ≤ j := Nat.cast_nonneg j
    nlinarith [mul_nonneg hi hj, mul_nonneg (mul_nonneg hi hj) hi, mul_nonneg (mul_nonneg hi hj) hj]
  beta_nonneg := fun i _ => by simp only [C10c.exL1]; positivity
  det_nonneg := fun i j _ _ => by simp only [C10c.exL1]; positivity

/-- `concrete_cycle_total` on the three-level hierarchy `C10d.exH3` (13 × 16 → 7 × 8 → 4 × 4): EVERY iterate of the right size and
    EVERY right-hand side, any kind, any smoothing counts -/
example (k : Kind) (nu1 nu2 : Nat) (fgs : Bool) (u f : Array ℚ) (hu : u.size = 13 * 16) (m : Mem (Option (Array ℚ)))
    (hm : m (0, Buf.sol) = some u) (hr : m (0, Buf.rhs) = some f) :
    ∃ y, cycle exH3 ⟨3, nu1, nu2⟩ k false fgs m (0, Buf.sol) = some y ∧ y.size = 13 * 16 := by
  obtain ⟨M, hM⟩ := C04c.assemble_in_bounds C10c.exL1.op (by decide)
  exact concrete_cycle_total exH3 3 (by decide) k nu1 nu2 fgs u f exH3_levels (by decide +kernel) M hM
    (fun r hr' => (C10c.exH_twoLevel.coarse_ok M hM r hr').1) hu m hm hr

/-- `concrete_two_level_correction` on `C10c.exH` (7 × 8 → 4 × 4): every hypothesis holds (level 1 is 4 × 4, Dirichlet, elliptic; the
    pair and the shapes are those of `C10c.exH_twoLevel`), and the hypothesis `hy` is met for EVERY iterate of the right size and
    every right-hand side, by `concrete_cycle_total` -/
example (k : Kind) (fgs : Bool) (u f : Array ℚ) (hu : u.size = 7 * 8) (m : Mem (Option (Array ℚ)))
    (hm : m (0, Buf.sol) = some u) (hr : m (0, Buf.rhs) = some f) :
    ∃ y e : Array ℚ, cycle C10c.exH ⟨2, 0, 0⟩ k false fgs m (0, Buf.sol) = some y ∧ e.size = 4 * 4 ∧
      (∀ I J, I < 4 → J < 4 →
        take C10c.exL1.op (Interp.restrict C10c.exP (take C10c.exL0.op (SmootherCode.fld 8 f) (SmootherCode.fld 8 u)))
          (SmootherCode.fld 4 e) I J = 0) ∧
      ∀ i j, i < 7 → j < 8 →
        SmootherCode.fld 8 y i j = SmootherCode.fld 8 u i j + Interp.prolong C10c.exP (SmootherCode.fld 4 e) i j := by
  obtain ⟨M, hM⟩ := C04c.assemble_in_bounds C10c.exL1.op (by decide)
  have hlev : ∀ l, l + 1 < 2 → LevelOK (lvl C10c.exH l) := by
    intro l hl
    have : l = 0 := by omega
    subst this
    exact ⟨by decide, by decide, by decide, by decide, rfl, C10c.exL0_elliptic⟩
  obtain ⟨y, hy, _⟩ := concrete_cycle_total C10c.exH 2 (by decide) k 0 0 fgs u f hlev (by decide +kernel) M hM
    (fun r hr' => (C10c.exH_twoLevel.coarse_ok M hM r hr').1) hu m hm hr
  obtain ⟨e, h1, h2, h3⟩ := concrete_two_level_correction C10c.exH k fgs u f y rfl (by decide) (by decide) (by decide) rfl
    exL1_elliptic ⟨by decide, by decide⟩ ⟨by decide, by decide⟩ hu m hm hr hy
  exact ⟨y, e, hy, h1, h2, h3⟩

/-- `concrete_cycle_translate` on `C10d.exH3`: shift by the non-zero field `C10d.exU` with `g := A₀ exU = C10d.exF`; every iterate of
    the right size, every right-hand side covering the grid; the hypothesis `hy` is met by `concrete_cycle_total` -/
example (k : Kind) (nu1 nu2 : Nat) (fgs : Bool) (u f : Array ℚ) (hu : u.size = 13 * 16) (hf : 13 * 16 ≤ f.size)
    (m m' : Mem (Option (Array ℚ))) (hm : m (0, Buf.sol) = some u) (hr : m (0, Buf.rhs) = some f)
    (hm' : m' (0, Buf.sol) = some (Array.ofFn (n := u.size) fun p => u[p] + exU.getD p.val 0))
    (hr' : m' (0, Buf.rhs) = some (Array.ofFn (n := f.size) fun p => f[p] + exF.getD p.val 0)) :
    ∃ y, cycle exH3 ⟨3, nu1, nu2⟩ k false fgs m (0, Buf.sol) = some y ∧
      cycle exH3 ⟨3, nu1, nu2⟩ k false fgs m' (0, Buf.sol) =
        some (Array.ofFn (n := y.size) fun p => y[p] + exU.getD p.val 0) ∧ exU[10]? = some (-29 : ℚ) := by
  obtain ⟨M, hM⟩ := C04c.assemble_in_bounds C10c.exL1.op (by decide)
  have ht : ∀ r, r < M.rows → exH3.tiny (SparseLU.den ((SparseLU.factorRows M).2.getD r []) r) = false :=
    fun r hr' => (C10c.exH_twoLevel.coarse_ok M hM r hr').1
  obtain ⟨y, hy, _⟩ := concrete_cycle_total exH3 3 (by decide) k nu1 nu2 fgs u f exH3_levels (by decide +kernel) M hM ht hu m hm hr
  exact ⟨y, hy, concrete_cycle_translate exH3 3 (by decide) k nu1 nu2 fgs u f exU exF y exH3_levels (by decide +kernel) M hM ht
    hu hf exU_sol m m' hm hr hm' hr' hy, by decide +kernel⟩

/-! ### the statement of `concrete_two_level_correction` without `hpair` is false
`C10c.exH` with the transfer pair claiming `ntF = 16` angular nodes on the fine level (which has 8): the restriction at the coarse
node `(0, 0)` then reads the fine "node" `(0, 15)`.  The code reads entry `0 * 8 + 15` of the residual ARRAY — the residual at
node `(1, 7)` — whereas `take … 0 15` is `f[15] - u[15]` (the Dirichlet row formula applied off the grid). -/

def badP : Interp.Pair ℚ := { C10c.exP with ntF := 16 }
def badH : Hier ℚ := ⟨[C10c.exL0, C10c.exL1], [badP], C06c.exTiny, C04c.genTables⟩

/-- the two right-hand sides at the coarse node `(0, 0)`: restriction of the residual field vs of the residual array -/
theorem bad_rhs_differ :
    Interp.restrict badP (take C10c.exL0.op (SmootherCode.fld 8 C10c.exF) (SmootherCode.fld 8 C10c.exU)) 0 0 ≠
    Interp.restrict badP (SmootherCode.fld 8 (SmootherCode.ofField 7 8
      (take C10c.exL0.op (SmootherCode.fld 8 C10c.exF) (SmootherCode.fld 8 C10c.exU)))) 0 0 := by
  decide +kernel

/-- **`hpair` is needed**: every other hypothesis of `concrete_two_level_correction` holds for `badH` (also `hshape`, and level 0
    satisfies `LevelOK`), the cycle returns some `y`, and NO `e` satisfies the conclusion -/
theorem two_level_correction_pair_needed :
    ∃ (H : Hier ℚ) (u f y : Array ℚ) (m : Mem (Option (Array ℚ))),
      H.tables = C04c.genTables ∧ 4 ≤ (lvl H 1).op.nr ∧ 4 ≤ (lvl H 1).op.nt ∧ (lvl H 1).op.nt % 2 = 0 ∧
      (lvl H 1).op.bc = true ∧ Elliptic (lvl H 1).op ∧ LevelOK (lvl H 0) ∧
      (2 * (lvl H 1).op.nr ≤ (lvl H 0).op.nr + 1 ∧ 2 * (lvl H 1).op.nt ≤ (lvl H 0).op.nt) ∧
      u.size = (lvl H 0).op.nr * (lvl H 0).op.nt ∧ m (0, Buf.sol) = some u ∧ m (0, Buf.rhs) = some f ∧
      cycle H ⟨2, 0, 0⟩ Kind.V false true m (0, Buf.sol) = some y ∧
      ¬ ∃ e : Array ℚ, e.size = (lvl H 1).op.nr * (lvl H 1).op.nt ∧
        (∀ I J, I < (lvl H 1).op.nr → J < (lvl H 1).op.nt →
          take (lvl H 1).op
            (Interp.restrict (pair H 0)
              (take (lvl H 0).op (SmootherCode.fld (lvl H 0).op.nt f) (SmootherCode.fld (lvl H 0).op.nt u)))
            (SmootherCode.fld (lvl H 1).op.nt e) I J = 0) ∧
        ∀ i j, i < (lvl H 0).op.nr → j < (lvl H 0).op.nt →
          SmootherCode.fld (lvl H 0).op.nt y i j =
            SmootherCode.fld (lvl H 0).op.nt u i j + Interp.prolong (pair H 0) (SmootherCode.fld (lvl H 1).op.nt e) i j := by
  let m : Mem (Option (Array ℚ)) := fun r => if r = (0, Buf.sol) then some C10c.exU else some C10c.exF
  have hm : m (0, Buf.sol) = some C10c.exU := rfl
  have hr : m (0, Buf.rhs) = some C10c.exF := rfl
  have hl0 : lvl badH 0 = C10c.exL0 := rfl
  have hl1 : lvl badH 1 = C10c.exL1 := rfl
  have hp0 : pair badH 0 = badP := rfl
  have hu : C10c.exU.size = (lvl badH 0).op.nr * (lvl badH 0).op.nt := by
    rw [hl0]; simp [C10c.exU, C10c.exL0, SmootherCode.ofField]
  have hok : LevelOK (lvl badH 0) := ⟨by decide, by decide, by decide, by decide, rfl, C10c.exL0_elliptic⟩
  obtain ⟨M, hM⟩ := C04c.assemble_in_bounds C10c.exL1.op (by decide)
  obtain ⟨y, hy, _⟩ := concrete_cycle_total_bc badH 2 (by decide) Kind.V 0 0 true C10c.exU C10c.exF
    (fun l hl => by have : l = 0 := by omega
                    subst this; rfl)
    (by decide +kernel) M hM (fun r hr' => (C10c.exH_twoLevel.coarse_ok M hM r hr').1) hu m hm hr
  refine ⟨badH, C10c.exU, C10c.exF, y, m, rfl, by decide, by decide, by decide, rfl, exL1_elliptic, hok,
    ⟨by decide, by decide⟩, hu, hm, hr, hy, ?_⟩
  rintro ⟨e, _, h2, h3⟩
  obtain ⟨e', _, h2', h3'⟩ := concrete_two_level_correction_arr badH Kind.V true C10c.exU C10c.exF y rfl (by decide) (by decide)
    (by decide) rfl exL1_elliptic hu m hm hr hy
  have a := h2 0 0 (by decide) (by decide)
  have a' := h2' 0 0 (by decide) (by decide)
  have b := h3 0 0 (by decide) (by decide)
  have b' := h3' 0 0 (by decide) (by decide)
  rw [take_dirichlet_row _ rfl] at a a'
  have p0 : ∀ x : Stencil.Field ℚ, Interp.prolong (pair badH 0) x 0 0 = x 0 0 := fun x => by simp [Interp.prolong]
  rw [p0] at b b'
  rw [hl0, hl1, hp0] at a a'
  rw [hl0, hl1] at b b'
  have key : Interp.restrict badP (take C10c.exL0.op (SmootherCode.fld C10c.exL0.op.nt C10c.exF)
        (SmootherCode.fld C10c.exL0.op.nt C10c.exU)) 0 0 =
      Interp.restrict badP (SmootherCode.fld C10c.exL0.op.nt (SmootherCode.ofField C10c.exL0.op.nr C10c.exL0.op.nt
        (take C10c.exL0.op (SmootherCode.fld C10c.exL0.op.nt C10c.exF) (SmootherCode.fld C10c.exL0.op.nt C10c.exU)))) 0 0 := by
    linear_combination a - a' + b' - b
  exact bad_rhs_differ key

end C10e
