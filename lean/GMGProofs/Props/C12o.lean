import GMGProofs.Lemmas.OwnerOrder
import GMGProofs.Props.C11o
/-!
# C12 (second part) — the owner-computes parallel regions do not depend on the thread count or the schedule

Property theorems only (proofs: `GMGProofs/Lemmas/OwnerOrder.lean`, frame lemma and permutation invariance:
`GMGProofs/Lemmas/SchedOrder.lean`).

`C12.generated_regions_deterministic` is the statement for the twelve kernel-dispatch regions; here is the same statement
for all the other `#pragma omp parallel …` regions (`Owner.Gen.all`, regenerated from the C++ on every check).  The loops
that may run concurrently are those not separated by a barrier (`Owner.pairs`); the work items are the pairs
`(loop position, iteration)`; the footprint of a work item is `OLoop.touches` (reads and writes alike).  C11
(`C11o.owner_regions_race_free`) makes the footprints pairwise non-interfering, so every order of the work items — whatever
the thread count, chunking and interleaving — gives the same memory, for every value type `V`, in particular IEEE doubles.

Execution model as in C12: a barrier interval is executed as its work items in *some* order (serialisation; that a
data-race-free OpenMP program has only such executions is the OpenMP memory model's guarantee, not proved here).
Reduction loops (`kind = .reduce`) touch no shared cell in this model; what the reduction clause computes is
`C12.reduce_chunks` / `C12.reduce_chunks_max`.
-/
namespace C12o
open Owner
open Sched.Order (Respects NonInterfering)

/-- a memory location of an owner-computes region: (array, row, column) -/
abbrev Cell := String × Int × Int

/-- footprint of iteration `t` of loop `l` as a set of cells -/
def foot (s : Sched.Shape) (l : Owner.OLoop) (t : Int) : Cell → Prop := fun x => l.touches s t x.1 x.2.1 x.2.2

/-- race freedom is exactly non-interference of the iteration footprints (reads = writes = `foot`): two distinct work
    items `(ia, t) ≠ (ib, t')` whose loop positions are equal, or not separated by a barrier, do not interfere -/
theorem nonInterfering_of_raceFree {s : Sched.Shape} {reg : Owner.ORegion} (hrf : Owner.RaceFree s reg)
    {ia ib : Nat} {t t' : Int} (hia : ia < reg.loops.length)
    (hpair : ia < ib → (ia, ib) ∈ Owner.pairs reg) (hpair' : ib < ia → (ib, ia) ∈ Owner.pairs reg)
    (ht : (reg.loops.getD ia default).iter s t) (ht' : (reg.loops.getD ib default).iter s t')
    (hne : (ia, t) ≠ (ib, t')) :
    NonInterfering (foot s (reg.loops.getD ia default) t) (foot s (reg.loops.getD ia default) t)
      (foot s (reg.loops.getD ib default) t') (foot s (reg.loops.getD ib default) t') :=
  Owner.Order.nonInterfering_of_raceFree hrf hia hpair hpair' ht ht' hne

/-- … and conversely: non-interfering footprints have no common cell -/
theorem disjoint_of_nonInterfering {s : Sched.Shape} {l l' : Owner.OLoop} {t t' : Int}
    (h : NonInterfering (foot s l t) (foot s l t) (foot s l' t') (foot s l' t')) (a : String) (r c : Int) :
    ¬ (l.touches s t a r c ∧ l'.touches s t' a r c) :=
  fun ⟨h1, h2⟩ => h.1 (a, r, c) h1 (Or.inr h2)

/-- determinism of ANY race-free owner-computes region (generated or not) -/
theorem owner_deterministic_of_raceFree {V : Type} (s : Sched.Shape) (reg : Owner.ORegion) (hrf : Owner.RaceFree s reg)
    (I : List Nat) (hI : ∀ ia ∈ I, ∀ ib ∈ I, ia < ib → (ia, ib) ∈ Owner.pairs reg)
    (run : Nat → Int → (Cell → V) → (Cell → V))
    (hrun : ∀ ia ∈ I, ∀ t, (reg.loops.getD ia default).iter s t →
      Respects (run ia t) (foot s (reg.loops.getD ia default) t) (foot s (reg.loops.getD ia default) t))
    (items items' : List (Nat × Int)) (hnd : items.Nodup)
    (hmem : ∀ p ∈ items, p.1 ∈ I ∧ p.1 < reg.loops.length ∧ (reg.loops.getD p.1 default).iter s p.2)
    (hp : items.Perm items') (m : Cell → V) :
    items.foldl (fun acc p => run p.1 p.2 acc) m = items'.foldl (fun acc p => run p.1 p.2 acc) m :=
  Owner.Order.deterministic_of_raceFree hrf I hI run hrun items items' hnd hmem hp m

/-- **determinism of the owner-computes regions**: for every generated region, every shape, every set `I` of loop positions
    that are pairwise not separated by a barrier (i.e. that may run concurrently), if the code of each iteration respects its
    footprint (`Respects (run ia t) (foot …) (foot …)`: it writes only its own cells, and what it writes depends only on
    them — every other array it reads is not written in the region), then any two orders of the work items
    `(loop position, iteration)` give the same memory, for every value type `V` (hence bit for bit in double) -/
theorem owner_regions_deterministic {V : Type} (s : Sched.Shape) (reg : Owner.ORegion) (hreg : reg ∈ Owner.Gen.all)
    (I : List Nat) (hI : ∀ ia ∈ I, ∀ ib ∈ I, ia < ib → (ia, ib) ∈ Owner.pairs reg)
    (run : Nat → Int → (Cell → V) → (Cell → V))
    (hrun : ∀ ia ∈ I, ∀ t, (reg.loops.getD ia default).iter s t →
      Respects (run ia t) (foot s (reg.loops.getD ia default) t) (foot s (reg.loops.getD ia default) t))
    (items items' : List (Nat × Int)) (hnd : items.Nodup)
    (hmem : ∀ p ∈ items, p.1 ∈ I ∧ p.1 < reg.loops.length ∧ (reg.loops.getD p.1 default).iter s p.2)
    (hp : items.Perm items') (m : Cell → V) :
    items.foldl (fun acc p => run p.1 p.2 acc) m = items'.foldl (fun acc p => run p.1 p.2 acc) m :=
  owner_deterministic_of_raceFree s reg (C11o.owner_regions_race_free reg hreg s) I hI run hrun items items' hnd hmem hp m

/-! ## non-vacuity and sensitivity -/

open Classical in
/-- a concrete code for the work items of a region: iteration `t` of loop `ia` writes the constant `ia + 1` to its own cells -/
noncomputable def paint (s : Sched.Shape) (reg : Owner.ORegion) (ia : Nat) (t : Int) (m : Cell → Nat) : Cell → Nat :=
  fun x => if foot s (reg.loops.getD ia default) t x then ia + 1 else m x

/-- `paint` respects the footprints, for every region, shape, loop and iteration -/
theorem paint_respects (s : Sched.Shape) (reg : Owner.ORegion) (ia : Nat) (t : Int) :
    Respects (paint s reg ia t) (foot s (reg.loops.getD ia default) t) (foot s (reg.loops.getD ia default) t) := by
  classical
  exact Owner.Order.respects_paint _ _ _

/-- the hypotheses of `owner_regions_deterministic` are satisfiable with concurrent work: the optimised prolongation on the
    shape `⟨9, 8, 4⟩`, both `nowait` loops (`I = [0, 1]`), the code `paint`, one circle row (loop 0, `i_r = 3`) and two
    radial columns (loop 1, `i_θ = 5, 6`).  The final memory really is changed (cell `(3, 5)` is written by loop 0,
    `(6, 5)` by loop 1, `(3, 9)` by nobody), and the reversed order gives the same memory. -/
example :
    let s : Sched.Shape := ⟨9, 8, 4⟩
    let reg := Gen.rsrc_Interpolation_prolongation_cpp_1
    let I : List Nat := [0, 1]
    let items : List (Nat × Int) := [(0, 3), (1, 5), (1, 6)]
    reg ∈ Gen.all ∧
    (∀ ia ∈ I, ∀ ib ∈ I, ia < ib → (ia, ib) ∈ pairs reg) ∧
    (∀ ia ∈ I, ∀ t, (reg.loops.getD ia default).iter s t →
      Respects (paint s reg ia t) (foot s (reg.loops.getD ia default) t) (foot s (reg.loops.getD ia default) t)) ∧
    items.Nodup ∧
    (∀ p ∈ items, p.1 ∈ I ∧ p.1 < reg.loops.length ∧ (reg.loops.getD p.1 default).iter s p.2) ∧
    items.foldl (fun acc p => paint s reg p.1 p.2 acc) (fun _ => 0) ("result", 3, 5) = 1 ∧
    items.foldl (fun acc p => paint s reg p.1 p.2 acc) (fun _ => 0) ("result", 6, 5) = 2 ∧
    items.foldl (fun acc p => paint s reg p.1 p.2 acc) (fun _ => 0) ("result", 3, 9) = 0 ∧
    items.foldl (fun acc p => paint s reg p.1 p.2 acc) (fun _ => 0) =
      items.reverse.foldl (fun acc p => paint s reg p.1 p.2 acc) (fun _ => 0) := by
  intro s reg I items
  have hpairs : pairs reg = [(0, 1)] := by rfl
  have hI : ∀ ia ∈ I, ∀ ib ∈ I, ia < ib → (ia, ib) ∈ pairs reg := by
    intro ia hia ib hib hlt
    simp only [I, List.mem_cons, List.not_mem_nil, or_false] at hia hib
    rw [hpairs]
    rcases hia with rfl | rfl <;> rcases hib with rfl | rfl <;> simp at hlt ⊢
  have hnd : items.Nodup := by decide
  have hmem : ∀ p ∈ items, p.1 ∈ I ∧ p.1 < reg.loops.length ∧ (reg.loops.getD p.1 default).iter s p.2 := by
    intro p hp
    simp only [items, List.mem_cons, List.not_mem_nil, or_false] at hp
    rcases hp with rfl | rfl | rfl <;>
      simp [I, reg, s, Gen.rsrc_Interpolation_prolongation_cpp_1, OLoop.iter]
  refine ⟨by simp [reg, Gen.all], hI, fun ia _ t _ => paint_respects s reg ia t, hnd, hmem, ?_, ?_, ?_, ?_⟩
  · simp [items, paint, foot, reg, s, Gen.rsrc_Interpolation_prolongation_cpp_1, OLoop.touches]
  · simp [items, paint, foot, reg, s, Gen.rsrc_Interpolation_prolongation_cpp_1, OLoop.touches]
  · simp [items, paint, foot, reg, s, Gen.rsrc_Interpolation_prolongation_cpp_1, OLoop.touches]
  · exact owner_regions_deterministic s reg (by simp [reg, Gen.all]) I hI (paint s reg)
      (fun ia _ t _ => paint_respects s reg ia t) items items.reverse hnd hmem (List.reverse_perm items).symm _

/-- the race-freedom hypothesis is needed: in the region `C11o.badProlongation` (circle loop one row too far) the work items
    "row 4 of loop 0" and "column 0 of loop 1" both own cell `(4, 0)`; with the code `paint` the two orders differ -/
example :
    let s : Sched.Shape := ⟨9, 8, 4⟩
    let reg := C11o.badProlongation
    ([(0, 4), (1, 0)] : List (Nat × Int)).foldl (fun acc p => paint s reg p.1 p.2 acc) (fun _ => 0) ("result", 4, 0) = 2 ∧
    ([(1, 0), (0, 4)] : List (Nat × Int)).foldl (fun acc p => paint s reg p.1 p.2 acc) (fun _ => 0) ("result", 4, 0) = 1 := by
  intro s reg
  constructor <;> simp [paint, foot, reg, s, C11o.badProlongation, OLoop.touches]

end C12o
