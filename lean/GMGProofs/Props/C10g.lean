import GMGProofs.Props.C10e
import GMGProofs.Props.C06g
import GMGProofs.Props.C07g
import GMGProofs.Props.C04g
import GMGProofs.Props.C03
import GMGProofs.Lemmas.Concrete13
/-!
# C10 / C03 at the level of whole cycles: the GIVE strategy computes the cycle the TAKE strategy computes

`Concrete.opsGive` instantiates the control-flow IR with the code-level models of the scatter variants (`SmootherGiveCode`,
`ExSmootherGiveCode`, `Stencil.give`, `DirectGiveCode`).  The per-operator theorems (C03 `give_eq_take`, C04g, C06g, C07g) are
composed along the recursion: on an admissible hierarchy every plain and every implicitly extrapolated V-, W- and F-cycle over
`opsGive` returns exactly (same arrays, or `none` in the same cases) what the cycle over `Concrete.ops` returns.
Property theorems only; helper lemmas in `GMGProofs/Lemmas/Concrete*.lean`.
-/
namespace C10g
open MGCycle Concrete Stencil

section AnyField
variable {K : Type} [_root_.Field K]

/-- a level on which both strategies are defined: admissible sizes; across the origin the angular spacings are antipodally
    symmetric (C03 `hk_needed`: without this give and take differ) -/
structure GiveLevelOK (D : LevelData K) : Prop where
  nt : 4 ≤ D.op.nt
  even : D.op.nt % 2 = 0
  nc : 2 ≤ D.nc
  nr : D.nc + 3 ≤ D.op.nr
  hk : D.op.bc = false → ∀ j, j < D.op.nt → D.op.k (ja D.op j) = D.op.k j

/-- the coarsest level: sizes the direct solvers need -/
structure GiveCoarseOK (D : LevelData K) : Prop where
  nr : 4 ≤ D.op.nr
  nt : 4 ≤ D.op.nt
  even : D.op.nt % 2 = 0
  hk : D.op.bc = false → ∀ j, j < D.op.nt → D.op.k (ja D.op j) = D.op.k j

omit [_root_.Field K] in
theorem GiveLevelOK.res {D : LevelData K} (h : GiveLevelOK D) : ResOK D.op :=
  ⟨by have := h.nc; have := h.nr; omega, h.nt, h.even, h.hk⟩

omit [_root_.Field K] in
theorem GiveCoarseOK.res {D : LevelData K} (h : GiveCoarseOK D) : ResOK D.op := ⟨h.nr, h.nt, h.even, h.hk⟩

/-- every level of the hierarchy meets the size conditions of both residuals (the coarsest also those of both direct solvers) -/
theorem levels_res (H : Hier K) (L : Nat) (hlev : ∀ l, l + 1 < L → GiveLevelOK (lvl H l))
    (hcoarse : GiveCoarseOK (lvl H (L - 1))) : ∀ l, l < L → ResOK (lvl H l).op := by
  intro l hl
  by_cases h : l + 1 < L
  · exact (hlev l h).res
  · have : l = L - 1 := by omega
    rw [this]
    exact hcoarse.res

/-- **plain cycles: give = take**, any depth, V/W/F, any smoothing counts, any iterate and right-hand side -/
theorem give_cycle_eq_take_cycle (H : Hier K) (G : GiveTables) (hG : G.direct = C04g.genTablesGive)
    (htab : H.tables = C04c.genTables) (L : Nat) (hL : 2 ≤ L) (k : Kind) (nu1 nu2 : Nat) (fgs : Bool) (u f : Array K)
    (hlev : ∀ l, l + 1 < L → GiveLevelOK (lvl H l)) (hcoarse : GiveCoarseOK (lvl H (L - 1)))
    (hu : u.size = (lvl H 0).op.nr * (lvl H 0).op.nt)
    (m : Mem (Option (Array K))) (hm : m (0, Buf.sol) = some u) (hr : m (0, Buf.rhs) = some f) :
    cycleGive H G ⟨L, nu1, nu2⟩ k false fgs m (0, Buf.sol) = cycle H ⟨L, nu1, nu2⟩ k false fgs m (0, Buf.sol) := by
  unfold cycleGive cycle
  rw [C10.cycle_refines, C10.cycle_refines, hm, hr]
  exact cyc_agree (opsGive H G) (ops H) ⟨L, nu1, nu2⟩ (PS H) (QS H)
    (opsAgree H G hG htab L nu1 nu2 (by omega) (fun l hl => ⟨(hlev l hl).nc, (hlev l hl).nr⟩) (levels_res H L hlev hcoarse))
    (opsInvS H L nu1 nu2 hL) _ k 0 (some u) (some f) (show 0 < L - 1 by omega) (PS_some H 0 u hu)
    (fun _ _ h => absurd h (Nat.lt_irrefl 0))

/-- **implicitly extrapolated cycles: give = take** (both level-0 smoothers); the extrapolated give smoother additionally needs
    what `C07g.Admissible` lists (odd `nr`, `nc ≥ 3`, `nt % 4 = 0` across the origin, well-formed offset tables) -/
theorem give_excycle_eq_take_excycle (H : Hier K) (G : GiveTables) (hG : G.direct = C04g.genTablesGive)
    (htab : H.tables = C04c.genTables) (L : Nat) (hL : 2 ≤ L) (k : Kind) (nu1 nu2 : Nat) (fgs : Bool) (u f f1 : Array K)
    (hlev : ∀ l, l + 1 < L → GiveLevelOK (lvl H l)) (hcoarse : GiveCoarseOK (lvl H (L - 1)))
    (hex : fgs = false → ExSmootherGiveCode.Admissible G.exSmoother (lvl H 0).op (lvl H 0).nc)
    (hu : u.size = (lvl H 0).op.nr * (lvl H 0).op.nt)
    (m : Mem (Option (Array K))) (hm : m (0, Buf.sol) = some u) (hr : m (0, Buf.rhs) = some f)
    (hr1 : m (1, Buf.rhs) = some f1) :
    cycleGive H G ⟨L, nu1, nu2⟩ k true fgs m (0, Buf.sol) = cycle H ⟨L, nu1, nu2⟩ k true fgs m (0, Buf.sol) := by
  have hres := levels_res H L hlev hcoarse
  have h0 := hlev 0 (by omega)
  show exec (opsGive H G) (extrap ⟨L, nu1, nu2⟩ k fgs 0 (0, .sol) (0, .rhs) (0, .res)) m (0, .sol) =
    exec (ops H) (extrap ⟨L, nu1, nu2⟩ k fgs 0 (0, .sol) (0, .rhs) (0, .res)) m (0, .sol)
  rw [extrap_val, extrap_val, hm, hr, hr1]
  exact excyc_agree (opsGive H G) (ops H) ⟨L, nu1, nu2⟩ (PS H) (QS H)
    (opsAgree H G hG htab L nu1 nu2 (by omega) (fun l hl => ⟨(hlev l hl).nc, (hlev l hl).nr⟩) hres)
    (opsInvS H L nu1 nu2 hL) fgs
    (exOpsAgree H G fgs ⟨h0.nc, h0.nr⟩ (hres 0 (by omega)) (hres 1 (by omega)) hex) (exOpsInvS H fgs)
    (show 1 ≤ L - 1 by omega) k (some u) (some f) (some f1) (PS_some H 0 u hu) (fun _ _ h => absurd h (Nat.lt_irrefl 0))

end AnyField

/-! ## non-vacuity -/

/-- the generated offset tables of the two give headers -/
def genG : GiveTables := ⟨C04g.genTablesGive, C07g.genTables⟩

theorem exH3_levels : ∀ l, l + 1 < 3 → GiveLevelOK (lvl C10d.exH3 l) := by
  intro l hl
  have : l = 0 ∨ l = 1 := by omega
  rcases this with rfl | rfl
  · rw [C10d.exH3_lvl0]
    exact ⟨by decide, by decide, by decide, by decide, fun h => absurd h (by decide)⟩
  · rw [C10d.exH3_lvl1]
    exact ⟨by decide, by decide, by decide, by decide, fun h => absurd h (by decide)⟩

theorem exH3_coarse : GiveCoarseOK (lvl C10d.exH3 (3 - 1)) := by
  show GiveCoarseOK (lvl C10d.exH3 2)
  rw [C10d.exH3_lvl2]
  exact ⟨by decide, by decide, by decide, fun h => absurd h (by decide)⟩

theorem exH3_admissible : ExSmootherGiveCode.Admissible genG.exSmoother (lvl C10d.exH3 0).op (lvl C10d.exH3 0).nc := by
  rw [C10d.exH3_lvl0]
  exact ⟨C07g.genTables_good, by decide, by decide, by decide, by decide, by decide, fun h => absurd h (by decide),
    fun h => absurd h (by decide)⟩

/-- all hypotheses of both theorems hold jointly on the three-level hierarchy 13 × 16 → 7 × 8 → 4 × 4 of `C10d` (Dirichlet inner
    boundary) with the generated tables, for every iterate of the right size, every right-hand side, both level-0 smoothers -/
example (k : Kind) (nu1 nu2 : Nat) (fgs : Bool) (u f f1 : Array ℚ) (hu : u.size = 13 * 16) (m : Mem (Option (Array ℚ)))
    (hm : m (0, Buf.sol) = some u) (hr : m (0, Buf.rhs) = some f) (hr1 : m (1, Buf.rhs) = some f1) :
    cycleGive C10d.exH3 genG ⟨3, nu1, nu2⟩ k false fgs m (0, Buf.sol) = cycle C10d.exH3 ⟨3, nu1, nu2⟩ k false fgs m (0, Buf.sol) ∧
    cycleGive C10d.exH3 genG ⟨3, nu1, nu2⟩ k true fgs m (0, Buf.sol) = cycle C10d.exH3 ⟨3, nu1, nu2⟩ k true fgs m (0, Buf.sol) :=
  ⟨give_cycle_eq_take_cycle C10d.exH3 genG rfl rfl 3 (by decide) k nu1 nu2 fgs u f exH3_levels exH3_coarse hu m hm hr,
   give_excycle_eq_take_excycle C10d.exH3 genG rfl rfl 3 (by decide) k nu1 nu2 fgs u f f1 exH3_levels exH3_coarse
     (fun _ => exH3_admissible) hu m hm hr hr1⟩

/-- … and across the origin (`DirBC_Interior = false`, where the antipodal symmetry `hk` is a genuine condition): two levels
    7 × 8 → 4 × 4 with non-constant, antipodally symmetric angular spacings (`C07c.exOp` with eight angles, `C03.exOp`) -/
def exOp8 : Op ℚ := { C07c.exOp with nt := 8 }
def exHo : Hier ℚ := ⟨[⟨exOp8, 3⟩, ⟨C03.exOp, 1⟩], [C10c.exP], C06c.exTiny, C04c.genTables⟩

theorem exOp8_hk : ∀ j, j < exOp8.nt → exOp8.k (ja exOp8 j) = exOp8.k j := by
  intro j hj
  have : j < 8 := hj
  rcases (by omega : j = 0 ∨ j = 1 ∨ j = 2 ∨ j = 3 ∨ j = 4 ∨ j = 5 ∨ j = 6 ∨ j = 7) with
    rfl | rfl | rfl | rfl | rfl | rfl | rfl | rfl <;> simp [exOp8, C07c.exOp, ja]

theorem exOp4_hk : ∀ j, j < C03.exOp.nt → C03.exOp.k (ja C03.exOp j) = C03.exOp.k j := by
  intro j hj
  have : j < 4 := hj
  rcases (by omega : j = 0 ∨ j = 1 ∨ j = 2 ∨ j = 3) with rfl | rfl | rfl | rfl <;> simp [C03.exOp, ja]

example (k : Kind) (nu1 nu2 : Nat) (fgs : Bool) (u f f1 : Array ℚ) (hu : u.size = 7 * 8) (m : Mem (Option (Array ℚ)))
    (hm : m (0, Buf.sol) = some u) (hr : m (0, Buf.rhs) = some f) (hr1 : m (1, Buf.rhs) = some f1) :
    (lvl exHo 0).op.bc = false ∧ exOp8.k 0 ≠ exOp8.k 1 ∧
    cycleGive exHo genG ⟨2, nu1, nu2⟩ k false fgs m (0, Buf.sol) = cycle exHo ⟨2, nu1, nu2⟩ k false fgs m (0, Buf.sol) ∧
    cycleGive exHo genG ⟨2, nu1, nu2⟩ k true fgs m (0, Buf.sol) = cycle exHo ⟨2, nu1, nu2⟩ k true fgs m (0, Buf.sol) := by
  have hl0 : lvl exHo 0 = ⟨exOp8, 3⟩ := rfl
  have hl1 : lvl exHo 1 = ⟨C03.exOp, 1⟩ := rfl
  have hlev : ∀ l, l + 1 < 2 → GiveLevelOK (lvl exHo l) := by
    intro l hl
    have : l = 0 := by omega
    subst this
    rw [hl0]
    exact ⟨by decide, by decide, by decide, by decide, fun _ => exOp8_hk⟩
  have hcoarse : GiveCoarseOK (lvl exHo (2 - 1)) := by
    show GiveCoarseOK (lvl exHo 1)
    rw [hl1]
    exact ⟨by decide, by decide, by decide, fun _ => exOp4_hk⟩
  have hadm : ExSmootherGiveCode.Admissible genG.exSmoother (lvl exHo 0).op (lvl exHo 0).nc := by
    rw [hl0]
    exact ⟨C07g.genTables_good, by decide, by decide, by decide, by decide, by decide, fun _ => by decide, fun _ => exOp8_hk⟩
  exact ⟨rfl, by simp [exOp8, C07c.exOp],
    give_cycle_eq_take_cycle exHo genG rfl rfl 2 (by decide) k nu1 nu2 fgs u f hlev hcoarse hu m hm hr,
    give_excycle_eq_take_excycle exHo genG rfl rfl 2 (by decide) k nu1 nu2 fgs u f f1 hlev hcoarse (fun _ => hadm) hu m hm hr hr1⟩

end C10g
