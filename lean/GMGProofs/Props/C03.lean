import GMGProofs.Lemmas.StencilLemmas3
import Mathlib.Tactic.FieldSimp
import Mathlib.Tactic.Linarith
import Mathlib.Tactic.Positivity
import Mathlib.Tactic.LinearCombination
import Mathlib.Tactic.NormNum
import Mathlib.Algebra.Order.Field.Basic
import Mathlib.Algebra.Order.Field.Rat
/-!
# C03 — the discrete operator: scatter ("give") = gather ("take"), row classes, ellipticity

Property theorems only.  Model: `GMGModel/Stencil.lean` (transcribes `applyResidualTake.cpp`,
`applyAGive.cpp`, `residualGive.cpp`, `compute_jacobian_elements`).  Helper definitions and lemmas
(`recv`, `sC … sT`, `recv_giveNode`, `give_formula`, the per-class cases) live in
`GMGProofs/Lemmas/StencilLemmas{1,2,3}.lean`.  All statements hold for every grid size
`nr ≥ 4`, every even `nt ≥ 2` and every field `K` (ordered where positivity is mentioned).
-/
namespace C03
open Stencil

section AnyField
variable {K : Type} [_root_.Field K]

/-! ## the rows of the gather form -/

/-- outer boundary row is the Dirichlet row -/
theorem dirichlet_rows_outer (o : Op K) (hnr : 2 ≤ o.nr) (f x : Stencil.Field K) (j : Nat) :
    take o f x (o.nr - 1) j = f (o.nr - 1) j - x (o.nr - 1) j := by
  unfold take
  rw [if_neg (by omega), if_neg (by omega)]

/-- inner boundary row is the Dirichlet row when `DirBC_Interior` -/
theorem dirichlet_rows_inner (o : Op K) (hbc : o.bc = true) (f x : Stencil.Field K) (j : Nat) :
    take o f x 0 j = f 0 j - x 0 j := by
  unfold take
  rw [if_neg (by omega), if_pos rfl, if_pos hbc]

/-- rows `0 < i < nr - 1` are the 9-point rows -/
theorem interior_rows (o : Op K) (f x : Stencil.Field K) (i j : Nat) (h0 : 0 < i) (h1 : i + 1 < o.nr) :
    take o f x i j = takeInterior o f x i j := by
  unfold take
  rw [if_pos ⟨h0, h1⟩]

/-- row `0` is the 7-point across-the-origin row when not `DirBC_Interior` -/
theorem origin_row (o : Op K) (hbc : o.bc = false) (f x : Stencil.Field K) (j : Nat) :
    take o f x 0 j = takeOrigin o f x j := by
  unfold take
  rw [if_neg (by omega), if_pos rfl, if_neg (by simp [hbc])]

/-! ## scatter = gather -/

/-- folding `applyUpd` over ANY list of updates subtracts at each target the total addressed to it -/
theorem fold_scatter (l : List (Upd K)) (f : Stencil.Field K) (a b : Nat) :
    (l.foldl applyUpd f) a b
      = f a b - (l.map fun u => if a = u.ti ∧ b = u.tj then u.v else 0).sum :=
  foldl_applyUpd l f a b

/-- **C03**: the scatter encoding (`ResidualGive`) and the gather encoding (`ResidualTake`) compute the
    same residual at every node, for both inner-boundary modes; across the origin the angular spacing
    must be antipodally symmetric -/
theorem give_eq_take (o : Op K) (hnr : 4 ≤ o.nr) (hnt : 2 ≤ o.nt) (heven : o.nt % 2 = 0)
    (hk : ∀ j, j < o.nt → o.k (ja o j) = o.k j)
    (f x : Stencil.Field K) (i j : Nat) (hi : i < o.nr) (hj : j < o.nt) :
    Stencil.give o f x i j = Stencil.take o f x i j :=
  give_eq_take' o f x hnr hnt heven (fun _ => hk) i j hi hj

/-- the antipodal symmetry is only used when `DirBC_Interior = false` -/
theorem give_eq_take_weak_hk (o : Op K) (hnr : 4 ≤ o.nr) (hnt : 2 ≤ o.nt) (heven : o.nt % 2 = 0)
    (hk : o.bc = false → ∀ j, j < o.nt → o.k (ja o j) = o.k j)
    (f x : Stencil.Field K) (i j : Nat) (hi : i < o.nr) (hj : j < o.nt) :
    Stencil.give o f x i j = Stencil.take o f x i j :=
  give_eq_take' o f x hnr hnt heven hk i j hi hj

/-- Dirichlet inner boundary: no condition on the angular spacing at all -/
theorem give_eq_take_dirichlet (o : Op K) (hnr : 4 ≤ o.nr) (hnt : 2 ≤ o.nt) (heven : o.nt % 2 = 0)
    (hbc : o.bc = true) (f x : Stencil.Field K) (i j : Nat) (hi : i < o.nr) (hj : j < o.nt) :
    Stencil.give o f x i j = Stencil.take o f x i j :=
  give_eq_take' o f x hnr hnt heven (fun h => by rw [hbc] at h; cases h) i j hi hj

/-- away from row `0` no condition on the angular spacing is needed either -/
theorem give_eq_take_off_origin (o : Op K) (hnr : 4 ≤ o.nr) (heven : o.nt % 2 = 0)
    (f x : Stencil.Field K) (i j : Nat) (h0 : 0 < i) (hi : i < o.nr) (hj : j < o.nt) :
    Stencil.give o f x i j = Stencil.take o f x i j := by
  rcases (by omega : i + 1 < o.nr ∨ i + 1 = o.nr) with h | h
  · exact give_eq_take_interior o f x hnr heven i j h0 h hj
  · exact give_eq_take_last o f x hnr heven i j h hj

/-! ## ellipticity of the transformed coefficients -/

/-- `arr·att − art²/4 = α²/4`: the determinant of the coefficient matrix of `compute_jacobian_elements`
    (any `abs` with `abs(det)² = det²`) -/
theorem ellipticity (h2 : (2 : K) ≠ 0) (abs : K → K) (Jrr Jtr Jrt Jtt alpha : K)
    (hdet : Jrr * Jtt - Jrt * Jtr ≠ 0)
    (habs : abs (Jrr * Jtt - Jrt * Jtr) * abs (Jrr * Jtt - Jrt * Jtr)
      = (Jrr * Jtt - Jrt * Jtr) * (Jrr * Jtt - Jrt * Jtr)) :
    let e := jacobianElements abs Jrr Jtr Jrt Jtt alpha
    e.1 * e.2.1 - e.2.2.1 * e.2.2.1 / 4 = alpha * alpha / 4 := by
  intro e
  have hd : abs (Jrr * Jtt - Jrt * Jtr) ≠ 0 := by
    intro h; rw [h] at habs; simp at habs; exact hdet habs
  have h4 : (4 : K) ≠ 0 := by
    have : (4 : K) = 2 * 2 := by norm_num
    rw [this]; exact mul_ne_zero h2 h2
  simp only [e, jacobianElements, half, Scalar.n_eq, Nat.cast_one, Nat.cast_ofNat]
  generalize abs (Jrr * Jtt - Jrt * Jtr) = d at *
  field_simp
  linear_combination (-4 * alpha ^ 2) * habs

/-- the fourth component is the (signed) Jacobian determinant -/
theorem jacobian_det (abs : K → K) (Jrr Jtr Jrt Jtt alpha : K) :
    (jacobianElements abs Jrr Jtr Jrt Jtt alpha).2.2.2 = Jrr * Jtt - Jrt * Jtr := rfl

end AnyField

section Ordered
variable {K : Type} [_root_.Field K] [LinearOrder K] [IsStrictOrderedRing K]

/-- strict ellipticity `art² < 4·arr·att` whenever `α ≠ 0` -/
theorem ellipticity_strict (abs : K → K) (Jrr Jtr Jrt Jtt alpha : K)
    (hdet : Jrr * Jtt - Jrt * Jtr ≠ 0)
    (habs : abs (Jrr * Jtt - Jrt * Jtr) * abs (Jrr * Jtt - Jrt * Jtr)
      = (Jrr * Jtt - Jrt * Jtr) * (Jrr * Jtt - Jrt * Jtr))
    (halpha : alpha ≠ 0) :
    let e := jacobianElements abs Jrr Jtr Jrt Jtt alpha
    e.2.2.1 * e.2.2.1 < 4 * e.1 * e.2.1 := by
  intro e
  have h := ellipticity (K := K) two_ne_zero abs Jrr Jtr Jrt Jtt alpha hdet habs
  have hpos : 0 < alpha * alpha := mul_self_pos.mpr halpha
  simp only at h
  change e.1 * e.2.1 - e.2.2.1 * e.2.2.1 / 4 = alpha * alpha / 4 at h
  linarith

/-- `arr > 0` and `att > 0` for `α > 0`, `abs det > 0`, `det ≠ 0` -/
theorem arr_att_pos (abs : K → K) (Jrr Jtr Jrt Jtt alpha : K)
    (hdet : Jrr * Jtt - Jrt * Jtr ≠ 0) (habs : 0 < abs (Jrr * Jtt - Jrt * Jtr)) (halpha : 0 < alpha) :
    let e := jacobianElements abs Jrr Jtr Jrt Jtt alpha
    0 < e.1 ∧ 0 < e.2.1 := by
  intro e
  have h1 : 0 < Jtt * Jtt + Jrt * Jrt := by
    by_contra hc
    have ha : Jtt * Jtt = 0 := by nlinarith [mul_self_nonneg Jtt, mul_self_nonneg Jrt]
    have hb : Jrt * Jrt = 0 := by nlinarith [mul_self_nonneg Jtt, mul_self_nonneg Jrt]
    have ha' : Jtt = 0 := mul_self_eq_zero.mp ha
    have hb' : Jrt = 0 := mul_self_eq_zero.mp hb
    apply hdet; rw [ha', hb']; ring
  have h2 : 0 < Jtr * Jtr + Jrr * Jrr := by
    by_contra hc
    have ha : Jtr * Jtr = 0 := by nlinarith [mul_self_nonneg Jtr, mul_self_nonneg Jrr]
    have hb : Jrr * Jrr = 0 := by nlinarith [mul_self_nonneg Jtr, mul_self_nonneg Jrr]
    have ha' : Jtr = 0 := mul_self_eq_zero.mp ha
    have hb' : Jrr = 0 := mul_self_eq_zero.mp hb
    apply hdet; rw [ha', hb']; ring
  simp only [e, jacobianElements, half, Scalar.n_eq, Nat.cast_one, Nat.cast_ofNat]
  constructor <;> positivity

end Ordered

/-! ## non-vacuity -/

/-- a grid with non-constant, antipodally symmetric angular spacing satisfying every hypothesis of
    `give_eq_take` in the across-the-origin mode -/
def exOp : Op ℚ :=
  { nr := 4, nt := 4, bc := false, r0 := 1 / 10, h := fun i => 1 + i, k := fun j => if j % 2 = 0 then 1 else 2,
    arr := fun i j => 1 + i + j, att := fun i j => 2 + i * j, art := fun i j => (i : ℚ) - j,
    det := fun i _ => 1 + i, beta := fun i => i }

example : 4 ≤ exOp.nr ∧ 2 ≤ exOp.nt ∧ exOp.nt % 2 = 0 ∧ exOp.bc = false ∧
    (∀ j, j < exOp.nt → exOp.k (ja exOp j) = exOp.k j) ∧ exOp.k 0 ≠ exOp.k 1 := by
  refine ⟨by decide, by decide, by decide, rfl, ?_, by simp [exOp]⟩
  intro j hj
  have : j < 4 := hj
  rcases (by omega : j = 0 ∨ j = 1 ∨ j = 2 ∨ j = 3) with rfl | rfl | rfl | rfl <;> simp [exOp, ja]

/-- sharpness: without the antipodal symmetry `hk` (all other hypotheses kept, `bc = false`) the two
    encodings DIFFER at the origin row — `give` = -153/5, `take` = -381/10 at node (0,0) -/
def badOp : Op ℚ := { exOp with k := fun j => if j = 3 then 2 else 1 }
theorem hk_needed :
    4 ≤ badOp.nr ∧ 2 ≤ badOp.nt ∧ badOp.nt % 2 = 0 ∧ badOp.bc = false ∧
    give badOp (fun _ _ => 0) (fun i j => if i = 0 ∧ j = 0 then 1 else 0) 0 0
      ≠ take badOp (fun _ _ => 0) (fun i j => if i = 0 ∧ j = 0 then 1 else 0) 0 0 := by
  decide +kernel

/-- the hypotheses of `ellipticity_strict` / `arr_att_pos` are satisfiable -/
example : ∃ Jrr Jtr Jrt Jtt alpha : ℚ, Jrr * Jtt - Jrt * Jtr ≠ 0 ∧
    |Jrr * Jtt - Jrt * Jtr| * |Jrr * Jtt - Jrt * Jtr| = (Jrr * Jtt - Jrt * Jtr) * (Jrr * Jtt - Jrt * Jtr) ∧
    0 < |Jrr * Jtt - Jrt * Jtr| ∧ 0 < alpha :=
  ⟨1, 2, 3, 4, 1, by norm_num, by rw [abs_mul_abs_self], by norm_num, by norm_num⟩

end C03
