import GMGModel.SmootherCode
import GMGProofs.Lemmas.SmootherLemmas
import GMGProofs.Lemmas.SmootherCode1
import GMGProofs.Lemmas.SmootherCode2
import GMGProofs.Lemmas.SmootherCode3
import GMGProofs.Lemmas.SmootherCode4
import GMGProofs.Lemmas.SmootherCode5
import GMGProofs.Props.C06
import GMGProofs.Props.C14
import GMGProofs.Props.C16
/-!
# C06 (code level) — the assembled line systems of `SmootherTake` ARE the zebra relaxation of the operator

Model: `GMGModel/SmootherCode.lean` (what `buildAscMatrices` stores, `temp = rhs - A_sc^ortho x`, the line solves through
the models of `Tridiag.lean` / `SparseLU.lean`, the four-phase sweep on a row-major array).  Property theorems only;
helper lemmas live in `GMGProofs/Lemmas/SmootherCode*.lean`.
-/
namespace C06c
open Stencil Smoother SmootherCode

section AnyField
variable {K : Type} [_root_.Field K]

/-- the iterate with the values `v` on circle `i` -/
def withCircle (u : Stencil.Field K) (i : Nat) (v : Nat → K) : Stencil.Field K := fun a b => if a = i then v b else u a b
/-- the iterate with the values `v` (indexed by the radial node index `a ≥ nc`) on radial line `j` -/
def withRadial (nc : Nat) (u : Stencil.Field K) (j : Nat) (v : Nat → K) : Stencil.Field K :=
  fun a b => if nc ≤ a ∧ b = j then v a else u a b

/-- row `i` of the stored radial matrix of line `j` applied to `v` (identity row on the outer boundary, no "Left" at
    `i = nc`, the "Right" of `i = nr - 2` stored as zero) -/
def radialRow (o : Op K) (nc j : Nat) (v : Nat → K) (i : Nat) : K :=
  if i + 1 = o.nr then v i
  else centerValue o i j (i - 1) j * v i
    + (if i = nc then 0 else leftValue o i j (i - 1) j * v (i - 1))
    + (if i + 2 = o.nr then 0 else rightValue o i j * v (i + 1))

/-- row `j` of the stored innermost-circle matrix applied to `v` -/
def innerRowDot (o : Op K) (v : Nat → K) (j : Nat) : K :=
  if o.bc then v j
  else centerValue o 0 j 0 (ja o j) * v j + leftValue o 0 j 0 (ja o j) * v (ja o j)
    + bottomValue o 0 j * v (jm o j) + topValue o 0 j * v (jp o j)

/-! ## 1  A_sc + A_sc^ortho = A, row by row (pure algebra, any field, any sizes) -/

/-- interior circle: the operator row at `(i, j)` on the iterate carrying `v` on circle `i` is `temp` minus the row of the
    stored cyclic tridiagonal matrix -/
theorem circle_split (o : Op K) (nc : Nat) (f u : Stencil.Field K) (v : Nat → K) (i j : Nat)
    (hi0 : 0 < i) (hinc : i < nc) (hnc : nc < o.nr) :
    take o f (withCircle u i v) i j
      = orthoCircle o nc f u i j
        - (centerValue o i j (i - 1) j * v j + bottomValue o i j * v (jm o j) + topValue o i j * v (jp o j)) := by
  have h1 : 0 < i ∧ i + 1 < o.nr := ⟨hi0, by omega⟩
  have h2 : 0 < i ∧ i < nc := ⟨hi0, hinc⟩
  have hne1 : i - 1 ≠ i := by omega
  have hne2 : i + 1 ≠ i := by omega
  simp only [take, h1, h2, and_self, if_true, takeInterior, orthoCircle, withCircle, diagTerms, centerValue, bottomValue,
    topValue, coeff1, coeff2, coeff3, coeff4, SmootherCode.h1, hne1, hne2, if_false]
  have : i ≠ 0 := by omega
  simp only [this, if_false]
  ring

set_option linter.unusedVariables false in
/-- innermost circle, both boundary modes (`hnc`, `hnr` are kept for uniformity with the other rows, the proof does not
    need them) -/
theorem inner_split (o : Op K) (nc : Nat) (f u : Stencil.Field K) (v : Nat → K) (j : Nat)
    (hnc : 0 < nc) (hnr : 1 < o.nr) :
    take o f (withCircle u 0 v) 0 j = orthoCircle o nc f u 0 j - innerRowDot o v j := by
  have h1 : ¬ (0 < 0 ∧ 0 + 1 < o.nr) := by omega
  have h2 : ¬ (0 < 0 ∧ 0 < nc) := by omega
  have hne : (1 : Nat) ≠ 0 := by omega
  cases hbc : o.bc
  · simp only [take, h1, h2, if_false, if_true, takeOrigin, orthoCircle, innerRowDot, withCircle, hbc, centerValue,
      leftValue, bottomValue, topValue, coeff1, coeff2, coeff3, coeff4, SmootherCode.h1, hne, Nat.zero_add,
      Bool.false_eq_true]
    ring
  · simp only [take, h1, h2, if_false, if_true, orthoCircle, innerRowDot, withCircle, hbc]

/-- radial line; the coupling of row `nr - 2` to the Dirichlet node is taken from the boundary datum, which the identity
    row of the same line system reproduces (`hv`).
    STATEMENT CORRECTION: the hypothesis `hnt : 2 ≤ o.nt` was added.  Without it the statement is false (`nt ≤ 1` makes
    the angular neighbours `jm o j`, `jp o j` coincide with `j`, so the operator row reads the new line values where
    `orthoRadial` uses the old iterate); machine-checked counterexample: `radial_split_needs_nt` in section 6. -/
theorem radial_split (o : Op K) (nc : Nat) (f u : Stencil.Field K) (v : Nat → K) (i j : Nat)
    (hnc : 2 ≤ nc) (hnr : nc + 3 ≤ o.nr) (hnt : 2 ≤ o.nt) (hi : nc ≤ i) (hir : i < o.nr)
    (hv : v (o.nr - 1) = f (o.nr - 1) j) :
    take o f (withRadial nc u j v) i j = orthoRadial o nc f u i j - radialRow o nc j v i := by
  have hm : jm o j ≠ j := by
    by_cases hj : j < o.nt
    · rw [jm_eq o hj]; split <;> omega
    · have := jm_lt o (by omega : 0 < o.nt) j; omega
  have hp : jp o j ≠ j := by
    by_cases hj : j < o.nt
    · rw [jp_eq o hj]; split <;> omega
    · have := jp_lt o (by omega : 0 < o.nt) j; omega
  have hi0 : i ≠ 0 := by omega
  have hw0 : ∀ b, withRadial nc u j v i b = if b = j then v i else u i b := by
    intro b; simp only [withRadial, hi, true_and]
  have hw1 : ∀ b, withRadial nc u j v (i + 1) b = if b = j then v (i + 1) else u (i + 1) b := by
    intro b; simp only [withRadial, (by omega : nc ≤ i + 1), true_and]
  by_cases hlast : i + 1 = o.nr
  · have h1 : ¬ (0 < i ∧ i + 1 < o.nr) := by omega
    have h2 : ¬ (nc < i ∧ i + 2 < o.nr) := by omega
    have h3 : i ≠ nc := by omega
    have h4 : i + 2 ≠ o.nr := by omega
    simp only [take, if_neg h1, if_neg hi0, orthoRadial, if_neg h2, if_neg h3, if_neg h4, radialRow, if_pos hlast,
      hw0, if_true]
  · have h1 : 0 < i ∧ i + 1 < o.nr := by omega
    by_cases hnc' : i = nc
    · have h2 : ¬ (nc < i ∧ i + 2 < o.nr) := by omega
      have h4 : i + 2 ≠ o.nr := by omega
      have hwm : ∀ b, withRadial nc u j v (i - 1) b = u (i - 1) b := by
        intro b; unfold withRadial; rw [if_neg (by omega)]
      simp only [take, if_pos h1, takeInterior, orthoRadial, if_neg h2, if_pos hnc', radialRow, if_neg hlast,
        if_neg h4, hw0, hw1, hwm, if_neg hm, if_neg hp, if_true, diagTerms, centerValue, leftValue,
        rightValue, coeff1, coeff2, coeff3, coeff4, SmootherCode.h1, if_neg hi0]
      ring
    · have hwm : ∀ b, withRadial nc u j v (i - 1) b = if b = j then v (i - 1) else u (i - 1) b := by
        intro b; simp only [withRadial, (by omega : nc ≤ i - 1), true_and]
      by_cases h4 : i + 2 = o.nr
      · have h2 : ¬ (nc < i ∧ i + 2 < o.nr) := by omega
        have hv' : v (i + 1) = f (i + 1) j := by
          have : o.nr - 1 = i + 1 := by omega
          rw [← this]; exact hv
        simp only [take, if_pos h1, takeInterior, orthoRadial, if_neg h2, if_neg hnc', radialRow, if_neg hlast,
          if_pos h4, hw0, hw1, hwm, if_neg hm, if_neg hp, if_true, diagTerms, centerValue, leftValue,
          rightValue, coeff1, coeff2, coeff3, coeff4, SmootherCode.h1, if_neg hi0, hv']
        ring
      · have h2 : nc < i ∧ i + 2 < o.nr := by omega
        simp only [take, if_pos h1, takeInterior, orthoRadial, if_pos h2, if_neg hnc', radialRow, if_neg hlast,
          if_neg h4, hw0, hw1, hwm, if_neg hm, if_neg hp, if_true, diagTerms, centerValue, leftValue,
          rightValue, coeff1, coeff2, coeff3, coeff4, SmootherCode.h1, if_neg hi0]
        ring

/-! ## 2  the stored arrays represent exactly these rows (symmetric storage: only "Top"/"Right" and one corner are kept) -/

/-- cyclic tridiagonal product of the stored circle matrix -/
theorem circle_matrix_rows (o : Op K) (i : Nat) (v : Nat → K) (hnt : 3 ≤ o.nt) (j : Nat) (hj : j < o.nt) :
    (Tridiag.mulC (circleMain o i) (circleSub o i) (circleCorner o i) ((List.range o.nt).map v)).getD j 0
      = centerValue o i j (i - 1) j * v j + bottomValue o i j * v (jm o j) + topValue o i j * v (jp o j) := by
  have hmain : (circleMain o i).length = o.nt := by simp [circleMain]
  have hsub : (circleSub o i).length + 1 = (circleMain o i).length := by simp [circleMain, circleSub]; omega
  have hx : (circleMain o i).length = ((List.range o.nt).map v).length := by simp [circleMain]
  rw [mulC_getD _ _ _ _ hx hsub (by omega) j (by omega), hmain]
  simp only [circleMain, circleSub, circleCorner, SparseLU.getD_map_range, if_pos hj]
  rw [jm_eq o hj, jp_eq o hj]
  by_cases h0 : j = 0
  · subst h0
    have h1 : ¬ (0 + 1 = o.nt) := by omega
    rw [if_neg h1, if_neg h1]
    simp only [if_true]
    rw [if_pos (by omega : 0 < o.nt - 1), if_pos (by omega : o.nt - 1 < o.nt), if_pos (by omega : 0 + 1 < o.nt)]
  · rw [if_neg h0, if_neg h0, if_pos (by omega : j - 1 < o.nt - 1), if_pos (by omega : j - 1 < o.nt)]
    have hb : topValue o i (j - 1) = bottomValue o i j := by
      have e1 : jp o (j - 1) = j := by rw [jp_eq o (by omega : j - 1 < o.nt)]; rw [if_neg (by omega)]; omega
      have e2 : jm o j = j - 1 := by rw [jm_eq o hj, if_neg h0]
      simp only [topValue, bottomValue, coeff3, coeff4, e1, e2]
      ring
    rw [hb]
    by_cases hl : j + 1 = o.nt
    · rw [if_pos hl, if_pos hl, if_pos (by omega : 0 < o.nt)]
      have ht : bottomValue o i 0 = topValue o i j := by
        have e1 : jp o j = 0 := by rw [jp_eq o hj, if_pos hl]
        have e2 : jm o 0 = j := by rw [jm_eq o (by omega : 0 < o.nt), if_pos rfl]; omega
        simp only [topValue, bottomValue, coeff3, coeff4, e1, e2]
        ring
      rw [ht]
    · rw [if_neg hl, if_neg hl, if_pos (by omega : j < o.nt - 1), if_pos (by omega : j + 1 < o.nt)]

set_option linter.unusedVariables false in
/-- tridiagonal product of the stored radial matrix (`t` is the local index, node `i = nc + t`; `hj` is not needed) -/
theorem radial_matrix_rows (o : Op K) (nc j : Nat) (v : Nat → K) (hnr : nc + 3 ≤ o.nr) (hnc : 1 ≤ nc) (hj : j < o.nt)
    (t : Nat) (ht : t < o.nr - nc) :
    (Tridiag.mulT (radialMain o nc j) (radialSub o nc j) ((List.range (o.nr - nc)).map fun t => v (nc + t)) 0).getD t 0
      = radialRow o nc j v (nc + t) := by
  have hmain : (radialMain o nc j).length = o.nr - nc := by simp [radialMain]
  have hsub : (radialSub o nc j).length + 1 = (radialMain o nc j).length := by
    simp [radialMain, radialSub]; omega
  have hx : (radialMain o nc j).length = ((List.range (o.nr - nc)).map fun t => v (nc + t)).length := by
    simp [radialMain]
  rw [mulT_getD _ _ _ hx hsub 0 t (by omega), hmain]
  simp only [radialMain, radialSub, SparseLU.getD_map_range, if_pos ht, radialRow, Scalar.n_zero, Scalar.n_one]
  by_cases hlast : nc + t + 1 = o.nr
  · rw [if_pos hlast, if_pos hlast, if_neg (by omega : ¬ t + 1 < o.nr - nc), if_neg (by omega : ¬ t = 0),
      if_pos (by omega : t - 1 < o.nr - nc - 1), if_pos (by omega : nc + (t - 1) + 2 = o.nr)]
    ring
  · rw [if_neg hlast, if_neg hlast]
    simp only [if_pos (by omega : t + 1 < o.nr - nc), if_pos (by omega : t < o.nr - nc - 1)]
    have e1 : nc + (t + 1) = nc + t + 1 := by omega
    rw [e1]
    by_cases h0 : t = 0
    · subst h0
      rw [if_pos rfl, if_pos (by omega : nc + 0 = nc)]
      simp only [if_neg (by omega : ¬ nc + 0 + 2 = o.nr)]
      ring
    · rw [if_neg h0, if_neg (by omega : ¬ nc + t = nc), if_pos (by omega : t - 1 < o.nr - nc - 1),
        if_pos (by omega : t - 1 < o.nr - nc), if_neg (by omega : ¬ nc + (t - 1) + 2 = o.nr)]
      have e2 : nc + (t - 1) = nc + t - 1 := by omega
      rw [e2]
      have hl : rightValue o (nc + t - 1) j = leftValue o (nc + t) j (nc + t - 1) j := by
        have e3 : nc + t - 1 + 1 = nc + t := by omega
        simp only [rightValue, leftValue, coeff1, coeff2, SmootherCode.h1, if_neg (by omega : ¬ nc + t = 0), e3]
        ring
      rw [hl]
      by_cases h2 : nc + t + 2 = o.nr
      · rw [if_pos h2, if_pos h2]; ring
      · rw [if_neg h2, if_neg h2]; ring

/-- dense product of the CSR matrix of the innermost circle (four distinct columns per row need `nt ≥ 4`, even) -/
theorem inner_matrix_rows (o : Op K) (v : Nat → K) (hnt : 4 ≤ o.nt) (heven : o.nt % 2 = 0) (j : Nat) (hj : j < o.nt) :
    (SparseLU.mulDense (innerCSR o) ((List.range o.nt).map v)).getD j 0 = innerRowDot o v j := by
  have hv : ∀ k, k < o.nt → SparseLU.vget ((List.range o.nt).map v) k = v k := by
    intro k hk; unfold SparseLU.vget; rw [SparseLU.getD_map_range, if_pos hk]
  have h0 : 0 < o.nt := by omega
  unfold SparseLU.mulDense
  rw [SparseLU.getD_map_range, if_pos (by exact hj), loadRow_innerCSR o hnt heven j hj]
  unfold innerRow innerRowDot
  cases hbc : o.bc
  · simp only [Bool.false_eq_true, if_false, List.foldl_cons, List.foldl_nil, hv j hj, hv _ (ja_lt o h0 j),
      hv _ (jm_lt o h0 j), hv _ (jp_lt o h0 j), Scalar.n_zero]
    ring
  · simp only [if_true, List.foldl_cons, List.foldl_nil, hv j hj, Scalar.n_zero, Scalar.n_one]
    ring

/-! ## 3  the sweep of the code-level model satisfies every sweep equation of the spec -/

/-- every line system is solved exactly by the line solver model (discharged below from positive definiteness) -/
structure LinesOK (o : Op K) (nc : Nat) : Prop where
  circle : ∀ i, 0 < i → i < nc → ∀ y : List K, y.length = o.nt →
    Tridiag.mulC (circleMain o i) (circleSub o i) (circleCorner o i) (Tridiag.solve (circleSolver o i) y).2 = y
  radial : ∀ j, j < o.nt → ∀ y : List K, y.length = o.nr - nc →
    Tridiag.mulT (radialMain o nc j) (radialSub o nc j) (Tridiag.solve (radialSolver o nc j) y).2 0 = y
  inner : ∀ i, i < o.nt → SparseLU.den ((SparseLU.factorRows (innerCSR o)).2.getD i []) i ≠ 0

/-- one circle update of the sweep (interior circle: cyclic LDLᵀ, innermost circle: sparse LU): the size and the other
    circles are untouched and the residual of the new state vanishes on the circle -/
theorem circle_step_spec (o : Op K) (nc : Nat) (tiny : K → Bool) (f : Stencil.Field K)
    (hnt : 4 ≤ o.nt) (heven : o.nt % 2 = 0) (hnr : nc + 3 ≤ o.nr) (hl : LinesOK o nc)
    (i : Nat) (hi : i < nc) (a a' : Array K) (hs : a.size = o.nr * o.nt)
    (h : (solveCircle o tiny nc f (fld o.nt a) i).map (writeCircle o.nt a i) = some a') :
    a'.size = a.size ∧
    (∀ p q, p < o.nr → q < o.nt → ¬ p = i → fld o.nt a' p q = fld o.nt a p q) ∧
    (∀ p q, p < o.nr → q < o.nt → p = i → take o f (fld o.nt a') p q = 0) := by
  obtain ⟨vs, hvs, rfl⟩ := Option.map_eq_some_iff.mp h
  refine ⟨size_writeCircle _ _ _ _, ?_, ?_⟩
  · intro p q hp hq hne
    rw [fld_writeCircle o.nr o.nt a hs i vs p q hp hq, if_neg hne]
  · intro p q hp hq hpi
    subst hpi
    have hcongr : take o f (fld o.nt (writeCircle o.nt a p vs)) p q
        = take o f (withCircle (fld o.nt a) p (fun q => vs.getD q 0)) p q := by
      apply take_congr_grid o f _ _ (by omega) (by omega) _ p q hp hq
      intro c d hc hd
      rw [fld_writeCircle o.nr o.nt a hs p vs c d hc hd]
      rfl
    rw [hcongr]
    have htemp : ∀ q, q < o.nt →
        (circleTemp o nc f (fld o.nt a) p).getD q 0 = orthoCircle o nc f (fld o.nt a) p q := by
      intro q hq; unfold circleTemp; rw [SparseLU.getD_map_range, if_pos hq]
    have htl : (circleTemp o nc f (fld o.nt a) p).length = o.nt := by simp [circleTemp]
    by_cases h0 : p = 0
    · subst h0
      have hsol : SparseLU.solve tiny (SparseLU.factorRows (innerCSR o)) (circleTemp o nc f (fld o.nt a) 0)
          = some vs := by simpa [solveCircle] using hvs
      have hmul := C16.lu_solve tiny (innerCSR o) hl.inner _ vs htl hsol
      have hlen : vs.length = o.nt := sparse_solve_length tiny (innerCSR o) hl.inner _ vs htl hsol
      rw [inner_split o nc f _ _ q (by omega) (by omega)]
      have := inner_matrix_rows o (fun q => vs.getD q 0) hnt heven q hq
      rw [← list_eq_map_range vs o.nt hlen, hmul, htemp q hq] at this
      rw [← this]; ring
    · have hsol : (Tridiag.solve (circleSolver o p) (circleTemp o nc f (fld o.nt a) p)).2 = vs := by
        simpa [solveCircle, h0] using hvs
      have hmul := hl.circle p (by omega) hi _ htl
      rw [hsol] at hmul
      have hlen : vs.length = o.nt := by
        have := length_of_mulC (circleMain o p) (circleSub o p) (circleCorner o p) vs
          (by simp [circleMain, circleSub]; omega) (by rw [hmul]; simp [circleMain, htl])
        simpa [circleMain] using this
      rw [circle_split o nc f _ _ p q (by omega) hi (by omega)]
      have := circle_matrix_rows o p (fun q => vs.getD q 0) (by omega) q hq
      rw [← list_eq_map_range vs o.nt hlen, hmul, htemp q hq] at this
      rw [← this]; ring

/-- one radial-line update of the sweep: the size and all nodes off the line are untouched and the residual of the new
    state vanishes on the line (nodes `nc ≤ p` of column `j`) -/
theorem radial_step_spec (o : Op K) (nc : Nat) (f : Stencil.Field K)
    (hnt : 2 ≤ o.nt) (hnc : 2 ≤ nc) (hnr : nc + 3 ≤ o.nr) (hl : LinesOK o nc)
    (j : Nat) (hj : j < o.nt) (a : Array K) (hs : a.size = o.nr * o.nt) :
    (radialStep o nc f a j).size = a.size ∧
    (∀ p q, p < o.nr → q < o.nt → ¬ (nc ≤ p ∧ q = j) → fld o.nt (radialStep o nc f a j) p q = fld o.nt a p q) ∧
    (∀ p q, p < o.nr → q < o.nt → (nc ≤ p ∧ q = j) → take o f (fld o.nt (radialStep o nc f a j)) p q = 0) := by
  unfold radialStep
  refine ⟨size_writeRadial _ _ _ _ _, ?_, ?_⟩
  · intro p q hp hq hne
    rw [fld_writeRadial o.nr o.nt nc a hs j _ p q hp hq, if_neg hne]
  · intro p q hp hq hpq
    obtain ⟨hpc, rfl⟩ := hpq
    have htl : (radialTemp o nc f (fld o.nt a) q).length = o.nr - nc := by simp [radialTemp]
    have hmul := hl.radial q hq _ htl
    have hlen : (solveRadial o nc f (fld o.nt a) q).length = o.nr - nc := by
      have := length_of_mulT_length (radialMain o nc q) (radialSub o nc q)
        (Tridiag.solve (radialSolver o nc q) (radialTemp o nc f (fld o.nt a) q)).2 0
        (by simp [radialMain, radialSub]; omega) (by rw [hmul]; simp [radialMain, htl])
      simpa [radialMain, solveRadial] using this
    generalize hvs : solveRadial o nc f (fld o.nt a) q = vs at hlen
    have hmul' : Tridiag.mulT (radialMain o nc q) (radialSub o nc q) vs 0 = radialTemp o nc f (fld o.nt a) q := by
      rw [← hvs]; exact hmul
    have hcongr : take o f (fld o.nt (writeRadial o.nt nc a q vs)) p q
        = take o f (withRadial nc (fld o.nt a) q (fun i => vs.getD (i - nc) 0)) p q := by
      apply take_congr_grid o f _ _ (by omega) (by omega) _ p q hp hq
      intro c d hc hd
      rw [fld_writeRadial o.nr o.nt nc a hs q vs c d hc hd]
      rfl
    rw [hcongr]
    have hrow : ∀ t, t < o.nr - nc →
        radialRow o nc q (fun i => vs.getD (i - nc) 0) (nc + t) = orthoRadial o nc f (fld o.nt a) (nc + t) q := by
      intro t ht
      have := radial_matrix_rows o nc q (fun i => vs.getD (i - nc) 0) hnr (by omega) hq t ht
      rw [← list_eq_map_range_shift vs (o.nr - nc) nc hlen, hmul'] at this
      rw [← this]; unfold radialTemp; rw [SparseLU.getD_map_range, if_pos ht]
    have hv : (fun i => vs.getD (i - nc) 0) (o.nr - 1) = f (o.nr - 1) q := by
      have h1 := hrow (o.nr - 1 - nc) (by omega)
      have e : nc + (o.nr - 1 - nc) = o.nr - 1 := by omega
      rw [e] at h1
      have e2 : o.nr - 1 + 1 = o.nr := by omega
      simp only [radialRow, if_pos e2] at h1
      show vs.getD (o.nr - 1 - nc) 0 = _
      rw [h1]
      unfold orthoRadial
      rw [if_neg (by omega), if_neg (by omega), if_neg (by omega)]
    rw [radial_split o nc f _ _ p q hnc hnr hnt hpc hp hv]
    have h2 := hrow (p - nc) (by omega)
    have e : nc + (p - nc) = p := by omega
    rw [e] at h2
    rw [h2]; ring

/-- one circle colour (`c = 0` black, `c = 1` white) of the sweep: nodes of the other phases keep their value, nodes of
    phase `c + 1` have zero residual in the state after the phase -/
theorem circle_phase_spec (o : Op K) (nc : Nat) (tiny : K → Bool) (f : Stencil.Field K)
    (hnt : 4 ≤ o.nt) (heven : o.nt % 2 = 0) (hnc : 2 ≤ nc) (hnr : nc + 3 ≤ o.nr) (hl : LinesOK o nc)
    (c : Nat) (hc : c < 2) (a a' : Array K) (hs : a.size = o.nr * o.nt)
    (h : ((List.range nc).filter fun i => (nc - 1 - i) % 2 = c).foldl (circleStep o tiny nc f) (some a) = some a') :
    a'.size = o.nr * o.nt ∧
    ∀ p q, p < o.nr → q < o.nt →
      (phase nc p q ≠ c + 1 → fld o.nt a' p q = fld o.nt a p q) ∧
      (phase nc p q = c + 1 → take o f (fld o.nt a') p q = 0) := by
  refine phase_fold' o nc f (Or.inl (by omega)) (by omega) (by omega) heven
    (fun a i => (solveCircle o tiny nc f (fld o.nt a) i).map (writeCircle o.nt a i))
    (fun k p _ => p = k) (c + 1) _ ?_ ?_ ?_ a a' hs h
  · intro k hk p q hp hq hpk
    have hk' : k < nc ∧ (nc - 1 - k) % 2 = c := by simpa using hk
    subst hpk
    refine ⟨?_, fun a b => ?_⟩
    · unfold phase; rw [if_pos hk'.1]; split <;> omega
    · unfold sameLine; rw [if_pos hk'.1]
  · intro p q hp hq hph
    unfold phase at hph
    split at hph
    · rename_i hpc
      refine ⟨p, ?_, rfl⟩
      have : (nc - 1 - p) % 2 = c := by split at hph <;> omega
      simpa using ⟨hpc, this⟩
    · split at hph <;> omega
  · intro k hk a a' hs h
    have hk' : k < nc ∧ (nc - 1 - k) % 2 = c := by simpa using hk
    exact circle_step_spec o nc tiny f hnt heven hnr hl k hk'.1 a a' hs h

/-- one radial colour (`c = 0` black, `c = 1` white) of the sweep -/
theorem radial_phase_spec (o : Op K) (nc : Nat) (f : Stencil.Field K)
    (hnt : 4 ≤ o.nt) (heven : o.nt % 2 = 0) (hnc : 2 ≤ nc) (hnr : nc + 3 ≤ o.nr) (hl : LinesOK o nc)
    (c : Nat) (hc : c < 2) (a : Array K) (hs : a.size = o.nr * o.nt) :
    (((List.range o.nt).filter fun j => j % 2 = c).foldl (radialStep o nc f) a).size = o.nr * o.nt ∧
    ∀ p q, p < o.nr → q < o.nt →
      (phase nc p q ≠ c + 3 →
        fld o.nt (((List.range o.nt).filter fun j => j % 2 = c).foldl (radialStep o nc f) a) p q = fld o.nt a p q) ∧
      (phase nc p q = c + 3 →
        take o f (fld o.nt (((List.range o.nt).filter fun j => j % 2 = c).foldl (radialStep o nc f) a)) p q = 0) := by
  refine phase_fold' o nc f (Or.inl (by omega)) (by omega) (by omega) heven
    (fun a j => some (radialStep o nc f a j))
    (fun k p q => nc ≤ p ∧ q = k) (c + 3) _ ?_ ?_ ?_ a _ hs (foldl_bind_some _ _ a)
  · intro k hk p q hp hq hpk
    have hk' : k < o.nt ∧ k % 2 = c := by simpa using hk
    obtain ⟨hpc, rfl⟩ := hpk
    refine ⟨?_, fun a b => ?_⟩
    · unfold phase; rw [if_neg (by omega)]; split <;> omega
    · unfold sameLine; rw [if_neg (by omega)]
  · intro p q hp hq hph
    unfold phase at hph
    split at hph
    · split at hph <;> omega
    · rename_i hpc
      refine ⟨q, ?_, by omega, rfl⟩
      have : q % 2 = c := by split at hph <;> omega
      simpa using ⟨hq, this⟩
  · intro k hk a a' hs h
    have hk' : k < o.nt ∧ k % 2 = c := by simpa using hk
    have := radial_step_spec o nc f (by omega) hnc hnr hl k hk'.1 a hs
    simp only [Option.some.injEq] at h
    subst h
    exact this

/-- the four intermediate states of a successful sweep -/
theorem sweep_eq_some (o : Op K) (nc : Nat) (tiny : K → Bool) (f : Stencil.Field K) (x y : Array K)
    (hs : sweep o tiny nc f x = some y) :
    ∃ a1 a2, (blackCircles nc).foldl (circleStep o tiny nc f) (some x) = some a1 ∧
      (whiteCircles nc).foldl (circleStep o tiny nc f) (some a1) = some a2 ∧
      y = (whiteRadials o.nt).foldl (radialStep o nc f) ((blackRadials o.nt).foldl (radialStep o nc f) a2) := by
  unfold sweep at hs
  simp only at hs
  cases h1 : (blackCircles nc).foldl (circleStep o tiny nc f) (some x) with
  | none =>
    rw [h1] at hs
    have : (whiteCircles nc).foldl (circleStep o tiny nc f) none = none :=
      foldl_bind_none (fun a i => (solveCircle o tiny nc f (fld o.nt a) i).map (writeCircle o.nt a i)) _
    rw [this] at hs
    cases hs
  | some a1 =>
    rw [h1] at hs
    cases h2 : (whiteCircles nc).foldl (circleStep o tiny nc f) (some a1) with
    | none => rw [h2] at hs; cases hs
    | some a2 =>
      rw [h2] at hs
      simp only [Option.map_some, Option.some.injEq] at hs
      exact ⟨a1, a2, rfl, h2, hs.symm⟩

/-- the array keeps its size -/
theorem sweep_size (o : Op K) (nc : Nat) (tiny : K → Bool) (f : Stencil.Field K) (x y : Array K)
    (hs : sweep o tiny nc f x = some y) : y.size = x.size := by
  obtain ⟨a1, a2, h1, h2, rfl⟩ := sweep_eq_some o nc tiny f x y hs
  rw [radial_fold_size, radial_fold_size, circle_fold_size o tiny nc f _ a1 a2 h2,
    circle_fold_size o tiny nc f _ x a1 h1]

/-- **refinement**: whatever `SmootherTake::smoothing` (as modelled: assembled matrices, `temp`, LDLᵀ / Sherman–Morrison /
    sparse LU solves, four colour phases in code order) returns satisfies the sweep equations of `GMGModel/Smoother.lean` -/
theorem code_sweep_isSweep (o : Op K) (nc : Nat) (tiny : K → Bool) (f : Stencil.Field K) (x y : Array K)
    (hnt : 4 ≤ o.nt) (heven : o.nt % 2 = 0) (hnc : 2 ≤ nc) (hnr : nc + 3 ≤ o.nr) (hx : x.size = o.nr * o.nt)
    (hl : LinesOK o nc) (hs : sweep o tiny nc f x = some y) :
    IsSweep o nc f (fld o.nt x) (fld o.nt y) := by
  obtain ⟨a1, a2, h1, h2, rfl⟩ := sweep_eq_some o nc tiny f x y hs
  obtain ⟨s1, p1⟩ := circle_phase_spec o nc tiny f hnt heven hnc hnr hl 0 (by omega) x a1 hx h1
  obtain ⟨s2, p2⟩ := circle_phase_spec o nc tiny f hnt heven hnc hnr hl 1 (by omega) a1 a2 s1 h2
  obtain ⟨s3, p3⟩ := radial_phase_spec o nc f hnt heven hnc hnr hl 0 (by omega) a2 s2
  obtain ⟨_, p4⟩ := radial_phase_spec o nc f hnt heven hnc hnr hl 1 (by omega) _ s3
  refine phases_isSweep o nc f (by omega) (by omega)
    (fun k => match k with
      | 0 => fld o.nt x
      | 1 => fld o.nt a1
      | 2 => fld o.nt a2
      | 3 => fld o.nt ((blackRadials o.nt).foldl (radialStep o nc f) a2)
      | _ => fld o.nt ((whiteRadials o.nt).foldl (radialStep o nc f)
          ((blackRadials o.nt).foldl (radialStep o nc f) a2))) ?_
  intro k hk1 hk4 p q hp hq
  rcases (by omega : k = 1 ∨ k = 2 ∨ k = 3 ∨ k = 4) with rfl | rfl | rfl | rfl
  · exact p1 p q hp hq
  · exact p2 p q hp hq
  · exact p3 p q hp hq
  · exact p4 p q hp hq

/-- the sweep returns (no `std::exit`) when the `tiny` test never fires on the pivots of the innermost circle -/
theorem code_sweep_total (o : Op K) (nc : Nat) (tiny : K → Bool) (f : Stencil.Field K) (x : Array K)
    (ht : ∀ i, i < o.nt → tiny (SparseLU.den ((SparseLU.factorRows (innerCSR o)).2.getD i []) i) = false) :
    ∃ y, sweep o tiny nc f x = some y := by
  obtain ⟨a1, h1⟩ := circle_fold_total o tiny nc f ht (blackCircles nc) x
  obtain ⟨a2, h2⟩ := circle_fold_total o tiny nc f ht (whiteCircles nc) a1
  unfold sweep
  simp only [h1, h2, Option.map_some]
  exact ⟨_, rfl⟩

/-- corollary (property clause 2): after the code-level sweep the residual vanishes on the white radial lines -/
theorem code_sweep_last_colour (o : Op K) (nc : Nat) (tiny : K → Bool) (f : Stencil.Field K) (x y : Array K)
    (hnt : 4 ≤ o.nt) (heven : o.nt % 2 = 0) (hnc : 2 ≤ nc) (hnr : nc + 3 ≤ o.nr) (hx : x.size = o.nr * o.nt)
    (hl : LinesOK o nc) (hs : sweep o tiny nc f x = some y)
    (i j : Nat) (hi : i < o.nr) (hj : j < o.nt) (hrad : nc ≤ i) (hodd : j % 2 = 1) :
    take o f (fld o.nt y) i j = 0 :=
  C06.last_colour o nc f _ _ (code_sweep_isSweep o nc tiny f x y hnt heven hnc hnr hx hl hs) i j hi hj hrad hodd

/-- corollary (property clause 3): Dirichlet nodes carry the data after the code-level sweep -/
theorem code_sweep_dirichlet (o : Op K) (nc : Nat) (tiny : K → Bool) (f : Stencil.Field K) (x y : Array K)
    (hnt : 4 ≤ o.nt) (heven : o.nt % 2 = 0) (hnc : 2 ≤ nc) (hnr : nc + 3 ≤ o.nr) (hx : x.size = o.nr * o.nt)
    (hl : LinesOK o nc) (hs : sweep o tiny nc f x = some y) (j : Nat) (hj : j < o.nt) :
    fld o.nt y (o.nr - 1) j = f (o.nr - 1) j ∧ (o.bc = true → fld o.nt y 0 j = f 0 j) := by
  have h := code_sweep_isSweep o nc tiny f x y hnt heven hnc hnr hx hl hs
  exact ⟨C06.dirichlet_set_outer o nc (by omega) f _ _ h j hj,
    fun hbc => C06.dirichlet_set_inner o nc (by omega) hbc f _ _ h j hj⟩

end AnyField

/-! ## 4  the hypothesis `LinesOK` from positive definiteness of the line blocks -/
section Ordered
variable {K : Type} [_root_.Field K] [LinearOrder K] [IsStrictOrderedRing K]

/-- SPD line matrices (in the sense of C14) and non-vanishing pivots of the innermost circle's LU give `LinesOK` -/
theorem linesOK_of_spd (o : Op K) (nc : Nat) (hnt : 4 ≤ o.nt) (hnr : nc + 3 ≤ o.nr)
    (hc : ∀ i, 0 < i → i < nc → Tridiag.SPDc (circleMain o i) (circleSub o i) (circleCorner o i))
    (hr : ∀ j, j < o.nt → Tridiag.SPD (radialMain o nc j) (radialSub o nc j))
    (hi : ∀ i, i < o.nt → SparseLU.den ((SparseLU.factorRows (innerCSR o)).2.getD i []) i ≠ 0) :
    LinesOK o nc := by
  refine ⟨?_, ?_, hi⟩
  · intro i hi0 hinc y hy
    exact C14.cyclic_solve (circleMain o i) (circleSub o i) y (circleCorner o i) (by simp [circleMain, hy])
      (by simp [circleMain, circleSub]; omega) (by simp [circleMain]; omega) (hc i hi0 hinc)
  · intro j hj y hy
    exact C14.tridiag_solve_spd (radialMain o nc j) (radialSub o nc j) y _ (by simp [radialMain, hy])
      (by simp [radialMain, radialSub]; omega) (hr j hj)

end Ordered

/-! ## 5  non-vacuity: a concrete operator on which `LinesOK` holds and the sweep runs -/

/-- across the origin (`bc = false`), `nr = 5`, `nt = 4`, non-uniform spacings, non-zero mixed coefficient `art` -/
def exOp : Op ℚ :=
  { nr := 5, nt := 4, bc := false, r0 := 1 / 2, h := fun i => 1 + i, k := fun j => if j % 2 = 0 then 1 else 2,
    arr := fun i j => 1 + i + j, att := fun i j => 2 + i * j, art := fun i j => (i : ℚ) - j,
    det := fun i _ => 1 + i, beta := fun i => i }

/-- the code's test `std::abs(diag) < 1e-12` -/
def exTiny : ℚ → Bool := fun d => decide (|d| < 1 / 1000000000000)
def exF : Stencil.Field ℚ := fun i j => 1 + i * j
def exX : Array ℚ := ofField 5 4 (fun i j => (i : ℚ) - j)
/-- the result of the code-level sweep (20 rationals, computed by the kernel) -/
def exY : Array ℚ := (sweep exOp exTiny 2 exF exX).getD #[]

/-- the hypotheses of `linesOK_of_spd` hold for `exOp` (the line matrices are strictly diagonally dominant, the pivots
    of the innermost circle's LU do not vanish), hence `LinesOK` -/
theorem exOp_linesOK : LinesOK exOp 2 := by
  apply linesOK_of_spd exOp 2 (by decide) (by decide)
  · intro i h0 h1
    have : i = 1 := by omega
    subst this
    exact C14.sddc_is_spdc _ _ _ (by decide +kernel) (by decide +kernel)
  · intro j hj
    have hj' : j < 4 := hj
    exact C14.sdd_is_spd _ _
      ((by decide +kernel : ∀ j, j < 4 → (radialSub exOp 2 j).length + 1 = (radialMain exOp 2 j).length) j hj')
      ((by decide +kernel : ∀ j, j < 4 → Tridiag.SDD (radialMain exOp 2 j) (radialSub exOp 2 j)) j hj')
  · intro i hi
    have hi' : i < 4 := hi
    exact (by decide +kernel :
      ∀ i, i < 4 → SparseLU.den ((SparseLU.factorRows (innerCSR exOp)).2.getD i []) i ≠ 0) i hi'

/-- the sweep returns (no pivot is `tiny`) -/
theorem exY_spec : sweep exOp exTiny 2 exF exX = some exY := by decide +kernel

/-- all hypotheses of `code_sweep_isSweep` hold on the instance, so its conclusion does -/
example : IsSweep exOp 2 exF (fld 4 exX) (fld 4 exY) :=
  code_sweep_isSweep exOp 2 exTiny exF exX exY (by decide) (by decide) (by decide) (by decide) (by decide +kernel)
    exOp_linesOK exY_spec

/-- independent check by evaluation: the 20 sweep equations hold for the computed `exY`, the sweep changed the iterate,
    and the outer Dirichlet values are the data -/
example : (∀ i, i < 5 → ∀ j, j < 4 → defect exOp 2 exF (fld 4 exX) (fld 4 exY) i j = 0) ∧
    fld 4 exY 1 1 ≠ fld 4 exX 1 1 ∧ fld 4 exY 3 2 ≠ fld 4 exX 3 2 ∧
    (∀ j, j < 4 → fld 4 exY 4 j = exF 4 j) := by decide +kernel

/-- `code_sweep_total` on the instance -/
example : ∃ y, sweep exOp exTiny 2 exF exX = some y :=
  code_sweep_total exOp 2 exTiny exF exX (by decide +kernel)

/-! ## 6  the hypothesis `2 ≤ nt` added to `radial_split` is needed -/

/-- **statement correction**: `radial_split` as first stated (no hypothesis on `nt`) is false.  With `nt = 1` the angular
    neighbours of a node are the node itself, so the "Bottom"/"Top" couplings that `orthoRadial` takes from the old
    iterate `u` are read from the new line values `v` by the operator row.  (`nt ≥ 2`, as on every smoothing level,
    repairs it.) -/
theorem radial_split_needs_nt :
    ¬ ∀ (o : Op ℚ) (nc : Nat) (f u : Stencil.Field ℚ) (v : Nat → ℚ) (i j : Nat),
      2 ≤ nc → nc + 3 ≤ o.nr → nc ≤ i → i < o.nr → v (o.nr - 1) = f (o.nr - 1) j →
      take o f (withRadial nc u j v) i j = orthoRadial o nc f u i j - radialRow o nc j v i := by
  intro h
  have := h { exOp with nt := 1 } 2 (fun _ _ => 0) (fun _ _ => 1) (fun _ => 0) 3 0 (by decide) (by decide) (by decide)
    (by decide) rfl
  revert this
  decide +kernel

end C06c
