import GMGProofs.Lemmas.GridGenLevels
import GMGProofs.Lemmas.GridGenAnisoReject
/-!
# C18 — grid generation: uniform and anisotropic radial division, refinement, level choice

Property theorems only.  Model: `GMGModel/GridGen.lean` (transcribes `polargrid.cpp`
`constructRadialDivisions` / `refineGrid` / `divideVector` / `checkParameters`, the whole of
`anisotropic_division.cpp`, and `setup.cpp` `chooseNumberOfLevels`).  Radii are exact rationals.
All statements are for unbounded parameters (any `nrExp`, `aniso`, `div`, any rational radii).

`StrictInc l` is `List.Pairwise (· < ·) l`; `Midpoints l` says every odd entry of `l` is the mean of its two
neighbours; `coarsenR l n` / `coarsenT l n` iterate `n ↦ (n+1)/2` / `n ↦ n/2`; `An.*` are the named stages of
`anisoDivision` (`An.anisoDivision_eq` shows the decomposition is definitional).
-/
namespace C18
open GridGen GridGenL

/-! ## 1. uniform division -/

/-- `anisotropic_factor == 0`: `2^(nrExp-1) + 1` strictly increasing radii from exactly `R0` to exactly `Rmax` -/
theorem uniform_ok (R0 Rmax : Rat) (nrExp : Int) (h1 : 1 ≤ nrExp) (hR : R0 < Rmax) :
    ∃ t, uniformTemp R0 Rmax nrExp = .ok t ∧ t.length = 2 ^ (nrExp.toNat - 1) + 1 ∧ StrictInc t
      ∧ t.head? = some R0 ∧ t.getLast? = some Rmax := by
  have hN : (0 : Rat) < ((2 ^ (nrExp.toNat - 1) : Nat) : Rat) := by positivity
  refine ⟨_, uniformTemp_eq R0 Rmax nrExp h1, by simp, ap_strictInc _ _ _ (div_pos (by linarith) hN), ?_, ?_⟩
  · rw [head?_eq_getD _ (by simp), ap_getD _ _ _ _ (Nat.succ_pos _)]; simp
  · rw [getLast?_eq_getD _ (by simp), ap_length, Nat.add_sub_cancel, ap_getD _ _ _ _ (Nat.lt_succ_self _)]
    congr 1; field_simp; ring

/-- with `nrExp < 1` the C++ computes `pow(2, nr_exp - 1) + 1` nodes from a non-positive exponent: flagged -/
theorem uniform_small_exp (R0 Rmax : Rat) (nrExp : Int) (h : nrExp < 1) :
    ∃ w, uniformTemp R0 Rmax nrExp = .ub w := by
  unfold uniformTemp; rw [if_pos h]; exact ⟨_, rfl⟩

/-! ## 2. midpoint refinement -/

theorem midpoint_length (t : List Rat) : (midpointRefine t).length = 2 * t.length - 1 :=
  midpointRefine_length t

theorem midpoint_length_odd (t : List Rat) (ht : 1 ≤ t.length) : (midpointRefine t).length % 2 = 1 := by
  rw [midpointRefine_length]; omega

theorem midpoint_strictInc (t : List Rat) (ht : StrictInc t) : StrictInc (midpointRefine t) :=
  midpointRefine_strictInc t ht

/-- the even entries are the entries of `t` -/
theorem midpoint_even (t : List Rat) (k : Nat) (hk : k < t.length) :
    (midpointRefine t).getD (2 * k) 0 = t.getD k 0 := midpointRefine_even t k hk

/-- every odd entry is the midpoint of its neighbours -/
theorem midpoints (t : List Rat) (i : Nat) (hi : i % 2 = 1) (hlen : i + 1 < (midpointRefine t).length) :
    (midpointRefine t).getD i 0 = ((midpointRefine t).getD (i - 1) 0 + (midpointRefine t).getD (i + 1) 0) / 2 :=
  midpointRefine_midpoints t i hi hlen

theorem midpoint_endpoints (t : List Rat) (ht : 1 ≤ t.length) :
    (midpointRefine t).head? = t.head? ∧ (midpointRefine t).getLast? = t.getLast? := by
  have hl : 0 < (midpointRefine t).length := by rw [midpointRefine_length]; omega
  rw [head?_eq_getD _ hl, head?_eq_getD _ ht, getLast?_eq_getD _ hl, getLast?_eq_getD _ ht,
    midpointRefine_first _ ht, midpointRefine_last _ ht]
  exact ⟨rfl, rfl⟩

/-! ## 3. `divideVector` -/

theorem divide_length (v : List Rat) (d : Nat) (hv : 1 ≤ v.length) :
    (divideVector v d).length = (v.length - 1) * 2 ^ d + 1 := divideVector_length v d hv

theorem divide_strictInc (v : List Rat) (d : Nat) (hv : StrictInc v) : StrictInc (divideVector v d) :=
  divideVector_strictInc v d hv

theorem divide_endpoints (v : List Rat) (d : Nat) (hv : 1 ≤ v.length) :
    (divideVector v d).head? = v.head? ∧ (divideVector v d).getLast? = v.getLast? := by
  have hl : 0 < (divideVector v d).length := by rw [divideVector_length _ _ hv]; omega
  rw [head?_eq_getD _ hl, head?_eq_getD _ hv, getLast?_eq_getD _ hl, getLast?_eq_getD _ hv,
    divideVector_first _ _ hv, divideVector_last _ _ hv]
  exact ⟨rfl, rfl⟩

/-- nesting: the coarse nodes survive at stride `2^d`, and one more halving only adds nodes in between -/
theorem nested_divide (v : List Rat) (d : Nat) (hv : 1 ≤ v.length) :
    (∀ i, i < v.length → (divideVector v d).getD (2 ^ d * i) 0 = v.getD i 0)
    ∧ (∀ k, k < (divideVector v d).length →
        (divideVector v (d + 1)).getD (2 * k) 0 = (divideVector v d).getD k 0) := by
  refine ⟨fun i hi => divideVector_coarse v d i hi, fun k hk => ?_⟩
  rw [divideVector_length _ _ hv] at hk
  exact divideVector_even v d k hv (by omega)

/-- each halving bisects: odd entries of the `(d+1)`-fold division are midpoints of their neighbours -/
theorem divide_midpoints (v : List Rat) (d i : Nat) (hi : i % 2 = 1)
    (hlen : i + 1 < (divideVector v (d + 1)).length) :
    (divideVector v (d + 1)).getD i 0
      = ((divideVector v (d + 1)).getD (i - 1) 0 + (divideVector v (d + 1)).getD (i + 1) 0) / 2 :=
  divideVector_midpoints v d i hi hlen

/-- closed form: node `i * 2^d + j` is the `j`-th of `2^d` equal parts of `[v[i], v[i+1]]` -/
theorem divide_uniform (v : List Rat) (d i j : Nat) (hi : i + 1 < v.length) (hj : j ≤ 2 ^ d) :
    (divideVector v d).getD (i * 2 ^ d + j) 0
      = v.getD i 0 + (j : Rat) * (v.getD (i + 1) 0 - v.getD i 0) / ((2 ^ d : Nat) : Rat) := by
  have hp : 0 < 2 ^ d := Nat.pos_of_ne_zero (by positivity)
  have hle : i * 2 ^ d + j ≤ (v.length - 1) * 2 ^ d := by
    calc i * 2 ^ d + j ≤ i * 2 ^ d + 2 ^ d := by omega
      _ = (i + 1) * 2 ^ d := by rw [Nat.succ_mul]
      _ ≤ (v.length - 1) * 2 ^ d := Nat.mul_le_mul_right _ (by omega)
  rw [divideVector_getD v d _ (by omega) hle, dv_split v _ i j hp hj]

/-! ## 4. number of levels -/

theorem levels_admissible (nr nt : Nat) (maxLevels : Int) (L : Nat) (h : chooseLevels nr nt maxLevels = .ok L) :
    2 ≤ L ∧ (∀ l, l + 1 < L → coarsenR l nr % 2 = 1 ∧ coarsenT l nt % 4 = 0)
      ∧ 5 ≤ coarsenR (L - 1) nr ∧ 4 ≤ coarsenT (L - 1) nt := by
  obtain ⟨h2, hr, ht⟩ := chooseLevels_ok h
  have hR := radialMax_spec nr nr L hr
  have hT := angularMax_spec nt nt L ht
  refine ⟨h2, fun l hl => ⟨(hR l hl).1, (hT l hl).1⟩, ?_, ?_⟩
  · have := (hR (L - 2) (by omega)).2
    rwa [show L - 2 + 1 = L - 1 by omega] at this
  · have := (hT (L - 2) (by omega)).2
    rwa [show L - 2 + 1 = L - 1 by omega] at this

/-- `maxLevels > 0` caps the result -/
theorem levels_capped (nr nt : Nat) (maxLevels : Int) (L : Nat) (h : chooseLevels nr nt maxLevels = .ok L)
    (hm : 0 < maxLevels) : (L : Int) ≤ maxLevels := by
  rw [chooseLevels_def] at h
  split at h
  · cases h
  · injection h with h
    subst h
    unfold lv
    rw [if_pos hm]
    omega

theorem levels_reject (nr nt : Nat) (maxLevels : Int) :
    (∃ L, chooseLevels nr nt maxLevels = .ok L) ∨ (∃ m, chooseLevels nr nt maxLevels = .throw m) :=
  chooseLevels_cases nr nt maxLevels

theorem levels_never_ub (nr nt : Nat) (maxLevels : Int) (w : String) : chooseLevels nr nt maxLevels ≠ .ub w := by
  rcases chooseLevels_cases nr nt maxLevels with ⟨L, h⟩ | ⟨m, h⟩ <;> rw [h] <;> intro h' <;> cases h'

/-! ## 5. the parametric constructor -/

/-- whatever `generate` accepts has passed `checkParameters` -/
theorem generate_ok_shape (g : GenIn) (radii : List Rat) (nt : Nat) (h : generate g = .ok (radii, nt)) :
    2 ≤ radii.length ∧ (∀ r ∈ radii, 0 < r) ∧ StrictInc radii ∧ 2 ≤ nt ∧ nt % 2 = 0 := by
  rw [generate_eq] at h
  obtain ⟨t, _, ht⟩ := bind_eq_ok h
  exact finish_ok_shape ht

/-- uniform branch: accepted, with the exact geometry -/
theorem generate_uniform_ok (g : GenIn) (ha : g.aniso = 0) (h1 : 1 ≤ g.nrExp) (h0 : 0 < g.R0) (hR : g.R0 < g.Rmax)
    (hnt : g.ntExp ≠ 0 ∨ g.div ≠ 0) :
    ∃ radii nt, generate g = .ok (radii, nt) ∧ StrictInc radii ∧ radii.head? = some g.R0
      ∧ radii.getLast? = some g.Rmax ∧ radii.length = 2 ^ g.nrExp.toNat * 2 ^ g.div + 1 ∧ radii.length % 2 = 1
      ∧ Midpoints radii ∧ (2 ≤ g.ntExp ∨ g.ntExp < 0 → nt % 4 = 0) := by
  obtain ⟨t, ht, hlen, hinc, hhead, hlast⟩ := uniform_ok g.R0 g.Rmax g.nrExp h1 hR
  have hp : 0 < 2 ^ (g.nrExp.toNat - 1) := Nat.pos_of_ne_zero (by positivity)
  have hl2 : 2 ≤ t.length := by omega
  rw [head?_eq_getD _ (by omega)] at hhead
  rw [getLast?_eq_getD _ (by omega)] at hlast
  injection hhead with hhead
  injection hlast with hlast
  have hnt2 : 2 ≤ ntOf g t := by
    unfold ntOf
    have hd : 0 < 2 ^ g.div := Nat.pos_of_ne_zero (by positivity)
    have key : ∀ x y : Nat, 1 ≤ x → 1 ≤ y → (2 ≤ x ∨ 2 ≤ y) → 2 ≤ x * y := by
      intro x y hx hy hxy
      rcases hxy with h | h
      · calc 2 ≤ x := h
          _ = x * 1 := by omega
          _ ≤ x * y := Nat.mul_le_mul_left _ hy
      · calc 2 ≤ y := h
          _ = 1 * y := by omega
          _ ≤ x * y := Nat.mul_le_mul_right _ hx
    apply key _ _ _ hd
    · by_cases hneg : g.ntExp < 0
      · left
        rw [if_pos hneg]
        have := ceilLog2_ge_two (midpointRefine t).length (by rw [midpointRefine_length]; omega)
        calc 2 ≤ 2 ^ 2 := by decide
          _ ≤ _ := Nat.pow_le_pow_right (by decide) this
      · rw [if_neg hneg]
        rcases hnt with h | h
        · left
          calc 2 = 2 ^ 1 := rfl
            _ ≤ _ := Nat.pow_le_pow_right (by decide) (by omega)
        · right
          calc 2 = 2 ^ 1 := rfl
            _ ≤ _ := Nat.pow_le_pow_right (by decide) (by omega)
    · split <;> exact Nat.pos_of_ne_zero (by positivity)
  have hlenr := radiiOf_length g t hl2
  refine ⟨radiiOf g t, ntOf g t, ?_, radiiOf_strictInc g t hinc, ?_, ?_, ?_, radiiOf_odd g t hl2,
    radiiOf_midpoints g t, ?_⟩
  · rw [generate_eq, if_pos ha, ht, ok_bind]
    exact finish_ok g t hinc hl2 (by rw [hhead]; exact h0) hnt2
  · rw [head?_eq_getD _ (by omega), radiiOf_first g t hl2, hhead]
  · rw [getLast?_eq_getD _ (by omega), radiiOf_last g t hl2, hlast]
  · rw [hlenr, hlen]
    have : 2 ^ g.nrExp.toNat = 2 * 2 ^ (g.nrExp.toNat - 1) := by
      rw [← Nat.pow_succ']; congr 1; omega
    rw [this]; congr 2
  · intro h
    apply ntOf_mod_four
    rcases h with h | h
    · exact Or.inl h
    · exact Or.inr ⟨h, hl2⟩

/-- `nt % 4 = 0` as a statement about any accepted uniform grid -/
theorem accept_uniform (g : GenIn) (ha : g.aniso = 0) (h1 : 1 ≤ g.nrExp) (hR : g.R0 < g.Rmax)
    (radii : List Rat) (nt : Nat) (h : generate g = .ok (radii, nt)) (hnt : 2 ≤ g.ntExp ∨ g.ntExp < 0) :
    nt % 4 = 0 ∧ radii.length % 2 = 1 ∧ Midpoints radii := by
  obtain ⟨t, ht, hlen, _⟩ := uniform_ok g.R0 g.Rmax g.nrExp h1 hR
  have hp : 0 < 2 ^ (g.nrExp.toNat - 1) := Nat.pos_of_ne_zero (by positivity)
  have hl2 : 2 ≤ t.length := by omega
  rw [generate_eq, if_pos ha, ht, ok_bind] at h
  have hsh : finish g t = .ok (radiiOf g t, ntOf g t) ∨ ∃ m, finish g t = .throw m := by
    unfold finish
    repeat' split
    all_goals first | exact Or.inl rfl | exact Or.inr ⟨_, rfl⟩
  rcases hsh with h' | ⟨m, h'⟩
  · rw [h'] at h
    injection h with h
    injection h with hr hn
    subst hr; subst hn
    refine ⟨ntOf_mod_four g t ?_, radiiOf_odd g t hl2, radiiOf_midpoints g t⟩
    rcases hnt with h | h
    · exact Or.inl h
    · exact Or.inr ⟨h, hl2⟩
  · rw [h'] at h; cases h

theorem generate_never_ub_uniform (g : GenIn) (ha : g.aniso = 0) (h1 : 1 ≤ g.nrExp) (w : String) :
    generate g ≠ .ub w := by
  rw [generate_eq, if_pos ha, uniformTemp_eq _ _ _ h1, ok_bind]
  exact finish_ne_ub g _ w

/-! ## 6. the anisotropic routine stays in bounds -/

/-- (i) window arithmetic: the number of refined entries is a power of two `≥ 2`, `log2` never sees a
non-positive number, and `0 ≤ se`, `ee = se + nRef ≤ nr` -/
theorem window_in_range (a : AnisoIn) (hA : 1 ≤ a.aniso)
    (hpow : (2 : Int) ^ a.aniso.toNat < (2 : Int) ^ a.nrExp.toNat) (hP : 0 ≤ An.P a) :
    ∃ b, 1 ≤ b ∧ An.nRefO a = .ok ((2 : Int) ^ b) ∧ 0 ≤ An.se a ((2 : Int) ^ b)
      ∧ An.se a ((2 : Int) ^ b) + (2 : Int) ^ b ≤ An.nr a :=
  An.window a (by unfold An.A; omega) hpow hP

/-- the centre index is clamped into the array -/
theorem centre_in_range (a : AnisoIn) (hP : 0 ≤ An.P a) (hnr : 1 ≤ An.nr a) :
    0 ≤ An.fl a ∧ An.fl a ≤ An.nr a - 1 := An.fl_bounds a hP hnr

/-- (iii) one refinement pass over a set of `m` equally spaced radii: the iterator never passes the end, exactly
`m - 1` new radii are inserted (no merging), and the kept set has exactly `count` entries again equally spaced -/
theorem pass_in_range (half s c : Rat) (keep : Bool) (st et m : Nat) (rset : List Rat)
    (hh : 0 < half) (hs : Lat c (2 * half) s) (hst : st ≤ et) (het : et + 1 ≤ m)
    (hlat : ∀ y ∈ rset, Lat c (2 * half) y) :
    ∃ rs', refinePass half keep (st : Int) (et : Int) (ap s (2 * half) m) (m : Int) rset
        = .ok (rs', ap (s + (st : Rat) * (2 * half)) half (2 * keptN keep st et (m - 1)),
            ((2 * keptN keep st et (m - 1) : Nat) : Int))
      ∧ rs'.length = rset.length + (m - 1) ∧ ∀ y ∈ rs', Lat c half y :=
  refinePass_spec half s c keep st et m rset hh hs hst het hlat

/-- (iv) `nr + |r_set|` is never a multiple of 8 when `aniso ≥ 1`: `std::advance` gets a count `≥ 0` -/
theorem advance_nonneg (A n b : Nat) (hA : 1 ≤ A) (hn : A < n) (len : Nat)
    (hlen : (b = 1 ∧ len = 1) ∨ (2 ≤ b ∧ len = A * (2 ^ b - 1))) :
    (((if A % 2 = 1 then (2 : Int) ^ n - (2 : Int) ^ A + 1 else (2 : Int) ^ n - (2 : Int) ^ A) + 1)
      + (len : Int)) % 8 ≠ 0 :=
  An.nr2_mod8 A n b hA hn _ rfl len hlen

/-- every admissible input with `aniso ≥ 1` runs to completion -/
theorem aniso_ok (a : AnisoIn) (hR : a.R0 < a.R) (hr : a.R0 ≤ a.refr ∧ a.refr ≤ a.R) (hA : 1 ≤ a.aniso)
    (hpow : (2 : Int) ^ a.aniso.toNat < (2 : Int) ^ a.nrExp.toNat) : ∃ t, anisoDivision a = .ok t := by
  apply An.aniso_ok a hR ?_ hA hpow
  have hd : 0 < a.R - a.R0 := by linarith
  unfold An.P
  exact ⟨div_nonneg (by linarith) hd.le, by rw [div_le_one hd]; linarith⟩

/-- **inbounds**: for `R0 < R` and a non-zero anisotropy exponent the routine never performs an out-of-range
read or write, never dereferences a past-the-end iterator, never calls `std::advance` with a negative count and
never takes `log2` of a non-positive number: the outcome is a value or an exception. -/
theorem inbounds (a : AnisoIn) (hR : a.R0 < a.R) (hA : a.aniso ≠ 0) :
    (∃ t, anisoDivision a = .ok t) ∨ (∃ m, anisoDivision a = .throw m) := by
  by_cases hout : a.refr < a.R0 ∨ a.R < a.refr
  · exact Or.inr ⟨_, An.reject_outside a hR hout⟩
  by_cases hbad : a.aniso < 0 ∨ a.nrExp < 0 ∨ (2 : Int) ^ a.nrExp.toNat ≤ (2 : Int) ^ a.aniso.toNat
  · exact Or.inr (An.reject_large a hbad)
  · exact Or.inl (aniso_ok a hR ⟨by linarith [not_or.mp hout], by linarith [not_or.mp hout]⟩ (by omega) (by omega))

theorem inbounds_never_ub (a : AnisoIn) (hR : a.R0 < a.R) (hA : a.aniso ≠ 0) (w : String) :
    anisoDivision a ≠ .ub w := by
  rcases inbounds a hR hA with ⟨t, h⟩ | ⟨m, h⟩ <;> rw [h] <;> intro h' <;> cases h'

/-- the hypothesis `aniso ≠ 0` of `inbounds` cannot be dropped: with exponent 0 and `nrExp ≥ 3` the set `r_set`
is empty and `nr = 2^nrExp` is a multiple of 8, so the routine executes `std::advance(r_set.begin(), -1)`.
(`generate` never calls the routine with `aniso = 0`.) -/
theorem aniso_zero_ub (a : AnisoIn) (hR : a.R0 < a.R) (hr : a.R0 ≤ a.refr ∧ a.refr ≤ a.R) (hA : a.aniso = 0)
    (hn : 3 ≤ a.nrExp) : anisoDivision a = .ub "std::advance(r_set.begin(), -1)" := by
  apply An.aniso_zero_ub a hR ?_ hA hn
  have hd : 0 < a.R - a.R0 := by linarith
  unfold An.P
  exact ⟨div_nonneg (by linarith) hd.le, by rw [div_le_one hd]; linarith⟩

/-- the parametric constructor never reaches undefined behaviour (either branch) -/
theorem generate_never_ub (g : GenIn) (hR : g.R0 < g.Rmax) (h1 : g.aniso = 0 → 1 ≤ g.nrExp) (w : String) :
    generate g ≠ .ub w := by
  by_cases ha : g.aniso = 0
  · exact generate_never_ub_uniform g ha (h1 ha) w
  · rw [generate_eq, if_neg ha]
    rcases inbounds ⟨g.R0, g.Rmax, g.nrExp, g.refr, g.aniso⟩ hR ha with ⟨t, h⟩ | ⟨m, h⟩
    · rw [h, ok_bind]; exact finish_ne_ub g t w
    · rw [h, throw_bind]; intro h'; cases h'

/-! ## 7. rejected inputs -/

theorem rejects_outside (a : AnisoIn) (hR : a.R0 < a.R) (h : a.refr < a.R0 ∨ a.R < a.refr) :
    anisoDivision a = .throw "refinement radius outside [R0, R]" := An.reject_outside a hR h

theorem rejects_large_aniso (a : AnisoIn)
    (h : a.aniso < 0 ∨ a.nrExp < 0 ∨ (2 : Int) ^ a.nrExp.toNat ≤ (2 : Int) ^ a.aniso.toNat) :
    ∃ m, anisoDivision a = .throw m := An.reject_large a h

/-! ## non-vacuity -/

example : ∃ t, uniformTemp (1 / 10) (13 / 10) 4 = .ok t ∧ t.length = 9 ∧ StrictInc t
    ∧ t.head? = some (1 / 10) ∧ t.getLast? = some (13 / 10) := by
  simpa using uniform_ok (1 / 10) (13 / 10) 4 (by decide) (by norm_num)

example : ∃ radii nt, generate ⟨1 / 10, 13 / 10, 4, -1, 1 / 2, 0, 1⟩ = .ok (radii, nt) ∧ radii.length = 33 := by
  obtain ⟨radii, nt, h, _, _, _, hl, _⟩ :=
    generate_uniform_ok ⟨1 / 10, 13 / 10, 4, -1, 1 / 2, 0, 1⟩ rfl (by decide) (by norm_num) (by norm_num)
      (Or.inl (by decide))
  exact ⟨radii, nt, h, by simpa using hl⟩

example : ∃ t, anisoDivision ⟨1 / 10, 13 / 10, 4, 1 / 2, 2⟩ = .ok t :=
  aniso_ok _ (by norm_num) (by norm_num) (by decide) (by decide)

/-- the shrunken-window path (refinement centre at the outer boundary) is exercised and in range -/
example : ∃ t, anisoDivision ⟨1 / 10, 13 / 10, 6, 13 / 10, 3⟩ = .ok t :=
  aniso_ok _ (by norm_num) (by norm_num) (by decide) (by decide)

example : anisoDivision ⟨1 / 10, 13 / 10, 4, 1 / 2, 0⟩ = .ub "std::advance(r_set.begin(), -1)" :=
  aniso_zero_ub _ (by norm_num) (by norm_num) rfl (by decide)

example : anisoDivision ⟨1 / 10, 13 / 10, 4, 2, 2⟩ = .throw "refinement radius outside [R0, R]" :=
  rejects_outside _ (by norm_num) (Or.inr (by norm_num))

example : ∃ m, anisoDivision ⟨1 / 10, 13 / 10, 3, 1 / 2, 3⟩ = .throw m :=
  rejects_large_aniso _ (Or.inr (Or.inr (by decide)))

/-- `chooseLevels 33 64 (-1)`: `33 → 17 → 9 → 5`, `64 → 32 → 16 → 8`: four levels -/
example : chooseLevels 33 64 (-1) = .ok 4 := rfl

example : ∃ m, chooseLevels 7 64 (-1) = .throw m := ⟨_, rfl⟩

end C18
