import GMGProofs.Lemmas.SchedOrder
import GMGProofs.Props.C11
import Mathlib.Tactic.NormNum
/-!
# C12 — results do not depend on the thread count or the schedule

Property theorems only (proofs: `GMGProofs/Lemmas/SchedOrder.lean`).

* A barrier interval is executed as its work items (loop iterations) in *some* order — which one depends on the thread
  count, the chunking and the interleaving.  `perm_invariant` + `commute_of_disjoint` = `region_determinism`: if the
  footprints do not interfere (C11), every order gives the same memory.  The value type `V` is arbitrary — in particular
  IEEE doubles with their non-associative arithmetic — so not a single output bit can change.
  `generated_regions_deterministic` instantiates this for every barrier interval of the twelve generated regions.
* `reduce_chunks`, `reduce_chunks_max`: what `reduction(+: …)` / `reduction(max: …)` compute.  Exact arithmetic: in floating
  point the grouping of a sum changes the rounding (not bit-reproducible by specification); `max` is exact in floating
  point too (a linear order on the non-NaN values).
* `threads_per_level`: `max 1 (min maxT ⌊maxT · f^d⌋)` stays in `[1, maxT]` and does not grow with the depth.
-/
namespace C12
open Sched Sched.Order

/-- pairwise commuting tasks give the same memory in any order -/
theorem perm_invariant {M : Type} (ts us : List (M → M)) (m : M) (hp : ts.Perm us)
    (hc : ∀ f ∈ ts, ∀ g ∈ ts, ∀ x, f (g x) = g (f x)) :
    ts.foldl (fun acc f => f acc) m = us.foldl (fun acc f => f acc) m :=
  Order.perm_invariant ts us m hp hc

/-- frame lemma: `f` writes only `W_f` and what it writes depends only on `R_f ∪ W_f` (`Respects`), the same for `g`,
    `W_f ∩ (R_g ∪ W_g) = ∅ = W_g ∩ (R_f ∪ W_f)` (`NonInterfering`) ⇒ `f` and `g` commute.  Any `Loc`, any `V`. -/
theorem commute_of_disjoint {Loc V : Type} {f g : (Loc → V) → (Loc → V)} {Rf Wf Rg Wg : Loc → Prop}
    (hf : Respects f Rf Wf) (hg : Respects g Rg Wg) (hd : NonInterfering Rf Wf Rg Wg) (m : Loc → V) :
    f (g m) = g (f m) :=
  Order.commute_of_disjoint hf hg hd m

/-- tasks with pairwise non-interfering footprints give the same final memory in every order -/
theorem region_determinism {Loc V : Type} (ts us : List (Task Loc V)) (hp : ts.Perm us) (hi : ts.Pairwise Task.Indep)
    (m : Loc → V) : ts.foldl (fun acc f => f.run acc) m = us.foldl (fun acc f => f.run acc) m :=
  Order.region_determinism ts us hp hi m

/-- C11 + `region_determinism` for the generated regions: in every barrier interval of every region, if the code of each
    loop iteration respects the model footprint of that iteration (`iterR`, `iterW`: union over the kernel calls of its
    body), any two orders of the work items `(loop index, iteration)` give the same memory, for every value type. -/
theorem generated_regions_deterministic {V : Type} (s : Shape) (h : SmoothAdmissible s) (reg : Region) (hreg : reg ∈ Gen.all)
    (iv : List Nat) (hiv : iv ∈ intervals reg.loops)
    (run : Nat → Int → (Node → V) → (Node → V))
    (hrun : ∀ ia ∈ iv, ∀ t, (reg.loops.getD ia default).has s t →
      Respects (run ia t) (iterR s (reg.loops.getD ia default) t) (iterW s (reg.loops.getD ia default) t))
    (items items' : List (Nat × Int)) (hnd : items.Nodup)
    (hmem : ∀ p ∈ items, p.1 ∈ iv ∧ (reg.loops.getD p.1 default).has s p.2)
    (hp : items.Perm items') (m : Node → V) :
    items.foldl (fun acc p => run p.1 p.2 acc) m = items'.foldl (fun acc p => run p.1 p.2 acc) m :=
  interval_determinism (C11.race_free_all s h reg hreg) iv hiv run hrun items items' hnd hmem hp m

/-- `reduction(+: …)`: split the list into consecutive chunks, sum each chunk, combine the partial sums in any order -/
theorem reduce_chunks {A : Type} [AddCommMonoid A] (chunks : List (List A)) (partials : List A)
    (hp : (chunks.map List.sum).Perm partials) : partials.sum = chunks.flatten.sum :=
  sum_chunks chunks partials hp

/-- `reduction(max: …)` on a linear order, every partial maximum and the combination starting from the incoming value `b` -/
theorem reduce_chunks_max {A : Type} [LinearOrder A] (chunks : List (List A)) (partials : List A) (b : A)
    (hp : (chunks.map (fun c => c.foldl max b)).Perm partials) :
    partials.foldl max b = chunks.flatten.foldl max b :=
  max_chunks chunks partials b hp

/-- `threads(d) = max 1 (min maxT ⌊maxT · f^d⌋)`, `0 < f ≤ 1`, `1 ≤ maxT` -/
theorem threads_per_level (maxT : Int) (f : Rat) (hT : 1 ≤ maxT) (hf0 : 0 < f) (hf1 : f ≤ 1) :
    (∀ d, 1 ≤ threads maxT f d ∧ threads maxT f d ≤ maxT) ∧
    (∀ d d', d ≤ d' → threads maxT f d' ≤ threads maxT f d) ∧
    threads maxT f 0 = maxT :=
  ⟨fun d => ⟨one_le_threads maxT f d, threads_le maxT f d hT⟩,
   fun _ _ hd => threads_antitone maxT f hT hf0 hf1 hd, threads_zero maxT f hT⟩

/-! ### non-vacuity -/

/-- two concrete tasks on two cells: `f` increments cell `true`, `g` doubles cell `false` -/
example : ∃ (f g : Task Bool Nat), f.Indep g ∧ f.run ≠ g.run ∧ f.run (g.run fun _ => 1) true = 2 :=
  ⟨⟨fun m x => if x then m true + 1 else m x, fun x => x = true, fun x => x = true,
      ⟨fun m x hx => by simp only [Bool.not_eq_true] at hx; simp [hx],
       fun m m' hm x hx => by subst hx; simp [hm true (Or.inl rfl)]⟩⟩,
   ⟨fun m x => if x then m x else 2 * m false, fun x => x = false, fun x => x = false,
      ⟨fun m x hx => by simp only [Bool.not_eq_false] at hx; simp [hx],
       fun m m' hm x hx => by subst hx; simp [hm false (Or.inl rfl)]⟩⟩,
   ⟨by intro x hx; subst hx; simp, by intro x hx; subst hx; simp⟩,
   fun h => by have := congrFun (congrFun h (fun _ => 1)) true; simp at this,
   by simp⟩

/-- the disjointness hypothesis is needed: "copy cell 0 to cell 1" and "increment cell 0" do not commute -/
example : ∃ (f g : (Bool → Nat) → (Bool → Nat)) (m : Bool → Nat), f (g m) ≠ g (f m) :=
  ⟨fun m x => if x then m false else m x, fun m x => if x then m x else m false + 1, fun _ => 0,
   fun h => by have := congrFun h true; simp at this⟩

example : ([3, 9, 3] : List Nat).sum = ([[1, 2], [3], [4, 5]] : List (List Nat)).flatten.sum :=
  reduce_chunks [[1, 2], [3], [4, 5]] [3, 9, 3] (by decide)
example : ([7, 4, 9] : List Nat).foldl max 4 = ([[1, 7], [], [9, 5]] : List (List Nat)).flatten.foldl max 4 :=
  reduce_chunks_max [[1, 7], [], [9, 5]] [7, 4, 9] 4 (by decide)

/-- 16 threads, factor 1/2: 16, 8, 4, 2, 1, 1, … -/
example : threads 16 (1 / 2) 2 = 4 ∧ threads 16 (1 / 2) 6 = 1 := by
  constructor <;> (unfold threads; norm_num [Int.floor_eq_iff])

end C12
