import GMGModel.DirectGiveCode
import Generated.Stencils
import GMGProofs.Props.C04c
import GMGProofs.Lemmas.DirectGiveCode5
/-!
# C04 (code level, give) — the CSR matrix `DirectSolverGiveCustomLU::buildSolverMatrix` assembles IS the operator

Model: `GMGModel/DirectGiveCode.lean` (every node scatters accumulating stores `row_nz_entry(row, offset) += val` into its own
row and the rows of its neighbours, the offset looked up in the stencil table of the ROW's radial index; zero-initialised rows
of the allocated sizes; sequential order circle sections then radial sections, `nc = numberSmootherCircles()`), instantiated
with the tables `tools/stencil_extract.py` regenerates from
`include/DirectSolver/DirectSolverGiveCustomLU/directSolverGiveCustomLU.h` (`Generated/Stencils.lean`, `DirectGive_*`).

The statements hold for EVERY `nc` (over a field the result does not depend on the order of the `+=`), in particular for the
3-coloured parallel order.  Property theorems only; helper lemmas in `GMGProofs/Lemmas/DirectGiveCode{1..5}.lean`.
-/
namespace C04g
open Stencil Direct SparseLU DirectCode

/-- the offset tables of the give header, as regenerated on every check -/
def genTablesGive : Tables :=
  ⟨Stencils.Gen.DirectGive_stencil_interior, Stencils.Gen.DirectGive_stencil_across_origin, Stencils.Gen.DirectGive_stencil_DB,
   Stencils.Gen.DirectGive_stencil_next_inner_DB, Stencils.Gen.DirectGive_stencil_next_outer_DB⟩

/-- the regenerated tables have the values the lemmas are stated for (a change of the header breaks this `rfl`) -/
theorem genTablesGive_good : GoodTables genTablesGive := ⟨rfl, rfl, rfl, rfl, rfl⟩

section AnyField
variable {K : Type} [_root_.Field K]

/-- (a) with the header's tables no store of the scatter assembly leaves its row — neither a row that does not exist, nor a
    `-1` offset, nor an offset beyond the allocated row size — for every grid with at least four radial nodes
    (any `nt`, any inner boundary condition, any `nc`) -/
theorem assemble_in_bounds (o : Op K) (hnr : 4 ≤ o.nr) (nc : Nat) :
    ∃ M, DirectGiveCode.assemble genTablesGive o nc = some M := by
  obtain ⟨rsf, h, _⟩ := DirectGiveCode.rows_spec genTablesGive o genTablesGive_good hnr nc
  unfold DirectGiveCode.assemble
  rw [h]
  exact ⟨_, rfl⟩

/-- `4 ≤ nr` is sharp: with three radial nodes the node next to the inner boundary gives to the outer Dirichlet row, whose
    table has no `Left` offset (`getStencil` asserts `nr >= 4`; in a release build the store goes through offset `-1`) -/
theorem assemble_out_of_bounds_nr3 :
    DirectGiveCode.assemble (α := ℚ) genTablesGive
      ⟨3, 4, true, 1, fun _ => 1, fun _ => 1, fun _ _ => 1, fun _ _ => 1, fun _ _ => 0, fun _ _ => 1, fun _ => 0⟩ 1 = none := by
  rw [DirectGiveCode.assemble, Option.map_eq_none_iff]
  decide +kernel

/-- a table with a missing position DOES produce an out-of-bounds store (the model can see the defect class) -/
theorem assemble_out_of_bounds_detected :
    DirectGiveCode.assemble (α := ℚ) { genTablesGive with interior := [7, 4, 8, 1, 0, 2, 5, 3, -1] }
      ⟨5, 4, true, 1, fun _ => 1, fun _ => 1, fun _ _ => 1, fun _ _ => 1, fun _ _ => 0, fun _ _ => 1, fun _ => 0⟩ 2 = none := by
  rw [DirectGiveCode.assemble, Option.map_eq_none_iff]
  decide +kernel

theorem assemble_rows (o : Op K) (nc : Nat) (M : CSR K) (h : DirectGiveCode.assemble genTablesGive o nc = some M) :
    M.rows = o.nr * o.nt := by
  unfold DirectGiveCode.assemble at h
  obtain ⟨rs, _, rfl⟩ := Option.map_eq_some_iff.mp h
  rfl

/-- (b) **the matrix assembled by the scatter code carries exactly the operator's entries** (row-major numbering).
    Across the origin (`DirBC_Interior = false`) the angular spacing must be antipodally symmetric, as in `C03.give_eq_take`
    (`hk_needed` below: without it the assembled matrix is NOT the operator's) -/
theorem give_assemble_entries (o : Op K) (hnr : 4 ≤ o.nr) (hnt : 4 ≤ o.nt) (heven : o.nt % 2 = 0)
    (hk : o.bc = false → ∀ j, j < o.nt → o.k (ja o j) = o.k j) (nc : Nat)
    (M : CSR K) (h : DirectGiveCode.assemble genTablesGive o nc = some M) :
    ∀ i j s t, i < o.nr → j < o.nt → s < o.nr → t < o.nt →
      toDense M (i * o.nt + j) (s * o.nt + t) = opEntry o i j s t := by
  intro i j s t hi hj _ ht
  exact DirectGiveCode.give_entries genTablesGive o genTablesGive_good hnr hnt heven hk nc M h hi hj ht

/-- Dirichlet inner boundary: no condition on the angular spacing -/
theorem give_assemble_entries_dirichlet (o : Op K) (hnr : 4 ≤ o.nr) (hnt : 4 ≤ o.nt) (heven : o.nt % 2 = 0)
    (hbc : o.bc = true) (nc : Nat) (M : CSR K) (h : DirectGiveCode.assemble genTablesGive o nc = some M) :
    ∀ i j s t, i < o.nr → j < o.nt → s < o.nr → t < o.nt →
      toDense M (i * o.nt + j) (s * o.nt + t) = opEntry o i j s t :=
  give_assemble_entries o hnr hnt heven (fun h' => by rw [hbc] at h'; cases h') nc M h

/-- the result does not depend on the sequential order parameter `nc` (nor, over a field, on any other order of the `+=`) -/
theorem assemble_order_independent (o : Op K) (hnr : 4 ≤ o.nr) (hnt : 4 ≤ o.nt) (heven : o.nt % 2 = 0)
    (hk : o.bc = false → ∀ j, j < o.nt → o.k (ja o j) = o.k j) (nc nc' : Nat) (M M' : CSR K)
    (h : DirectGiveCode.assemble genTablesGive o nc = some M) (h' : DirectGiveCode.assemble genTablesGive o nc' = some M') :
    ∀ i j s t, i < o.nr → j < o.nt → s < o.nr → t < o.nt →
      toDense M (i * o.nt + j) (s * o.nt + t) = toDense M' (i * o.nt + j) (s * o.nt + t) := by
  intro i j s t hi hj hs ht
  rw [give_assemble_entries o hnr hnt heven hk nc M h i j s t hi hj hs ht,
    give_assemble_entries o hnr hnt heven hk nc' M' h' i j s t hi hj hs ht]

/-- (c) **give and take assemble the same matrix**, entry by entry -/
theorem give_take_same_matrix (o : Op K) (hnr : 4 ≤ o.nr) (hnt : 4 ≤ o.nt) (heven : o.nt % 2 = 0)
    (hk : o.bc = false → ∀ j, j < o.nt → o.k (ja o j) = o.k j) (nc : Nat) (Mg Mt : CSR K)
    (hg : DirectGiveCode.assemble genTablesGive o nc = some Mg) (ht : DirectCode.assemble C04c.genTables o = some Mt) :
    ∀ i j s t, i < o.nr → j < o.nt → s < o.nr → t < o.nt →
      toDense Mg (i * o.nt + j) (s * o.nt + t) = toDense Mt (i * o.nt + j) (s * o.nt + t) := by
  intro i j s t hi hj hs ht'
  rw [give_assemble_entries o hnr hnt heven hk nc Mg hg i j s t hi hj hs ht',
    C04c.assemble_entries o hnr hnt heven Mt ht i j s t hi hj hs ht']

/-- … and the same sparsity pattern in the same storage order: slot by slot both strategies store the same column index
    (no hypothesis on the spacings: this is about `row_nz_index` only) -/
theorem give_take_same_pattern (o : Op K) (hnr : 4 ≤ o.nr) (heven : o.bc = false → o.nt % 2 = 0) (nc : Nat)
    (rg rt : List (List (Nat × K))) (hg : DirectGiveCode.rows genTablesGive o nc = some rg)
    (ht : DirectCode.rows C04c.genTables o = some rt) :
    ∀ i j, i < o.nr → j < o.nt →
      (rg.getD (i * o.nt + j) []).map (·.1) = (rt.getD (i * o.nt + j) []).map (·.1) := by
  intro i j hi hj
  rw [DirectGiveCode.rows_closed genTablesGive o genTablesGive_good hnr heven nc] at hg
  rw [DirectCode.rows_eq C04c.genTables o C04c.genTables_good hnr] at ht
  obtain rfl := Option.some.inj hg
  obtain rfl := Option.some.inj ht
  rw [DirectGiveCode.finalRows_getD genTablesGive o nc hi hj, DirectCode.rowList_getD o hi hj, List.map_map]
  have := DirectGiveCode.slotCols_eq o hnr hi j
  unfold nodeRow
  rw [List.map_map]
  unfold nodes at this
  rw [List.map_map] at this
  exact this

/-- (d) code-level form of `C04.solve_inverts` for the give solver: what the modelled `DirectSolverGiveCustomLU` returns has
    zero residual -/
theorem code_solve_inverts (o : Op K) (hnr : 4 ≤ o.nr) (hnt : 4 ≤ o.nt) (heven : o.nt % 2 = 0)
    (hk : o.bc = false → ∀ j, j < o.nt → o.k (ja o j) = o.k j) (nc : Nat) (tiny : K → Bool)
    (M : CSR K) (hM : DirectGiveCode.assemble genTablesGive o nc = some M)
    (hp : ∀ r, r < M.rows → den ((factorRows M).2.getD r []) r ≠ 0)
    (b xv : List K) (hb : b.length = o.nr * o.nt)
    (hs : DirectGiveCode.solve genTablesGive o nc tiny b = some (some xv)) :
    ∀ i j, i < o.nr → j < o.nt →
      take o (fun i j => vget b (i * o.nt + j)) (fun i j => vget xv (i * o.nt + j)) i j = 0 := by
  have hrows := assemble_rows o nc M hM
  unfold DirectGiveCode.solve at hs
  rw [hM] at hs
  have hs' : SparseLU.solve tiny (factorRows M) b = some xv := Option.some.inj hs
  exact C04.solve_inverts o (by omega) (by omega) tiny M hrows (give_assemble_entries o hnr hnt heven hk nc M hM) hp b xv
    (by rw [hrows]; exact hb) hs'

end AnyField

section Ordered
variable {K : Type} [_root_.Field K] [LinearOrder K] [IsStrictOrderedRing K]

/-- Dirichlet inner boundary, elliptic data: no pivot hypothesis, no condition on the angular spacing — the code-level give
    solve either takes the `tiny` exit or returns the solution of the discrete system -/
theorem code_solve_inverts_dirichlet (o : Op K) (hnr : 4 ≤ o.nr) (hnt : 4 ≤ o.nt) (heven : o.nt % 2 = 0)
    (hbc : o.bc = true) (he : Elliptic o) (nc : Nat) (tiny : K → Bool) (b xv : List K) (hb : b.length = o.nr * o.nt)
    (hs : DirectGiveCode.solve genTablesGive o nc tiny b = some (some xv)) :
    ∀ i j, i < o.nr → j < o.nt →
      take o (fun i j => vget b (i * o.nt + j)) (fun i j => vget xv (i * o.nt + j)) i j = 0 := by
  obtain ⟨M, hM⟩ := assemble_in_bounds o hnr nc
  have hrows := assemble_rows o nc M hM
  unfold DirectGiveCode.solve at hs
  rw [hM] at hs
  have hs' : SparseLU.solve tiny (factorRows M) b = some xv := Option.some.inj hs
  exact C04.solve_inverts_dirichlet o hnr (by omega) heven hbc he tiny M hrows
    (give_assemble_entries_dirichlet o hnr hnt heven hbc nc M hM) b xv (by rw [hrows]; exact hb) hs'

/-- both code-level solvers return the same field (Dirichlet inner boundary, elliptic data) -/
theorem give_take_same_solution (o : Op K) (hnr : 4 ≤ o.nr) (hnt : 4 ≤ o.nt) (heven : o.nt % 2 = 0)
    (hbc : o.bc = true) (he : Elliptic o) (nc : Nat) (tiny : K → Bool) (b xg xt : List K) (hb : b.length = o.nr * o.nt)
    (hg : DirectGiveCode.solve genTablesGive o nc tiny b = some (some xg))
    (ht : DirectCode.solve C04c.genTables o tiny b = some (some xt)) :
    ∀ i j, i < o.nr → j < o.nt → vget xg (i * o.nt + j) = vget xt (i * o.nt + j) :=
  C04.solution_unique o hnr (by omega) heven hbc he (fun i j => vget b (i * o.nt + j))
    (fun i j => vget xg (i * o.nt + j)) (fun i j => vget xt (i * o.nt + j))
    (code_solve_inverts_dirichlet o hnr hnt heven hbc he nc tiny b xg hb hg)
    (C04c.code_solve_inverts_dirichlet o hnr hnt heven hbc he tiny b xt hb ht)

end Ordered

/-! ## sharpness and non-vacuity -/

/-- the antipodal symmetry of the angular spacing is needed across the origin: on `C03.badOp` (all other hypotheses of
    `give_assemble_entries` hold) the scatter assembly succeeds but its entry `(0,0),(0,0)` is not the operator's -/
theorem hk_needed :
    4 ≤ C03.badOp.nr ∧ 4 ≤ C03.badOp.nt ∧ C03.badOp.nt % 2 = 0 ∧ C03.badOp.bc = false ∧
    ∃ M, DirectGiveCode.assemble genTablesGive C03.badOp 2 = some M ∧
      toDense M (0 * C03.badOp.nt + 0) (0 * C03.badOp.nt + 0) ≠ opEntry C03.badOp 0 0 0 0 := by
  refine ⟨by decide, by decide, by decide, rfl, ?_⟩
  obtain ⟨M, hM⟩ := assemble_in_bounds C03.badOp (by decide) 2
  refine ⟨M, hM, ?_⟩
  rw [DirectGiveCode.toDense_give genTablesGive C03.badOp genTablesGive_good (by decide) (by decide) (by decide) 2 M hM
    (i := 0) (j := 0) (by decide) (by decide)]
  decide +kernel

/-- the hypotheses of `give_assemble_entries` are satisfiable across the origin with a non-constant angular spacing
    (`C03.exOp`), and the theorem then gives all 256 entries -/
example : ∃ M, DirectGiveCode.assemble genTablesGive C03.exOp 2 = some M ∧
    ∀ i j s t, i < 4 → j < 4 → s < 4 → t < 4 → toDense M (i * 4 + j) (s * 4 + t) = opEntry C03.exOp i j s t := by
  obtain ⟨M, hM⟩ := assemble_in_bounds C03.exOp (by decide) 2
  refine ⟨M, hM, give_assemble_entries C03.exOp (by decide) (by decide) (by decide) ?_ 2 M hM⟩
  intro _ j hj
  have : j < 4 := hj
  rcases (by omega : j = 0 ∨ j = 1 ∨ j = 2 ∨ j = 3) with rfl | rfl | rfl | rfl <;> simp [C03.exOp, ja]

end C04g
