import GMGProofs.Props.C19
import Generated.SourceTerms
import GMGProofs.Lemmas.SourceTerms1
import GMGProofs.Lemmas.SourceTerms2
/-!
# C19 (source terms as theorems) — the shipped Circular-geometry source terms ARE `-div(α∇u) + βu` of their exact solutions

`SourceTerms.Gen.<Class>_rhs_f` is the `Expr` the translator `tools/cxx_expr.py` regenerates from
`src/InputFunctions/SourceTerms/<class>.cpp` on every run; `Sym.Lu ⟨u, α, β, Fx, Fy⟩` is the PDE operator applied to the
exact solution by symbolic differentiation (`C19.Lu_is_pde` shows it is the real operator).  Each theorem `src_<Problem>_<Coefficients>`
states that the two agree at every point with `0 < r` of every domain `Rmax ≠ 0` (`env 0 = Rmax`, `env 3 = alpha_jump`).

* Poisson, Zoni, ZoniGyro, ZoniShifted, ZoniShiftedGyro coefficients (15 problems): exact equality, proved.
* Sonnendrücker, SonnendrückerGyro coefficients (6 problems): the exact equality is FALSE (`src_*_false`, witness points with
  `Rmax = 1`).  The C++ source terms hard-code `α'(ρ)` as `−c₂ / (q (ρ − s)² + 1)` with independently rounded 15-digit literals
  `c₂, q, s` that are not consistent with the literals `a₁, k, c` of `α(ρ) = a₀ − a₁ arctan(k ρ − c)`.  What holds instead:
  `src = Lu + sonDelta(r/Rmax) · Rmax · u_r` exactly (`src_*_defect`), with `|sonDelta ρ| ≤ 10⁻¹¹` on `0 ≤ ρ ≤ 1`, hence
  `|src − Lu| ≤ 10⁻¹¹ |Rmax u_r|` on the domain (`src_*_approx`).

All proofs go through `Sym.Lu_circ_formula` (the closed form of `Lu` on the circular geometry for arbitrary `u, α, β`).
Property theorems only; helper lemmas in `GMGProofs/Lemmas/SourceTerms*.lean`.
-/
namespace C19s
open Sym Sym.Expr InputFns

variable {env : Nat → ℝ} {r th : ℝ}

/-- the test problem of a (exact solution, coefficient profile) pair on the circular geometry -/
def circ (u alpha beta : Expr) : Problem := ⟨u, alpha, beta, Gen.CircularGeometry_Fx, Gen.CircularGeometry_Fy⟩

theorem src_CartesianR2_Poisson (hR : env 0 ≠ 0) (hr : 0 < r) :
    ev env r th SourceTerms.Gen.CartesianR2_Poisson_CircularGeometry_rhs_f
      = ev env r th (Lu (circ Gen.CartesianR2_CircularGeometry_exact_solution Gen.PoissonCoefficients_alpha Gen.PoissonCoefficients_beta)) := by
  rw [circ, Lu_circ_formula _ _ _ hR hr.ne']
  simp only [SourceTerms.Gen.CartesianR2_Poisson_CircularGeometry_rhs_f, Gen.CartesianR2_CircularGeometry_exact_solution,
    Gen.PoissonCoefficients_alpha, Gen.PoissonCoefficients_beta]
  sym_eval
  field_simp
  ring

-- UNPROVED: FALSE as stated (see `src_CartesianR2_Sonnendrucker_false`); replaced by `src_CartesianR2_Sonnendrucker_defect` / `_approx`
-- theorem src_CartesianR2_Sonnendrucker (hR : env 0 ≠ 0) (hr : 0 < r) :
--     ev env r th SourceTerms.Gen.CartesianR2_Sonnendrucker_CircularGeometry_rhs_f
--       = ev env r th (Lu (circ Gen.CartesianR2_CircularGeometry_exact_solution Gen.SonnendruckerCoefficients_alpha Gen.SonnendruckerCoefficients_beta)) := by

/-- exact form of the defect: the source term is the PDE operator plus `sonDelta ρ · Rmax · u_r` -/
theorem src_CartesianR2_Sonnendrucker_defect (hR : env 0 ≠ 0) (hr : 0 < r) :
    ev env r th SourceTerms.Gen.CartesianR2_Sonnendrucker_CircularGeometry_rhs_f
      = ev env r th (Lu (circ Gen.CartesianR2_CircularGeometry_exact_solution Gen.SonnendruckerCoefficients_alpha Gen.SonnendruckerCoefficients_beta))
        + sonDelta (r / env 0) * (env 0 * ev env r th (D .r Gen.CartesianR2_CircularGeometry_exact_solution)) := by
  rw [circ, Lu_circ_formula _ _ _ hR hr.ne']
  simp only [SourceTerms.Gen.CartesianR2_Sonnendrucker_CircularGeometry_rhs_f, Gen.CartesianR2_CircularGeometry_exact_solution,
    Gen.SonnendruckerCoefficients_alpha, Gen.SonnendruckerCoefficients_beta]
  sym_eval
  unfold sonDelta
  have h1 := sonDelta_den1 (r / env 0)
  have h2 := sonDelta_den2 (r / env 0)
  generalize Real.arctan (36111111111111 / 2500000000000 * (r / env 0) - 111111111111111 / 10000000000000) = t
  field_simp
  ring

/-- on the domain `0 < r ≤ Rmax` the source term is the PDE operator up to `10⁻¹¹ |Rmax u_r|` -/
theorem src_CartesianR2_Sonnendrucker_approx (hR : 0 < env 0) (hr : 0 < r) (hr1 : r ≤ env 0) :
    |ev env r th SourceTerms.Gen.CartesianR2_Sonnendrucker_CircularGeometry_rhs_f
      - ev env r th (Lu (circ Gen.CartesianR2_CircularGeometry_exact_solution Gen.SonnendruckerCoefficients_alpha Gen.SonnendruckerCoefficients_beta))|
      ≤ 1 / 10 ^ 11 * |env 0 * ev env r th (D .r Gen.CartesianR2_CircularGeometry_exact_solution)| :=
  approx_of_defect (src_CartesianR2_Sonnendrucker_defect hR.ne' hr) (div_nonneg hr.le hR.le) ((div_le_one hR).mpr hr1)

/-- the exact equality fails: `Rmax = 1`, `(r, θ) = (1 / 2, Real.pi / 2)` -/
theorem src_CartesianR2_Sonnendrucker_false :
    ¬ ∀ (env : Nat → ℝ) (r th : ℝ), env 0 ≠ 0 → 0 < r →
      ev env r th SourceTerms.Gen.CartesianR2_Sonnendrucker_CircularGeometry_rhs_f
        = ev env r th (Lu (circ Gen.CartesianR2_CircularGeometry_exact_solution Gen.SonnendruckerCoefficients_alpha Gen.SonnendruckerCoefficients_beta)) := by
  intro h
  have hd := src_CartesianR2_Sonnendrucker_defect (env := fun _ => 1) (r := 1 / 2) (th := Real.pi / 2) one_ne_zero (by norm_num)
  exact ne_of_defect hd (by simpa using sonDelta_half_ne) (mul_ne_zero one_ne_zero ur_CartesianR2_ne)
    (h _ _ _ one_ne_zero (by norm_num))

-- UNPROVED: FALSE as stated (see `src_CartesianR2_SonnendruckerGyro_false`); replaced by `src_CartesianR2_SonnendruckerGyro_defect` / `_approx`
-- theorem src_CartesianR2_SonnendruckerGyro (hR : env 0 ≠ 0) (hr : 0 < r) :
--     ev env r th SourceTerms.Gen.CartesianR2_SonnendruckerGyro_CircularGeometry_rhs_f
--       = ev env r th (Lu (circ Gen.CartesianR2_CircularGeometry_exact_solution Gen.SonnendruckerGyroCoefficients_alpha Gen.SonnendruckerGyroCoefficients_beta)) := by

/-- exact form of the defect: the source term is the PDE operator plus `sonDelta ρ · Rmax · u_r` -/
theorem src_CartesianR2_SonnendruckerGyro_defect (hR : env 0 ≠ 0) (hr : 0 < r) :
    ev env r th SourceTerms.Gen.CartesianR2_SonnendruckerGyro_CircularGeometry_rhs_f
      = ev env r th (Lu (circ Gen.CartesianR2_CircularGeometry_exact_solution Gen.SonnendruckerGyroCoefficients_alpha Gen.SonnendruckerGyroCoefficients_beta))
        + sonDelta (r / env 0) * (env 0 * ev env r th (D .r Gen.CartesianR2_CircularGeometry_exact_solution)) := by
  rw [circ, Lu_circ_formula _ _ _ hR hr.ne']
  simp only [SourceTerms.Gen.CartesianR2_SonnendruckerGyro_CircularGeometry_rhs_f, Gen.CartesianR2_CircularGeometry_exact_solution,
    Gen.SonnendruckerGyroCoefficients_alpha, Gen.SonnendruckerGyroCoefficients_beta]
  sym_eval
  unfold sonDelta
  have h1 := sonDelta_den1 (r / env 0)
  have h2 := sonDelta_den2 (r / env 0)
  generalize Real.arctan (36111111111111 / 2500000000000 * (r / env 0) - 111111111111111 / 10000000000000) = t
  field_simp
  ring

/-- on the domain `0 < r ≤ Rmax` the source term is the PDE operator up to `10⁻¹¹ |Rmax u_r|` -/
theorem src_CartesianR2_SonnendruckerGyro_approx (hR : 0 < env 0) (hr : 0 < r) (hr1 : r ≤ env 0) :
    |ev env r th SourceTerms.Gen.CartesianR2_SonnendruckerGyro_CircularGeometry_rhs_f
      - ev env r th (Lu (circ Gen.CartesianR2_CircularGeometry_exact_solution Gen.SonnendruckerGyroCoefficients_alpha Gen.SonnendruckerGyroCoefficients_beta))|
      ≤ 1 / 10 ^ 11 * |env 0 * ev env r th (D .r Gen.CartesianR2_CircularGeometry_exact_solution)| :=
  approx_of_defect (src_CartesianR2_SonnendruckerGyro_defect hR.ne' hr) (div_nonneg hr.le hR.le) ((div_le_one hR).mpr hr1)

/-- the exact equality fails: `Rmax = 1`, `(r, θ) = (1 / 2, Real.pi / 2)` -/
theorem src_CartesianR2_SonnendruckerGyro_false :
    ¬ ∀ (env : Nat → ℝ) (r th : ℝ), env 0 ≠ 0 → 0 < r →
      ev env r th SourceTerms.Gen.CartesianR2_SonnendruckerGyro_CircularGeometry_rhs_f
        = ev env r th (Lu (circ Gen.CartesianR2_CircularGeometry_exact_solution Gen.SonnendruckerGyroCoefficients_alpha Gen.SonnendruckerGyroCoefficients_beta)) := by
  intro h
  have hd := src_CartesianR2_SonnendruckerGyro_defect (env := fun _ => 1) (r := 1 / 2) (th := Real.pi / 2) one_ne_zero (by norm_num)
  exact ne_of_defect hd (by simpa using sonDelta_half_ne) (mul_ne_zero one_ne_zero ur_CartesianR2_ne)
    (h _ _ _ one_ne_zero (by norm_num))

theorem src_CartesianR2_Zoni (hR : env 0 ≠ 0) (hr : 0 < r) :
    ev env r th SourceTerms.Gen.CartesianR2_Zoni_CircularGeometry_rhs_f
      = ev env r th (Lu (circ Gen.CartesianR2_CircularGeometry_exact_solution Gen.ZoniCoefficients_alpha Gen.ZoniCoefficients_beta)) := by
  rw [circ, Lu_circ_formula _ _ _ hR hr.ne']
  simp only [SourceTerms.Gen.CartesianR2_Zoni_CircularGeometry_rhs_f, Gen.CartesianR2_CircularGeometry_exact_solution,
    Gen.ZoniCoefficients_alpha, Gen.ZoniCoefficients_beta]
  sym_eval
  field_simp
  ring

theorem src_CartesianR2_ZoniGyro (hR : env 0 ≠ 0) (hr : 0 < r) :
    ev env r th SourceTerms.Gen.CartesianR2_ZoniGyro_CircularGeometry_rhs_f
      = ev env r th (Lu (circ Gen.CartesianR2_CircularGeometry_exact_solution Gen.ZoniGyroCoefficients_alpha Gen.ZoniGyroCoefficients_beta)) := by
  rw [circ, Lu_circ_formula _ _ _ hR hr.ne']
  simp only [SourceTerms.Gen.CartesianR2_ZoniGyro_CircularGeometry_rhs_f, Gen.CartesianR2_CircularGeometry_exact_solution,
    Gen.ZoniGyroCoefficients_alpha, Gen.ZoniGyroCoefficients_beta]
  sym_eval
  field_simp
  ring

theorem src_CartesianR2_ZoniShifted (hR : env 0 ≠ 0) (hr : 0 < r) :
    ev env r th SourceTerms.Gen.CartesianR2_ZoniShifted_CircularGeometry_rhs_f
      = ev env r th (Lu (circ Gen.CartesianR2_CircularGeometry_exact_solution Gen.ZoniShiftedCoefficients_alpha Gen.ZoniShiftedCoefficients_beta)) := by
  rw [circ, Lu_circ_formula _ _ _ hR hr.ne']
  simp only [SourceTerms.Gen.CartesianR2_ZoniShifted_CircularGeometry_rhs_f, Gen.CartesianR2_CircularGeometry_exact_solution,
    Gen.ZoniShiftedCoefficients_alpha, Gen.ZoniShiftedCoefficients_beta]
  sym_eval
  field_simp
  ring

theorem src_CartesianR2_ZoniShiftedGyro (hR : env 0 ≠ 0) (hr : 0 < r) :
    ev env r th SourceTerms.Gen.CartesianR2_ZoniShiftedGyro_CircularGeometry_rhs_f
      = ev env r th (Lu (circ Gen.CartesianR2_CircularGeometry_exact_solution Gen.ZoniShiftedGyroCoefficients_alpha Gen.ZoniShiftedGyroCoefficients_beta)) := by
  rw [circ, Lu_circ_formula _ _ _ hR hr.ne']
  simp only [SourceTerms.Gen.CartesianR2_ZoniShiftedGyro_CircularGeometry_rhs_f, Gen.CartesianR2_CircularGeometry_exact_solution,
    Gen.ZoniShiftedGyroCoefficients_alpha, Gen.ZoniShiftedGyroCoefficients_beta]
  sym_eval
  field_simp
  ring

theorem src_CartesianR6_Poisson (hR : env 0 ≠ 0) (hr : 0 < r) :
    ev env r th SourceTerms.Gen.CartesianR6_Poisson_CircularGeometry_rhs_f
      = ev env r th (Lu (circ Gen.CartesianR6_CircularGeometry_exact_solution Gen.PoissonCoefficients_alpha Gen.PoissonCoefficients_beta)) := by
  rw [circ, Lu_circ_formula _ _ _ hR hr.ne']
  simp only [SourceTerms.Gen.CartesianR6_Poisson_CircularGeometry_rhs_f, Gen.CartesianR6_CircularGeometry_exact_solution,
    Gen.PoissonCoefficients_alpha, Gen.PoissonCoefficients_beta]
  sym_eval
  field_simp
  ring

-- UNPROVED: FALSE as stated (see `src_CartesianR6_Sonnendrucker_false`); replaced by `src_CartesianR6_Sonnendrucker_defect` / `_approx`
-- theorem src_CartesianR6_Sonnendrucker (hR : env 0 ≠ 0) (hr : 0 < r) :
--     ev env r th SourceTerms.Gen.CartesianR6_Sonnendrucker_CircularGeometry_rhs_f
--       = ev env r th (Lu (circ Gen.CartesianR6_CircularGeometry_exact_solution Gen.SonnendruckerCoefficients_alpha Gen.SonnendruckerCoefficients_beta)) := by

/-- exact form of the defect: the source term is the PDE operator plus `sonDelta ρ · Rmax · u_r` -/
theorem src_CartesianR6_Sonnendrucker_defect (hR : env 0 ≠ 0) (hr : 0 < r) :
    ev env r th SourceTerms.Gen.CartesianR6_Sonnendrucker_CircularGeometry_rhs_f
      = ev env r th (Lu (circ Gen.CartesianR6_CircularGeometry_exact_solution Gen.SonnendruckerCoefficients_alpha Gen.SonnendruckerCoefficients_beta))
        + sonDelta (r / env 0) * (env 0 * ev env r th (D .r Gen.CartesianR6_CircularGeometry_exact_solution)) := by
  rw [circ, Lu_circ_formula _ _ _ hR hr.ne']
  simp only [SourceTerms.Gen.CartesianR6_Sonnendrucker_CircularGeometry_rhs_f, Gen.CartesianR6_CircularGeometry_exact_solution,
    Gen.SonnendruckerCoefficients_alpha, Gen.SonnendruckerCoefficients_beta]
  sym_eval
  unfold sonDelta
  have h1 := sonDelta_den1 (r / env 0)
  have h2 := sonDelta_den2 (r / env 0)
  generalize Real.arctan (36111111111111 / 2500000000000 * (r / env 0) - 111111111111111 / 10000000000000) = t
  field_simp
  ring

/-- on the domain `0 < r ≤ Rmax` the source term is the PDE operator up to `10⁻¹¹ |Rmax u_r|` -/
theorem src_CartesianR6_Sonnendrucker_approx (hR : 0 < env 0) (hr : 0 < r) (hr1 : r ≤ env 0) :
    |ev env r th SourceTerms.Gen.CartesianR6_Sonnendrucker_CircularGeometry_rhs_f
      - ev env r th (Lu (circ Gen.CartesianR6_CircularGeometry_exact_solution Gen.SonnendruckerCoefficients_alpha Gen.SonnendruckerCoefficients_beta))|
      ≤ 1 / 10 ^ 11 * |env 0 * ev env r th (D .r Gen.CartesianR6_CircularGeometry_exact_solution)| :=
  approx_of_defect (src_CartesianR6_Sonnendrucker_defect hR.ne' hr) (div_nonneg hr.le hR.le) ((div_le_one hR).mpr hr1)

/-- the exact equality fails: `Rmax = 1`, `(r, θ) = (1 / 2, Real.pi / 2)` -/
theorem src_CartesianR6_Sonnendrucker_false :
    ¬ ∀ (env : Nat → ℝ) (r th : ℝ), env 0 ≠ 0 → 0 < r →
      ev env r th SourceTerms.Gen.CartesianR6_Sonnendrucker_CircularGeometry_rhs_f
        = ev env r th (Lu (circ Gen.CartesianR6_CircularGeometry_exact_solution Gen.SonnendruckerCoefficients_alpha Gen.SonnendruckerCoefficients_beta)) := by
  intro h
  have hd := src_CartesianR6_Sonnendrucker_defect (env := fun _ => 1) (r := 1 / 2) (th := Real.pi / 2) one_ne_zero (by norm_num)
  exact ne_of_defect hd (by simpa using sonDelta_half_ne) (mul_ne_zero one_ne_zero ur_CartesianR6_ne)
    (h _ _ _ one_ne_zero (by norm_num))

-- UNPROVED: FALSE as stated (see `src_CartesianR6_SonnendruckerGyro_false`); replaced by `src_CartesianR6_SonnendruckerGyro_defect` / `_approx`
-- theorem src_CartesianR6_SonnendruckerGyro (hR : env 0 ≠ 0) (hr : 0 < r) :
--     ev env r th SourceTerms.Gen.CartesianR6_SonnendruckerGyro_CircularGeometry_rhs_f
--       = ev env r th (Lu (circ Gen.CartesianR6_CircularGeometry_exact_solution Gen.SonnendruckerGyroCoefficients_alpha Gen.SonnendruckerGyroCoefficients_beta)) := by

/-- exact form of the defect: the source term is the PDE operator plus `sonDelta ρ · Rmax · u_r` -/
theorem src_CartesianR6_SonnendruckerGyro_defect (hR : env 0 ≠ 0) (hr : 0 < r) :
    ev env r th SourceTerms.Gen.CartesianR6_SonnendruckerGyro_CircularGeometry_rhs_f
      = ev env r th (Lu (circ Gen.CartesianR6_CircularGeometry_exact_solution Gen.SonnendruckerGyroCoefficients_alpha Gen.SonnendruckerGyroCoefficients_beta))
        + sonDelta (r / env 0) * (env 0 * ev env r th (D .r Gen.CartesianR6_CircularGeometry_exact_solution)) := by
  rw [circ, Lu_circ_formula _ _ _ hR hr.ne']
  simp only [SourceTerms.Gen.CartesianR6_SonnendruckerGyro_CircularGeometry_rhs_f, Gen.CartesianR6_CircularGeometry_exact_solution,
    Gen.SonnendruckerGyroCoefficients_alpha, Gen.SonnendruckerGyroCoefficients_beta]
  sym_eval
  unfold sonDelta
  have h1 := sonDelta_den1 (r / env 0)
  have h2 := sonDelta_den2 (r / env 0)
  generalize Real.arctan (36111111111111 / 2500000000000 * (r / env 0) - 111111111111111 / 10000000000000) = t
  field_simp
  ring

/-- on the domain `0 < r ≤ Rmax` the source term is the PDE operator up to `10⁻¹¹ |Rmax u_r|` -/
theorem src_CartesianR6_SonnendruckerGyro_approx (hR : 0 < env 0) (hr : 0 < r) (hr1 : r ≤ env 0) :
    |ev env r th SourceTerms.Gen.CartesianR6_SonnendruckerGyro_CircularGeometry_rhs_f
      - ev env r th (Lu (circ Gen.CartesianR6_CircularGeometry_exact_solution Gen.SonnendruckerGyroCoefficients_alpha Gen.SonnendruckerGyroCoefficients_beta))|
      ≤ 1 / 10 ^ 11 * |env 0 * ev env r th (D .r Gen.CartesianR6_CircularGeometry_exact_solution)| :=
  approx_of_defect (src_CartesianR6_SonnendruckerGyro_defect hR.ne' hr) (div_nonneg hr.le hR.le) ((div_le_one hR).mpr hr1)

/-- the exact equality fails: `Rmax = 1`, `(r, θ) = (1 / 2, Real.pi / 2)` -/
theorem src_CartesianR6_SonnendruckerGyro_false :
    ¬ ∀ (env : Nat → ℝ) (r th : ℝ), env 0 ≠ 0 → 0 < r →
      ev env r th SourceTerms.Gen.CartesianR6_SonnendruckerGyro_CircularGeometry_rhs_f
        = ev env r th (Lu (circ Gen.CartesianR6_CircularGeometry_exact_solution Gen.SonnendruckerGyroCoefficients_alpha Gen.SonnendruckerGyroCoefficients_beta)) := by
  intro h
  have hd := src_CartesianR6_SonnendruckerGyro_defect (env := fun _ => 1) (r := 1 / 2) (th := Real.pi / 2) one_ne_zero (by norm_num)
  exact ne_of_defect hd (by simpa using sonDelta_half_ne) (mul_ne_zero one_ne_zero ur_CartesianR6_ne)
    (h _ _ _ one_ne_zero (by norm_num))

theorem src_CartesianR6_Zoni (hR : env 0 ≠ 0) (hr : 0 < r) :
    ev env r th SourceTerms.Gen.CartesianR6_Zoni_CircularGeometry_rhs_f
      = ev env r th (Lu (circ Gen.CartesianR6_CircularGeometry_exact_solution Gen.ZoniCoefficients_alpha Gen.ZoniCoefficients_beta)) := by
  rw [circ, Lu_circ_formula _ _ _ hR hr.ne']
  simp only [SourceTerms.Gen.CartesianR6_Zoni_CircularGeometry_rhs_f, Gen.CartesianR6_CircularGeometry_exact_solution,
    Gen.ZoniCoefficients_alpha, Gen.ZoniCoefficients_beta]
  sym_eval
  field_simp
  ring

theorem src_CartesianR6_ZoniGyro (hR : env 0 ≠ 0) (hr : 0 < r) :
    ev env r th SourceTerms.Gen.CartesianR6_ZoniGyro_CircularGeometry_rhs_f
      = ev env r th (Lu (circ Gen.CartesianR6_CircularGeometry_exact_solution Gen.ZoniGyroCoefficients_alpha Gen.ZoniGyroCoefficients_beta)) := by
  rw [circ, Lu_circ_formula _ _ _ hR hr.ne']
  simp only [SourceTerms.Gen.CartesianR6_ZoniGyro_CircularGeometry_rhs_f, Gen.CartesianR6_CircularGeometry_exact_solution,
    Gen.ZoniGyroCoefficients_alpha, Gen.ZoniGyroCoefficients_beta]
  sym_eval
  field_simp
  ring

theorem src_CartesianR6_ZoniShifted (hR : env 0 ≠ 0) (hr : 0 < r) :
    ev env r th SourceTerms.Gen.CartesianR6_ZoniShifted_CircularGeometry_rhs_f
      = ev env r th (Lu (circ Gen.CartesianR6_CircularGeometry_exact_solution Gen.ZoniShiftedCoefficients_alpha Gen.ZoniShiftedCoefficients_beta)) := by
  rw [circ, Lu_circ_formula _ _ _ hR hr.ne']
  simp only [SourceTerms.Gen.CartesianR6_ZoniShifted_CircularGeometry_rhs_f, Gen.CartesianR6_CircularGeometry_exact_solution,
    Gen.ZoniShiftedCoefficients_alpha, Gen.ZoniShiftedCoefficients_beta]
  sym_eval
  field_simp
  ring

theorem src_CartesianR6_ZoniShiftedGyro (hR : env 0 ≠ 0) (hr : 0 < r) :
    ev env r th SourceTerms.Gen.CartesianR6_ZoniShiftedGyro_CircularGeometry_rhs_f
      = ev env r th (Lu (circ Gen.CartesianR6_CircularGeometry_exact_solution Gen.ZoniShiftedGyroCoefficients_alpha Gen.ZoniShiftedGyroCoefficients_beta)) := by
  rw [circ, Lu_circ_formula _ _ _ hR hr.ne']
  simp only [SourceTerms.Gen.CartesianR6_ZoniShiftedGyro_CircularGeometry_rhs_f, Gen.CartesianR6_CircularGeometry_exact_solution,
    Gen.ZoniShiftedGyroCoefficients_alpha, Gen.ZoniShiftedGyroCoefficients_beta]
  sym_eval
  field_simp
  ring

theorem src_PolarR6_Poisson (hR : env 0 ≠ 0) (hr : 0 < r) :
    ev env r th SourceTerms.Gen.PolarR6_Poisson_CircularGeometry_rhs_f
      = ev env r th (Lu (circ Gen.PolarR6_CircularGeometry_exact_solution Gen.PoissonCoefficients_alpha Gen.PoissonCoefficients_beta)) := by
  rw [circ, Lu_circ_formula _ _ _ hR hr.ne']
  simp only [SourceTerms.Gen.PolarR6_Poisson_CircularGeometry_rhs_f, Gen.PolarR6_CircularGeometry_exact_solution,
    Gen.PoissonCoefficients_alpha, Gen.PoissonCoefficients_beta]
  sym_eval
  field_simp
  ring

-- UNPROVED: FALSE as stated (see `src_PolarR6_Sonnendrucker_false`); replaced by `src_PolarR6_Sonnendrucker_defect` / `_approx`
-- theorem src_PolarR6_Sonnendrucker (hR : env 0 ≠ 0) (hr : 0 < r) :
--     ev env r th SourceTerms.Gen.PolarR6_Sonnendrucker_CircularGeometry_rhs_f
--       = ev env r th (Lu (circ Gen.PolarR6_CircularGeometry_exact_solution Gen.SonnendruckerCoefficients_alpha Gen.SonnendruckerCoefficients_beta)) := by

/-- exact form of the defect: the source term is the PDE operator plus `sonDelta ρ · Rmax · u_r` -/
theorem src_PolarR6_Sonnendrucker_defect (hR : env 0 ≠ 0) (hr : 0 < r) :
    ev env r th SourceTerms.Gen.PolarR6_Sonnendrucker_CircularGeometry_rhs_f
      = ev env r th (Lu (circ Gen.PolarR6_CircularGeometry_exact_solution Gen.SonnendruckerCoefficients_alpha Gen.SonnendruckerCoefficients_beta))
        + sonDelta (r / env 0) * (env 0 * ev env r th (D .r Gen.PolarR6_CircularGeometry_exact_solution)) := by
  rw [circ, Lu_circ_formula _ _ _ hR hr.ne']
  simp only [SourceTerms.Gen.PolarR6_Sonnendrucker_CircularGeometry_rhs_f, Gen.PolarR6_CircularGeometry_exact_solution,
    Gen.SonnendruckerCoefficients_alpha, Gen.SonnendruckerCoefficients_beta]
  sym_eval
  unfold sonDelta
  have h1 := sonDelta_den1 (r / env 0)
  have h2 := sonDelta_den2 (r / env 0)
  generalize Real.arctan (36111111111111 / 2500000000000 * (r / env 0) - 111111111111111 / 10000000000000) = t
  field_simp
  ring

/-- on the domain `0 < r ≤ Rmax` the source term is the PDE operator up to `10⁻¹¹ |Rmax u_r|` -/
theorem src_PolarR6_Sonnendrucker_approx (hR : 0 < env 0) (hr : 0 < r) (hr1 : r ≤ env 0) :
    |ev env r th SourceTerms.Gen.PolarR6_Sonnendrucker_CircularGeometry_rhs_f
      - ev env r th (Lu (circ Gen.PolarR6_CircularGeometry_exact_solution Gen.SonnendruckerCoefficients_alpha Gen.SonnendruckerCoefficients_beta))|
      ≤ 1 / 10 ^ 11 * |env 0 * ev env r th (D .r Gen.PolarR6_CircularGeometry_exact_solution)| :=
  approx_of_defect (src_PolarR6_Sonnendrucker_defect hR.ne' hr) (div_nonneg hr.le hR.le) ((div_le_one hR).mpr hr1)

/-- the exact equality fails: `Rmax = 1`, `(r, θ) = (1 / 4, 0)` -/
theorem src_PolarR6_Sonnendrucker_false :
    ¬ ∀ (env : Nat → ℝ) (r th : ℝ), env 0 ≠ 0 → 0 < r →
      ev env r th SourceTerms.Gen.PolarR6_Sonnendrucker_CircularGeometry_rhs_f
        = ev env r th (Lu (circ Gen.PolarR6_CircularGeometry_exact_solution Gen.SonnendruckerCoefficients_alpha Gen.SonnendruckerCoefficients_beta)) := by
  intro h
  have hd := src_PolarR6_Sonnendrucker_defect (env := fun _ => 1) (r := 1 / 4) (th := 0) one_ne_zero (by norm_num)
  exact ne_of_defect hd (by simpa using sonDelta_quarter_ne) (mul_ne_zero one_ne_zero ur_PolarR6_ne)
    (h _ _ _ one_ne_zero (by norm_num))

-- UNPROVED: FALSE as stated (see `src_PolarR6_SonnendruckerGyro_false`); replaced by `src_PolarR6_SonnendruckerGyro_defect` / `_approx`
-- theorem src_PolarR6_SonnendruckerGyro (hR : env 0 ≠ 0) (hr : 0 < r) :
--     ev env r th SourceTerms.Gen.PolarR6_SonnendruckerGyro_CircularGeometry_rhs_f
--       = ev env r th (Lu (circ Gen.PolarR6_CircularGeometry_exact_solution Gen.SonnendruckerGyroCoefficients_alpha Gen.SonnendruckerGyroCoefficients_beta)) := by

/-- exact form of the defect: the source term is the PDE operator plus `sonDelta ρ · Rmax · u_r` -/
theorem src_PolarR6_SonnendruckerGyro_defect (hR : env 0 ≠ 0) (hr : 0 < r) :
    ev env r th SourceTerms.Gen.PolarR6_SonnendruckerGyro_CircularGeometry_rhs_f
      = ev env r th (Lu (circ Gen.PolarR6_CircularGeometry_exact_solution Gen.SonnendruckerGyroCoefficients_alpha Gen.SonnendruckerGyroCoefficients_beta))
        + sonDelta (r / env 0) * (env 0 * ev env r th (D .r Gen.PolarR6_CircularGeometry_exact_solution)) := by
  rw [circ, Lu_circ_formula _ _ _ hR hr.ne']
  simp only [SourceTerms.Gen.PolarR6_SonnendruckerGyro_CircularGeometry_rhs_f, Gen.PolarR6_CircularGeometry_exact_solution,
    Gen.SonnendruckerGyroCoefficients_alpha, Gen.SonnendruckerGyroCoefficients_beta]
  sym_eval
  unfold sonDelta
  have h1 := sonDelta_den1 (r / env 0)
  have h2 := sonDelta_den2 (r / env 0)
  generalize Real.arctan (36111111111111 / 2500000000000 * (r / env 0) - 111111111111111 / 10000000000000) = t
  field_simp
  ring

/-- on the domain `0 < r ≤ Rmax` the source term is the PDE operator up to `10⁻¹¹ |Rmax u_r|` -/
theorem src_PolarR6_SonnendruckerGyro_approx (hR : 0 < env 0) (hr : 0 < r) (hr1 : r ≤ env 0) :
    |ev env r th SourceTerms.Gen.PolarR6_SonnendruckerGyro_CircularGeometry_rhs_f
      - ev env r th (Lu (circ Gen.PolarR6_CircularGeometry_exact_solution Gen.SonnendruckerGyroCoefficients_alpha Gen.SonnendruckerGyroCoefficients_beta))|
      ≤ 1 / 10 ^ 11 * |env 0 * ev env r th (D .r Gen.PolarR6_CircularGeometry_exact_solution)| :=
  approx_of_defect (src_PolarR6_SonnendruckerGyro_defect hR.ne' hr) (div_nonneg hr.le hR.le) ((div_le_one hR).mpr hr1)

/-- the exact equality fails: `Rmax = 1`, `(r, θ) = (1 / 4, 0)` -/
theorem src_PolarR6_SonnendruckerGyro_false :
    ¬ ∀ (env : Nat → ℝ) (r th : ℝ), env 0 ≠ 0 → 0 < r →
      ev env r th SourceTerms.Gen.PolarR6_SonnendruckerGyro_CircularGeometry_rhs_f
        = ev env r th (Lu (circ Gen.PolarR6_CircularGeometry_exact_solution Gen.SonnendruckerGyroCoefficients_alpha Gen.SonnendruckerGyroCoefficients_beta)) := by
  intro h
  have hd := src_PolarR6_SonnendruckerGyro_defect (env := fun _ => 1) (r := 1 / 4) (th := 0) one_ne_zero (by norm_num)
  exact ne_of_defect hd (by simpa using sonDelta_quarter_ne) (mul_ne_zero one_ne_zero ur_PolarR6_ne)
    (h _ _ _ one_ne_zero (by norm_num))

theorem src_PolarR6_Zoni (hR : env 0 ≠ 0) (hr : 0 < r) :
    ev env r th SourceTerms.Gen.PolarR6_Zoni_CircularGeometry_rhs_f
      = ev env r th (Lu (circ Gen.PolarR6_CircularGeometry_exact_solution Gen.ZoniCoefficients_alpha Gen.ZoniCoefficients_beta)) := by
  rw [circ, Lu_circ_formula _ _ _ hR hr.ne']
  simp only [SourceTerms.Gen.PolarR6_Zoni_CircularGeometry_rhs_f, Gen.PolarR6_CircularGeometry_exact_solution,
    Gen.ZoniCoefficients_alpha, Gen.ZoniCoefficients_beta]
  sym_eval
  field_simp
  ring

theorem src_PolarR6_ZoniGyro (hR : env 0 ≠ 0) (hr : 0 < r) :
    ev env r th SourceTerms.Gen.PolarR6_ZoniGyro_CircularGeometry_rhs_f
      = ev env r th (Lu (circ Gen.PolarR6_CircularGeometry_exact_solution Gen.ZoniGyroCoefficients_alpha Gen.ZoniGyroCoefficients_beta)) := by
  rw [circ, Lu_circ_formula _ _ _ hR hr.ne']
  simp only [SourceTerms.Gen.PolarR6_ZoniGyro_CircularGeometry_rhs_f, Gen.PolarR6_CircularGeometry_exact_solution,
    Gen.ZoniGyroCoefficients_alpha, Gen.ZoniGyroCoefficients_beta]
  sym_eval
  field_simp
  ring

theorem src_PolarR6_ZoniShifted (hR : env 0 ≠ 0) (hr : 0 < r) :
    ev env r th SourceTerms.Gen.PolarR6_ZoniShifted_CircularGeometry_rhs_f
      = ev env r th (Lu (circ Gen.PolarR6_CircularGeometry_exact_solution Gen.ZoniShiftedCoefficients_alpha Gen.ZoniShiftedCoefficients_beta)) := by
  rw [circ, Lu_circ_formula _ _ _ hR hr.ne']
  simp only [SourceTerms.Gen.PolarR6_ZoniShifted_CircularGeometry_rhs_f, Gen.PolarR6_CircularGeometry_exact_solution,
    Gen.ZoniShiftedCoefficients_alpha, Gen.ZoniShiftedCoefficients_beta]
  sym_eval
  field_simp
  ring

theorem src_PolarR6_ZoniShiftedGyro (hR : env 0 ≠ 0) (hr : 0 < r) :
    ev env r th SourceTerms.Gen.PolarR6_ZoniShiftedGyro_CircularGeometry_rhs_f
      = ev env r th (Lu (circ Gen.PolarR6_CircularGeometry_exact_solution Gen.ZoniShiftedGyroCoefficients_alpha Gen.ZoniShiftedGyroCoefficients_beta)) := by
  rw [circ, Lu_circ_formula _ _ _ hR hr.ne']
  simp only [SourceTerms.Gen.PolarR6_ZoniShiftedGyro_CircularGeometry_rhs_f, Gen.PolarR6_CircularGeometry_exact_solution,
    Gen.ZoniShiftedGyroCoefficients_alpha, Gen.ZoniShiftedGyroCoefficients_beta]
  sym_eval
  field_simp
  ring

end C19s
