import GMGProofs.Lemmas.ObjectsLemmas
/-!
# C15 — the hand-written copy / move special members are safe and faithful

Property theorems only.  Model: `GMGModel/Objects.lean` (transcribes the copy/move constructors and
assignment operators of `Vector`, `SparseMatrixCOO`, `SparseMatrixCSR`, `DiagonalSolver`,
`SymmetricTridiagonalSolver`).  Definitions used in the statements (`WF`, `ids`, `BufOK`, `Op`, `step`,
`run`, `PairWF`, `PairSep`) are in `GMGProofs/Lemmas/ObjectsLemmas.lean`.

All statements hold for every scalar type `α` with `[Scalar α]` (no field axioms), every allocator
state `h`, and all sizes.  In the model `none` means "read or write outside a buffer / through
`nullptr`", so `… = some _` is memory safety.  `WF` says that every buffer has exactly the advertised
capacity (`nullptr` only for capacity 0; for CSR the row-start array is `nullptr` only in the
default-constructed / moved-from matrix); it holds for default-constructed, sized, moved-from objects and
is re-established by every special member, so the theorems cover histories that copy a moved-from object.

Per class `T ∈ {Vec, COO, CSRo, Diag, Tri}`:
* `T.copyCtor_obs`, `T.copyAssign_obs` — never out of bounds, result observationally equal to the source,
  well formed, (for the constructor) all buffers fresh;
* `T.move_obs`, `T.move_WF`, `T.default_WF` — moves steal the buffers and leave the default state;
* `T.copyCtor_independent`, `T.copyAssign_independent` — no buffer is shared with the source afterwards
  (no hypothesis other than success of the operation);
* `T.run_safe`, `T.run_no_alias` — along every sequence of special-member calls on two objects nothing is
  ever out of bounds, both stay well formed, and they never share a buffer;
* `Tri.copy_solves_like_source`, `Tri.assigned_solves_like_source`, `Tri.solve_WF` — a copied solver
  solves like its source.
-/
namespace C15
open Objects

variable {α : Type} [Scalar α]

/-! ## Vec -/
namespace Vec

/-- (a) the copy constructor never reads or writes out of bounds; the copy is observationally equal to
    the source, well formed, and owns only buffers allocated by this very call -/
theorem copyCtor_obs (h : Nat) (o : Vec α) (ho : Vec.WF o) :
    ∃ h' c, Vec.copyCtor h o = some (h', c) ∧ Vec.obs c = Vec.obs o ∧ Vec.WF c ∧ h ≤ h' ∧
      ∀ i ∈ Vec.ids c, h ≤ i ∧ i < h' :=
  Vec.copyCtor_spec h ho

/-- (b) copy assignment, for equal and for different sizes of target and source: never out of bounds
    (whenever the old buffers are reused their capacity suffices), result observationally equal to the source -/
theorem copyAssign_obs (h : Nat) (t o : Vec α) (ht : Vec.WF t) (ho : Vec.WF o) :
    ∃ h' c, Vec.copyAssign h t o = some (h', c) ∧ Vec.obs c = Vec.obs o ∧ Vec.WF c := by
  obtain ⟨h', c, h1, h2, h3, _⟩ := Vec.copyAssign_spec h ht ho
  exact ⟨h', c, h1, h2, h3⟩

omit [Scalar α] in
/-- (c) move constructor and move assignment hand over the very buffers of the source and leave the
    source in the default-constructed state, which owns nothing -/
theorem move_obs (t o : Vec α) :
    (Vec.obs (Vec.moveCtor o).1 = Vec.obs o ∧ Vec.ids (Vec.moveCtor o).1 = Vec.ids o ∧
      (Vec.moveCtor o).2 = Vec.default ∧ Vec.ids (Vec.moveCtor o).2 = []) ∧
    (Vec.obs (Vec.moveAssign t o).1 = Vec.obs o ∧ Vec.ids (Vec.moveAssign t o).1 = Vec.ids o ∧
      (Vec.moveAssign t o).2 = Vec.default ∧ Vec.ids (Vec.moveAssign t o).2 = []) :=
  ⟨⟨rfl, rfl, rfl, rfl⟩, ⟨rfl, rfl, rfl, rfl⟩⟩

omit [Scalar α] in
theorem default_WF : Vec.WF (Vec.default : Vec α) := Vec.WF_default

omit [Scalar α] in
/-- (c) both the moved-to and the moved-from object are well formed -/
theorem move_WF (t o : Vec α) (ho : Vec.WF o) :
    Vec.WF (Vec.moveCtor o).1 ∧ Vec.WF (Vec.moveCtor o).2 ∧
    Vec.WF (Vec.moveAssign t o).1 ∧ Vec.WF (Vec.moveAssign t o).2 :=
  ⟨ho, Vec.WF_default, ho, Vec.WF_default⟩

/-- (d) whenever the copy constructor succeeds, the copy shares no buffer with the source -/
theorem copyCtor_independent (h h' : Nat) (o c : Vec α) (hold : ∀ i ∈ Vec.ids o, i < h)
    (hc : Vec.copyCtor h o = some (h', c)) : ∀ i ∈ Vec.ids c, i ∉ Vec.ids o := by
  intro i hi hio
  have := ((Vec.copyCtor_ids hc).2 i hi).1
  have := hold i hio
  omega

/-- (d) whenever copy assignment succeeds, the target keeps (some of) its own buffers or gets fresh
    ones, and shares none with the source -/
theorem copyAssign_independent (h h' : Nat) (t o c : Vec α) (hold : ∀ i ∈ Vec.ids o, i < h)
    (hdis : ∀ i ∈ Vec.ids t, i ∉ Vec.ids o) (hc : Vec.copyAssign h t o = some (h', c)) :
    ∀ i ∈ Vec.ids c, (i ∈ Vec.ids t ∨ h ≤ i) ∧ i ∉ Vec.ids o := by
  intro i hi
  rcases (Vec.copyAssign_ids hc).2 i hi with ht | hf
  · exact ⟨Or.inl ht, hdis i ht⟩
  · exact ⟨Or.inr hf.1, fun hio => by have := hold i hio; omega⟩

/-- (f) along every sequence of copy/move assignments and constructions and re-sizings of two objects
    no operation is ever out of bounds, and both objects stay well formed -/
theorem run_safe (ops : List Op) (s : Pair (Vec α)) (hs : Vec.PairWF s) :
    ∃ s', Vec.run ops s = some s' ∧ Vec.PairWF s' := by
  obtain ⟨s', h1, h2, _⟩ := runWith_spec Vec.step Vec.PairWF Vec.PairSep (Members.step_spec Vec.lawful) ops s hs
  exact ⟨s', h1, h2⟩

/-- (f) … and if the two objects share no buffer initially they never do -/
theorem run_no_alias (ops : List Op) (s : Pair (Vec α)) (hs : Vec.PairWF s) (hsep : Vec.PairSep s) :
    ∃ s', Vec.run ops s = some s' ∧ Vec.PairWF s' ∧ Vec.PairSep s' := by
  obtain ⟨s', h1, h2, h3⟩ := runWith_spec Vec.step Vec.PairWF Vec.PairSep (Members.step_spec Vec.lawful) ops s hs
  exact ⟨s', h1, h2, h3 hsep⟩

end Vec

/-! ## COO -/
namespace COO

/-- (a) the copy constructor never reads or writes out of bounds; the copy is observationally equal to
    the source, well formed, and owns only buffers allocated by this very call -/
theorem copyCtor_obs (h : Nat) (o : COO α) (ho : COO.WF o) :
    ∃ h' c, COO.copyCtor h o = some (h', c) ∧ COO.obs c = COO.obs o ∧ COO.WF c ∧ h ≤ h' ∧
      ∀ i ∈ COO.ids c, h ≤ i ∧ i < h' :=
  COO.copyCtor_spec h ho

/-- (b) copy assignment, for equal and for different sizes of target and source: never out of bounds
    (whenever the old buffers are reused their capacity suffices), result observationally equal to the source -/
theorem copyAssign_obs (h : Nat) (t o : COO α) (ht : COO.WF t) (ho : COO.WF o) :
    ∃ h' c, COO.copyAssign h t o = some (h', c) ∧ COO.obs c = COO.obs o ∧ COO.WF c := by
  obtain ⟨h', c, h1, h2, h3, _⟩ := COO.copyAssign_spec h ht ho
  exact ⟨h', c, h1, h2, h3⟩

omit [Scalar α] in
/-- (c) move constructor and move assignment hand over the very buffers of the source and leave the
    source in the default-constructed state, which owns nothing -/
theorem move_obs (t o : COO α) :
    (COO.obs (COO.moveCtor o).1 = COO.obs o ∧ COO.ids (COO.moveCtor o).1 = COO.ids o ∧
      (COO.moveCtor o).2 = COO.default ∧ COO.ids (COO.moveCtor o).2 = []) ∧
    (COO.obs (COO.moveAssign t o).1 = COO.obs o ∧ COO.ids (COO.moveAssign t o).1 = COO.ids o ∧
      (COO.moveAssign t o).2 = COO.default ∧ COO.ids (COO.moveAssign t o).2 = []) :=
  ⟨⟨rfl, rfl, rfl, rfl⟩, ⟨rfl, rfl, rfl, rfl⟩⟩

omit [Scalar α] in
theorem default_WF : COO.WF (COO.default : COO α) := COO.WF_default

omit [Scalar α] in
/-- (c) both the moved-to and the moved-from object are well formed -/
theorem move_WF (t o : COO α) (ho : COO.WF o) :
    COO.WF (COO.moveCtor o).1 ∧ COO.WF (COO.moveCtor o).2 ∧
    COO.WF (COO.moveAssign t o).1 ∧ COO.WF (COO.moveAssign t o).2 :=
  ⟨ho, COO.WF_default, ho, COO.WF_default⟩

/-- (d) whenever the copy constructor succeeds, the copy shares no buffer with the source -/
theorem copyCtor_independent (h h' : Nat) (o c : COO α) (hold : ∀ i ∈ COO.ids o, i < h)
    (hc : COO.copyCtor h o = some (h', c)) : ∀ i ∈ COO.ids c, i ∉ COO.ids o := by
  intro i hi hio
  have := ((COO.copyCtor_ids hc).2 i hi).1
  have := hold i hio
  omega

/-- (d) whenever copy assignment succeeds, the target keeps (some of) its own buffers or gets fresh
    ones, and shares none with the source -/
theorem copyAssign_independent (h h' : Nat) (t o c : COO α) (hold : ∀ i ∈ COO.ids o, i < h)
    (hdis : ∀ i ∈ COO.ids t, i ∉ COO.ids o) (hc : COO.copyAssign h t o = some (h', c)) :
    ∀ i ∈ COO.ids c, (i ∈ COO.ids t ∨ h ≤ i) ∧ i ∉ COO.ids o := by
  intro i hi
  rcases (COO.copyAssign_ids hc).2 i hi with ht | hf
  · exact ⟨Or.inl ht, hdis i ht⟩
  · exact ⟨Or.inr hf.1, fun hio => by have := hold i hio; omega⟩

/-- (f) along every sequence of copy/move assignments and constructions and re-sizings of two objects
    no operation is ever out of bounds, and both objects stay well formed -/
theorem run_safe (ops : List Op) (s : Pair (COO α)) (hs : COO.PairWF s) :
    ∃ s', COO.run ops s = some s' ∧ COO.PairWF s' := by
  obtain ⟨s', h1, h2, _⟩ := runWith_spec COO.step COO.PairWF COO.PairSep (Members.step_spec COO.lawful) ops s hs
  exact ⟨s', h1, h2⟩

/-- (f) … and if the two objects share no buffer initially they never do -/
theorem run_no_alias (ops : List Op) (s : Pair (COO α)) (hs : COO.PairWF s) (hsep : COO.PairSep s) :
    ∃ s', COO.run ops s = some s' ∧ COO.PairWF s' ∧ COO.PairSep s' := by
  obtain ⟨s', h1, h2, h3⟩ := runWith_spec COO.step COO.PairWF COO.PairSep (Members.step_spec COO.lawful) ops s hs
  exact ⟨s', h1, h2, h3 hsep⟩

end COO

/-! ## CSRo -/
namespace CSRo

/-- (a) the copy constructor never reads or writes out of bounds; the copy is observationally equal to
    the source, well formed, and owns only buffers allocated by this very call -/
theorem copyCtor_obs (h : Nat) (o : CSRo α) (ho : CSRo.WF o) :
    ∃ h' c, CSRo.copyCtor h o = some (h', c) ∧ CSRo.obs c = CSRo.obs o ∧ CSRo.WF c ∧ h ≤ h' ∧
      ∀ i ∈ CSRo.ids c, h ≤ i ∧ i < h' :=
  CSRo.copyCtor_spec h ho

/-- (b) copy assignment, for equal and for different sizes of target and source: never out of bounds
    (whenever the old buffers are reused their capacity suffices), result observationally equal to the source -/
theorem copyAssign_obs (h : Nat) (t o : CSRo α) (ht : CSRo.WF t) (ho : CSRo.WF o) :
    ∃ h' c, CSRo.copyAssign h t o = some (h', c) ∧ CSRo.obs c = CSRo.obs o ∧ CSRo.WF c := by
  obtain ⟨h', c, h1, h2, h3, _⟩ := CSRo.copyAssign_spec h ht ho
  exact ⟨h', c, h1, h2, h3⟩

omit [Scalar α] in
/-- (c) move constructor and move assignment hand over the very buffers of the source and leave the
    source in the default-constructed state, which owns nothing -/
theorem move_obs (t o : CSRo α) :
    (CSRo.obs (CSRo.moveCtor o).1 = CSRo.obs o ∧ CSRo.ids (CSRo.moveCtor o).1 = CSRo.ids o ∧
      (CSRo.moveCtor o).2 = CSRo.default ∧ CSRo.ids (CSRo.moveCtor o).2 = []) ∧
    (CSRo.obs (CSRo.moveAssign t o).1 = CSRo.obs o ∧ CSRo.ids (CSRo.moveAssign t o).1 = CSRo.ids o ∧
      (CSRo.moveAssign t o).2 = CSRo.default ∧ CSRo.ids (CSRo.moveAssign t o).2 = []) :=
  ⟨⟨rfl, rfl, rfl, rfl⟩, ⟨rfl, rfl, rfl, rfl⟩⟩

omit [Scalar α] in
theorem default_WF : CSRo.WF (CSRo.default : CSRo α) := CSRo.WF_default

omit [Scalar α] in
/-- (c) both the moved-to and the moved-from object are well formed -/
theorem move_WF (t o : CSRo α) (ho : CSRo.WF o) :
    CSRo.WF (CSRo.moveCtor o).1 ∧ CSRo.WF (CSRo.moveCtor o).2 ∧
    CSRo.WF (CSRo.moveAssign t o).1 ∧ CSRo.WF (CSRo.moveAssign t o).2 :=
  ⟨ho, CSRo.WF_default, ho, CSRo.WF_default⟩

/-- (d) whenever the copy constructor succeeds, the copy shares no buffer with the source -/
theorem copyCtor_independent (h h' : Nat) (o c : CSRo α) (hold : ∀ i ∈ CSRo.ids o, i < h)
    (hc : CSRo.copyCtor h o = some (h', c)) : ∀ i ∈ CSRo.ids c, i ∉ CSRo.ids o := by
  intro i hi hio
  have := ((CSRo.copyCtor_ids hc).2 i hi).1
  have := hold i hio
  omega

/-- (d) whenever copy assignment succeeds, the target keeps (some of) its own buffers or gets fresh
    ones, and shares none with the source -/
theorem copyAssign_independent (h h' : Nat) (t o c : CSRo α) (hold : ∀ i ∈ CSRo.ids o, i < h)
    (hdis : ∀ i ∈ CSRo.ids t, i ∉ CSRo.ids o) (hc : CSRo.copyAssign h t o = some (h', c)) :
    ∀ i ∈ CSRo.ids c, (i ∈ CSRo.ids t ∨ h ≤ i) ∧ i ∉ CSRo.ids o := by
  intro i hi
  rcases (CSRo.copyAssign_ids hc).2 i hi with ht | hf
  · exact ⟨Or.inl ht, hdis i ht⟩
  · exact ⟨Or.inr hf.1, fun hio => by have := hold i hio; omega⟩

/-- (f) along every sequence of copy/move assignments and constructions and re-sizings of two objects
    no operation is ever out of bounds, and both objects stay well formed -/
theorem run_safe (ops : List Op) (s : Pair (CSRo α)) (hs : CSRo.PairWF s) :
    ∃ s', CSRo.run ops s = some s' ∧ CSRo.PairWF s' := by
  obtain ⟨s', h1, h2, _⟩ := runWith_spec CSRo.step CSRo.PairWF CSRo.PairSep (Members.step_spec CSRo.lawful) ops s hs
  exact ⟨s', h1, h2⟩

/-- (f) … and if the two objects share no buffer initially they never do -/
theorem run_no_alias (ops : List Op) (s : Pair (CSRo α)) (hs : CSRo.PairWF s) (hsep : CSRo.PairSep s) :
    ∃ s', CSRo.run ops s = some s' ∧ CSRo.PairWF s' ∧ CSRo.PairSep s' := by
  obtain ⟨s', h1, h2, h3⟩ := runWith_spec CSRo.step CSRo.PairWF CSRo.PairSep (Members.step_spec CSRo.lawful) ops s hs
  exact ⟨s', h1, h2, h3 hsep⟩

end CSRo

/-! ## Diag -/
namespace Diag

/-- (a) the copy constructor never reads or writes out of bounds; the copy is observationally equal to
    the source, well formed, and owns only buffers allocated by this very call -/
theorem copyCtor_obs (h : Nat) (o : Diag α) (ho : Diag.WF o) :
    ∃ h' c, Diag.copyCtor h o = some (h', c) ∧ Diag.obs c = Diag.obs o ∧ Diag.WF c ∧ h ≤ h' ∧
      ∀ i ∈ Diag.ids c, h ≤ i ∧ i < h' :=
  Diag.copyCtor_spec h ho

/-- (b) copy assignment, for equal and for different sizes of target and source: never out of bounds
    (whenever the old buffers are reused their capacity suffices), result observationally equal to the source -/
theorem copyAssign_obs (h : Nat) (t o : Diag α) (ht : Diag.WF t) (ho : Diag.WF o) :
    ∃ h' c, Diag.copyAssign h t o = some (h', c) ∧ Diag.obs c = Diag.obs o ∧ Diag.WF c := by
  obtain ⟨h', c, h1, h2, h3, _⟩ := Diag.copyAssign_spec h ht ho
  exact ⟨h', c, h1, h2, h3⟩

omit [Scalar α] in
/-- (c) move constructor and move assignment hand over the very buffers of the source and leave the
    source in the default-constructed state, which owns nothing -/
theorem move_obs (t o : Diag α) :
    (Diag.obs (Diag.moveCtor o).1 = Diag.obs o ∧ Diag.ids (Diag.moveCtor o).1 = Diag.ids o ∧
      (Diag.moveCtor o).2 = Diag.default ∧ Diag.ids (Diag.moveCtor o).2 = []) ∧
    (Diag.obs (Diag.moveAssign t o).1 = Diag.obs o ∧ Diag.ids (Diag.moveAssign t o).1 = Diag.ids o ∧
      (Diag.moveAssign t o).2 = Diag.default ∧ Diag.ids (Diag.moveAssign t o).2 = []) :=
  ⟨⟨rfl, rfl, rfl, rfl⟩, ⟨rfl, rfl, rfl, rfl⟩⟩

omit [Scalar α] in
theorem default_WF : Diag.WF (Diag.default : Diag α) := Diag.WF_default

omit [Scalar α] in
/-- (c) both the moved-to and the moved-from object are well formed -/
theorem move_WF (t o : Diag α) (ho : Diag.WF o) :
    Diag.WF (Diag.moveCtor o).1 ∧ Diag.WF (Diag.moveCtor o).2 ∧
    Diag.WF (Diag.moveAssign t o).1 ∧ Diag.WF (Diag.moveAssign t o).2 :=
  ⟨ho, Diag.WF_default, ho, Diag.WF_default⟩

/-- (d) whenever the copy constructor succeeds, the copy shares no buffer with the source -/
theorem copyCtor_independent (h h' : Nat) (o c : Diag α) (hold : ∀ i ∈ Diag.ids o, i < h)
    (hc : Diag.copyCtor h o = some (h', c)) : ∀ i ∈ Diag.ids c, i ∉ Diag.ids o := by
  intro i hi hio
  have := ((Diag.copyCtor_ids hc).2 i hi).1
  have := hold i hio
  omega

/-- (d) whenever copy assignment succeeds, the target keeps (some of) its own buffers or gets fresh
    ones, and shares none with the source -/
theorem copyAssign_independent (h h' : Nat) (t o c : Diag α) (hold : ∀ i ∈ Diag.ids o, i < h)
    (hdis : ∀ i ∈ Diag.ids t, i ∉ Diag.ids o) (hc : Diag.copyAssign h t o = some (h', c)) :
    ∀ i ∈ Diag.ids c, (i ∈ Diag.ids t ∨ h ≤ i) ∧ i ∉ Diag.ids o := by
  intro i hi
  rcases (Diag.copyAssign_ids hc).2 i hi with ht | hf
  · exact ⟨Or.inl ht, hdis i ht⟩
  · exact ⟨Or.inr hf.1, fun hio => by have := hold i hio; omega⟩

/-- (f) along every sequence of copy/move assignments and constructions and re-sizings of two objects
    no operation is ever out of bounds, and both objects stay well formed -/
theorem run_safe (ops : List Op) (s : Pair (Diag α)) (hs : Diag.PairWF s) :
    ∃ s', Diag.run ops s = some s' ∧ Diag.PairWF s' := by
  obtain ⟨s', h1, h2, _⟩ := runWith_spec Diag.step Diag.PairWF Diag.PairSep (Members.step_spec Diag.lawful) ops s hs
  exact ⟨s', h1, h2⟩

/-- (f) … and if the two objects share no buffer initially they never do -/
theorem run_no_alias (ops : List Op) (s : Pair (Diag α)) (hs : Diag.PairWF s) (hsep : Diag.PairSep s) :
    ∃ s', Diag.run ops s = some s' ∧ Diag.PairWF s' ∧ Diag.PairSep s' := by
  obtain ⟨s', h1, h2, h3⟩ := runWith_spec Diag.step Diag.PairWF Diag.PairSep (Members.step_spec Diag.lawful) ops s hs
  exact ⟨s', h1, h2, h3 hsep⟩

end Diag

/-! ## Tri -/
namespace Tri

/-- (a) the copy constructor never reads or writes out of bounds; the copy is observationally equal to
    the source, well formed, and owns only buffers allocated by this very call -/
theorem copyCtor_obs (h : Nat) (o : Tri α) (ho : Tri.WF o) :
    ∃ h' c, Tri.copyCtor h o = some (h', c) ∧ Tri.obs c = Tri.obs o ∧ Tri.WF c ∧ h ≤ h' ∧
      ∀ i ∈ Tri.ids c, h ≤ i ∧ i < h' :=
  Tri.copyCtor_spec h ho

/-- (b) copy assignment, for equal and for different sizes of target and source: never out of bounds
    (whenever the old buffers are reused their capacity suffices), result observationally equal to the source -/
theorem copyAssign_obs (h : Nat) (t o : Tri α) (ht : Tri.WF t) (ho : Tri.WF o) :
    ∃ h' c, Tri.copyAssign h t o = some (h', c) ∧ Tri.obs c = Tri.obs o ∧ Tri.WF c := by
  obtain ⟨h', c, h1, h2, h3, _⟩ := Tri.copyAssign_spec h ht ho
  exact ⟨h', c, h1, h2, h3⟩

/-- (c) move constructor and move assignment hand over the very buffers of the source and leave the
    source in the default-constructed state, which owns nothing -/
theorem move_obs (t o : Tri α) :
    (Tri.obs (Tri.moveCtor o).1 = Tri.obs o ∧ Tri.ids (Tri.moveCtor o).1 = Tri.ids o ∧
      (Tri.moveCtor o).2 = Tri.default ∧ Tri.ids (Tri.moveCtor o).2 = []) ∧
    (Tri.obs (Tri.moveAssign t o).1 = Tri.obs o ∧ Tri.ids (Tri.moveAssign t o).1 = Tri.ids o ∧
      (Tri.moveAssign t o).2 = Tri.default ∧ Tri.ids (Tri.moveAssign t o).2 = []) :=
  ⟨⟨rfl, rfl, rfl, rfl⟩, ⟨rfl, rfl, rfl, rfl⟩⟩

theorem default_WF : Tri.WF (Tri.default : Tri α) := Tri.WF_default

/-- (c) both the moved-to and the moved-from object are well formed -/
theorem move_WF (t o : Tri α) (ho : Tri.WF o) :
    Tri.WF (Tri.moveCtor o).1 ∧ Tri.WF (Tri.moveCtor o).2 ∧
    Tri.WF (Tri.moveAssign t o).1 ∧ Tri.WF (Tri.moveAssign t o).2 :=
  ⟨ho, Tri.WF_default, ho, Tri.WF_default⟩

/-- (d) whenever the copy constructor succeeds, the copy shares no buffer with the source -/
theorem copyCtor_independent (h h' : Nat) (o c : Tri α) (hold : ∀ i ∈ Tri.ids o, i < h)
    (hc : Tri.copyCtor h o = some (h', c)) : ∀ i ∈ Tri.ids c, i ∉ Tri.ids o := by
  intro i hi hio
  have := ((Tri.copyCtor_ids hc).2 i hi).1
  have := hold i hio
  omega

/-- (d) whenever copy assignment succeeds, the target keeps (some of) its own buffers or gets fresh
    ones, and shares none with the source -/
theorem copyAssign_independent (h h' : Nat) (t o c : Tri α) (hold : ∀ i ∈ Tri.ids o, i < h)
    (hdis : ∀ i ∈ Tri.ids t, i ∉ Tri.ids o) (hc : Tri.copyAssign h t o = some (h', c)) :
    ∀ i ∈ Tri.ids c, (i ∈ Tri.ids t ∨ h ≤ i) ∧ i ∉ Tri.ids o := by
  intro i hi
  rcases (Tri.copyAssign_ids hc).2 i hi with ht | hf
  · exact ⟨Or.inl ht, hdis i ht⟩
  · exact ⟨Or.inr hf.1, fun hio => by have := hold i hio; omega⟩

/-- `solveInPlace` (which factorises in place on first use) keeps the object well formed -/
theorem solve_WF (t : Tri α) (rhs : List α) (ht : Tri.WF t) : Tri.WF (Tri.solve t rhs).1 :=
  Objects.Tri.solve_WF rhs ht

/-- (e) a copy (of a fresh or of an already factorised solver) solves every right-hand side to the same
    answer as its source, and ends in an observationally equal state -/
theorem copy_solves_like_source (h h' : Nat) (o c : Tri α) (rhs : List α) (ho : Tri.WF o)
    (hc : Tri.copyCtor h o = some (h', c)) :
    (Tri.solve c rhs).2 = (Tri.solve o rhs).2 ∧ Tri.obs (Tri.solve c rhs).1 = Tri.obs (Tri.solve o rhs).1 := by
  obtain ⟨h'', c', h1, h2, h3, _⟩ := Tri.copyCtor_spec h ho
  rw [hc] at h1
  injection h1 with h1; injection h1 with _ e
  subst e
  exact Tri.solve_congr rhs h3 ho h2

/-- (e) the same after copy assignment into any well-formed target -/
theorem assigned_solves_like_source (h h' : Nat) (t o c : Tri α) (rhs : List α) (ht : Tri.WF t) (ho : Tri.WF o)
    (hc : Tri.copyAssign h t o = some (h', c)) :
    (Tri.solve c rhs).2 = (Tri.solve o rhs).2 ∧ Tri.obs (Tri.solve c rhs).1 = Tri.obs (Tri.solve o rhs).1 := by
  obtain ⟨h'', c', h1, h2, h3, _⟩ := Tri.copyAssign_spec h ht ho
  rw [hc] at h1
  injection h1 with h1; injection h1 with _ e
  subst e
  exact Tri.solve_congr rhs h3 ho h2

/-- (f) along every sequence of copy/move assignments and constructions, re-sizings and `solveInPlace`
    calls on two solvers no operation is ever out of bounds, and both objects stay well formed -/
theorem run_safe (ops : List (TriOp α)) (s : Pair (Tri α)) (hs : Tri.PairWF s) :
    ∃ s', Tri.run ops s = some s' ∧ Tri.PairWF s' := by
  obtain ⟨s', h1, h2, _⟩ := runWith_spec Tri.step Tri.PairWF Tri.PairSep Tri.step_spec ops s hs
  exact ⟨s', h1, h2⟩

/-- (f) … and if the two solvers share no buffer initially they never do -/
theorem run_no_alias (ops : List (TriOp α)) (s : Pair (Tri α)) (hs : Tri.PairWF s) (hsep : Tri.PairSep s) :
    ∃ s', Tri.run ops s = some s' ∧ Tri.PairWF s' ∧ Tri.PairSep s' := by
  obtain ⟨s', h1, h2, h3⟩ := runWith_spec Tri.step Tri.PairWF Tri.PairSep Tri.step_spec ops s hs
  exact ⟨s', h1, h2, h3 hsep⟩

end Tri

/-! ## non-vacuity -/

example : Vec.WF (Vec.ofSize 0 3 : Nat × Vec Rat).2 := Vec.ofSize_WF 0 3
example : Diag.WF (Diag.ofSize 0 3 : Nat × Diag Rat).2 := Diag.ofSize_WF 0 3
example : COO.WF (COO.ofSize 0 2 2 3 : Nat × COO Rat).2 := COO.ofSize_WF 0 2 2 3
example : Tri.WF (Tri.ofSize 0 3 : Nat × Tri Rat).2 := Tri.ofSize_WF 0 3
/-- a 2×2 CSR matrix with three entries -/
example : CSRo.WF (⟨2, 2, 3, some ⟨0, [1, 2, 3]⟩, some ⟨1, [0, 1, 1]⟩, some ⟨2, [0, 2, 3]⟩⟩ : CSRo Rat) :=
  ⟨rfl, rfl, rfl⟩
example : Tri.WF Tri.example3 := ⟨rfl, rfl⟩

/-- the sized and the default object are a separated, well-formed pair (hypotheses of `run_no_alias`) -/
example : Vec.PairWF (⟨1, (Vec.ofSize 0 3 : Nat × Vec Rat).2, Vec.default⟩ : Pair (Vec Rat)) ∧
    Vec.PairSep (⟨1, (Vec.ofSize 0 3 : Nat × Vec Rat).2, Vec.default⟩ : Pair (Vec Rat)) :=
  ⟨⟨Vec.ofSize_WF 0 3, Vec.WF_default⟩,
    ⟨fun i hi => by rw [List.mem_singleton.mp hi]; decide, fun _ hi => (nomatch hi), fun _ _ hi => (nomatch hi)⟩⟩

/-- a history that copies a moved-from CSR matrix (and then copies the copy back) is in bounds -/
example (m : CSRo Rat) (hm : CSRo.WF m) :
    ∃ s', CSRo.run [.moveAB, .copyBA, .ctorCopyAB, .copyAB] ⟨7, m, CSRo.default⟩ = some s' ∧ CSRo.PairWF s' :=
  CSRo.run_safe _ _ ⟨hm, CSRo.WF_default⟩

/-- (e) concrete instance: `example3` is factorised by a first solve; the copy of the factorised solver
    exists, is factorised, and solves a second right-hand side to the same answer -/
example :
    (Tri.solve Tri.example3 [1, 2, 3]).1.factorized = true ∧
    ∃ h' c, Tri.copyCtor 2 (Tri.solve Tri.example3 [1, 2, 3]).1 = some (h', c) ∧ c.factorized = true ∧
      (Tri.solve c [3, 2, 1]).2 = (Tri.solve (Tri.solve Tri.example3 [1, 2, 3]).1 [3, 2, 1]).2 := by
  have hw : Tri.WF (Tri.solve Tri.example3 [1, 2, 3]).1 := Tri.solve_WF _ _ ⟨rfl, rfl⟩
  obtain ⟨h', c, h1, h2, _⟩ := Tri.copyCtor_obs 2 _ hw
  refine ⟨rfl, h', c, h1, ?_, (Tri.copy_solves_like_source 2 h' _ c _ hw h1).1⟩
  have : c.factorized = (Tri.solve Tri.example3 [1, 2, 3]).1.factorized := congrArg (·.2.2.2.2.2.1) h2
  rw [this]; rfl

/-- (e) the same by evaluation in exact rational arithmetic: the copy of the factorised solver exists and
    solves `[3, 2, 1]` to `[19/28, 2/7, 5/28]`, as does its source -/
example :
    ((Tri.copyCtor 2 (Tri.solve Tri.example3 [1, 2, 3]).1).map fun r => (Tri.solve r.2 [3, 2, 1]).2)
        = some [(19 : Rat) / 28, 2 / 7, 5 / 28] ∧
      (Tri.solve (Tri.solve Tri.example3 [1, 2, 3]).1 [3, 2, 1]).2 = [(19 : Rat) / 28, 2 / 7, 5 / 28] := by
  decide +kernel

end C15
