import GMGProofs.Props.C08
import GMGProofs.Props.C10i
import GMGProofs.Lemmas.BuiltPairs
/-!
# C08 on the hierarchy `setup()` builds

`C08` is about an abstract fine / coarse `Interp.Pair` under `Admissible` (shape) and `PosSpacing` (all spacings positive, for EVERY
index).  Here the pairs are the ones `Build.hier` builds from the level grids (`Build.pairOf`: spacings are differences of the node
coordinates), and the hypotheses are derived: the shape from the level-selection theorems (C10h `built_sizes`), positivity — only on
the index range of the grid, outside it the coordinate functions are arbitrary — from the increasing coordinates (`C10i.InputsOK`).
-/
namespace C08b
open Interp Build Cache Finset

section
variable {K : Type} [_root_.Field K] [LinearOrder K] [IsStrictOrderedRing K]

omit [LinearOrder K] [IsStrictOrderedRing K] in
/-- shape of a built pair: fine grid with odd `nr ≥ 3` and even `nt ≥ 4` -/
theorem pairOf_admissible (GF GC : GridData K) (hodd : GF.g.nr % 2 = 1) (hnr : 3 ≤ GF.g.nr) (heven : GF.g.nt % 2 = 0) (hnt : 4 ≤ GF.g.nt) :
    Admissible (pairOf GF GC) := Build.pairOf_admissible GF GC hodd hnr heven hnt

omit [LinearOrder K] [IsStrictOrderedRing K] in
/-- **restriction = prolongationᵀ on every built pair** (standard and extrapolated), no positivity needed -/
theorem built_adjoint (GF GC : GridData K) (hodd : GF.g.nr % 2 = 1) (hnr : 3 ≤ GF.g.nr) (heven : GF.g.nt % 2 = 0) (hnt : 4 ≤ GF.g.nt)
    (x y : Interp.Field K) :
    (∑ i ∈ range GF.g.nr, ∑ j ∈ range GF.g.nt, prolong (pairOf GF GC) x i j * y i j
      = ∑ I ∈ range ((GF.g.nr + 1) / 2), ∑ J ∈ range (GF.g.nt / 2), x I J * restrict (pairOf GF GC) y I J) ∧
    (∑ i ∈ range GF.g.nr, ∑ j ∈ range GF.g.nt, exProlong (pairOf GF GC) x i j * y i j
      = ∑ I ∈ range ((GF.g.nr + 1) / 2), ∑ J ∈ range (GF.g.nt / 2), x I J * exRestrict (pairOf GF GC) y I J) :=
  ⟨C08.adjoint (pairOf GF GC) (pairOf_admissible GF GC hodd hnr heven hnt) x y,
   C08.adjoint_ex (pairOf GF GC) (pairOf_admissible GF GC hodd hnr heven hnt) x y⟩

/-- **prolongation on a built pair is a convex combination of the four surrounding coarse values at every fine node OF THE GRID** —
    positivity of the spacings is only available on the index range (increasing coordinates of the fine grid; `prolong` reads no
    coarse spacing, so nothing is asked of `GC`, and of the shape only that `nr` is odd: an odd `i < nr` then has `i + 1 < nr`) -/
theorem built_convex (E : Env K) (GF GC : GridData K) (hF : C10i.InputsOK E GF) (hodd : GF.g.nr % 2 = 1)
    (i j : ℕ) (hi : i < GF.g.nr) (hj : j < GF.g.nt) :
    ∃ w00 w10 w01 w11 : K, 0 ≤ w00 ∧ 0 ≤ w10 ∧ 0 ≤ w01 ∧ 0 ≤ w11 ∧ w00 + w10 + w01 + w11 = 1 ∧
      ∀ x : Interp.Field K, prolong (pairOf GF GC) x i j = w00 * x (i / 2) (j / 2) + w10 * x (i / 2 + 1) (j / 2)
        + w01 * x (i / 2) (wC (pairOf GF GC) (j / 2 + 1)) + w11 * x (i / 2 + 1) (wC (pairOf GF GC) (j / 2 + 1)) := by
  have hpos : 0 < GF.g.nt := by omega
  refine prolong_convex_local (pairOf GF GC) i j (fun ci => ⟨?_, ?_⟩) (fun _ => ⟨?_, ?_⟩)
  · exact pairOf_hF_pos GF GC hF.radius_inc (i - 1) (by omega)
  · exact pairOf_hF_pos GF GC hF.radius_inc i (by omega)
  · exact pairOf_kF_pos GF GC hF.theta_inc _ (Nat.mod_lt _ hpos)
  · exact pairOf_kF_pos GF GC hF.theta_inc j hj

end
end C08b
