import GMGProofs.Props.C10c
import GMGProofs.Lemmas.Concrete4
import GMGProofs.Lemmas.Concrete5
/-!
# C10 (the whole cycle inside the model, continued): any depth, and the implicitly extrapolated cycle

`C10c.concrete_exact_fixed` is the two-level plain cycle.  Here: hierarchies of ANY depth `L ≥ 2` (the intermediate levels
smooth a zero correction with a zero right-hand side — `MGCycle.ZeroData` discharged for the code-level models), and the
implicitly extrapolated cycle (`C10.exact_fixed_extrap` instantiated), whose fixed-point statement needs the iterate to be
exact on levels 0 AND 1 (that is what `ExExactData.rhs_zero` says — the extrapolated right-hand side combines both residuals).
With the extrapolated smoother on level 0 the proof composes `C07c.code_exsweep_isExSweep`, `C07c.code_exsweep_total`,
`C07.ex_fixed_point` with two facts proved in `GMGProofs/Lemmas/Concrete5.lean`: `C07c.ExLinesOK` holds for a Dirichlet inner
boundary and elliptic data, and the equations of the extrapolated sweep have at most one solution in that mode.
Property theorems only; helper lemmas in `GMGProofs/Lemmas/Concrete*.lean`.
-/
namespace C10d
open MGCycle Concrete Stencil

section Ordered
variable {K : Type} [_root_.Field K] [LinearOrder K] [IsStrictOrderedRing K]

/-- a smoothing level the solver accepts: Dirichlet inner boundary, elliptic data, admissible sizes -/
structure LevelOK (D : LevelData K) : Prop where
  nt : 4 ≤ D.op.nt
  even : D.op.nt % 2 = 0
  nc : 2 ≤ D.nc
  nr : D.nc + 3 ≤ D.op.nr
  bc : D.op.bc = true
  ell : Elliptic D.op

omit [IsStrictOrderedRing K] in
/-- `LevelOK` is the conjunction the lemma files use -/
theorem LevelOK.hyp {D : LevelData K} (h : LevelOK D) : LevelHyp D := ⟨h.nt, h.even, h.nc, h.nr, h.bc, h.ell⟩

/-- **any depth**: the concrete V-, W- and F-cycle on `L ≥ 2` levels leaves the exact discrete solution alone -/
theorem concrete_exact_fixed_depth (H : Hier K) (L : Nat) (hL : 2 ≤ L) (k : Kind) (nu1 nu2 : Nat) (fgs : Bool) (u f : Array K)
    (hlev : ∀ l, l + 1 < L → LevelOK (lvl H l)) (ht1 : H.tiny 1 = false)
    (M : SparseLU.CSR K) (hM : DirectCode.assemble H.tables (lvl H (L - 1)).op = some M)
    (ht : ∀ r, r < M.rows → H.tiny (SparseLU.den ((SparseLU.factorRows M).2.getD r []) r) = false)
    (hu : u.size = (lvl H 0).op.nr * (lvl H 0).op.nt)
    (hsol : ∀ i j, i < (lvl H 0).op.nr → j < (lvl H 0).op.nt →
      take (lvl H 0).op (SmootherCode.fld (lvl H 0).op.nt f) (SmootherCode.fld (lvl H 0).op.nt u) i j = 0)
    (m : Mem (Option (Array K))) (hm : m (0, Buf.sol) = some u) (hr : m (0, Buf.rhs) = some f) :
    cycle H ⟨L, nu1, nu2⟩ k false fgs m (0, Buf.sol) = some u := by
  have E : ExactData (ops H) ⟨L, nu1, nu2⟩ 0 (m (0, Buf.sol)) (m (0, Buf.rhs)) := by
    rw [hm, hr]
    exact exactData_depth H L nu1 nu2 hL u f (fun l h => (hlev l h).hyp) ht1 M hM ht hu hsol
  have hL' : 1 ≤ (⟨L, nu1, nu2⟩ : Cfg).levels - 1 := by show 1 ≤ L - 1; omega
  unfold cycle
  rw [C10.exact_fixed_exec (ops H) ⟨L, nu1, nu2⟩ k fgs m hL' E, hm]

/-- **implicitly extrapolated cycle, full-grid smoothing on level 0** (`fgs = true`: the modes IMPLICIT_FULL_GRID_SMOOTHING and
    COMBINED while `full_grid_smoothing_` is set): an iterate that is exact on level 0 and whose injection is exact on level 1
    is a fixed point, for any depth.
    `hnr1`: on a TWO-level hierarchy nothing else is assumed about level 1 (it is the coarsest level), and the model's residual
    reads the injected iterate from a level-1 ARRAY; the row equation of `hsol1` at a node `(0, j)` reads `(1, j)` when the
    inner boundary is not Dirichlet, which is off the array when `nr = 1`.  For `L ≥ 3` it follows from `hlev 1`. -/
theorem concrete_exact_fixed_extrap_fgs (H : Hier K) (L : Nat) (hL : 2 ≤ L) (k : Kind) (nu1 nu2 : Nat) (u f f1 : Array K)
    (hlev : ∀ l, l + 1 < L → LevelOK (lvl H l)) (ht1 : H.tiny 1 = false)
    (M : SparseLU.CSR K) (hM : DirectCode.assemble H.tables (lvl H (L - 1)).op = some M)
    (ht : ∀ r, r < M.rows → H.tiny (SparseLU.den ((SparseLU.factorRows M).2.getD r []) r) = false)
    (hu : u.size = (lvl H 0).op.nr * (lvl H 0).op.nt)
    (hsol : ∀ i j, i < (lvl H 0).op.nr → j < (lvl H 0).op.nt →
      take (lvl H 0).op (SmootherCode.fld (lvl H 0).op.nt f) (SmootherCode.fld (lvl H 0).op.nt u) i j = 0)
    (hnr1 : L = 2 → (lvl H 1).op.bc = true ∨ 2 ≤ (lvl H 1).op.nr)
    (hsol1 : ∀ i j, i < (lvl H 1).op.nr → j < (lvl H 1).op.nt →
      take (lvl H 1).op (SmootherCode.fld (lvl H 1).op.nt f1)
        (Interp.inject (SmootherCode.fld (lvl H 0).op.nt u)) i j = 0)
    (m : Mem (Option (Array K))) (hm : m (0, Buf.sol) = some u) (hr : m (0, Buf.rhs) = some f)
    (hr1 : m (1, Buf.rhs) = some f1) :
    cycle H ⟨L, nu1, nu2⟩ k true true m (0, Buf.sol) = some u := by
  have h01 : (lvl H 1).op.bc = true ∨ 2 ≤ (lvl H 1).op.nr := by
    by_cases h2 : L = 2
    · exact hnr1 h2
    · exact Or.inl (hlev 1 (by omega)).bc
  have E : ExExactData (ops H) ⟨L, nu1, nu2⟩ true (m (0, Buf.sol)) (m (0, Buf.rhs)) (m (1, Buf.rhs)) := by
    rw [hm, hr, hr1]
    exact exExactData_fgs H L nu1 nu2 hL u f f1 (fun l h => (hlev l h).hyp) ht1 M hM ht hu hsol h01 hsol1
  have hL' : 1 ≤ (⟨L, nu1, nu2⟩ : Cfg).levels - 1 := by show 1 ≤ L - 1; omega
  unfold cycle
  rw [C10.exact_fixed_extrap (ops H) ⟨L, nu1, nu2⟩ k true m hL' E, hm]

/-- **implicitly extrapolated cycle with the extrapolated smoother on level 0** (`fgs = false`: IMPLICIT_EXTRAPOLATION, and COMBINED
    after the switch): the same, the level-0 smoothing being `ExSmootherCode.sweep`; `nr` odd as the extrapolated smoother requires
    (`C07c.nr_odd_needed`).  No hypothesis on the line solves of the extrapolated smoother: `C07c.ExLinesOK` is proved from the
    Dirichlet inner boundary and ellipticity (`Concrete.exLinesOK_dirichlet`). -/
theorem concrete_exact_fixed_extrap (H : Hier K) (L : Nat) (hL : 2 ≤ L) (k : Kind) (nu1 nu2 : Nat) (u f f1 : Array K)
    (hlev : ∀ l, l + 1 < L → LevelOK (lvl H l)) (hodd : (lvl H 0).op.nr % 2 = 1) (ht1 : H.tiny 1 = false)
    (M : SparseLU.CSR K) (hM : DirectCode.assemble H.tables (lvl H (L - 1)).op = some M)
    (ht : ∀ r, r < M.rows → H.tiny (SparseLU.den ((SparseLU.factorRows M).2.getD r []) r) = false)
    (hu : u.size = (lvl H 0).op.nr * (lvl H 0).op.nt)
    (hsol : ∀ i j, i < (lvl H 0).op.nr → j < (lvl H 0).op.nt →
      take (lvl H 0).op (SmootherCode.fld (lvl H 0).op.nt f) (SmootherCode.fld (lvl H 0).op.nt u) i j = 0)
    (hnr1 : L = 2 → (lvl H 1).op.bc = true ∨ 2 ≤ (lvl H 1).op.nr)
    (hsol1 : ∀ i j, i < (lvl H 1).op.nr → j < (lvl H 1).op.nt →
      take (lvl H 1).op (SmootherCode.fld (lvl H 1).op.nt f1)
        (Interp.inject (SmootherCode.fld (lvl H 0).op.nt u)) i j = 0)
    (m : Mem (Option (Array K))) (hm : m (0, Buf.sol) = some u) (hr : m (0, Buf.rhs) = some f)
    (hr1 : m (1, Buf.rhs) = some f1) :
    cycle H ⟨L, nu1, nu2⟩ k true false m (0, Buf.sol) = some u := by
  have h01 : (lvl H 1).op.bc = true ∨ 2 ≤ (lvl H 1).op.nr := by
    by_cases h2 : L = 2
    · exact hnr1 h2
    · exact Or.inl (hlev 1 (by omega)).bc
  have E : ExExactData (ops H) ⟨L, nu1, nu2⟩ false (m (0, Buf.sol)) (m (0, Buf.rhs)) (m (1, Buf.rhs)) := by
    rw [hm, hr, hr1]
    exact exExactData_ex H L nu1 nu2 hL u f f1 (fun l h => (hlev l h).hyp) hodd ht1 M hM ht hu hsol h01 hsol1
  have hL' : 1 ≤ (⟨L, nu1, nu2⟩ : Cfg).levels - 1 := by show 1 ≤ L - 1; omega
  unfold cycle
  rw [C10.exact_fixed_extrap (ops H) ⟨L, nu1, nu2⟩ k false m hL' E, hm]

end Ordered

/-! ## non-vacuity: a three-level hierarchy over ℚ satisfying the hypotheses of all three theorems, with a non-zero solution

Level 0 is a new 13 × 16 grid (four smoother circles, `nr` odd), levels 1 and 2 are the two levels of `C10c.exH`
(7 × 8 and 4 × 4), so the 16 coarse pivots are those evaluated in `C10c.exH_pivots`. -/

/-- fine level 13 × 16, non-uniform spacings, a genuinely mixed coefficient -/
def exL0 : LevelData ℚ :=
  ⟨{ nr := 13, nt := 16, bc := true, r0 := 1 / 10, h := fun i => 1 + i, k := fun j => 1 + j,
     arr := fun i j => 1 + i + j, att := fun i j => 2 + i * j, art := fun _ _ => 1,
     det := fun i _ => 1 + i, beta := fun i => i }, 4⟩

def exP0 : Interp.Pair ℚ := ⟨13, 16, fun i => 1 + i, fun j => 1 + j, fun i => 1 + i, fun j => 1 + j⟩

/-- three levels 13 × 16 → 7 × 8 → 4 × 4, the `abs(pivot) < 1e-12` test, the generated offset tables -/
def exH3 : Hier ℚ := ⟨[exL0, C10c.exL0, C10c.exL1], [exP0, C10c.exP], C06c.exTiny, C04c.genTables⟩

theorem exL0_elliptic : Elliptic exL0.op where
  h_pos := fun i _ => by simp only [exL0]; positivity
  k_pos := fun j _ => by simp only [exL0]; positivity
  arr_pos := fun i j _ _ => by simp only [exL0]; positivity
  att_pos := fun i j _ _ => by simp only [exL0]; positivity
  art_le := fun i j _ _ => by
    simp only [exL0]
    have hi : (0 : ℚ) ≤ i := Nat.cast_nonneg i
    have hj : (0 : ℚ) ≤ j := Nat.cast_nonneg j
    nlinarith [mul_nonneg hi hj, mul_nonneg (mul_nonneg hi hj) hi, mul_nonneg (mul_nonneg hi hj) hj]
  beta_nonneg := fun i _ => by simp only [exL0]; positivity
  det_nonneg := fun i j _ _ => by simp only [exL0]; positivity

theorem exH3_lvl0 : lvl exH3 0 = exL0 := rfl
theorem exH3_lvl1 : lvl exH3 1 = C10c.exL0 := rfl
theorem exH3_lvl2 : lvl exH3 2 = C10c.exL1 := rfl

/-- **the smoothing levels 0 and 1 satisfy `LevelOK`** -/
theorem exH3_levels : ∀ l, l + 1 < 3 → LevelOK (lvl exH3 l) := by
  intro l hl
  have : l = 0 ∨ l = 1 := by omega
  rcases this with rfl | rfl
  · rw [exH3_lvl0]
    exact ⟨by decide, by decide, by decide, by decide, rfl, exL0_elliptic⟩
  · rw [exH3_lvl1]
    exact ⟨by decide, by decide, by decide, by decide, rfl, C10c.exL0_elliptic⟩

/-- a field that is not zero, its right-hand side `f := A u` on level 0, and the level-1 right-hand side `f1 := A₁ (inject u)` -/
def exU : Array ℚ := SmootherCode.ofField 13 16 fun i j => 1 + (i : ℚ) * i - 3 * j
def exF : Array ℚ := SmootherCode.ofField 13 16 (A exL0.op (SmootherCode.fld 16 exU))
def exF1 : Array ℚ := SmootherCode.ofField 7 8 (A C10c.exL0.op (Interp.inject (SmootherCode.fld 16 exU)))

theorem exU_size : exU.size = (lvl exH3 0).op.nr * (lvl exH3 0).op.nt := by
  rw [exH3_lvl0]; simp [exU, exL0, SmootherCode.ofField]

theorem exU_sol : ∀ i j, i < (lvl exH3 0).op.nr → j < (lvl exH3 0).op.nt →
    take (lvl exH3 0).op (SmootherCode.fld (lvl exH3 0).op.nt exF) (SmootherCode.fld (lvl exH3 0).op.nt exU) i j = 0 := by
  rw [exH3_lvl0]
  intro i j hi hj
  rw [take_eq_sub_A]
  show SmootherCode.fld 16 exF i j - _ = 0
  unfold exF
  rw [fld_ofField_grid 13 16 _ i j hi hj]
  exact sub_self _

theorem exU_sol1 : ∀ i j, i < (lvl exH3 1).op.nr → j < (lvl exH3 1).op.nt →
    take (lvl exH3 1).op (SmootherCode.fld (lvl exH3 1).op.nt exF1)
      (Interp.inject (SmootherCode.fld (lvl exH3 0).op.nt exU)) i j = 0 := by
  rw [exH3_lvl0, exH3_lvl1]
  intro i j hi hj
  rw [take_eq_sub_A]
  show SmootherCode.fld 8 exF1 i j - A C10c.exL0.op (Interp.inject (SmootherCode.fld 16 exU)) i j = 0
  unfold exF1
  rw [fld_ofField_grid 7 8 _ i j hi hj]
  exact sub_self _

/-- `concrete_exact_fixed_depth` applies with `L = 3`: all hypotheses hold jointly, for a solution with non-zero entries and a
    non-zero right-hand side -/
example (k : Kind) (nu1 nu2 : Nat) (fgs : Bool) (m : Mem (Option (Array ℚ)))
    (hm : m (0, Buf.sol) = some exU) (hr : m (0, Buf.rhs) = some exF) :
    cycle exH3 ⟨3, nu1, nu2⟩ k false fgs m (0, Buf.sol) = some exU ∧ exU[10]? = some (-29 : ℚ) ∧ exF[20]? ≠ some 0 := by
  obtain ⟨M, hM⟩ := C04c.assemble_in_bounds C10c.exL1.op (by decide)
  exact ⟨concrete_exact_fixed_depth exH3 3 (by decide) k nu1 nu2 fgs exU exF exH3_levels (by decide +kernel) M hM
    (fun r hr' => (C10c.exH_twoLevel.coarse_ok M hM r hr').1) exU_size exU_sol m hm hr, by decide +kernel, by decide +kernel⟩

/-- the two extrapolated statements apply to the same data (`nr = 13` is odd; `hnr1` is void for `L = 3`), the level-1
    right-hand side is not zero either -/
example (k : Kind) (nu1 nu2 : Nat) (fgs : Bool) (m : Mem (Option (Array ℚ)))
    (hm : m (0, Buf.sol) = some exU) (hr : m (0, Buf.rhs) = some exF) (hr1 : m (1, Buf.rhs) = some exF1) :
    cycle exH3 ⟨3, nu1, nu2⟩ k true fgs m (0, Buf.sol) = some exU ∧ exF1[10]? ≠ some 0 := by
  obtain ⟨M, hM⟩ := C04c.assemble_in_bounds C10c.exL1.op (by decide)
  have ht : ∀ r, r < M.rows → exH3.tiny (SparseLU.den ((SparseLU.factorRows M).2.getD r []) r) = false :=
    fun r hr' => (C10c.exH_twoLevel.coarse_ok M hM r hr').1
  refine ⟨?_, by decide +kernel⟩
  cases fgs
  · exact concrete_exact_fixed_extrap exH3 3 (by decide) k nu1 nu2 exU exF exF1 exH3_levels (by decide) (by decide +kernel)
      M hM ht exU_size exU_sol (fun h => absurd h (by decide)) exU_sol1 m hm hr hr1
  · exact concrete_exact_fixed_extrap_fgs exH3 3 (by decide) k nu1 nu2 exU exF exF1 exH3_levels (by decide +kernel)
      M hM ht exU_size exU_sol (fun h => absurd h (by decide)) exU_sol1 m hm hr hr1

/-- on TWO levels (`C10c.exH`, 7 × 8 → 4 × 4, `nr = 7` odd) the extrapolated statements apply as well; `hnr1` holds because
    level 1 has a Dirichlet inner boundary (and four radial nodes) -/
def exF1two : Array ℚ := SmootherCode.ofField 4 4 (A C10c.exL1.op (Interp.inject (SmootherCode.fld 8 C10c.exU)))

example (k : Kind) (nu1 nu2 : Nat) (fgs : Bool) (m : Mem (Option (Array ℚ)))
    (hm : m (0, Buf.sol) = some C10c.exU) (hr : m (0, Buf.rhs) = some C10c.exF) (hr1 : m (1, Buf.rhs) = some exF1two) :
    cycle C10c.exH ⟨2, nu1, nu2⟩ k true fgs m (0, Buf.sol) = some C10c.exU := by
  have hl0 : lvl C10c.exH 0 = C10c.exL0 := rfl
  have hl1 : lvl C10c.exH 1 = C10c.exL1 := rfl
  obtain ⟨M, hM⟩ := C04c.assemble_in_bounds C10c.exL1.op (by decide)
  have ht : ∀ r, r < M.rows → C10c.exH.tiny (SparseLU.den ((SparseLU.factorRows M).2.getD r []) r) = false :=
    fun r hr' => (C10c.exH_twoLevel.coarse_ok M hM r hr').1
  have hlev : ∀ l, l + 1 < 2 → LevelOK (lvl C10c.exH l) := by
    intro l hl
    have : l = 0 := by omega
    subst this
    rw [hl0]
    exact ⟨by decide, by decide, by decide, by decide, rfl, C10c.exL0_elliptic⟩
  have hu : C10c.exU.size = (lvl C10c.exH 0).op.nr * (lvl C10c.exH 0).op.nt := by
    rw [hl0]; simp [C10c.exU, C10c.exL0, SmootherCode.ofField]
  have hsol : ∀ i j, i < (lvl C10c.exH 0).op.nr → j < (lvl C10c.exH 0).op.nt →
      take (lvl C10c.exH 0).op (SmootherCode.fld (lvl C10c.exH 0).op.nt C10c.exF)
        (SmootherCode.fld (lvl C10c.exH 0).op.nt C10c.exU) i j = 0 := by
    rw [hl0]
    intro i j hi hj
    rw [take_eq_sub_A]
    show SmootherCode.fld 8 C10c.exF i j - _ = 0
    unfold C10c.exF
    rw [fld_ofField_grid 7 8 _ i j hi hj]
    exact sub_self _
  have hsol1 : ∀ i j, i < (lvl C10c.exH 1).op.nr → j < (lvl C10c.exH 1).op.nt →
      take (lvl C10c.exH 1).op (SmootherCode.fld (lvl C10c.exH 1).op.nt exF1two)
        (Interp.inject (SmootherCode.fld (lvl C10c.exH 0).op.nt C10c.exU)) i j = 0 := by
    rw [hl0, hl1]
    intro i j hi hj
    rw [take_eq_sub_A]
    show SmootherCode.fld 4 exF1two i j - A C10c.exL1.op (Interp.inject (SmootherCode.fld 8 C10c.exU)) i j = 0
    unfold exF1two
    rw [fld_ofField_grid 4 4 _ i j hi hj]
    exact sub_self _
  cases fgs
  · exact concrete_exact_fixed_extrap C10c.exH 2 (by decide) k nu1 nu2 C10c.exU C10c.exF exF1two hlev (by decide)
      (by decide +kernel) M hM ht hu hsol (fun _ => Or.inl rfl) hsol1 m hm hr hr1
  · exact concrete_exact_fixed_extrap_fgs C10c.exH 2 (by decide) k nu1 nu2 C10c.exU C10c.exF exF1two hlev
      (by decide +kernel) M hM ht hu hsol (fun _ => Or.inl rfl) hsol1 m hm hr hr1

end C10d
