import GMGProofs.Lemmas.StencilLemmas1
/-!
# Stencil lemmas 2 — what one node sends in each of the six directions, and the received total

`sC sL sA sR sB sT o x i j` are the values node `(i, j)` subtracts from itself, from `(i-1, j)`,
from the antipode `(0, ja j)` (only `i = 0`, across the origin), from `(i+1, j)`, `(i, jm j)`, `(i, jp j)`;
they are `0` when the position class of `(i, j)` has no update in that direction.
`recv_giveNode` is the uniform description of `giveNode`; `give_formula` the resulting closed form of `give`.
-/
set_option linter.unusedSectionVars false
namespace Stencil
open Finset
variable {K : Type} [_root_.Field K]

section contrib
variable (o : Op K) (x : Field K)

theorem recv_mk (ti tj : Nat) (v : K) (l : List (Upd K)) (a b : Nat) :
    recv (⟨ti, tj, v⟩ :: l) a b = (if a = ti ∧ b = tj then v else 0) + recv l a b :=
  recv_cons _ _ _ _

/-- `fillR` does not depend on the supplied `h1` -/
theorem fillR_h1 (i j : Nat) (h1 h1' : K) : fillR o x i j h1 = fillR o x i j h1' := rfl

/-- sent to itself -/
def sC (i j : Nat) : K :=
  if (i = 0 ∧ o.bc = true) ∨ i + 1 = o.nr then x i j
  else if i = 0 then (fillC o x 0 j (Scalar.n 2 * o.r0) 0 (ja o j)).v
  else (fillC o x i j (o.h (i - 1)) (i - 1) j).v
/-- sent to `(i-1, j)` -/
def sL (i j : Nat) : K :=
  if i = 0 ∨ (i = 1 ∧ o.bc = true) then 0 else (fillL o x i j (o.h (i - 1))).v
/-- sent by `(0, j)` to its antipode `(0, ja j)` -/
def sA (j : Nat) : K :=
  if o.bc = true then 0 else (fillLAcross o x j (Scalar.n 2 * o.r0)).v
/-- sent to `(i+1, j)` -/
def sR (i j : Nat) : K :=
  if i + 2 < o.nr then (fillR o x i j (Scalar.n 0)).v else 0
/-- sent to `(i, jm j)` -/
def sB (i j : Nat) : K :=
  if i = 0 then (if o.bc = true then 0 else (fillBAcross o x j (Scalar.n 2 * o.r0)).v)
  else if i + 1 = o.nr then 0 else (fillB o x i j (o.h (i - 1))).v
/-- sent to `(i, jp j)` -/
def sT (i j : Nat) : K :=
  if i = 0 then (if o.bc = true then 0 else (fillTAcross o x j (Scalar.n 2 * o.r0)).v)
  else if i + 1 = o.nr then 0 else (fillT o x i j (o.h (i - 1))).v

theorem sR_eq (i j : Nat) (h1 : K) :
    sR o x i j = if i + 2 < o.nr then (fillR o x i j h1).v else 0 := rfl

theorem ite_l {a i : Nat} (h : 1 ≤ i) (Q : Prop) [Decidable Q] (v : K) :
    (if a = i - 1 ∧ Q then v else 0) = (if a + 1 = i ∧ Q then v else 0) :=
  if_congr (and_congr (by omega) Iff.rfl) rfl rfl

/-! the five position classes with explicit targets -/
theorem giveNode_int {i : Nat} (j : Nat) (h : 1 < i ∧ i + 2 < o.nr) :
    giveNode o x i j =
      [⟨i, j, (fillC o x i j (o.h (i - 1)) (i - 1) j).v⟩, ⟨i - 1, j, (fillL o x i j (o.h (i - 1))).v⟩,
       ⟨i + 1, j, (fillR o x i j (o.h (i - 1))).v⟩, ⟨i, jm o j, (fillB o x i j (o.h (i - 1))).v⟩,
       ⟨i, jp o j, (fillT o x i j (o.h (i - 1))).v⟩] := by
  unfold giveNode; rw [if_pos h]; rfl

theorem giveNode_zero_bc (j : Nat) (_hnr : 4 ≤ o.nr) (hbc : o.bc = true) :
    giveNode o x 0 j = [⟨0, j, x 0 j⟩, ⟨0 + 1, j, (fillR o x 0 j (Scalar.n 0)).v⟩] := by
  unfold giveNode; rw [if_neg (by omega), if_pos rfl, if_pos hbc]; rfl

theorem giveNode_zero_across (j : Nat) (_hnr : 4 ≤ o.nr) (hbc : ¬ o.bc = true) :
    giveNode o x 0 j =
      [⟨0, j, (fillC o x 0 j (Scalar.n 2 * o.r0) 0 (ja o j)).v⟩,
       ⟨0, ja o j, (fillLAcross o x j (Scalar.n 2 * o.r0)).v⟩,
       ⟨0 + 1, j, (fillR o x 0 j (Scalar.n 2 * o.r0)).v⟩,
       ⟨0, jm o j, (fillBAcross o x j (Scalar.n 2 * o.r0)).v⟩,
       ⟨0, jp o j, (fillTAcross o x j (Scalar.n 2 * o.r0)).v⟩] := by
  unfold giveNode; rw [if_neg (by omega), if_pos rfl, if_neg hbc]; rfl

theorem giveNode_one_bc (j : Nat) (_hnr : 4 ≤ o.nr) (hbc : o.bc = true) :
    giveNode o x 1 j =
      [⟨1, j, (fillC o x 1 j (o.h (1 - 1)) (1 - 1) j).v⟩,
       ⟨1 + 1, j, (fillR o x 1 j (o.h (1 - 1))).v⟩, ⟨1, jm o j, (fillB o x 1 j (o.h (1 - 1))).v⟩,
       ⟨1, jp o j, (fillT o x 1 j (o.h (1 - 1))).v⟩] := by
  unfold giveNode; rw [if_neg (by omega), if_neg (by omega), if_pos rfl]; simp only [hbc]; rfl

theorem giveNode_one_across (j : Nat) (_hnr : 4 ≤ o.nr) (hbc : ¬ o.bc = true) :
    giveNode o x 1 j =
      [⟨1, j, (fillC o x 1 j (o.h (1 - 1)) (1 - 1) j).v⟩, ⟨1 - 1, j, (fillL o x 1 j (o.h (1 - 1))).v⟩,
       ⟨1 + 1, j, (fillR o x 1 j (o.h (1 - 1))).v⟩, ⟨1, jm o j, (fillB o x 1 j (o.h (1 - 1))).v⟩,
       ⟨1, jp o j, (fillT o x 1 j (o.h (1 - 1))).v⟩] := by
  unfold giveNode; rw [if_neg (by omega), if_neg (by omega), if_pos rfl]; simp only [hbc]; rfl

theorem giveNode_penult {i : Nat} (j : Nat) (h1 : 1 < i) (h : i + 2 = o.nr) :
    giveNode o x i j =
      [⟨i, j, (fillC o x i j (o.h (i - 1)) (i - 1) j).v⟩, ⟨i - 1, j, (fillL o x i j (o.h (i - 1))).v⟩,
       ⟨i, jm o j, (fillB o x i j (o.h (i - 1))).v⟩, ⟨i, jp o j, (fillT o x i j (o.h (i - 1))).v⟩] := by
  unfold giveNode
  rw [if_neg (by omega), if_neg (by omega), if_neg (by omega), if_pos h]; rfl

theorem giveNode_last {i : Nat} (j : Nat) (h1 : 1 < i) (h : i + 1 = o.nr) :
    giveNode o x i j = [⟨i, j, x i j⟩, ⟨i - 1, j, (fillL o x i j (o.h (i - 1))).v⟩] := by
  unfold giveNode
  rw [if_neg (by omega), if_neg (by omega), if_neg (by omega), if_neg (by omega), if_pos h]; rfl

/-- uniform description of the updates of node `(i, j)` as seen from a target `(a, b)` -/
theorem recv_giveNode (hnr : 4 ≤ o.nr) (i j a b : Nat) (hi : i < o.nr) :
    recv (giveNode o x i j) a b =
      (if a = i ∧ b = j then sC o x i j else 0)
      + (if a + 1 = i ∧ b = j then sL o x i j else 0)
      + (if 0 = i ∧ (a = 0 ∧ b = ja o j) then sA o x j else 0)
      + (if a = i + 1 ∧ b = j then sR o x i j else 0)
      + (if a = i ∧ b = jm o j then sB o x i j else 0)
      + (if a = i ∧ b = jp o j then sT o x i j else 0) := by
  by_cases hint : 1 < i ∧ i + 2 < o.nr
  · -- interior
    have h0 : i ≠ 0 := by omega
    have h1 : i ≠ 1 := by omega
    have h2 : i + 1 ≠ o.nr := by omega
    have h3 : 0 ≠ i := by omega
    rw [giveNode_int o x j hint]
    simp only [recv_mk, recv_nil]
    rw [ite_l (i := i) (by omega)]
    simp only [sC, sL, sR, sB, sT, h0, h1, h2, h3, hint.2, false_and, or_self, if_false, if_true,
      fillR_h1 o x i j (Scalar.n 0) (o.h (i - 1))]
    ring
  · rcases (by omega : i = 0 ∨ i = 1 ∨ (1 < i ∧ i + 2 = o.nr) ∨ (1 < i ∧ i + 1 = o.nr)) with
      rfl | rfl | ⟨h1, h2⟩ | ⟨h1, h2⟩
    · by_cases hbc : o.bc = true
      · rw [giveNode_zero_bc o x j hnr hbc]
        simp only [recv_mk, recv_nil]
        have e1 : ¬ (0 + 1 = o.nr) := by omega
        have e2 : 0 + 2 < o.nr := by omega
        simp [sC, sA, sR, sB, sT, hbc, e1, e2]
      · rw [giveNode_zero_across o x j hnr hbc]
        simp only [recv_mk, recv_nil]
        have e1 : ¬ (0 + 1 = o.nr) := by omega
        have e2 : 0 + 2 < o.nr := by omega
        rw [sR_eq o x 0 j (Scalar.n 2 * o.r0)]
        simp [sC, sA, sB, sT, hbc, e1, e2]
        ring
    · have e1 : ¬ (1 + 1 = o.nr) := by omega
      have e2 : 1 + 2 < o.nr := by omega
      by_cases hbc : o.bc = true
      · rw [giveNode_one_bc o x j hnr hbc]
        simp only [recv_mk, recv_nil]
        rw [sR_eq o x 1 j (o.h (1 - 1))]
        simp [sC, sL, sB, sT, hbc, e1, e2]
        ring
      · rw [giveNode_one_across o x j hnr hbc]
        simp only [recv_mk, recv_nil]
        rw [sR_eq o x 1 j (o.h (1 - 1))]
        simp [sC, sL, sB, sT, hbc, e1, e2]
        ring
    · have h0 : i ≠ 0 := by omega
      have h1' : i ≠ 1 := by omega
      have h2' : i + 1 ≠ o.nr := by omega
      have h3 : 0 ≠ i := by omega
      have h4 : ¬ (i + 2 < o.nr) := by omega
      rw [giveNode_penult o x j h1 h2]
      simp only [recv_mk, recv_nil]
      rw [ite_l (i := i) (by omega)]
      simp only [sC, sL, sR, sB, sT, h0, h1', h2', h3, h4, false_and, or_self, if_false, ite_self]
      ring
    · have h0 : i ≠ 0 := by omega
      have h1' : i ≠ 1 := by omega
      have h3 : 0 ≠ i := by omega
      have h4 : ¬ (i + 2 < o.nr) := by omega
      rw [giveNode_last o x j h1 h2]
      simp only [recv_mk, recv_nil]
      rw [ite_l (i := i) (by omega)]
      simp only [sC, sL, sR, sB, sT, h0, h1', h2, h3, h4, false_and, or_self, or_true, if_false, if_true,
        ite_self]
      ring

/-- closed form of the scatter result at a target `(a, b)`: one giver per direction -/
theorem give_formula (hnr : 4 ≤ o.nr) (heven : o.nt % 2 = 0) (f : Field K) (a b : Nat)
    (ha : a < o.nr) (hb : b < o.nt) :
    give o f x a b = f a b -
      (sC o x a b + (if a + 1 < o.nr then sL o x (a + 1) b else 0)
        + (if a = 0 then sA o x (ja o b) else 0)
        + (if 0 < a then sR o x (a - 1) b else 0)
        + sB o x a (jp o b) + sT o x a (jm o b)) := by
  rw [give_eq_sum]
  congr 1
  have e : ∀ i ∈ range o.nr, ∑ j ∈ range o.nt, recv (giveNode o x i j) a b
      = ∑ j ∈ range o.nt, ((if a = i ∧ b = j then sC o x i j else 0)
      + (if a + 1 = i ∧ b = j then sL o x i j else 0)
      + (if 0 = i ∧ (a = 0 ∧ b = ja o j) then sA o x j else 0)
      + (if a = i + 1 ∧ b = j then sR o x i j else 0)
      + (if a = i ∧ b = jm o j then sB o x i j else 0)
      + (if a = i ∧ b = jp o j then sT o x i j else 0)) := by
    intro i hi
    apply Finset.sum_congr rfl
    intro j _
    exact recv_giveNode o x hnr i j a b (by simpa using hi)
  rw [Finset.sum_congr rfl e]
  simp only [Finset.sum_add_distrib]
  rw [sum_row o.nr o.nt a (fun j => b = j) (sC o x),
    sum_row o.nr o.nt (a + 1) (fun j => b = j) (sL o x),
    sum_row o.nr o.nt 0 (fun j => a = 0 ∧ b = ja o j) (fun _ j => sA o x j),
    sum_row_succ o.nr o.nt a (by omega) (fun j => b = j) (sR o x),
    sum_row o.nr o.nt a (fun j => b = jm o j) (sB o x),
    sum_row o.nr o.nt a (fun j => b = jp o j) (sT o x)]
  rw [if_pos ha, if_pos (by omega : 0 < o.nr), sum_ite_self hb, sum_ite_self hb, sum_ite_self hb,
    sum_ite_jm o hb, sum_ite_jp o hb]
  have hA : ∑ j ∈ range o.nt, (if a = 0 ∧ b = ja o j then sA o x j else 0)
      = if a = 0 then sA o x (ja o b) else 0 := by
    by_cases h0 : a = 0
    · simp only [h0, true_and, if_true]
      exact sum_ite_ja o heven hb _
    · simp [h0]
  rw [hA]
  simp only [ha, if_true]

end contrib
end Stencil
