import GMGProofs.Lemmas.DirectGiveCode4
import GMGProofs.Lemmas.DirectLemmas
/-!
# Code-level direct solver (give), lemmas 5 — the matrix stores of a node are the vector updates of `Stencil.giveNode`

* `blkC … blkD`: the stores of one block into row `(i, j)`, each multiplied with `x` at its column, add up to the value the
  corresponding update of `applyAGive` (`Stencil.fillC …`) subtracts from `result[(i, j)]`;
* `node_recv`: hence for every node `Σ_{stores into row (i,j)} value · x(column) = recv (giveNode o x a b) i j`;
* `nodeOrder_sum`: summing over the sequential node order = summing over the grid (any `nc`);
* `give_entries`: the assembled matrix has the operator's entries (through `give_eq_take'`, C03).
-/
set_option linter.unusedSectionVars false
set_option linter.unusedVariables false
set_option linter.unusedSimpArgs false
namespace DirectGiveCode
open Stencil SparseLU DirectCode Direct Finset
variable {K : Type} [_root_.Field K]

section
variable (o : Op K) (x : Stencil.Field K)

/-- what the stores of a list contribute to `(A x)(i, j)` -/
def contrib (i j : Nat) (l : List (MUpd K)) : K :=
  (l.map fun u => if (i, j) = u.1 then val u * x u.2.2.1.1 u.2.2.1.2 else 0).sum

theorem contrib_append (i j : Nat) (l l' : List (MUpd K)) :
    contrib x i j (l ++ l') = contrib x i j l + contrib x i j l' := by
  simp [contrib]

theorem contrib_nil (i j : Nat) : contrib x i j ([] : List (MUpd K)) = 0 := rfl

theorem h1_pos {a : Nat} (h : a ≠ 0) : SmootherCode.h1 o a = o.h (a - 1) := by
  unfold SmootherCode.h1; rw [if_neg h]

theorem h1_zero : SmootherCode.h1 o 0 = Scalar.n 2 * o.r0 := by
  unfold SmootherCode.h1; rw [if_pos rfl]

theorem blkC (a b : Nat) (l : Nat × Nat) (i j : Nat) (h : K) (hh : SmootherCode.h1 o a = h) :
    contrib x i j (fillC o a b l) = if i = a ∧ j = b then (Stencil.fillC o x a b h l.1 l.2).v else 0 := by
  subst hh
  simp only [contrib, fillC, List.map_cons, List.map_nil, List.sum_cons, List.sum_nil, Prod.mk.injEq, val]
  by_cases hc : i = a ∧ j = b
  · simp only [if_pos hc, Stencil.fillC, Stencil.coeffs, massValue, diagValue, SmootherCode.coeff1, SmootherCode.coeff2,
      SmootherCode.coeff3, SmootherCode.coeff4]
    ring
  · simp only [if_neg hc]; ring

theorem blkL (a b i j : Nat) (h : K) (hh : SmootherCode.h1 o a = h) :
    contrib x i j (fillL o a b) = if i = a - 1 ∧ j = b then (Stencil.fillL o x a b h).v else 0 := by
  subst hh
  simp only [contrib, fillL, List.map_cons, List.map_nil, List.sum_cons, List.sum_nil, Prod.mk.injEq, val]
  by_cases hc : i = a - 1 ∧ j = b
  · simp only [if_pos hc, Stencil.fillL, Stencil.coeffs, SmootherCode.coeff1]
    ring
  · simp only [if_neg hc]; ring

theorem blkR (a b i j : Nat) (h : K) :
    contrib x i j (fillR o a b) = if i = a + 1 ∧ j = b then (Stencil.fillR o x a b h).v else 0 := by
  simp only [contrib, fillR, List.map_cons, List.map_nil, List.sum_cons, List.sum_nil, Prod.mk.injEq, val]
  by_cases hc : i = a + 1 ∧ j = b
  · simp only [if_pos hc, Stencil.fillR, Stencil.coeffs, SmootherCode.coeff2]
    ring
  · simp only [if_neg hc]; ring

theorem blkB (a b i j : Nat) (h : K) (hh : SmootherCode.h1 o a = h) :
    contrib x i j (fillB o a b) = if i = a ∧ j = jm o b then (Stencil.fillB o x a b h).v else 0 := by
  subst hh
  simp only [contrib, fillB, List.map_cons, List.map_nil, List.sum_cons, List.sum_nil, Prod.mk.injEq, val]
  by_cases hc : i = a ∧ j = jm o b
  · simp only [if_pos hc, Stencil.fillB, Stencil.coeffs, SmootherCode.coeff3]
    ring
  · simp only [if_neg hc]; ring

theorem blkT (a b i j : Nat) (h : K) (hh : SmootherCode.h1 o a = h) :
    contrib x i j (fillT o a b) = if i = a ∧ j = jp o b then (Stencil.fillT o x a b h).v else 0 := by
  subst hh
  simp only [contrib, fillT, List.map_cons, List.map_nil, List.sum_cons, List.sum_nil, Prod.mk.injEq, val]
  by_cases hc : i = a ∧ j = jp o b
  · simp only [if_pos hc, Stencil.fillT, Stencil.coeffs, SmootherCode.coeff4]
    ring
  · simp only [if_neg hc]; ring

theorem blkLAcross (b i j : Nat) :
    contrib x i j (fillLAcross o b)
      = if i = 0 ∧ j = ja o b then (Stencil.fillLAcross o x b (Scalar.n 2 * o.r0)).v else 0 := by
  simp only [contrib, fillLAcross, List.map_cons, List.map_nil, List.sum_cons, List.sum_nil, Prod.mk.injEq, val]
  by_cases hc : i = 0 ∧ j = ja o b
  · simp only [if_pos hc, Stencil.fillLAcross, Stencil.coeffs, SmootherCode.coeff1, h1_zero]
    ring
  · simp only [if_neg hc]; ring

theorem blkBAcross (b i j : Nat) :
    contrib x i j (fillBAcross o b)
      = if i = 0 ∧ j = jm o b then (Stencil.fillBAcross o x b (Scalar.n 2 * o.r0)).v else 0 := by
  simp only [contrib, fillBAcross, List.map_cons, List.map_nil, List.sum_cons, List.sum_nil, Prod.mk.injEq, val]
  by_cases hc : i = 0 ∧ j = jm o b
  · simp only [if_pos hc, Stencil.fillBAcross, Stencil.coeffs, SmootherCode.coeff3, h1_zero]
    ring
  · simp only [if_neg hc]; ring

theorem blkTAcross (b i j : Nat) :
    contrib x i j (fillTAcross o b)
      = if i = 0 ∧ j = jp o b then (Stencil.fillTAcross o x b (Scalar.n 2 * o.r0)).v else 0 := by
  simp only [contrib, fillTAcross, List.map_cons, List.map_nil, List.sum_cons, List.sum_nil, Prod.mk.injEq, val]
  by_cases hc : i = 0 ∧ j = jp o b
  · simp only [if_pos hc, Stencil.fillTAcross, Stencil.coeffs, SmootherCode.coeff4, h1_zero]
    ring
  · simp only [if_neg hc]; ring

theorem blkD (a b i j : Nat) :
    contrib x i j (fillDirichlet (α := K) a b) = if i = a ∧ j = b then x a b else 0 := by
  simp only [contrib, fillDirichlet, List.map_cons, List.map_nil, List.sum_cons, List.sum_nil, Prod.mk.injEq, val,
    Scalar.n_one]
  by_cases hc : i = a ∧ j = b
  · simp only [if_pos hc]; ring
  · simp only [if_neg hc]; ring

/-- **the matrix stores of a node, applied to `x`, are the node's vector updates** -/
theorem node_recv (hnr : 4 ≤ o.nr) (a b i j : Nat) :
    contrib x i j (nodeUpdates o a b) = recv (giveNode o x a b) i j := by
  rcases classes o hnr a with h | rfl | rfl | ⟨h1, h2⟩ | ⟨h1, h2⟩ | h
  · have h0 : a ≠ 0 := by omega
    rw [nodeUpdates_int o b h, giveNode_int o x b h]
    simp only [contrib_append, recv_mk, recv_nil, blkC o x a b _ i j _ (h1_pos o h0), blkL o x a b i j _ (h1_pos o h0),
      blkR o x a b i j (o.h (a - 1)), blkB o x a b i j _ (h1_pos o h0), blkT o x a b i j _ (h1_pos o h0)]
    ring
  · by_cases hbc : o.bc = true
    · rw [nodeUpdates_zero_bc o b hnr hbc, giveNode_zero_bc o x b hnr hbc]
      simp only [contrib_append, recv_mk, recv_nil, blkD, blkR o x 0 b i j (Scalar.n 0)]
      ring
    · rw [nodeUpdates_zero_across o b hnr (by simpa using hbc), giveNode_zero_across o x b hnr hbc]
      simp only [contrib_append, recv_mk, recv_nil, blkC o x 0 b _ i j _ (h1_zero o), blkLAcross, blkBAcross, blkTAcross,
        blkR o x 0 b i j (Scalar.n 2 * o.r0)]
      ring
  · have h0 : (1 : Nat) ≠ 0 := by omega
    by_cases hbc : o.bc = true
    · rw [nodeUpdates_one_bc o b hnr hbc, giveNode_one_bc o x b hnr hbc]
      simp only [contrib_append, recv_mk, recv_nil, blkC o x 1 b _ i j _ (h1_pos o h0),
        blkR o x 1 b i j (o.h (1 - 1)), blkB o x 1 b i j _ (h1_pos o h0), blkT o x 1 b i j _ (h1_pos o h0)]
      ring
    · rw [nodeUpdates_one_across o b hnr (by simpa using hbc), giveNode_one_across o x b hnr hbc]
      simp only [contrib_append, recv_mk, recv_nil, blkC o x 1 b _ i j _ (h1_pos o h0), blkL o x 1 b i j _ (h1_pos o h0),
        blkR o x 1 b i j (o.h (1 - 1)), blkB o x 1 b i j _ (h1_pos o h0), blkT o x 1 b i j _ (h1_pos o h0)]
      ring
  · have h0 : a ≠ 0 := by omega
    rw [nodeUpdates_penult o b h1 h2, giveNode_penult o x b h1 h2]
    simp only [contrib_append, recv_mk, recv_nil, blkC o x a b _ i j _ (h1_pos o h0), blkL o x a b i j _ (h1_pos o h0),
      blkB o x a b i j _ (h1_pos o h0), blkT o x a b i j _ (h1_pos o h0)]
    ring
  · have h0 : a ≠ 0 := by omega
    rw [nodeUpdates_last o b h1 h2, giveNode_last o x b h1 h2]
    simp only [contrib_append, recv_mk, recv_nil, blkD, blkL o x a b i j _ (h1_pos o h0)]
    ring
  · rw [nodeUpdates_out o b hnr h]
    have : giveNode o x a b = [] := by
      unfold giveNode
      rw [if_neg (by omega), if_neg (by omega), if_neg (by omega), if_neg (by omega), if_neg (by omega)]
    rw [this]; rfl

/-- summing over the sequential node order (circle sections, then radial sections) is summing over the grid -/
theorem nodeOrder_sum (nc : Nat) (G : Nat → Nat → K) (hG : ∀ a b, o.nr ≤ a → G a b = 0) :
    ((nodeOrder o nc).map fun p => G p.1 p.2).sum = ∑ a ∈ range o.nr, ∑ b ∈ range o.nt, G a b := by
  unfold nodeOrder
  rw [List.map_append, List.sum_append, sum_map_flatMap, sum_map_flatMap, list_range_sum, list_range_sum]
  have e1 : ∀ a, (((List.range o.nt).map fun b => (a, b)).map fun p => G p.1 p.2).sum = ∑ b ∈ range o.nt, G a b := by
    intro a; rw [List.map_map, list_range_sum]; rfl
  have e2 : ∀ b, (((List.range (o.nr - nc)).map fun t => (nc + t, b)).map fun p => G p.1 p.2).sum
      = ∑ t ∈ range (o.nr - nc), G (nc + t) b := by
    intro b; rw [List.map_map, list_range_sum]; rfl
  simp only [e1, e2]
  rw [Finset.sum_comm (s := range o.nt)]
  rcases Nat.le_total nc o.nr with h | h
  · have : o.nr = nc + (o.nr - nc) := by omega
    conv_rhs => rw [this, Finset.sum_range_add]
  · have h0 : o.nr - nc = 0 := by omega
    rw [h0, Finset.range_zero, Finset.sum_empty, add_zero]
    have : nc = o.nr + (nc - o.nr) := by omega
    rw [this, Finset.sum_range_add]
    have hz : ∑ t ∈ range (nc - o.nr), ∑ b ∈ range o.nt, G (o.nr + t) b = 0 := by
      apply Finset.sum_eq_zero; intro t _
      apply Finset.sum_eq_zero; intro b _
      exact hG _ _ (by omega)
    rw [hz, add_zero]

end

section
variable (T : Tables) (o : Op K)

/-- **the matrix assembled by the scatter code has exactly the operator's entries** -/
theorem give_entries (hT : GoodTables T) (hnr : 4 ≤ o.nr) (hnt : 4 ≤ o.nt) (heven : o.nt % 2 = 0)
    (hk : o.bc = false → ∀ j, j < o.nt → o.k (ja o j) = o.k j) (nc : Nat)
    (M : CSR K) (hM : assemble T o nc = some M) {i j s t : Nat} (hi : i < o.nr) (hj : j < o.nt) (ht : t < o.nt) :
    toDense M (i * o.nt + j) (s * o.nt + t) = opEntry o i j s t := by
  rw [toDense_give T o hT hnr hnt heven nc M hM hi hj]
  -- every store as a contribution to `(A x)(i, j)` with `x` the unit field of `(s, t)`
  have step1 : ((allUpdates o nc).map fun u =>
        if rowIdx o u = i * o.nt + j ∧ colIdx o u = s * o.nt + t then val u else 0).sum
      = contrib (oneHot s t) i j (allUpdates o nc) := by
    unfold contrib
    apply congrArg
    apply List.map_congr_left
    intro u hu
    have hin := allUpdates_inb o hnr nc u hu
    have hc := allUpdates_cons o hnr (fun _ => heven) nc u hu
    by_cases hr : (i, j) = u.1
    · have hr' : rowIdx o u = i * o.nt + j := by unfold rowIdx; rw [← hr]
      rw [if_pos hr]
      by_cases hcol : colIdx o u = s * o.nt + t
      · have := idx_inj hc.2 ht (by unfold colIdx at hcol; exact hcol)
        rw [if_pos ⟨hr', hcol⟩]
        unfold oneHot
        rw [if_pos this, mul_one]
      · rw [if_neg (fun h => hcol h.2)]
        unfold oneHot
        rw [if_neg (fun h => hcol (by unfold colIdx; rw [h.1, h.2])), mul_zero]
    · rw [if_neg hr, if_neg]
      rintro ⟨h1, _⟩
      apply hr
      have := idx_inj hin.2.1 hj (by unfold rowIdx at h1; exact h1)
      exact Prod.ext this.1.symm this.2.symm
  rw [step1]
  -- node by node
  have step2 : contrib (oneHot s t) i j (allUpdates o nc)
      = ((nodeOrder o nc).map fun p => recv (giveNode o (oneHot s t) p.1 p.2) i j).sum := by
    unfold contrib allUpdates
    rw [sum_map_flatMap]
    apply congrArg
    apply List.map_congr_left
    intro p _
    exact node_recv o (oneHot s t) hnr p.1 p.2 i j
  rw [step2, nodeOrder_sum o nc (fun a b => recv (giveNode o (oneHot s t) a b) i j) (by
    intro a b ha
    have : giveNode o (oneHot s t) a b = [] := by
      unfold giveNode
      rw [if_neg (by omega), if_neg (by omega), if_neg (by omega), if_neg (by omega), if_neg (by omega)]
    simp only [this]; rfl)]
  -- scatter = gather
  have hg := give_eq_sum o (fun _ _ => (0 : K)) (oneHot s t) i j
  rw [give_eq_take' o (fun _ _ => 0) (oneHot s t) hnr (by omega) heven hk i j hi hj] at hg
  unfold opEntry A
  rw [hg]
  ring

end
end DirectGiveCode
