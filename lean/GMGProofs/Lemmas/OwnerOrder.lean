import GMGProofs.Lemmas.SchedOrder
import GMGProofs.Lemmas.OwnerLemmas
/-!
# Order independence of the work items of an owner-computes region (C12, second part)

Locations are `(array, row, column)`; the footprint of iteration `t` of loop `l` is `l.touches s t` (reads and writes
alike, the model does not distinguish them).  `RaceFree` gives pairwise `NonInterfering` footprints, hence (frame lemma
`commute_of_disjoint` + `perm_invariant_pairwise`) every order of the work items gives the same memory.
-/
namespace Owner.Order
open Sched (Shape)
open Sched.Order

/-- footprint of iteration `t` of loop `l`, on locations `(array, row, column)` -/
def fp (s : Shape) (l : OLoop) (t : Int) : String × Int × Int → Prop := fun x => l.touches s t x.1 x.2.1 x.2.2

/-- disjoint footprints (as `RaceFree` states them) are non-interfering, reads = writes = footprint -/
theorem nonInterfering_of_disjoint {s : Shape} {l l' : OLoop} {t t' : Int}
    (h : ∀ a r c, ¬ (l.touches s t a r c ∧ l'.touches s t' a r c)) :
    NonInterfering (fp s l t) (fp s l t) (fp s l' t') (fp s l' t') := by
  constructor
  · rintro ⟨a, r, c⟩ hw hor
    exact h a r c ⟨hw, hor.elim id id⟩
  · rintro ⟨a, r, c⟩ hw hor
    exact h a r c ⟨hor.elim id id, hw⟩

/-- two distinct work items `(ia, t) ≠ (ib, t')` of a race-free region, whose loop positions are equal or not separated
    by a barrier, have non-interfering footprints -/
theorem nonInterfering_of_raceFree {s : Shape} {reg : ORegion} (hrf : RaceFree s reg) {ia ib : Nat} {t t' : Int}
    (hia : ia < reg.loops.length)
    (hpair : ia < ib → (ia, ib) ∈ pairs reg) (hpair' : ib < ia → (ib, ia) ∈ pairs reg)
    (ht : (reg.loops.getD ia default).iter s t) (ht' : (reg.loops.getD ib default).iter s t')
    (hne : (ia, t) ≠ (ib, t')) :
    NonInterfering (fp s (reg.loops.getD ia default) t) (fp s (reg.loops.getD ia default) t)
      (fp s (reg.loops.getD ib default) t') (fp s (reg.loops.getD ib default) t') := by
  rcases Nat.lt_trichotomy ia ib with hlt | heq | hgt
  · exact nonInterfering_of_disjoint (hrf.2 (ia, ib) (hpair hlt) t t' ht ht')
  · subst heq
    have hmem : reg.loops.getD ia default ∈ reg.loops := by
      rw [List.getD_eq_getElem?_getD, List.getElem?_eq_getElem hia]; exact List.getElem_mem hia
    have htt : t ≠ t' := fun e => hne (by rw [e])
    exact nonInterfering_of_disjoint (hrf.1 _ hmem t t' ht ht' htt)
  · exact (nonInterfering_of_disjoint (hrf.2 (ib, ia) (hpair' hgt) t' t ht' ht)).symm

/-- a race-free owner-computes region: a set `I` of loop positions that are pairwise not separated by a barrier; if the
    code of every iteration respects its footprint, every order of the work items `(loop position, iteration)` gives the
    same memory -/
theorem deterministic_of_raceFree {V : Type} {s : Shape} {reg : ORegion} (hrf : RaceFree s reg)
    (I : List Nat) (hI : ∀ ia ∈ I, ∀ ib ∈ I, ia < ib → (ia, ib) ∈ pairs reg)
    (run : Nat → Int → (String × Int × Int → V) → (String × Int × Int → V))
    (hrun : ∀ ia ∈ I, ∀ t, (reg.loops.getD ia default).iter s t →
      Respects (run ia t) (fp s (reg.loops.getD ia default) t) (fp s (reg.loops.getD ia default) t))
    (items items' : List (Nat × Int)) (hnd : items.Nodup)
    (hmem : ∀ p ∈ items, p.1 ∈ I ∧ p.1 < reg.loops.length ∧ (reg.loops.getD p.1 default).iter s p.2)
    (hp : items.Perm items') (m : String × Int × Int → V) :
    items.foldl (fun acc p => run p.1 p.2 acc) m = items'.foldl (fun acc p => run p.1 p.2 acc) m := by
  refine perm_invariant_pairwise (fun p => run p.1 p.2) items items' hp ?_ m
  refine List.Pairwise.imp_of_mem ?_ hnd
  rintro ⟨ia, t⟩ ⟨ib, t'⟩ hp hq hpq x
  obtain ⟨hia, hlen, ht⟩ := hmem _ hp
  obtain ⟨hib, _, ht'⟩ := hmem _ hq
  exact commute_of_disjoint (hrun ia hia t ht) (hrun ib hib t' ht')
    (nonInterfering_of_raceFree hrf hlen (hI ia hia ib hib) (hI ib hib ia hia) ht ht' hpq) x

/-- "paint" task: write the constant `v` to the cells of `W`, leave everything else — respects `W` (for any `R`) -/
theorem respects_paint {Loc V : Type} (W : Loc → Prop) [DecidablePred W] (R : Loc → Prop) (v : V) :
    Respects (fun (m : Loc → V) x => if W x then v else m x) R W :=
  ⟨fun _ _ hx => if_neg hx, fun _ _ _ _ hx => by simp only [if_pos hx]⟩

end Owner.Order
