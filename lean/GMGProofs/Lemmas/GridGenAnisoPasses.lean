import GMGProofs.Lemmas.GridGenAnisoPass
/-!
# `anisoDivision`: all refinement passes; the grouped writes
-/
namespace GridGenL
open GridGen

theorem passes_succ (ud : Rat) (aniso : Nat) (st et : Int) (fuel : Nat) (half : Rat) (p1 : List Rat) (count : Int)
    (rset : List Rat) :
    passes ud aniso st et (fuel + 1) half p1 count rset
      = refinePass half (decide (aniso - (fuel + 1) + 1 < aniso)) st et p1 count rset >>= fun x =>
          match x with
          | (rs, tmp, cnt) => passes ud aniso st et fuel (half / 2) tmp cnt rs := rfl

theorem passes_zero_count (ud : Rat) (aniso : Nat) (st et : Int) :
    ∀ (fuel : Nat) (half : Rat) (p1 rset : List Rat), passes ud aniso st et fuel half p1 0 rset = .ok rset := by
  intro fuel
  induction fuel with
  | zero => intro half p1 rset; rfl
  | succ f ih =>
    intro half p1 rset
    rw [passes_succ, refinePass_zero, ok_bind]
    exact ih _ _ _

theorem keptN_full (st et m : Nat) (hst : st ≤ et) (het : et + 1 ≤ m) : keptN true st et (m - 1) = et - st := by
  simp only [keptN, if_true]; omega

/-- the self-reproducing case `2 (et - st) = m`: every pass sees `m` entries and inserts `m - 1` new radii -/
theorem passes_specA (ud c : Rat) (aniso st et m : Nat) (hst : st ≤ et) (het : et + 1 ≤ m) (hm : 2 * (et - st) = m) :
    ∀ (fuel : Nat), fuel ≤ aniso → ∀ (half s : Rat) (rset : List Rat), 0 < half → Lat c (2 * half) s →
      (∀ y ∈ rset, Lat c (2 * half) y) →
      ∃ rs', passes ud aniso (st : Int) (et : Int) fuel half (ap s (2 * half) m) (m : Int) rset = .ok rs'
        ∧ rs'.length = rset.length + fuel * (m - 1) := by
  intro fuel
  induction fuel with
  | zero => intro _ half s rset _ _ _; exact ⟨rset, rfl, by simp⟩
  | succ f ih =>
    intro hf half s rset hh hs hlat
    obtain ⟨rs1, h1, hlen, hl1⟩ := refinePass_spec half s c (decide (aniso - (f + 1) + 1 < aniso)) st et m rset
      hh hs hst het hlat
    rw [passes_succ, h1, ok_bind]
    simp only
    rcases Nat.eq_zero_or_pos f with rfl | hfpos
    · exact ⟨rs1, rfl, by rw [hlen]; simp⟩
    · have hk : decide (aniso - (f + 1) + 1 < aniso) = true := by
        rw [decide_eq_true_eq]; omega
      rw [hk, keptN_full st et m hst het, hm]
      have e : half = 2 * (half / 2) := by ring
      have hs' : Lat c (2 * (half / 2)) (s + (st : Rat) * (2 * half)) := by
        rw [← e]
        obtain ⟨z, hz⟩ := hs
        exact ⟨2 * z + 2 * st, by rw [hz]; push_cast; ring⟩
      obtain ⟨rs2, h2, hlen2⟩ := ih (by omega) (half / 2) (s + (st : Rat) * (2 * half)) rs1 (by linarith) hs'
        (by rw [← e]; exact hl1)
      rw [← e] at h2
      refine ⟨rs2, h2, ?_⟩
      rw [hlen2, hlen, Nat.succ_mul]; omega

/-- the degenerate case `st = et` (window of two radii): one pass inserts, the others see an empty set -/
theorem passes_specB (ud c : Rat) (aniso st m : Nat) (het : st + 1 ≤ m) (fuel : Nat) (hf : 1 ≤ fuel)
    (half s : Rat) (rset : List Rat) (hh : 0 < half) (hs : Lat c (2 * half) s)
    (hlat : ∀ y ∈ rset, Lat c (2 * half) y) :
    ∃ rs', passes ud aniso (st : Int) (st : Int) fuel half (ap s (2 * half) m) (m : Int) rset = .ok rs'
      ∧ rs'.length = rset.length + (m - 1) := by
  obtain ⟨f, rfl⟩ : ∃ f, fuel = f + 1 := ⟨fuel - 1, by omega⟩
  obtain ⟨rs1, h1, hlen, _⟩ := refinePass_spec half s c (decide (aniso - (f + 1) + 1 < aniso)) st st m rset
    hh hs (le_refl _) het hlat
  have hk : ∀ keep, keptN keep st st (m - 1) = 0 := by
    intro keep; unfold keptN; split <;> omega
  rw [passes_succ, h1, ok_bind]
  simp only [hk]
  exact ⟨rs1, passes_zero_count _ _ _ _ _ _ _ _, hlen⟩

/-! ## the grouped writes -/

theorem wr_ok (o : List Rat) (i : Int) (v : Rat) (h0 : 0 ≤ i) (h1 : i < o.length) :
    ∃ o', An.wr o i v = .ok o' ∧ o'.length = o.length := by
  unfold An.wr
  rw [if_pos ⟨h0, h1⟩]
  exact ⟨_, rfl, by simp⟩

theorem write1_ok (s h : Rat) (N n : Nat) (o0 : List Rat) (hn : n ≤ N) (ho : n ≤ o0.length) :
    ∃ o, An.write1 (ap s h N) n o0 = .ok o ∧ o.length = o0.length := by
  exact foldl_range_inv (σ := List Rat) _
    (fun i o => rd (ap s h N) (i : Int) "r_temp2" >>= fun v => An.wr o (i : Int) v)
    (fun _ _ => rfl) (fun _ o => o.length = o0.length) n o0 rfl (by
      intro i hi o hlen
      rw [rd_ap _ _ _ _ _ (by omega) (by omega), ok_bind]
      obtain ⟨o', h1, h2⟩ := wr_ok o (i : Int) (s + ((i : Int) : Rat) * h) (by omega) (by omega)
      exact ⟨o', h1, by omega⟩)

theorem write2_ok (se : Int) (rset o1 : List Rat) (h0 : 0 ≤ se) (h1 : se + rset.length ≤ o1.length) :
    ∃ o, An.write2 se rset o1 = .ok o ∧ o.length = o1.length := by
  exact foldl_range_inv (σ := List Rat) _
    (fun i o => An.wr o (se + (i : Int)) (rset.getD i 0))
    (fun _ _ => rfl) (fun _ o => o.length = o1.length) rset.length o1 rfl (by
      intro i hi o hlen
      obtain ⟨o', h1, h2⟩ := wr_ok o (se + (i : Int)) (rset.getD i 0) (by omega) (by omega)
      exact ⟨o', h1, by omega⟩)

theorem write3_ok (s h : Rat) (N : Nat) (se ee : Int) (len n : Nat) (o2 : List Rat) (h0 : 0 ≤ se) (he : 0 ≤ ee)
    (hr : ee + n ≤ N) (hw : se + len + n ≤ o2.length) :
    ∃ o, An.write3 (ap s h N) se ee len n o2 = .ok o ∧ o.length = o2.length := by
  exact foldl_range_inv (σ := List Rat) _
    (fun i o => rd (ap s h N) (ee + (i : Int)) "r_temp2" >>= fun v => An.wr o (se + (len : Int) + (i : Int)) v)
    (fun _ _ => rfl) (fun _ o => o.length = o2.length) n o2 rfl (by
      intro i hi o hlen
      rw [rd_ap _ _ _ _ _ (by omega) (by omega), ok_bind]
      obtain ⟨o', h1, h2⟩ := wr_ok o (se + (len : Int) + (i : Int)) (s + ((ee + (i : Int) : Int) : Rat) * h)
        (by omega) (by omega)
      exact ⟨o', h1, by omega⟩)

end GridGenL
