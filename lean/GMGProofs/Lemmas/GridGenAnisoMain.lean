import GMGProofs.Lemmas.GridGenAnisoPasses
/-!
# `anisoDivision`: window arithmetic, the `std::advance` count, assembly
-/
namespace GridGenL
open GridGen

theorem ceil_eq_of (x : Rat) (z : Int) (h1 : (z : Rat) - 1 < x) (h2 : x ≤ z) : x.ceil = z := by
  apply le_antisymm
  · exact Rat.ceil_le_iff.mpr h2
  · have : z - 1 < x.ceil := Rat.lt_ceil_iff.mpr (by push_cast; exact h1)
    omega

theorem floor_eq_of (x : Rat) (z : Int) (h1 : (z : Rat) ≤ x) (h2 : x < z + 1) : x.floor = z := by
  apply le_antisymm
  · have : x.floor < z + 1 := Rat.floor_lt_iff.mpr (by push_cast; exact h2)
    omega
  · exact Rat.le_floor_iff.mpr h1

theorem int_two_pow (b : Nat) : (2 : Int) ^ b = ((2 ^ b : Nat) : Int) := by push_cast; rfl

theorem int_two_pow_toNat (b : Nat) : ((2 : Int) ^ b).toNat = 2 ^ b := by
  rw [int_two_pow, Int.toNat_natCast]

namespace An

theorem st_two : st ((2 : Int) ^ 1) = ((1 : Nat) : Int) := by
  unfold st ceilRat
  rw [ceil_eq_of _ 2] <;> norm_num

theorem et_two : et ((2 : Int) ^ 1) = ((1 : Nat) : Int) := by
  unfold et floorRat
  rw [floor_eq_of _ 1] <;> norm_num

theorem st_pow (j : Nat) : st ((2 : Int) ^ (j + 2)) = ((2 ^ j : Nat) : Int) := by
  unfold st ceilRat
  have : (((2 : Int) ^ (j + 2) : Int) : Rat) / 4 = (((2 : Int) ^ j : Int) : Rat) := by push_cast; ring
  rw [this, Rat.ceil_add_one, Rat.ceil_intCast]; push_cast; ring

theorem et_pow (j : Nat) : et ((2 : Int) ^ (j + 2)) = ((3 * 2 ^ j : Nat) : Int) := by
  unfold et floorRat
  have : 3 * ((((2 : Int) ^ (j + 2) : Int) : Rat) / 4) = ((3 * (2 : Int) ^ j : Int) : Rat) := by push_cast; ring
  rw [this, Rat.floor_intCast]; push_cast; ring

theorem se_eq (a : AnisoIn) (nRef : Int) : se a nRef = max (fl a - nRef / 2) 0 := by
  unfold se
  simp only [clampLow, true_and]
  split <;> omega

theorem nEqui_bounds (a : AnisoIn) :
    (2 : Int) ^ a.nrExp.toNat - (2 : Int) ^ A a ≤ nEqui a ∧ nEqui a ≤ (2 : Int) ^ a.nrExp.toNat - (2 : Int) ^ A a + 1 := by
  unfold nEqui; split <;> omega

theorem r2_eq (a : AnisoIn) (hn : 1 ≤ nEqui a) : r2 a = ap a.R0 (ud a) (nr a).toNat := by
  have h1 : (nr a).toNat = (nEqui a).toNat + 1 := by unfold nr; omega
  have hc : (((nEqui a).toNat : Nat) : Rat) = ((nEqui a : Int) : Rat) := by
    have : (((nEqui a).toNat : Nat) : Int) = nEqui a := Int.toNat_of_nonneg (by omega)
    exact_mod_cast congrArg (fun z : Int => (z : Rat)) this
  have hne : ((nEqui a : Int) : Rat) ≠ 0 := by
    have : (0 : Int) < nEqui a := by omega
    have : (0 : Rat) < ((nEqui a : Int) : Rat) := by exact_mod_cast this
    exact ne_of_gt this
  unfold r2
  rw [h1, Nat.add_sub_cancel, ap_succ, hc]
  have e : a.R0 + ((nEqui a : Int) : Rat) * ud a = a.R := by
    unfold ud; field_simp; ring
  rw [e]
  rfl

theorem ud_pos (a : AnisoIn) (hn : 1 ≤ nEqui a) (hR : a.R0 < a.R) : 0 < ud a := by
  unfold ud
  apply div_pos (by linarith)
  have : (0 : Int) < nEqui a := by omega
  exact_mod_cast this

theorem fl_bounds (a : AnisoIn) (hP : 0 ≤ P a) (hnr : 1 ≤ nr a) : 0 ≤ fl a ∧ fl a ≤ nr a - 1 := by
  have h0 : (0 : Int) ≤ floorRat ((nr a : Rat) * P a) := by
    unfold floorRat
    rw [Rat.le_floor_iff]
    have : (0 : Rat) ≤ ((nr a : Int) : Rat) := by exact_mod_cast (by omega : (0 : Int) ≤ nr a)
    push_cast
    exact mul_nonneg this hP
  unfold fl
  omega

/-- (i) the refinement window `[se, se + nRef)` lies inside the `nr` radii and `nRef` is a power of two `≥ 2` -/
theorem window (a : AnisoIn) (hA : 1 ≤ A a) (hpow : (2 : Int) ^ A a < (2 : Int) ^ a.nrExp.toNat) (hP : 0 ≤ P a) :
    ∃ b, 1 ≤ b ∧ nRefO a = .ok ((2 : Int) ^ b) ∧ 0 ≤ se a ((2 : Int) ^ b)
      ∧ se a ((2 : Int) ^ b) + (2 : Int) ^ b ≤ nr a := by
  have hlt : A a < a.nrExp.toNat := by
    have : (2 : Nat) ^ A a < 2 ^ a.nrExp.toNat := by
      rw [int_two_pow, int_two_pow] at hpow; exact_mod_cast hpow
    exact (Nat.pow_lt_pow_iff_right (by decide)).mp this
  have h2 : (2 : Int) ^ (A a + 1) ≤ (2 : Int) ^ a.nrExp.toNat := by
    rw [int_two_pow, int_two_pow]
    exact_mod_cast Nat.pow_le_pow_right (by decide) (by omega : A a + 1 ≤ a.nrExp.toNat)
  obtain ⟨k, hk⟩ : ∃ k, A a = k + 1 := ⟨A a - 1, by omega⟩
  have hX : (0 : Int) < (2 : Int) ^ k := by positivity
  have hA2 : (2 : Int) ^ A a = 2 * (2 : Int) ^ k := by rw [hk, pow_succ]; ring
  have hA3 : (2 : Int) ^ (A a + 1) = 4 * (2 : Int) ^ k := by rw [pow_succ, hA2]; ring
  have hb := nEqui_bounds a
  have hnr : nr a = nEqui a + 1 := rfl
  have hfl := fl_bounds a hP (by omega)
  by_cases hs : fl a > nr a - (2 : Int) ^ A a / 2
  · -- the shrunken window
    have hpos : ¬ nr a - fl a ≤ 0 := by omega
    obtain ⟨m, hm⟩ : ∃ m : Nat, nr a - fl a = (m : Int) := ⟨(nr a - fl a).toNat, by omega⟩
    have hm0 : m ≠ 0 := by omega
    have hl1 := Nat.log2_self_le hm0
    have hl2 := Nat.lt_log2_self (n := m)
    refine ⟨m.log2 + 1, by omega, ?_, ?_, ?_⟩
    · unfold nRefO log2floor
      rw [if_pos hs, if_neg hpos, hm, Int.toNat_natCast]
    all_goals
      rw [se_eq]
      have e1 : (2 : Int) ^ (m.log2 + 1) = 2 * ((2 ^ m.log2 : Nat) : Int) := by
        rw [pow_succ, int_two_pow]; ring
      have hl1' : ((2 ^ m.log2 : Nat) : Int) ≤ (m : Int) := by exact_mod_cast hl1
      rw [e1]
      generalize ((2 ^ m.log2 : Nat) : Int) = Y at *
      generalize (2 : Int) ^ k = X at *
      omega
  · refine ⟨A a, hA, ?_, ?_, ?_⟩
    · unfold nRefO; rw [if_neg hs]
    all_goals
      rw [se_eq]
      generalize (2 : Int) ^ k = X at *
      omega

/-- (iv) `nr + |r_set|` is never a multiple of 8, so `std::advance` gets a non-negative count -/
theorem nr2_mod8 (Av n b : Nat) (hA : 1 ≤ Av) (hn : Av < n) (nrv : Int)
    (hnr : nrv = (if Av % 2 = 1 then (2 : Int) ^ n - (2 : Int) ^ Av + 1 else (2 : Int) ^ n - (2 : Int) ^ Av) + 1)
    (len : Nat) (hlen : (b = 1 ∧ len = 1) ∨ (2 ≤ b ∧ len = Av * (2 ^ b - 1))) : (nrv + (len : Int)) % 8 ≠ 0 := by
  obtain ⟨k, rfl⟩ : ∃ k, Av = k + 1 := ⟨Av - 1, by omega⟩
  obtain ⟨q, rfl⟩ : ∃ q, n = q + 1 := ⟨n - 1, by omega⟩
  have hA2 : (2 : Int) ^ (k + 1) = 2 * (2 : Int) ^ k := by rw [pow_succ]; ring
  have hn2 : (2 : Int) ^ (q + 1) = 2 * (2 : Int) ^ q := by rw [pow_succ]; ring
  by_cases hodd : (k + 1) % 2 = 1
  · rw [if_pos hodd] at hnr
    have hl : len % 2 = 1 := by
      rcases hlen with ⟨_, h⟩ | ⟨hb, h⟩
      · omega
      · obtain ⟨c, rfl⟩ : ∃ c, b = c + 1 := ⟨b - 1, by omega⟩
        have hc : 0 < 2 ^ c := Nat.pos_of_ne_zero (by positivity)
        have : (2 ^ (c + 1) - 1) % 2 = 1 := by rw [Nat.pow_succ]; omega
        rw [h, Nat.mul_mod, hodd, this]
    generalize (2 : Int) ^ k = X at *
    generalize (2 : Int) ^ q = Y at *
    omega
  · rw [if_neg hodd] at hnr
    rcases hlen with ⟨_, h⟩ | ⟨hb, h⟩
    · -- two radii in the window: one inserted radius
      obtain ⟨k', rfl⟩ : ∃ k', k = k' + 1 := ⟨k - 1, by omega⟩
      obtain ⟨q', rfl⟩ : ∃ q', q = q' + 2 := ⟨q - 2, by omega⟩
      have hA4 : (2 : Int) ^ (k' + 1) = 2 * (2 : Int) ^ k' := by rw [pow_succ]; ring
      have hn4 : (2 : Int) ^ (q' + 2) = 4 * (2 : Int) ^ q' := by rw [pow_succ, pow_succ]; ring
      rw [hA2, hn2, hA4, hn4] at hnr
      generalize (2 : Int) ^ k' = X at *
      generalize (2 : Int) ^ q' = Y at *
      omega
    · have hl : len % 2 = 0 := by
        have : (k + 1) % 2 = 0 := by omega
        rw [h, Nat.mul_mod, this]; simp
      generalize (2 : Int) ^ k = X at *
      generalize (2 : Int) ^ q = Y at *
      omega

theorem tail3_ok (a : AnisoIn) (nRef : Int) (rset : List Rat) (hr2 : r2 a = ap a.R0 (ud a) (nr a).toNat)
    (hse : 0 ≤ se a nRef) (hee : se a nRef + nRef ≤ nr a) (hnRef : 0 ≤ nRef) : ∃ t, tail3 a nRef rset = .ok t := by
  have hnr : nr a = nEqui a + 1 := rfl
  unfold tail3
  rw [if_neg (by omega), hr2]
  obtain ⟨o1, h1, l1⟩ := write1_ok a.R0 (ud a) (nr a).toNat (se a nRef).toNat
    (List.replicate (nEqui a - nRef + rset.length + 1).toNat 0) (by omega) (by rw [List.length_replicate]; omega)
  rw [List.length_replicate] at l1
  rw [h1, ok_bind]
  obtain ⟨o2, h2, l2⟩ := write2_ok (se a nRef) rset o1 hse (by omega)
  rw [h2, ok_bind]
  obtain ⟨o3, h3, _⟩ := write3_ok a.R0 (ud a) (nr a).toNat (se a nRef) (se a nRef + nRef) rset.length
    (nEqui a - (se a nRef + nRef) + 1).toNat o2 hse (by omega) (by omega) (by omega)
  exact ⟨o3, h3⟩

theorem tail2_ok (a : AnisoIn) (nRef : Int) (rset : List Rat) (hr2 : r2 a = ap a.R0 (ud a) (nr a).toNat)
    (hse : 0 ≤ se a nRef) (hee : se a nRef + nRef ≤ nr a) (hnRef : 0 ≤ nRef)
    (hmod : (nr a + (rset.length : Int)) % 8 ≠ 0) : ∃ t, tail2 a nRef rset = .ok t := by
  unfold tail2
  rw [if_neg (by omega), hr2]
  obtain ⟨l, hl⟩ := readFold_ok a.R0 (ud a) (nr a).toNat (se a nRef) nRef.toNat
    (rset.drop (min ((nr a + rset.length) % 8 - 1) (rset.length : Int)).toNat) hse (by omega)
  rw [hl, ok_bind]
  exact tail3_ok a nRef l hr2 hse hee hnRef

/-- the routine completes for every admissible input with a non-zero anisotropy exponent -/
theorem aniso_ok (a : AnisoIn) (hR : a.R0 < a.R) (hP : 0 ≤ P a ∧ P a ≤ 1) (hA : 1 ≤ a.aniso)
    (hpow : (2 : Int) ^ a.aniso.toNat < (2 : Int) ^ a.nrExp.toNat) : ∃ t, anisoDivision a = .ok t := by
  have hA' : 1 ≤ A a := by unfold A; omega
  have hpow' : (2 : Int) ^ A a < (2 : Int) ^ a.nrExp.toNat := hpow
  rw [anisoDivision_eq, if_neg (fun h => h.2 hP), if_neg (by
    rintro (h | h | h)
    · omega
    · omega
    · have : a.nrExp.toNat = 0 := by omega
      rw [this] at hpow
      have : (0 : Int) < (2 : Int) ^ a.aniso.toNat := by positivity
      omega)]
  obtain ⟨b, hb, hO, hse, hee⟩ := window a hA' hpow' hP.1
  have hnE := nEqui_bounds a
  have hn1 : 1 ≤ nEqui a := by omega
  have hr2 := r2_eq a hn1
  have hud := ud_pos a hn1 hR
  have hlt : A a < a.nrExp.toNat := by
    have : (2 : Nat) ^ A a < 2 ^ a.nrExp.toNat := by
      rw [int_two_pow, int_two_pow] at hpow'; exact_mod_cast hpow'
    exact (Nat.pow_lt_pow_iff_right (by decide)).mp this
  have hnRef : (0 : Int) ≤ (2 : Int) ^ b := by positivity
  rw [hO, ok_bind]
  unfold body
  have hcast : (((2 ^ b : Nat) : Int)) = (2 : Int) ^ b := (int_two_pow b).symm
  rw [hr2, int_two_pow_toNat, readFold_nil a.R0 (ud a) (nr a).toNat _ (2 ^ b) hud hse (by omega), ok_bind]
  have e : ud a = 2 * (ud a / 2) := by ring
  have hh : 0 < ud a / 2 := by linarith
  have hp1 : ap (a.R0 + ((se a ((2 : Int) ^ b) : Int) : Rat) * ud a) (ud a) (2 ^ b)
      = ap (a.R0 + ((se a ((2 : Int) ^ b) : Int) : Rat) * ud a) (2 * (ud a / 2)) (2 ^ b) := by rw [← e]
  have hs : Lat (a.R0 + ((se a ((2 : Int) ^ b) : Int) : Rat) * ud a) (2 * (ud a / 2))
      (a.R0 + ((se a ((2 : Int) ^ b) : Int) : Rat) * ud a) := ⟨0, by simp⟩
  have hpass : ∃ rs', passes (ud a) (A a) (st ((2 : Int) ^ b)) (et ((2 : Int) ^ b)) (A a) (ud a / 2)
        (ap (a.R0 + ((se a ((2 : Int) ^ b) : Int) : Rat) * ud a) (ud a) (2 ^ b)) ((2 : Int) ^ b) [] = .ok rs'
      ∧ ((b = 1 ∧ rs'.length = 1) ∨ (2 ≤ b ∧ rs'.length = A a * (2 ^ b - 1))) := by
    rw [hp1, ← hcast]
    rcases Nat.lt_or_ge b 2 with hb2 | hb2
    · have : b = 1 := by omega
      subst this
      rw [hcast, st_two, et_two]
      obtain ⟨rs', h1, h2⟩ := passes_specB (ud a) _ (A a) 1 (2 ^ 1) (by norm_num) (A a) hA' (ud a / 2) _ [] hh hs
        (by simp)
      exact ⟨rs', h1, Or.inl ⟨rfl, by simpa using h2⟩⟩
    · obtain ⟨j, rfl⟩ : ∃ j, b = j + 2 := ⟨b - 2, by omega⟩
      rw [hcast, st_pow, et_pow]
      have hj : 0 < 2 ^ j := Nat.pos_of_ne_zero (by positivity)
      have hm : 2 ^ (j + 2) = 4 * 2 ^ j := by rw [Nat.pow_add]; omega
      obtain ⟨rs', h1, h2⟩ := passes_specA (ud a) _ (A a) (2 ^ j) (3 * 2 ^ j) (2 ^ (j + 2)) (by omega) (by omega)
        (by omega) (A a) (le_refl _) (ud a / 2) _ [] hh hs (by simp)
      exact ⟨rs', h1, Or.inr ⟨by omega, by simpa using h2⟩⟩
  obtain ⟨rs', h1, hlen⟩ := hpass
  rw [h1, ok_bind]
  exact tail2_ok a _ rs' hr2 hse hee hnRef (nr2_mod8 (A a) a.nrExp.toNat b hA' hlt (nr a) rfl rs'.length hlen)

end An
end GridGenL
