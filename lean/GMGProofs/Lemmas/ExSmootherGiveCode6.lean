import GMGProofs.Lemmas.ExSmootherGiveCode5
/-!
# Code-level extrapolated smoother (give), lemmas 6 — the off-diagonal slots in closed form

* `offEntry_inj`, `slotSum_off`: the value accumulated in an off-diagonal slot is the `osum` of its matrix entry;
* `osum_all`: the `osum` over the whole assembly as a double sum over the grid;
* `osum_ctSub`, `osum_ctCorner`, `osum_rtSub`, `osum_rtCorner`, `osum_inner`: one or two givers per entry.
-/
set_option linter.unusedSectionVars false
set_option linter.unusedVariables false
set_option linter.unusedSimpArgs false
namespace ExSmootherGiveCode
open Stencil SparseLU SmootherCode Finset
open DirectCode (Pos)
open DirectGiveCode (massValue diagValue nodeOrder)
open ExSmootherCode (innerNnz)
variable {K : Type} [_root_.Field K]

section
variable (T : Tables) (o : Op K) (nc : Nat)

/-- an off-diagonal slot is determined by its matrix entry (allocated slots) -/
theorem offEntry_inj (hnc : 3 ≤ nc) (hnr : nc + 3 ≤ o.nr) (hnt : 3 ≤ o.nt) {a a' : Arr} {q q' : Nat}
    {e : Nat × Nat × Nat × Nat}
    (h : offEntry o nc a q = some e) (h' : offEntry o nc a' q' = some e)
    (hq : q < (init o nc a).length) (hq' : q' < (init o nc a').length) : a = a' ∧ q = q' := by
  rw [init_length] at hq hq'
  cases a <;> cases a' <;> simp only [offEntry, alloc, lt_ite_zero] at h h' hq hq' <;>
    (try split at h) <;> (try split at h') <;>
    first
    | (cases h; done)
    | (cases h'; done)
    | (cases h; simp only [Option.some.injEq, Prod.mk.injEq] at h'; first | (exfalso; omega) | (simp; omega))

/-- the value accumulated in an off-diagonal slot is the `osum` of its matrix entry -/
theorem slotSum_off (hT : GoodTables T) (hnc : 3 ≤ nc) (hnr : nc + 3 ≤ o.nr) (hnt : 3 ≤ o.nt)
    (heven : o.nt % 2 = 0) (h4 : o.bc = false → o.nt % 4 = 0) {a : Arr} {q : Nat} {e : Nat × Nat × Nat × Nat}
    (hd : offEntry o nc a q = some e) (hq : q < (init o nc a).length) :
    slotSum o nc (allUpdates T o nc) a q = osum o nc (allUpdates T o nc) e := by
  unfold slotSum osum
  congr 1
  apply List.map_congr_left
  intro u hu
  have hf := allUpdates_fits T o nc hT hnc hnr (by omega) heven h4 u hu
  by_cases ht : target o nc u = .slot a q
  · rw [if_pos ht, if_pos]
    unfold offOf; rw [ht]; exact hd
  · rw [if_neg ht, if_neg]
    intro hdo
    apply ht
    rcases hf with hs | ⟨a', q', hs, hq'⟩
    · unfold offOf at hdo; rw [hs] at hdo; cases hdo
    · unfold offOf at hdo; rw [hs] at hdo
      obtain ⟨rfl, rfl⟩ := offEntry_inj o nc hnc hnr hnt hd hdo hq hq'
      exact hs

theorem osum_flatMap {β : Type} (l : List β) (g : β → List (Upd K)) (e : Nat × Nat × Nat × Nat) :
    osum o nc (l.flatMap g) e = (l.map fun p => osum o nc (g p) e).sum := by
  induction l with
  | nil => simp
  | cons p l ih => simp [List.flatMap_cons, osum_append, ih]

/-- the `osum` over the whole assembly as a double sum over the grid -/
theorem osum_all (hT : GoodTables T) (hnc : 3 ≤ nc) (hnr : nc + 3 ≤ o.nr) (hodd : o.nr % 2 = 1)
    (hnt : 3 ≤ o.nt) (heven : o.nt % 2 = 0) (r1 r2 c1 c2 : Nat) :
    osum o nc (allUpdates T o nc) (r1, r2, c1, c2)
      = ∑ i ∈ range o.nr, ∑ j ∈ range o.nt, oRhs o nc i j (r1, r2, c1, c2) := by
  unfold allUpdates
  rw [osum_flatMap]
  rw [DirectGiveCode.nodeOrder_sum o nc (fun i j => osum o nc (nodeUpdates T o nc i j) (r1, r2, c1, c2)) (by
    intro i j hi
    simp only [nodeUpdates_out T o nc hnc hnr j hi, osum_nil])]
  apply Finset.sum_congr rfl
  intro i hi
  apply Finset.sum_congr rfl
  intro j hj
  exact osum_node T o nc hT hnc hnr hodd hnt heven i j r1 r2 c1 c2 (by simpa using hi) (by simpa using hj)

theorem add8 {a1 a2 a3 a4 a5 a6 a7 a8 b1 b2 b3 b4 b5 b6 b7 b8 : K} (h1 : a1 = b1) (h2 : a2 = b2) (h3 : a3 = b3)
    (h4 : a4 = b4) (h5 : a5 = b5) (h6 : a6 = b6) (h7 : a7 = b7) (h8 : a8 = b8) :
    a1 + a2 + a3 + a4 + a5 + a6 + a7 + a8 = b1 + b2 + b3 + b4 + b5 + b6 + b7 + b8 := by
  rw [h1, h2, h3, h4, h5, h6, h7, h8]

/-- no node of the grid satisfies the selector -/
macro "s2none" : tactic =>
  `(tactic| (apply sum2_none; intro i j hi hj hp; simp only [Prod.mk.injEq] at hp; omega))

/-- `sub_diagonal(q)` of the odd circle `i`: "Top" of node `q` and "Fill matrix row of (i,j-1)" of node `q + 1` -/
theorem osum_ctSub (hT : GoodTables T) (hnc : 3 ≤ nc) (hnr : nc + 3 ≤ o.nr) (hodd : o.nr % 2 = 1)
    (hnt : 3 ≤ o.nt) (heven : o.nt % 2 = 0) (i q : Nat) (hi0 : 0 < i) (hinc : i < nc) (hio : i % 2 = 1)
    (hq : q + 1 < o.nt) :
    osum o nc (allUpdates T o nc) (i, q, i, q + 1)
      = -(coeff4 o i q) * o.att i q + -(coeff3 o i (q + 1)) * o.att i (q + 1) := by
  rw [osum_all T o nc hT hnc hnr hodd hnt heven]
  simp only [oRhs, Finset.sum_add_distrib]
  trans (0 + (-(coeff4 o i q) * o.att i q) + (-(coeff3 o i (q + 1)) * o.att i (q + 1)) + 0 + 0 + 0 + 0 + 0)
  · refine add8 ?_ ?_ ?_ ?_ ?_ ?_ ?_ ?_
    · s2none
    · exact sum2_single o.nr o.nt i q _ (fun i j => -(coeff4 o i j) * o.att i j) ⟨⟨hio, hi0, hinc⟩, by omega, rfl⟩
        (by omega) (by omega) (fun a b _ _ hp => by simp only [Prod.mk.injEq] at hp; omega)
    · exact sum2_single o.nr o.nt i (q + 1) _ (fun i j => -(coeff3 o i j) * o.att i j)
        ⟨⟨hio, hi0, hinc⟩, by omega, rfl⟩
        (by omega) (by omega) (fun a b _ _ hp => by simp only [Prod.mk.injEq] at hp; omega)
    · s2none
    · s2none
    · s2none
    · s2none
    · s2none
  · ring

/-- `cyclic_corner_element()` of the odd circle `i`: "Bottom" of node `0` and "Fill matrix row of (i,j+1)" of node `nt - 1` -/
theorem osum_ctCorner (hT : GoodTables T) (hnc : 3 ≤ nc) (hnr : nc + 3 ≤ o.nr) (hodd : o.nr % 2 = 1)
    (hnt : 3 ≤ o.nt) (heven : o.nt % 2 = 0) (i : Nat) (hi0 : 0 < i) (hinc : i < nc) (hio : i % 2 = 1) :
    osum o nc (allUpdates T o nc) (i, 0, i, o.nt - 1)
      = -(coeff3 o i 0) * o.att i 0 + -(coeff4 o i (o.nt - 1)) * o.att i (o.nt - 1) := by
  rw [osum_all T o nc hT hnc hnr hodd hnt heven]
  simp only [oRhs, Finset.sum_add_distrib]
  trans ((-(coeff3 o i 0) * o.att i 0) + 0 + 0 + (-(coeff4 o i (o.nt - 1)) * o.att i (o.nt - 1)) + 0 + 0 + 0 + 0)
  · refine add8 ?_ ?_ ?_ ?_ ?_ ?_ ?_ ?_
    · exact sum2_single o.nr o.nt i 0 _ (fun i j => -(coeff3 o i j) * o.att i j) ⟨⟨hio, hi0, hinc⟩, rfl, rfl⟩
        (by omega) (by omega) (fun a b _ _ hp => by simp only [Prod.mk.injEq] at hp; omega)
    · s2none
    · s2none
    · exact sum2_single o.nr o.nt i (o.nt - 1) _ (fun i j => -(coeff4 o i j) * o.att i j)
        ⟨⟨hio, hi0, hinc⟩, by omega, rfl⟩
        (by omega) (by omega) (fun a b _ _ hp => by simp only [Prod.mk.injEq] at hp; omega)
    · s2none
    · s2none
    · s2none
    · s2none
  · ring

/-- `sub_diagonal(t)` of the odd radial line `j`: "Right" of node `nc + t` and "Fill matrix row of (i-1,j)" of node
    `nc + t + 1`; nothing at `nc + t = nr - 2` -/
theorem osum_rtSub (hT : GoodTables T) (hnc : 3 ≤ nc) (hnr : nc + 3 ≤ o.nr) (hodd : o.nr % 2 = 1)
    (hnt : 3 ≤ o.nt) (heven : o.nt % 2 = 0) (i j : Nat) (hi0 : nc ≤ i) (hi1 : i + 1 < o.nr) (hj : j < o.nt)
    (hjo : j % 2 = 1) :
    osum o nc (allUpdates T o nc) (i, j, i + 1, j)
      = if i + 2 < o.nr then -(coeff2 o i j) * o.arr i j + -(coeff1 o (i + 1) j) * o.arr (i + 1) j else 0 := by
  rw [osum_all T o nc hT hnc hnr hodd hnt heven]
  simp only [oRhs, Finset.sum_add_distrib]
  by_cases h : i + 2 < o.nr
  · rw [if_pos h]
    trans (0 + 0 + 0 + 0 + (-(coeff2 o i j) * o.arr i j) + (-(coeff1 o (i + 1) j) * o.arr (i + 1) j) + 0 + 0)
    · refine add8 ?_ ?_ ?_ ?_ ?_ ?_ ?_ ?_
      · s2none
      · s2none
      · s2none
      · s2none
      · exact sum2_single o.nr o.nt i j _ (fun i j => -(coeff2 o i j) * o.arr i j) ⟨hjo, hi0, h, rfl⟩
          (by omega) hj (fun a b _ _ hp => by simp only [Prod.mk.injEq] at hp; omega)
      · exact sum2_single o.nr o.nt (i + 1) j _ (fun i j => -(coeff1 o i j) * o.arr i j)
          ⟨hjo, by omega, by omega, rfl⟩
          (by omega) hj (fun a b _ _ hp => by simp only [Prod.mk.injEq] at hp; omega)
      · s2none
      · s2none
    · ring
  · rw [if_neg h]
    trans ((0 : K) + 0 + 0 + 0 + 0 + 0 + 0 + 0)
    · refine add8 ?_ ?_ ?_ ?_ ?_ ?_ ?_ ?_ <;> s2none
    · ring

/-- the corner element of a radial solver is never addressed -/
theorem osum_rtCorner (hT : GoodTables T) (hnc : 3 ≤ nc) (hnr : nc + 3 ≤ o.nr) (hodd : o.nr % 2 = 1)
    (hnt : 3 ≤ o.nt) (heven : o.nt % 2 = 0) (j : Nat) :
    osum o nc (allUpdates T o nc) (nc, j, o.nr - 1, j) = 0 := by
  rw [osum_all T o nc hT hnc hnr hodd hnt heven]
  simp only [oRhs, Finset.sum_add_distrib]
  trans ((0 : K) + 0 + 0 + 0 + 0 + 0 + 0 + 0)
  · refine add8 ?_ ?_ ?_ ?_ ?_ ?_ ?_ ?_ <;> s2none
  · ring

/-- slot 1 of the odd row `r` of the inner matrix: "Left" of node `r` and "Fill matrix row of (i-1,j)" of the antipode -/
theorem osum_inner (hT : GoodTables T) (hnc : 3 ≤ nc) (hnr : nc + 3 ≤ o.nr) (hodd : o.nr % 2 = 1)
    (hnt : 3 ≤ o.nt) (h4 : o.nt % 4 = 0) (hb : o.bc = false) (r : Nat) (hr : r < o.nt) (hro : r % 2 = 1) :
    osum o nc (allUpdates T o nc) (0, r, 0, ja o r)
      = -(coeff1 o 0 r) * o.arr 0 r + -(coeff1 o 0 (ja o r)) * o.arr 0 (ja o r) := by
  have heven : o.nt % 2 = 0 := by omega
  have hpos : 0 < o.nt := by omega
  rw [osum_all T o nc hT hnc hnr hodd hnt heven]
  simp only [oRhs, Finset.sum_add_distrib]
  trans (0 + 0 + 0 + 0 + 0 + 0 + (-(coeff1 o 0 r) * o.arr 0 r) + (-(coeff1 o 0 (ja o r)) * o.arr 0 (ja o r)))
  · refine add8 ?_ ?_ ?_ ?_ ?_ ?_ ?_ ?_
    · s2none
    · s2none
    · s2none
    · s2none
    · s2none
    · s2none
    · exact sum2_single o.nr o.nt 0 r _ (fun i j => -(coeff1 o i j) * o.arr i j) ⟨rfl, hb, hro, rfl⟩
        (by omega) hr (fun a b _ _ hp => by
          obtain ⟨h1, _, _, h2⟩ := hp
          simp only [Prod.mk.injEq] at h2
          exact ⟨h1, h2.2.1⟩)
    · exact sum2_single o.nr o.nt 0 (ja o r) _ (fun i j => -(coeff1 o i j) * o.arr i j)
        ⟨rfl, hb, by rw [ja_parity o h4 hr]; exact hro, by rw [ja_ja o heven hr]⟩
        (by omega) (ja_lt o hpos r) (fun a b _ hb' hp => by
          obtain ⟨h1, _, _, h2⟩ := hp
          simp only [Prod.mk.injEq] at h2
          refine ⟨h1, ?_⟩
          rw [← h2.2.1, ja_ja o heven hb'])
  · ring

end
end ExSmootherGiveCode
