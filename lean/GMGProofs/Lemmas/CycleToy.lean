import GMGProofs.Lemmas.CycleExact
import GMGProofs.Lemmas.CycleLoop
/-!
# Small concrete operator families on `Int`, used by the non-vacuity examples of C10 / C09s / C01 / C13
-/
namespace MGCycle

/-- an arbitrary, deliberately non-symmetric family: every operator distinguishes its arguments and its level -/
def toyOps : Ops Int where
  smooth l x f := 2 * x + 3 * f + l
  smoothTmp l x f t := x - f + 5 * t + l
  exSmooth l x f := 7 * x - f + l
  exSmoothTmp l x f t := x + f - t + l
  resid l f x := f - 11 * x + l
  restrict l v := 13 * v + l
  exRestrict l v := 17 * v - l
  inject l v := 19 * v + l
  prolong l v := 23 * v + l
  exProlong l v := 29 * v - l
  fmgInterp l v := 31 * v + l
  solve l v := 37 * v + l
  zero l := l
  add x y := x + 41 * y
  lin43 x y := 4 * x - y
  exResid l r nx := 43 * r - nx + l

/-- the identity operator on every level, exact smoother and exact coarse solve -/
def idOps : Ops Int where
  smooth _ _ f := f
  smoothTmp _ x _ _ := x
  exSmooth _ _ f := f
  exSmoothTmp _ x _ _ := x
  resid _ f x := f - x
  restrict _ v := v
  exRestrict _ v := v
  inject _ v := v
  prolong _ v := v
  exProlong _ v := v
  fmgInterp _ v := v
  solve _ v := v
  zero _ := 0
  add x y := x + y
  lin43 x y := 4 * x - y
  exResid _ r nx := 4 * r - nx

/-- norms of integers: absolute value, "division" keeps the numerator -/
def toyNorm : NormOps Int Int where
  norm v := v.natAbs
  div a _ := a
  one := 1
  gt a b := decide (a > b)
  ratioGt07 a b := decide (10 * a > 7 * b)

/-- a memory whose right-hand sides are `f l` and everything else is `junk` -/
def toyMem (f : Nat → Int) (junk : Int) : Mem Int := fun r => if r.2 = Buf.rhs then f r.1 else junk

end MGCycle
