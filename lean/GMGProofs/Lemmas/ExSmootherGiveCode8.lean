import GMGProofs.Lemmas.ExSmootherGiveCode7
/-!
# Code-level extrapolated smoother (give), lemmas 8 — every stored array equals the gather assembly's

`Admissible`: the hypotheses under which the scatter assembly is in bounds and agrees with the gather assembly.
`vals_ctMain … vals_rd`, `corner_ct`, `corner_rt`: array by array.
-/
set_option linter.unusedSectionVars false
set_option linter.unusedVariables false
set_option linter.unusedSimpArgs false
namespace ExSmootherGiveCode
open Stencil SparseLU SmootherCode Finset
open DirectCode (Pos)
open DirectGiveCode (massValue diagValue nodeOrder)
open ExSmootherCode (innerNnz)
variable {K : Type} [_root_.Field K]

/-- admissible shapes: the header's tables, at least three circles and three radial nodes (asserted by the C++), `nr` odd,
    `nt` even and at least 4; across the origin `nt` divisible by 4 (asserted by the C++: otherwise the `Left` store of an odd
    node goes to the one-slot row of its even antipode) and antipodally symmetric angular spacing -/
structure Admissible (T : Tables) (o : Op K) (nc : Nat) : Prop where
  tables : GoodTables T
  hnc : 3 ≤ nc
  hnr : nc + 3 ≤ o.nr
  hodd : o.nr % 2 = 1
  hnt : 4 ≤ o.nt
  heven : o.nt % 2 = 0
  h4 : o.bc = false → o.nt % 4 = 0
  hk : o.bc = false → ∀ j, j < o.nt → o.k (ja o j) = o.k j

section
variable (T : Tables) (o : Op K) (nc : Nat)

/-- the memory after the assembly: shape and the value of every slot -/
theorem assemble_values (A : Admissible T o nc) :
    ∃ mf, assemble T o nc = some mf ∧ (∀ a, (mf a).length = alloc o nc a) ∧
      (∀ a q, ((mf a).getD q (0, Scalar.n 0)).2 = slotSum o nc (allUpdates T o nc) a q) ∧
      ∀ a q, (mf a).getD q (0, Scalar.n 0) = slotFold o nc a q (0, Scalar.n 0) (allUpdates T o nc) := by
  obtain ⟨mf, h1, h2, h3⟩ := assemble_spec T o nc A.tables A.hnc A.hnr (by have := A.hnt; omega) A.heven A.h4
  refine ⟨mf, h1, fun a => by rw [h2, init_length], fun a q => ?_, h3⟩
  rw [h3, slotFold_snd]
  simp

/-- the value of a diagonal slot -/
theorem diag_slot (A : Admissible T o nc) {a : Arr} {q x y : Nat} (hd : diagNode nc a q = some (x, y))
    (hq : q < alloc o nc a) (hx : x < o.nr) (hy : y < o.nt) :
    slotSum o nc (allUpdates T o nc) a q = expD o x y := by
  have hnt := A.hnt
  rw [slotSum_diag T o nc A.tables A.hnc A.hnr (by omega) A.heven A.h4 hd (by rw [init_length]; exact hq),
    dsum_all T o nc A.tables A.hnc A.hnr A.hodd (by omega) A.heven x y hx hy]
  have := diag_value o (by have := A.hnc; have := A.hnr; omega) (by omega) A.heven A.h4 A.hk x y hx hy
  unfold giveD at this
  exact this

/-- a tabulated array: length and entries -/
theorem vals_tab (m : Mem K) (a : Arr) (n : Nat) (F : Nat → K) (hl : (m a).length = n)
    (hv : ∀ q, q < n → ((m a).getD q (0, Scalar.n 0)).2 = F q) :
    vals m a = (List.range n).map F := by
  rw [vals_eq, hl]
  apply List.map_congr_left
  intro q hq
  exact hv q (List.mem_range.mp hq)

variable (mf : Mem K) (A : Admissible T o nc)
  (hl : ∀ a, (mf a).length = alloc o nc a)
  (hv : ∀ a q, ((mf a).getD q (0, Scalar.n 0)).2 = slotSum o nc (allUpdates T o nc) a q)

include A hl hv

/-- `main_diagonal` of the odd circles -/
theorem vals_ctMain (i : Nat) (hi0 : 0 < i) (hinc : i < nc) (hio : i % 2 = 1) :
    vals mf (.ctMain (i / 2)) = ExSmootherCode.circleTriMain o i := by
  have hnr := A.hnr
  unfold ExSmootherCode.circleTriMain
  apply vals_tab mf _ o.nt _ (by rw [hl]; simp only [alloc]; rw [if_pos (by omega)])
  intro q hq
  rw [hv, diag_slot T o nc A (a := .ctMain (i / 2)) (q := q) (x := i) (y := q)
    (by simp only [diagNode]; congr 2; omega) (by simp only [alloc]; rw [if_pos (by omega)]; exact hq) (by omega) hq]
  unfold expD
  rw [if_neg (by omega), if_neg (by omega), if_neg (by omega)]

/-- `diagonal` of the even circles -/
theorem vals_cd (i : Nat) (hi0 : 0 < i) (hinc : i < nc) (hio : ¬ i % 2 = 1) :
    vals mf (.cd (i / 2)) = ExSmootherCode.circleDiag o i := by
  have hnr := A.hnr
  unfold ExSmootherCode.circleDiag
  apply vals_tab mf _ o.nt _ (by rw [hl]; simp only [alloc]; rw [if_pos (by omega)])
  intro q hq
  rw [hv, diag_slot T o nc A (a := .cd (i / 2)) (q := q) (x := i) (y := q)
    (by simp only [diagNode]; congr 2; omega) (by simp only [alloc]; rw [if_pos (by omega)]; exact hq) (by omega) hq]
  unfold expD
  by_cases hqo : q % 2 = 1
  · rw [if_neg (by omega), if_pos hqo, if_neg (by omega), if_neg (by omega)]
  · rw [if_pos (Or.inr (Or.inr ⟨hio, hqo⟩)), if_neg hqo]; simp

/-- `main_diagonal` of the odd radial lines -/
theorem vals_rtMain (j : Nat) (hj : j < o.nt) (hjo : j % 2 = 1) :
    vals mf (.rtMain (j / 2)) = ExSmootherCode.radialTriMain o nc j := by
  have hnr := A.hnr
  have hnc := A.hnc
  have heven := A.heven
  unfold ExSmootherCode.radialTriMain
  apply vals_tab mf _ (o.nr - nc) _ (by rw [hl]; simp only [alloc]; rw [if_pos (by omega)])
  intro t ht
  rw [hv, diag_slot T o nc A (a := .rtMain (j / 2)) (q := t) (x := nc + t) (y := j)
    (by simp only [diagNode]; congr 2; omega) (by simp only [alloc]; rw [if_pos (by omega)]; exact ht) (by omega) hj]
  unfold expD
  simp only []
  by_cases h1 : nc + t + 1 = o.nr
  · rw [if_pos (Or.inl h1), if_neg (by omega), if_neg (by omega), if_neg (by omega), if_pos h1]; simp
  · rw [if_neg (by omega), if_neg (by omega), if_neg (by omega)]
    by_cases h2 : nc < nc + t ∧ nc + t + 2 < o.nr
    · rw [if_pos h2]
    · rw [if_neg h2]
      by_cases h3 : nc + t = nc
      · rw [if_pos h3]
      · rw [if_neg h3, if_pos (by omega)]

/-- `diagonal` of the even radial lines -/
theorem vals_rd (j : Nat) (hj : j < o.nt) (hjo : ¬ j % 2 = 1) :
    vals mf (.rd (j / 2)) = ExSmootherCode.radialDiag o nc j := by
  have hnr := A.hnr
  have hnc := A.hnc
  have heven := A.heven
  have hodd := A.hodd
  unfold ExSmootherCode.radialDiag
  apply vals_tab mf _ (o.nr - nc) _ (by rw [hl]; simp only [alloc]; rw [if_pos (by omega)])
  intro t ht
  rw [hv, diag_slot T o nc A (a := .rd (j / 2)) (q := t) (x := nc + t) (y := j)
    (by simp only [diagNode]; congr 2; omega) (by simp only [alloc]; rw [if_pos (by omega)]; exact ht) (by omega) hj]
  unfold expD
  simp only []
  by_cases h1 : nc + t + 1 = o.nr
  · rw [if_pos (Or.inl h1), if_neg (by omega), if_neg (by omega), if_neg (by omega), if_pos h1]; simp
  · by_cases hto : (nc + t) % 2 = 1
    · rw [if_neg (by omega), if_neg (by omega), if_neg (by omega)]
      by_cases h2 : nc < nc + t ∧ nc + t + 2 < o.nr
      · rw [if_pos h2, if_pos hto]
      · rw [if_neg h2]
        by_cases h3 : nc + t = nc
        · rw [if_pos h3, if_pos hto]
        · rw [if_neg h3, if_pos (by omega)]
    · rw [if_pos (Or.inr (Or.inr ⟨hto, hjo⟩))]
      by_cases h2 : nc < nc + t ∧ nc + t + 2 < o.nr
      · rw [if_pos h2, if_neg hto]; simp
      · rw [if_neg h2]
        by_cases h3 : nc + t = nc
        · rw [if_pos h3, if_neg hto]; simp
        · exfalso; omega

/-- the value of an off-diagonal slot -/
theorem off_slot {a : Arr} {q : Nat} {e : Nat × Nat × Nat × Nat} (hd : offEntry o nc a q = some e)
    (hq : q < alloc o nc a) : slotSum o nc (allUpdates T o nc) a q = osum o nc (allUpdates T o nc) e := by
  have hnt := A.hnt
  exact slotSum_off T o nc A.tables A.hnc A.hnr (by omega) A.heven A.h4 hd (by rw [init_length]; exact hq)

/-- `sub_diagonal` of the odd circles -/
theorem vals_ctSub (i : Nat) (hi0 : 0 < i) (hinc : i < nc) (hio : i % 2 = 1) :
    vals mf (.ctSub (i / 2)) = ExSmootherCode.circleTriSub o i := by
  have hnr := A.hnr
  have hnt := A.hnt
  unfold ExSmootherCode.circleTriSub
  apply vals_tab mf _ (o.nt - 1) _ (by rw [hl]; simp only [alloc]; rw [if_pos (by omega)])
  intro q hq
  have hI : 2 * (i / 2) + 1 = i := by omega
  rw [hv, off_slot T o nc mf A hl hv (a := .ctSub (i / 2)) (q := q) (e := (i, q, i, q + 1))
    (by simp only [offEntry, hI]) (by simp only [alloc]; rw [if_pos (by omega)]; exact hq),
    osum_ctSub T o nc A.tables A.hnc A.hnr A.hodd (by omega) A.heven i q hi0 hinc hio (by omega)]
  have e1 : jp o q = q + 1 := by rw [jp_eq o (by omega)]; rw [if_neg (by omega)]
  have e2 : jm o (q + 1) = q := by rw [jm_eq o (by omega)]; rw [if_neg (by omega)]; omega
  unfold topValue coeff3 coeff4
  rw [e1, e2]
  ring

/-- `cyclic_corner_element()` of the odd circles -/
theorem corner_ct (i : Nat) (hi0 : 0 < i) (hinc : i < nc) (hio : i % 2 = 1) :
    ((mf (.ctCorner (i / 2))).getD 0 (0, Scalar.n 0)).2 = ExSmootherCode.circleTriCorner o i := by
  have hnr := A.hnr
  have hnt := A.hnt
  have hI : 2 * (i / 2) + 1 = i := by omega
  rw [hv, off_slot T o nc mf A hl hv (a := .ctCorner (i / 2)) (q := 0) (e := (i, 0, i, o.nt - 1))
    (by simp only [offEntry, hI]) (by simp only [alloc]; rw [if_pos (by omega)]; omega),
    osum_ctCorner T o nc A.tables A.hnc A.hnr A.hodd (by omega) A.heven i hi0 hinc hio]
  have e1 : jm o 0 = o.nt - 1 := by rw [jm_eq o (by omega)]; rw [if_pos rfl]
  unfold ExSmootherCode.circleTriCorner bottomValue coeff3 coeff4
  rw [e1]
  ring

/-- `sub_diagonal` of the odd radial lines (the entry next to the outer boundary stays `0.0`) -/
theorem vals_rtSub (j : Nat) (hj : j < o.nt) (hjo : j % 2 = 1) :
    vals mf (.rtSub (j / 2)) = ExSmootherCode.radialTriSub o nc j := by
  have hnr := A.hnr
  have hnt := A.hnt
  have heven := A.heven
  unfold ExSmootherCode.radialTriSub
  apply vals_tab mf _ (o.nr - nc - 1) _ (by rw [hl]; simp only [alloc]; rw [if_pos (by omega)])
  intro t ht
  have hJ : 2 * (j / 2) + 1 = j := by omega
  rw [hv, off_slot T o nc mf A hl hv (a := .rtSub (j / 2)) (q := t) (e := (nc + t, j, nc + t + 1, j))
    (by simp only [offEntry, hJ]) (by simp only [alloc]; rw [if_pos (by omega)]; exact ht),
    osum_rtSub T o nc A.tables A.hnc A.hnr A.hodd (by omega) A.heven (nc + t) j (by omega) (by omega) hj hjo]
  simp only []
  by_cases h : nc + t + 2 < o.nr
  · rw [if_pos h, coeff1_succ]
    by_cases h2 : nc < nc + t ∧ nc + t + 2 < o.nr
    · rw [if_pos h2]; unfold rightValue; ring
    · rw [if_neg h2, if_pos (by omega)]; unfold rightValue; ring
  · rw [if_neg h, if_neg (by omega), if_neg (by omega), if_pos (by omega)]; simp

/-- the corner member of the radial solvers keeps its initial `0.0` -/
theorem corner_rt (j : Nat) (hj : j < o.nt) (hjo : j % 2 = 1) :
    ((mf (.rtCorner (j / 2))).getD 0 (0, Scalar.n 0)).2 = Scalar.n 0 := by
  have hnt := A.hnt
  have heven := A.heven
  have hJ : 2 * (j / 2) + 1 = j := by omega
  rw [hv, off_slot T o nc mf A hl hv (a := .rtCorner (j / 2)) (q := 0) (e := (nc, j, o.nr - 1, j))
    (by simp only [offEntry, hJ]) (by simp only [alloc]; rw [if_pos (by omega)]; omega),
    osum_rtCorner T o nc A.tables A.hnc A.hnr A.hodd (by omega) A.heven j]
  simp

/-- the solver objects of the tridiagonal lines -/
theorem circleTriSolver_eq (i : Nat) (hi0 : 0 < i) (hinc : i < nc) (hio : i % 2 = 1) :
    circleTriSolver mf i = ExSmootherCode.circleTriSolver o i := by
  unfold circleTriSolver ExSmootherCode.circleTriSolver
  rw [vals_ctMain T o nc mf A hl hv i hi0 hinc hio, vals_ctSub T o nc mf A hl hv i hi0 hinc hio,
    corner_ct T o nc mf A hl hv i hi0 hinc hio]

theorem radialTriSolver_eq (j : Nat) (hj : j < o.nt) (hjo : j % 2 = 1) :
    radialTriSolver mf j = ExSmootherCode.radialTriSolver o nc j := by
  unfold radialTriSolver ExSmootherCode.radialTriSolver
  rw [vals_rtMain T o nc mf A hl hv j hj hjo, vals_rtSub T o nc mf A hl hv j hj hjo,
    corner_rt T o nc mf A hl hv j hj hjo]

end
end ExSmootherGiveCode
