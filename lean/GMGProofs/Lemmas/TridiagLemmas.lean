import GMGModel.Tridiag
import GMGProofs.Lemmas.FieldScalar
import Mathlib.Tactic.LinearCombination
import Mathlib.Tactic.Ring
import Mathlib.Tactic.FieldSimp
/-!
# Helper lemmas for C14 (symmetric tridiagonal LDLᵀ solver), part 1: the plain solver

* for every `Scalar` type (no field laws): the three code passes `factor / fwd / scale / bwd`
  perform the same arithmetic as the recursive elimination `solveT`;
* over a field: `solveT` solves the system when the pivots do not vanish.
-/
namespace Tridiag

/-! ### an induction principle for the shape (diag, sub-diag, vector) -/

theorem tri_induction {α : Type} {motive : List α → List α → List α → Prop}
    (base : ∀ a x, motive [a] [] [x])
    (step : ∀ a a' as b bs x x' xs, as.length = xs.length → bs.length = as.length →
      motive (a' :: as) bs (x' :: xs) → motive (a :: a' :: as) (b :: bs) (x :: x' :: xs)) :
    ∀ a b x, a.length = x.length → b.length + 1 = a.length → motive a b x
  | [a], [], [x], _, _ => base a x
  | a :: a' :: as, b :: bs, x :: x' :: xs, h1, h2 =>
      step a a' as b bs x x' xs (by simpa using h1) (by simpa using h2)
        (tri_induction base step (a' :: as) bs (x' :: xs) (by simpa using h1) (by simpa using h2))
  | [], _, _, _, h => by simp at h
  | [_], _ :: _, _, _, h2 => by simp at h2
  | [_], [], [], h1, _ => by simp at h1
  | [_], [], _ :: _ :: _, h1, _ => by simp at h1
  | _ :: _ :: _, [], _, _, h2 => by simp at h2
  | _ :: _ :: _, _ :: _, [], h1, _ => by simp at h1
  | _ :: _ :: _, _ :: _, [_], h1, _ => by simp at h1

section Generic
variable {α : Type} [Scalar α]

/-- recursive LDLᵀ solve: eliminate the first unknown, solve the Schur complement system,
    back-substitute (probe E6, over the model's scalar operations) -/
def solveT : List α → List α → List α → List α
  | [a], [], [y] => [y / a]
  | a :: a' :: as, b :: bs, y :: y' :: ys =>
      let l := b / a
      match solveT ((a' - l * l * a) :: as) bs ((y' - l * y) :: ys) with
      | x' :: xs => (y / a - l * x') :: x' :: xs
      | [] => []
  | _, _, _ => []

/-- one step of the in-place factorisation = factorisation of the Schur complement -/
theorem factor_cons_cons (a a' : α) (as : List α) (b : α) (bs : List α) :
    factor (a :: a' :: as) (b :: bs) =
      (a :: (factor ((a' - b / a * (b / a) * a) :: as) bs).1,
       (b / a) :: (factor ((a' - b / a * (b / a) * a) :: as) bs).2) := by
  simp [factor, factorFrom]

theorem factor_single (a : α) : factor [a] ([] : List α) = ([a], []) := by
  simp [factor, factorFrom]

theorem factor_fst_ne_nil (a : α) (as bs : List α) : (factor (a :: as) bs).1 ≠ [] := by
  simp [factor]

/-- the code's three passes on the code's factorisation compute exactly `solveT`
    (same operations in the same order: no algebraic law is used) -/
theorem subst_factor_eq_solveT : ∀ (a b y : List α), a.length = y.length → b.length + 1 = a.length →
    subst (factor a b).1 (factor a b).2 y = solveT a b y
  | [a], [], [y], _, _ => by simp [subst, factor, factorFrom, fwd, scale, bwd, solveT]
  | a :: a' :: as, b :: bs, y :: y' :: ys, h1, h2 => by
      have ih := subst_factor_eq_solveT ((a' - b / a * (b / a) * a) :: as) bs ((y' - b / a * y) :: ys)
        (by simpa using h1) (by simpa using h2)
      rw [factor_cons_cons]
      simp only [solveT]
      rw [← ih]
      have hne := factor_fst_ne_nil (a' - b / a * (b / a) * a) as bs
      generalize factor ((a' - b / a * (b / a) * a) :: as) bs = F at hne ⊢
      cases hD : F.1 with
      | nil => exact absurd hD hne
      | cons d ds => simp [subst, fwd, fwdFrom, scale, bwd]; rfl
  | [], _, _, _, h => by simp at h
  | [_], _ :: _, _, _, h2 => by simp at h2
  | [_], [], [], h1, _ => by simp at h1
  | [_], [], _ :: _ :: _, h1, _ => by simp at h1
  | _ :: _ :: _, [], _, _, h2 => by simp at h2
  | _ :: _ :: _, _ :: _, [], h1, _ => by simp at h1
  | _ :: _ :: _, _ :: _, [_], h1, _ => by simp at h1

theorem factor_fst_length : ∀ (a b : List α), b.length + 1 = a.length → (factor a b).1.length = a.length
  | [a], [], _ => by simp [factor, factorFrom]
  | a :: a' :: as, b :: bs, h => by
      have ih := factor_fst_length ((a' - b / a * (b / a) * a) :: as) bs (by simpa using h)
      rw [factor_cons_cons]; simpa using ih
  | [], _, h => by simp at h
  | [_], _ :: _, h => by simp at h
  | _ :: _ :: _, [], h => by simp at h

/-- what a fresh non-cyclic solver returns -/
theorem solve_mk_plain (a b : List α) (c : α) (y : List α) :
    (solve (mk a b c false) y).2 = subst (factor a b).1 (factor a b).2 y := by
  simp [solve, mk, solvePlain]

end Generic

/-! ### over a field: exactness of the elimination -/
section Field
variable {K : Type} [Field K]

/-- all pivots of the elimination (= the entries of `(factor a b).1`, see `pivotsOK_iff_factor`)
    are non-zero; `False` on inconsistent lengths -/
def pivotsOK : List K → List K → Prop
  | [a], [] => a ≠ 0
  | a :: a' :: as, b :: bs => a ≠ 0 ∧ pivotsOK ((a' - b / a * (b / a) * a) :: as) bs
  | _, _ => False

theorem pivotsOK_iff_factor : ∀ (a b : List K), b.length + 1 = a.length →
    (pivotsOK a b ↔ ∀ d ∈ (factor a b).1, d ≠ 0)
  | [a], [], _ => by simp [pivotsOK, factor, factorFrom]
  | a :: a' :: as, b :: bs, h => by
      have ih := pivotsOK_iff_factor ((a' - b / a * (b / a) * a) :: as) bs (by simpa using h)
      rw [factor_cons_cons]
      simp only [pivotsOK, ih, List.mem_cons, forall_eq_or_imp]
  | [], _, h => by simp at h
  | [_], _ :: _, h => by simp at h
  | _ :: _ :: _, [], h => by simp at h

theorem solveT_length : ∀ (a b y : List K), a.length = y.length → b.length + 1 = a.length →
    (solveT a b y).length = a.length
  | [a], [], [y], _, _ => by simp [solveT]
  | a :: a' :: as, b :: bs, y :: y' :: ys, h1, h2 => by
      have ih := solveT_length ((a' - b / a * (b / a) * a) :: as) bs ((y' - b / a * y) :: ys)
        (by simpa using h1) (by simpa using h2)
      simp only [solveT]
      split
      · rename_i x' xs heq; rw [heq] at ih; simpa using ih
      · rename_i heq; rw [heq] at ih; simp at ih
  | [], _, _, _, h => by simp at h
  | [_], _ :: _, _, _, h2 => by simp at h2
  | [_], [], [], h1, _ => by simp at h1
  | [_], [], _ :: _ :: _, h1, _ => by simp at h1
  | _ :: _ :: _, [], _, _, h2 => by simp at h2
  | _ :: _ :: _, _ :: _, [], h1, _ => by simp at h1
  | _ :: _ :: _, _ :: _, [_], h1, _ => by simp at h1

/-- main identity with an incoming contribution `p` folded into the first right-hand side entry -/
theorem mulT_solveT : ∀ (a b y : List K) (p : K), a.length = y.length → b.length + 1 = a.length →
    pivotsOK a b →
    mulT a b (solveT a b y) p = (match y with | y0 :: ys => (p + y0) :: ys | [] => [])
  | [a], [], [y], p, _, _, hp => by
      simp only [pivotsOK] at hp
      simp only [solveT, mulT, List.cons.injEq, and_true]; field_simp
  | a :: a' :: as, b :: bs, y :: y' :: ys, p, h1, h2, hp => by
      obtain ⟨ha, hp'⟩ := hp
      have hlen := solveT_length ((a' - b / a * (b / a) * a) :: as) bs ((y' - b / a * y) :: ys)
        (by simpa using h1) (by simpa using h2)
      have ih := mulT_solveT ((a' - b / a * (b / a) * a) :: as) bs ((y' - b / a * y) :: ys)
      simp only [solveT]
      split
      · rename_i x' xs heq
        rw [heq] at ih hlen
        have := ih (b * (y / a - b / a * x')) (by simpa using h1) (by simpa using h2) hp'
        cases as with
        | nil =>
            cases bs with
            | cons _ _ => simp at h2
            | nil =>
              cases xs with
              | cons _ _ => simp at hlen
              | nil =>
                cases ys with
                | cons _ _ => simp at h1
                | nil =>
                  simp only [mulT, List.cons.injEq, and_true] at this ⊢
                  refine ⟨?_, ?_⟩
                  · field_simp; ring
                  · linear_combination (norm := skip) this
                    field_simp; ring
        | cons a'' as' =>
            cases bs with
            | nil => simp at h2
            | cons b' bs' =>
              cases xs with
              | nil => simp at hlen
              | cons x'' xs' =>
                simp only [mulT, List.cons.injEq] at this ⊢
                obtain ⟨e1, e2⟩ := this
                refine ⟨?_, ?_, e2⟩
                · field_simp; ring
                · linear_combination (norm := skip) e1
                  field_simp; ring
      · rename_i heq; rw [heq] at hlen; simp at hlen
  | [], _, _, _, _, h, _ => by simp at h
  | [_], _ :: _, _, _, _, h2, _ => by simp at h2
  | [_], [], [], _, h1, _, _ => by simp at h1
  | [_], [], _ :: _ :: _, _, h1, _, _ => by simp at h1
  | _ :: _ :: _, [], _, _, _, h2, _ => by simp at h2
  | _ :: _ :: _, _ :: _, [], _, h1, _, _ => by simp at h1
  | _ :: _ :: _, _ :: _, [_], _, h1, _, _ => by simp at h1

/-- `T (solveT y) = y` -/
theorem mulT_solveT_zero (a b y : List K) (h1 : a.length = y.length) (h2 : b.length + 1 = a.length)
    (hp : pivotsOK a b) : mulT a b (solveT a b y) 0 = y := by
  have := mulT_solveT a b y 0 h1 h2 hp
  cases y with
  | nil => simp at h1; subst h1; simp at h2
  | cons y0 ys => simpa using this

end Field
end Tridiag
