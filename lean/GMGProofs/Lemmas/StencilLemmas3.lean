import GMGProofs.Lemmas.StencilLemmas2
/-!
# Stencil lemmas 3 — scatter = gather, one target position class at a time
-/
set_option linter.unusedSectionVars false
namespace Stencil
open Finset
variable {K : Type} [_root_.Field K]
variable (o : Op K) (f x : Field K)

/-- interior target rows `0 < a < nr - 1` (covers `a = 1`, `a = nr - 2`, and `nr = 4, 5`) -/
theorem give_eq_take_interior (hnr : 4 ≤ o.nr) (heven : o.nt % 2 = 0)
    (a b : Nat) (ha0 : 0 < a) (ha : a + 1 < o.nr) (hb : b < o.nt) :
    give o f x a b = take o f x a b := by
  obtain ⟨a', rfl⟩ : ∃ a', a = a' + 1 := ⟨a - 1, by omega⟩
  rw [give_formula o x hnr heven f (a' + 1) b (by omega) hb]
  unfold take
  rw [if_pos (⟨ha0, ha⟩ : 0 < a' + 1 ∧ a' + 1 + 1 < o.nr), if_pos ha, if_neg (by omega : ¬ a' + 1 = 0),
    if_pos ha0]
  have e1 : ¬ ((a' + 1 = 0 ∧ o.bc = true) ∨ a' + 1 + 1 = o.nr) := by omega
  have e2 : ¬ (a' + 1 = 0) := by omega
  have e3 : ¬ (a' + 1 + 1 = 0 ∨ (a' + 1 + 1 = 1 ∧ o.bc = true)) := by omega
  have e4 : a' + 2 < o.nr := by omega
  have e5 : ¬ (a' + 1 + 1 = o.nr) := by omega
  simp only [sC, sL, sR, sB, sT, if_neg e1, if_neg e2, if_neg e3, if_neg e5, Nat.add_sub_cancel, if_pos e4]
  simp only [fillC, fillL, fillR, fillB, fillT, coeffs, takeInterior, Nat.add_sub_cancel,
    jm_jp o hb, jp_jm o hb]
  ring

/-- outer Dirichlet row `a = nr - 1` -/
theorem give_eq_take_last (hnr : 4 ≤ o.nr) (heven : o.nt % 2 = 0)
    (a b : Nat) (ha : a + 1 = o.nr) (hb : b < o.nt) :
    give o f x a b = take o f x a b := by
  rw [give_formula o x hnr heven f a b (by omega) hb]
  unfold take
  rw [if_neg (by omega : ¬ (0 < a ∧ a + 1 < o.nr)), if_neg (by omega : ¬ a = 0),
    if_neg (by omega : ¬ a + 1 < o.nr), if_neg (by omega : ¬ a = 0), if_pos (by omega : 0 < a)]
  have e1 : (a = 0 ∧ o.bc = true) ∨ a + 1 = o.nr := Or.inr ha
  have e2 : ¬ (a - 1 + 2 < o.nr) := by omega
  have e3 : ¬ (a = 0) := by omega
  simp only [sC, sR, sB, sT, if_pos e1, if_neg e2, if_neg e3, if_pos ha]
  ring

/-- inner Dirichlet row `a = 0`, `DirBC_Interior = true` -/
theorem give_eq_take_zero_bc (hnr : 4 ≤ o.nr) (heven : o.nt % 2 = 0) (hbc : o.bc = true)
    (b : Nat) (hb : b < o.nt) :
    give o f x 0 b = take o f x 0 b := by
  rw [give_formula o x hnr heven f 0 b (by omega) hb]
  unfold take
  rw [if_neg (by omega : ¬ (0 < 0 ∧ 0 + 1 < o.nr)), if_pos rfl, if_pos hbc,
    if_pos (by omega : 0 + 1 < o.nr), if_pos rfl, if_neg (by omega : ¬ 0 < 0)]
  simp only [sC, sL, sA, sB, sT, hbc, and_self, true_or, or_true, if_true, Nat.zero_add]
  ring

/-- across the origin: `a = 0`, `DirBC_Interior = false`; needs the antipodal symmetry of the angular spacing -/
theorem give_eq_take_zero_across (hnr : 4 ≤ o.nr) (hnt : 2 ≤ o.nt) (heven : o.nt % 2 = 0)
    (hbc : ¬ o.bc = true) (hk : ∀ j, j < o.nt → o.k (ja o j) = o.k j)
    (b : Nat) (hb : b < o.nt) :
    give o f x 0 b = take o f x 0 b := by
  rw [give_formula o x hnr heven f 0 b (by omega) hb]
  unfold take
  rw [if_neg (by omega : ¬ (0 < 0 ∧ 0 + 1 < o.nr)), if_pos rfl, if_neg hbc,
    if_pos (by omega : 0 + 1 < o.nr), if_pos rfl, if_neg (by omega : ¬ 0 < 0)]
  have e1 : ¬ (1 = o.nr) := by omega
  have e2 : ¬ ((1 : Nat) = 0) := by omega
  have k1 : o.k (ja o b) = o.k b := hk b hb
  have k2 : o.k (jm o (ja o b)) = o.k (jm o b) := by
    rw [jm_ja o hnt heven hb]; exact hk _ (jm_lt o (by omega) b)
  simp only [sC, sL, sA, sB, sT, hbc, e1, e2, and_false, or_self, if_true, if_false,
    Nat.zero_add, Bool.false_eq_true]
  simp only [fillC, fillL, fillLAcross, fillBAcross, fillTAcross, coeffs, takeOrigin,
    jm_jp o hb, jp_jm o hb, ja_ja o heven hb, k1, k2]
  ring

/-- **scatter = gather** at every node of the grid -/
theorem give_eq_take' (hnr : 4 ≤ o.nr) (hnt : 2 ≤ o.nt) (heven : o.nt % 2 = 0)
    (hk : o.bc = false → ∀ j, j < o.nt → o.k (ja o j) = o.k j)
    (i j : Nat) (hi : i < o.nr) (hj : j < o.nt) :
    give o f x i j = take o f x i j := by
  rcases (by omega : i = 0 ∨ (0 < i ∧ i + 1 < o.nr) ∨ i + 1 = o.nr) with rfl | ⟨h0, h1⟩ | h
  · by_cases hbc : o.bc = true
    · exact give_eq_take_zero_bc o f x hnr heven hbc j hj
    · exact give_eq_take_zero_across o f x hnr hnt heven hbc (hk (by simpa using hbc)) j hj
  · exact give_eq_take_interior o f x hnr heven i j h0 h1 hj
  · exact give_eq_take_last o f x hnr heven i j h hj

end Stencil
