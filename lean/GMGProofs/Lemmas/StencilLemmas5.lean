import GMGProofs.Lemmas.StencilLemmas4
/-!
# Stencil lemmas 5 — the explicit nodal bilinear forms

`Bform o x y i j` is the closed form of `Bn o x y i j` for `x, y ∈ V0`; it is visibly symmetric.
-/
set_option linter.unusedSectionVars false
namespace Stencil
open Finset
variable {K : Type} [_root_.Field K]

section forms
variable (o : Op K) (x y : Field K)

/-- nodal form of a node with all four neighbours; `h1` and the left values are parameters -/
def Bfull (i j : Nat) (h1 xL yL : K) : K :=
  let h2 := o.h i; let k1 := o.k (jm o j); let k2 := o.k j
  quarter * (h1 + h2) * (k1 + k2) * o.beta i * o.det i j * (x i j * y i j)
  + half * (k1 + k2) / h1 * o.arr i j * ((x i j - xL) * (y i j - yL))
  + half * (k1 + k2) / h2 * o.arr i j * ((x i j - x (i+1) j) * (y i j - y (i+1) j))
  + half * (h1 + h2) / k1 * o.att i j * ((x i j - x i (jm o j)) * (y i j - y i (jm o j)))
  + half * (h1 + h2) / k2 * o.att i j * ((x i j - x i (jp o j)) * (y i j - y i (jp o j)))
  + quarter * o.art i j * ((x i (jp o j) - x i (jm o j)) * (y (i+1) j - yL)
      + (x (i+1) j - xL) * (y i (jp o j) - y i (jm o j)))

/-- nodal form of an origin node `(0, j)`, across-the-origin mode -/
def Bacross (j : Nat) : K :=
  let h1 : K := Scalar.n 2 * o.r0
  let h2 := o.h 0; let k1 := o.k (jm o j); let k2 := o.k j
  quarter * (h1 + h2) * (k1 + k2) * o.beta 0 * o.det 0 j * (x 0 j * y 0 j)
  + half * (k1 + k2) / h1 * o.arr 0 j * ((x 0 j - x 0 (ja o j)) * (y 0 j - y 0 (ja o j)))
  + half * (k1 + k2) / h2 * o.arr 0 j * ((x 0 j - x 1 j) * (y 0 j - y 1 j))
  + half * (h1 + h2) / k1 * o.att 0 j * ((x 0 j - x 0 (jm o j)) * (y 0 j - y 0 (jm o j)))
  + half * (h1 + h2) / k2 * o.att 0 j * ((x 0 j - x 0 (jp o j)) * (y 0 j - y 0 (jp o j)))
  + quarter * o.art 0 j * ((x 0 (jp o j) - x 0 (jm o j)) * y 1 j + x 1 j * (y 0 (jp o j) - y 0 (jm o j)))

/-- closed form of the nodal bilinear form on `V0` -/
def Bform (i j : Nat) : K :=
  if i = 0 then
    (if o.bc = true then half * (o.k (jm o j) + o.k j) / o.h 0 * o.arr 0 j * (x 1 j * y 1 j)
     else Bacross o x y j)
  else if i + 1 = o.nr then
    half * (o.k (jm o j) + o.k j) / o.h (i - 1) * o.arr i j * (x (i - 1) j * y (i - 1) j)
  else Bfull o x y i j (o.h (i - 1)) (x (i - 1) j) (y (i - 1) j)

theorem Bfull_symm (i j : Nat) (h1 xL yL : K) : Bfull o x y i j h1 xL yL = Bfull o y x i j h1 yL xL := by
  unfold Bfull; ring

theorem Bacross_symm (j : Nat) : Bacross o x y j = Bacross o y x j := by
  unfold Bacross; ring

theorem Bform_symm (i j : Nat) : Bform o x y i j = Bform o y x i j := by
  unfold Bform
  split
  · split
    · ring
    · exact Bacross_symm o x y j
  · split
    · ring
    · exact Bfull_symm o x y i j _ _ _

theorem Bn_eq_Bform (hnr : 4 ≤ o.nr) (hx : V0 o x) (hy : V0 o y) (i j : Nat) (hi : i < o.nr) :
    Bn o x y i j = Bform o x y i j := by
  unfold Bn Bform
  by_cases hint : 1 < i ∧ i + 2 < o.nr
  · rw [giveNode_int o x j hint, if_neg (by omega), if_neg (by omega)]
    simp only [List.map_cons, List.map_nil, List.sum_cons, List.sum_nil,
      fillC, fillL, fillR, fillB, fillT, coeffs, Bfull]
    ring
  · rcases (by omega : i = 0 ∨ i = 1 ∨ (1 < i ∧ i + 2 = o.nr) ∨ (1 < i ∧ i + 1 = o.nr)) with
      rfl | rfl | ⟨h1, h2⟩ | ⟨h1, h2⟩
    · rw [if_pos rfl]
      by_cases hbc : o.bc = true
      · have hx0 := hx.2 hbc
        have hy0 := hy.2 hbc
        rw [giveNode_zero_bc o x j hnr hbc, if_pos hbc]
        simp only [List.map_cons, List.map_nil, List.sum_cons, List.sum_nil, fillR, coeffs, hx0, hy0,
          Nat.zero_add]
        ring
      · rw [giveNode_zero_across o x j hnr hbc, if_neg hbc]
        simp only [List.map_cons, List.map_nil, List.sum_cons, List.sum_nil, Nat.zero_add,
          fillC, fillLAcross, fillR, fillBAcross, fillTAcross, coeffs, Bacross]
        ring
    · rw [if_neg (by omega), if_neg (by omega)]
      by_cases hbc : o.bc = true
      · have hx0 := hx.2 hbc
        have hy0 := hy.2 hbc
        rw [giveNode_one_bc o x j hnr hbc]
        simp only [List.map_cons, List.map_nil, List.sum_cons, List.sum_nil, Nat.sub_self,
          fillC, fillR, fillB, fillT, coeffs, Bfull, hx0, hy0]
        ring
      · rw [giveNode_one_across o x j hnr hbc]
        simp only [List.map_cons, List.map_nil, List.sum_cons, List.sum_nil, Nat.sub_self,
          fillC, fillL, fillR, fillB, fillT, coeffs, Bfull]
        ring
    · have hxN : ∀ j, x (i + 1) j = 0 := fun j => by
        have := hx.1 j; rwa [show o.nr - 1 = i + 1 by omega] at this
      have hyN : ∀ j, y (i + 1) j = 0 := fun j => by
        have := hy.1 j; rwa [show o.nr - 1 = i + 1 by omega] at this
      rw [giveNode_penult o x j h1 h2, if_neg (by omega), if_neg (by omega)]
      simp only [List.map_cons, List.map_nil, List.sum_cons, List.sum_nil,
        fillC, fillL, fillB, fillT, coeffs, Bfull, hxN, hyN]
      ring
    · have hxN : ∀ j, x i j = 0 := fun j => by
        have := hx.1 j; rwa [show o.nr - 1 = i by omega] at this
      have hyN : ∀ j, y i j = 0 := fun j => by
        have := hy.1 j; rwa [show o.nr - 1 = i by omega] at this
      rw [giveNode_last o x j h1 h2, if_neg (by omega), if_pos h2]
      simp only [List.map_cons, List.map_nil, List.sum_cons, List.sum_nil, fillL, coeffs, hxN, hyN]
      ring

end forms
end Stencil
