import GMGProofs.Lemmas.SmootherGiveCode8
/-!
# Code-level smoother (give), lemmas 9 — the four phases of `smoothingSequential` against `SmootherCode.sweep`

* `orthoBlackCircles_on/off … orthoWhiteRadials_on/off`: the four scatter passes in the vocabulary of the sweep;
* `colour lists`: `blackCircles`, `whiteCircles`, `blackRadials`, `whiteRadials` are duplicate free, of one parity, and are
  exactly the lines of the corresponding colour;
* `sweepState_spec`: the give sweep returns the iterate of the take sweep (or both take the sparse LU's exit).
-/
set_option linter.unusedSimpArgs false
set_option linter.unusedSectionVars false
set_option linter.unusedVariables false
namespace SmootherGiveCode
open Stencil SmootherCode Finset
variable {K : Type} [_root_.Field K]

section
variable (o : Op K) (nc : Nat)

/-! ### the colour lists -/

theorem mem_blackCircles {i : Nat} : i ∈ blackCircles nc ↔ i < nc ∧ (nc - 1 - i) % 2 = 0 := by
  simp [blackCircles]
theorem mem_whiteCircles {i : Nat} : i ∈ whiteCircles nc ↔ i < nc ∧ (nc - 1 - i) % 2 = 1 := by
  simp [whiteCircles]
theorem mem_blackRadials {nt j : Nat} : j ∈ blackRadials nt ↔ j < nt ∧ j % 2 = 0 := by
  simp [blackRadials]
theorem mem_whiteRadials {nt j : Nat} : j ∈ whiteRadials nt ↔ j < nt ∧ j % 2 = 1 := by
  simp [whiteRadials]

theorem nodup_blackCircles : (blackCircles nc).Nodup := List.nodup_range.filter _
theorem nodup_whiteCircles : (whiteCircles nc).Nodup := List.nodup_range.filter _
theorem nodup_blackRadials (nt : Nat) : (blackRadials nt).Nodup := List.nodup_range.filter _
theorem nodup_whiteRadials (nt : Nat) : (whiteRadials nt).Nodup := List.nodup_range.filter _

theorem black_colour {i : Nat} (h : i ∈ blackCircles nc) : circleColour nc i = .black := by
  have := (mem_blackCircles nc).mp h
  rw [circleColour_black_iff]; omega
theorem white_colour {i : Nat} (h : i ∈ whiteCircles nc) : circleColour nc i = .white := by
  have := (mem_whiteCircles nc).mp h
  rw [circleColour_white_iff]; omega
theorem colour_black {i : Nat} (hi : i < nc) (h : circleColour nc i = .black) : i ∈ blackCircles nc := by
  rw [circleColour_black_iff] at h
  exact (mem_blackCircles nc).mpr ⟨hi, by omega⟩
theorem colour_white {i : Nat} (hi : i < nc) (h : circleColour nc i = .white) : i ∈ whiteCircles nc := by
  rw [circleColour_white_iff] at h
  exact (mem_whiteCircles nc).mpr ⟨hi, by omega⟩

/-! ### the four scatter passes -/

theorem orthoBlackCircles_size (x t : Array K) : (orthoBlackCircles o nc x t).size = t.size := applyAll_size _ _ _
theorem orthoWhiteCircles_size (x t : Array K) : (orthoWhiteCircles o nc x t).size = t.size := applyAll_size _ _ _
theorem orthoBlackRadials_size (f : Stencil.Field K) (x t : Array K) : (orthoBlackRadials o nc f x t).size = t.size :=
  applyAll_size _ _ _
theorem orthoWhiteRadials_size (f : Stencil.Field K) (x t : Array K) : (orthoWhiteRadials o nc f x t).size = t.size :=
  applyAll_size _ _ _

theorem orthoBlackCircles_on (hnc : 2 ≤ nc) (hnr : nc + 3 ≤ o.nr) (hnt : 0 < o.nt) (f : Stencil.Field K) (x t : Array K)
    (ht : t.size = o.nr * o.nt) (p q : Nat) (hp : p ∈ blackCircles nc) (hq : q < o.nt) (hf : fld o.nt t p q = f p q) :
    fld o.nt (orthoBlackCircles o nc x t) p q = orthoCircle o nc f (fld o.nt x) p q := by
  have hp' := ((mem_blackCircles nc).mp hp).1
  unfold orthoBlackCircles
  rw [← black_colour nc hp]
  exact circlePass_on o nc hnc hnr hnt f _ t p q hp' hq (by rw [ht]; exact idx_lt (by omega) hq) hf

theorem orthoBlackCircles_off (hnc : 2 ≤ nc) (hnr : nc + 3 ≤ o.nr) (hnt : 0 < o.nt) (x t : Array K)
    (ht : t.size = o.nr * o.nt) (p q : Nat) (hp : p < o.nr) (hq : q < o.nt) (hoff : p ∉ blackCircles nc) :
    fld o.nt (orthoBlackCircles o nc x t) p q = fld o.nt t p q := by
  unfold orthoBlackCircles
  exact circlePass_off o nc hnc hnt .black _ (nc + 1) (le_refl _) t p q hq (by rw [ht]; exact idx_lt hp hq)
    (fun h => hoff (colour_black nc h.1 h.2))

theorem orthoWhiteCircles_on (hnc : 2 ≤ nc) (hnr : nc + 3 ≤ o.nr) (hnt : 0 < o.nt) (f : Stencil.Field K) (x t : Array K)
    (ht : t.size = o.nr * o.nt) (p q : Nat) (hp : p ∈ whiteCircles nc) (hq : q < o.nt) (hf : fld o.nt t p q = f p q) :
    fld o.nt (orthoWhiteCircles o nc x t) p q = orthoCircle o nc f (fld o.nt x) p q := by
  have hp' := ((mem_whiteCircles nc).mp hp).1
  unfold orthoWhiteCircles
  rw [whitePass_range o nc hnc, ← white_colour nc hp]
  exact circlePass_on o nc hnc hnr hnt f _ t p q hp' hq (by rw [ht]; exact idx_lt (by omega) hq) hf

theorem orthoWhiteCircles_off (hnc : 2 ≤ nc) (hnr : nc + 3 ≤ o.nr) (hnt : 0 < o.nt) (x t : Array K)
    (ht : t.size = o.nr * o.nt) (p q : Nat) (hp : p < o.nr) (hq : q < o.nt) (hoff : p ∉ whiteCircles nc) :
    fld o.nt (orthoWhiteCircles o nc x t) p q = fld o.nt t p q := by
  unfold orthoWhiteCircles
  exact circlePass_off o nc hnc hnt .white _ nc (by omega) t p q hq (by rw [ht]; exact idx_lt hp hq)
    (fun h => hoff (colour_white nc h.1 h.2))

theorem orthoBlackRadials_on (hnc : 2 ≤ nc) (hnr : nc + 3 ≤ o.nr) (heven : o.nt % 2 = 0) (f : Stencil.Field K)
    (x t : Array K) (ht : t.size = o.nr * o.nt) (p q : Nat) (hp : nc ≤ p) (hp' : p < o.nr) (hq : q ∈ blackRadials o.nt)
    (hf : fld o.nt t p q = f p q) :
    fld o.nt (orthoBlackRadials o nc f x t) p q = orthoRadial o nc f (fld o.nt x) p q := by
  have hq' := mem_blackRadials.mp hq
  unfold orthoBlackRadials
  rw [← (radialColour_black_iff q).mpr hq'.2]
  exact radialPass_on o nc hnc hnr heven f _ t p q hp hp' hq'.1 (by rw [ht]; exact idx_lt hp' hq'.1) hf

theorem orthoBlackRadials_off (hnc : 2 ≤ nc) (hnr : nc + 3 ≤ o.nr) (heven : o.nt % 2 = 0) (f : Stencil.Field K)
    (x t : Array K) (ht : t.size = o.nr * o.nt) (p q : Nat) (hp : p < o.nr) (hq : q < o.nt)
    (hoff : ¬ (nc ≤ p ∧ q ∈ blackRadials o.nt)) :
    fld o.nt (orthoBlackRadials o nc f x t) p q = fld o.nt t p q := by
  unfold orthoBlackRadials
  exact radialPass_off o nc hnc hnr heven .black f _ t p q hq (by rw [ht]; exact idx_lt hp hq)
    (fun h => hoff ⟨h.1, mem_blackRadials.mpr ⟨hq, (radialColour_black_iff q).mp h.2⟩⟩)

theorem orthoWhiteRadials_on (hnc : 2 ≤ nc) (hnr : nc + 3 ≤ o.nr) (heven : o.nt % 2 = 0) (f : Stencil.Field K)
    (x t : Array K) (ht : t.size = o.nr * o.nt) (p q : Nat) (hp : nc ≤ p) (hp' : p < o.nr) (hq : q ∈ whiteRadials o.nt)
    (hf : fld o.nt t p q = f p q) :
    fld o.nt (orthoWhiteRadials o nc f x t) p q = orthoRadial o nc f (fld o.nt x) p q := by
  have hq' := mem_whiteRadials.mp hq
  unfold orthoWhiteRadials
  rw [← (radialColour_white_iff q).mpr hq'.2]
  exact radialPass_on o nc hnc hnr heven f _ t p q hp hp' hq'.1 (by rw [ht]; exact idx_lt hp' hq'.1) hf

/-! ### the sweep -/

/-- **`smoothingSequential` of the give strategy returns the iterate of the take strategy** (or both reach the sparse LU's
    exit): `sweepState` in terms of the folds of `SmootherCode.sweep` -/
theorem sweepState_spec (hnc : 2 ≤ nc) (hnr : nc + 3 ≤ o.nr) (hnt : 3 ≤ o.nt) (heven : o.nt % 2 = 0)
    (hk : o.bc = false → ∀ j, j < o.nt → o.k (ja o j) = o.k j) (tiny : K → Bool) (f : Stencil.Field K) (x : Array K)
    (hx : x.size = o.nr * o.nt) :
    (sweepState o nc tiny f x).map (·.1) = SmootherCode.sweep o tiny nc f x := by
  have hnt0 : 0 < o.nt := by omega
  unfold sweepState SmootherCode.sweep
  simp only
  -- phase 1: black circles
  have ht0 : (ofField o.nr o.nt f).size = o.nr * o.nt := size_ofField _ _ _
  have hf0 : ∀ p q, p < o.nr → q < o.nt → fld o.nt (ofField o.nr o.nt f) p q = f p q := fld_ofField o.nr o.nt f
  have hs1 : (orthoBlackCircles o nc x (ofField o.nr o.nt f)).size = o.nr * o.nt := by rw [orthoBlackCircles_size, ht0]
  rcases circle_fold o nc hnc hnr hnt heven hk tiny f ((nc - 1) % 2) (blackCircles nc) (nodup_blackCircles nc)
      (fun i hi => by have := (mem_blackCircles nc).mp hi; exact ⟨this.1, by omega⟩)
      x (orthoBlackCircles o nc x (ofField o.nr o.nt f)) hx hs1
      (fun i hi q hq => orthoBlackCircles_on o nc hnc hnr hnt0 f x _ ht0 i q hi hq
        (hf0 i q (by have := (mem_blackCircles nc).mp hi; omega) hq))
    with ⟨h1, h2⟩ | ⟨a1, t1, h1, h2, ha1, ht1, hoff1⟩
  · rw [h1, h2, circleStep_none]; rfl
  rw [h1, h2]
  simp only [Option.bind_some]
  -- phase 2: white circles
  have hf1 : ∀ p q, p < o.nr → q < o.nt → p ∉ blackCircles nc → fld o.nt t1 p q = f p q := by
    intro p q hp hq hpb
    rw [hoff1 p q hp hq hpb, orthoBlackCircles_off o nc hnc hnr hnt0 x _ ht0 p q hp hq hpb, hf0 p q hp hq]
  have hbw : ∀ p, p ∈ whiteCircles nc → p ∉ blackCircles nc := by
    intro p hw hb
    have h1 := (mem_whiteCircles nc).mp hw
    have h2 := (mem_blackCircles nc).mp hb
    omega
  have hs2 : (orthoWhiteCircles o nc a1 t1).size = o.nr * o.nt := by rw [orthoWhiteCircles_size, ht1]
  rcases circle_fold o nc hnc hnr hnt heven hk tiny f (nc % 2) (whiteCircles nc) (nodup_whiteCircles nc)
      (fun i hi => by have := (mem_whiteCircles nc).mp hi; exact ⟨this.1, by omega⟩)
      a1 (orthoWhiteCircles o nc a1 t1) ha1 hs2
      (fun i hi q hq => orthoWhiteCircles_on o nc hnc hnr hnt0 f a1 t1 ht1 i q hi hq
        (hf1 i q (by have := (mem_whiteCircles nc).mp hi; omega) hq (hbw i hi)))
    with ⟨h3, h4⟩ | ⟨a2, t2, h3, h4, ha2, ht2, hoff2⟩
  · rw [h3, h4]; rfl
  rw [h3, h4]
  simp only [Option.map_some, Option.some.injEq]
  -- phase 3: black radial lines
  have hf2 : ∀ p q, nc ≤ p → p < o.nr → q < o.nt → fld o.nt t2 p q = f p q := by
    intro p q hpc hp hq
    have hnw : p ∉ whiteCircles nc := fun h => by have := (mem_whiteCircles nc).mp h; omega
    have hnb : p ∉ blackCircles nc := fun h => by have := (mem_blackCircles nc).mp h; omega
    rw [hoff2 p q hp hq hnw, orthoWhiteCircles_off o nc hnc hnr hnt0 a1 t1 ht1 p q hp hq hnw, hf1 p q hp hq hnb]
  have hs3 : (orthoBlackRadials o nc f a2 t2).size = o.nr * o.nt := by rw [orthoBlackRadials_size, ht2]
  obtain ⟨t3, h5, ht3, hoff3⟩ := radial_fold o nc hnc hnr hnt heven f 0 (blackRadials o.nt) (nodup_blackRadials o.nt)
    (fun j hj => mem_blackRadials.mp hj) a2 (orthoBlackRadials o nc f a2 t2) ha2 hs3
    (fun j hj s hs => orthoBlackRadials_on o nc hnc hnr heven f a2 t2 ht2 (nc + s) j (by omega) (by omega) hj
      (hf2 (nc + s) j (by omega) (by omega) (mem_blackRadials.mp hj).1))
  rw [h5]
  simp only
  -- phase 4: white radial lines
  have ha3 : ((blackRadials o.nt).foldl (radialStep o nc f) a2).size = o.nr * o.nt := by
    rw [radial_fold_size, ha2]
  have hf3 : ∀ p q, nc ≤ p → p < o.nr → q ∈ whiteRadials o.nt → fld o.nt t3 p q = f p q := by
    intro p q hpc hp hq
    have hq' := mem_whiteRadials.mp hq
    have hnb : ¬ (nc ≤ p ∧ q ∈ blackRadials o.nt) := fun h => by have := mem_blackRadials.mp h.2; omega
    rw [hoff3 p q hp hq'.1 hnb, orthoBlackRadials_off o nc hnc hnr heven f a2 t2 ht2 p q hp hq'.1 hnb,
      hf2 p q hpc hp hq'.1]
  have hs4 : (orthoWhiteRadials o nc f ((blackRadials o.nt).foldl (radialStep o nc f) a2) t3).size = o.nr * o.nt := by
    rw [orthoWhiteRadials_size, ht3]
  obtain ⟨t4, h6, _, _⟩ := radial_fold o nc hnc hnr hnt heven f 1 (whiteRadials o.nt) (nodup_whiteRadials o.nt)
    (fun j hj => mem_whiteRadials.mp hj) _ (orthoWhiteRadials o nc f ((blackRadials o.nt).foldl (radialStep o nc f) a2) t3)
    ha3 hs4
    (fun j hj s hs => orthoWhiteRadials_on o nc hnc hnr heven f _ t3 ht3 (nc + s) j (by omega) (by omega) hj
      (hf3 (nc + s) j (by omega) (by omega) hj))
  rw [h6]

end
end SmootherGiveCode
