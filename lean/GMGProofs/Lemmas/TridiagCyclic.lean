import GMGProofs.Lemmas.TridiagSPD
/-!
# Helper lemmas for C14, part 3: the cyclic solver (Sherman–Morrison on lists)
-/
namespace Tridiag

/-! ### `setHead`, `setLast` -/
section Lists
variable {α : Type}

@[simp] theorem setHead_length (xs : List α) (f : α → α) : (setHead xs f).length = xs.length := by
  cases xs <;> simp [setHead]

@[simp] theorem setLast_length : ∀ (xs : List α) (f : α → α), (setLast xs f).length = xs.length
  | [], _ => rfl
  | [_], _ => rfl
  | x :: y :: ys, f => by simp [setLast, setLast_length (y :: ys) f]

theorem ne_nil_of_length_eq_succ {l : List α} {n : Nat} (h : l.length = n + 1) : l ≠ [] := by
  intro e; rw [e] at h; simp at h

theorem setLast_cons_of_ne_nil (x : α) {T : List α} (h : T ≠ []) (f : α → α) :
    setLast (x :: T) f = x :: setLast T f := by
  cases T with
  | nil => exact absurd rfl h
  | cons y ys => rfl

theorem setLast_setLast : ∀ (xs : List α) (f g : α → α),
    setLast (setLast xs f) g = setLast xs (fun v => g (f v))
  | [], _, _ => rfl
  | [_], _, _ => rfl
  | x :: y :: ys, f, g => by
      have hne : setLast (y :: ys) f ≠ [] := ne_nil_of_length_eq_succ (n := ys.length) (by simp)
      show setLast (x :: setLast (y :: ys) f) g = x :: setLast (y :: ys) _
      rw [setLast_cons_of_ne_nil x hne, setLast_setLast (y :: ys) f g]

/-- two successive (head, last) updates of a list of length ≥ 2 fuse -/
theorem setLast_setHead_twice (T : List α) (h : 2 ≤ T.length) (f1 f2 g1 g2 : α → α) :
    setLast (setHead (setLast (setHead T f1) f2) g1) g2
      = setLast (setHead T (fun v => g1 (f1 v))) (fun v => g2 (f2 v)) := by
  match T, h with
  | t0 :: t1 :: ts, _ =>
    have hne : setLast (t1 :: ts) f2 ≠ [] := ne_nil_of_length_eq_succ (n := ts.length) (by simp)
    show setLast (setHead (f1 t0 :: setLast (t1 :: ts) f2) g1) g2 = g1 (f1 t0) :: setLast (t1 :: ts) _
    show setLast (g1 (f1 t0) :: setLast (t1 :: ts) f2) g2 = _
    rw [setLast_cons_of_ne_nil _ hne, setLast_setLast]
  | [], h => simp at h
  | [_], h => simp at h

theorem getLastD_cons_cons (x y : α) (ys : List α) (d : α) :
    (x :: y :: ys).getLastD d = (y :: ys).getLastD d := by
  simp

theorem zipWith_cancel {β : Type} (g : α → β → α) (h : α → β → α) (hc : ∀ s t, g (h s t) t = s) :
    ∀ (y : List α) (u : List β), y.length = u.length → List.zipWith g (List.zipWith h y u) u = y
  | [], [], _ => rfl
  | y :: ys, u :: us, hl => by
      simp only [List.zipWith_cons_cons, hc]
      rw [zipWith_cancel g h hc ys us (by simpa using hl)]
  | [], _ :: _, hl => by simp at hl
  | _ :: _, [], hl => by simp at hl

theorem headD_zipWith {β γ : Type} (f : α → β → γ) (x : α) (xs : List α) (u : β) (us : List β) (d : γ) :
    (List.zipWith f (x :: xs) (u :: us)).headD d = f x u := rfl

theorem getLastD_zipWith {β γ : Type} (f : α → β → γ) : ∀ (x : α) (xs : List α) (u : β) (us : List β)
    (d : γ), xs.length = us.length →
    (List.zipWith f (x :: xs) (u :: us)).getLastD d = f ((x :: xs).getLastD x) ((u :: us).getLastD u)
  | x, [], u, [], d, _ => by simp
  | x, x' :: xs, u, u' :: us, d, hl => by
      have ih := getLastD_zipWith f x' xs u' us d (by simpa using hl)
      simp only [List.zipWith_cons_cons, List.getLastD_cons] at ih ⊢
      exact ih
  | _, [], _, _ :: _, _, hl => by simp at hl
  | _, _ :: _, _, [], _, hl => by simp at hl

end Lists

/-! ### the tridiagonal product under updates of the diagonal, and linearity -/
section Field
variable {K : Type} [Field K]

theorem mulT_length (a b x : List K) (h1 : a.length = x.length) (h2 : b.length + 1 = a.length) :
    ∀ p : K, (mulT a b x p).length = a.length := by
  refine tri_induction (motive := fun a b x => ∀ p : K, (mulT a b x p).length = a.length) ?_ ?_ a b x h1 h2
  · intro a x p; simp [mulT]
  · intro a a' as b bs x x' xs _ _ ih p
    simp only [mulT, List.length_cons, ih]

theorem mulT_setHead_sub (d : K) (a b x : List K) (h1 : a.length = x.length)
    (h2 : b.length + 1 = a.length) (p : K) :
    mulT (setHead a (fun v => v - d)) b x p = setHead (mulT a b x p) (fun v => v - d * x.headD 0) := by
  refine tri_induction (motive := fun a b x => ∀ p : K,
    mulT (setHead a (fun v => v - d)) b x p = setHead (mulT a b x p) (fun v => v - d * x.headD 0))
    ?_ ?_ a b x h1 h2 p
  · intro a x p; simp only [setHead, mulT, List.headD_cons]; congr 1; ring
  · intro a a' as b bs x x' xs _ _ _ p
    simp only [setHead, mulT, List.headD_cons]; congr 1; ring

theorem mulT_setLast_sub (d : K) (a b x : List K) (h1 : a.length = x.length)
    (h2 : b.length + 1 = a.length) (p : K) :
    mulT (setLast a (fun v => v - d)) b x p
      = setLast (mulT a b x p) (fun v => v - d * x.getLastD 0) := by
  refine tri_induction (motive := fun a b x => ∀ p : K,
    mulT (setLast a (fun v => v - d)) b x p = setLast (mulT a b x p) (fun v => v - d * x.getLastD 0))
    ?_ ?_ a b x h1 h2 p
  · intro a x p; simp only [setLast, mulT, List.getLastD_cons, List.getLastD_nil]; congr 1; ring
  · intro a a' as b bs x x' xs hx hb ih p
    have hne : mulT (a' :: as) bs (x' :: xs) (b * x) ≠ [] :=
      ne_nil_of_length_eq_succ (n := as.length)
        (by rw [mulT_length _ _ _ (by simp [hx]) (by simp [hb])]; simp)
    show mulT (a :: setLast (a' :: as) _) (b :: bs) (x :: x' :: xs) p = _
    simp only [mulT]
    rw [setLast_cons_of_ne_nil _ hne, ih, getLastD_cons_cons]

/-- linearity of the product in the vector (with the carries combined in the same way) -/
theorem mulT_axpy (f : K) (a b x : List K) (h1 : a.length = x.length) (h2 : b.length + 1 = a.length) :
    ∀ (u : List K) (p1 p2 : K), u.length = x.length →
      mulT a b (List.zipWith (fun xi ui => xi - f * ui) x u) (p1 - f * p2)
        = List.zipWith (fun s t => s - f * t) (mulT a b x p1) (mulT a b u p2) := by
  refine tri_induction (motive := fun a b x => ∀ (u : List K) (p1 p2 : K), u.length = x.length →
      mulT a b (List.zipWith (fun xi ui => xi - f * ui) x u) (p1 - f * p2)
        = List.zipWith (fun s t => s - f * t) (mulT a b x p1) (mulT a b u p2)) ?_ ?_ a b x h1 h2
  · intro a x u p1 p2 hu
    match u, hu with
    | [u], _ => simp only [List.zipWith_cons_cons, List.zipWith_nil_right, mulT]; congr 1; ring
    | [], hu => simp at hu
    | _ :: _ :: _, hu => simp at hu
  · intro a a' as b bs x x' xs _ _ ih u p1 p2 hu
    match u, hu with
    | u :: u' :: us, hu =>
      have := ih (u' :: us) (b * x) (b * u) (by simpa using hu)
      have e : b * (x - f * u) = b * x - f * (b * u) := by ring
      simp only [List.zipWith_cons_cons, mulT] at this ⊢
      rw [e, this]; congr 1; ring
    | [], hu => simp at hu
    | [_], hu => simp at hu

theorem zipWith_replicate_last (v c : K) : ∀ (m : Nat) (T : List K), T.length = m + 1 →
    List.zipWith (fun t u => t + u * v) T (List.replicate m 0 ++ [c]) = setLast T (fun t => t + c * v)
  | 0, [t], _ => by simp [setLast]
  | m + 1, t :: t' :: ts, h => by
      have ih := zipWith_replicate_last v c m (t' :: ts) (by simpa using h)
      simp only [List.replicate_succ, List.cons_append, List.zipWith_cons_cons, ih]
      show _ = t :: setLast (t' :: ts) _
      simp
  | 0, [], h => by simp at h
  | 0, _ :: _ :: _, h => by simp at h
  | _ + 1, [], h => by simp at h
  | _ + 1, [_], h => by simp at h

theorem uRhs_length (n : Nat) (g c : K) : (uRhs n g c).length = n := by
  match n with
  | 0 => rfl
  | 1 => rfl
  | n + 2 => simp [uRhs]

/-- `T + u vᵀ` only touches the first and the last row -/
theorem zipWith_uRhs (v g c : K) (T : List K) (n : Nat) (h : T.length = n) (hn : 2 ≤ n) :
    List.zipWith (fun t u => t + u * v) T (uRhs n g c)
      = setLast (setHead T (fun t => t + g * v)) (fun t => t + c * v) := by
  obtain ⟨m, rfl⟩ : ∃ m, n = m + 2 := ⟨n - 2, by omega⟩
  match T, h with
  | t0 :: t1 :: ts, h =>
    simp only [uRhs, Scalar.n_zero, List.zipWith_cons_cons]
    rw [zipWith_replicate_last v c m (t1 :: ts) (by simpa using h)]
    rfl
  | [], h => simp at h
  | [_], h => simp at h


/-! ### Sherman–Morrison data exactly as in `solveCyclic` -/

/-- `γ = -main(0)` -/
def gam (a : List K) : K := -(a.headD 0)

/-- diagonal of `B = A - u vᵀ`: `a₀ - γ`, `a₁ … a_{n-2}`, `a_{n-1} - c²/γ` -/
def diagB (a : List K) (c : K) : List K :=
  setLast (setHead a (fun v => v - gam a)) (fun v => v - c * c / gam a)

/-- `v · x` with `v = (1, 0, …, 0, c/γ)` -/
def vdot (a : List K) (c : K) (x : List K) : K := x.headD 0 + c / gam a * x.getLastD 0

/-- `q = B⁻¹ u` as the model computes it (three passes on the stored factorisation of `B`) -/
def qB (a b : List K) (c : K) : List K :=
  subst (factor (diagB a c) b).1 (factor (diagB a c) b).2 (uRhs a.length (gam a) c)

@[simp] theorem diagB_length (a : List K) (c : K) : (diagB a c).length = a.length := by simp [diagB]

/-- what a fresh cyclic solver returns -/
theorem solve_mk_cyclic (a b : List K) (c : K) (y : List K) (h2 : b.length + 1 = a.length) :
    (solve (mk a b c true) y).2 =
      List.zipWith (fun xi ui => xi -
          vdot a c (subst (factor (diagB a c) b).1 (factor (diagB a c) b).2 y) / (1 + vdot a c (qB a b c)) * ui)
        (subst (factor (diagB a c) b).1 (factor (diagB a c) b).2 y) (qB a b c) := by
  have hl : (factor (diagB a c) b).1.length = a.length := by
    rw [factor_fst_length _ _ (by simpa using h2)]; simp
  simp only [solve, mk, solveCyclic, Bool.false_eq_true, if_false, if_true, Scalar.n_zero, Scalar.n_one]
  simp only [qB, vdot, gam, diagB] at hl ⊢
  rw [hl]

/-- `A = B + u vᵀ` on lists -/
theorem mulC_decomp (a b : List K) (c : K) (r : List K) (h1 : a.length = r.length)
    (h2 : b.length + 1 = a.length) (hn : 2 ≤ a.length) (ha : a.headD 0 ≠ 0) :
    mulC a b c r = List.zipWith (fun t u => t + u * vdot a c r) (mulT (diagB a c) b r 0)
      (uRhs a.length (gam a) c) := by
  have hg : gam a ≠ 0 := by unfold gam; exact neg_ne_zero.mpr ha
  have hT : (mulT a b r 0).length = a.length := mulT_length a b r h1 h2 0
  unfold diagB
  rw [mulT_setLast_sub _ _ b r (by simpa using h1) (by simpa using h2),
    mulT_setHead_sub _ a b r h1 h2]
  rw [zipWith_uRhs _ _ _ _ a.length (by simp [hT]) hn]
  rw [setLast_setHead_twice _ (by omega)]
  unfold mulC
  simp only [Scalar.n_zero]
  have e1 : (fun v : K => v - gam a * r.headD 0 + gam a * vdot a c r) = (fun v => v + c * r.getLastD 0) := by
    funext v; unfold vdot; field_simp; ring
  have e2 : (fun v : K => v - c * c / gam a * r.getLastD 0 + c * vdot a c r) = (fun v => v + c * r.headD 0) := by
    funext v; unfold vdot; field_simp; ring
  rw [e1, e2]

theorem vdot_axpy (a : List K) (c f : K) (x q : List K) (hl : x.length = q.length) (hx : x ≠ []) :
    vdot a c (List.zipWith (fun xi ui => xi - f * ui) x q) = vdot a c x - f * vdot a c q := by
  match x, q, hl, hx with
  | x0 :: xs, q0 :: qs, hl, _ =>
    unfold vdot
    rw [getLastD_zipWith _ _ _ _ _ _ (by simpa using hl), headD_zipWith]
    simp only [List.headD_cons, List.getLastD_cons]
    ring
  | [], _, _, hx => exact absurd rfl hx
  | _ :: _, [], hl, _ => simp at hl

/-- the recombination step: if `B x = y` and `B q = u` and `1 + v·q ≠ 0` then
    `x - (v·x)/(1 + v·q) q` solves the cyclic system -/
theorem sherman_morrison (a b : List K) (c : K) (y x q : List K) (h1 : a.length = y.length)
    (h2 : b.length + 1 = a.length) (hn : 2 ≤ a.length) (ha : a.headD 0 ≠ 0)
    (hxl : x.length = a.length) (hql : q.length = a.length)
    (hx : mulT (diagB a c) b x 0 = y) (hq : mulT (diagB a c) b q 0 = uRhs a.length (gam a) c)
    (hden : 1 + vdot a c q ≠ 0) :
    mulC a b c (List.zipWith (fun xi ui => xi - vdot a c x / (1 + vdot a c q) * ui) x q) = y := by
  set f := vdot a c x / (1 + vdot a c q) with hf
  have hxne : x ≠ [] := by intro e; rw [e] at hxl; simp at hxl; omega
  have hr : (List.zipWith (fun xi ui => xi - f * ui) x q).length = a.length := by
    simp [hxl, hql]
  rw [mulC_decomp a b c _ hr.symm h2 hn ha]
  have lin := mulT_axpy f (diagB a c) b x (by simp [hxl]) (by simpa using h2) q 0 0 (by rw [hxl, hql])
  rw [show (0 : K) - f * 0 = 0 by ring] at lin
  rw [lin, hx, hq, vdot_axpy a c f x q (by rw [hxl, hql]) hxne]
  apply zipWith_cancel
  · intro s t
    have : f * (1 + vdot a c q) = vdot a c x := by rw [hf]; field_simp
    linear_combination (-t) * this
  · rw [uRhs_length]; exact h1.symm

end Field
end Tridiag
