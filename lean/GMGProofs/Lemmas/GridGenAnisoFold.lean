import GMGProofs.Lemmas.GridGenAnisoDef
/-!
# `anisoDivision`: set insertion, checked folds, the refinement passes
-/
namespace GridGenL
open GridGen

/-! ## `sins` -/

theorem mem_sins (x y : Rat) : ∀ l : List Rat, y ∈ sins x l ↔ y = x ∨ y ∈ l
  | [] => by simp [sins]
  | z :: zs => by
    unfold sins
    split
    · simp
    · split
      · rename_i h; subst h; simp
      · simp only [List.mem_cons, mem_sins x y zs]; tauto

theorem sins_length_of_not_mem (x : Rat) : ∀ l : List Rat, x ∉ l → (sins x l).length = l.length + 1
  | [], _ => by simp [sins]
  | z :: zs, h => by
    unfold sins
    split
    · simp
    · split
      · rename_i h'; subst h'; simp at h
      · simp only [List.length_cons]
        rw [sins_length_of_not_mem x zs (fun hm => h (List.mem_cons_of_mem _ hm))]

theorem sins_append (x : Rat) : ∀ l : List Rat, (∀ y ∈ l, y < x) → sins x l = l ++ [x]
  | [], _ => by simp [sins]
  | z :: zs, h => by
    have hz : z < x := h z (by simp)
    unfold sins
    rw [if_neg (not_lt.mpr hz.le), if_neg (ne_of_gt hz)]
    rw [sins_append x zs (fun y hy => h y (List.mem_cons_of_mem _ hy))]
    simp

/-! ## checked folds in the `Out` monad -/

theorem foldl_range_inv {σ : Type} (f : Out σ → Nat → Out σ) (step : Nat → σ → Out σ)
    (hf : ∀ acc i, f acc i = acc >>= step i) (Inv : Nat → σ → Prop) :
    ∀ (n : Nat) (s0 : σ), Inv 0 s0 →
      (∀ i, i < n → ∀ s, Inv i s → ∃ s', step i s = .ok s' ∧ Inv (i + 1) s') →
      ∃ s, (List.range n).foldl f (.ok s0) = .ok s ∧ Inv n s := by
  intro n
  induction n with
  | zero => intro s0 h0 _; exact ⟨s0, rfl, h0⟩
  | succ n ih =>
    intro s0 h0 hstep
    obtain ⟨s, hs, hinv⟩ := ih s0 h0 (fun i hi => hstep i (by omega))
    obtain ⟨s', hs', hinv'⟩ := hstep n (by omega) s hinv
    refine ⟨s', ?_, hinv'⟩
    rw [List.range_succ, List.foldl_append, hs]
    simp only [List.foldl_cons, List.foldl_nil]
    rw [hf, ok_bind, hs']

/-! ## arithmetic progressions and checked reads -/

theorem ap_mem_lt (s h : Rat) (n : Nat) (hh : 0 < h) : ∀ y ∈ ap s h n, y < s + (n : Rat) * h := by
  intro y hy
  obtain ⟨i, hi, rfl⟩ := List.getElem_of_mem hy
  simp only [ap_length] at hi
  rw [← getD_eq_getElem _ _ (by simpa using hi), ap_getD _ _ _ _ hi]
  have : (i : Rat) < n := by exact_mod_cast hi
  nlinarith

theorem rd_ap (s h : Rat) (n : Nat) (i : Int) (w : String) (h0 : 0 ≤ i) (h1 : i < n) :
    rd (ap s h n) i w = .ok (s + (i : Rat) * h) := by
  unfold rd
  rw [if_pos (by simp only [ap_length]; omega)]
  rw [ap_getD _ _ _ _ (by omega)]
  congr 3
  have : ((i.toNat : Nat) : Int) = i := Int.toNat_of_nonneg h0
  exact_mod_cast congrArg (fun z : Int => (z : Rat)) this

/-- re-insertion of a window into an arbitrary set: in bounds, result irrelevant -/
theorem readFold_ok (s h : Rat) (N : Nat) (se : Int) (n : Nat) (s0 : List Rat)
    (h0 : 0 ≤ se) (h1 : se + n ≤ N) : ∃ l, An.readFold (ap s h N) se n s0 = .ok l := by
  obtain ⟨l, hl, _⟩ := foldl_range_inv (σ := List Rat) _
    (fun i sacc => rd (ap s h N) (se + (i : Int)) "r_temp2" >>= fun v => pure (sins v sacc))
    (fun _ _ => rfl) (fun _ _ => True) n s0 trivial (by
      intro i hi sacc _
      rw [rd_ap _ _ _ _ _ (by omega) (by omega)]
      exact ⟨_, rfl, trivial⟩)
  exact ⟨l, hl⟩

/-- the window `r_set_p1`: `n` consecutive entries, no merging -/
theorem readFold_nil (s h : Rat) (N : Nat) (se : Int) (n : Nat) (hh : 0 < h)
    (h0 : 0 ≤ se) (h1 : se + n ≤ N) :
    An.readFold (ap s h N) se n [] = .ok (ap (s + (se : Rat) * h) h n) := by
  obtain ⟨l, hl, hinv⟩ := foldl_range_inv (σ := List Rat) _
    (fun i sacc => rd (ap s h N) (se + (i : Int)) "r_temp2" >>= fun v => pure (sins v sacc))
    (fun _ _ => rfl) (fun i sacc => sacc = ap (s + (se : Rat) * h) h i) n [] (by simp [ap]) (by
      intro i hi sacc hs
      rw [rd_ap _ _ _ _ _ (by omega) (by omega)]
      refine ⟨_, rfl, ?_⟩
      subst hs
      rw [sins_append, ap_succ]
      · congr 2; push_cast; ring
      · intro y hy
        have := ap_mem_lt _ _ _ hh y hy
        push_cast; linarith)
  unfold An.readFold
  rw [hl, hinv]

end GridGenL
