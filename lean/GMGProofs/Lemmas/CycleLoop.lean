import GMGProofs.Lemmas.CycleFmg
/-!
# The `solve()` loop: unfolding, stop test, independence of stale object state
core Lean only.
-/
namespace MGCycle
variable {V R : Type}

/-! ## upward-exposed reads of a program -/

/-- references read before being written -/
def exposed : List Instr → List Ref
  | [] => []
  | i :: p => reads i ++ (exposed p).filter (fun r => !(writes i).contains r)

/-- written somewhere in the program -/
def written (p : List Instr) (r : Ref) : Prop := ∃ i ∈ p, r ∈ writes i

theorem writesIn_written (p : List Instr) : WritesIn p (written p) := fun i hi _ hw => ⟨i, hi, hw⟩

theorem exec_not_written (o : Ops V) (p : List Instr) (m : Mem V) (r : Ref) (h : ¬ written p r) :
    exec o p m r = m r := exec_frame o p m r (writesIn_written p) h

/-- two memories that agree on the exposed reads give the same values to everything the program writes -/
theorem exec_congr_exposed (o : Ops V) : ∀ (p : List Instr) (m m' : Mem V),
    (∀ r ∈ exposed p, m r = m' r) → ∀ r, written p r → exec o p m r = exec o p m' r
  | [], _, _, _, r, h => by obtain ⟨i, hi, _⟩ := h; cases hi
  | i :: p, m, m', h, r, hw => by
      have hr : ∀ q ∈ reads i, m q = m' q := fun q hq => h q (by simp [exposed, hq])
      have hnext : ∀ q ∈ exposed p, stepI o m i q = stepI o m' i q := by
        intro q hq
        by_cases hqw : q ∈ writes i
        · exact stepI_congr o m m' i hr q hqw
        · rw [stepI_unwritten o m i q hqw, stepI_unwritten o m' i q hqw]
          exact h q (by simp [exposed, hq, hqw])
      simp only [exec_cons]
      by_cases hp : written p r
      · exact exec_congr_exposed o p _ _ hnext r hp
      · rw [exec_not_written o p _ r hp, exec_not_written o p _ r hp]
        obtain ⟨j, hj, hjw⟩ := hw
        rcases List.mem_cons.1 hj with e | e
        · subst e; exact stepI_congr o m m' j hr r hjw
        · exact absurd ⟨j, e, hjw⟩ hp

/-! ## the residual evaluation of the stop test -/

theorem stopResidual_exposed (ex : Bool) :
    ∀ r ∈ exposed (stopResidual ex), r ∈ [((0, .rhs) : Ref), (0, .sol), (1, .rhs)] := by
  cases ex <;> decide

theorem stopResidual_writes (ex : Bool) :
    WritesIn (stopResidual ex) (fun w => w ∈ [((0, .res) : Ref), (1, .sol), (1, .res)]) := by
  cases ex <;> simp [WritesIn, stopResidual, writes]

theorem stopResidual_written_res (ex : Bool) : written (stopResidual ex) (0, .res) := by
  cases ex <;> exact ⟨.residual 0 (0, .res) (0, .rhs) (0, .sol), by simp [stopResidual], by simp [writes]⟩

/-- references the stop test keeps: everything but `(0,res)`, `(1,sol)`, `(1,res)` -/
theorem stopResidual_frame (o : Ops V) (ex : Bool) (m : Mem V) (r : Ref)
    (h : r ∉ [((0, .res) : Ref), (1, .sol), (1, .res)]) : exec o (stopResidual ex) m r = m r :=
  exec_frame o _ m r (stopResidual_writes ex) h

/-- its result depends on the memory only through `(0,rhs)`, `(0,sol)`, `(1,rhs)` -/
theorem stopResidual_congr (o : Ops V) (ex : Bool) (m m' : Mem V) (h0 : m (0, .rhs) = m' (0, .rhs))
    (h1 : m (0, .sol) = m' (0, .sol)) (h2 : m (1, .rhs) = m' (1, .rhs)) :
    exec o (stopResidual ex) m (0, .res) = exec o (stopResidual ex) m' (0, .res) := by
  refine exec_congr_exposed o _ m m' ?_ _ (stopResidual_written_res ex)
  intro r hr
  have := stopResidual_exposed ex r hr
  simp at this
  rcases this with e | e | e <;> rw [e] <;> assumption

/-- evaluating the stop residual twice gives the same residual -/
theorem stopResidual_idem (o : Ops V) (ex : Bool) (m : Mem V) :
    exec o (stopResidual ex) (exec o (stopResidual ex) m) (0, .res) = exec o (stopResidual ex) m (0, .res) :=
  stopResidual_congr o ex _ _ (stopResidual_frame o ex m _ (by decide)) (stopResidual_frame o ex m _ (by decide))
    (stopResidual_frame o ex m _ (by decide))

/-! ## the loop, one iteration unfolded -/

/-- the relative residual of a test: `1` at the first test, `cur / initial` later -/
def relOf (n : NormOps V R) (pre : List R) (cur : R) : R :=
  match pre.head? with | none => n.one | some initial => n.div cur initial

/-- some tolerance is set -/
def tested (c : SolveCfg R) : Bool := c.absTol.isSome || c.relTol.isSome

def testMem (o : Ops V) (c : SolveCfg R) (s : Obj V R) : Mem V := exec o (stopResidual (c.extrapMode != 0)) s.mem

def testCur (o : Ops V) (n : NormOps V R) (c : SolveCfg R) (s : Obj V R) : R := n.norm (testMem o c s (0, .res))

def testFgs (o : Ops V) (n : NormOps V R) (c : SolveCfg R) (s : Obj V R) : Bool :=
  if (match s.norms.getLast? with
      | some prev => n.ratioGt07 (testCur o n c s) prev && c.extrapMode == 3 && s.fgs
      | none => false) then false else s.fgs

def stopState (o : Ops V) (n : NormOps V R) (c : SolveCfg R) (s : Obj V R) : Obj V R :=
  { s with mem := testMem o c s, fgs := testFgs o n c s, norms := s.norms ++ [testCur o n c s], stoppedEarly := true }

def contState (o : Ops V) (n : NormOps V R) (c : SolveCfg R) (s : Obj V R) : Obj V R :=
  { mem := exec o (cycleAt c.cyc c.kind (c.extrapMode != 0) (testFgs o n c s) 0) (testMem o c s),
    fgs := testFgs o n c s, norms := s.norms ++ [testCur o n c s], iters := s.iters + 1, stoppedEarly := false }

def blindState (o : Ops V) (c : SolveCfg R) (s : Obj V R) : Obj V R :=
  { s with mem := exec o (cycleAt c.cyc c.kind (c.extrapMode != 0) s.fgs 0) s.mem, iters := s.iters + 1,
           stoppedEarly := false }

@[simp] theorem stopState_iters (o : Ops V) (n : NormOps V R) (c : SolveCfg R) (s : Obj V R) :
    (stopState o n c s).iters = s.iters := rfl
@[simp] theorem stopState_norms (o : Ops V) (n : NormOps V R) (c : SolveCfg R) (s : Obj V R) :
    (stopState o n c s).norms = s.norms ++ [testCur o n c s] := rfl
@[simp] theorem stopState_stopped (o : Ops V) (n : NormOps V R) (c : SolveCfg R) (s : Obj V R) :
    (stopState o n c s).stoppedEarly = true := rfl
@[simp] theorem stopState_mem (o : Ops V) (n : NormOps V R) (c : SolveCfg R) (s : Obj V R) :
    (stopState o n c s).mem = testMem o c s := rfl
@[simp] theorem contState_iters (o : Ops V) (n : NormOps V R) (c : SolveCfg R) (s : Obj V R) :
    (contState o n c s).iters = s.iters + 1 := rfl
@[simp] theorem contState_norms (o : Ops V) (n : NormOps V R) (c : SolveCfg R) (s : Obj V R) :
    (contState o n c s).norms = s.norms ++ [testCur o n c s] := rfl
@[simp] theorem blindState_iters (o : Ops V) (c : SolveCfg R) (s : Obj V R) :
    (blindState o c s).iters = s.iters + 1 := rfl
@[simp] theorem blindState_norms (o : Ops V) (c : SolveCfg R) (s : Obj V R) :
    (blindState o c s).norms = s.norms := rfl

@[simp] theorem loop_zero (o : Ops V) (n : NormOps V R) (c : SolveCfg R) (s : Obj V R) : loop o n c 0 s = s := rfl

theorem loop_succ (o : Ops V) (n : NormOps V R) (c : SolveCfg R) (fuel : Nat) (s : Obj V R) :
    loop o n c (fuel + 1) s =
      if tested c then
        if converged n c (testCur o n c s) (relOf n s.norms (testCur o n c s)) then stopState o n c s
        else loop o n c fuel (contState o n c s)
      else loop o n c fuel (blindState o c s) := rfl

/-- the state `solve` enters the loop with -/
def startState (o : Ops V) (c : SolveCfg R) (s : Obj V R) : Obj V R :=
  { mem := exec o (initSolution c.cyc c.fmg c.fmgKind c.fmgIters (c.extrapMode != 0)
              (if c.extrapMode == 3 then true else s.fgs) (c.cyc.levels - 1)) s.mem,
    fgs := if c.extrapMode == 3 then true else s.fgs, norms := [], iters := 0, stoppedEarly := false }

theorem solve_eq (o : Ops V) (n : NormOps V R) (c : SolveCfg R) (s : Obj V R) :
    solve o n c s = loop o n c c.maxit (startState o c s) := rfl

/-! ## budget, number of recorded norms -/

theorem loop_iters_le (o : Ops V) (n : NormOps V R) (c : SolveCfg R) :
    ∀ (fuel : Nat) (s : Obj V R), (loop o n c fuel s).iters ≤ s.iters + fuel
  | 0, s => by simp
  | fuel + 1, s => by
      rw [loop_succ]
      split
      · split
        · simp
        · have := loop_iters_le o n c fuel (contState o n c s)
          rw [contState_iters] at this; omega
      · have := loop_iters_le o n c fuel (blindState o c s)
        rw [blindState_iters] at this; omega

theorem loop_norms_length (o : Ops V) (n : NormOps V R) (c : SolveCfg R) :
    ∀ (fuel : Nat) (s : Obj V R), (loop o n c fuel s).norms.length ≤ s.norms.length + fuel
  | 0, s => by simp
  | fuel + 1, s => by
      rw [loop_succ]
      split
      · split
        · simp
        · have := loop_norms_length o n c fuel (contState o n c s)
          simp only [contState_norms, List.length_append, List.length_cons, List.length_nil] at this; omega
      · have := loop_norms_length o n c fuel (blindState o c s)
        rw [blindState_norms] at this; omega

/-! ## the stop test -/

/-- every test recorded in `l` failed: each entry, with the relative residual computed from the entries before it -/
def AllFail (n : NormOps V R) (c : SolveCfg R) (l : List R) : Prop :=
  ∀ pre cur suf, l = pre ++ cur :: suf → converged n c cur (relOf n pre cur) = false

theorem AllFail.nil (n : NormOps V R) (c : SolveCfg R) : AllFail n c [] := by
  intro pre cur suf h; simp at h

theorem append_singleton_split {α : Type} {l pre suf : List α} {x cur : α} (h : l ++ [x] = pre ++ cur :: suf) :
    (suf = [] ∧ pre = l ∧ cur = x) ∨ ∃ suf', suf = suf' ++ [x] ∧ l = pre ++ cur :: suf' := by
  rcases List.eq_nil_or_concat suf with e | ⟨suf', y, e⟩
  · subst e
    have h' : l ++ [x] = pre ++ [cur] := h
    have := List.append_inj' h' rfl
    exact Or.inl ⟨rfl, this.1.symm, by simpa using this.2.symm⟩
  · subst e
    have h' : l ++ [x] = (pre ++ cur :: suf') ++ [y] := by simpa using h
    have := List.append_inj' h' rfl
    have hy : x = y := by simpa using this.2
    exact Or.inr ⟨suf', by rw [hy, List.concat_eq_append], this.1⟩

theorem AllFail.snoc {n : NormOps V R} {c : SolveCfg R} {l : List R} {x : R} (hl : AllFail n c l)
    (hx : converged n c x (relOf n l x) = false) : AllFail n c (l ++ [x]) := by
  intro pre cur suf h
  rcases append_singleton_split h with ⟨_, e2, e3⟩ | ⟨suf', _, e2⟩
  · subst e2; subst e3; exact hx
  · exact hl pre cur suf' e2

/-- what the loop returns when some tolerance is set -/
theorem loop_tested (o : Ops V) (n : NormOps V R) (c : SolveCfg R) (ht : tested c = true) :
    ∀ (fuel : Nat) (s : Obj V R), s.stoppedEarly = false → AllFail n c s.norms →
      ((loop o n c fuel s).stoppedEarly = false ∧ AllFail n c (loop o n c fuel s).norms ∧
        (loop o n c fuel s).iters = s.iters + fuel ∧
        (loop o n c fuel s).norms.length = s.norms.length + fuel) ∨
      ((loop o n c fuel s).stoppedEarly = true ∧
        ∃ pre cur, (loop o n c fuel s).norms = pre ++ [cur] ∧ AllFail n c pre ∧
          converged n c cur (relOf n pre cur) = true ∧
          cur = n.norm ((loop o n c fuel s).mem (0, .res)) ∧
          (∃ m0, (loop o n c fuel s).mem = exec o (stopResidual (c.extrapMode != 0)) m0) ∧
          (loop o n c fuel s).iters + s.norms.length = pre.length + s.iters ∧
          (loop o n c fuel s).iters < s.iters + fuel)
  | 0, s, hs, ha => Or.inl ⟨by simpa using hs, by simpa using ha, by simp, by simp⟩
  | fuel + 1, s, hs, ha => by
      rw [loop_succ, if_pos ht]
      split
      · rename_i hc
        refine Or.inr ⟨rfl, s.norms, testCur o n c s, rfl, ha, hc, rfl, ⟨s.mem, rfl⟩, ?_, ?_⟩
        · simp [Nat.add_comm]
        · simp
      · rename_i hc
        have hc' : converged n c (testCur o n c s) (relOf n s.norms (testCur o n c s)) = false := by
          simpa using hc
        rcases loop_tested o n c ht fuel (contState o n c s) rfl (ha.snoc hc') with
          ⟨h1, h2, h3, h4⟩ | ⟨h1, pre, cur, h2, h3, h4, h5, h6, h7, h8⟩
        · refine Or.inl ⟨h1, h2, ?_, ?_⟩
          · rw [h3, contState_iters]; omega
          · rw [h4]; simp only [contState_norms, List.length_append, List.length_cons, List.length_nil]; omega
        · refine Or.inr ⟨h1, pre, cur, h2, h3, h4, h5, h6, ?_, ?_⟩
          · simp only [contState_norms, contState_iters, List.length_append, List.length_cons, List.length_nil] at h7
            omega
          · rw [contState_iters] at h8; omega

/-- what the loop returns when no tolerance is set -/
theorem loop_blind (o : Ops V) (n : NormOps V R) (c : SolveCfg R) (ht : tested c = false) :
    ∀ (fuel : Nat) (s : Obj V R), s.stoppedEarly = false →
      (loop o n c fuel s).stoppedEarly = false ∧ (loop o n c fuel s).iters = s.iters + fuel ∧
      (loop o n c fuel s).norms = s.norms
  | 0, s, hs => ⟨by simpa using hs, by simp, by simp⟩
  | fuel + 1, s, hs => by
      rw [loop_succ, if_neg (by rw [ht]; simp)]
      obtain ⟨h1, h2, h3⟩ := loop_blind o n c ht fuel (blindState o c s) rfl
      refine ⟨h1, ?_, h3⟩
      rw [h2, blindState_iters]; omega

/-! ## simulation: two object states that agree on `(0,sol)` and all right-hand sides -/

/-- the part of the object state the loop depends on -/
structure Sim (s s' : Obj V R) : Prop where
  fgs : s.fgs = s'.fgs
  norms : s.norms = s'.norms
  iters : s.iters = s'.iters
  stopped : s.stoppedEarly = s'.stoppedEarly
  sol : s.mem (0, .sol) = s'.mem (0, .sol)
  rhs : ∀ l, s.mem (l, .rhs) = s'.mem (l, .rhs)

theorem testMem_res (o : Ops V) (c : SolveCfg R) {s s' : Obj V R} (h : Sim s s') :
    testMem o c s (0, .res) = testMem o c s' (0, .res) :=
  stopResidual_congr o _ _ _ (h.rhs 0) h.sol (h.rhs 1)

theorem testMem_sol (o : Ops V) (c : SolveCfg R) (s : Obj V R) : testMem o c s (0, .sol) = s.mem (0, .sol) :=
  stopResidual_frame o _ _ _ (by decide)

theorem testMem_rhs (o : Ops V) (c : SolveCfg R) (s : Obj V R) (l : Nat) : testMem o c s (l, .rhs) = s.mem (l, .rhs) :=
  stopResidual_frame o _ _ _ (by simp)

theorem testCur_sim (o : Ops V) (n : NormOps V R) (c : SolveCfg R) {s s' : Obj V R} (h : Sim s s') :
    testCur o n c s = testCur o n c s' := by unfold testCur; rw [testMem_res o c h]

theorem testFgs_sim (o : Ops V) (n : NormOps V R) (c : SolveCfg R) {s s' : Obj V R} (h : Sim s s') :
    testFgs o n c s = testFgs o n c s' := by
  unfold testFgs; rw [testCur_sim o n c h, h.norms, h.fgs]

/-- one cycle on memories that agree on `(0,sol)` and the right-hand sides -/
theorem cycle_sim (o : Ops V) (c : Cfg) (k : Kind) (ex fgs : Bool) (m m' : Mem V)
    (hs : m (0, .sol) = m' (0, .sol)) (hr : ∀ l, m (l, .rhs) = m' (l, .rhs)) :
    exec o (cycleAt c k ex fgs 0) m (0, .sol) = exec o (cycleAt c k ex fgs 0) m' (0, .sol) ∧
    ∀ l, exec o (cycleAt c k ex fgs 0) m (l, .rhs) = exec o (cycleAt c k ex fgs 0) m' (l, .rhs) := by
  refine ⟨?_, fun l => ?_⟩
  · rw [cycleAt_val o c k ex fgs 0 (fun _ => rfl), cycleAt_val o c k ex fgs 0 (fun _ => rfl), hs]
    have : (fun l => m (l, Buf.rhs)) = fun l => m' (l, Buf.rhs) := funext hr
    rw [this]
  · rw [cycleAt_rhs o c k ex fgs 0 (fun _ => rfl), cycleAt_rhs o c k ex fgs 0 (fun _ => rfl), hr]

theorem loop_sim (o : Ops V) (n : NormOps V R) (c : SolveCfg R) :
    ∀ (fuel : Nat) (s s' : Obj V R), Sim s s' → Sim (loop o n c fuel s) (loop o n c fuel s')
  | 0, s, s', h => by simpa using h
  | fuel + 1, s, s', h => by
      rw [loop_succ, loop_succ, testCur_sim o n c h, h.norms]
      split
      · split
        · exact ⟨testFgs_sim o n c h, by simp [stopState, testCur_sim o n c h, h.norms], h.iters, rfl,
            by simp only [stopState]; rw [testMem_sol, testMem_sol, h.sol],
            fun l => by simp only [stopState]; rw [testMem_rhs, testMem_rhs, h.rhs]⟩
        · refine loop_sim o n c fuel _ _ ?_
          have hc := cycle_sim o c.cyc c.kind (c.extrapMode != 0) (testFgs o n c s') (testMem o c s) (testMem o c s')
            (by rw [testMem_sol, testMem_sol, h.sol]) (fun l => by rw [testMem_rhs, testMem_rhs, h.rhs])
          exact ⟨testFgs_sim o n c h, by simp [contState, testCur_sim o n c h, h.norms],
            by simp [contState, h.iters], rfl,
            by simp only [contState]; rw [testFgs_sim o n c h]; exact hc.1,
            fun l => by simp only [contState]; rw [testFgs_sim o n c h]; exact hc.2 l⟩
      · refine loop_sim o n c fuel _ _ ?_
        have hc := cycle_sim o c.cyc c.kind (c.extrapMode != 0) s'.fgs s.mem s'.mem h.sol h.rhs
        exact ⟨h.fgs, h.norms, by simp [blindState, h.iters], rfl,
          by simp only [blindState]; rw [h.fgs]; exact hc.1,
          fun l => by simp only [blindState]; rw [h.fgs]; exact hc.2 l⟩

/-! ## what a solve keeps -/

theorem testFgs_of_ne3 (o : Ops V) (n : NormOps V R) (c : SolveCfg R) (s : Obj V R) (h : c.extrapMode ≠ 3) :
    testFgs o n c s = s.fgs := by
  unfold testFgs
  cases s.norms.getLast? <;> simp [h]

theorem loop_fgs (o : Ops V) (n : NormOps V R) (c : SolveCfg R) (h : c.extrapMode ≠ 3) :
    ∀ (fuel : Nat) (s : Obj V R), (loop o n c fuel s).fgs = s.fgs
  | 0, s => by simp
  | fuel + 1, s => by
      rw [loop_succ]
      split
      · split
        · exact testFgs_of_ne3 o n c s h
        · rw [loop_fgs o n c h fuel]; exact testFgs_of_ne3 o n c s h
      · rw [loop_fgs o n c h fuel]; rfl

theorem loop_rhs (o : Ops V) (n : NormOps V R) (c : SolveCfg R) (l : Nat) :
    ∀ (fuel : Nat) (s : Obj V R), (loop o n c fuel s).mem (l, .rhs) = s.mem (l, .rhs)
  | 0, s => by simp
  | fuel + 1, s => by
      rw [loop_succ]
      split
      · split
        · exact testMem_rhs o c s l
        · rw [loop_rhs o n c l fuel]
          exact (cycleAt_rhs o c.cyc c.kind _ _ 0 (fun _ => rfl) _ l).trans (testMem_rhs o c s l)
      · rw [loop_rhs o n c l fuel]
        exact cycleAt_rhs o c.cyc c.kind _ _ 0 (fun _ => rfl) _ l

theorem solve_rhs (o : Ops V) (n : NormOps V R) (c : SolveCfg R) (s : Obj V R) (l : Nat) :
    (solve o n c s).mem (l, .rhs) = s.mem (l, .rhs) := by
  rw [solve_eq, loop_rhs]; exact initSolution_rhs o _ _ _ _ _ _ _ s.mem l

theorem solve_fgs (o : Ops V) (n : NormOps V R) (c : SolveCfg R) (s : Obj V R) (h : c.extrapMode ≠ 3) :
    (solve o n c s).fgs = s.fgs := by
  rw [solve_eq, loop_fgs o n c h]; simp [startState, h]

/-! ## the two shapes of a finished solve -/

theorem solve_tested (o : Ops V) (n : NormOps V R) (c : SolveCfg R) (s : Obj V R) (ht : tested c = true) :
    ((solve o n c s).stoppedEarly = false ∧ AllFail n c (solve o n c s).norms ∧
      (solve o n c s).iters = c.maxit ∧ (solve o n c s).norms.length = c.maxit) ∨
    ((solve o n c s).stoppedEarly = true ∧
      ∃ pre cur, (solve o n c s).norms = pre ++ [cur] ∧ AllFail n c pre ∧
        converged n c cur (relOf n pre cur) = true ∧
        cur = n.norm ((solve o n c s).mem (0, .res)) ∧
        (∃ m0, (solve o n c s).mem = exec o (stopResidual (c.extrapMode != 0)) m0) ∧
        (solve o n c s).iters = pre.length ∧ (solve o n c s).iters < c.maxit) := by
  rw [solve_eq]
  rcases loop_tested o n c ht c.maxit (startState o c s) rfl (AllFail.nil n c) with
    ⟨h1, h2, h3, h4⟩ | ⟨h1, pre, cur, h2, h3, h4, h5, h6, h7, h8⟩
  · exact Or.inl ⟨h1, h2, by simpa [startState] using h3, by simpa [startState] using h4⟩
  · exact Or.inr ⟨h1, pre, cur, h2, h3, h4, h5, h6, by simpa [startState] using h7, by simpa [startState] using h8⟩

theorem solve_blind (o : Ops V) (n : NormOps V R) (c : SolveCfg R) (s : Obj V R) (ht : tested c = false) :
    (solve o n c s).stoppedEarly = false ∧ (solve o n c s).iters = c.maxit ∧ (solve o n c s).norms = [] := by
  rw [solve_eq]
  obtain ⟨h1, h2, h3⟩ := loop_blind o n c ht c.maxit (startState o c s) rfl
  exact ⟨h1, by simpa [startState] using h2, by simpa [startState] using h3⟩

/-- the start-up makes the loop's entry state depend on the right-hand sides (and the smoother switch) only -/
theorem startState_sim (o : Ops V) (c : SolveCfg R) (s s' : Obj V R)
    (hr : ∀ l, s.mem (l, .rhs) = s'.mem (l, .rhs)) (hf : c.extrapMode ≠ 3 → s.fgs = s'.fgs) :
    Sim (startState o c s) (startState o c s') := by
  have hfgs : (if c.extrapMode == 3 then true else s.fgs) = (if c.extrapMode == 3 then true else s'.fgs) := by
    by_cases h : c.extrapMode = 3
    · simp [h]
    · simp [h, hf h]
  refine ⟨hfgs, rfl, rfl, rfl, ?_, fun l => ?_⟩
  · simp only [startState]
    rw [hfgs]
    cases hfmg : c.fmg
    · rw [initSolution_nofmg, initSolution_nofmg]
    · rw [initSolution_val, initSolution_val, hr]
      have : (fun l => s.mem (l, Buf.rhs)) = fun l => s'.mem (l, Buf.rhs) := funext hr
      rw [this]
  · simp only [startState]
    rw [initSolution_rhs, initSolution_rhs, hr]

end MGCycle
