import GMGProofs.Lemmas.ExSmootherGiveCode2
/-!
# Code-level extrapolated smoother (give), lemmas 3 — uniform description of the diagonal stores of one node
-/
set_option linter.unusedSectionVars false
set_option linter.unusedVariables false
set_option linter.unusedSimpArgs false
namespace ExSmootherGiveCode
open Stencil SparseLU SmootherCode
open DirectCode (Pos)
open DirectGiveCode (massValue diagValue)
variable {K : Type} [_root_.Field K]

section
variable (T : Tables) (o : Op K) (nc : Nat)

/-- decide a linear-arithmetic proposition in the current leaf (as a hypothesis for `simp [*]`), if `omega` can -/
macro "harvest " t:term : tactic =>
  `(tactic| first | (have : $t := by omega) | (have : ¬ $t := by omega) | skip)

/-- index facts about a radial index `i` (the node's own, or `nc`) that `omega` decides in the current leaf -/
macro "idx_facts " i:term ", " nc:term ", " nr:term : tactic => `(tactic| (
  first | (have : 2 * ($i / 2) + 1 = $i := by omega) | skip
  first | (have : 2 * ($i / 2) = $i := by omega) | skip
  first | (have : 2 * (($i - 1) / 2) = $i - 1 := by omega) | skip
  first | (have : 2 * (($i - 1) / 2) + 1 = $i - 1 := by omega) | skip
  first | (have : 2 * (($i + 1) / 2) = $i + 1 := by omega) | skip
  first | (have : 2 * (($i + 1) / 2) + 1 = $i + 1 := by omega) | skip
  first | (have : $nc + ($i - $nc) = $i := by omega) | skip
  first | (have : $nc + ($i - $nc - 1) = $i - 1 := by omega) | skip
  first | (have : $nc + ($i - $nc + 1) = $i + 1 := by omega) | skip
  first | (have : ¬ ($i - $nc - 1 = $i - $nc) := by omega) | skip
  first | (have : ¬ ($i - $nc = $i - $nc - 1) := by omega) | skip
  harvest ($i % 2 = 1)
  harvest ($i + 2 < $nr)
  harvest ($i + 1 < $nr)
  harvest ($i + 1 = $nr)
  harvest (0 < $i)
  harvest ($i = 0)
  harvest ($i = 1)))

/-- index facts about the angular index `j` -/
macro "ang_facts " j:term ", " jm:term ", " jp:term : tactic => `(tactic| (
  first | (have : 2 * ($j / 2) + 1 = $j := by omega) | skip
  first | (have : 2 * ($j / 2) = $j := by omega) | skip
  first | (have : 2 * ($jm / 2) + 1 = $jm := by omega) | skip
  first | (have : 2 * ($jm / 2) = $jm := by omega) | skip
  first | (have : 2 * ($jp / 2) + 1 = $jp := by omega) | skip
  first | (have : 2 * ($jp / 2) = $jp := by omega) | skip))

/-- what node `(i, j)` adds to the diagonal entry of node `(a, b)` -/
def dRhs (i j a b : Nat) : K :=
  (if i = a ∧ j = b then selfD o i j else 0)
    + (if i - 1 = a ∧ j = b then gL o i j else 0)
    + (if i + 1 = a ∧ j = b then gR o i j else 0)
    + (if i = a ∧ jm o j = b then gB o i j else 0)
    + (if i = a ∧ jp o j = b then gT o i j else 0)
    + (if i = 0 ∧ 0 = a ∧ ja o j = b then gA o j else 0)

set_option maxHeartbeats 4000000 in
/-- **uniform description of the diagonal stores of node `(i, j)`** as seen from a target node `(a, b)` -/
theorem dsum_node (hT : GoodTables T) (hnc : 3 ≤ nc) (hnr : nc + 3 ≤ o.nr) (hodd : o.nr % 2 = 1)
    (hnt : 2 ≤ o.nt) (heven : o.nt % 2 = 0) (i j a b : Nat) (hi : i < o.nr) (hj : j < o.nt) :
    dsum o nc (nodeUpdates T o nc i j) a b = dRhs o i j a b := by
  have hjm : jm o j < o.nt := jm_lt o (by omega) j
  have hjp : jp o j < o.nt := jp_lt o (by omega) j
  have pm := jm_parity o heven hj
  have pp := jp_parity o heven hj
  have n1 : ¬ jm o j = j := jm_ne o hnt hj
  have n2 : ¬ jp o j = j := jp_ne o hnt hj
  have n3 : ¬ j = jm o j := fun h => n1 h.symm
  have n4 : ¬ j = jp o j := fun h => n2 h.symm
  have ol : j % 2 = 1 → o.bc = false → off T o j .Left = 1 := off_left T o hT j
  have q1 : ¬ nc = o.nr := by omega
  have q2 : nc < o.nr := by omega
  have q3 : ¬ 2 = o.nr := by omega
  have q4 : 3 < o.nr := by omega
  have q5 : 2 < o.nr := by omega
  have q6 : ¬ 1 = o.nr := by omega
  have q7 : 1 < o.nr := by omega
  have split2 : ∀ (P : Prop) [Decidable P] (x y : K),
      (if P then x + y else 0) = (if P then x else 0) + (if P then y else 0) := by
    intro P _ x y; split <;> simp
  unfold nodeUpdates
  simp only []
  split_ifs
  all_goals try (exfalso; omega)
  all_goals (
    idx_facts i, nc, o.nr
    idx_facts nc, nc, o.nr
    ang_facts j, jm o j, jp o j
    simp [*, dRhs, circleTriRows, dsum_append, diagOf_ctri, diagOf_rtri, diagOf_cdiag, diagOf_rdiag, diagOf_csr,
      off_center T o hT, Upd.val, selfD, gL, gR, gB, gT, gA, split2])
  all_goals ring
end
end ExSmootherGiveCode
