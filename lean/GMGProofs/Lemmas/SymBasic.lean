import GMGModel.Sym
import GMGProofs.Lemmas.FieldScalar
import GMGProofs.Lemmas.SymAttr
import Mathlib.Analysis.SpecialFunctions.Trigonometric.Deriv
import Mathlib.Analysis.SpecialFunctions.Trigonometric.DerivHyp
import Mathlib.Analysis.SpecialFunctions.Trigonometric.ArctanDeriv
import Mathlib.Analysis.SpecialFunctions.Sqrt
import Mathlib.Analysis.SpecialFunctions.ExpDeriv
import Mathlib.Analysis.Calculus.Deriv.Pow
import Mathlib.Analysis.Calculus.Deriv.Inv
import Mathlib.Analysis.Calculus.Deriv.Mul
import Mathlib.Analysis.Calculus.Deriv.Add
import Mathlib.Tactic.Ring
import Mathlib.Tactic.FieldSimp
import Mathlib.Tactic.Positivity
import Mathlib.Tactic.Linarith
import Mathlib.Tactic.NormNum
/-!
# Real semantics of the symbolic input-function expressions (C19)

* `instElemReal : Elem ℝ` on top of `instScalarField` (so `+ - * / -` are the real field operations),
* `Sym.ev` — evaluation in ℝ, `Sym.ok` — the side conditions (denominators ≠ 0, radicands > 0),
* the smart constructors preserve `ev` and `ok`,
* `ev` of the symbolic derivative of every constructor (`ev_D_*`, unconditional identities),
* `ok_D`, and the correctness of the symbolic derivative `hasDerivAt_r`, `hasDerivAt_th`.
-/

noncomputable instance instElemReal : Elem ℝ :=
  { toScalar := instScalarField
    sqrt := Real.sqrt, sin := Real.sin, cos := Real.cos, exp := Real.exp, tanh := Real.tanh,
    atan := Real.arctan, pi := Real.pi }

namespace Sym
open Expr

/-- evaluation of an expression over ℝ -/
noncomputable def ev (env : Nat → ℝ) (r th : ℝ) (e : Expr) : ℝ := Expr.eval (α := ℝ) env r th e

/-- side conditions: every denominator is non-zero and every radicand positive, at the point `(r, th)` -/
def ok (env : Nat → ℝ) (r th : ℝ) : Expr → Prop
  | .add a b | .sub a b | .mul a b => ok env r th a ∧ ok env r th b
  | .div a b => ok env r th a ∧ ok env r th b ∧ ev env r th b ≠ 0
  | .sqrt a => ok env r th a ∧ 0 < ev env r th a
  | .neg a | .powN a _ | .sin a | .cos a | .exp a | .tanh a | .atan a => ok env r th a
  | .v _ | .num _ _ | .pi | .par _ => True

variable {env : Nat → ℝ} {r th : ℝ}

theorem npow_eq (x : ℝ) (k : Nat) : Expr.npow x k = x ^ k := by
  induction k with
  | zero => simp [Expr.npow]
  | succ k ih => simp [Expr.npow, ih, pow_succ]

/-! ### `ev` of each constructor -/
@[simp, sym_ev] theorem ev_r : ev env r th (.v .r) = r := rfl
@[simp, sym_ev] theorem ev_th : ev env r th (.v .th) = th := rfl
@[simp, sym_ev] theorem ev_pi : ev env r th .pi = Real.pi := rfl
@[simp, sym_ev] theorem ev_par (i : Nat) : ev env r th (.par i) = env i := rfl
@[simp, sym_ev] theorem ev_add (a b : Expr) : ev env r th (.add a b) = ev env r th a + ev env r th b := rfl
@[simp, sym_ev] theorem ev_sub (a b : Expr) : ev env r th (.sub a b) = ev env r th a - ev env r th b := rfl
@[simp, sym_ev] theorem ev_mul (a b : Expr) : ev env r th (.mul a b) = ev env r th a * ev env r th b := rfl
@[simp, sym_ev] theorem ev_div (a b : Expr) : ev env r th (.div a b) = ev env r th a / ev env r th b := rfl
@[simp, sym_ev] theorem ev_neg (a : Expr) : ev env r th (.neg a) = -ev env r th a := rfl
@[simp, sym_ev] theorem ev_powN (a : Expr) (k : Nat) : ev env r th (.powN a k) = ev env r th a ^ k := npow_eq _ _
@[simp, sym_ev] theorem ev_sqrt (a : Expr) : ev env r th (.sqrt a) = Real.sqrt (ev env r th a) := rfl
@[simp, sym_ev] theorem ev_sin (a : Expr) : ev env r th (.sin a) = Real.sin (ev env r th a) := rfl
@[simp, sym_ev] theorem ev_cos (a : Expr) : ev env r th (.cos a) = Real.cos (ev env r th a) := rfl
@[simp, sym_ev] theorem ev_exp (a : Expr) : ev env r th (.exp a) = Real.exp (ev env r th a) := rfl
@[simp, sym_ev] theorem ev_tanh (a : Expr) : ev env r th (.tanh a) = Real.tanh (ev env r th a) := rfl
@[simp, sym_ev] theorem ev_atan (a : Expr) : ev env r th (.atan a) = Real.arctan (ev env r th a) := rfl

/-- a literal `num n d` denotes the rational `n / d` -/
@[simp, sym_ev] theorem ev_num (n : Int) (d : Nat) : ev env r th (.num n d) = (n : ℝ) / (d : ℝ) := by
  show (if n < 0 then -(Scalar.n n.natAbs : ℝ) else Scalar.n n.natAbs) / Scalar.n d = _
  rw [Scalar.n_eq, Scalar.n_eq]
  congr 1
  split
  · rename_i h
    have : (n : ℝ) = -((n.natAbs : ℤ) : ℝ) := by
      rw [Int.ofNat_natAbs_of_nonpos (le_of_lt h)]; simp
    rw [this]; simp
  · rename_i h
    have : (n : ℝ) = ((n.natAbs : ℤ) : ℝ) := by
      rw [Int.natAbs_of_nonneg (not_lt.mp h)]
    rw [this]; simp

attribute [sym_clean] zero_mul mul_zero sub_zero zero_add add_zero zero_sub neg_zero zero_div sub_self mul_one one_mul
attribute [sym_ev] Int.cast_ofNat Nat.cast_ofNat Int.cast_one Nat.cast_one Int.cast_zero Nat.cast_zero div_one

@[simp, sym_ev] theorem ev_zero : ev env r th Expr.zero = 0 := by simp [Expr.zero]
@[simp, sym_ev] theorem ev_one : ev env r th Expr.one = 1 := by simp [Expr.one]
@[simp, sym_ev] theorem ev_two : ev env r th Expr.two = 2 := by simp [Expr.two]

@[simp] theorem ok_zero : ok env r th Expr.zero := trivial
@[simp] theorem ok_one : ok env r th Expr.one := trivial
@[simp] theorem ok_two : ok env r th Expr.two := trivial

theorem ev_of_isZero {a : Expr} (h : a.isZero = true) : ev env r th a = 0 := by
  unfold Expr.isZero at h
  split at h
  · simp
  · cases h

theorem ev_of_isOne {a : Expr} (h : a.isOne = true) : ev env r th a = 1 := by
  unfold Expr.isOne at h
  split at h
  · simp
  · cases h

/-! ### the smart constructors preserve `ev` … -/
@[simp, sym_ev] theorem ev_mkAdd (a b : Expr) : ev env r th (mkAdd a b) = ev env r th a + ev env r th b := by
  unfold mkAdd
  split
  · rename_i h; simp [ev_of_isZero h]
  split
  · rename_i h; simp [ev_of_isZero h]
  · rfl

@[simp, sym_ev] theorem ev_mkSub (a b : Expr) : ev env r th (mkSub a b) = ev env r th a - ev env r th b := by
  unfold mkSub
  split
  · rename_i h; simp [ev_of_isZero h]
  split
  · rename_i h; simp [ev_of_isZero h]
  · rfl

@[simp, sym_ev] theorem ev_mkMul (a b : Expr) : ev env r th (mkMul a b) = ev env r th a * ev env r th b := by
  unfold mkMul
  split
  · rename_i h
    rcases Bool.or_eq_true _ _ |>.mp h with h | h <;> simp [ev_of_isZero h]
  split
  · rename_i h; simp [ev_of_isOne h]
  split
  · rename_i h; simp [ev_of_isOne h]
  · rfl

@[simp, sym_ev] theorem ev_mkDiv (a b : Expr) : ev env r th (mkDiv a b) = ev env r th a / ev env r th b := by
  unfold mkDiv
  split
  · rename_i h; simp [ev_of_isZero h]
  · rfl

@[simp, sym_ev] theorem ev_mkNeg (a : Expr) : ev env r th (mkNeg a) = -ev env r th a := by
  unfold mkNeg
  split
  · rename_i h; simp [ev_of_isZero h]
  · rfl

/-! ### … and `ok` -/
theorem ok_mkAdd {a b : Expr} (ha : ok env r th a) (hb : ok env r th b) : ok env r th (mkAdd a b) := by
  unfold mkAdd; split; · exact hb
  split; · exact ha
  exact ⟨ha, hb⟩

theorem ok_mkSub {a b : Expr} (ha : ok env r th a) (hb : ok env r th b) : ok env r th (mkSub a b) := by
  unfold mkSub; split; · exact ha
  split; · exact hb
  exact ⟨ha, hb⟩

theorem ok_mkMul {a b : Expr} (ha : ok env r th a) (hb : ok env r th b) : ok env r th (mkMul a b) := by
  unfold mkMul; split; · trivial
  split; · exact hb
  split; · exact ha
  exact ⟨ha, hb⟩

theorem ok_mkDiv {a b : Expr} (ha : ok env r th a) (hb : ok env r th b) (h : ev env r th b ≠ 0) :
    ok env r th (mkDiv a b) := by
  unfold mkDiv; split; · trivial
  exact ⟨ha, hb, h⟩

theorem ok_mkNeg {a : Expr} (ha : ok env r th a) : ok env r th (mkNeg a) := by
  unfold mkNeg; split; · trivial
  exact ha

/-! ### `ev` of the symbolic derivative, constructor by constructor (unconditional identities) -/
section evD
variable (x : Var) (a b : Expr)
@[simp, sym_ev] theorem ev_D_v_r_r : ev env r th (D .r (.v .r)) = 1 := by simp [D]
@[simp, sym_ev] theorem ev_D_v_th_th : ev env r th (D .th (.v .th)) = 1 := by simp [D]
@[simp, sym_ev] theorem ev_D_v_r_th : ev env r th (D .r (.v .th)) = 0 := by simp [D]
@[simp, sym_ev] theorem ev_D_v_th_r : ev env r th (D .th (.v .r)) = 0 := by simp [D]
@[simp, sym_ev] theorem ev_D_num (n : Int) (d : Nat) : ev env r th (D x (.num n d)) = 0 := by simp [D]
@[simp, sym_ev] theorem ev_D_pi : ev env r th (D x .pi) = 0 := by simp [D]
@[simp, sym_ev] theorem ev_D_par (i : Nat) : ev env r th (D x (.par i)) = 0 := by simp [D]
@[simp, sym_ev] theorem ev_D_add : ev env r th (D x (.add a b)) = ev env r th (D x a) + ev env r th (D x b) := by
  simp [D]
@[simp, sym_ev] theorem ev_D_sub : ev env r th (D x (.sub a b)) = ev env r th (D x a) - ev env r th (D x b) := by
  simp [D]
@[simp, sym_ev] theorem ev_D_mul : ev env r th (D x (.mul a b)) =
    ev env r th (D x a) * ev env r th b + ev env r th a * ev env r th (D x b) := by
  simp [D]
@[simp, sym_ev] theorem ev_D_div : ev env r th (D x (.div a b)) =
    (ev env r th (D x a) * ev env r th b - ev env r th a * ev env r th (D x b))
      / (ev env r th b * ev env r th b) := by
  simp [D]
@[simp, sym_ev] theorem ev_D_neg : ev env r th (D x (.neg a)) = -ev env r th (D x a) := by simp [D]
@[simp, sym_ev] theorem ev_D_powN_zero : ev env r th (D x (.powN a 0)) = 0 := by simp [D]
@[simp, sym_ev] theorem ev_D_powN_succ (k : Nat) : ev env r th (D x (.powN a (k + 1))) =
    ((k + 1 : Nat) : ℝ) * ev env r th a ^ k * ev env r th (D x a) := by
  simp [D]
@[simp, sym_ev] theorem ev_D_sqrt : ev env r th (D x (.sqrt a)) =
    ev env r th (D x a) / (2 * Real.sqrt (ev env r th a)) := by simp [D]
@[simp, sym_ev] theorem ev_D_sin : ev env r th (D x (.sin a)) = Real.cos (ev env r th a) * ev env r th (D x a) := by
  simp [D]
@[simp, sym_ev] theorem ev_D_cos : ev env r th (D x (.cos a)) = -(Real.sin (ev env r th a) * ev env r th (D x a)) := by
  simp [D]
@[simp, sym_ev] theorem ev_D_exp : ev env r th (D x (.exp a)) = Real.exp (ev env r th a) * ev env r th (D x a) := by
  simp [D]
@[simp, sym_ev] theorem ev_D_tanh : ev env r th (D x (.tanh a)) =
    (1 - Real.tanh (ev env r th a) * Real.tanh (ev env r th a)) * ev env r th (D x a) := by simp [D]
@[simp, sym_ev] theorem ev_D_atan : ev env r th (D x (.atan a)) =
    ev env r th (D x a) / (1 + ev env r th a * ev env r th a) := by simp [D]
end evD

/-! ### the side conditions are inherited by the symbolic derivative -/
theorem ok_D (x : Var) (e : Expr) (h : ok env r th e) : ok env r th (D x e) := by
  induction e with
  | v y => unfold D; split <;> trivial
  | num n d => trivial
  | pi => trivial
  | par i => trivial
  | add a b iha ihb => exact ok_mkAdd (iha h.1) (ihb h.2)
  | sub a b iha ihb => exact ok_mkSub (iha h.1) (ihb h.2)
  | mul a b iha ihb => exact ok_mkAdd (ok_mkMul (iha h.1) h.2) (ok_mkMul h.1 (ihb h.2))
  | div a b iha ihb =>
      obtain ⟨ha, hb, hne⟩ := h
      exact ok_mkDiv (ok_mkSub (ok_mkMul (iha ha) hb) (ok_mkMul ha (ihb hb))) ⟨hb, hb⟩
        (by simpa using hne)
  | neg a iha => exact ok_mkNeg (iha h)
  | powN a k iha =>
      cases k with
      | zero => trivial
      | succ k => exact ok_mkMul (ok_mkMul trivial h) (iha h)
  | sqrt a iha =>
      obtain ⟨ha, hpos⟩ := h
      refine ok_mkDiv (iha ha) ⟨trivial, ha, hpos⟩ ?_
      have : 0 < Real.sqrt (ev env r th a) := Real.sqrt_pos.mpr hpos
      simp only [ev_mul, ev_two, ev_sqrt]; positivity
  | sin a iha => exact ok_mkMul h (iha h)
  | cos a iha => exact ok_mkNeg (ok_mkMul h (iha h))
  | exp a iha => exact ok_mkMul h (iha h)
  | tanh a iha => exact ok_mkMul ⟨trivial, h, h⟩ (iha h)
  | atan a iha =>
      refine ok_mkDiv (iha h) ⟨trivial, h, h⟩ ?_
      simp only [ev_add, ev_one, ev_mul]
      nlinarith [mul_self_nonneg (ev env r th a)]

/-! ### derivative of `Real.tanh` (not in Mathlib) -/
theorem hasDerivAt_tanh (x : ℝ) : HasDerivAt Real.tanh (1 - Real.tanh x * Real.tanh x) x := by
  have hc : Real.cosh x ≠ 0 := ne_of_gt (Real.cosh_pos x)
  have h := (Real.hasDerivAt_sinh x).div (Real.hasDerivAt_cosh x) hc
  have hfun : (Real.sinh / Real.cosh) = Real.tanh := by
    funext y; simp [Real.tanh_eq_sinh_div_cosh]
  rw [hfun] at h
  refine h.congr_deriv ?_
  rw [Real.tanh_eq_sinh_div_cosh]
  field_simp

theorem _root_.HasDerivAt.tanh' {f : ℝ → ℝ} {f' x : ℝ} (hf : HasDerivAt f f' x) :
    HasDerivAt (fun y => Real.tanh (f y)) ((1 - Real.tanh (f x) * Real.tanh (f x)) * f') x :=
  (hasDerivAt_tanh (f x)).comp x hf

/-! ### correctness of the symbolic derivative -/

/-- the common induction: `L t` is the line through `(r, th)` in direction `x` -/
private theorem hasDerivAt_aux (x : Var) (R T : ℝ → ℝ) (t0 : ℝ)
    (hR0 : R t0 = r) (hT0 : T t0 = th)
    (hR : HasDerivAt R (ev env r th (D x (.v .r))) t0)
    (hT : HasDerivAt T (ev env r th (D x (.v .th))) t0)
    (e : Expr) (h : ok env r th e) :
    HasDerivAt (fun t => ev env (R t) (T t) e) (ev env r th (D x e)) t0 := by
  induction e with
  | v y => cases y <;> simpa using ‹_›
  | num n d => simpa using hasDerivAt_const t0 ((n : ℝ) / (d : ℝ))
  | pi => simpa using hasDerivAt_const t0 Real.pi
  | par i => simpa using hasDerivAt_const t0 (env i)
  | add a b iha ihb => simpa using (iha h.1).fun_add (ihb h.2)
  | sub a b iha ihb => simpa using (iha h.1).fun_sub (ihb h.2)
  | mul a b iha ihb => simpa [hR0, hT0] using (iha h.1).fun_mul (ihb h.2)
  | div a b iha ihb =>
      obtain ⟨ha, hb, hne⟩ := h
      have hd := (iha ha).fun_div (ihb hb) (by simpa [hR0, hT0] using hne)
      simp only [ev_div, ev_D_div]
      refine hd.congr_deriv ?_
      simp only [hR0, hT0, pow_two]
  | neg a iha => simpa using (iha h).fun_neg
  | powN a k iha =>
      cases k with
      | zero => simpa using hasDerivAt_const t0 (1 : ℝ)
      | succ k =>
          have hp := (iha h).fun_pow (k + 1)
          simp only [ev_powN, ev_D_powN_succ]
          refine hp.congr_deriv ?_
          simp only [hR0, hT0, Nat.add_sub_cancel]
  | sqrt a iha =>
      obtain ⟨ha, hpos⟩ := h
      have hs := (iha ha).sqrt (by simpa [hR0, hT0] using ne_of_gt hpos)
      simp only [ev_sqrt, ev_D_sqrt]
      refine hs.congr_deriv ?_
      simp only [hR0, hT0]
  | sin a iha => simpa [hR0, hT0] using (iha h).sin
  | cos a iha =>
      have hc := (iha h).cos
      simp only [ev_cos, ev_D_cos]
      refine hc.congr_deriv ?_
      simp only [hR0, hT0]; ring
  | exp a iha => simpa [hR0, hT0] using (iha h).exp
  | tanh a iha => simpa [hR0, hT0] using (iha h).tanh'
  | atan a iha =>
      have hc := (iha h).arctan
      simp only [ev_atan, ev_D_atan]
      refine hc.congr_deriv ?_
      simp only [hR0, hT0, pow_two]; field_simp

/-- **d_correct (r)**: the symbolic `∂/∂r` is the derivative of the real function `r ↦ ev e` -/
theorem hasDerivAt_r (e : Expr) (h : ok env r th e) :
    HasDerivAt (fun x => ev env x th e) (ev env r th (D .r e)) r :=
  hasDerivAt_aux .r (fun t => t) (fun _ => th) r rfl rfl (by simpa using hasDerivAt_id' r)
    (by simpa using hasDerivAt_const r th) e h

/-- **d_correct (θ)** -/
theorem hasDerivAt_th (e : Expr) (h : ok env r th e) :
    HasDerivAt (fun y => ev env r y e) (ev env r th (D .th e)) th :=
  hasDerivAt_aux .th (fun _ => r) (fun t => t) th rfl rfl (by simpa using hasDerivAt_const th r)
    (by simpa using hasDerivAt_id' th) e h

theorem deriv_r (e : Expr) (h : ok env r th e) :
    deriv (fun x => ev env x th e) r = ev env r th (D .r e) := (hasDerivAt_r e h).deriv

theorem deriv_th (e : Expr) (h : ok env r th e) :
    deriv (fun y => ev env r y e) th = ev env r th (D .th e) := (hasDerivAt_th e h).deriv

end Sym
