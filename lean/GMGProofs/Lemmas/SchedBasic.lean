import Generated.Sched
/-!
# Schedule model: basic rewriting lemmas and the `race_pair` / `race_region` tactics (C11)

Everything is core Lean (`simp only`, `omega`).  A loop pair is proved race free by
1. introducing two iterations and two calls, unfolding the *generated* loop terms,
2. flattening the `if` ladders / `++` of the loop bodies into cases (one call each),
3. unfolding the hand-written footprints (`writes`, `reads`), splitting on the array, and
4. closing the remaining linear-arithmetic goal (strides, `% 3`, `% 4`, periodic neighbours) by `omega`.
-/
namespace Sched

instance (l : Loop) (s : Shape) (t : Int) : Decidable (l.has s t) := by unfold Loop.has; infer_instance

theorem colourIs_black (p : Prop) : colourIs p .black ↔ p := by simp [colourIs]
theorem colourIs_white (p : Prop) : colourIs p .white ↔ ¬ p := by simp [colourIs]
theorem colourIs_none (p : Prop) : colourIs p .none ↔ False := by simp [colourIs]

/-- periodic left neighbour, as a case distinction `omega` understands -/
theorem eq_thM (s : Shape) (j θ : Int) : θ = thM s j ↔ (j = 0 ∧ θ = s.nt - 1) ∨ (j ≠ 0 ∧ θ = j - 1) := by
  unfold thM; split <;> omega
/-- periodic right neighbour -/
theorem eq_thP (s : Shape) (j θ : Int) : θ = thP s j ↔ (j + 1 = s.nt ∧ θ = 0) ∨ (j + 1 ≠ s.nt ∧ θ = j + 1) := by
  unfold thP; split <;> omega

/-- membership in an `if … then … else …` body -/
theorem mem_ite' {α : Type} (c : Prop) [Decidable c] (k : α) (l₁ l₂ : List α) :
    k ∈ (if c then l₁ else l₂) ↔ (c ∧ k ∈ l₁) ∨ (¬ c ∧ k ∈ l₂) := by
  by_cases h : c <;> simp [h]

/-- `RegionRaceFree` from the explicit list of barrier intervals -/
theorem regionRaceFree_of_intervals {s : Shape} {reg : Region} (ivs : List (List Nat))
    (hI : intervals reg.loops = ivs)
    (H : ∀ iv ∈ ivs, ∀ ia ∈ iv, ∀ ib ∈ iv, ia ≤ ib →
      LoopsRaceFree s (reg.loops.getD ia default) (reg.loops.getD ib default) (ia == ib)) :
    RegionRaceFree s reg := by
  unfold RegionRaceFree; rw [hI]; exact H

/-- decompose `hk : k ∈ body` (already rewritten to nested `∧`/`∨` with leaves `k = ⟨…⟩`) into one goal per call -/
syntax "split_call " ident : tactic
macro_rules
  | `(tactic| split_call $h:ident) =>
    `(tactic| repeat' (first | subst $h:ident | (rcases $h:ident with $h:ident | $h:ident) | (obtain ⟨hc, $h:ident⟩ := $h:ident)))

/-- close `LoopsRaceFree s l l' same` for two loops of the generated regions listed in `[…]`; `h : Admissible s` -/
syntax "race_pair " ident " [" Lean.Parser.Tactic.simpLemma,* "]" : tactic
macro_rules
  | `(tactic| race_pair $h:ident [$ls,*]) =>
    `(tactic| (
      intro t t' ht ht' hne k hk k' hk' a r θ h0 h1 h2 h3
      obtain ⟨hA1, hA2, hA3, hA4⟩ := ($h : Admissible _)
      simp only [$ls,*, List.getD_cons_zero, List.getD_cons_succ, Loop.has, List.mem_singleton, List.mem_cons,
        List.mem_append, mem_ite', List.not_mem_nil, and_false, or_false, false_or,
        Nat.reduceBEq, beq_self_eq_true, Bool.false_eq_true, false_imp_iff, forall_const, ne_eq]
        at ht ht' hk hk' hne
      split_call hk
      all_goals split_call hk'
      all_goals (
        cases a <;>
        simp only [conflictAt, writes, reads, giveCircle, giveRadial, colourIs_black, colourIs_white, colourIs_none,
          circleBlack, lineBlack, eq_thM, eq_thP, reduceCtorEq, true_and, false_and, and_false, and_true, or_false,
          false_or, or_true, true_or, not_false_eq_true, not_true_eq_false, or_self, and_self] <;>
        (try omega))))

end Sched
