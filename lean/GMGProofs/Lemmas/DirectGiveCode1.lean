import GMGModel.DirectGiveCode
import GMGProofs.Lemmas.DirectCode3
/-!
# Code-level direct solver (give), lemmas 1 — accumulating stores into a zero-initialised list of rows

Generic part, independent of the stencil: a state is a list of rows of `(column, value)` slots; one store addresses a slot
`g u = some (r, q)`, overwrites its column with `c u` and adds `v u` to its value (`step`); an address outside the state is
`none`.
* `run_spec`: if every store of a list is in bounds, the fold succeeds, keeps the shape, and every slot evolves independently
  (`slotFold`);
* `slotFold_snd`, `slotFold_fst`: a slot's final value is its initial value plus the sum of the values addressed to it; its
  column is the common column of these stores (if there is at least one);
* `state_eq_tab`: a state is the table of its slots;
* `den_eq_sum`: the dense reading of a row without repeated columns;
* `sum_slots_eq`: summing the slots of one row that carry column `k` = summing the stores of that row with column `k`.
-/
set_option linter.unusedSectionVars false
set_option linter.unusedVariables false
namespace DirectGiveCode
open SparseLU
variable {K : Type} [_root_.Field K]

abbrev State (K : Type) := List (List (Nat × K))

/-- slot `q` of row `r` (a zero slot outside the state) -/
def rd (rs : State K) (r q : Nat) : Nat × K := (rs.getD r []).getD q (0, Scalar.n 0)
/-- allocated size of row `r` -/
def rlen (rs : State K) (r : Nat) : Nat := (rs.getD r []).length

theorem getD_set' {γ : Type} (l : List γ) (i j : Nat) (a d : γ) :
    (l.set i a).getD j d = if i = j ∧ i < l.length then a else l.getD j d := by
  rw [List.getD_eq_getElem?_getD, List.getD_eq_getElem?_getD, List.getElem?_set]
  by_cases h : i = j
  · subst h
    by_cases h2 : i < l.length
    · simp [h2]
    · simp [h2, List.getElem?_eq_none (Nat.le_of_not_lt h2)]
  · simp [h]

section generic
variable {β : Type} (g : β → Option (Nat × Nat)) (c : β → Nat) (v : β → K)

/-- one accumulating store -/
def step (rs : State K) (u : β) : Option (State K) :=
  match g u with
  | none => none
  | some a =>
    if a.2 < (rs.getD a.1 []).length then
      some (rs.set a.1 ((rs.getD a.1 []).set a.2 (c u, ((rs.getD a.1 []).getD a.2 (0, Scalar.n 0)).2 + v u)))
    else none

/-- all stores of a list, in order -/
def run (rs0 : State K) (us : List β) : Option (State K) :=
  us.foldl (fun st u => st.bind fun rs => step g c v rs u) (some rs0)

/-- what happens to one slot -/
def slotFold (a : Nat × Nat) (e : Nat × K) (us : List β) : Nat × K :=
  us.foldl (fun e u => if g u = some a then (c u, e.2 + v u) else e) e

theorem step_spec (rs : State K) (u : β) (a : Nat × Nat) (hg : g u = some a) (h : a.2 < rlen rs a.1) :
    ∃ rs', step g c v rs u = some rs' ∧ rs'.length = rs.length ∧ (∀ r, rlen rs' r = rlen rs r) ∧
      ∀ r q, rd rs' r q = if a = (r, q) then (c u, (rd rs r q).2 + v u) else rd rs r q := by
  have hlt : a.1 < rs.length := by
    by_contra hc
    unfold rlen at h
    rw [SparseLU.getD_of_le _ (Nat.le_of_not_lt hc)] at h
    simp at h
  unfold step
  rw [hg]
  simp only
  unfold rlen at h
  rw [if_pos h]
  refine ⟨_, rfl, by simp, ?_, ?_⟩
  · intro r
    unfold rlen
    rw [getD_set']
    by_cases hr : a.1 = r
    · subst hr; rw [if_pos ⟨rfl, hlt⟩]; simp
    · rw [if_neg (fun hh => hr hh.1)]
  · intro r q
    unfold rd
    rw [getD_set']
    by_cases hr : a.1 = r
    · subst hr
      rw [if_pos ⟨rfl, hlt⟩, getD_set']
      by_cases hq : a.2 = q
      · subst hq
        rw [if_pos ⟨rfl, h⟩, if_pos rfl]
      · rw [if_neg (fun hh => hq hh.1), if_neg (fun hh => hq (by rw [hh]))]
    · rw [if_neg (fun hh => hr hh.1), if_neg (fun hh => hr (by rw [hh]))]

theorem run_cons_some (rs0 rs1 : State K) (u : β) (us : List β) (h : step g c v rs0 u = some rs1) :
    run g c v rs0 (u :: us) = run g c v rs1 us := by
  unfold run
  rw [List.foldl_cons]
  show List.foldl _ (step g c v rs0 u) us = _
  rw [h]

/-- **in-bounds stores succeed, keep the shape, and act slot by slot** -/
theorem run_spec : ∀ (us : List β) (rs0 : State K),
    (∀ u ∈ us, ∃ a, g u = some a ∧ a.2 < rlen rs0 a.1) →
    ∃ rsf, run g c v rs0 us = some rsf ∧ rsf.length = rs0.length ∧ (∀ r, rlen rsf r = rlen rs0 r) ∧
      ∀ r q, rd rsf r q = slotFold g c v (r, q) (rd rs0 r q) us := by
  intro us
  induction us with
  | nil => intro rs0 _; exact ⟨rs0, rfl, rfl, fun _ => rfl, fun _ _ => rfl⟩
  | cons u us ih =>
    intro rs0 hin
    obtain ⟨a, hg, ha⟩ := hin u (List.mem_cons_self ..)
    obtain ⟨rs1, h1, hl1, hr1, hd1⟩ := step_spec g c v rs0 u a hg ha
    obtain ⟨rsf, h2, hl2, hr2, hd2⟩ := ih rs1 (fun w hw => by
      obtain ⟨b, hb, hb'⟩ := hin w (List.mem_cons_of_mem _ hw)
      exact ⟨b, hb, by rw [hr1]; exact hb'⟩)
    refine ⟨rsf, by rw [run_cons_some g c v rs0 rs1 u us h1]; exact h2, by rw [hl2, hl1],
      fun r => by rw [hr2, hr1], ?_⟩
    intro r q
    rw [hd2, hd1]
    unfold slotFold
    rw [List.foldl_cons, hg]
    by_cases hh : a = (r, q)
    · rw [if_pos hh, if_pos (by rw [hh])]
    · rw [if_neg hh, if_neg (fun h' => hh (Option.some.inj h'))]

theorem slotFold_cons (a : Nat × Nat) (e : Nat × K) (u : β) (us : List β) :
    slotFold g c v a e (u :: us)
      = slotFold g c v a (if g u = some a then (c u, e.2 + v u) else e) us := rfl

/-- the value of a slot: initial value plus everything addressed to it -/
theorem slotFold_snd (a : Nat × Nat) : ∀ (us : List β) (e : Nat × K),
    (slotFold g c v a e us).2 = e.2 + (us.map fun u => if g u = some a then v u else 0).sum := by
  intro us
  induction us with
  | nil => intro e; simp [slotFold]
  | cons u us ih =>
    intro e
    rw [slotFold_cons, ih, List.map_cons, List.sum_cons]
    by_cases h : g u = some a
    · simp only [if_pos h]; ring
    · simp only [if_neg h]; ring

/-- the column of a slot that received at least one store, all of them with column `C` -/
theorem slotFold_fst (a : Nat × Nat) (C : Nat) : ∀ (us : List β) (e : Nat × K),
    (∀ u ∈ us, g u = some a → c u = C) → ((∃ u ∈ us, g u = some a) ∨ e.1 = C) →
    (slotFold g c v a e us).1 = C := by
  intro us
  induction us with
  | nil =>
    intro e _ h
    rcases h with ⟨u, hu, _⟩ | h
    · cases hu
    · exact h
  | cons u us ih =>
    intro e hC h
    rw [slotFold_cons]
    apply ih _ (fun w hw => hC w (List.mem_cons_of_mem _ hw))
    by_cases hu : g u = some a
    · right; rw [if_pos hu]; exact hC u (List.mem_cons_self ..) hu
    · rw [if_neg hu]
      rcases h with ⟨w, hw, hw'⟩ | h
      · rcases List.mem_cons.mp hw with rfl | hw
        · exact absurd hw' hu
        · exact Or.inl ⟨w, hw, hw'⟩
      · exact Or.inr h

end generic

theorem list_eq_tab {γ : Type} (l : List γ) (d : γ) : l = (List.range l.length).map fun q => l.getD q d := by
  apply List.ext_getElem
  · simp
  · intro i h1 h2
    simp only [List.getElem_map, List.getElem_range]
    rw [List.getD_eq_getElem?_getD, List.getElem?_eq_getElem h1]
    rfl

/-- a state is the table of its slots -/
theorem state_eq_tab (rs : State K) :
    rs = (List.range rs.length).map fun r => (List.range (rlen rs r)).map fun q => rd rs r q := by
  conv_lhs => rw [list_eq_tab rs []]
  apply List.map_congr_left
  intro r _
  exact list_eq_tab (rs.getD r []) (0, Scalar.n 0)

/-- dense reading of a row without repeated columns -/
theorem den_eq_sum (r : Row K) (hu : Uniq r) (k : Nat) :
    den r k = (r.map fun e => if e.1 = k then e.2 else 0).sum := by
  induction r with
  | nil => simp
  | cons e r ih =>
    rw [den_cons, List.map_cons, List.sum_cons]
    obtain ⟨h1, h2⟩ := uniq_cons.mp hu
    by_cases h : e.1 = k
    · rw [if_pos h, if_pos h]
      have : (r.map fun e => if e.1 = k then e.2 else 0).sum = 0 := by
        apply List.sum_eq_zero
        intro x hx
        obtain ⟨e', he', rfl⟩ := List.mem_map.mp hx
        rw [if_neg]
        intro h'
        apply h1
        rw [h, ← h']
        exact List.mem_map.mpr ⟨e', he', rfl⟩
      rw [this, add_zero]
    · rw [if_neg h, if_neg h, ih h2, zero_add]

/-- a tabulated row with injective columns -/
theorem uniq_tab (L : Nat) (C : Nat → Nat) (S : Nat → K)
    (hinj : ∀ q q', q < L → q' < L → C q = C q' → q = q') :
    Uniq ((List.range L).map fun q => (C q, S q)) := by
  unfold Uniq keys
  rw [List.map_map]
  apply List.Nodup.map_on _ List.nodup_range
  intro q hq q' hq' h
  exact hinj q q' (List.mem_range.mp hq) (List.mem_range.mp hq') h

theorem den_tab (L : Nat) (C : Nat → Nat) (S : Nat → K)
    (hinj : ∀ q q', q < L → q' < L → C q = C q' → q = q') (k : Nat) :
    den ((List.range L).map fun q => (C q, S q)) k
      = ((List.range L).map fun q => if C q = k then S q else 0).sum := by
  rw [den_eq_sum _ (uniq_tab L C S hinj), List.map_map]
  rfl

section exchange
variable {β : Type} (g : β → Option (Nat × Nat)) (c : β → Nat) (v : β → K)

/-- summing, over the slots of row `r` that carry column `k`, the values addressed to the slot = summing the values of the
    stores into row `r` with column `k` (every store addresses a slot `q < L` of its row whose column is the store's) -/
theorem sum_slots_eq (r L k : Nat) (C : Nat → Nat) (us : List β)
    (h : ∀ u ∈ us, ∃ a, g u = some a ∧ (a.1 = r → a.2 < L ∧ c u = C a.2)) :
    ((List.range L).map fun q => if C q = k then (us.map fun u => if g u = some (r, q) then v u else 0).sum else 0).sum
      = (us.map fun u => if (g u).map (·.1) = some r ∧ c u = k then v u else 0).sum := by
  induction us with
  | nil => simp
  | cons u us ih =>
    have ih' := ih (fun w hw => h w (List.mem_cons_of_mem _ hw))
    obtain ⟨a, hg, ha⟩ := h u (List.mem_cons_self ..)
    simp only [List.map_cons, List.sum_cons]
    rw [← ih']
    have split : ∀ q, (if C q = k then ((if g u = some (r, q) then v u else 0)
          + (us.map fun u => if g u = some (r, q) then v u else 0).sum) else 0)
        = (if C q = k then (if g u = some (r, q) then v u else 0) else 0)
          + (if C q = k then (us.map fun u => if g u = some (r, q) then v u else 0).sum else 0) := by
      intro q; split <;> simp
    simp only [split]
    rw [show (fun q => (if C q = k then (if g u = some (r, q) then v u else 0) else 0)
          + (if C q = k then (us.map fun u => if g u = some (r, q) then v u else 0).sum else 0))
        = fun q => (fun q => if C q = k then (if g u = some (r, q) then v u else 0) else 0) q
          + (fun q => if C q = k then (us.map fun u => if g u = some (r, q) then v u else 0).sum else 0) q from rfl]
    rw [List.sum_map_add]
    congr 1
    rw [hg]
    simp only [Option.map_some, Option.some.injEq]
    by_cases hr : a.1 = r
    · obtain ⟨hL, hc⟩ := ha hr
      rw [Stencil.list_range_sum]
      have : ∀ q, (if C q = k then (if a = (r, q) then v u else 0) else 0)
          = if a.2 = q then (if C q = k then v u else 0) else 0 := by
        intro q
        by_cases hq : a.2 = q
        · have : a = (r, q) := Prod.ext hr hq
          simp [hq, this]
        · have : ¬ a = (r, q) := fun h' => hq (by rw [h'])
          simp [hq, this]
      simp only [this]
      rw [Finset.sum_ite_eq (Finset.range L) a.2, if_pos (Finset.mem_range.mpr hL), hc]
      simp [hr]
    · have : ∀ q, ¬ a = (r, q) := fun q h' => hr (by rw [h'])
      simp [this, hr]

end exchange
end DirectGiveCode
