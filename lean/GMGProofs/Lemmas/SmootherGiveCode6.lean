import GMGProofs.Lemmas.SmootherGiveCode3
import GMGProofs.Lemmas.SmootherGiveCode5
/-!
# Code-level smoother (give), lemmas 6 — after a scatter pass `temp` holds `rhs - A_sc^ortho x` on the lines of the pass

* `circlePass_off`, `radialPass_off`: a pass does not touch the entries of the other lines;
* `circlePass_on`, `radialPass_on`: on a line of the pass colour, an entry that held `rhs` before the pass holds
  `SmootherCode.orthoCircle` / `SmootherCode.orthoRadial` of the iterate afterwards.
-/
set_option linter.unusedSimpArgs false
set_option linter.unusedSectionVars false
set_option linter.unusedVariables false
namespace SmootherGiveCode
open Stencil SmootherCode Finset
variable {K : Type} [_root_.Field K]

theorem tval_eq_zero (p q : Nat) (us : List (TUpd K)) (h : ∀ u ∈ us, ¬ (u.1 = p ∧ u.2.1 = q)) : tval p q us = 0 := by
  unfold tval
  apply List.sum_eq_zero
  intro v hv
  obtain ⟨u, hu, rfl⟩ := List.mem_map.mp hv
  rw [if_neg (h u hu)]

section sums
variable (o : Op K)

/-- selector sums over a shifted range -/
theorem sum_sel_shift {L nt m p : Nat} (h1 : m ≤ p) (h2 : p < m + L) (P : Nat → Prop) [DecidablePred P]
    (G : Nat → Nat → K) :
    ∑ t ∈ range L, ∑ b ∈ range nt, (if m + t = p ∧ P b then G t b else 0)
      = ∑ b ∈ range nt, if P b then G (p - m) b else 0 := by
  rw [← sum_sel (by omega : p - m < L) P G]
  apply Finset.sum_congr rfl; intro t _
  apply Finset.sum_congr rfl; intro b _
  exact if_congr (by constructor <;> rintro ⟨h1, h2⟩ <;> exact ⟨by omega, h2⟩) rfl rfl

theorem sum_sel_shift_out {L nt m p : Nat} (h : m + L ≤ p) (P : Nat → Prop) [DecidablePred P] (G : Nat → Nat → K) :
    ∑ t ∈ range L, ∑ b ∈ range nt, (if m + t = p ∧ P b then G t b else 0) = 0 := by
  apply Finset.sum_eq_zero; intro t ht
  apply Finset.sum_eq_zero; intro b _
  rw [if_neg]
  intro h'
  have := mem_range.mp ht
  omega

theorem sum_shift_self {L m p q : Nat} (h1 : m ≤ p) (h2 : p < m + L) (hq : q < o.nt) (G : Nat → Nat → K) :
    ∑ t ∈ range L, ∑ b ∈ range o.nt, (if m + t = p ∧ b = q then G t b else 0) = G (p - m) q := by
  rw [sum_sel_shift h1 h2 (fun b => b = q) G, sum_self hq]

theorem sum_shift_jm {L m p q : Nat} (h1 : m ≤ p) (h2 : p < m + L) (hq : q < o.nt) (G : Nat → Nat → K) :
    ∑ t ∈ range L, ∑ b ∈ range o.nt, (if m + t = p ∧ jm o b = q then G t b else 0) = G (p - m) (jp o q) := by
  rw [sum_sel_shift h1 h2 (fun b => jm o b = q) G, sum_jm o hq]

theorem sum_shift_jp {L m p q : Nat} (h1 : m ≤ p) (h2 : p < m + L) (hq : q < o.nt) (G : Nat → Nat → K) :
    ∑ t ∈ range L, ∑ b ∈ range o.nt, (if m + t = p ∧ jp o b = q then G t b else 0) = G (p - m) (jm o q) := by
  rw [sum_sel_shift h1 h2 (fun b => jp o b = q) G, sum_jp o hq]

end sums

section
variable (o : Op K) (nc : Nat)

/-! ### circle passes -/

theorem circlePass_targets (hnc : 2 ≤ nc) (hnt : 0 < o.nt) (c : Colour) (x : Stencil.Field K) (imax : Nat)
    (him : imax ≤ nc + 1) :
    ∀ u ∈ (List.range imax).flatMap (circleSection o nc c x), u.1 < nc ∧ circleColour nc u.1 = c ∧ u.2.1 < o.nt := by
  intro u hu
  obtain ⟨a, ha, hu⟩ := List.mem_flatMap.mp hu
  unfold circleSection at hu
  obtain ⟨b, hb, hu⟩ := List.mem_flatMap.mp hu
  exact circleOrtho_target o nc hnc hnt c x a b (by have := List.mem_range.mp ha; omega) (List.mem_range.mp hb) u hu

/-- the white pass runs over the circles only: the first radial node gives nothing to a white circle -/
theorem whitePass_range (hnc : 2 ≤ nc) (x : Stencil.Field K) :
    (List.range nc).flatMap (circleSection o nc .white x) = (List.range (nc + 1)).flatMap (circleSection o nc .white x) := by
  have : circleSection o nc .white x nc = [] := by
    unfold circleSection circleOrtho
    simp only [if_neg (by omega : ¬ (0 < nc ∧ nc < nc)), if_neg (by omega : ¬ nc = 0), if_true, reduceCtorEq, if_false]
    simp
  rw [List.range_succ, List.flatMap_append, List.flatMap_singleton, this, List.append_nil]

/-- a circle pass leaves all other entries of `temp` alone -/
theorem circlePass_off (hnc : 2 ≤ nc) (hnt : 0 < o.nt) (c : Colour) (x : Stencil.Field K) (imax : Nat) (him : imax ≤ nc + 1)
    (t : Array K) (p q : Nat) (hq : q < o.nt) (hlt : p * o.nt + q < t.size) (hoff : ¬ (p < nc ∧ circleColour nc p = c)) :
    fld o.nt (applyAll o.nt t ((List.range imax).flatMap (circleSection o nc c x))) p q = fld o.nt t p q := by
  have ht := circlePass_targets o nc hnc hnt c x imax him
  rw [applyAll_fld o.nt _ (fun u hu => (ht u hu).2.2) p q hq t hlt, tval_eq_zero, sub_zero]
  intro u hu h
  apply hoff
  rw [← h.1]
  exact ⟨(ht u hu).1, (ht u hu).2.1⟩

/-- **on a circle of the pass colour `temp` becomes `rhs - A_sc^ortho x`** -/
theorem circlePass_on (hnc : 2 ≤ nc) (hnr : nc + 3 ≤ o.nr) (hnt : 0 < o.nt) (f x : Stencil.Field K) (t : Array K)
    (p q : Nat) (hp : p < nc) (hq : q < o.nt) (hlt : p * o.nt + q < t.size) (hf : fld o.nt t p q = f p q) :
    fld o.nt (applyAll o.nt t ((List.range (nc + 1)).flatMap (circleSection o nc (circleColour nc p) x))) p q
      = orthoCircle o nc f x p q := by
  have ht := circlePass_targets o nc hnc hnt (circleColour nc p) x (nc + 1) (le_refl _)
  rw [applyAll_fld o.nt _ (fun u hu => (ht u hu).2.2) p q hq t hlt, hf, tval_flatMap, list_range_sum]
  have e : ∀ a, tval p q (circleSection o nc (circleColour nc p) x a)
      = ∑ b ∈ range o.nt, tval p q (circleOrtho o nc (circleColour nc p) x a b) := by
    intro a; unfold circleSection; rw [tval_flatMap, list_range_sum]
  simp only [e]
  rw [sum_grid_congr _ _ (fun a b ha _ => tval_circleOrtho o nc hnc x p q a b hp (by omega))]
  simp only [Finset.sum_add_distrib]
  rw [sum_sel_self o (by omega) hq, sum_sel_jm o (by omega) hq, sum_sel_jp o (by omega) hq, sum_sel_self o (by omega) hq,
    sum_sel_self o (by omega) hq]
  unfold orthoCircle giveLeft giveRight diagTerms
  by_cases h0 : p = 0
  · subst h0
    cases hbc : o.bc
    · simp only [if_neg (by omega : ¬ (0 < 0 ∧ 0 < nc)), if_true, Bool.false_eq_true, if_false, and_false, Nat.zero_add,
        coeff1, coeff2, jm_jp o hq, jp_jm o hq, h1_pos o (by omega : 1 ≠ 0), Nat.sub_self]
      ring
    · simp only [if_neg (by omega : ¬ (0 < 0 ∧ 0 < nc)), if_true, and_self, Nat.zero_sub]
      ring
  · have e1 : p - 1 + 1 = p := by omega
    simp only [h0, if_neg h0, if_pos (show 0 < p ∧ p < nc from ⟨by omega, hp⟩), false_and, if_false, coeff1, coeff2, jm_jp o hq,
      jp_jm o hq, h1_pos o h0, h1_pos o (by omega : p + 1 ≠ 0), Nat.add_sub_cancel, e1]
    ring

/-! ### radial passes -/

theorem radialPass_targets (hnc : 2 ≤ nc) (hnr : nc + 3 ≤ o.nr) (heven : o.nt % 2 = 0) (c : Colour) (f x : Stencil.Field K) :
    ∀ u ∈ (List.range o.nt).flatMap (radialSection o nc c f x),
      nc ≤ u.1 ∧ u.1 < o.nr ∧ radialColour u.2.1 = c ∧ u.2.1 < o.nt := by
  intro u hu
  obtain ⟨b, hb, hu⟩ := List.mem_flatMap.mp hu
  unfold radialSection at hu
  obtain ⟨s, hs, hu⟩ := List.mem_flatMap.mp hu
  exact radialOrtho_target o nc hnc hnr heven c f x (nc - 1 + s) b (by omega) (by have := List.mem_range.mp hs; omega)
    (List.mem_range.mp hb) u hu

/-- a radial pass leaves all other entries of `temp` alone -/
theorem radialPass_off (hnc : 2 ≤ nc) (hnr : nc + 3 ≤ o.nr) (heven : o.nt % 2 = 0) (c : Colour) (f x : Stencil.Field K)
    (t : Array K) (p q : Nat) (hq : q < o.nt) (hlt : p * o.nt + q < t.size) (hoff : ¬ (nc ≤ p ∧ radialColour q = c)) :
    fld o.nt (applyAll o.nt t ((List.range o.nt).flatMap (radialSection o nc c f x))) p q = fld o.nt t p q := by
  have ht := radialPass_targets o nc hnc hnr heven c f x
  rw [applyAll_fld o.nt _ (fun u hu => (ht u hu).2.2.2) p q hq t hlt, tval_eq_zero, sub_zero]
  intro u hu h
  apply hoff
  rw [← h.1, ← h.2]
  exact ⟨(ht u hu).1, (ht u hu).2.2.1⟩

/-- **on a radial line of the pass colour `temp` becomes `rhs - A_sc^ortho x`** -/
theorem radialPass_on (hnc : 2 ≤ nc) (hnr : nc + 3 ≤ o.nr) (heven : o.nt % 2 = 0) (f x : Stencil.Field K) (t : Array K)
    (p q : Nat) (hp : nc ≤ p) (hp' : p < o.nr) (hq : q < o.nt) (hlt : p * o.nt + q < t.size) (hf : fld o.nt t p q = f p q) :
    fld o.nt (applyAll o.nt t ((List.range o.nt).flatMap (radialSection o nc (radialColour q) f x))) p q
      = orthoRadial o nc f x p q := by
  have ht := radialPass_targets o nc hnc hnr heven (radialColour q) f x
  rw [applyAll_fld o.nt _ (fun u hu => (ht u hu).2.2.2) p q hq t hlt, hf, tval_flatMap, list_range_sum]
  have e : ∀ b, tval p q (radialSection o nc (radialColour q) f x b)
      = ∑ s ∈ range (o.nr - (nc - 1)), tval p q (radialOrtho o nc (radialColour q) f x (nc - 1 + s) b) := by
    intro b; unfold radialSection; rw [tval_flatMap, list_range_sum]
  simp only [e]
  rw [Finset.sum_comm,
    sum_grid_congr _ _ (fun s b hs hb => tval_radialOrtho o nc hnc hnr heven f x p q (nc - 1 + s) b hp hp' (by omega)
      (by omega) hb)]
  simp only [Finset.sum_add_distrib]
  rw [sum_shift_self o (by omega) (by omega) hq, sum_shift_self o (by omega : nc - 1 ≤ p - 1) (by omega) hq,
    sum_shift_jm o (by omega) (by omega) hq, sum_shift_jp o (by omega) (by omega) hq]
  have e0 : nc - 1 + (p - (nc - 1)) = p := by omega
  have e0' : nc - 1 + (p - 1 - (nc - 1)) = p - 1 := by omega
  have e0'' : nc - 1 + (p + 1 - (nc - 1)) = p + 1 := by omega
  simp only [e0, e0']
  unfold orthoRadial giveRight giveBottom giveTop diagTerms
  have e1 : p - 1 + 1 = p := by omega
  by_cases hlast : p + 1 = o.nr
  · rw [sum_sel_shift_out (by omega)]
    simp only [if_pos hlast, if_neg (by omega : ¬ (nc < p ∧ p + 2 < o.nr)), if_neg (by omega : ¬ p = nc),
      if_neg (by omega : ¬ p + 2 = o.nr), if_pos (by omega : p - 1 + 2 = o.nr)]
    ring
  · rw [sum_shift_self o (by omega) (by omega) hq]
    simp only [e0'', if_neg hlast, if_neg (by omega : ¬ p - 1 + 2 = o.nr)]
    by_cases hpen : p + 2 = o.nr
    · simp only [if_pos hpen, if_neg (by omega : ¬ (nc < p ∧ p + 2 < o.nr)), if_neg (by omega : ¬ p = nc),
        if_pos (by omega : p + 1 + 1 = o.nr), if_neg (by omega : ¬ p - 1 + 1 = nc),
        coeff1, coeff2, coeff3, coeff4, jm_jp o hq, jp_jm o hq, h1_pos o (by omega : p ≠ 0), h1_pos o (by omega : p + 1 ≠ 0),
        Nat.add_sub_cancel, e1]
      ring
    · by_cases hfirst : p = nc
      · simp only [if_neg hpen, if_neg (by omega : ¬ (nc < p ∧ p + 2 < o.nr)), if_pos hfirst,
          if_neg (by omega : ¬ p + 1 + 1 = o.nr), if_pos (by omega : p - 1 + 1 = nc),
          coeff1, coeff2, coeff3, coeff4, jm_jp o hq, jp_jm o hq, h1_pos o (by omega : p ≠ 0), h1_pos o (by omega : p + 1 ≠ 0),
          Nat.add_sub_cancel, e1]
        ring
      · simp only [if_neg hpen, if_pos (show nc < p ∧ p + 2 < o.nr by omega), if_neg hfirst,
          if_neg (by omega : ¬ p + 1 + 1 = o.nr), if_neg (by omega : ¬ p - 1 + 1 = nc),
          coeff1, coeff2, coeff3, coeff4, jm_jp o hq, jp_jm o hq, h1_pos o (by omega : p ≠ 0), h1_pos o (by omega : p + 1 ≠ 0),
          Nat.add_sub_cancel, e1]
        ring

end
end SmootherGiveCode
