import GMGProofs.Lemmas.InterpAdjoint
import Mathlib.Algebra.Order.Field.Basic
import Mathlib.Tactic.Linarith
import Mathlib.Tactic.Positivity
import Mathlib.Tactic.FieldSimp
/-!
# Pointwise facts about `prolong` (C08): constants, bounds, linear data, locality

All through the tensor form `prolong = Pr ⊗ Pt` of `InterpAdjoint`.
-/
open InterpSums

namespace Interp
variable {K : Type} [_root_.Field K]

/-! ### constants -/

theorem Pr_const (h : ℕ → K) (c : K) (i : ℕ) (hh : h (i - 1) + h i ≠ 0) : Pr h (fun _ => c) i = c := by
  unfold Pr
  split_ifs
  · rw [div_eq_iff hh]; ring
  · rfl

theorem Pt_const (nt ntc : ℕ) (k : ℕ → K) (c : K) (j : ℕ) (hk : k ((j + nt - 1) % nt) + k j ≠ 0) :
    Pt nt ntc k (fun _ => c) j = c := by
  unfold Pt
  split_ifs
  · rw [div_eq_iff hk]; ring
  · rfl

theorem prolong_const_of_ne (p : Pair K) (c : K) (i j : ℕ) (hh : p.hF (i - 1) + p.hF i ≠ 0)
    (hk : p.kF (wF p (j + p.ntF - 1)) + p.kF j ≠ 0) : prolong p (fun _ _ => c) i j = c := by
  rw [prolong_eq_tensor]
  simp only [Pt_const p.ntF (ntC p) p.kF c j hk]
  exact Pr_const p.hF c i hh

/-! ### linear data: the code's weights give `r i + (h i - h (i-1))` instead of `r i` at odd nodes -/

theorem Pr_linear (h r : ℕ → K) (a b : K) (i : ℕ) (hr : ∀ i, r (i + 1) = r i + h i)
    (hh : h (i - 1) + h i ≠ 0) :
    Pr h (fun I => a + b * r (2 * I)) i = a + b * (r i + (if i % 2 = 1 then h i - h (i - 1) else 0)) := by
  unfold Pr
  split_ifs with h1
  · obtain ⟨t, rfl⟩ : ∃ t, i = 2 * t + 1 := ⟨i / 2, by omega⟩
    have e1 : (2 * t + 1) / 2 = t := by omega
    have e2 : 2 * t + 1 - 1 = 2 * t := by omega
    have e3 : 2 * (t + 1) = 2 * t + 1 + 1 := by omega
    simp only [e1, e2] at hh ⊢
    rw [e3, hr (2 * t + 1), hr (2 * t), div_eq_iff hh]
    ring
  · have e : 2 * (i / 2) = i := by omega
    simp only [e]; ring

theorem Pt_linear (q : ℕ) (k θ : ℕ → K) (a b : K) (j : ℕ) (hj : j + 1 < 2 * q) (hθ : ∀ j, θ (j + 1) = θ j + k j)
    (hk : k (j - 1) + k j ≠ 0) :
    Pt (2 * q) q k (fun J => a + b * θ (2 * J)) j
      = a + b * (θ j + (if j % 2 = 1 then k j - k (j - 1) else 0)) := by
  unfold Pt
  split_ifs with h1
  · obtain ⟨t, rfl⟩ : ∃ t, j = 2 * t + 1 := ⟨j / 2, by omega⟩
    have e1 : (2 * t + 1) / 2 = t := by omega
    have e2 : 2 * t + 1 - 1 = 2 * t := by omega
    have e3 : 2 * (t + 1) = 2 * t + 1 + 1 := by omega
    have e4 : (2 * t + 1 + 2 * q - 1) % (2 * q) = 2 * t := wrapM1_odd t q (by omega)
    have e5 : (t + 1) % q = t + 1 := Nat.mod_eq_of_lt (by omega)
    simp only [e1, e2, e4, e5] at hk ⊢
    rw [e3, hθ (2 * t + 1), hθ (2 * t), div_eq_iff hk]
    ring
  · have e : 2 * (j / 2) = j := by omega
    simp only [e]; ring

/-! ### bounds -/
section Ordered
variable [LinearOrder K] [IsStrictOrderedRing K]

/-- all spacings positive -/
structure PosSpacing (p : Pair K) : Prop where
  hF : ∀ i, 0 < p.hF i
  kF : ∀ j, 0 < p.kF j
  hC : ∀ I, 0 < p.hC I
  kC : ∀ J, 0 < p.kC J

theorem conv2 (a b u v lo hi : K) (ha : 0 < a) (hb : 0 < b) (hu : lo ≤ u ∧ u ≤ hi) (hv : lo ≤ v ∧ v ≤ hi) :
    lo ≤ (a * u + b * v) / (a + b) ∧ (a * u + b * v) / (a + b) ≤ hi := by
  have hab : 0 < a + b := by positivity
  rw [le_div_iff₀ hab, div_le_iff₀ hab]
  constructor
  · nlinarith [mul_nonneg ha.le (sub_nonneg.2 hu.1), mul_nonneg hb.le (sub_nonneg.2 hv.1)]
  · nlinarith [mul_nonneg ha.le (sub_nonneg.2 hu.2), mul_nonneg hb.le (sub_nonneg.2 hv.2)]

theorem Pr_bounds (h u : ℕ → K) (lo hi : K) (i : ℕ) (hp : ∀ i, 0 < h i) (hu : ∀ I, lo ≤ u I ∧ u I ≤ hi) :
    lo ≤ Pr h u i ∧ Pr h u i ≤ hi := by
  unfold Pr
  split_ifs
  · exact conv2 _ _ _ _ _ _ (hp _) (hp _) (hu _) (hu _)
  · exact hu _

theorem Pt_bounds (nt ntc : ℕ) (k v : ℕ → K) (lo hi : K) (j : ℕ) (hp : ∀ j, 0 < k j)
    (hv : ∀ J, lo ≤ v J ∧ v J ≤ hi) : lo ≤ Pt nt ntc k v j ∧ Pt nt ntc k v j ≤ hi := by
  unfold Pt
  split_ifs
  · exact conv2 _ _ _ _ _ _ (hp _) (hp _) (hv _) (hv _)
  · exact hv _

end Ordered

/-! ### locality: only in-range coarse (resp. fine) values are read -/

theorem prolong_local (p : Pair K) (hA : Admissible p) (x x' : Field K)
    (hx : ∀ I J, I < nrC p → J < ntC p → x I J = x' I J) (i j : ℕ) (hi : i < p.nrF) (hj : j < p.ntF) :
    prolong p x i j = prolong p x' i j := by
  obtain ⟨m, q, hm, hq, hnr, hnt, hc, hqc⟩ := hA.exists_mq
  have hw : ∀ a, wC p a < ntC p := fun a => Nat.mod_lt _ (by omega)
  have hjc : j / 2 < ntC p := by omega
  simp only [prolong]
  split_ifs with h1 h2 h2
  all_goals simp (disch := first | exact hw _ | omega) only [hx]

theorem exProlong_local (p : Pair K) (hA : Admissible p) (x x' : Field K)
    (hx : ∀ I J, I < nrC p → J < ntC p → x I J = x' I J) (i j : ℕ) (hi : i < p.nrF) (hj : j < p.ntF) :
    exProlong p x i j = exProlong p x' i j := by
  obtain ⟨m, q, hm, hq, hnr, hnt, hc, hqc⟩ := hA.exists_mq
  have hw : ∀ a, wC p a < ntC p := fun a => Nat.mod_lt _ (by omega)
  have hjc : j / 2 < ntC p := by omega
  simp only [exProlong]
  split_ifs with h1 h2 h2
  all_goals simp (disch := first | exact hw _ | omega) only [hx]

theorem restrict_local (p : Pair K) (hA : Admissible p) (y y' : Field K)
    (hy : ∀ i j, i < p.nrF → j < p.ntF → y i j = y' i j) (I J : ℕ) (hI : I < nrC p) (hJ : J < ntC p) :
    restrict p y I J = restrict p y' I J := by
  obtain ⟨m, q, hm, hq, hnr, hnt, hc, hqc⟩ := hA.exists_mq
  have hw : ∀ a, wF p a < p.ntF := fun a => Nat.mod_lt _ (by omega)
  simp only [restrict]
  split_ifs with h1 h2 h2
  all_goals simp (disch := first | exact hw _ | omega) only [hy]

theorem exRestrict_local (p : Pair K) (hA : Admissible p) (y y' : Field K)
    (hy : ∀ i j, i < p.nrF → j < p.ntF → y i j = y' i j) (I J : ℕ) (hI : I < nrC p) (hJ : J < ntC p) :
    exRestrict p y I J = exRestrict p y' I J := by
  obtain ⟨m, q, hm, hq, hnr, hnt, hc, hqc⟩ := hA.exists_mq
  have hw : ∀ a, wF p a < p.ntF := fun a => Nat.mod_lt _ (by omega)
  simp only [exRestrict]
  split_ifs with h1 h2 h2
  all_goals simp (disch := first | exact hw _ | omega) only [hy]

/-! ### explicit convex combination -/
section Ordered
variable [LinearOrder K] [IsStrictOrderedRing K]

theorem prolong_convex_weights (p : Pair K) (hP : PosSpacing p) (i j : ℕ) :
    ∃ w00 w10 w01 w11 : K, 0 ≤ w00 ∧ 0 ≤ w10 ∧ 0 ≤ w01 ∧ 0 ≤ w11 ∧ w00 + w10 + w01 + w11 = 1 ∧
      ∀ x : Field K, prolong p x i j = w00 * x (i / 2) (j / 2) + w10 * x (i / 2 + 1) (j / 2)
        + w01 * x (i / 2) (wC p (j / 2 + 1)) + w11 * x (i / 2 + 1) (wC p (j / 2 + 1)) := by
  have h1 := hP.hF (i - 1)
  have h2 := hP.hF i
  have k1 := hP.kF (wF p (j + p.ntF - 1))
  have k2 := hP.kF j
  have hh : p.hF (i - 1) + p.hF i ≠ 0 := by positivity
  have hk : p.kF (wF p (j + p.ntF - 1)) + p.kF j ≠ 0 := by positivity
  by_cases ci : i % 2 = 1 <;> by_cases cj : j % 2 = 1
  · refine ⟨p.hF (i - 1) * p.kF (wF p (j + p.ntF - 1)) / ((p.hF (i - 1) + p.hF i) * (p.kF (wF p (j + p.ntF - 1)) + p.kF j)),
      p.hF i * p.kF (wF p (j + p.ntF - 1)) / ((p.hF (i - 1) + p.hF i) * (p.kF (wF p (j + p.ntF - 1)) + p.kF j)),
      p.hF (i - 1) * p.kF j / ((p.hF (i - 1) + p.hF i) * (p.kF (wF p (j + p.ntF - 1)) + p.kF j)),
      p.hF i * p.kF j / ((p.hF (i - 1) + p.hF i) * (p.kF (wF p (j + p.ntF - 1)) + p.kF j)),
      by positivity, by positivity, by positivity, by positivity, ?_, ?_⟩
    · field_simp; ring
    · intro x; simp only [prolong, ci, cj, if_true]; field_simp
  · refine ⟨p.hF (i - 1) / (p.hF (i - 1) + p.hF i), p.hF i / (p.hF (i - 1) + p.hF i), 0, 0,
      by positivity, by positivity, le_refl _, le_refl _, ?_, ?_⟩
    · field_simp; ring
    · intro x; simp only [prolong, ci, cj, if_true, if_false]; field_simp; ring
  · refine ⟨p.kF (wF p (j + p.ntF - 1)) / (p.kF (wF p (j + p.ntF - 1)) + p.kF j), 0,
      p.kF j / (p.kF (wF p (j + p.ntF - 1)) + p.kF j), 0,
      by positivity, le_refl _, by positivity, le_refl _, ?_, ?_⟩
    · field_simp; ring
    · intro x; simp only [prolong, ci, cj, if_true, if_false]; field_simp; ring
  · refine ⟨1, 0, 0, 0, zero_le_one, le_refl _, le_refl _, le_refl _, by ring, ?_⟩
    intro x; simp only [prolong, ci, cj, if_false]; ring

end Ordered

end Interp
