import GMGProofs.Lemmas.CycleSpec
/-!
# Fixed points of the cycle specification (consistency of the correction scheme)
core Lean only.
-/
namespace MGCycle
variable {V : Type}

/-- the coarse levels `d0 ≤ l ≤ levels-1` map (zero iterate, zero right-hand side) to zero.
    Only the compositions that occur in a cycle are constrained. -/
structure ZeroData (o : Ops V) (c : Cfg) (d0 : Nat) : Prop where
  smooth : ∀ l, d0 ≤ l → l < c.levels - 1 → o.smooth l (o.zero l) (o.zero l) = o.zero l
  resid_restrict : ∀ l, d0 ≤ l → l < c.levels - 1 →
    o.restrict l (o.resid l (o.zero l) (o.zero l)) = o.zero (l + 1)
  solve : d0 ≤ c.levels - 1 → o.solve (c.levels - 1) (o.zero (c.levels - 1)) = o.zero (c.levels - 1)
  prolong_add : ∀ l, d0 ≤ l → l < c.levels - 1 →
    o.add (o.zero l) (o.prolong (l + 1) (o.zero (l + 1))) = o.zero l

/-- the stronger, factor-by-factor version asked for in the task implies `ZeroData` -/
theorem ZeroData.of_factors (o : Ops V) (c : Cfg) (d0 : Nat)
    (h1 : ∀ l, o.smooth l (o.zero l) (o.zero l) = o.zero l)
    (h2 : ∀ l, o.resid l (o.zero l) (o.zero l) = o.zero l)
    (h3 : ∀ l, o.restrict l (o.zero l) = o.zero (l + 1))
    (h4 : ∀ l, o.solve l (o.zero l) = o.zero l)
    (h5 : ∀ l, o.prolong (l + 1) (o.zero (l + 1)) = o.zero l)
    (h6 : ∀ l, o.add (o.zero l) (o.zero l) = o.zero l) : ZeroData o c d0 :=
  ⟨fun l _ _ => h1 l, fun l _ _ => by rw [h2, h3], fun _ => h4 _, fun l _ _ => by rw [h5, h6]⟩

theorem ZeroData.mono {o : Ops V} {c : Cfg} {d0 d1 : Nat} (z : ZeroData o c d0) (h : d0 ≤ d1) : ZeroData o c d1 :=
  ⟨fun l a b => z.smooth l (Nat.le_trans h a) b, fun l a b => z.resid_restrict l (Nat.le_trans h a) b,
   fun a => z.solve (Nat.le_trans h a), fun l a b => z.prolong_add l (Nat.le_trans h a) b⟩

theorem coarseOrSolve_zero (o : Ops V) (c : Cfg) (d0 : Nat) (z : ZeroData o c d0) (fuel d : Nat) (hd : d0 ≤ d)
    (IH : ∀ k, d + 1 ≤ c.levels - 1 → cyc o c k fuel d (o.zero d) (o.zero d) = o.zero d)
    (hL : d ≤ c.levels - 1) (k : Kind) :
    coarseOrSolve o c k fuel d (o.zero d) = o.zero d := by
  unfold coarseOrSolve
  split
  · rename_i h; rw [h]; exact z.solve (by rw [← h]; exact hd)
  · rename_i h
    have hlt : d + 1 ≤ c.levels - 1 := Nat.lt_of_le_of_ne hL h
    cases k <;> simp only [coarse] <;> simp only [IH _ hlt]

theorem cyc_zero_zero (o : Ops V) (c : Cfg) (d0 : Nat) (z : ZeroData o c d0) :
    ∀ (fuel : Nat) (k : Kind) (d : Nat), d0 ≤ d → d + 1 ≤ c.levels - 1 →
      cyc o c k fuel d (o.zero d) (o.zero d) = o.zero d
  | 0, k, d, _, _ => by simp
  | fuel + 1, k, d, hd, hL => by
      have hs : ∀ n, iter (fun v => o.smooth d v (o.zero d)) n (o.zero d) = o.zero d :=
        iter_fixed (fun v => o.smooth d v (o.zero d)) (o.zero d) (z.smooth d hd hL)
      rw [cyc_succ, hs, z.resid_restrict d hd hL,
        coarseOrSolve_zero o c d0 z fuel (d + 1) (Nat.le_succ_of_le hd)
          (fun k' h => cyc_zero_zero o c d0 z fuel k' (d + 1) (Nat.le_succ_of_le hd) h) hL k,
        z.prolong_add d hd hL, hs]

/-- `u` solves the level-`d` problem with right-hand side `f`, as far as the cycle can tell:
    the smoother fixes it, its restricted residual is the coarse zero vector, adding the prolongated zero
    changes nothing, and the coarser levels map zero to zero -/
structure ExactData (o : Ops V) (c : Cfg) (d : Nat) (u f : V) : Prop where
  smooth_fix : o.smooth d u f = u
  resid_restrict : o.restrict d (o.resid d f u) = o.zero (d + 1)
  add_prolong : o.add u (o.prolong (d + 1) (o.zero (d + 1))) = u
  coarse : ZeroData o c (d + 1)

theorem cyc_exact (o : Ops V) (c : Cfg) (k : Kind) (fuel d : Nat) (u f : V) (hL : d + 1 ≤ c.levels - 1)
    (E : ExactData o c d u f) : cyc o c k fuel d u f = u := by
  cases fuel with
  | zero => simp
  | succ fuel =>
      have hs : ∀ n, iter (fun v => o.smooth d v f) n u = u :=
        iter_fixed (fun v => o.smooth d v f) u E.smooth_fix
      rw [cyc_succ, hs, E.resid_restrict,
        coarseOrSolve_zero o c (d + 1) E.coarse fuel (d + 1) (Nat.le_refl _)
          (fun k' h => cyc_zero_zero o c (d + 1) E.coarse fuel k' (d + 1) (Nat.le_refl _) h) hL k,
        E.add_prolong, hs]

/-- the same for the implicitly extrapolated cycle on level 0 -/
structure ExExactData (o : Ops V) (c : Cfg) (fgs : Bool) (u f f1 : V) : Prop where
  smooth_fix : exSmF o fgs f u = u
  rhs_zero : o.lin43 (o.exRestrict 0 (o.resid 0 f u)) (o.resid 1 f1 (o.inject 0 u)) = o.zero 1
  add_prolong : o.add u (o.exProlong 1 (o.zero 1)) = u
  coarse : ZeroData o c 1

theorem excyc_exact (o : Ops V) (c : Cfg) (k : Kind) (fgs : Bool) (u f f1 : V) (hL : 1 ≤ c.levels - 1)
    (E : ExExactData o c fgs u f f1) : excyc o c k fgs u f f1 = u := by
  have hs : ∀ n, iter (exSmF o fgs f) n u = u := iter_fixed (exSmF o fgs f) u E.smooth_fix
  unfold excyc
  simp only [hs, E.rhs_zero]
  rw [coarseOrSolve_zero o c 1 E.coarse (c.levels - 2) 1 (Nat.le_refl _)
        (fun k' h => cyc_zero_zero o c 1 E.coarse _ k' 1 (Nat.le_refl _) h) hL k,
      E.add_prolong, hs]

end MGCycle
