import GMGProofs.Lemmas.Concrete6
/-!
# Two operator families that agree on invariant arguments compute the same cycles
core Lean only.
* `OpsAgree o₁ o₂ c P Q`: on every smoothing level the smoothers agree on iterates satisfying `P l` (right-hand sides `Q l`),
  the residuals agree, the coarsest-level solves agree, transfers and vector kernels agree;
* `cyc_agree`: if moreover `o₂` preserves the invariant (`OpsInv`), the V/W/F recursions over `o₁` and `o₂` return the same value;
* `excyc_agree`: the same for the implicitly extrapolated cycle on level 0 (`ExOpsInv`, `ExOpsAgree` list what its extra steps —
  the level-0 smoother of the chosen kind, the extrapolated right-hand side, the extrapolated prolongation — have to satisfy).
-/
namespace MGCycle
variable {V : Type}

/-- agreement of two operator families on arguments satisfying the invariant -/
structure OpsAgree (o₁ o₂ : Ops V) (c : Cfg) (P Q : Nat → V → Prop) : Prop where
  smooth : ∀ l x f, l < c.levels - 1 → P l x → Q l f → o₁.smooth l x f = o₂.smooth l x f
  resid : ∀ l f x, l < c.levels - 1 → Q l f → P l x → o₁.resid l f x = o₂.resid l f x
  solve : ∀ g, Q (c.levels - 1) g → o₁.solve (c.levels - 1) g = o₂.solve (c.levels - 1) g
  restrict : ∀ l v, o₁.restrict l v = o₂.restrict l v
  prolong : ∀ l v, o₁.prolong l v = o₂.prolong l v
  zero : ∀ l, o₁.zero l = o₂.zero l
  add : ∀ x y, o₁.add x y = o₂.add x y

theorem iter_agree (g₁ g₂ : V → V) (P : V → Prop) (hag : ∀ v, P v → g₁ v = g₂ v) (hinv : ∀ v, P v → P (g₂ v)) :
    ∀ n v, P v → iter g₁ n v = iter g₂ n v
  | 0, _, _ => rfl
  | n + 1, v, hv => by
      rw [iter_succ, iter_succ, hag v hv]
      exact iter_agree g₁ g₂ P hag hinv n (g₂ v) (hinv v hv)

/-- the coarse part agrees as soon as the cycles with that fuel agree -/
theorem coarseOrSolve_agree_of (o₁ o₂ : Ops V) (c : Cfg) (P Q : Nat → V → Prop) (A : OpsAgree o₁ o₂ c P Q)
    (I : OpsInv o₂ c P Q) (fuel : Nat)
    (IH : ∀ (k : Kind) (d : Nat) (u f : V), d < c.levels - 1 → P d u → Q d f →
      cyc o₁ c k fuel d u f = cyc o₂ c k fuel d u f)
    (k : Kind) (d : Nat) (g : V) (hd : d ≤ c.levels - 1) (hg : Q d g) :
    coarseOrSolve o₁ c k fuel d g = coarseOrSolve o₂ c k fuel d g := by
  unfold coarseOrSolve
  split
  · rename_i h
    rw [h]; rw [h] at hg
    exact A.solve g hg
  · rename_i h
    have hd1 : d < c.levels - 1 := by omega
    unfold coarse
    cases k
    · show cyc o₁ c .V fuel d (o₁.zero d) g = cyc o₂ c .V fuel d (o₂.zero d) g
      rw [A.zero]
      exact IH _ _ _ _ hd1 (I.zero _) hg
    · show cyc o₁ c .W fuel d (cyc o₁ c .W fuel d (o₁.zero d) g) g = cyc o₂ c .W fuel d (cyc o₂ c .W fuel d (o₂.zero d) g) g
      rw [A.zero, IH .W d (o₂.zero d) g hd1 (I.zero _) hg]
      exact IH _ _ _ _ hd1 (cyc_inv o₂ c P Q I _ _ _ _ _ hd1 (I.zero _) hg) hg
    · show cyc o₁ c .V fuel d (cyc o₁ c .F fuel d (o₁.zero d) g) g = cyc o₂ c .V fuel d (cyc o₂ c .F fuel d (o₂.zero d) g) g
      rw [A.zero, IH .F d (o₂.zero d) g hd1 (I.zero _) hg]
      exact IH _ _ _ _ hd1 (cyc_inv o₂ c P Q I _ _ _ _ _ hd1 (I.zero _) hg) hg

/-- **the V/W/F recursions over two agreeing operator families return the same value** -/
theorem cyc_agree (o₁ o₂ : Ops V) (c : Cfg) (P Q : Nat → V → Prop) (A : OpsAgree o₁ o₂ c P Q) (I : OpsInv o₂ c P Q) :
    ∀ (fuel : Nat) (k : Kind) (d : Nat) (u f : V), d < c.levels - 1 → P d u → Q d f →
      cyc o₁ c k fuel d u f = cyc o₂ c k fuel d u f
  | 0, k, d, u, f, _, _, _ => by rw [cyc_zero, cyc_zero]
  | fuel + 1, k, d, u, f, hd, hu, hf => by
      have IH := cyc_agree o₁ o₂ c P Q A I fuel
      rw [cyc_succ, cyc_succ]
      have hs : ∀ n v, P d v → iter (fun v => o₁.smooth d v f) n v = iter (fun v => o₂.smooth d v f) n v :=
        iter_agree _ _ (P d) (fun v hv => A.smooth d v f hd hv hf) (fun v hv => I.smooth d v f hd hv hf)
      rw [hs _ _ hu]
      have hu1 : P d (iter (fun v => o₂.smooth d v f) c.nu1 u) :=
        iter_inv _ (P d) (fun v hv => I.smooth d v f hd hv hf) _ _ hu
      generalize iter (fun v => o₂.smooth d v f) c.nu1 u = u1 at hu1 ⊢
      rw [A.resid d f u1 hd hf hu1, A.restrict]
      have hg : Q (d + 1) (o₂.restrict d (o₂.resid d f u1)) := I.resid_restrict d f u1 hd hf hu1
      generalize o₂.restrict d (o₂.resid d f u1) = g at hg ⊢
      rw [coarseOrSolve_agree_of o₁ o₂ c P Q A I fuel IH k (d + 1) g (by omega) hg, A.prolong, A.add]
      have he : P (d + 1) (coarseOrSolve o₂ c k fuel (d + 1) g) :=
        coarseOrSolve_inv o₂ c P Q I fuel k (d + 1) g (by omega) hg
      exact hs _ _ (I.add_prolong d u1 _ hd hu1 he)

theorem coarseOrSolve_agree (o₁ o₂ : Ops V) (c : Cfg) (P Q : Nat → V → Prop) (A : OpsAgree o₁ o₂ c P Q)
    (I : OpsInv o₂ c P Q) (fuel : Nat) (k : Kind) (d : Nat) (g : V) (hd : d ≤ c.levels - 1) (hg : Q d g) :
    coarseOrSolve o₁ c k fuel d g = coarseOrSolve o₂ c k fuel d g :=
  coarseOrSolve_agree_of o₁ o₂ c P Q A I fuel (cyc_agree o₁ o₂ c P Q A I fuel) k d g hd hg

/-- what the extra steps of the implicitly extrapolated cycle on level 0 have to preserve -/
structure ExOpsInv (o : Ops V) (fgs : Bool) (P Q : Nat → V → Prop) : Prop where
  exSm : ∀ x f, P 0 x → Q 0 f → P 0 (exSmF o fgs f x)
  exRhs : ∀ f f1 x, Q 0 f → P 0 x →
    Q 1 (o.lin43 (o.exRestrict 0 (o.resid 0 f x)) (o.resid 1 f1 (o.inject 0 x)))
  add_exProlong : ∀ x e, P 0 x → P 1 e → P 0 (o.add x (o.exProlong 1 e))

/-- … and on what the two operator families have to agree -/
structure ExOpsAgree (o₁ o₂ : Ops V) (fgs : Bool) (P Q : Nat → V → Prop) : Prop where
  exSm : ∀ x f, P 0 x → Q 0 f → exSmF o₁ fgs f x = exSmF o₂ fgs f x
  exRhs : ∀ f f1 x, Q 0 f → P 0 x →
    o₁.lin43 (o₁.exRestrict 0 (o₁.resid 0 f x)) (o₁.resid 1 f1 (o₁.inject 0 x)) =
      o₂.lin43 (o₂.exRestrict 0 (o₂.resid 0 f x)) (o₂.resid 1 f1 (o₂.inject 0 x))
  add_exProlong : ∀ x e, o₁.add x (o₁.exProlong 1 e) = o₂.add x (o₂.exProlong 1 e)

/-- **the implicitly extrapolated cycles over two agreeing operator families return the same value** -/
theorem excyc_agree (o₁ o₂ : Ops V) (c : Cfg) (P Q : Nat → V → Prop) (A : OpsAgree o₁ o₂ c P Q) (I : OpsInv o₂ c P Q)
    (fgs : Bool) (EA : ExOpsAgree o₁ o₂ fgs P Q) (EI : ExOpsInv o₂ fgs P Q) (hL : 1 ≤ c.levels - 1)
    (k : Kind) (u f f1 : V) (hu : P 0 u) (hf : Q 0 f) :
    excyc o₁ c k fgs u f f1 = excyc o₂ c k fgs u f f1 := by
  unfold excyc
  have hs : ∀ n v, P 0 v → iter (exSmF o₁ fgs f) n v = iter (exSmF o₂ fgs f) n v :=
    iter_agree _ _ (P 0) (fun v hv => EA.exSm v f hv hf) (fun v hv => EI.exSm v f hv hf)
  show iter (exSmF o₁ fgs f) c.nu2 (o₁.add (iter (exSmF o₁ fgs f) c.nu1 u) (o₁.exProlong 1 (coarseOrSolve o₁ c k (c.levels - 2) 1
      (o₁.lin43 (o₁.exRestrict 0 (o₁.resid 0 f (iter (exSmF o₁ fgs f) c.nu1 u)))
        (o₁.resid 1 f1 (o₁.inject 0 (iter (exSmF o₁ fgs f) c.nu1 u))))))) =
    iter (exSmF o₂ fgs f) c.nu2 (o₂.add (iter (exSmF o₂ fgs f) c.nu1 u) (o₂.exProlong 1 (coarseOrSolve o₂ c k (c.levels - 2) 1
      (o₂.lin43 (o₂.exRestrict 0 (o₂.resid 0 f (iter (exSmF o₂ fgs f) c.nu1 u)))
        (o₂.resid 1 f1 (o₂.inject 0 (iter (exSmF o₂ fgs f) c.nu1 u)))))))
  rw [hs _ _ hu]
  have hu1 : P 0 (iter (exSmF o₂ fgs f) c.nu1 u) := iter_inv _ (P 0) (fun v hv => EI.exSm v f hv hf) _ _ hu
  generalize iter (exSmF o₂ fgs f) c.nu1 u = u1 at hu1 ⊢
  rw [EA.exRhs f f1 u1 hf hu1]
  have hg := EI.exRhs f f1 u1 hf hu1
  generalize o₂.lin43 (o₂.exRestrict 0 (o₂.resid 0 f u1)) (o₂.resid 1 f1 (o₂.inject 0 u1)) = g at hg ⊢
  rw [coarseOrSolve_agree o₁ o₂ c P Q A I _ k 1 g hL hg, EA.add_exProlong]
  have he : P 1 (coarseOrSolve o₂ c k (c.levels - 2) 1 g) := coarseOrSolve_inv o₂ c P Q I _ k 1 g hL hg
  exact hs _ _ (EI.add_exProlong u1 _ hu1 he)

end MGCycle
