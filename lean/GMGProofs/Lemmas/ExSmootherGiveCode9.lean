import GMGProofs.Lemmas.ExSmootherGiveCode8
/-!
# Code-level extrapolated smoother (give), lemmas 9 — the CSR matrix of the innermost circle

* `colOK_node`: every store into the inner matrix writes the column index its slot is meant for (`Center`: the row itself,
  `Left`: the antipode);
* `inner_hit`: every allocated slot of the inner matrix receives at least one store;
* `inner_row_eq`, `innerCSR_eq`: row by row (column indices and values, storage order) the gather assembly's matrix.
-/
set_option linter.unusedSectionVars false
set_option linter.unusedVariables false
set_option linter.unusedSimpArgs false
namespace ExSmootherGiveCode
open Stencil SparseLU SmootherCode Finset
open DirectCode (Pos)
open DirectGiveCode (massValue diagValue nodeOrder)
open ExSmootherCode (innerNnz)
variable {K : Type} [_root_.Field K]

section
variable (T : Tables) (o : Op K) (nc : Nat)

/-- a store into the inner matrix carries the column index of its slot -/
def ColOK (u : Upd K) : Prop :=
  ∀ r q, target o nc u = .slot (.inner r) q → u.col = if q = 0 then r else ja o r

theorem colOK_ctri (k r c : Nat) (v : K) : ColOK o nc (.ctri k r c v) := by
  intro r' q h
  have ht : target o nc (.ctri k r c v) = triTarget (.ctMain k) (.ctSub k) (.ctCorner k) o.nt r c := rfl
  rw [ht] at h
  unfold triTarget at h
  split_ifs at h <;> cases h

theorem colOK_rtri (k r c : Nat) (v : K) : ColOK o nc (.rtri k r c v) := by
  intro r' q h
  have ht : target o nc (.rtri k r c v) = triTarget (.rtMain k) (.rtSub k) (.rtCorner k) (o.nr - nc) r c := rfl
  rw [ht] at h
  unfold triTarget at h
  split_ifs at h <;> cases h

theorem colOK_cdiag (k r : Nat) (v : K) : ColOK o nc (.cdiag k r v) := by
  intro r' q h; cases h
theorem colOK_rdiag (k r : Nat) (v : K) : ColOK o nc (.rdiag k r v) := by
  intro r' q h; cases h

theorem colOK_csr_center (hT : GoodTables T) (j r : Nat) (v : K) :
    ColOK o nc (.csr r (off T o j .Center) r v) := by
  intro r' q h
  rw [off_center T o hT] at h
  have ht : target o nc (.csr r 0 r v) = .slot (.inner r) 0 := rfl
  rw [ht] at h
  cases h
  rfl

theorem colOK_csr_left (hT : GoodTables T) (j r c : Nat) (v : K) (hj : j % 2 = 1) (hb : o.bc = false)
    (hc : c = ja o r) : ColOK o nc (.csr r (off T o j .Left) c v) := by
  intro r' q h
  rw [off_left T o hT j hj hb] at h
  have ht : target o nc (.csr r 1 c v) = .slot (.inner r) 1 := rfl
  rw [ht] at h
  cases h
  exact hc

set_option maxHeartbeats 4000000 in
theorem colOK_node (hT : GoodTables T) (heven : o.nt % 2 = 0) (i j : Nat) (hj : j < o.nt) :
    ∀ u ∈ nodeUpdates T o nc i j, ColOK o nc u := by
  unfold nodeUpdates
  simp only []
  split_ifs
  all_goals (
    try simp only [circleTriRows, List.cons_append, List.nil_append, List.forall_mem_cons]
    try and_intros)
  all_goals first
    | exact colOK_ctri o nc _ _ _ _
    | exact colOK_rtri o nc _ _ _ _
    | exact colOK_cdiag o nc _ _ _
    | exact colOK_rdiag o nc _ _ _
    | exact colOK_csr_center T o nc hT _ _ _
    | (apply colOK_csr_left T o nc hT <;>
        first | assumption | rfl | exact (ja_ja o heven hj).symm | (simpa using ‹¬ o.bc = true›))
    | (intro u hu; exact absurd hu List.not_mem_nil)

theorem colOK_all (hT : GoodTables T) (heven : o.nt % 2 = 0) : ∀ u ∈ allUpdates T o nc, ColOK o nc u := by
  intro u hu
  obtain ⟨p, hp, hu⟩ := List.mem_flatMap.mp hu
  exact colOK_node T o nc hT heven p.1 p.2 (DirectGiveCode.nodeOrder_snd o nc p hp) u hu

/-- every node of the innermost circle stores on its own `Center` slot -/
theorem inner_hit0 (hT : GoodTables T) (hnc : 3 ≤ nc) (hnr : nc + 3 ≤ o.nr) (r : Nat) (hr : r < o.nt) :
    ∃ u ∈ allUpdates T o nc, target o nc u = .slot (.inner r) 0 := by
  have hmem : (0, r) ∈ nodeOrder o nc := DirectGiveCode.mem_nodeOrder o nc (by omega) hr
  have key : ∃ u ∈ nodeUpdates T o nc 0 r, target o nc u = .slot (.inner r) 0 := by
    unfold nodeUpdates
    simp only []
    rw [if_neg (by omega), if_neg (by omega), if_pos trivial]
    have ht : ∀ (c : Nat) (v : K), target o nc (.csr r (off T o r .Center) c v) = .slot (.inner r) 0 := by
      intro c v; rw [off_center T o hT]; rfl
    split_ifs
    · exact ⟨_, List.mem_cons_self .., ht _ _⟩
    · exact ⟨_, List.mem_cons_self .., ht _ _⟩
    · exact ⟨_, List.mem_cons_self .., ht _ _⟩
  obtain ⟨u, hu, ht⟩ := key
  exact ⟨u, List.mem_flatMap.mpr ⟨(0, r), hmem, hu⟩, ht⟩

/-- across the origin every odd node of the innermost circle stores on its own `Left` slot -/
theorem inner_hit1 (hT : GoodTables T) (hnc : 3 ≤ nc) (hnr : nc + 3 ≤ o.nr) (hb : o.bc = false) (r : Nat)
    (hr : r < o.nt) (hro : r % 2 = 1) : ∃ u ∈ allUpdates T o nc, target o nc u = .slot (.inner r) 1 := by
  have hmem : (0, r) ∈ nodeOrder o nc := DirectGiveCode.mem_nodeOrder o nc (by omega) hr
  have key : ∃ u ∈ nodeUpdates T o nc 0 r, target o nc u = .slot (.inner r) 1 := by
    unfold nodeUpdates
    simp only []
    rw [if_neg (by omega), if_neg (by omega), if_pos trivial, if_neg (by rw [hb]; simp), if_pos hro]
    refine ⟨_, List.mem_cons_of_mem _ (List.mem_cons_self ..), ?_⟩
    rw [off_left T o hT r hro hb]; rfl
  obtain ⟨u, hu, ht⟩ := key
  exact ⟨u, List.mem_flatMap.mpr ⟨(0, r), hmem, hu⟩, ht⟩

variable (mf : Mem K) (A : Admissible T o nc)
  (hl : ∀ a, (mf a).length = alloc o nc a)
  (hv : ∀ a q, ((mf a).getD q (0, Scalar.n 0)).2 = slotSum o nc (allUpdates T o nc) a q)
  (hf : ∀ a q, (mf a).getD q (0, Scalar.n 0) = slotFold o nc a q (0, Scalar.n 0) (allUpdates T o nc))

include A hl hv hf

/-- the column index stored in an allocated slot of the inner matrix -/
theorem inner_col (r q : Nat) (hr : r < o.nt) (hq : q < innerNnz o r) :
    ((mf (.inner r)).getD q (0, Scalar.n 0)).1 = if q = 0 then r else ja o r := by
  rw [hf]
  apply slotFold_fst
  · intro u hu ht
    exact colOK_all T o nc A.tables A.heven u hu r q ht
  · left
    by_cases h0 : q = 0
    · subst h0
      exact inner_hit0 T o nc A.tables A.hnc A.hnr r hr
    · have hq1 : q = 1 := by
        unfold innerNnz at hq
        split_ifs at hq <;> omega
      subst hq1
      have hb : o.bc = false := by
        unfold innerNnz at hq
        cases hh : o.bc with
        | true => rw [hh] at hq; simp at hq
        | false => rfl
      have hro : r % 2 = 1 := by
        unfold innerNnz at hq
        rw [hb] at hq
        simp only [Bool.false_eq_true, if_false] at hq
        split_ifs at hq <;> omega
      exact inner_hit1 T o nc A.tables A.hnc A.hnr hb r hr hro

/-- **row `r` of the inner matrix: the gather assembly's slots (column index and value, storage order)** -/
theorem inner_row_eq (r : Nat) (hr : r < o.nt) : mf (.inner r) = ExSmootherCode.innerRow o r := by
  have hnt := A.hnt
  have hnc := A.hnc
  have hnr := A.hnr
  have hlen : (mf (.inner r)).length = innerNnz o r := by rw [hl]; simp only [alloc]; rw [if_pos hr]
  have v0 : ((mf (.inner r)).getD 0 (0, Scalar.n 0)).2 = expD o 0 r := by
    rw [hv, diag_slot T o nc A (a := .inner r) (q := 0) (x := 0) (y := r) (by simp [diagNode])
      (by
        simp only [alloc]; rw [if_pos hr]
        unfold innerNnz; split_ifs <;> omega) (by omega) hr]
  rw [DirectGiveCode.list_eq_tab (mf (.inner r)) (0, Scalar.n 0), hlen]
  unfold ExSmootherCode.innerRow
  by_cases hb : o.bc = true
  · have hn : innerNnz o r = 1 := by unfold innerNnz; rw [if_pos hb]
    rw [hn, if_pos hb]
    have c0 := inner_col T o nc mf A hl hv hf r 0 hr (by omega)
    simp only [List.range_one, List.map_cons, List.map_nil]
    congr 1
    apply Prod.ext
    · rw [c0]; simp
    · rw [v0]; unfold expD; rw [if_pos (Or.inr (Or.inl ⟨rfl, hb⟩))]; simp
  · have hb' : o.bc = false := by simpa using hb
    rw [if_neg hb]
    by_cases hro : r % 2 = 1
    · have hn : innerNnz o r = 2 := by
        unfold innerNnz; rw [if_neg hb, if_neg (by omega)]
      rw [hn, if_pos hro]
      have c0 := inner_col T o nc mf A hl hv hf r 0 hr (by omega)
      have c1 := inner_col T o nc mf A hl hv hf r 1 hr (by omega)
      have v1 : ((mf (.inner r)).getD 1 (0, Scalar.n 0)).2 = leftValue o 0 r 0 (ja o r) := by
        rw [hv, off_slot T o nc mf A hl hv (a := .inner r) (q := 1) (e := (0, r, 0, ja o r)) (by simp [offEntry])
          (by simp only [alloc]; rw [if_pos hr]; omega),
          osum_inner T o nc A.tables A.hnc A.hnr A.hodd (by omega) (A.h4 hb') hb' r hr hro,
          coeff1_ja o (by omega) A.heven (A.hk hb') hr]
        unfold leftValue
        ring
      have hr2 : List.range 2 = [0, 1] := by decide
      simp only [hr2, List.map_cons, List.map_nil]
      congr 1
      · apply Prod.ext
        · rw [c0]; simp
        · rw [v0]; unfold expD
          rw [if_neg (by
            rintro (h | ⟨_, h⟩ | ⟨_, h⟩)
            · omega
            · exact hb h
            · exact h hro)]
          simp
      · congr 1
        apply Prod.ext
        · rw [c1]; simp
        · rw [v1]
    · have hn : innerNnz o r = 1 := by
        unfold innerNnz; rw [if_neg hb, if_pos (by omega)]
      rw [hn, if_neg hro]
      have c0 := inner_col T o nc mf A hl hv hf r 0 hr (by omega)
      simp only [List.range_one, List.map_cons, List.map_nil]
      congr 1
      apply Prod.ext
      · rw [c0]; simp
      · rw [v0]; unfold expD; rw [if_pos (Or.inr (Or.inr ⟨by omega, hro⟩))]; simp

/-- **the CSR matrix of the innermost circle is the gather assembly's** -/
theorem innerCSR_eq : innerCSR o mf = ExSmootherCode.innerCSR o := by
  unfold innerCSR ExSmootherCode.innerCSR
  have hrows : (List.range o.nt).map (fun r => mf (.inner r)) = (List.range o.nt).map (ExSmootherCode.innerRow o) := by
    apply List.map_congr_left
    intro r hr
    exact inner_row_eq T o nc mf A hl hv hf r (List.mem_range.mp hr)
  simp only [hrows]

end
end ExSmootherGiveCode
