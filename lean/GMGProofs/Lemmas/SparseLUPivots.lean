import GMGProofs.Lemmas.SparseLULemmas
/-!
# Helper lemmas for C16 (h): injective leading principal blocks ⇒ no zero pivot

1. `lu_product_row_of_lt`: the row identity `A i · = Σ_{m<i} L i m · U m · + U i ·` only needs the pivots
   `m < i` (the factors of row `i` depend on the rows `< i` only);
2. `kerVec`: back substitution building a vector `x` supported on `[0..i]`, `x i = 1`, with `U x = 0`
   on the rows `≤ i` whenever the pivots `< i` are non-zero and pivot `i` IS zero;
3. `pivots_of_leading_injective_aux`: the contradiction with the injectivity of the leading block.
-/
set_option linter.unusedSectionVars false
set_option linter.unusedSimpArgs false
set_option linter.unusedVariables false

namespace SparseLU
open Finset

section Pivots
variable {K : Type} [Field K]

/-- `lu_product_row` for row `i` assuming only the pivots `m < i` non-zero -/
theorem lu_product_row_of_lt (A : CSR K) (i k : Nat) (hi : i < A.rows)
    (hp : ∀ m, m < i → den ((factorRows A).2.getD m []) m ≠ 0) :
    toDense A i k = ∑ m ∈ range i, den ((factorRows A).1.getD i []) m * den ((factorRows A).2.getD m []) k
        + den ((factorRows A).2.getD i []) k := by
  have inv := elim_invariant (denU (factorRows A).2) (den (loadRow A i)) i hp k
  unfold toDense
  rw [inv, den_U A i k hi, den_W A i k (by omega)]
  congr 1
  apply Finset.sum_congr rfl
  intro m hm
  have hm' : m < i := by simpa using hm
  rw [den_L A i m hi, if_pos hm', den_W A i m (by omega)]
  congr 1
  show (if m ≤ k then den ((factorRows A).2.getD m []) k else 0) = _
  rw [den_U A m k (by omega)]
  split <;> rfl

/-- changing one entry of `x` changes a dot product by the corresponding term -/
theorem sum_mul_update (N m0 : ℕ) (hm0 : m0 < N) (f x : ℕ → K) (v : K) :
    ∑ k ∈ range N, f k * (if k = m0 then v else x k)
      = ∑ k ∈ range N, f k * x k + f m0 * (v - x m0) := by
  have h : ∀ k ∈ range N, f k * (if k = m0 then v else x k)
      = f k * x k + (if k = m0 then f m0 * (v - x m0) else 0) := by
    intro k _
    by_cases hk : k = m0
    · subst hk; simp; ring
    · simp [hk]
  rw [Finset.sum_congr rfl h, Finset.sum_add_distrib, Finset.sum_ite_eq', if_pos (by simpa using hm0)]

/-- back substitution from `x i = 1` downwards: after `n` steps the entries `i, i-1, …, i-n` are final -/
def kerVec (U : ℕ → ℕ → K) (i : ℕ) : ℕ → ℕ → K
  | 0 => fun k => if k = i then 1 else 0
  | n + 1 => fun k =>
      if k = i - (n + 1) then
        -(∑ m ∈ range (i + 1), U (i - (n + 1)) m * kerVec U i n m) / U (i - (n + 1)) (i - (n + 1))
      else kerVec U i n k

theorem kerVec_succ (U : ℕ → ℕ → K) (i n k : ℕ) :
    kerVec U i (n + 1) k =
      if k = i - (n + 1) then
        -(∑ m ∈ range (i + 1), U (i - (n + 1)) m * kerVec U i n m) / U (i - (n + 1)) (i - (n + 1))
      else kerVec U i n k := rfl

theorem kerVec_spec (U : ℕ → ℕ → K) (i : ℕ)
    (hup : ∀ m k, k < m → U m k = 0) (hp : ∀ m, m < i → U m m ≠ 0) :
    ∀ n, n ≤ i →
      kerVec U i n i = 1 ∧ (∀ k, k < i - n → kerVec U i n k = 0) ∧
      (∀ m, i - n ≤ m → m < i → ∑ k ∈ range (i + 1), U m k * kerVec U i n k = 0)
  | 0, _ => by
      refine ⟨by simp [kerVec], ?_, ?_⟩
      · intro k hk
        have : k ≠ i := by omega
        simp [kerVec, this]
      · intro m h1 h2; omega
  | n + 1, hn => by
      obtain ⟨h1, h2, h3⟩ := kerVec_spec U i hup hp n (by omega)
      have hm0 : i - (n + 1) < i := by omega
      refine ⟨?_, ?_, ?_⟩
      · rw [kerVec_succ, if_neg (by omega)]; exact h1
      · intro k hk
        rw [kerVec_succ, if_neg (by omega)]; exact h2 k (by omega)
      · intro m hm hmi
        have hfun : ∀ k, kerVec U i (n + 1) k =
            if k = i - (n + 1) then
              -(∑ q ∈ range (i + 1), U (i - (n + 1)) q * kerVec U i n q) / U (i - (n + 1)) (i - (n + 1))
            else kerVec U i n k := fun k => rfl
        simp only [hfun]
        rw [sum_mul_update (i + 1) (i - (n + 1)) (by omega)]
        rw [h2 (i - (n + 1)) (by omega), sub_zero]
        by_cases hmm : m = i - (n + 1)
        · subst hmm
          have hd := hp (i - (n + 1)) hm0
          field_simp
          ring
        · rw [h3 m (by omega) hmi, hup m (i - (n + 1)) (by omega)]
          ring

/-- pivots `< i` non-zero, pivot `i` zero: a vector with `x i = 1` in the kernel of the leading block of `U` -/
theorem kerVec_final (U : ℕ → ℕ → K) (i : ℕ)
    (hup : ∀ m k, k < m → U m k = 0) (hp : ∀ m, m < i → U m m ≠ 0) (h0 : U i i = 0) :
    kerVec U i i i = 1 ∧ ∀ m, m ≤ i → ∑ k ∈ range (i + 1), U m k * kerVec U i i k = 0 := by
  obtain ⟨h1, _, h3⟩ := kerVec_spec U i hup hp i (le_refl i)
  refine ⟨h1, ?_⟩
  intro m hm
  by_cases hmi : m = i
  · subst hmi
    rw [Finset.sum_range_succ, h0, zero_mul, add_zero]
    apply Finset.sum_eq_zero
    intro k hk
    rw [hup m k (by simpa using hk), zero_mul]
  · exact h3 m (by omega) (by omega)

/-- every leading principal block injective ⇒ no zero pivot -/
theorem pivots_of_leading_injective_aux (A : CSR K)
    (hinj : ∀ k, k < A.rows → ∀ x : ℕ → K,
      (∀ i, i ≤ k → ∑ m ∈ range (k + 1), toDense A i m * x m = 0) → ∀ m, m ≤ k → x m = 0) :
    ∀ i, i < A.rows → den ((factorRows A).2.getD i []) i ≠ 0 := by
  intro i
  induction i using Nat.strong_induction_on with
  | _ i ih =>
      intro hi h0
      have hp : ∀ m, m < i → denU (factorRows A).2 m m ≠ 0 := fun m hm => ih m hm (by omega)
      obtain ⟨hx1, hker⟩ := kerVec_final (denU (factorRows A).2) i (fun m k h => U_upper A m k h) hp h0
      set x := kerVec (denU (factorRows A).2) i i with hx
      have hzero : x i = 0 := by
        refine hinj i hi x (fun r hr => ?_) i (le_refl i)
        have h1 : ∀ m ∈ range (i + 1), toDense A r m * x m
            = ∑ q ∈ range r, den ((factorRows A).1.getD r []) q * (denU (factorRows A).2 q m * x m)
              + denU (factorRows A).2 r m * x m := by
          intro m _
          rw [lu_product_row_of_lt A r m (by omega) (fun q hq => hp q (by omega)), add_mul, Finset.sum_mul]
          congr 1
          apply Finset.sum_congr rfl
          intro q _
          show _ = _ * (den ((factorRows A).2.getD q []) m * x m)
          ring
        rw [Finset.sum_congr rfl h1, Finset.sum_add_distrib, Finset.sum_comm, hker r hr, add_zero]
        apply Finset.sum_eq_zero
        intro q hq
        have hq' : q < r := by simpa using hq
        rw [← Finset.mul_sum, hker q (by omega), mul_zero]
      rw [hx1] at hzero
      exact one_ne_zero hzero

end Pivots

section PD
variable {F : Type} [Field F] [LinearOrder F] [IsStrictOrderedRing F]

/-- a positive definite quadratic form (no symmetry needed) has injective leading principal blocks -/
theorem leading_injective_of_pd (A : CSR F)
    (hpd : ∀ x : ℕ → F, (∃ m, m < A.rows ∧ x m ≠ 0) → (∀ m, A.rows ≤ m → x m = 0) →
      0 < ∑ i ∈ range A.rows, x i * ∑ m ∈ range A.rows, toDense A i m * x m) :
    ∀ k, k < A.rows → ∀ x : ℕ → F,
      (∀ i, i ≤ k → ∑ m ∈ range (k + 1), toDense A i m * x m = 0) → ∀ m, m ≤ k → x m = 0 := by
  intro k hk x hx m hm
  by_contra hne
  set x' : ℕ → F := fun q => if q ≤ k then x q else 0 with hx'
  have hpos := hpd x' ⟨m, by omega, by simp only [hx', if_pos hm]; exact hne⟩
    (fun q hq => by simp only [hx']; rw [if_neg (by omega)])
  have hz : ∑ i ∈ range A.rows, x' i * ∑ q ∈ range A.rows, toDense A i q * x' q = 0 := by
    apply Finset.sum_eq_zero
    intro i _
    by_cases hik : i ≤ k
    · have : ∑ q ∈ range A.rows, toDense A i q * x' q = ∑ q ∈ range (k + 1), toDense A i q * x q := by
        symm
        have hsub : range (k + 1) ⊆ range A.rows := by
          intro q hq; simp at hq ⊢; omega
        rw [← Finset.sum_subset hsub (f := fun q => toDense A i q * x' q)]
        · apply Finset.sum_congr rfl
          intro q hq
          have : q ≤ k := by have := Finset.mem_range.mp hq; omega
          simp only [hx', if_pos this]
        · intro q _ hq
          have : ¬ q ≤ k := by simp at hq; omega
          simp only [hx', if_neg this, mul_zero]
      rw [this, hx i hik, mul_zero]
    · simp only [hx', if_neg hik, zero_mul]
  rw [hz] at hpos
  exact lt_irrefl _ hpos

end PD

end SparseLU
