import GMGModel.Concrete
/-!
# The strict association-list interpreter `Concrete.execL` agrees with `MGCycle.exec`
core Lean only.  `LMem.get d (m.set r v)` is `MGCycle.upd`; hence `stepL` is `stepI` and the folds agree cell by cell.
-/
namespace Concrete
open MGCycle

variable {V : Type}

theorem LMem.find_filter_ne (m : LMem V) (r q : Ref) (h : q ≠ r) :
    (m.filter (fun e => e.1 != r)).find? (fun e => e.1 == q) = m.find? (fun e => e.1 == q) := by
  rw [List.find?_filter]
  congr 1
  funext e
  by_cases hq : e.1 = q
  · have : e.1 ≠ r := by rw [hq]; exact h
    simp [hq, h]
  · simp [hq]

/-- reading after a write: the written cell holds the new value, every other cell what it held -/
theorem LMem.get_set (d : Ref → V) (m : LMem V) (r q : Ref) (v : V) :
    (m.set r v).get d q = if q = r then v else m.get d q := by
  unfold LMem.get LMem.set
  by_cases h : q = r
  · subst h
    rw [List.find?_cons_of_pos (by simp), if_pos rfl]
  · have h2 : (r == q) = false := beq_false_of_ne (fun h' => h h'.symm)
    rw [List.find?_cons_of_neg (by simp [h2]), LMem.find_filter_ne m r q h, if_neg h]

/-- the function memory an association list denotes -/
def LMem.den (d : Ref → V) (m : LMem V) : Mem V := fun r => m.get d r

theorem LMem.den_set (d : Ref → V) (m : LMem V) (r : Ref) (v : V) :
    LMem.den d (m.set r v) = upd (LMem.den d m) r v := by
  funext q
  exact LMem.get_set d m r q v

theorem stepL_den (o : Ops V) (d : Ref → V) (m : LMem V) (i : Instr) :
    LMem.den d (stepL o d m i) = stepI o (LMem.den d m) i := by
  cases i <;> simp only [stepL, stepI, LMem.den_set] <;> rfl

theorem execL_den (o : Ops V) (d : Ref → V) (p : List Instr) :
    ∀ m : LMem V, LMem.den d (execL o d p m) = exec o p (LMem.den d m) := by
  induction p with
  | nil => intro m; rfl
  | cons i rest ih =>
      intro m
      show LMem.den d (execL o d rest (stepL o d m i)) = exec o rest (stepI o (LMem.den d m) i)
      rw [ih, stepL_den]

theorem LMem.den_nil (d : Ref → V) : LMem.den d ([] : LMem V) = d := rfl

end Concrete
