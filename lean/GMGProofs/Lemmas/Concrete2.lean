import GMGModel.Concrete
import GMGProofs.Lemmas.FieldScalar
import GMGProofs.Lemmas.SparseLULemmas
/-!
# Zero data through the code-level models (any field)
* forward / backward substitution of the sparse LU maps the zero right-hand side to the zero vector whenever the `tiny` test
  does not fire on a pivot (no hypothesis that the pivots are nonzero: `0 / d = 0`);
* row-major arrays vs node fields: the zero array is the zero field, an array is determined by its field on the grid;
* the bilinear transfers map the zero field to the zero field.
-/
namespace Concrete
open Stencil Scalar SparseLU

variable {K : Type} [_root_.Field K]

/-! ### zero lists through `SparseLU.solve` -/

theorem vget_replicate_zero (n k : Nat) : vget (List.replicate n (0 : K)) k = 0 := by
  unfold vget
  rw [List.getD_eq_getElem?_getD, List.getElem?_replicate]
  split <;> simp

theorem set_replicate_zero (n i : Nat) : (List.replicate n (0 : K)).set i 0 = List.replicate n 0 := by
  apply List.ext_getElem
  · simp
  · intro k h1 h2
    rw [List.getElem_set]
    split <;> simp

theorem fwdRow_zero (Li : Row K) (i n : Nat) :
    Li.foldl (fun b e => b.set i (vget b i - e.2 * vget b e.1)) (List.replicate n (0 : K)) = List.replicate n 0 := by
  induction Li with
  | nil => rfl
  | cons e rest ih =>
      rw [List.foldl_cons, vget_replicate_zero, vget_replicate_zero, mul_zero, sub_zero, set_replicate_zero, ih]

theorem fwdSolve_zero (L : List (Row K)) (n : Nat) : fwdSolve L (List.replicate n (0 : K)) = List.replicate n 0 := by
  unfold fwdSolve
  generalize List.range L.length = l
  induction l with
  | nil => rfl
  | cons i rest ih => rw [List.foldl_cons, fwdRow_zero, ih]

theorem bwdRow_zero (Ui : Row K) (hu : Uniq Ui) (i n : Nat) :
    bwdRow Ui i (List.replicate n (0 : K)) = (den Ui i, 0) := by
  rw [bwdRow_eq Ui hu]
  congr 1
  rw [vget_replicate_zero, Finset.sum_eq_zero, sub_zero]
  intro k _
  split
  · exact mul_zero _
  · rw [vget_replicate_zero, mul_zero]

theorem bwdSolve_zero (tiny : K → Bool) (U : List (Row K)) (hU : ∀ j, Uniq (U.getD j [])) (n : Nat) :
    ∀ i, (∀ j, j < i → tiny (den (U.getD j []) j) = false) →
      bwdSolve tiny U i (List.replicate n (0 : K)) = some (List.replicate n 0)
  | 0, _ => rfl
  | i + 1, h => by
      simp only [bwdSolve]
      rw [bwdRow_zero _ (hU i)]
      simp only [h i (Nat.lt_succ_self i), Bool.false_eq_true, if_false, zero_div, set_replicate_zero]
      exact bwdSolve_zero tiny U hU n i (fun j hj => h j (Nat.lt_succ_of_lt hj))

/-- `solveInPlace` of the zero right-hand side returns the zero vector as soon as the `tiny` exit is not taken -/
theorem solve_zero (tiny : K → Bool) (A : CSR K)
    (h : ∀ r, r < A.rows → tiny (den ((factorRows A).2.getD r []) r) = false) (n : Nat) :
    SparseLU.solve tiny (factorRows A) (List.replicate n (0 : K)) = some (List.replicate n 0) := by
  unfold SparseLU.solve
  rw [fwdSolve_zero, (factorRows_length A).2]
  exact bwdSolve_zero tiny _ (uniq_U A) n A.rows h

/-! ### arrays and node fields -/

theorem fld_replicate_zero (nt n : Nat) : SmootherCode.fld nt (Array.replicate n (0 : K)) = fun _ _ => 0 := by
  funext i j
  unfold SmootherCode.fld
  rw [Array.getD_eq_getD_getElem?, Array.getElem?_replicate]
  split <;> simp

theorem ofField_eq_replicate (nr nt : Nat) (u : Stencil.Field K) (h : ∀ i j, i < nr → j < nt → u i j = 0) :
    SmootherCode.ofField nr nt u = Array.replicate (nr * nt) 0 := by
  unfold SmootherCode.ofField
  apply Array.ext
  · simp
  · intro p h1 h2
    rw [Array.getElem_ofFn, Array.getElem_replicate]
    have hp : p < nr * nt := by simpa using h1
    have hnt : 0 < nt := by
      rcases Nat.eq_zero_or_pos nt with h0 | h0
      · rw [h0] at hp; simp at hp
      · exact h0
    exact h _ _ (Nat.div_lt_of_lt_mul (by rwa [Nat.mul_comm] at hp)) (Nat.mod_lt _ hnt)

theorem ofField_zero (nr nt : Nat) : SmootherCode.ofField nr nt (fun _ _ => (0 : K)) = Array.replicate (nr * nt) 0 :=
  ofField_eq_replicate nr nt _ (fun _ _ _ _ => rfl)

/-- an array of the grid's size is determined by its node field on the grid -/
theorem array_eq_of_fld (nr nt : Nat) (a b : Array K) (ha : a.size = nr * nt) (hb : b.size = nr * nt)
    (h : ∀ i j, i < nr → j < nt → SmootherCode.fld nt a i j = SmootherCode.fld nt b i j) : a = b := by
  apply Array.ext
  · rw [ha, hb]
  · intro p h1 h2
    have hp : p < nr * nt := by rw [← ha]; exact h1
    have hnt : 0 < nt := by
      rcases Nat.eq_zero_or_pos nt with h0 | h0
      · rw [h0] at hp; simp at hp
      · exact h0
    have := h (p / nt) (p % nt) (Nat.div_lt_of_lt_mul (by rwa [Nat.mul_comm] at hp)) (Nat.mod_lt _ hnt)
    unfold SmootherCode.fld at this
    rw [Nat.div_add_mod' p nt] at this
    rw [Array.getD_eq_getD_getElem?, Array.getD_eq_getD_getElem?, Array.getElem?_eq_getElem h1,
      Array.getElem?_eq_getElem h2] at this
    simpa using this

/-- `x += 0` -/
theorem add_zero_array (u : Array K) (m : Nat) :
    (Array.ofFn (n := u.size) fun p => u[p] + (Array.replicate m (0 : K)).getD p.val 0) = u := by
  apply Array.ext
  · simp
  · intro p h1 h2
    rw [Array.getElem_ofFn]
    have : (Array.replicate m (0 : K)).getD p 0 = 0 := by
      rw [Array.getD_eq_getD_getElem?, Array.getElem?_replicate]
      split <;> simp
    rw [this, add_zero]
    rfl

/-! ### the transfers are linear: zero goes to zero -/

theorem restrict_zero (p : Interp.Pair K) : Interp.restrict p (fun _ _ => (0 : K)) = fun _ _ => 0 := by
  funext I J
  simp [Interp.restrict]

theorem prolong_zero (p : Interp.Pair K) : Interp.prolong p (fun _ _ => (0 : K)) = fun _ _ => 0 := by
  funext i j
  simp [Interp.prolong]

end Concrete
