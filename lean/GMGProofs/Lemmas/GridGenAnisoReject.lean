import GMGProofs.Lemmas.GridGenAnisoMain
/-!
# `anisoDivision`: rejected inputs, and the one remaining undefined case (`aniso = 0`)
-/
namespace GridGenL
open GridGen
namespace An

theorem reject_outside (a : AnisoIn) (hR : a.R0 < a.R) (h : a.refr < a.R0 ∨ a.R < a.refr) :
    anisoDivision a = .throw "refinement radius outside [R0, R]" := by
  rw [anisoDivision_eq, if_pos]
  refine ⟨rfl, ?_⟩
  rintro ⟨h0, h1⟩
  have hd : 0 < a.R - a.R0 := by linarith
  unfold P at h0 h1
  rcases h with h | h
  · have : (a.refr - a.R0) / (a.R - a.R0) < 0 := div_neg_of_neg_of_pos (by linarith) hd
    linarith
  · have : 1 < (a.refr - a.R0) / (a.R - a.R0) := by rw [one_lt_div hd]; linarith
    linarith

theorem reject_large (a : AnisoIn)
    (h : a.aniso < 0 ∨ a.nrExp < 0 ∨ (2 : Int) ^ a.nrExp.toNat ≤ (2 : Int) ^ a.aniso.toNat) :
    ∃ m, anisoDivision a = .throw m := by
  rw [anisoDivision_eq]
  split
  · exact ⟨_, rfl⟩
  · rw [if_pos (by omega)]
    exact ⟨_, rfl⟩

/-- with anisotropy exponent 0 and at least 8 intervals the set `r_set` is empty, `nr = 2^nr_exp` is a multiple
of 8, and the routine executes `std::advance(r_set.begin(), -1)` -/
theorem aniso_zero_ub (a : AnisoIn) (hR : a.R0 < a.R) (hP : 0 ≤ P a ∧ P a ≤ 1) (hA : a.aniso = 0)
    (hn : 3 ≤ a.nrExp) : anisoDivision a = .ub "std::advance(r_set.begin(), -1)" := by
  have hA' : A a = 0 := by unfold A; omega
  obtain ⟨q, hq⟩ : ∃ q, a.nrExp.toNat = q + 3 := ⟨a.nrExp.toNat - 3, by omega⟩
  have hp8 : (2 : Int) ^ a.nrExp.toNat = 8 * (2 : Int) ^ q := by rw [hq, pow_add]; ring
  have hX : (0 : Int) < (2 : Int) ^ q := by positivity
  have hnE : nEqui a = (2 : Int) ^ a.nrExp.toNat - 1 := by unfold nEqui; rw [hA']; simp
  have hnr : nr a = (2 : Int) ^ a.nrExp.toNat := by unfold nr; rw [hnE]; ring
  have hn1 : 1 ≤ nEqui a := by omega
  have hfl := fl_bounds a hP.1 (by omega)
  have hr2 := r2_eq a hn1
  have hud := ud_pos a hn1 hR
  have hO : nRefO a = .ok 1 := by
    unfold nRefO; rw [hA', if_neg (by norm_num; omega)]; rfl
  have hse : se a 1 = fl a := by rw [se_eq]; omega
  rw [anisoDivision_eq, if_neg (fun h => h.2 hP), if_neg (by rw [hA, hp8]; norm_num; omega), hO, ok_bind]
  unfold body
  rw [hr2, hse, show (1 : Int).toNat = 1 from rfl, readFold_nil a.R0 (ud a) (nr a).toNat _ 1 hud hfl.1 (by omega),
    ok_bind, hA']
  show tail2 a 1 [] = _
  unfold tail2
  rw [if_pos]
  simp only [List.length_nil, Int.natCast_zero, Int.add_zero]
  omega

end An
end GridGenL
