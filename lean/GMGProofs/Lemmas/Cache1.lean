import GMGModel.Cache
import GMGProofs.Props.C17
/-!
# Helper lemmas for C03c: what `Cache.fillNodes` stores (core Lean only)

`fillNodes g size v` folds `Array.setIfInBounds` over all nodes in the loop order of the constructors.  On a valid grid
every node is visited, the index map is injective on the grid and onto `0 .. numNodes-1`, hence with
`size = numNodes` the result is the array `p ↦ v (multiIndex p)`; with `size = 0` it is empty.
-/
namespace Cache
variable {α : Type}

theorem getD_lt (a : Array α) (k : Nat) (z : α) (h : k < a.size) : a.getD k z = a[k] :=
  (Array.getElem_eq_getD z).symm

theorem ofFn_getD (n : Nat) (f : Nat → α) (k : Nat) (z : α) (h : k < n) :
    (Array.ofFn (n := n) fun i => f i.val).getD k z = f k := by
  rw [getD_lt _ _ _ (by simpa using h)]; simp

/-- a fold of `setIfInBounds` keeps the size -/
theorem foldl_set_size {ι : Type} (idx : ι → Nat) (val : ι → α) :
    ∀ (L : List ι) (a : Array α), (L.foldl (fun a p => a.setIfInBounds (idx p) (val p)) a).size = a.size
  | [], a => rfl
  | q :: L, a => by
      rw [List.foldl_cons, foldl_set_size idx val L]; simp

/-- slot `k` after the fold: if every write to `k` writes `x`, and either `x` is there already or some write hits `k` -/
theorem foldl_set_getD {ι : Type} (idx : ι → Nat) (val : ι → α) (z : α) (k : Nat) (x : α) :
    ∀ (L : List ι) (a : Array α), (∀ q ∈ L, idx q = k → val q = x) →
      (a.getD k z = x ∨ ∃ q ∈ L, idx q = k) → k < a.size →
      (L.foldl (fun a p => a.setIfInBounds (idx p) (val p)) a).getD k z = x
  | [], a, _, h, _ => by
      rcases h with h | ⟨q, hq, _⟩
      · exact h
      · cases hq
  | q :: L, a, hall, h, hk => by
      rw [List.foldl_cons]
      apply foldl_set_getD idx val z k x L
      · intro q' hq'; exact hall q' (List.mem_cons_of_mem _ hq')
      · by_cases hqk : idx q = k
        · left
          have := hall q List.mem_cons_self hqk
          subst hqk
          rw [getD_lt _ _ _ (by simpa using hk)]; simp [this]
        · rcases h with h | ⟨q', hq', hk'⟩
          · left
            rw [getD_lt _ _ _ hk] at h
            rw [getD_lt _ _ _ (by simpa using hk), Array.getElem_setIfInBounds_ne hk hqk]; exact h
          · right
            rcases List.mem_cons.mp hq' with rfl | hm
            · exact absurd hk' hqk
            · exact ⟨q', hm, hk'⟩
      · simpa using hk

theorem mem_visitOrder (g : Grid) (hnc : g.nc ≤ g.nr) (i j : Nat) :
    (i, j) ∈ visitOrder g ↔ i < g.nr ∧ j < g.nt := by
  unfold visitOrder
  simp only [List.mem_append, List.mem_flatMap, List.mem_map, List.mem_range, Prod.mk.injEq]
  constructor
  · rintro (⟨a, ha, b, hb, rfl, rfl⟩ | ⟨b, hb, t, ht, rfl, rfl⟩)
    · exact ⟨by omega, hb⟩
    · exact ⟨by omega, hb⟩
  · rintro ⟨hi, hj⟩
    by_cases h : i < g.nc
    · left; exact ⟨i, h, j, hj, rfl, rfl⟩
    · right; exact ⟨j, hj, i - g.nc, by omega, by omega, rfl⟩

variable [Scalar α]

theorem fillNodes_size (g : Grid) (size : Nat) (v : Nat → Nat → α) : (fillNodes g size v).size = size := by
  unfold fillNodes
  rw [foldl_set_size (fun p : Nat × Nat => g.fastIndex p.1 p.2) (fun p => v p.1 p.2)]; simp

theorem fillNodes_zero (g : Grid) (v : Nat → Nat → α) : fillNodes g 0 v = #[] :=
  Array.eq_empty_of_size_eq_zero (fillNodes_size g 0 v)

/-- **(a)** every node's slot holds the node's value -/
theorem fillNodes_getD (g : Grid) (hv : g.Valid) (v : Nat → Nat → α) (z : α) (i j : Nat)
    (hi : i < g.nr) (hj : j < g.nt) : (fillNodes g g.numNodes v).getD (g.fastIndex i j) z = v i j := by
  unfold fillNodes
  apply foldl_set_getD (fun p : Nat × Nat => g.fastIndex p.1 p.2) (fun p => v p.1 p.2)
  · rintro ⟨i', j'⟩ hq hidx
    obtain ⟨hi', hj'⟩ := (mem_visitOrder g hv.nc_le i' j').mp hq
    have := C17.index_injective g hv i' j' i j hi' hj' hi hj hidx
    simp only [Prod.mk.injEq] at this
    obtain ⟨rfl, rfl⟩ := this
    rfl
  · right
    exact ⟨(i, j), (mem_visitOrder g hv.nc_le i j).mpr ⟨hi, hj⟩, rfl⟩
  · simpa using C17.index_lt g hv i j hi hj

/-- **(a)** the whole array, slot by slot: slot `p` holds the value of node `multiIndex p` -/
theorem fillNodes_eq_ofFn (g : Grid) (hv : g.Valid) (v : Nat → Nat → α) :
    fillNodes g g.numNodes v = Array.ofFn (n := g.numNodes) fun p => v (g.multiIndex p.val).1 (g.multiIndex p.val).2 := by
  apply Array.ext
  · rw [fillNodes_size]; simp
  · intro k hk1 hk2
    have hk : k < g.numNodes := by simpa using hk2
    obtain ⟨h1, h2, h3⟩ := C17.index_multi g hv k hk
    have := fillNodes_getD g hv v (Scalar.n 0) _ _ h1 h2
    rw [h3] at this
    rw [getD_lt _ _ _ hk1] at this
    rw [this]; simp

/-- `fillNodes` reads `v` on the grid only -/
theorem fillNodes_congr (g : Grid) (hv : g.Valid) (v w : Nat → Nat → α)
    (h : ∀ i j, i < g.nr → j < g.nt → v i j = w i j) : fillNodes g g.numNodes v = fillNodes g g.numNodes w := by
  rw [fillNodes_eq_ofFn g hv, fillNodes_eq_ofFn g hv]
  congr 1; funext p
  obtain ⟨h1, h2, _⟩ := C17.index_multi g hv p.val p.isLt
  exact h _ _ h1 h2

end Cache
