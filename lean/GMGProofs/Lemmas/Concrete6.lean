import GMGProofs.Lemmas.CycleSpec
/-!
# Invariants of the textbook recursion `MGCycle.cyc` over abstract operators
core Lean only.
* `cyc_inv`: if on every smoothing level the operators preserve a predicate `P l` on iterates (given a predicate `Q l` on
  right-hand sides), the coarsest-level solve maps `Q` to `P`, and residual + restriction map `(Q l, P l)` to `Q (l + 1)`,
  then the V/W/F recursion preserves `P`;
* `cyc_shift`: on level 0 a relation `S` between iterates ("shifted by `w`") that the smoother respects (with the pair of
  right-hand sides `f`, `f'`), that makes the residuals EQUAL and that the correction step respects, is respected by one cycle.
-/
namespace MGCycle
variable {V : Type}

/-- what the operators have to preserve; `c.levels - 1` is the coarsest level (direct solve), the levels below it smooth -/
structure OpsInv (o : Ops V) (c : Cfg) (P Q : Nat → V → Prop) : Prop where
  smooth : ∀ l x f, l < c.levels - 1 → P l x → Q l f → P l (o.smooth l x f)
  resid_restrict : ∀ l f x, l < c.levels - 1 → Q l f → P l x → Q (l + 1) (o.restrict l (o.resid l f x))
  solve : ∀ g, Q (c.levels - 1) g → P (c.levels - 1) (o.solve (c.levels - 1) g)
  zero : ∀ l, P l (o.zero l)
  add_prolong : ∀ l x e, l < c.levels - 1 → P l x → P (l + 1) e → P l (o.add x (o.prolong (l + 1) e))

theorem iter_inv (g : V → V) (P : V → Prop) (h : ∀ v, P v → P (g v)) : ∀ n v, P v → P (iter g n v)
  | 0, _, hv => hv
  | n + 1, v, hv => by rw [iter_succ]; exact iter_inv g P h n (g v) (h v hv)

theorem iter_rel (g g' : V → V) (S : V → V → Prop) (h : ∀ v v', S v v' → S (g v) (g' v')) :
    ∀ n v v', S v v' → S (iter g n v) (iter g' n v')
  | 0, _, _, hv => hv
  | n + 1, v, v', hv => by rw [iter_succ, iter_succ]; exact iter_rel g g' S h n (g v) (g' v') (h v v' hv)

/-- the recursion preserves the invariant on every smoothing level -/
theorem cyc_inv (o : Ops V) (c : Cfg) (P Q : Nat → V → Prop) (I : OpsInv o c P Q) :
    ∀ (fuel : Nat) (k : Kind) (d : Nat) (u f : V), d < c.levels - 1 → P d u → Q d f → P d (cyc o c k fuel d u f)
  | 0, k, d, u, f, _, hu, _ => by rw [cyc_zero]; exact hu
  | fuel + 1, k, d, u, f, hd, hu, hf => by
      have IH := cyc_inv o c P Q I fuel
      rw [cyc_succ]
      have hu1 : P d (iter (fun v => o.smooth d v f) c.nu1 u) :=
        iter_inv _ (P d) (fun v hv => I.smooth d v f hd hv hf) _ _ hu
      generalize iter (fun v => o.smooth d v f) c.nu1 u = u1 at hu1 ⊢
      have hg : Q (d + 1) (o.restrict d (o.resid d f u1)) := I.resid_restrict d f u1 hd hf hu1
      generalize o.restrict d (o.resid d f u1) = g at hg ⊢
      have he : P (d + 1) (coarseOrSolve o c k fuel (d + 1) g) := by
        unfold coarseOrSolve
        split
        · rename_i h; rw [h]; rw [h] at hg; exact I.solve g hg
        · rename_i h
          have hd1 : d + 1 < c.levels - 1 := by omega
          unfold coarse
          cases k
          · exact IH _ _ _ _ hd1 (I.zero _) hg
          · exact IH _ _ _ _ hd1 (IH _ _ _ _ hd1 (I.zero _) hg) hg
          · exact IH _ _ _ _ hd1 (IH _ _ _ _ hd1 (I.zero _) hg) hg
      exact iter_inv _ (P d) (fun v hv => I.smooth d v f hd hv hf) _ _ (I.add_prolong d u1 _ hd hu1 he)

/-- the coarse part (direct solve on the coarsest level, recursive cycles from zero otherwise) maps `Q` to `P` -/
theorem coarseOrSolve_inv (o : Ops V) (c : Cfg) (P Q : Nat → V → Prop) (I : OpsInv o c P Q)
    (fuel : Nat) (k : Kind) (d : Nat) (g : V) (hd : d ≤ c.levels - 1) (hg : Q d g) :
    P d (coarseOrSolve o c k fuel d g) := by
  unfold coarseOrSolve
  split
  · rename_i h; rw [h]; rw [h] at hg; exact I.solve g hg
  · rename_i h
    have hd1 : d < c.levels - 1 := by omega
    unfold coarse
    cases k
    · exact cyc_inv o c P Q I _ _ _ _ _ hd1 (I.zero _) hg
    · exact cyc_inv o c P Q I _ _ _ _ _ hd1 (cyc_inv o c P Q I _ _ _ _ _ hd1 (I.zero _) hg) hg
    · exact cyc_inv o c P Q I _ _ _ _ _ hd1 (cyc_inv o c P Q I _ _ _ _ _ hd1 (I.zero _) hg) hg

/-- one cycle on level 0 respects a relation `S` between iterates that the smoother (with right-hand sides `f`, `f'`)
    respects, under which the two residuals are EQUAL, and that the correction step respects for corrections in `G` -/
theorem cyc_shift (o : Ops V) (c : Cfg) (k : Kind) (fuel : Nat) (f f' : V) (S : V → V → Prop) (G : V → Prop)
    (hs : ∀ x x', S x x' → S (o.smooth 0 x f) (o.smooth 0 x' f'))
    (hres : ∀ x x', S x x' → o.resid 0 f' x' = o.resid 0 f x)
    (hG : ∀ x x', S x x' → G (o.prolong 1 (coarseOrSolve o c k fuel 1 (o.restrict 0 (o.resid 0 f x)))))
    (hadd : ∀ x x' e, S x x' → G e → S (o.add x e) (o.add x' e))
    (u u' : V) (h : S u u') : S (cyc o c k (fuel + 1) 0 u f) (cyc o c k (fuel + 1) 0 u' f') := by
  rw [cyc_succ, cyc_succ]
  have h1 : S (iter (fun v => o.smooth 0 v f) c.nu1 u) (iter (fun v => o.smooth 0 v f') c.nu1 u') :=
    iter_rel _ _ S hs _ _ _ h
  generalize iter (fun v => o.smooth 0 v f) c.nu1 u = u1 at h1 ⊢
  generalize iter (fun v => o.smooth 0 v f') c.nu1 u' = u1' at h1 ⊢
  rw [hres u1 u1' h1]
  exact iter_rel _ _ S hs _ _ _ (hadd _ _ _ h1 (hG u1 u1' h1))

end MGCycle
