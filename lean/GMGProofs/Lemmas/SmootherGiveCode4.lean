import GMGProofs.Lemmas.SmootherGiveCode3
/-!
# Code-level smoother (give), lemmas 4 — column indices of the CSR rows; the solver objects of both strategies coincide

* `slotCol_eq`: the column index of a CSR cell after the assembly, if all stores into the cell agree on it;
* `colOK_node`: every `COO_CSR_UPDATE` of every node stores the column its offset stands for in ITS ROW
  (`expCol`: Center → the row's node, Left → its antipode, Bottom / Top → its angular neighbours; `nt` even);
* `circleMain_eq … innerCSR_eq`: the stored arrays, hence `circleSolverOf`, `radialSolverOf`, `innerCSROf` of the give
  assembly are those of `SmootherCode`.
-/
set_option linter.unusedSimpArgs false
set_option linter.unusedSectionVars false
set_option linter.unusedVariables false
set_option linter.unusedTactic false
set_option linter.unreachableTactic false
set_option linter.unnecessarySeqFocus false
namespace SmootherGiveCode
open Stencil SmootherCode Finset
variable {K : Type} [_root_.Field K]

/-- the column index of a cell that received at least one store, all of them with column `C` -/
theorem slotCol_eq (us : List (AUpd K)) (s : Slot) (C : Nat) (h1 : ∀ u ∈ us, u.1 = s → u.2.1 = C)
    (h2 : ∃ u ∈ us, u.1 = s) : slotCol us s = C := by
  unfold slotCol
  have : ∀ (l : List (AUpd K)) (e : Nat), (∀ u ∈ l, u.1 = s → u.2.1 = C) → ((∃ u ∈ l, u.1 = s) ∨ e = C) →
      l.foldl (fun acc u => if u.1 = s then u.2.1 else acc) e = C := by
    intro l
    induction l with
    | nil =>
      intro e _ h
      rcases h with ⟨u, hu, _⟩ | h
      · cases hu
      · exact h
    | cons u l ih =>
      intro e hC h
      rw [List.foldl_cons]
      apply ih _ (fun w hw => hC w (List.mem_cons_of_mem _ hw))
      by_cases hu : u.1 = s
      · right; rw [if_pos hu]; exact hC u (List.mem_cons_self ..) hu
      · rw [if_neg hu]
        rcases h with ⟨w, hw, hw'⟩ | h
        · rcases List.mem_cons.mp hw with rfl | hw
          · exact absurd hw' hu
          · exact Or.inl ⟨w, hw, hw'⟩
        · exact Or.inr h
  exact this us 0 h1 (Or.inl h2)

section
variable (o : Op K) (nc : Nat)

/-- the column offset `q` of row `r` stands for -/
def expCol (r q : Nat) : Nat := if q = 0 then r else if q = 1 then ja o r else if q = 2 then jm o r else jp o r

/-- a store is consistent: if it goes to a CSR cell, its column is the one the cell's offset stands for -/
def ColOK (u : AUpd K) : Prop := ∀ r q, u.1 = .inner r q → u.2.1 = expCol o r q

theorem colOK_tri (M : Mat) (row col : Nat) (v : K) : ∀ u ∈ tri o nc M row col v, ColOK o u := by
  intro u hu r q h
  unfold tri at hu
  cases hs : triSlot (matCols o nc M) M row col with
  | none => rw [hs] at hu; cases hu
  | some s =>
    rw [hs] at hu
    have : u = (s, col, v) := by simpa using hu
    subst this
    exact absurd (by rw [hs]; exact congrArg some h) (fun h' => (triSlot_inner _ M row col r q).mp h')

theorem colOK_tri' (M : Mat) (row col : Nat) (v : K) : (∀ u ∈ tri o nc M row col v, ColOK o u) ↔ True :=
  iff_true_intro (colOK_tri o nc M row col v)

theorem colOK_csr (row off col : Nat) (v : K) : (∀ u ∈ csr row off col v, ColOK o u) ↔ col = expCol o row off := by
  unfold csr ColOK
  simp only [List.mem_singleton, forall_eq, Slot.inner.injEq, and_imp]
  constructor
  · intro h; exact h row off rfl rfl
  · intro h r q h1 h2; subst h1; subst h2; exact h

/-- **every `COO_CSR_UPDATE` stores the column its offset stands for in its row** -/
theorem colOK_node (heven : o.nt % 2 = 0) (a b : Nat) (hb : b < o.nt) : ∀ u ∈ nodeUpdates o nc a b, ColOK o u := by
  have e1 : jp o (jm o b) = b := jp_jm o hb
  have e2 : jm o (jp o b) = b := jm_jp o hb
  have e3 : ja o (ja o b) = b := ja_ja o heven hb
  unfold nodeUpdates circleInterior radialInterior innerDirichlet innerAcross radialFirst radialNextOuter radialOuter
  split_ifs <;>
  simp only [List.forall_mem_append, colOK_tri', colOK_csr, expCol, and_true, true_and, and_self, if_true, if_false,
    e1, e2, e3, List.not_mem_nil, false_imp_iff, implies_true, OfNat.ofNat_ne_zero, OfNat.ofNat_ne_one, one_ne_zero,
    Nat.succ_ne_self, (by decide : (3 : Nat) ≠ 2), (by decide : (2 : Nat) ≠ 1), (by decide : (3 : Nat) ≠ 1)]

theorem mem_allUpdates {a b : Nat} (ha : a < o.nr) (hb : b < o.nt) {u : AUpd K} (hu : u ∈ nodeUpdates o nc a b) :
    u ∈ allUpdates o nc :=
  List.mem_flatMap.mpr ⟨(a, b), DirectGiveCode.mem_nodeOrder o nc ha hb, hu⟩

theorem allUpdates_colOK (heven : o.nt % 2 = 0) : ∀ u ∈ allUpdates o nc, ColOK o u := by
  intro u hu
  obtain ⟨p, hp, hu⟩ := List.mem_flatMap.mp hu
  exact colOK_node o nc heven p.1 p.2 (DirectGiveCode.nodeOrder_snd o nc p hp) u hu

/-- the column index of an allocated CSR cell -/
theorem slotCol_inner (hnr : nc + 3 ≤ o.nr) (heven : o.nt % 2 = 0) (j q : Nat) (hj : j < o.nt)
    (hq : q < if o.bc then 1 else 4) : slotCol (allUpdates o nc) (.inner j q) = expCol o j q := by
  apply slotCol_eq
  · intro u hu h
    exact allUpdates_colOK o nc heven u hu j q h
  · have hmem : ∀ u, u ∈ nodeUpdates o nc 0 j → u ∈ allUpdates o nc := fun u hu => mem_allUpdates o nc (by omega) hj hu
    have h0 : nodeUpdates o nc 0 j = if o.bc then innerDirichlet o nc j else innerAcross o nc j := by
      unfold nodeUpdates; rw [if_neg (by omega), if_neg (by omega), if_pos rfl]
    cases hbc : o.bc
    · rw [hbc] at hq h0
      simp only [Bool.false_eq_true, if_false] at hq h0
      rcases (by omega : q = 0 ∨ q = 1 ∨ q = 2 ∨ q = 3) with rfl | rfl | rfl | rfl
      · exact ⟨(.inner j 0, j, mass o 0 j), hmem _ (by rw [h0]; simp [innerAcross, csr]), rfl⟩
      · exact ⟨(.inner j 1, ja o j, -(coeff1 o 0 j) * o.arr 0 j), hmem _ (by rw [h0]; simp [innerAcross, csr]), rfl⟩
      · exact ⟨(.inner j 2, jm o j, -(coeff3 o 0 j) * o.att 0 j), hmem _ (by rw [h0]; simp [innerAcross, csr]), rfl⟩
      · exact ⟨(.inner j 3, jp o j, -(coeff4 o 0 j) * o.att 0 j), hmem _ (by rw [h0]; simp [innerAcross, csr]), rfl⟩
    · rw [hbc] at hq h0
      simp only [if_true] at hq h0
      have : q = 0 := by omega
      subst this
      exact ⟨(.inner j 0, j, Scalar.n 1), hmem _ (by rw [h0]; simp [innerDirichlet, csr]), rfl⟩

/-! ### no store leaves the allocated storage -/

/-- the cells that exist: circle solvers `1 … nc-1` of dimension `nt` (cyclic), radial solvers `0 … nt-1` of dimension
    `nr - nc` (not cyclic: no corner cell is ever addressed), CSR rows of 1 resp. 4 cells -/
def SlotInB : Slot → Prop
  | .cMain i j => 0 < i ∧ i < nc ∧ j < o.nt
  | .cSub i j => 0 < i ∧ i < nc ∧ j + 1 < o.nt
  | .cCorner i => 0 < i ∧ i < nc
  | .rMain j t => j < o.nt ∧ t < o.nr - nc
  | .rSub j t => j < o.nt ∧ t + 1 < o.nr - nc
  | .rCorner _ => False
  | .inner r q => r < o.nt ∧ q < (if o.bc then 1 else 4)

theorem inB_tri_circle (i row col : Nat) (v : K) (hi0 : 0 < i) (hi : i < nc) (hr : row < o.nt) (hc : col < o.nt) :
    ∀ u ∈ tri o nc (.circle i) row col v, SlotInB o nc u.1 := by
  intro u hu
  unfold tri triSlot at hu
  split_ifs at hu <;> simp only [List.mem_singleton, List.not_mem_nil] at hu <;> subst hu <;>
    simp only [SlotInB] <;> omega

theorem inB_tri_radial (j row col : Nat) (v : K) (hj : j < o.nt) (hr : row < o.nr - nc) (hc : col < o.nr - nc)
    (hadj : row = col ∨ row + 1 = col ∨ col + 1 = row) :
    ∀ u ∈ tri o nc (.radial j) row col v, SlotInB o nc u.1 := by
  intro u hu
  unfold tri triSlot matCols at hu
  split_ifs at hu <;> simp only [List.mem_singleton, List.not_mem_nil] at hu <;> (try subst hu) <;>
    simp only [SlotInB] <;> omega

theorem inB_csr (row off col : Nat) (v : K) (hr : row < o.nt) (hq : off < (if o.bc then 1 else 4)) :
    ∀ u ∈ csr row off col v, SlotInB o nc u.1 := by
  intro u hu
  unfold csr at hu
  simp only [List.mem_singleton] at hu
  subst hu
  exact ⟨hr, hq⟩

/-- **every store of every node addresses an allocated cell** -/
theorem inB_node (hnc : 2 ≤ nc) (hnr : nc + 3 ≤ o.nr) (a b : Nat) (hb : b < o.nt) :
    ∀ u ∈ nodeUpdates o nc a b, SlotInB o nc u.1 := by
  have hm := jm_lt o (by omega) b
  have hp := jp_lt o (by omega) b
  have hA := ja_lt o (by omega) b
  unfold nodeUpdates circleInterior radialInterior innerDirichlet innerAcross radialFirst radialNextOuter radialOuter
  split_ifs <;>
  simp only [List.forall_mem_append, List.not_mem_nil, false_imp_iff, implies_true, and_true, true_and] <;>
  (repeat' apply And.intro) <;>
  (first
    | (apply inB_tri_circle <;> omega)
    | (apply inB_tri_radial <;> omega)
    | (apply inB_csr <;> simp_all))

theorem allUpdates_inB (hnc : 2 ≤ nc) (hnr : nc + 3 ≤ o.nr) : ∀ u ∈ allUpdates o nc, SlotInB o nc u.1 := by
  intro u hu
  obtain ⟨p, hp, hu⟩ := List.mem_flatMap.mp hu
  exact inB_node o nc hnc hnr p.1 p.2 (DirectGiveCode.nodeOrder_snd o nc p hp) u hu

/-! ### the stored arrays -/

theorem circleMain_eq (hnc : 2 ≤ nc) (hnr : nc + 3 ≤ o.nr) (hnt : 3 ≤ o.nt) (i : Nat) (hi0 : 0 < i) (hi : i < nc) :
    circleMain o nc i = SmootherCode.circleMain o i := by
  unfold circleMain circleMainOf SmootherCode.circleMain
  apply List.map_congr_left
  intro j hj
  exact slotVal_cMain o nc hnc hnr hnt i j hi0 hi (List.mem_range.mp hj)

theorem circleSub_eq (hnc : 2 ≤ nc) (hnr : nc + 3 ≤ o.nr) (hnt : 3 ≤ o.nt) (i : Nat) (hi0 : 0 < i) (hi : i < nc) :
    circleSub o nc i = SmootherCode.circleSub o i := by
  unfold circleSub circleSubOf SmootherCode.circleSub
  apply List.map_congr_left
  intro j hj
  exact slotVal_cSub o nc hnc hnr hnt i j hi0 hi (by have := List.mem_range.mp hj; omega)

theorem circleCorner_eq (hnc : 2 ≤ nc) (hnr : nc + 3 ≤ o.nr) (hnt : 3 ≤ o.nt) (i : Nat) (hi0 : 0 < i) (hi : i < nc) :
    circleCorner o nc i = SmootherCode.circleCorner o i :=
  slotVal_cCorner o nc hnc hnr hnt i hi0 hi

theorem radialMain_eq (hnc : 2 ≤ nc) (hnr : nc + 3 ≤ o.nr) (hnt : 3 ≤ o.nt) (j : Nat) (hj : j < o.nt) :
    radialMain o nc j = SmootherCode.radialMain o nc j := by
  unfold radialMain radialMainOf SmootherCode.radialMain
  apply List.map_congr_left
  intro t ht
  rw [slotVal_rMain o nc hnc hnr hnt j t hj (List.mem_range.mp ht)]
  simp only [Scalar.n_one]

theorem radialSub_eq (hnc : 2 ≤ nc) (hnr : nc + 3 ≤ o.nr) (hnt : 3 ≤ o.nt) (j : Nat) (hj : j < o.nt) :
    radialSub o nc j = SmootherCode.radialSub o nc j := by
  unfold radialSub radialSubOf SmootherCode.radialSub
  apply List.map_congr_left
  intro t ht
  rw [slotVal_rSub o nc hnc hnr hnt j t hj (by have := List.mem_range.mp ht; omega)]
  simp only [Scalar.n_zero]

theorem innerRow_eq (hnc : 2 ≤ nc) (hnr : nc + 3 ≤ o.nr) (hnt : 3 ≤ o.nt) (heven : o.nt % 2 = 0)
    (hk : o.bc = false → ∀ j, j < o.nt → o.k (ja o j) = o.k j) (j : Nat) (hj : j < o.nt) :
    innerRow o nc j = SmootherCode.innerRow o j := by
  unfold innerRow innerRowOf SmootherCode.innerRow
  cases hbc : o.bc
  · have hc := fun q (hq : q < 4) => slotCol_inner o nc hnr heven j q hj (by rw [hbc]; exact hq)
    simp only [Bool.false_eq_true, if_false, (by decide : List.range 4 = [0, 1, 2, 3]), List.map_cons, List.map_nil,
      hc 0 (by omega), hc 1 (by omega), hc 2 (by omega), hc 3 (by omega),
      slotVal_inner0 o nc hnc hnr hnt heven hbc (hk hbc) j hj, slotVal_inner1 o nc hnc hnr hnt heven hbc (hk hbc) j hj,
      slotVal_inner2 o nc hnc hnr hnt hbc j hj, slotVal_inner3 o nc hnc hnr hnt hbc j hj]
    simp [expCol]
  · have hc := slotCol_inner o nc hnr heven j 0 hj (by rw [hbc]; decide)
    simp only [if_true, (by decide : List.range 1 = [0]), List.map_cons, List.map_nil, hc,
      slotVal_innerD o nc hnc hnr hnt hbc j hj]
    simp [expCol]

theorem innerCSR_eq (hnc : 2 ≤ nc) (hnr : nc + 3 ≤ o.nr) (hnt : 3 ≤ o.nt) (heven : o.nt % 2 = 0)
    (hk : o.bc = false → ∀ j, j < o.nt → o.k (ja o j) = o.k j) :
    innerCSR o nc = SmootherCode.innerCSR o := by
  have h : (List.range o.nt).map (innerRowOf (allUpdates o nc) o.bc) = (List.range o.nt).map (SmootherCode.innerRow o) := by
    apply List.map_congr_left
    intro j hj
    exact innerRow_eq o nc hnc hnr hnt heven hk j (List.mem_range.mp hj)
  unfold innerCSR innerCSROf SmootherCode.innerCSR
  simp only [h]

theorem circleSolver_eq (hnc : 2 ≤ nc) (hnr : nc + 3 ≤ o.nr) (hnt : 3 ≤ o.nt) (i : Nat) (hi0 : 0 < i) (hi : i < nc) :
    circleSolverOf (allUpdates o nc) o.nt i = SmootherCode.circleSolver o i := by
  have h1 := circleMain_eq o nc hnc hnr hnt i hi0 hi
  have h2 := circleSub_eq o nc hnc hnr hnt i hi0 hi
  have h3 := circleCorner_eq o nc hnc hnr hnt i hi0 hi
  unfold circleMain at h1; unfold circleSub at h2; unfold circleCorner at h3
  unfold circleSolverOf SmootherCode.circleSolver
  rw [h1, h2, h3]

theorem radialSolver_eq (hnc : 2 ≤ nc) (hnr : nc + 3 ≤ o.nr) (hnt : 3 ≤ o.nt) (j : Nat) (hj : j < o.nt) :
    radialSolverOf (allUpdates o nc) (o.nr - nc) j = SmootherCode.radialSolver o nc j := by
  have h1 := radialMain_eq o nc hnc hnr hnt j hj
  have h2 := radialSub_eq o nc hnc hnr hnt j hj
  unfold radialMain at h1; unfold radialSub at h2
  unfold radialSolverOf SmootherCode.radialSolver
  rw [h1, h2]

end
end SmootherGiveCode
