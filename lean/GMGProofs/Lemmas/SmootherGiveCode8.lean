import GMGProofs.Lemmas.SmootherGiveCode7
/-!
# Code-level smoother (give), lemmas 8 — all line solves of one colour, give against take

`circle_fold`, `radial_fold`: if before the solves of a colour every line of that colour finds `rhs - A_sc^ortho x` of the
current iterate in its slice of `temp`, then the give solves update the iterate exactly as `SmootherCode.circleStep` /
`radialStep` do, and leave `temp` off the solved lines alone.  (Lines of one colour do not read each other, so solving one
does not invalidate the slices of the others.)
-/
set_option linter.unusedSimpArgs false
set_option linter.unusedSectionVars false
set_option linter.unusedVariables false
namespace SmootherGiveCode
open Stencil SmootherCode Finset
variable {K : Type} [_root_.Field K]

section
variable (o : Op K) (nc : Nat)

theorem circleSolve_none (us : List (AUpd K)) (tiny : K → Bool) (L : List Nat) :
    L.foldl (circleSolveStep o us tiny) none = none := by
  induction L with
  | nil => rfl
  | cons i L ih => rw [List.foldl_cons]; exact ih

/-- **the circle solves of one colour** (`r` = parity of the circle indices of that colour) -/
theorem circle_fold (hnc : 2 ≤ nc) (hnr : nc + 3 ≤ o.nr) (hnt : 3 ≤ o.nt) (heven : o.nt % 2 = 0)
    (hk : o.bc = false → ∀ j, j < o.nt → o.k (ja o j) = o.k j) (tiny : K → Bool) (f : Stencil.Field K) (r : Nat)
    (L : List Nat) (hLn : L.Nodup) (hL : ∀ i ∈ L, i < nc ∧ i % 2 = r) :
    ∀ (a tg : Array K), a.size = o.nr * o.nt → tg.size = o.nr * o.nt →
      (∀ i ∈ L, ∀ q, q < o.nt → fld o.nt tg i q = orthoCircle o nc f (fld o.nt a) i q) →
      (L.foldl (circleStep o tiny nc f) (some a) = none ∧
        L.foldl (circleSolveStep o (allUpdates o nc) tiny) (some (a, tg)) = none) ∨
      ∃ a' tg', L.foldl (circleStep o tiny nc f) (some a) = some a' ∧
        L.foldl (circleSolveStep o (allUpdates o nc) tiny) (some (a, tg)) = some (a', tg') ∧
        a'.size = o.nr * o.nt ∧ tg'.size = o.nr * o.nt ∧
        ∀ p q, p < o.nr → q < o.nt → p ∉ L → fld o.nt tg' p q = fld o.nt tg p q := by
  induction L with
  | nil =>
    intro a tg ha htg _
    exact Or.inr ⟨a, tg, rfl, rfl, ha, htg, fun _ _ _ _ _ => rfl⟩
  | cons i L ih =>
    intro a tg ha htg hT
    have hi := hL i (List.mem_cons_self ..)
    have hLn' := (List.nodup_cons.mp hLn)
    rw [List.foldl_cons, List.foldl_cons,
      circleSolveStep_eq o nc hnc hnr hnt heven hk tiny f a tg i hi.1 (hT i (List.mem_cons_self ..))]
    have hstep : circleStep o tiny nc f (some a) i = (solveCircle o tiny nc f (fld o.nt a) i).map (writeCircle o.nt a i) := by
      unfold circleStep; rfl
    rw [hstep]
    cases hv : solveCircle o tiny nc f (fld o.nt a) i with
    | none =>
      left
      simp only [Option.map_none]
      exact ⟨circleStep_none o tiny nc f L, circleSolve_none o _ tiny L⟩
    | some v =>
      simp only [Option.map_some]
      have hT' : ∀ i' ∈ L, ∀ q, q < o.nt →
          fld o.nt (writeCircle o.nt tg i v) i' q = orthoCircle o nc f (fld o.nt (writeCircle o.nt a i v)) i' q := by
        intro i' hi' q hq
        have hi'L := hL i' (List.mem_cons_of_mem _ hi')
        have hne : i' ≠ i := fun h => hLn'.1 (by rw [← h]; exact hi')
        rw [fld_writeCircle o.nr o.nt tg htg i v i' q (by omega) hq, if_neg hne, hT i' (List.mem_cons_of_mem _ hi') q hq]
        apply orthoCircle_congr o nc f _ _ i' q hq
        intro c d hc hd
        rw [fld_writeCircle o.nr o.nt a ha i v c d (by omega) hd, if_neg (by omega)]
      rcases ih hLn'.2 (fun i' hi' => hL i' (List.mem_cons_of_mem _ hi')) (writeCircle o.nt a i v) (writeCircle o.nt tg i v)
          (by rw [size_writeCircle]; exact ha) (by rw [size_writeCircle]; exact htg) hT' with ⟨h1, h2⟩ | ⟨a', tg', h1, h2, h3, h4, h5⟩
      · exact Or.inl ⟨h1, h2⟩
      · refine Or.inr ⟨a', tg', h1, h2, h3, h4, ?_⟩
        intro p q hp hq hpL
        rw [h5 p q hp hq (fun h => hpL (List.mem_cons_of_mem _ h)),
          fld_writeCircle o.nr o.nt tg htg i v p q hp hq, if_neg (fun h => hpL (by rw [h]; exact List.mem_cons_self ..))]


/-- **the radial solves of one colour** (`r` = parity of the line indices of that colour; `nt` even) -/
theorem radial_fold (hnc : 2 ≤ nc) (hnr : nc + 3 ≤ o.nr) (hnt : 3 ≤ o.nt) (heven : o.nt % 2 = 0)
    (f : Stencil.Field K) (r : Nat) (L : List Nat) (hLn : L.Nodup) (hL : ∀ j ∈ L, j < o.nt ∧ j % 2 = r) :
    ∀ (a tg : Array K), a.size = o.nr * o.nt → tg.size = o.nr * o.nt →
      (∀ j ∈ L, ∀ s, s < o.nr - nc → fld o.nt tg (nc + s) j = orthoRadial o nc f (fld o.nt a) (nc + s) j) →
      ∃ tg', L.foldl (radialSolveStep o nc (allUpdates o nc)) (a, tg) = (L.foldl (radialStep o nc f) a, tg') ∧
        tg'.size = o.nr * o.nt ∧
        ∀ p q, p < o.nr → q < o.nt → ¬ (nc ≤ p ∧ q ∈ L) → fld o.nt tg' p q = fld o.nt tg p q := by
  induction L with
  | nil =>
    intro a tg _ htg _
    exact ⟨tg, rfl, htg, fun _ _ _ _ _ => rfl⟩
  | cons j L ih =>
    intro a tg ha htg hT
    have hj := hL j (List.mem_cons_self ..)
    have hLn' := (List.nodup_cons.mp hLn)
    rw [List.foldl_cons, List.foldl_cons,
      radialSolveStep_eq o nc hnc hnr hnt f a tg j hj.1 (hT j (List.mem_cons_self ..))]
    generalize hv : solveRadial o nc f (fld o.nt a) j = v
    have ha1 : radialStep o nc f a j = writeRadial o.nt nc a j v := by unfold radialStep; rw [hv]
    rw [ha1]
    have hT' : ∀ j' ∈ L, ∀ s, s < o.nr - nc →
        fld o.nt (writeRadial o.nt nc tg j v) (nc + s) j'
          = orthoRadial o nc f (fld o.nt (writeRadial o.nt nc a j v)) (nc + s) j' := by
      intro j' hj' s hs
      have hj'L := hL j' (List.mem_cons_of_mem _ hj')
      have hne : j' ≠ j := fun h => hLn'.1 (by rw [← h]; exact hj')
      have hpm : jm o j' % 2 ≠ j' % 2 := by rw [jm_eq o hj'L.1]; split <;> omega
      have hpp : jp o j' % 2 ≠ j' % 2 := by rw [jp_eq o hj'L.1]; split <;> omega
      rw [fld_writeRadial o.nr o.nt nc tg htg j v (nc + s) j' (by omega) hj'L.1, if_neg (fun h => hne h.2),
        hT j' (List.mem_cons_of_mem _ hj') s hs]
      apply orthoRadial_congr o nc (by omega) hnr f _ _ (nc + s) j' (by omega)
      · intro c d hc hd
        have hd' : d < o.nt := by
          rcases hd with rfl | rfl
          · exact jm_lt o (by omega) j'
          · exact jp_lt o (by omega) j'
        rw [fld_writeRadial o.nr o.nt nc a ha j v c d hc hd', if_neg]
        rintro ⟨_, rfl⟩
        rcases hd with h | h <;> omega
      · rw [fld_writeRadial o.nr o.nt nc a ha j v (nc - 1) j' (by omega) hj'L.1, if_neg (by omega)]
    obtain ⟨tg', h1, h2, h3⟩ := ih hLn'.2 (fun j' hj' => hL j' (List.mem_cons_of_mem _ hj')) (writeRadial o.nt nc a j v)
      (writeRadial o.nt nc tg j v) (by rw [size_writeRadial]; exact ha) (by rw [size_writeRadial]; exact htg) hT'
    refine ⟨tg', h1, h2, ?_⟩
    intro p q hp hq hpL
    rw [h3 p q hp hq (fun h => hpL ⟨h.1, List.mem_cons_of_mem _ h.2⟩),
      fld_writeRadial o.nr o.nt nc tg htg j v p q hp hq, if_neg (fun h => hpL ⟨h.1, by rw [h.2]; exact List.mem_cons_self ..⟩)]

end
end SmootherGiveCode
