import GMGModel.Setup
/-!
# Helper lemmas for C20s — `instrOK` / `progOK` along the recursive program generators

`wref` : a vector that may be written (existing level, not a level right-hand side);
`rref` : a vector that may be read (existing level; a right-hand side only on a built level).
-/
namespace Setup
open MGCycle

/-- a writable work vector: existing level, not a right-hand side -/
def wref (c : Cfg) (r : Ref) : Prop := r.1 < c.levels ∧ r.2 ≠ Buf.rhs

/-- a readable work vector: existing level, a right-hand side only where `setup()` built it -/
def rref (c : Cfg) (r : Ref) : Prop := r.1 < c.levels ∧ (r.2 = Buf.rhs → r.1 < rhsLevels c)

theorem wref.rref {c : Cfg} {r : Ref} (h : wref c r) : rref c r := ⟨h.1, fun e => absurd e h.2⟩

/-! ### the decision table -/

theorem ops_residual (c : Cfg) (d : Nat) : (opsAt c d).residual = true := by
  unfold opsAt
  split
  · split <;> rfl
  · split <;> rfl

theorem ops_smoother_mid (c : Cfg) (d : Nat) (h0 : d ≠ 0) (h1 : d ≠ c.levels - 1) : (opsAt c d).smoother = true := by
  simp [opsAt, h0, h1]

theorem ops_direct_last (c : Cfg) (d : Nat) (h0 : d ≠ 0) (h1 : d = c.levels - 1) : (opsAt c d).direct = true := by
  simp [opsAt, h0, ← h1]

theorem rhsLevels_le (c : Cfg) (h2 : 2 ≤ c.levels) : rhsLevels c ≤ c.levels := by
  unfold rhsLevels; split
  · exact Nat.le_refl _
  · split <;> omega

theorem rhsLevels_pos (c : Cfg) (h2 : 2 ≤ c.levels) : 1 ≤ rhsLevels c := by
  unfold rhsLevels; split
  · omega
  · split <;> omega

theorem rhsLevels_two (c : Cfg) (h2 : 2 ≤ c.levels) (hm : c.extrapMode ≠ 0) : 2 ≤ rhsLevels c := by
  unfold rhsLevels; split
  · omega
  · simp

theorem rhsLevels_fmg (c : Cfg) (hf : c.fmg = true) : rhsLevels c = c.levels := by
  simp [rhsLevels, hf]

/-! ### single instructions -/

/-- unfold `instrOK` on a concrete instruction shape and discharge it from `wref` / `rref` hypotheses in context -/
macro "instr_ok" : tactic =>
  `(tactic| (simp_all [instrOK, needsOps, refs, writes, wref, rref, ops_residual] <;> grind))

section instr
variable {c : Cfg}

theorem ok_smooth {l : Nat} {x r t : Ref} (ho : (opsAt c l).smoother = true) (hx : wref c x) (hr : rref c r)
    (ht : wref c t) : instrOK c (.smooth l x r t) = true := by
  instr_ok

theorem ok_exSmooth {l : Nat} {x r t : Ref} (ho : (opsAt c l).exSmoother = true) (hx : wref c x) (hr : rref c r)
    (ht : wref c t) : instrOK c (.exSmooth l x r t) = true := by
  instr_ok

theorem ok_residual {l : Nat} {o r x : Ref} (ho : wref c o) (hr : rref c r) (hx : rref c x) :
    instrOK c (.residual l o r x) = true := by
  instr_ok

theorem ok_directSolve {l : Nat} {x : Ref} (ho : (opsAt c l).direct = true) (hx : wref c x) :
    instrOK c (.directSolve l x) = true := by
  instr_ok

theorem ok_restrict {l : Nat} {o i : Ref} (ho : wref c o) (hi : rref c i) : instrOK c (.restrict l o i) = true := by
  instr_ok

theorem ok_exRestrict {l : Nat} {o i : Ref} (ho : wref c o) (hi : rref c i) : instrOK c (.exRestrict l o i) = true := by
  instr_ok

theorem ok_inject {l : Nat} {o i : Ref} (ho : wref c o) (hi : rref c i) : instrOK c (.inject l o i) = true := by
  instr_ok

theorem ok_prolong {l : Nat} {o i : Ref} (ho : wref c o) (hi : rref c i) : instrOK c (.prolong l o i) = true := by
  instr_ok

theorem ok_exProlong {l : Nat} {o i : Ref} (ho : wref c o) (hi : rref c i) : instrOK c (.exProlong l o i) = true := by
  instr_ok

theorem ok_fmgInterp {l : Nat} {o i : Ref} (ho : wref c o) (hi : rref c i) : instrOK c (.fmgInterp l o i) = true := by
  instr_ok

theorem ok_zero {x : Ref} (hx : wref c x) : instrOK c (.zero x) = true := by
  instr_ok

theorem ok_add {x y : Ref} (hx : wref c x) (hy : rref c y) : instrOK c (.add x y) = true := by
  instr_ok

theorem ok_lin43 {x y : Ref} (hx : wref c x) (hy : rref c y) : instrOK c (.lin43 x y) = true := by
  instr_ok

theorem ok_copy {x y : Ref} (hx : wref c x) (hy : rref c y) : instrOK c (.copy x y) = true := by
  instr_ok

theorem ok_exResidual {l : Nat} {r n : Ref} (hr : wref c r) (hn : rref c n) : instrOK c (.exResidual l r n) = true := by
  instr_ok

end instr

/-! ### program combinators -/

theorem progOK_nil (c : Cfg) : progOK c [] = true := rfl

theorem progOK_cons (c : Cfg) (i : Instr) (p : List Instr) : progOK c (i :: p) = (instrOK c i && progOK c p) := rfl

theorem progOK_append (c : Cfg) (p q : List Instr) : progOK c (p ++ q) = (progOK c p && progOK c q) := by
  simp [progOK, List.all_append]

theorem progOK_replicate (c : Cfg) (n : Nat) (i : Instr) (h : instrOK c i = true) :
    progOK c (List.replicate n i) = true := by
  induction n with
  | zero => rfl
  | succ n ih => rw [List.replicate_succ, progOK_cons, h, ih]; rfl

theorem progOK_replicate_flatten (c : Cfg) (n : Nat) (p : List Instr) (h : progOK c p = true) :
    progOK c (List.replicate n p).flatten = true := by
  induction n with
  | zero => rfl
  | succ n ih => rw [List.replicate_succ, List.flatten_cons, progOK_append, h, ih]; rfl

end Setup
