import GMGProofs.Lemmas.ExSmootherGiveCode3
/-!
# Code-level extrapolated smoother (give), lemmas 4 — every store is in bounds; the assembled memory in closed form

* `fits_node`: every store of every node addresses an allocated slot (or hits no branch of its macro);
* `assemble_spec`: the assembly succeeds, keeps the allocated shape, every slot is the fold of the stores addressed to it;
* `diagNode_inj`, `slotSum_diag`: the value accumulated in a diagonal slot is the `dsum` of its node;
* `dsum_all`: closed form of the diagonal entry of node `(a, b)`: one giver per direction.
-/
set_option linter.unusedSectionVars false
set_option linter.unusedVariables false
set_option linter.unusedSimpArgs false
namespace ExSmootherGiveCode
open Stencil SparseLU SmootherCode Finset
open DirectCode (Pos)
open DirectGiveCode (massValue diagValue nodeOrder)
open ExSmootherCode (innerNnz)
variable {K : Type} [_root_.Field K]

section
variable (T : Tables) (o : Op K) (nc : Nat)

theorem ja_parity (h4 : o.nt % 4 = 0) {j : Nat} (hj : j < o.nt) : ja o j % 2 = j % 2 := by
  rw [ja_eq o (by omega) hj]; split <;> omega

/-! ### stores that fit the allocated memory -/

theorem fits_ctri (k r c : Nat) (v : K) (hk : k < nc / 2) (hr : r < o.nt) (hc : c < o.nt) :
    Fits o nc (init o nc) (.ctri k r c v) := by
  have ht : target o nc (.ctri k r c v) = triTarget (.ctMain k) (.ctSub k) (.ctCorner k) o.nt r c := rfl
  unfold Fits
  rw [ht]
  unfold triTarget
  by_cases h1 : r = c
  · rw [if_pos h1]; right; exact ⟨_, _, rfl, by simp [init, hk, hr]⟩
  · rw [if_neg h1]
    by_cases h2 : r + 1 = c
    · rw [if_pos h2]; right; exact ⟨_, _, rfl, by simp [init, hk]; omega⟩
    · rw [if_neg h2]
      by_cases h3 : r = 0 ∧ c + 1 = o.nt
      · rw [if_pos h3]; right; exact ⟨_, _, rfl, by simp [init, hk]⟩
      · rw [if_neg h3]; left; rfl

theorem fits_rtri (k r c : Nat) (v : K) (hk : k < o.nt / 2) (hr : r < o.nr - nc) (hc : c < o.nr - nc) :
    Fits o nc (init o nc) (.rtri k r c v) := by
  have ht : target o nc (.rtri k r c v) = triTarget (.rtMain k) (.rtSub k) (.rtCorner k) (o.nr - nc) r c := rfl
  unfold Fits
  rw [ht]
  unfold triTarget
  by_cases h1 : r = c
  · rw [if_pos h1]; right; exact ⟨_, _, rfl, by simp [init, hk, hr]⟩
  · rw [if_neg h1]
    by_cases h2 : r + 1 = c
    · rw [if_pos h2]; right; exact ⟨_, _, rfl, by simp [init, hk]; omega⟩
    · rw [if_neg h2]
      by_cases h3 : r = 0 ∧ c + 1 = o.nr - nc
      · rw [if_pos h3]; right; exact ⟨_, _, rfl, by simp [init, hk]⟩
      · rw [if_neg h3]; left; rfl

theorem fits_cdiag (k r : Nat) (v : K) (hk0 : 0 < k) (hk : k < nc - nc / 2) (hr : r < o.nt) :
    Fits o nc (init o nc) (.cdiag k r v) :=
  Or.inr ⟨_, _, rfl, by simp [init, hk0, hk, hr]⟩

theorem fits_rdiag (k r : Nat) (v : K) (hk : k < o.nt / 2) (hr : r < o.nr - nc) :
    Fits o nc (init o nc) (.rdiag k r v) :=
  Or.inr ⟨_, _, rfl, by simp [init, hk, hr]⟩

theorem fits_csr_center (hT : GoodTables T) (j r c : Nat) (v : K) (hr : r < o.nt) :
    Fits o nc (init o nc) (.csr r (off T o j .Center) c v) := by
  rw [off_center T o hT]
  refine Or.inr ⟨.inner r, 0, rfl, ?_⟩
  simp only [init, if_pos hr, List.length_replicate]
  unfold innerNnz; split
  · omega
  · split <;> omega

theorem fits_csr_left (hT : GoodTables T) (j r c : Nat) (v : K) (hj : j % 2 = 1) (hb : o.bc = false) (hr : r < o.nt)
    (hro : r % 2 = 1) : Fits o nc (init o nc) (.csr r (off T o j .Left) c v) := by
  rw [off_left T o hT j hj hb]
  refine Or.inr ⟨.inner r, 1, rfl, ?_⟩
  simp only [init, if_pos hr, List.length_replicate]
  unfold innerNnz
  rw [hb]
  simp only [Bool.false_eq_true, if_false]
  rw [if_neg (by omega)]
  omega

set_option maxHeartbeats 4000000 in
/-- **every store of every node fits the allocated memory** (`nt` divisible by 4 across the origin: the antipode of an odd
    node is odd, its row has the `Left` slot) -/
theorem fits_node (hT : GoodTables T) (hnc : 3 ≤ nc) (hnr : nc + 3 ≤ o.nr) (hnt : 2 ≤ o.nt) (heven : o.nt % 2 = 0)
    (h4 : o.bc = false → o.nt % 4 = 0) (i j : Nat) (hi : i < o.nr) (hj : j < o.nt) :
    ∀ u ∈ nodeUpdates T o nc i j, Fits o nc (init o nc) u := by
  have hjm : jm o j < o.nt := jm_lt o (by omega) j
  have hjp : jp o j < o.nt := jp_lt o (by omega) j
  have hja : ja o j < o.nt := ja_lt o (by omega) j
  have pm := jm_parity o heven hj
  have pp := jp_parity o heven hj
  have pa : o.bc = false → ja o j % 2 = j % 2 := fun hb => ja_parity o (h4 hb) hj
  unfold nodeUpdates
  simp only []
  split_ifs
  all_goals try (exfalso; omega)
  all_goals (
    simp only [circleTriRows, List.cons_append, List.nil_append, List.forall_mem_cons]
    and_intros)
  all_goals first
    | (intro u hu; cases hu)
    | (apply fits_ctri <;> omega)
    | (apply fits_rtri <;> omega)
    | (apply fits_cdiag <;> omega)
    | (apply fits_rdiag <;> omega)
    | (apply fits_csr_center T o nc hT <;> omega)
    | (apply fits_csr_left T o nc hT <;> first | omega | simp_all)

/-! ### the assembly succeeds -/

theorem nodeUpdates_out (hnc : 3 ≤ nc) (hnr : nc + 3 ≤ o.nr) {i : Nat} (j : Nat) (h : o.nr ≤ i) :
    nodeUpdates T o nc i j = [] := by
  unfold nodeUpdates
  simp only []
  split_ifs <;> first | rfl | (exfalso; omega)

theorem nodeOrder_fst (hnr : nc ≤ o.nr) : ∀ p ∈ nodeOrder o nc, p.1 < o.nr := by
  intro p hp
  unfold DirectGiveCode.nodeOrder at hp
  rcases List.mem_append.mp hp with hp | hp
  · obtain ⟨a, ha, hp⟩ := List.mem_flatMap.mp hp
    obtain ⟨b, _, rfl⟩ := List.mem_map.mp hp
    have := List.mem_range.mp ha
    show a < o.nr
    omega
  · obtain ⟨b, _, hp⟩ := List.mem_flatMap.mp hp
    obtain ⟨t, ht, rfl⟩ := List.mem_map.mp hp
    have := List.mem_range.mp ht
    show nc + t < o.nr
    omega

theorem allUpdates_fits (hT : GoodTables T) (hnc : 3 ≤ nc) (hnr : nc + 3 ≤ o.nr) (hnt : 2 ≤ o.nt)
    (heven : o.nt % 2 = 0) (h4 : o.bc = false → o.nt % 4 = 0) :
    ∀ u ∈ allUpdates T o nc, Fits o nc (init o nc) u := by
  intro u hu
  obtain ⟨p, hp, hu⟩ := List.mem_flatMap.mp hu
  exact fits_node T o nc hT hnc hnr hnt heven h4 p.1 p.2 (nodeOrder_fst o nc (by omega) p hp)
    (DirectGiveCode.nodeOrder_snd o nc p hp) u hu

theorem getD_replicate_self {β : Type} (n q : Nat) (x : β) : (List.replicate n x).getD q x = x := by
  rw [List.getD_eq_getElem?_getD, List.getElem?_replicate]; split <;> rfl

theorem init_getD (a : Arr) (q : Nat) : (init o nc a).getD q (0, Scalar.n 0) = (0, Scalar.n 0) := by
  cases a <;> simp only [init] <;> split <;>
    first | exact getD_replicate_self _ _ _ | exact getD_replicate_self 1 _ _ | rfl

theorem lt_ite_zero (c : Prop) [Decidable c] (q n : Nat) : q < (if c then n else 0) ↔ c ∧ q < n := by
  split <;> simp [*]

/-- allocated size of every array -/
def alloc : Arr → Nat
  | .ctMain k => if k < nc / 2 then o.nt else 0
  | .ctSub k => if k < nc / 2 then o.nt - 1 else 0
  | .ctCorner k => if k < nc / 2 then 1 else 0
  | .cd k => if 0 < k ∧ k < nc - nc / 2 then o.nt else 0
  | .rtMain k => if k < o.nt / 2 then o.nr - nc else 0
  | .rtSub k => if k < o.nt / 2 then o.nr - nc - 1 else 0
  | .rtCorner k => if k < o.nt / 2 then 1 else 0
  | .rd k => if k < o.nt / 2 then o.nr - nc else 0
  | .inner r => if r < o.nt then innerNnz o r else 0

theorem init_length (a : Arr) : (init o nc a).length = alloc o nc a := by
  cases a <;> simp only [init, alloc] <;> split <;> simp

/-- **the assembly succeeds, keeps the allocated shape, and every slot is the fold of the stores addressed to it** -/
theorem assemble_spec (hT : GoodTables T) (hnc : 3 ≤ nc) (hnr : nc + 3 ≤ o.nr) (hnt : 2 ≤ o.nt)
    (heven : o.nt % 2 = 0) (h4 : o.bc = false → o.nt % 4 = 0) :
    ∃ mf, assemble T o nc = some mf ∧ (∀ a, (mf a).length = (init o nc a).length) ∧
      ∀ a q, (mf a).getD q (0, Scalar.n 0) = slotFold o nc a q (0, Scalar.n 0) (allUpdates T o nc) := by
  obtain ⟨mf, h1, h2, h3⟩ := run_spec o nc (allUpdates T o nc) (init o nc)
    (allUpdates_fits T o nc hT hnc hnr hnt heven h4)
  exact ⟨mf, h1, h2, fun a q => by rw [h3, init_getD]⟩

/-! ### diagonal slots -/

/-- a diagonal slot is determined by its node (allocated slots) -/
theorem diagNode_inj (hnc : 3 ≤ nc) {a a' : Arr} {q q' : Nat} {P : Nat × Nat}
    (h : diagNode nc a q = some P) (h' : diagNode nc a' q' = some P)
    (hq : q < (init o nc a).length) (hq' : q' < (init o nc a').length) : a = a' ∧ q = q' := by
  rw [init_length] at hq hq'
  cases a <;> cases a' <;> simp only [diagNode, alloc, lt_ite_zero] at h h' hq hq' <;>
    (try split at h) <;> (try split at h') <;>
    first
    | (cases h; done)
    | (cases h'; done)
    | (cases h; simp only [Option.some.injEq, Prod.mk.injEq] at h'; first | (exfalso; omega) | (simp; omega))

/-- the value accumulated in a diagonal slot is the `dsum` of its node -/
theorem slotSum_diag (hT : GoodTables T) (hnc : 3 ≤ nc) (hnr : nc + 3 ≤ o.nr) (hnt : 2 ≤ o.nt)
    (heven : o.nt % 2 = 0) (h4 : o.bc = false → o.nt % 4 = 0) {a : Arr} {q x y : Nat}
    (hd : diagNode nc a q = some (x, y)) (hq : q < (init o nc a).length) :
    slotSum o nc (allUpdates T o nc) a q = dsum o nc (allUpdates T o nc) x y := by
  unfold slotSum dsum
  congr 1
  apply List.map_congr_left
  intro u hu
  have hf := allUpdates_fits T o nc hT hnc hnr hnt heven h4 u hu
  by_cases ht : target o nc u = .slot a q
  · rw [if_pos ht, if_pos]
    unfold diagOf; rw [ht]; exact hd
  · rw [if_neg ht, if_neg]
    intro hdo
    apply ht
    rcases hf with hs | ⟨a', q', hs, hq'⟩
    · unfold diagOf at hdo; rw [hs] at hdo; cases hdo
    · unfold diagOf at hdo; rw [hs] at hdo
      obtain ⟨rfl, rfl⟩ := diagNode_inj o nc hnc hd hdo hq hq'
      exact hs

theorem dsum_flatMap {β : Type} (l : List β) (g : β → List (Upd K)) (a b : Nat) :
    dsum o nc (l.flatMap g) a b = (l.map fun p => dsum o nc (g p) a b).sum := by
  induction l with
  | nil => simp
  | cons p l ih => simp [List.flatMap_cons, dsum_append, ih]

/-! ### double sums with a single contributing node -/

theorem sum2_single (nr nt i0 j0 : Nat) (P : Nat → Nat → Prop) [∀ i j, Decidable (P i j)] (g : Nat → Nat → K)
    (h0 : P i0 j0) (hi : i0 < nr) (hj : j0 < nt) (hu : ∀ i j, i < nr → j < nt → P i j → i = i0 ∧ j = j0) :
    ∑ i ∈ range nr, ∑ j ∈ range nt, (if P i j then g i j else 0) = g i0 j0 := by
  rw [Finset.sum_eq_single i0, Finset.sum_eq_single j0, if_pos h0]
  · intro j hj' hne
    rw [if_neg]
    intro hp
    exact hne (hu i0 j hi (by simpa using hj') hp).2
  · intro h; exact absurd (by simpa using hj) h
  · intro i hi' hne
    apply Finset.sum_eq_zero
    intro j hj'
    rw [if_neg]
    intro hp
    exact hne (hu i j (by simpa using hi') (by simpa using hj') hp).1
  · intro h; exact absurd (by simpa using hi) h

theorem sum2_none (nr nt : Nat) (P : Nat → Nat → Prop) [∀ i j, Decidable (P i j)] (g : Nat → Nat → K)
    (hn : ∀ i j, i < nr → j < nt → ¬ P i j) :
    ∑ i ∈ range nr, ∑ j ∈ range nt, (if P i j then g i j else 0) = 0 := by
  apply Finset.sum_eq_zero
  intro i hi
  apply Finset.sum_eq_zero
  intro j hj
  rw [if_neg (hn i j (by simpa using hi) (by simpa using hj))]

/-- **closed form of the diagonal entry of node `(a, b)`**: one giver per direction -/
theorem dsum_all (hT : GoodTables T) (hnc : 3 ≤ nc) (hnr : nc + 3 ≤ o.nr) (hodd : o.nr % 2 = 1)
    (hnt : 2 ≤ o.nt) (heven : o.nt % 2 = 0) (a b : Nat) (ha : a < o.nr) (hb : b < o.nt) :
    dsum o nc (allUpdates T o nc) a b =
      selfD o a b + (if a + 1 < o.nr then gL o (a + 1) b else 0) + (if 0 < a then gR o (a - 1) b else 0)
        + gB o a (jp o b) + gT o a (jm o b) + (if a = 0 then gA o (ja o b) else 0) := by
  have hpos : 0 < o.nt := by omega
  unfold allUpdates
  rw [dsum_flatMap]
  rw [DirectGiveCode.nodeOrder_sum o nc (fun i j => dsum o nc (nodeUpdates T o nc i j) a b) (by
    intro i j hi
    simp only [nodeUpdates_out T o nc hnc hnr j hi, dsum_nil])]
  have e : ∀ i ∈ range o.nr, ∑ j ∈ range o.nt, dsum o nc (nodeUpdates T o nc i j) a b
      = ∑ j ∈ range o.nt, dRhs o i j a b := by
    intro i hi
    apply Finset.sum_congr rfl
    intro j hj
    exact dsum_node T o nc hT hnc hnr hodd hnt heven i j a b (by simpa using hi) (by simpa using hj)
  rw [Finset.sum_congr rfl e]
  unfold dRhs
  simp only [Finset.sum_add_distrib]
  -- own diagonal
  have t1 : ∑ i ∈ range o.nr, ∑ j ∈ range o.nt, (if i = a ∧ j = b then selfD o i j else 0) = selfD o a b :=
    sum2_single o.nr o.nt a b (fun i j => i = a ∧ j = b) (selfD o) ⟨rfl, rfl⟩ ha hb (fun _ _ _ _ h => h)
  -- from the right neighbour
  have t2 : ∑ i ∈ range o.nr, ∑ j ∈ range o.nt, (if i - 1 = a ∧ j = b then gL o i j else 0)
      = if a + 1 < o.nr then gL o (a + 1) b else 0 := by
    have e2 : ∀ i j, (if i - 1 = a ∧ j = b then gL o i j else 0) = (if i = a + 1 ∧ j = b then gL o i j else 0) := by
      intro i j
      by_cases h0 : i = 0
      · subst h0
        have : gL o 0 j = 0 := by unfold gL; rw [if_neg (by omega)]
        rw [this]; simp
      · have : (i - 1 = a) ↔ (i = a + 1) := by omega
        simp only [this]
    simp only [e2]
    by_cases h : a + 1 < o.nr
    · rw [if_pos h]
      exact sum2_single o.nr o.nt (a + 1) b (fun i j => i = a + 1 ∧ j = b) (gL o) ⟨rfl, rfl⟩ h hb (fun _ _ _ _ h => h)
    · rw [if_neg h]
      exact sum2_none o.nr o.nt (fun i j => i = a + 1 ∧ j = b) (gL o) (fun i j hi _ hp => by omega)
  -- from the left neighbour
  have t3 : ∑ i ∈ range o.nr, ∑ j ∈ range o.nt, (if i + 1 = a ∧ j = b then gR o i j else 0)
      = if 0 < a then gR o (a - 1) b else 0 := by
    by_cases h : 0 < a
    · rw [if_pos h]
      exact sum2_single o.nr o.nt (a - 1) b (fun i j => i + 1 = a ∧ j = b) (gR o) ⟨by omega, rfl⟩ (by omega) hb
        (fun i j _ _ hp => ⟨by omega, hp.2⟩)
    · rw [if_neg h]
      exact sum2_none o.nr o.nt (fun i j => i + 1 = a ∧ j = b) (gR o) (fun i j _ _ hp => by omega)
  -- from the top neighbour (its "bottom" is `(a, b)`)
  have t4 : ∑ i ∈ range o.nr, ∑ j ∈ range o.nt, (if i = a ∧ jm o j = b then gB o i j else 0) = gB o a (jp o b) :=
    sum2_single o.nr o.nt a (jp o b) (fun i j => i = a ∧ jm o j = b) (gB o) ⟨rfl, jm_jp o hb⟩ ha (jp_lt o hpos b)
      (fun i j _ hj hp => ⟨hp.1, by rw [← hp.2, jp_jm o hj]⟩)
  have t5 : ∑ i ∈ range o.nr, ∑ j ∈ range o.nt, (if i = a ∧ jp o j = b then gT o i j else 0) = gT o a (jm o b) :=
    sum2_single o.nr o.nt a (jm o b) (fun i j => i = a ∧ jp o j = b) (gT o) ⟨rfl, jp_jm o hb⟩ ha (jm_lt o hpos b)
      (fun i j _ hj hp => ⟨hp.1, by rw [← hp.2, jm_jp o hj]⟩)
  -- from the antipode
  have t6 : ∑ i ∈ range o.nr, ∑ j ∈ range o.nt, (if i = 0 ∧ 0 = a ∧ ja o j = b then gA o j else 0)
      = if a = 0 then gA o (ja o b) else 0 := by
    by_cases h : a = 0
    · rw [if_pos h]
      exact sum2_single o.nr o.nt 0 (ja o b) (fun i j => i = 0 ∧ 0 = a ∧ ja o j = b) (fun _ j => gA o j)
        ⟨rfl, h.symm, ja_ja o heven hb⟩ (by omega) (ja_lt o hpos b)
        (fun i j _ hj hp => ⟨hp.1, by rw [← hp.2.2, ja_ja o heven hj]⟩)
    · rw [if_neg h]
      exact sum2_none o.nr o.nt (fun i j => i = 0 ∧ 0 = a ∧ ja o j = b) (fun _ j => gA o j)
        (fun i j _ _ hp => h hp.2.1.symm)
  rw [t1, t2, t3, t4, t5, t6]

end
end ExSmootherGiveCode
