import GMGModel.ExSmootherCode
import GMGProofs.Lemmas.SmootherCode3
/-!
# Helper lemmas for C07c, part 1: the diagonal solver, the tridiagonal parts coincide with `SmootherCode`, the CSR matrix of
the innermost circle (rows of different lengths)
-/
set_option linter.unusedSectionVars false
namespace ExSmootherCode
open Stencil SparseLU SmootherCode
variable {K : Type} [_root_.Field K]

/-! ### `DiagonalSolver::solveInPlace` -/

theorem diagSolve_length : ∀ (d y : List K), d.length = y.length → (diagSolve d y).length = y.length
  | [], [], _ => rfl
  | _ :: ds, _ :: ys, h => by
      simp only [diagSolve, List.length_cons]
      rw [diagSolve_length ds ys (by simpa using h)]
  | [], _ :: _, h => by simp at h
  | _ :: _, [], h => by simp at h

theorem getD_diagSolve : ∀ (d y : List K), d.length = y.length → ∀ t, t < y.length →
    (diagSolve d y).getD t 0 = y.getD t 0 / d.getD t 0
  | [], [], _, t, ht => by simp at ht
  | d :: ds, y :: ys, h, t, ht => by
      cases t with
      | zero => simp [diagSolve]
      | succ t =>
        simp only [diagSolve, List.getD_cons_succ]
        exact getD_diagSolve ds ys (by simpa using h) t (by simpa using ht)
  | [], _ :: _, h, _, _ => by simp at h
  | _ :: _, [], h, _, _ => by simp at h

/-- the diagonal solve of lists given by formulas -/
theorem getD_diagSolve_range (n : Nat) (D Y : Nat → K) (t : Nat) (ht : t < n) :
    (diagSolve ((List.range n).map D) ((List.range n).map Y)).getD t 0 = Y t / D t := by
  rw [getD_diagSolve _ _ (by simp) t (by simpa using ht), getD_map_range, getD_map_range, if_pos ht, if_pos ht]

/-! ### the tridiagonal lines are those of `SmootherTake` -/

theorem circleTriMain_eq (o : Op K) (i : Nat) : circleTriMain o i = SmootherCode.circleMain o i := rfl
theorem circleTriSub_eq (o : Op K) (i : Nat) : circleTriSub o i = SmootherCode.circleSub o i := rfl
theorem circleTriCorner_eq (o : Op K) (i : Nat) : circleTriCorner o i = SmootherCode.circleCorner o i := rfl
theorem circleTriSolver_eq (o : Op K) (i : Nat) : circleTriSolver o i = SmootherCode.circleSolver o i := rfl

/-- the `else if` chain of the odd radial lines, on grids with at least three radial smoother nodes -/
theorem radialTriMain_eq (o : Op K) (nc j : Nat) (hnr : nc + 3 ≤ o.nr) :
    radialTriMain o nc j = SmootherCode.radialMain o nc j := by
  unfold radialTriMain SmootherCode.radialMain
  apply List.map_congr_left
  intro t ht
  have ht' : t < o.nr - nc := by simpa using ht
  simp only
  split_ifs <;> first | rfl | (exfalso; omega)

theorem radialTriSub_eq (o : Op K) (nc j : Nat) (hnr : nc + 3 ≤ o.nr) :
    radialTriSub o nc j = SmootherCode.radialSub o nc j := by
  unfold radialTriSub SmootherCode.radialSub
  apply List.map_congr_left
  intro t ht
  have ht' : t < o.nr - nc - 1 := by simpa using ht
  simp only
  split_ifs <;> first | rfl | (exfalso; omega)

theorem radialTriSolver_eq (o : Op K) (nc j : Nat) (hnr : nc + 3 ≤ o.nr) :
    radialTriSolver o nc j = SmootherCode.radialSolver o nc j := by
  unfold radialTriSolver SmootherCode.radialSolver
  rw [radialTriMain_eq o nc j hnr, radialTriSub_eq o nc j hnr]

/-- on an odd circle `temp` is the `temp` of `SmootherTake` -/
theorem orthoCircle_odd (o : Op K) (nc : Nat) (f u : Stencil.Field K) (i j : Nat) (hi0 : 0 < i) (hinc : i < nc)
    (hodd : i % 2 = 1) : orthoCircle o nc f u i j = SmootherCode.orthoCircle o nc f u i j := by
  unfold orthoCircle SmootherCode.orthoCircle
  rw [if_pos ⟨hi0, hinc⟩, if_pos hodd, if_pos ⟨hi0, hinc⟩]

/-- on an odd radial line `temp` is the `temp` of `SmootherTake` -/
theorem orthoRadial_odd (o : Op K) (nc : Nat) (f u : Stencil.Field K) (i j : Nat) (hodd : j % 2 = 1) :
    orthoRadial o nc f u i j = SmootherCode.orthoRadial o nc f u i j := by
  unfold orthoRadial SmootherCode.orthoRadial
  simp only [if_pos hodd]
  split
  · rfl
  · split
    · rfl
    · split
      · rfl
      · split <;> rfl

theorem circleTemp_odd (o : Op K) (nc : Nat) (f u : Stencil.Field K) (i : Nat) (hi0 : 0 < i) (hinc : i < nc)
    (hodd : i % 2 = 1) : circleTemp o nc f u i = SmootherCode.circleTemp o nc f u i := by
  unfold circleTemp SmootherCode.circleTemp
  exact List.map_congr_left fun j _ => orthoCircle_odd o nc f u i j hi0 hinc hodd

theorem radialTemp_odd (o : Op K) (nc : Nat) (f u : Stencil.Field K) (j : Nat) (hodd : j % 2 = 1) :
    radialTemp o nc f u j = SmootherCode.radialTemp o nc f u j := by
  unfold radialTemp SmootherCode.radialTemp
  exact List.map_congr_left fun t _ => orthoRadial_odd o nc f u (nc + t) j hodd

/-! ### the CSR matrix of the innermost circle -/

/-- start of block `j` in a concatenation of blocks -/
def off {β : Type} (G : Nat → List β) (j : Nat) : Nat := ((List.range j).map fun a => (G a).length).sum

theorem off_succ {β : Type} (G : Nat → List β) (j : Nat) : off G (j + 1) = off G j + (G j).length := by
  unfold off; rw [List.range_succ, List.map_append, List.sum_append]; simp

theorem length_flatMap_off {β : Type} (G : Nat → List β) :
    ∀ n, ((List.range n).flatMap G).length = off G n
  | 0 => by simp [off]
  | n + 1 => by
      rw [List.range_succ, List.flatMap_append, List.length_append, length_flatMap_off G n, off_succ]
      simp

theorem off_mono {β : Type} (G : Nat → List β) (j n : Nat) (h : j ≤ n) : off G j ≤ off G n := by
  induction n, h using Nat.le_induction with
  | base => exact Nat.le_refl _
  | succ n _ ih => rw [off_succ]; omega

/-- entry `off j + idx` of a concatenation of blocks of arbitrary lengths -/
theorem getD_flatMap_off {β : Type} (G : Nat → List β) (d : β) :
    ∀ n j idx, j < n → idx < (G j).length → ((List.range n).flatMap G).getD (off G j + idx) d = (G j).getD idx d
  | 0, j, idx, hj, _ => by omega
  | n + 1, j, idx, hj, hidx => by
      rw [List.range_succ, List.flatMap_append]
      have hlen := length_flatMap_off G n
      by_cases hjn : j < n
      · have hlt : off G j + idx < ((List.range n).flatMap G).length := by
          rw [hlen]
          have := off_mono G (j + 1) n (by omega)
          rw [off_succ] at this
          omega
        rw [List.getD_eq_getElem?_getD, List.getElem?_append_left hlt, ← List.getD_eq_getElem?_getD]
        exact getD_flatMap_off G d n j idx hjn hidx
      · have : j = n := by omega
        subst this
        rw [List.getD_eq_getElem?_getD, List.getElem?_append_right (by rw [hlen]; omega), hlen,
          ← List.getD_eq_getElem?_getD]
        simp

theorem innerRow_length (o : Op K) (j : Nat) : (innerRow o j).length = innerNnz o j := by
  unfold innerRow innerNnz
  split
  · rfl
  · split
    · rename_i h; rw [if_neg (by omega)]; rfl
    · rename_i h; rw [if_pos (by omega)]; rfl

theorem innerCSR_rows (o : Op K) : (innerCSR o).rows = o.nt := rfl

theorem innerCSR_rowPtr (o : Op K) (j : Nat) (hj : j < o.nt + 1) :
    (innerCSR o).rowPtr.getD j 0 = off (innerRow o) j := by
  unfold innerCSR
  simp only [getD_map_range, if_pos hj, off]
  congr 1
  exact List.map_congr_left fun a _ => (innerRow_length o a).symm

/-- the stored entries of row `j` of the CSR container are `innerRow o j` -/
theorem rowEntries_innerCSR (o : Op K) (j : Nat) (hj : j < o.nt) : rowEntries (innerCSR o) j = innerRow o j := by
  unfold rowEntries
  simp only
  rw [innerCSR_rowPtr o j (by omega), innerCSR_rowPtr o (j + 1) (by omega), off_succ]
  have hd : off (innerRow o) j + (innerRow o j).length - off (innerRow o) j = (innerRow o j).length := by omega
  rw [hd]
  apply List.ext_getElem
  · simp
  · intro idx h1 h2
    have hidx : idx < (innerRow o j).length := h2
    simp only [List.getElem_map, List.getElem_range]
    have hc : (innerCSR o).colIdx = (List.range o.nt).flatMap fun a => (innerRow o a).map (·.1) := by
      simp [innerCSR, List.flatMap_map]
    have hv : (innerCSR o).values = (List.range o.nt).flatMap fun a => (innerRow o a).map (·.2) := by
      simp [innerCSR, List.flatMap_map]
    have hoff1 : off (innerRow o) j = off (fun a => (innerRow o a).map (·.1)) j := by
      unfold off; congr 1; exact List.map_congr_left fun a _ => by simp
    have hoff2 : off (innerRow o) j = off (fun a => (innerRow o a).map (·.2)) j := by
      unfold off; congr 1; exact List.map_congr_left fun a _ => by simp
    rw [hc, hv]
    conv_lhs => rw [hoff1]
    rw [getD_flatMap_off (fun a => (innerRow o a).map (·.1)) 0 o.nt j idx hj (by simpa using hidx)]
    conv_lhs => rw [← hoff1, hoff2]
    rw [getD_flatMap_off (fun a => (innerRow o a).map (·.2)) (Scalar.n 0) o.nt j idx hj (by simpa using hidx)]
    simp [List.getD_eq_getElem?_getD, hidx]

theorem innerRow_uniq (o : Op K) (hnt : 2 ≤ o.nt) (heven : o.nt % 2 = 0) (j : Nat) (hj : j < o.nt) :
    Uniq (innerRow o j) := by
  unfold Uniq keys innerRow
  split
  · simp
  · split
    · have h3 := ja_eq o heven hj
      simp only [List.map_cons, List.map_nil, List.nodup_cons, List.mem_cons, List.not_mem_nil, or_false,
        List.nodup_nil, and_true, not_false_eq_true]
      generalize ja o j = a at *
      split at h3 <;> omega
    · simp

theorem loadRow_innerCSR (o : Op K) (hnt : 2 ≤ o.nt) (heven : o.nt % 2 = 0) (j : Nat) (hj : j < o.nt) :
    loadRow (innerCSR o) j = innerRow o j := by
  rw [loadRow_eq_rowEntries _ _ (by rw [rowEntries_innerCSR o j hj]; exact innerRow_uniq o hnt heven j hj),
    rowEntries_innerCSR o j hj]

end ExSmootherCode
