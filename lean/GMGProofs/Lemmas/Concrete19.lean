import GMGProofs.Lemmas.Concrete18
import GMGProofs.Lemmas.Concrete17
import GMGProofs.Lemmas.Concrete9
/-!
# Translation invariance of the implicitly extrapolated cycle of the concrete model
If `A₀ w = g` on the grid of level 0 and `A₁ (inject w) = g₁` on the grid of level 1, then
* the equations of the extrapolated sweep for `(f + g, x + w)` are solved by `y + w` when `y` solves them for `(f, x)` (a coarse node
  keeps its value on both sides); with totality and uniqueness (Dirichlet inner boundary, elliptic data, `nr` odd) the code-level
  extrapolated sweep of `(f + g, x + w)` returns `y + w` as an ARRAY;
* the level-1 residual array of the injected `x + w` with `f₁ + g₁` is the one of the injected `x` with `f₁`;
* hence the right-hand sides of the extrapolated coarse problem are equal, and (`MGCycle.excyc_shift`) one extrapolated cycle of the
  concrete model commutes with the shift.
-/
namespace Concrete
open Stencil Scalar MGCycle Smoother

section AnyField
variable {K : Type} [_root_.Field K]

/-- the equations of the extrapolated sweep are translation invariant: fields `F`, `X`, `Y` that agree ON THE GRID with `f + g`,
    `x + w`, `y + w`, where `A w = g` on the grid (at the relaxed nodes) -/
theorem isExSweep_shift (o : Op K) (nc : Nat) (hnr : 2 ≤ o.nr) (hnt : 0 < o.nt) (f g x y w F X Y : Stencil.Field K)
    (hF : ∀ i j, i < o.nr → j < o.nt → F i j = f i j + g i j)
    (hX : ∀ i j, i < o.nr → j < o.nt → X i j = x i j + w i j)
    (hY : ∀ i j, i < o.nr → j < o.nt → Y i j = y i j + w i j)
    (hAw : ∀ i j, i < o.nr → j < o.nt → coarseNode i j = false → take o g w i j = 0)
    (h : IsExSweep o nc f x y) : IsExSweep o nc F X Y := by
  intro i j hi hj
  have h0 := h i j hi hj
  unfold exDefect at h0 ⊢
  by_cases hc : coarseNode i j = true
  · rw [if_pos hc] at h0 ⊢
    rw [hY i j hi hj, hX i j hi hj]
    linear_combination h0
  · rw [if_neg hc] at h0 ⊢
    rw [take_congr_rhs o F (fun a b => f a b + g a b) _ i j (hF i j hi hj),
      Smoother.take_congr_grid o _ _ (fun a b => mix nc (phase nc i j) x y a b + w a b) hnr hnt ?_ i j hi hj,
      take_add, hAw i j hi hj (by simpa using hc), add_zero]
    · exact h0
    · intro a b ha hb
      unfold mix
      split
      · exact hY a b ha hb
      · exact hX a b ha hb

/-- the level-1 residual of the injected iterate does not see the shift: `f₁ + g₁ − A₁ (inject (x + w)) = f₁ − A₁ (inject x)` when
    `A₁ (inject w) = g₁` on the grid of level 1.  `hinj`: the injection reads `x + w` from an ARRAY of the size of level 0 — a
    coarse node whose fine counterpart lies off that array reads `0`, not the entry of `w` -/
theorem ops_resid_inject_shift (H : Hier K) (h01 : (lvl H 1).op.bc = true ∨ 2 ≤ (lvl H 1).op.nr) (f1 g1 w : Array K)
    (hf1 : (lvl H 1).op.nr * (lvl H 1).op.nt ≤ f1.size)
    (hinj : ∀ p q, p < (lvl H 1).op.nr → q < (lvl H 1).op.nt →
      2 * p * (lvl H 0).op.nt + 2 * q < (lvl H 0).op.nr * (lvl H 0).op.nt ∨ w.getD (2 * p * (lvl H 0).op.nt + 2 * q) 0 = 0)
    (hAw1 : ∀ i j, i < (lvl H 1).op.nr → j < (lvl H 1).op.nt →
      take (lvl H 1).op (SmootherCode.fld (lvl H 1).op.nt g1) (Interp.inject (SmootherCode.fld (lvl H 0).op.nt w)) i j = 0)
    (a : Array K) (ha : a.size = (lvl H 0).op.nr * (lvl H 0).op.nt) :
    (ops H).resid 1 (some (addArr f1 g1)) ((ops H).inject 0 (some (addArr a w))) =
      (ops H).resid 1 (some f1) ((ops H).inject 0 (some a)) := by
  rw [ops_inject_some, ops_inject_some, ops_resid_some, ops_resid_some]
  congr 1
  apply ofField_congr
  intro i j hi hj
  have hi' : i < (lvl H 1).op.nr := hi
  have hj' : j < (lvl H 1).op.nt := hj
  show take (lvl H 1).op (SmootherCode.fld (lvl H 1).op.nt (addArr f1 g1))
      (SmootherCode.fld (lvl H 1).op.nt (SmootherCode.ofField (lvl H 1).op.nr (lvl H 1).op.nt
        (Interp.inject (SmootherCode.fld (lvl H 0).op.nt (addArr a w))))) i j =
    take (lvl H 1).op (SmootherCode.fld (lvl H 1).op.nt f1)
      (SmootherCode.fld (lvl H 1).op.nt (SmootherCode.ofField (lvl H 1).op.nr (lvl H 1).op.nt
        (Interp.inject (SmootherCode.fld (lvl H 0).op.nt a)))) i j
  rw [take_congr_rhs _ _ (fun p q => SmootherCode.fld (lvl H 1).op.nt f1 p q + SmootherCode.fld (lvl H 1).op.nt g1 p q) _ i j
      (fld_addArr_grid _ _ f1 g1 hf1 i j hi' hj'),
    take_congr_grid' (lvl H 1).op _ _
      (fun p q => SmootherCode.fld (lvl H 1).op.nt (SmootherCode.ofField (lvl H 1).op.nr (lvl H 1).op.nt
        (Interp.inject (SmootherCode.fld (lvl H 0).op.nt a))) p q +
        Interp.inject (SmootherCode.fld (lvl H 0).op.nt w) p q) h01 ?_ i j hi' hj',
    take_add, hAw1 i j hi' hj', add_zero]
  intro p q hp hq
  rw [fld_ofField_grid _ _ _ p q hp hq, fld_ofField_grid _ _ _ p q hp hq]
  unfold Interp.inject
  rw [fld_eq, fld_eq, fld_eq, getD_addArr]
  by_cases hlt : 2 * p * (lvl H 0).op.nt + 2 * q < a.size
  · rw [if_pos hlt]
  · rw [if_neg hlt]
    have hw := (hinj p q hp hq).resolve_left (by rw [← ha]; exact hlt)
    have hz : a.getD (2 * p * (lvl H 0).op.nt + 2 * q) 0 = 0 := by
      rw [Array.getD_eq_getD_getElem?, Array.getElem?_eq_none (by omega)]
      rfl
    rw [hw, hz, add_zero]

end AnyField

section Ordered
variable {K : Type} [_root_.Field K] [LinearOrder K] [IsStrictOrderedRing K]

/-- the code-level extrapolated sweep commutes with the shift, as arrays -/
theorem exsweep_shift (o : Op K) (nc : Nat) (tiny : K → Bool) (ht : tiny 1 = false)
    (hnr : nc + 3 ≤ o.nr) (hnc : 2 ≤ nc) (hnt : 4 ≤ o.nt) (heven : o.nt % 2 = 0) (hodd : o.nr % 2 = 1)
    (hbc : o.bc = true) (he : Elliptic o)
    (f g F : Stencil.Field K) (hF : ∀ i j, i < o.nr → j < o.nt → F i j = f i j + g i j)
    (x w y : Array K) (hx : x.size = o.nr * o.nt)
    (hAw : ∀ i j, i < o.nr → j < o.nt → coarseNode i j = false → take o g (SmootherCode.fld o.nt w) i j = 0)
    (hy : ExSmootherCode.sweep o tiny nc f x = some y) :
    ExSmootherCode.sweep o tiny nc F (addArr x w) = some (addArr y w) := by
  have hysz : y.size = o.nr * o.nt := by rw [C07c.sweep_size o nc tiny f x y hy, hx]
  have hxw : (addArr x w).size = o.nr * o.nt := by rw [addArr_size, hx]
  obtain ⟨y', hy'⟩ := C07c.code_exsweep_total o nc tiny F (addArr x w)
    (fun i hi => by rw [ex_inner_pivots_dirichlet o hbc i hi]; exact ht)
  have hy'sz : y'.size = o.nr * o.nt := by rw [C07c.sweep_size o nc tiny F _ y' hy', hxw]
  have hl := exLinesOK_dirichlet o nc hnr hnc hnt heven hbc he
  have hs := C07c.code_exsweep_isExSweep o nc tiny f x y hnt heven hnc hnr hodd hx hl hy
  have hs' := C07c.code_exsweep_isExSweep o nc tiny F _ y' hnt heven hnc hnr hodd hxw hl hy'
  have hsh : IsExSweep o nc F (SmootherCode.fld o.nt (addArr x w)) (SmootherCode.fld o.nt (addArr y w)) :=
    isExSweep_shift o nc (by omega) (by omega) f g _ _ (SmootherCode.fld o.nt w) F _ _ hF
      (fun i j hi hj => fld_addArr_grid o.nr o.nt x w (by omega) i j hi hj)
      (fun i j hi hj => fld_addArr_grid o.nr o.nt y w (by omega) i j hi hj) hAw hs
  have heq := exsweep_unique_dirichlet o nc (by omega) (by omega) heven hbc he F _ _ _ hs' hsh
  rw [hy', array_eq_of_fld o.nr o.nt y' (addArr y w) hy'sz (by rw [addArr_size, hysz]) heq]

theorem ops_exSmooth_shift (H : Hier K) (h0 : LevelHyp (lvl H 0)) (hodd : (lvl H 0).op.nr % 2 = 1) (ht1 : H.tiny 1 = false)
    (f g w : Array K) (hf : (lvl H 0).op.nr * (lvl H 0).op.nt ≤ f.size)
    (hAw : ∀ i j, i < (lvl H 0).op.nr → j < (lvl H 0).op.nt → coarseNode i j = false →
      take (lvl H 0).op (SmootherCode.fld (lvl H 0).op.nt g) (SmootherCode.fld (lvl H 0).op.nt w) i j = 0)
    (x x' : Option (Array K)) (h : Shift H w x x') :
    Shift H w ((ops H).exSmooth 0 x (some f)) ((ops H).exSmooth 0 x' (some (addArr f g))) := by
  obtain ⟨hnt, heven, hnc, hnr, hbc, he⟩ := h0
  obtain ⟨a, rfl, ha, rfl⟩ := h
  obtain ⟨y, hy⟩ := C07c.code_exsweep_total (lvl H 0).op (lvl H 0).nc H.tiny (fld H 0 f) a
    (fun i hi => by rw [ex_inner_pivots_dirichlet _ hbc i hi]; exact ht1)
  refine ⟨y, ?_, ?_, ?_⟩
  · rw [ops_exSmooth_some, hy]
  · rw [C07c.sweep_size _ _ _ _ a y hy, ha]
  · rw [ops_exSmooth_some]
    exact exsweep_shift (lvl H 0).op (lvl H 0).nc H.tiny ht1 hnr hnc hnt heven hodd hbc he (fld H 0 f) (fld H 0 g) _
      (fun i j hi hj => fld_addArr_grid _ _ f g hf i j hi hj) a w y ha hAw hy

/-- the level-0 smoother of the extrapolated cycle (either one) commutes with the shift -/
theorem ops_exSmF_shift (H : Hier K) (fgs : Bool) (h0 : LevelHyp (lvl H 0)) (hodd : fgs = false → (lvl H 0).op.nr % 2 = 1)
    (ht1 : H.tiny 1 = false) (f g w : Array K) (hf : (lvl H 0).op.nr * (lvl H 0).op.nt ≤ f.size)
    (hAw : ∀ i j, i < (lvl H 0).op.nr → j < (lvl H 0).op.nt →
      take (lvl H 0).op (SmootherCode.fld (lvl H 0).op.nt g) (SmootherCode.fld (lvl H 0).op.nt w) i j = 0)
    (x x' : Option (Array K)) (h : Shift H w x x') :
    Shift H w (exSmF (ops H) fgs (some f) x) (exSmF (ops H) fgs (some (addArr f g)) x') := by
  cases fgs
  · exact ops_exSmooth_shift H h0 (hodd rfl) ht1 f g w hf (fun i j hi hj _ => hAw i j hi hj) x x' h
  · exact ops_smooth_shift H h0 ht1 f g w hf hAw x x' h

/-- **one implicitly extrapolated cycle of the concrete model (any depth, V/W/F, any smoothing counts, either level-0 smoother)
    commutes with the shift** -/
theorem excyc_translate (H : Hier K) (L nu1 nu2 : Nat) (hL : 2 ≤ L) (k : Kind) (fgs : Bool)
    (h0 : LevelHyp (lvl H 0)) (hodd : fgs = false → (lvl H 0).op.nr % 2 = 1)
    (hbc : ∀ l, l + 1 < L → (lvl H l).op.bc = true) (ht1 : H.tiny 1 = false)
    (h01 : (lvl H 1).op.bc = true ∨ 2 ≤ (lvl H 1).op.nr)
    (M : SparseLU.CSR K) (hM : DirectCode.assemble H.tables (lvl H (L - 1)).op = some M)
    (ht : ∀ r, r < M.rows → H.tiny (SparseLU.den ((SparseLU.factorRows M).2.getD r []) r) = false)
    (f g f1 g1 w : Array K) (hf : (lvl H 0).op.nr * (lvl H 0).op.nt ≤ f.size)
    (hf1 : (lvl H 1).op.nr * (lvl H 1).op.nt ≤ f1.size)
    (hinj : ∀ p q, p < (lvl H 1).op.nr → q < (lvl H 1).op.nt →
      2 * p * (lvl H 0).op.nt + 2 * q < (lvl H 0).op.nr * (lvl H 0).op.nt ∨ w.getD (2 * p * (lvl H 0).op.nt + 2 * q) 0 = 0)
    (hAw : ∀ i j, i < (lvl H 0).op.nr → j < (lvl H 0).op.nt →
      take (lvl H 0).op (SmootherCode.fld (lvl H 0).op.nt g) (SmootherCode.fld (lvl H 0).op.nt w) i j = 0)
    (hAw1 : ∀ i j, i < (lvl H 1).op.nr → j < (lvl H 1).op.nt →
      take (lvl H 1).op (SmootherCode.fld (lvl H 1).op.nt g1) (Interp.inject (SmootherCode.fld (lvl H 0).op.nt w)) i j = 0)
    (x x' : Option (Array K)) (h : Shift H w x x') :
    Shift H w (excyc (ops H) ⟨L, nu1, nu2⟩ k fgs x (some f) (some f1))
      (excyc (ops H) ⟨L, nu1, nu2⟩ k fgs x' (some (addArr f g)) (some (addArr f1 g1))) := by
  have I := opsInvL H L nu1 nu2 hL hbc ht1 M hM ht
  have EI := exOpsInvU H L fgs (hbc 0 (by omega)) ht1
  refine excyc_shift (ops H) ⟨L, nu1, nu2⟩ k fgs (some f) (some (addArr f g)) (some f1) (some (addArr f1 g1)) (Shift H w)
    (fun e => ∃ b, e = some b) (ops_exSmF_shift H fgs h0 hodd ht1 f g w hf hAw) ?_ ?_ ?_ x x' h
  · intro y y' hy
    unfold exRhs
    rw [ops_resid_shift H (Or.inl h0.2.2.2.2.1) f g w hf hAw y y' hy]
    obtain ⟨a, rfl, ha, rfl⟩ := hy
    rw [ops_resid_inject_shift H h01 f1 g1 w hf1 hinj hAw1 a ha]
  · rintro _ _ ⟨a, rfl, ha, _⟩
    have hq : QFL H L 1 (exRhs (ops H) (some f) (some f1) (some a)) :=
      EI.exRhs (some f) (some f1) (some a) ⟨f, rfl, fun h => by omega⟩ ⟨f1, rfl⟩ ⟨a, rfl, ha⟩
    obtain ⟨e, he, _⟩ := coarseOrSolve_inv (ops H) ⟨L, nu1, nu2⟩ (PU H) (QFL H L) I (L - 2) k 1 _
      (show 1 ≤ L - 1 by omega) hq
    show ∃ b, (ops H).exProlong 1 (coarseOrSolve (ops H) ⟨L, nu1, nu2⟩ k (L - 2) 1 _) = some b
    rw [he]
    exact ⟨_, ops_exProlong_some H 0 e⟩
  · rintro y y' _ hy ⟨b, rfl⟩
    exact ops_add_shift H w b y y' hy

end Ordered
end Concrete
