import GMGModel.Objects
/-!
Helper definitions and lemmas for C15 (core Lean only, arbitrary `[Scalar α]`, no field axioms).

* `BufOK b n`: the heap buffer `b` has exactly the advertised capacity `n` (`nullptr` only for `n = 0`)
* per class: `WF` (all buffers have the advertised capacity), `ids` (identities of the owned buffers)
* `copyN_spec`: `std::copy` between two buffers of the advertised capacity never leaves them
* per class: `copyCtor_spec`, `copyAssign_spec`
* `Tridiag.solve_lengths`, `Tri.solve_WF`, `Tri.solve_obs`
* operation alphabets `Op`, `TriOp` and the small-step semantics `step` / `run` on a pair of objects
-/
namespace Objects

/-! ## buffers -/

/-- the buffer has exactly the advertised capacity; `nullptr` only with capacity 0 -/
def BufOK {β : Type} (b : Option (Buf β)) (n : Nat) : Prop :=
  match b with
  | some x => x.data.length = n
  | none => n = 0

theorem BufOK.length {β : Type} {b : Option (Buf β)} {n : Nat} (h : BufOK b n) :
    (bufData b).length = n := by
  cases b with
  | none => have : n = 0 := h; subst this; rfl
  | some x => exact h

theorem BufOK.take {β : Type} {b : Option (Buf β)} {n : Nat} (h : BufOK b n) :
    (bufData b).take n = bufData b :=
  List.take_of_length_le (by rw [h.length]; exact Nat.le_refl _)

theorem BufOK.nil {β : Type} {b : Option (Buf β)} (h : BufOK b 0) : bufData b = [] :=
  List.eq_nil_of_length_eq_zero h.length

theorem BufOK.alloc {β : Type} (h n : Nat) (z : β) : BufOK (alloc h n z).2 n := by
  show (List.replicate n z).length = n
  exact List.length_replicate

theorem BufOK.fresh {β : Type} (h n : Nat) (z : β) : BufOK (some (⟨h, List.replicate n z⟩ : Buf β)) n :=
  BufOK.alloc h n z

theorem BufOK.isSome {β : Type} {b : Option (Buf β)} {n : Nat} (h : BufOK b (n + 1)) : b.isSome = true := by
  cases b with
  | none => exact absurd h (Nat.succ_ne_zero n)
  | some x => rfl

theorem isSome_of_bufId {β : Type} {b c : Option (Buf β)} (h : bufId b = bufId c) : b.isSome = c.isSome := by
  cases b <;> cases c <;> simp_all [bufId]

/-- `std::copy` of `n` elements between two buffers of capacity `n`: in bounds, the destination
    keeps its identity and afterwards holds the source data -/
theorem copyN_spec {β : Type} {dst src : Option (Buf β)} {n : Nat} (hd : BufOK dst n) (hs : BufOK src n) :
    ∃ d', copyN dst src n = some d' ∧ BufOK d' n ∧ bufData d' = bufData src ∧ bufId d' = bufId dst := by
  unfold copyN
  by_cases hn : n = 0
  · subst hn
    exact ⟨dst, if_pos rfl, hd, by rw [hd.nil, hs.nil], rfl⟩
  · rw [if_neg hn]
    cases dst with
    | none => exact absurd hd hn
    | some d =>
      cases src with
      | none => exact absurd hs hn
      | some s =>
        have hd' : d.data.length = n := hd
        have hs' : s.data.length = n := hs
        have e : s.data.take n ++ d.data.drop n = s.data := by
          rw [List.take_of_length_le (by omega), List.drop_eq_nil_of_le (by omega), List.append_nil]
        refine ⟨some { d with data := s.data.take n ++ d.data.drop n }, ?_, ?_, ?_, rfl⟩
        · show (if n ≤ d.data.length ∧ n ≤ s.data.length then _ else none) = _
          rw [if_pos ⟨by omega, by omega⟩]
        · show (s.data.take n ++ d.data.drop n).length = n
          rw [e]; exact hs'
        · exact e

/-- copy into a freshly allocated buffer -/
theorem copyN_fresh {β : Type} {src : Option (Buf β)} {n : Nat} (h : Nat) (z : β) (hs : BufOK src n) :
    ∃ d', copyN (some ⟨h, List.replicate n z⟩) src n = some d' ∧ BufOK d' n ∧ bufData d' = bufData src
      ∧ bufId d' = some h :=
  copyN_spec (BufOK.fresh h n z) hs

/-- whenever `std::copy` stays in bounds, the destination buffer keeps its identity (no hypothesis on sizes) -/
theorem copyN_id {β : Type} {dst src d' : Option (Buf β)} {n : Nat} (h : copyN dst src n = some d') :
    bufId d' = bufId dst := by
  unfold copyN at h
  split at h
  · injection h with e; rw [e]
  · split at h
    · split at h
      · injection h with e; rw [← e]; rfl
      · exact nomatch h
    · exact nomatch h

theorem copyN_id_fresh {β : Type} {src d' : Option (Buf β)} {n k : Nat} {l : List β}
    (h : copyN (some ⟨k, l⟩) src n = some d') : bufId d' = some k := copyN_id h

theorem mem_bufId_toList {β : Type} {b : Option (Buf β)} {i : Nat} : i ∈ (bufId b).toList ↔ bufId b = some i := by
  cases h : bufId b <;> simp [eq_comm]

/-- overwriting the contents of a buffer (`Tri.solve`) -/
def setData {β : Type} (b : Option (Buf β)) (l : List β) : Option (Buf β) := b.map fun x => { x with data := l }

theorem BufOK.setData {β : Type} {b : Option (Buf β)} {n : Nat} {l : List β} (h : BufOK b n) (hl : l.length = n) :
    BufOK (setData b l) n := by
  cases b with
  | none => exact h
  | some x => exact hl

theorem bufId_setData {β : Type} (b : Option (Buf β)) (l : List β) : bufId (setData b l) = bufId b := by
  cases b <;> rfl

theorem take_setData {β : Type} {b : Option (Buf β)} {n : Nat} (l : List β) (h : BufOK b n) :
    (bufData (setData b l)).take n = l.take n := by
  cases b with
  | none => have : n = 0 := h; subst this; rfl
  | some x => rfl

/-! ## identities: two owners, allocator counter `h` -/

/-- all identities were handed out before `h`, and the two owners share none -/
def SepL (h : Nat) (A B : List Nat) : Prop := (∀ i ∈ A, i < h) ∧ (∀ i ∈ B, i < h) ∧ ∀ i ∈ A, i ∉ B

theorem SepL.symm {h : Nat} {A B : List Nat} (s : SepL h A B) : SepL h B A :=
  ⟨s.2.1, s.1, fun i hb ha => s.2.2 i ha hb⟩

/-- the second owner is replaced by one holding old buffers of the second owner and/or fresh ones -/
theorem SepL.assign {h h' : Nat} {A B C : List Nat} (s : SepL h A B) (hh : h ≤ h')
    (hc : ∀ i ∈ C, i ∈ B ∨ (h ≤ i ∧ i < h')) : SepL h' A C := by
  refine ⟨fun i hi => Nat.lt_of_lt_of_le (s.1 i hi) hh, fun i hi => ?_, fun i ha hi => ?_⟩
  · cases hc i hi with
    | inl hb => exact Nat.lt_of_lt_of_le (s.2.1 i hb) hh
    | inr hf => exact hf.2
  · cases hc i hi with
    | inl hb => exact s.2.2 i ha hb
    | inr hf => exact absurd (s.1 i ha) (by omega)

theorem SepL.fresh {h h' : Nat} {A B C : List Nat} (s : SepL h A B) (hh : h ≤ h')
    (hc : ∀ i ∈ C, h ≤ i ∧ i < h') : SepL h' A C :=
  s.assign hh fun i hi => Or.inr (hc i hi)

theorem SepL.move {h : Nat} {A B : List Nat} (s : SepL h A B) : SepL h [] A :=
  ⟨fun _ hi => (nomatch hi), s.1, fun _ hi => (nomatch hi)⟩

/-! ## operation sequences -/

/-- two live objects of a class and the allocator state -/
structure Pair (T : Type) where
  h : Nat
  a : T
  b : T

/-- run a sequence of operations; `none` as soon as one of them reads or writes out of bounds -/
def runWith {op S : Type} (step : op → S → Option S) : List op → S → Option S
  | [], s => some s
  | o :: os, s => (step o s).bind (runWith step os)

/-- if every single operation succeeds from a state satisfying `W`, re-establishes `W`, and keeps `Sp`,
    then so does every sequence of operations -/
theorem runWith_spec {op S : Type} (step : op → S → Option S) (W Sp : S → Prop)
    (hstep : ∀ o s, W s → ∃ s', step o s = some s' ∧ W s' ∧ (Sp s → Sp s')) :
    ∀ (ops : List op) (s : S), W s → ∃ s', runWith step ops s = some s' ∧ W s' ∧ (Sp s → Sp s')
  | [], s, hs => ⟨s, rfl, hs, id⟩
  | o :: os, s, hs => by
    obtain ⟨s1, h1, w1, p1⟩ := hstep o s hs
    obtain ⟨s2, h2, w2, p2⟩ := runWith_spec step W Sp hstep os s1 w1
    exact ⟨s2, by show (step o s).bind _ = _; rw [h1]; exact h2, w2, fun h => p2 (p1 h)⟩

/-- the special members (and the sizing constructor) applied to a pair `(a, b)` of objects -/
inductive Op where
  /-- `b = a;` -/
  | copyAB
  /-- `a = b;` -/
  | copyBA
  /-- `b = std::move(a);` -/
  | moveAB
  /-- `a = std::move(b);` -/
  | moveBA
  /-- `b` goes out of scope; `T b(a);` -/
  | ctorCopyAB
  /-- `a` goes out of scope; `T a(b);` -/
  | ctorCopyBA
  /-- `b` goes out of scope; `T b(std::move(a));` -/
  | ctorMoveAB
  /-- `a` goes out of scope; `T a(std::move(b));` -/
  | ctorMoveBA
  /-- `a = T(n);` (the temporary is moved in, its buffers are the fresh ones) -/
  | resetA (n : Nat)
  /-- `b = T(n);` -/
  | resetB (n : Nat)

/-- `Op` plus `solveInPlace` on either object -/
inductive TriOp (α : Type) where
  | op (o : Op)
  | solveA (rhs : List α)
  | solveB (rhs : List α)

/-- the special members of a class, its sizing constructor, its invariant and its owned buffers -/
structure Members (T : Type) where
  copyCtor : Nat → T → Option (Nat × T)
  copyAssign : Nat → T → T → Option (Nat × T)
  moveCtor : T → T × T
  moveAssign : T → T → T × T
  ofSize : Nat → Nat → Nat × T
  WF : T → Prop
  ids : T → List Nat

namespace Members
variable {T : Type} (M : Members T)

/-- the operations on a pair of objects -/
def step : Op → Pair T → Option (Pair T)
  | .copyAB, s => (M.copyAssign s.h s.b s.a).map fun r => ⟨r.1, s.a, r.2⟩
  | .copyBA, s => (M.copyAssign s.h s.a s.b).map fun r => ⟨r.1, r.2, s.b⟩
  | .moveAB, s => some ⟨s.h, (M.moveAssign s.b s.a).2, (M.moveAssign s.b s.a).1⟩
  | .moveBA, s => some ⟨s.h, (M.moveAssign s.a s.b).1, (M.moveAssign s.a s.b).2⟩
  | .ctorCopyAB, s => (M.copyCtor s.h s.a).map fun r => ⟨r.1, s.a, r.2⟩
  | .ctorCopyBA, s => (M.copyCtor s.h s.b).map fun r => ⟨r.1, r.2, s.b⟩
  | .ctorMoveAB, s => some ⟨s.h, (M.moveCtor s.a).2, (M.moveCtor s.a).1⟩
  | .ctorMoveBA, s => some ⟨s.h, (M.moveCtor s.b).1, (M.moveCtor s.b).2⟩
  | .resetA n, s => some ⟨(M.ofSize s.h n).1, (M.ofSize s.h n).2, s.b⟩
  | .resetB n, s => some ⟨(M.ofSize s.h n).1, s.a, (M.ofSize s.h n).2⟩

/-- both objects are well formed -/
def PairWF (s : Pair T) : Prop := M.WF s.a ∧ M.WF s.b
/-- the two objects own distinct buffers, all handed out by the allocator before -/
def PairSep (s : Pair T) : Prop := SepL s.h (M.ids s.a) (M.ids s.b)

/-- what the per-class lemmas establish -/
structure Lawful : Prop where
  copyCtor : ∀ h o, M.WF o → ∃ h' c, M.copyCtor h o = some (h', c) ∧ M.WF c ∧ h ≤ h' ∧ ∀ i ∈ M.ids c, h ≤ i ∧ i < h'
  copyAssign : ∀ h t o, M.WF t → M.WF o → ∃ h' c, M.copyAssign h t o = some (h', c) ∧ M.WF c ∧ h ≤ h' ∧
    ∀ i ∈ M.ids c, i ∈ M.ids t ∨ (h ≤ i ∧ i < h')
  moveCtor : ∀ o, M.WF o → M.WF (M.moveCtor o).1 ∧ M.WF (M.moveCtor o).2 ∧
    M.ids (M.moveCtor o).1 = M.ids o ∧ M.ids (M.moveCtor o).2 = []
  moveAssign : ∀ t o, M.WF o → M.WF (M.moveAssign t o).1 ∧ M.WF (M.moveAssign t o).2 ∧
    M.ids (M.moveAssign t o).1 = M.ids o ∧ M.ids (M.moveAssign t o).2 = []
  ofSize : ∀ h n, M.WF (M.ofSize h n).2 ∧ h ≤ (M.ofSize h n).1 ∧ ∀ i ∈ M.ids (M.ofSize h n).2, h ≤ i ∧ i < (M.ofSize h n).1

variable {M}

theorem step_spec (L : M.Lawful) (o : Op) (s : Pair T) (hw : M.PairWF s) :
    ∃ s', M.step o s = some s' ∧ M.PairWF s' ∧ (M.PairSep s → M.PairSep s') := by
  obtain ⟨ha, hb⟩ := hw
  cases o with
  | copyAB =>
    obtain ⟨h', c, h1, h3, h4, h5⟩ := L.copyAssign s.h s.b s.a hb ha
    exact ⟨⟨h', s.a, c⟩, by show Option.map _ _ = _; rw [h1]; rfl, ⟨ha, h3⟩, fun hs => hs.assign h4 h5⟩
  | copyBA =>
    obtain ⟨h', c, h1, h3, h4, h5⟩ := L.copyAssign s.h s.a s.b ha hb
    exact ⟨⟨h', c, s.b⟩, by show Option.map _ _ = _; rw [h1]; rfl, ⟨h3, hb⟩, fun hs => (hs.symm.assign h4 h5).symm⟩
  | moveAB =>
    obtain ⟨w1, w2, i1, i2⟩ := L.moveAssign s.b s.a ha
    exact ⟨_, rfl, ⟨w2, w1⟩, fun hs => by show SepL _ _ _; rw [i1, i2]; exact hs.move⟩
  | moveBA =>
    obtain ⟨w1, w2, i1, i2⟩ := L.moveAssign s.a s.b hb
    exact ⟨_, rfl, ⟨w1, w2⟩, fun hs => by show SepL _ _ _; rw [i1, i2]; exact hs.symm.move.symm⟩
  | ctorCopyAB =>
    obtain ⟨h', c, h1, h3, h4, h5⟩ := L.copyCtor s.h s.a ha
    exact ⟨⟨h', s.a, c⟩, by show Option.map _ _ = _; rw [h1]; rfl, ⟨ha, h3⟩, fun hs => hs.fresh h4 h5⟩
  | ctorCopyBA =>
    obtain ⟨h', c, h1, h3, h4, h5⟩ := L.copyCtor s.h s.b hb
    exact ⟨⟨h', c, s.b⟩, by show Option.map _ _ = _; rw [h1]; rfl, ⟨h3, hb⟩, fun hs => (hs.symm.fresh h4 h5).symm⟩
  | ctorMoveAB =>
    obtain ⟨w1, w2, i1, i2⟩ := L.moveCtor s.a ha
    exact ⟨_, rfl, ⟨w2, w1⟩, fun hs => by show SepL _ _ _; rw [i1, i2]; exact hs.move⟩
  | ctorMoveBA =>
    obtain ⟨w1, w2, i1, i2⟩ := L.moveCtor s.b hb
    exact ⟨_, rfl, ⟨w1, w2⟩, fun hs => by show SepL _ _ _; rw [i1, i2]; exact hs.symm.move.symm⟩
  | resetA n =>
    obtain ⟨w, h4, h5⟩ := L.ofSize s.h n
    exact ⟨_, rfl, ⟨w, hb⟩, fun hs => (hs.symm.fresh h4 h5).symm⟩
  | resetB n =>
    obtain ⟨w, h4, h5⟩ := L.ofSize s.h n
    exact ⟨_, rfl, ⟨ha, w⟩, fun hs => hs.fresh h4 h5⟩

end Members

variable {α : Type} [Scalar α]

theorem mem_ids3 {β γ δ : Type} {a : Option (Buf β)} {b : Option (Buf γ)} {c : Option (Buf δ)} {i : Nat} :
    i ∈ (bufId a).toList ++ (bufId b).toList ++ (bufId c).toList ↔
      bufId a = some i ∨ bufId b = some i ∨ bufId c = some i := by
  simp only [List.mem_append, mem_bufId_toList, or_assoc]

theorem mem_ids2 {β γ : Type} {a : Option (Buf β)} {b : Option (Buf γ)} {i : Nat} :
    i ∈ (bufId a).toList ++ (bufId b).toList ↔ bufId a = some i ∨ bufId b = some i := by
  simp only [List.mem_append, mem_bufId_toList]

theorem fresh_id {β : Type} {b : Option (Buf β)} {k i : Nat} (hk : bufId b = some k) (hi : bufId b = some i) : i = k := by
  rw [hk] at hi; injection hi with e; exact e.symm

/-! ## Vec -/
namespace Vec
def WF (v : Vec α) : Prop := BufOK v.values v.size
def ids (v : Vec α) : List Nat := (bufId v.values).toList

theorem copyCtor_eq (h : Nat) (o : Vec α) : copyCtor h o =
    (copyN (some ⟨h, List.replicate o.size (Scalar.n 0)⟩) o.values o.size).map fun b' => (h + 1, ⟨o.size, b'⟩) := rfl

theorem copyAssign_ne (h : Nat) (t o : Vec α) (hne : t.size ≠ o.size) : copyAssign h t o = copyCtor h o := by
  unfold copyAssign; rw [if_pos hne]; rfl

theorem copyAssign_eq (h : Nat) (t o : Vec α) (he : t.size = o.size) : copyAssign h t o =
    (copyN t.values o.values t.size).map fun b' => (h, ⟨t.size, b'⟩) := by
  unfold copyAssign; rw [if_neg (by simpa using he)]

theorem copyCtor_spec (h : Nat) {o : Vec α} (ho : WF o) :
    ∃ h' c, copyCtor h o = some (h', c) ∧ obs c = obs o ∧ WF c ∧ h ≤ h' ∧ ∀ i ∈ ids c, h ≤ i ∧ i < h' := by
  obtain ⟨d, h1, h2, h3, h4⟩ := copyN_fresh h (Scalar.n 0 : α) ho
  refine ⟨h + 1, ⟨o.size, d⟩, ?_, ?_, h2, Nat.le_succ h, ?_⟩
  · rw [copyCtor_eq, h1]; rfl
  · show (o.size, (bufData d).take o.size) = (o.size, (bufData o.values).take o.size)
    rw [h3]
  · intro i hi
    have : bufId d = some i := mem_bufId_toList.mp hi
    rw [h4] at this; injection this; omega

theorem copyAssign_spec (h : Nat) {t o : Vec α} (ht : WF t) (ho : WF o) :
    ∃ h' c, copyAssign h t o = some (h', c) ∧ obs c = obs o ∧ WF c ∧ h ≤ h' ∧
      ∀ i ∈ ids c, i ∈ ids t ∨ (h ≤ i ∧ i < h') := by
  by_cases he : t.size = o.size
  · have ho' : BufOK o.values t.size := by rw [he]; exact ho
    obtain ⟨d, h1, h2, h3, h4⟩ := copyN_spec ht ho'
    refine ⟨h, ⟨t.size, d⟩, ?_, ?_, h2, Nat.le_refl h, ?_⟩
    · rw [copyAssign_eq h t o he, h1]; rfl
    · show (t.size, (bufData d).take t.size) = (o.size, (bufData o.values).take o.size)
      rw [h3, he]
    · intro i hi
      have : bufId d = some i := mem_bufId_toList.mp hi
      exact Or.inl (mem_bufId_toList.mpr (h4 ▸ this))
  · obtain ⟨h', c, h1, h2, h3, h4, h5⟩ := copyCtor_spec h ho
    exact ⟨h', c, by rw [copyAssign_ne h t o he, h1], h2, h3, h4, fun i hi => Or.inr (h5 i hi)⟩

/-- without any hypothesis on the source: a successful copy owns fresh buffers only -/
theorem copyCtor_ids {h h' : Nat} {o c : Vec α} (hc : copyCtor h o = some (h', c)) :
    h ≤ h' ∧ ∀ i ∈ ids c, h ≤ i ∧ i < h' := by
  rw [copyCtor_eq, Option.map_eq_some_iff] at hc
  obtain ⟨d, h1, h2⟩ := hc
  injection h2 with e1 e2
  subst e1 e2
  refine ⟨Nat.le_succ h, fun i hi => ?_⟩
  have := fresh_id (copyN_id_fresh h1) (mem_bufId_toList.mp hi); omega

/-- without any hypothesis: a successful copy assignment owns old buffers of the target and/or fresh ones -/
theorem copyAssign_ids {h h' : Nat} {t o c : Vec α} (hc : copyAssign h t o = some (h', c)) :
    h ≤ h' ∧ ∀ i ∈ ids c, i ∈ ids t ∨ (h ≤ i ∧ i < h') := by
  by_cases he : t.size = o.size
  · rw [copyAssign_eq h t o he, Option.map_eq_some_iff] at hc
    obtain ⟨d, h1, h2⟩ := hc
    injection h2 with e1 e2
    subst e1 e2
    refine ⟨Nat.le_refl h, fun i hi => Or.inl ?_⟩
    have e : ids (⟨t.size, d⟩ : Vec α) = ids t := by show (bufId d).toList = _; rw [copyN_id h1]; rfl
    exact e ▸ hi
  · rw [copyAssign_ne h t o he] at hc
    exact ⟨(copyCtor_ids hc).1, fun i hi => Or.inr ((copyCtor_ids hc).2 i hi)⟩

omit [Scalar α] in
theorem WF_default : WF (default : Vec α) := rfl
theorem ofSize_WF (h n : Nat) : WF (ofSize h n : Nat × Vec α).2 := BufOK.fresh h n _
theorem ofSize_fst (h n : Nat) : (ofSize h n : Nat × Vec α).1 = h + 1 := rfl
theorem ofSize_ids (h n : Nat) : ids (ofSize h n : Nat × Vec α).2 = [h] := rfl

def members : Members (Vec α) := ⟨copyCtor, copyAssign, moveCtor, moveAssign, ofSize, WF, ids⟩

theorem lawful : (members : Members (Vec α)).Lawful where
  copyCtor h o ho := by
    obtain ⟨h', c, h1, _, h3, h4, h5⟩ := copyCtor_spec h ho; exact ⟨h', c, h1, h3, h4, h5⟩
  copyAssign h t o ht ho := by
    obtain ⟨h', c, h1, _, h3, h4, h5⟩ := copyAssign_spec h ht ho; exact ⟨h', c, h1, h3, h4, h5⟩
  moveCtor o ho := ⟨ho, rfl, rfl, rfl⟩
  moveAssign t o ho := ⟨ho, rfl, rfl, rfl⟩
  ofSize h n := ⟨ofSize_WF h n, Nat.le_succ h, fun i hi => by
    rw [List.mem_singleton.mp hi]; exact ⟨Nat.le_refl _, Nat.lt_succ_self _⟩⟩

def step : Op → Pair (Vec α) → Option (Pair (Vec α)) := members.step
def run : List Op → Pair (Vec α) → Option (Pair (Vec α)) := runWith step
def PairWF (s : Pair (Vec α)) : Prop := WF s.a ∧ WF s.b
def PairSep (s : Pair (Vec α)) : Prop := SepL s.h (ids s.a) (ids s.b)

end Vec

/-! ## Diag -/
namespace Diag
def WF (v : Diag α) : Prop := BufOK v.diag v.n
def ids (v : Diag α) : List Nat := (bufId v.diag).toList

theorem copyCtor_eq (h : Nat) (o : Diag α) : copyCtor h o =
    (copyN (some ⟨h, List.replicate o.n (Scalar.n 0)⟩) o.diag o.n).map fun b' => (h + 1, ⟨o.n, b'⟩) := rfl

theorem copyAssign_ne (h : Nat) (t o : Diag α) (hne : t.n ≠ o.n) : copyAssign h t o = copyCtor h o := by
  unfold copyAssign; rw [if_pos hne]; rfl

theorem copyAssign_eq (h : Nat) (t o : Diag α) (he : t.n = o.n) : copyAssign h t o =
    (copyN t.diag o.diag t.n).map fun b' => (h, ⟨t.n, b'⟩) := by
  unfold copyAssign; rw [if_neg (by simpa using he)]

theorem copyCtor_spec (h : Nat) {o : Diag α} (ho : WF o) :
    ∃ h' c, copyCtor h o = some (h', c) ∧ obs c = obs o ∧ WF c ∧ h ≤ h' ∧ ∀ i ∈ ids c, h ≤ i ∧ i < h' := by
  obtain ⟨d, h1, h2, h3, h4⟩ := copyN_fresh h (Scalar.n 0 : α) ho
  refine ⟨h + 1, ⟨o.n, d⟩, ?_, ?_, h2, Nat.le_succ h, ?_⟩
  · rw [copyCtor_eq, h1]; rfl
  · show (o.n, (bufData d).take o.n) = (o.n, (bufData o.diag).take o.n)
    rw [h3]
  · intro i hi
    have : bufId d = some i := mem_bufId_toList.mp hi
    rw [h4] at this; injection this; omega

theorem copyAssign_spec (h : Nat) {t o : Diag α} (ht : WF t) (ho : WF o) :
    ∃ h' c, copyAssign h t o = some (h', c) ∧ obs c = obs o ∧ WF c ∧ h ≤ h' ∧
      ∀ i ∈ ids c, i ∈ ids t ∨ (h ≤ i ∧ i < h') := by
  by_cases he : t.n = o.n
  · have ho' : BufOK o.diag t.n := by rw [he]; exact ho
    obtain ⟨d, h1, h2, h3, h4⟩ := copyN_spec ht ho'
    refine ⟨h, ⟨t.n, d⟩, ?_, ?_, h2, Nat.le_refl h, ?_⟩
    · rw [copyAssign_eq h t o he, h1]; rfl
    · show (t.n, (bufData d).take t.n) = (o.n, (bufData o.diag).take o.n)
      rw [h3, he]
    · intro i hi
      have : bufId d = some i := mem_bufId_toList.mp hi
      exact Or.inl (mem_bufId_toList.mpr (h4 ▸ this))
  · obtain ⟨h', c, h1, h2, h3, h4, h5⟩ := copyCtor_spec h ho
    exact ⟨h', c, by rw [copyAssign_ne h t o he, h1], h2, h3, h4, fun i hi => Or.inr (h5 i hi)⟩

/-- without any hypothesis on the source: a successful copy owns fresh buffers only -/
theorem copyCtor_ids {h h' : Nat} {o c : Diag α} (hc : copyCtor h o = some (h', c)) :
    h ≤ h' ∧ ∀ i ∈ ids c, h ≤ i ∧ i < h' := by
  rw [copyCtor_eq, Option.map_eq_some_iff] at hc
  obtain ⟨d, h1, h2⟩ := hc
  injection h2 with e1 e2
  subst e1 e2
  refine ⟨Nat.le_succ h, fun i hi => ?_⟩
  have := fresh_id (copyN_id_fresh h1) (mem_bufId_toList.mp hi); omega

/-- without any hypothesis: a successful copy assignment owns old buffers of the target and/or fresh ones -/
theorem copyAssign_ids {h h' : Nat} {t o c : Diag α} (hc : copyAssign h t o = some (h', c)) :
    h ≤ h' ∧ ∀ i ∈ ids c, i ∈ ids t ∨ (h ≤ i ∧ i < h') := by
  by_cases he : t.n = o.n
  · rw [copyAssign_eq h t o he, Option.map_eq_some_iff] at hc
    obtain ⟨d, h1, h2⟩ := hc
    injection h2 with e1 e2
    subst e1 e2
    refine ⟨Nat.le_refl h, fun i hi => Or.inl ?_⟩
    have e : ids (⟨t.n, d⟩ : Diag α) = ids t := by show (bufId d).toList = _; rw [copyN_id h1]; rfl
    exact e ▸ hi
  · rw [copyAssign_ne h t o he] at hc
    exact ⟨(copyCtor_ids hc).1, fun i hi => Or.inr ((copyCtor_ids hc).2 i hi)⟩

omit [Scalar α] in
theorem WF_default : WF (default : Diag α) := rfl
theorem ofSize_WF (h n : Nat) : WF (ofSize h n : Nat × Diag α).2 := BufOK.fresh h n _
theorem ofSize_fst (h n : Nat) : (ofSize h n : Nat × Diag α).1 = h + 1 := rfl
theorem ofSize_ids (h n : Nat) : ids (ofSize h n : Nat × Diag α).2 = [h] := rfl

def members : Members (Diag α) := ⟨copyCtor, copyAssign, moveCtor, moveAssign, ofSize, WF, ids⟩

theorem lawful : (members : Members (Diag α)).Lawful where
  copyCtor h o ho := by
    obtain ⟨h', c, h1, _, h3, h4, h5⟩ := copyCtor_spec h ho; exact ⟨h', c, h1, h3, h4, h5⟩
  copyAssign h t o ht ho := by
    obtain ⟨h', c, h1, _, h3, h4, h5⟩ := copyAssign_spec h ht ho; exact ⟨h', c, h1, h3, h4, h5⟩
  moveCtor o ho := ⟨ho, rfl, rfl, rfl⟩
  moveAssign t o ho := ⟨ho, rfl, rfl, rfl⟩
  ofSize h n := ⟨ofSize_WF h n, Nat.le_succ h, fun i hi => by
    rw [List.mem_singleton.mp hi]; exact ⟨Nat.le_refl _, Nat.lt_succ_self _⟩⟩

def step : Op → Pair (Diag α) → Option (Pair (Diag α)) := members.step
def run : List Op → Pair (Diag α) → Option (Pair (Diag α)) := runWith step
def PairWF (s : Pair (Diag α)) : Prop := WF s.a ∧ WF s.b
def PairSep (s : Pair (Diag α)) : Prop := SepL s.h (ids s.a) (ids s.b)

end Diag

/-! ## COO -/
namespace COO
def WF (m : COO α) : Prop := BufOK m.rowIdx m.nnz ∧ BufOK m.colIdx m.nnz ∧ BufOK m.values m.nnz
def ids (m : COO α) : List Nat := (bufId m.rowIdx).toList ++ (bufId m.colIdx).toList ++ (bufId m.values).toList

theorem copyCtor_eq (h : Nat) (o : COO α) : copyCtor h o =
    (copyN (some ⟨h, List.replicate o.nnz 0⟩) o.rowIdx o.nnz).bind fun r' =>
    (copyN (some ⟨h + 1, List.replicate o.nnz 0⟩) o.colIdx o.nnz).bind fun c' =>
    (copyN (some ⟨h + 1 + 1, List.replicate o.nnz (Scalar.n 0)⟩) o.values o.nnz).bind fun v' =>
    some (h + 1 + 1 + 1, ⟨o.rows, o.cols, o.nnz, r', c', v', o.symmetric⟩) := rfl

theorem copyAssign_ne (h : Nat) (t o : COO α) (hne : t.nnz ≠ o.nnz) : copyAssign h t o = copyCtor h o := by
  unfold copyAssign; rw [if_pos hne]; rfl

theorem copyAssign_eq (h : Nat) (t o : COO α) (he : t.nnz = o.nnz) : copyAssign h t o =
    (copyN t.rowIdx o.rowIdx o.nnz).bind fun r' =>
    (copyN t.colIdx o.colIdx o.nnz).bind fun c' =>
    (copyN t.values o.values o.nnz).bind fun v' =>
    some (h, ⟨o.rows, o.cols, o.nnz, r', c', v', o.symmetric⟩) := by
  unfold copyAssign; rw [if_neg (by simpa using he)]; rfl

theorem copyCtor_spec (h : Nat) {o : COO α} (ho : WF o) :
    ∃ h' c, copyCtor h o = some (h', c) ∧ obs c = obs o ∧ WF c ∧ h ≤ h' ∧ ∀ i ∈ ids c, h ≤ i ∧ i < h' := by
  obtain ⟨hr, hc, hv⟩ := ho
  obtain ⟨r, r1, r2, r3, r4⟩ := copyN_fresh h (0 : Int) hr
  obtain ⟨c, c1, c2, c3, c4⟩ := copyN_fresh (h + 1) (0 : Int) hc
  obtain ⟨v, v1, v2, v3, v4⟩ := copyN_fresh (h + 1 + 1) (Scalar.n 0 : α) hv
  refine ⟨h + 1 + 1 + 1, ⟨o.rows, o.cols, o.nnz, r, c, v, o.symmetric⟩, ?_, ?_, ⟨r2, c2, v2⟩, by omega, ?_⟩
  · rw [copyCtor_eq, r1, Option.bind_some, c1, Option.bind_some, v1, Option.bind_some]
  · show (o.rows, o.cols, o.nnz, (bufData r).take o.nnz, (bufData c).take o.nnz, (bufData v).take o.nnz, o.symmetric) = _
    rw [r3, c3, v3]; rfl
  · intro i hi
    rcases mem_ids3.mp hi with e | e | e
    · have := fresh_id r4 e; omega
    · have := fresh_id c4 e; omega
    · have := fresh_id v4 e; omega

theorem copyAssign_spec (h : Nat) {t o : COO α} (ht : WF t) (ho : WF o) :
    ∃ h' c, copyAssign h t o = some (h', c) ∧ obs c = obs o ∧ WF c ∧ h ≤ h' ∧
      ∀ i ∈ ids c, i ∈ ids t ∨ (h ≤ i ∧ i < h') := by
  by_cases he : t.nnz = o.nnz
  · obtain ⟨tr, tc, tv⟩ := ht
    obtain ⟨hr, hc, hv⟩ := ho
    rw [he] at tr tc tv
    obtain ⟨r, r1, r2, r3, r4⟩ := copyN_spec tr hr
    obtain ⟨c, c1, c2, c3, c4⟩ := copyN_spec tc hc
    obtain ⟨v, v1, v2, v3, v4⟩ := copyN_spec tv hv
    refine ⟨h, ⟨o.rows, o.cols, o.nnz, r, c, v, o.symmetric⟩, ?_, ?_, ⟨r2, c2, v2⟩, Nat.le_refl h, ?_⟩
    · rw [copyAssign_eq h t o he, r1, Option.bind_some, c1, Option.bind_some, v1, Option.bind_some]
    · show (o.rows, o.cols, o.nnz, (bufData r).take o.nnz, (bufData c).take o.nnz, (bufData v).take o.nnz, o.symmetric) = _
      rw [r3, c3, v3]; rfl
    · intro i hi
      have e : ids (⟨o.rows, o.cols, o.nnz, r, c, v, o.symmetric⟩ : COO α) = ids t := by
        show _ ++ _ ++ _ = _; rw [r4, c4, v4]; rfl
      exact Or.inl (e ▸ hi)
  · obtain ⟨h', c, h1, h2, h3, h4, h5⟩ := copyCtor_spec h ho
    exact ⟨h', c, by rw [copyAssign_ne h t o he, h1], h2, h3, h4, fun i hi => Or.inr (h5 i hi)⟩

/-- without any hypothesis on the source: a successful copy owns fresh buffers only -/
theorem copyCtor_ids {h h' : Nat} {o c : COO α} (hc : copyCtor h o = some (h', c)) :
    h ≤ h' ∧ ∀ i ∈ ids c, h ≤ i ∧ i < h' := by
  rw [copyCtor_eq] at hc
  simp only [Option.bind_eq_some_iff] at hc
  obtain ⟨r, r1, c', c1, v, v1, h2⟩ := hc
  injection h2 with h2; injection h2 with e1 e2
  subst e1 e2
  refine ⟨by omega, fun i hi => ?_⟩
  rcases mem_ids3.mp hi with e | e | e
  · have := fresh_id (copyN_id_fresh r1) e; omega
  · have := fresh_id (copyN_id_fresh c1) e; omega
  · have := fresh_id (copyN_id_fresh v1) e; omega

/-- without any hypothesis: a successful copy assignment owns old buffers of the target and/or fresh ones -/
theorem copyAssign_ids {h h' : Nat} {t o c : COO α} (hc : copyAssign h t o = some (h', c)) :
    h ≤ h' ∧ ∀ i ∈ ids c, i ∈ ids t ∨ (h ≤ i ∧ i < h') := by
  by_cases he : t.nnz = o.nnz
  · rw [copyAssign_eq h t o he] at hc
    simp only [Option.bind_eq_some_iff] at hc
    obtain ⟨r, r1, c', c1, v, v1, h2⟩ := hc
    injection h2 with h2; injection h2 with e1 e2
    subst e1 e2
    refine ⟨Nat.le_refl h, fun i hi => Or.inl ?_⟩
    have e : ids (⟨o.rows, o.cols, o.nnz, r, c', v, o.symmetric⟩ : COO α) = ids t := by
      show _ ++ _ ++ _ = _; rw [copyN_id r1, copyN_id c1, copyN_id v1]; rfl
    exact e ▸ hi
  · rw [copyAssign_ne h t o he] at hc
    exact ⟨(copyCtor_ids hc).1, fun i hi => Or.inr ((copyCtor_ids hc).2 i hi)⟩

omit [Scalar α] in
theorem WF_default : WF (default : COO α) := ⟨rfl, rfl, rfl⟩
omit [Scalar α] in
theorem WF_moved (o : COO α) : WF (moved o) := ⟨rfl, rfl, rfl⟩
theorem ofSize_WF (h r c n : Nat) : WF (ofSize h r c n : Nat × COO α).2 :=
  ⟨BufOK.fresh h n _, BufOK.fresh (h + 1) n _, BufOK.fresh (h + 1 + 1) n _⟩
theorem ofSize_fst (h r c n : Nat) : (ofSize h r c n : Nat × COO α).1 = h + 1 + 1 + 1 := rfl
theorem ofSize_ids (h r c n : Nat) : ids (ofSize h r c n : Nat × COO α).2 = [h, h + 1, h + 1 + 1] := rfl

/-- the sizing constructor used by `Op.resetA n`: an `n × n` matrix with `n` stored entries -/
def members : Members (COO α) := ⟨copyCtor, copyAssign, moveCtor, moveAssign, fun h n => ofSize h n n n, WF, ids⟩

theorem lawful : (members : Members (COO α)).Lawful where
  copyCtor h o ho := by
    obtain ⟨h', c, h1, _, h3, h4, h5⟩ := copyCtor_spec h ho; exact ⟨h', c, h1, h3, h4, h5⟩
  copyAssign h t o ht ho := by
    obtain ⟨h', c, h1, _, h3, h4, h5⟩ := copyAssign_spec h ht ho; exact ⟨h', c, h1, h3, h4, h5⟩
  moveCtor o ho := ⟨ho, WF_moved o, rfl, rfl⟩
  moveAssign t o ho := ⟨ho, WF_moved o, rfl, rfl⟩
  ofSize h n := ⟨ofSize_WF h n n n, by show h ≤ h + 1 + 1 + 1; omega, fun i hi => by
    have : i ∈ [h, h + 1, h + 1 + 1] := hi
    show h ≤ i ∧ i < h + 1 + 1 + 1
    simp only [List.mem_cons, List.not_mem_nil, or_false] at this
    omega⟩

def step : Op → Pair (COO α) → Option (Pair (COO α)) := members.step
def run : List Op → Pair (COO α) → Option (Pair (COO α)) := runWith step
def PairWF (s : Pair (COO α)) : Prop := WF s.a ∧ WF s.b
def PairSep (s : Pair (COO α)) : Prop := SepL s.h (ids s.a) (ids s.b)

end COO

/-! ## CSRo -/

/-- `row_start_indices_`: `rows + 1` entries, or `nullptr` in the default-constructed / moved-from matrix -/
def RowOK (b : Option (Buf Int)) (rows nnz : Nat) : Prop :=
  match b with
  | some x => x.data.length = rows + 1
  | none => rows = 0 ∧ nnz = 0

theorem RowOK.of_BufOK {b : Option (Buf Int)} {rows : Nat} (nnz : Nat) (h : BufOK b (rows + 1)) : RowOK b rows nnz := by
  cases b with
  | none => exact absurd h (Nat.succ_ne_zero rows)
  | some x => exact h

namespace CSRo
def WF (m : CSRo α) : Prop := BufOK m.values m.nnz ∧ BufOK m.colIdx m.nnz ∧ RowOK m.rowStart m.rows m.nnz
def ids (m : CSRo α) : List Nat := (bufId m.values).toList ++ (bufId m.colIdx).toList ++ (bufId m.rowStart).toList

theorem copyCtor_some (h : Nat) (o : CSRo α) (x : Buf Int) (hr : o.rowStart = some x) : copyCtor h o =
    (copyN (some ⟨h, List.replicate o.nnz (Scalar.n 0)⟩) o.values o.nnz).bind fun v' =>
    (copyN (some ⟨h + 1, List.replicate o.nnz 0⟩) o.colIdx o.nnz).bind fun c' =>
    (copyN (some ⟨h + 1 + 1, List.replicate (o.rows + 1) 0⟩) (some x) (o.rows + 1)).bind fun r' =>
    some (h + 1 + 1 + 1, ⟨o.rows, o.cols, o.nnz, v', c', r'⟩) := by
  unfold copyCtor; rw [hr]; rfl

theorem copyCtor_none (h : Nat) (o : CSRo α) (hr : o.rowStart = none) : copyCtor h o =
    (copyN (some ⟨h, List.replicate o.nnz (Scalar.n 0)⟩) o.values o.nnz).bind fun v' =>
    (copyN (some ⟨h + 1, List.replicate o.nnz 0⟩) o.colIdx o.nnz).bind fun c' =>
    some (h + 1 + 1, ⟨o.rows, o.cols, o.nnz, v', c', none⟩) := by
  unfold copyCtor; rw [hr]; rfl

theorem copyAssign_ne (h : Nat) (t o : CSRo α)
    (hne : t.nnz ≠ o.nnz ∨ t.rows ≠ o.rows ∨ t.rowStart.isSome ≠ o.rowStart.isSome) :
    copyAssign h t o = copyCtor h o := by
  unfold copyAssign copyCtor; rw [if_pos hne]

theorem copyAssign_eq (h : Nat) (t o : CSRo α)
    (he : ¬ (t.nnz ≠ o.nnz ∨ t.rows ≠ o.rows ∨ t.rowStart.isSome ≠ o.rowStart.isSome)) : copyAssign h t o =
    (copyN t.values o.values o.nnz).bind fun v' =>
    (copyN t.colIdx o.colIdx o.nnz).bind fun c' =>
    (if o.rowStart.isSome then copyN t.rowStart o.rowStart (o.rows + 1) else some t.rowStart).bind fun r' =>
    some (h, ⟨o.rows, o.cols, o.nnz, v', c', r'⟩) := by
  unfold copyAssign; rw [if_neg he]
  cases o.rowStart.isSome <;> rfl

theorem copyCtor_spec (h : Nat) {o : CSRo α} (ho : WF o) :
    ∃ h' c, copyCtor h o = some (h', c) ∧ obs c = obs o ∧ WF c ∧ h ≤ h' ∧ ∀ i ∈ ids c, h ≤ i ∧ i < h' := by
  obtain ⟨hv, hc, hrow⟩ := ho
  obtain ⟨v, v1, v2, v3, v4⟩ := copyN_fresh h (Scalar.n 0 : α) hv
  obtain ⟨c, c1, c2, c3, c4⟩ := copyN_fresh (h + 1) (0 : Int) hc
  cases hr : o.rowStart with
  | none =>
    rw [hr] at hrow
    refine ⟨h + 1 + 1, ⟨o.rows, o.cols, o.nnz, v, c, none⟩, ?_, ?_, ⟨v2, c2, hrow⟩, by omega, ?_⟩
    · rw [copyCtor_none h o hr, v1, Option.bind_some, c1, Option.bind_some]
    · show (o.rows, o.cols, o.nnz, (bufData v).take o.nnz, (bufData c).take o.nnz, []) =
        (o.rows, o.cols, o.nnz, (bufData o.values).take o.nnz, (bufData o.colIdx).take o.nnz,
          if o.rowStart.isSome then (bufData o.rowStart).take (o.rows + 1) else [])
      rw [v3, c3, hr]; rfl
    · intro i hi
      rcases mem_ids3.mp hi with e | e | e
      · have := fresh_id v4 e; omega
      · have := fresh_id c4 e; omega
      · exact nomatch e
  | some x =>
    rw [hr] at hrow
    have hx : BufOK (some x) (o.rows + 1) := hrow
    obtain ⟨r, r1, r2, r3, r4⟩ := copyN_fresh (h + 1 + 1) (0 : Int) hx
    refine ⟨h + 1 + 1 + 1, ⟨o.rows, o.cols, o.nnz, v, c, r⟩, ?_, ?_, ⟨v2, c2, RowOK.of_BufOK _ r2⟩, by omega, ?_⟩
    · rw [copyCtor_some h o x hr, v1, Option.bind_some, c1, Option.bind_some, r1, Option.bind_some]
    · show (o.rows, o.cols, o.nnz, (bufData v).take o.nnz, (bufData c).take o.nnz,
          if r.isSome then (bufData r).take (o.rows + 1) else []) =
        (o.rows, o.cols, o.nnz, (bufData o.values).take o.nnz, (bufData o.colIdx).take o.nnz,
          if o.rowStart.isSome then (bufData o.rowStart).take (o.rows + 1) else [])
      rw [v3, c3, r3, hr, r2.isSome]; rfl
    · intro i hi
      rcases mem_ids3.mp hi with e | e | e
      · have := fresh_id v4 e; omega
      · have := fresh_id c4 e; omega
      · have := fresh_id r4 e; omega

theorem copyAssign_spec (h : Nat) {t o : CSRo α} (ht : WF t) (ho : WF o) :
    ∃ h' c, copyAssign h t o = some (h', c) ∧ obs c = obs o ∧ WF c ∧ h ≤ h' ∧
      ∀ i ∈ ids c, i ∈ ids t ∨ (h ≤ i ∧ i < h') := by
  by_cases hne : t.nnz ≠ o.nnz ∨ t.rows ≠ o.rows ∨ t.rowStart.isSome ≠ o.rowStart.isSome
  · obtain ⟨h', c, h1, h2, h3, h4, h5⟩ := copyCtor_spec h ho
    exact ⟨h', c, by rw [copyAssign_ne h t o hne, h1], h2, h3, h4, fun i hi => Or.inr (h5 i hi)⟩
  · have he := hne
    simp only [not_or, ne_eq, Decidable.not_not] at he
    obtain ⟨e1, e2, e3⟩ := he
    obtain ⟨tv, tc, trow⟩ := ht
    obtain ⟨hv, hc, hrow⟩ := ho
    rw [e1] at tv tc
    obtain ⟨v, v1, v2, v3, v4⟩ := copyN_spec tv hv
    obtain ⟨c, c1, c2, c3, c4⟩ := copyN_spec tc hc
    -- the row-start buffer: both present (capacity `rows + 1`) or both absent
    have hrs : ∃ r, (if o.rowStart.isSome then copyN t.rowStart o.rowStart (o.rows + 1) else some t.rowStart) = some r ∧
        RowOK r o.rows o.nnz ∧ bufId r = bufId t.rowStart ∧
        (if r.isSome then (bufData r).take (o.rows + 1) else []) =
          (if o.rowStart.isSome then (bufData o.rowStart).take (o.rows + 1) else []) := by
      cases hr : o.rowStart with
      | none =>
        rw [hr] at e3
        have htn : t.rowStart = none := by
          cases h' : t.rowStart with
          | none => rfl
          | some y => rw [h'] at e3; exact nomatch e3
        rw [hr] at hrow
        exact ⟨t.rowStart, rfl, by rw [htn]; exact hrow, rfl, by rw [htn]⟩
      | some x =>
        rw [hr] at e3 hrow
        cases h' : t.rowStart with
        | none => rw [h'] at e3; exact nomatch e3
        | some y =>
          rw [h', e2] at trow
          have hy : BufOK (some y) (o.rows + 1) := trow
          have hx : BufOK (some x) (o.rows + 1) := hrow
          obtain ⟨r, r1, r2, r3, r4⟩ := copyN_spec hy hx
          exact ⟨r, r1, RowOK.of_BufOK _ r2, r4, by rw [r3, r2.isSome]; rfl⟩
    obtain ⟨r, r1, r2, r4, r3⟩ := hrs
    refine ⟨h, ⟨o.rows, o.cols, o.nnz, v, c, r⟩, ?_, ?_, ⟨v2, c2, r2⟩, Nat.le_refl h, ?_⟩
    · rw [copyAssign_eq h t o hne, v1, Option.bind_some, c1, Option.bind_some, r1, Option.bind_some]
    · show (o.rows, o.cols, o.nnz, (bufData v).take o.nnz, (bufData c).take o.nnz,
          if r.isSome then (bufData r).take (o.rows + 1) else []) = _
      rw [v3, c3, r3]; rfl
    · intro i hi
      have e : ids (⟨o.rows, o.cols, o.nnz, v, c, r⟩ : CSRo α) = ids t := by
        show _ ++ _ ++ _ = _; rw [v4, c4, r4]; rfl
      exact Or.inl (e ▸ hi)

/-- without any hypothesis on the source: a successful copy owns fresh buffers only -/
theorem copyCtor_ids {h h' : Nat} {o c : CSRo α} (hc : copyCtor h o = some (h', c)) :
    h ≤ h' ∧ ∀ i ∈ ids c, h ≤ i ∧ i < h' := by
  cases hr : o.rowStart with
  | none =>
    rw [copyCtor_none h o hr] at hc
    simp only [Option.bind_eq_some_iff] at hc
    obtain ⟨v, v1, c', c1, h2⟩ := hc
    injection h2 with h2; injection h2 with e1 e2
    subst e1 e2
    refine ⟨by omega, fun i hi => ?_⟩
    rcases mem_ids3.mp hi with e | e | e
    · have := fresh_id (copyN_id_fresh v1) e; omega
    · have := fresh_id (copyN_id_fresh c1) e; omega
    · exact nomatch e
  | some x =>
    rw [copyCtor_some h o x hr] at hc
    simp only [Option.bind_eq_some_iff] at hc
    obtain ⟨v, v1, c', c1, r, r1, h2⟩ := hc
    injection h2 with h2; injection h2 with e1 e2
    subst e1 e2
    refine ⟨by omega, fun i hi => ?_⟩
    rcases mem_ids3.mp hi with e | e | e
    · have := fresh_id (copyN_id_fresh v1) e; omega
    · have := fresh_id (copyN_id_fresh c1) e; omega
    · have := fresh_id (copyN_id_fresh r1) e; omega

/-- without any hypothesis: a successful copy assignment owns old buffers of the target and/or fresh ones -/
theorem copyAssign_ids {h h' : Nat} {t o c : CSRo α} (hc : copyAssign h t o = some (h', c)) :
    h ≤ h' ∧ ∀ i ∈ ids c, i ∈ ids t ∨ (h ≤ i ∧ i < h') := by
  by_cases hne : t.nnz ≠ o.nnz ∨ t.rows ≠ o.rows ∨ t.rowStart.isSome ≠ o.rowStart.isSome
  · rw [copyAssign_ne h t o hne] at hc
    exact ⟨(copyCtor_ids hc).1, fun i hi => Or.inr ((copyCtor_ids hc).2 i hi)⟩
  · rw [copyAssign_eq h t o hne] at hc
    simp only [Option.bind_eq_some_iff] at hc
    obtain ⟨v, v1, c', c1, r, r1, h2⟩ := hc
    injection h2 with h2; injection h2 with e1 e2
    subst e1 e2
    have r4 : bufId r = bufId t.rowStart := by
      split at r1
      · exact copyN_id r1
      · injection r1 with e; rw [e]
    refine ⟨Nat.le_refl h, fun i hi => Or.inl ?_⟩
    have e : ids (⟨o.rows, o.cols, o.nnz, v, c', r⟩ : CSRo α) = ids t := by
      show _ ++ _ ++ _ = _; rw [copyN_id v1, copyN_id c1, r4]; rfl
    exact e ▸ hi

omit [Scalar α] in
theorem WF_default : WF (default : CSRo α) := ⟨rfl, rfl, rfl, rfl⟩
omit [Scalar α] in
theorem WF_moved (o : CSRo α) : WF (moved o) := ⟨rfl, rfl, rfl, rfl⟩

/-- the class has no sizing constructor in the model: `Op.resetA _` is `a = SparseMatrixCSR();` -/
def members : Members (CSRo α) := ⟨copyCtor, copyAssign, moveCtor, moveAssign, fun h _ => (h, default), WF, ids⟩

theorem lawful : (members : Members (CSRo α)).Lawful where
  copyCtor h o ho := by
    obtain ⟨h', c, h1, _, h3, h4, h5⟩ := copyCtor_spec h ho; exact ⟨h', c, h1, h3, h4, h5⟩
  copyAssign h t o ht ho := by
    obtain ⟨h', c, h1, _, h3, h4, h5⟩ := copyAssign_spec h ht ho; exact ⟨h', c, h1, h3, h4, h5⟩
  moveCtor o ho := ⟨ho, WF_moved o, rfl, rfl⟩
  moveAssign t o ho := ⟨ho, WF_moved o, rfl, rfl⟩
  ofSize h n := ⟨WF_default, Nat.le_refl h, fun i hi => nomatch hi⟩

def step : Op → Pair (CSRo α) → Option (Pair (CSRo α)) := members.step
def run : List Op → Pair (CSRo α) → Option (Pair (CSRo α)) := runWith step
def PairWF (s : Pair (CSRo α)) : Prop := WF s.a ∧ WF s.b
def PairSep (s : Pair (CSRo α)) : Prop := SepL s.h (ids s.a) (ids s.b)

end CSRo

end Objects

/-! ## the in-place factorisation keeps the array lengths -/
namespace Tridiag
variable {α : Type} [Scalar α]

theorem factorFrom_length : ∀ (d : α) (as bs : List α), as.length = bs.length →
    (factorFrom d as bs).1.length = as.length ∧ (factorFrom d as bs).2.length = bs.length
  | _, [], [], _ => ⟨rfl, rfl⟩
  | _, [], _ :: _, h => nomatch h
  | _, _ :: _, [], h => nomatch h
  | d, a :: as, b :: bs, h => by
    have ih := factorFrom_length (a - b / d * (b / d) * d) as bs (Nat.succ.inj h)
    simp only [factorFrom, List.length_cons, ih.1, ih.2, and_self]

theorem factor_length (m s : List α) (h : s.length = m.length - 1) :
    (factor m s).1.length = m.length ∧ (factor m s).2.length = s.length := by
  cases m with
  | nil => exact ⟨rfl, h.symm⟩
  | cons a as =>
    have h' : as.length = s.length := by rw [h]; rfl
    have ih := factorFrom_length a as s h'
    simp only [factor, List.length_cons, ih.1, ih.2, and_self]

omit [Scalar α] in
theorem setHead_length (xs : List α) (f : α → α) : (setHead xs f).length = xs.length := by
  cases xs <;> rfl

omit [Scalar α] in
theorem setLast_length (f : α → α) : ∀ xs : List α, (setLast xs f).length = xs.length
  | [] => rfl
  | [_] => rfl
  | x :: y :: ys => by
    have ih := setLast_length f (y :: ys)
    simp only [setLast, List.length_cons] at ih ⊢
    rw [ih]

/-- `solveInPlace` overwrites `main` and `sub` by arrays of the same lengths -/
theorem solve_lengths (s : State α) (rhs : List α) (h : s.sub.length = s.main.length - 1) :
    (solve s rhs).1.main.length = s.main.length ∧ (solve s rhs).1.sub.length = s.sub.length := by
  have hl : s.sub.length = (setLast (setHead s.main fun a => a - -s.main.headD (Scalar.n 0)) fun a =>
      a - s.corner * s.corner / -s.main.headD (Scalar.n 0)).length - 1 := by
    rw [setLast_length, setHead_length]; exact h
  have hcy := factor_length _ _ hl
  rw [setLast_length, setHead_length] at hcy
  have hpl := factor_length _ _ h
  unfold solve solveCyclic solvePlain
  cases hc : s.cyclic <;> cases hf : s.factorized <;>
    simp only [Bool.false_eq_true, if_true, if_false, and_self, hcy.1, hcy.2, hpl.1, hpl.2]

end Tridiag

namespace Objects
variable {α : Type} [Scalar α]

/-! ## Tri -/
namespace Tri
def WF (t : Tri α) : Prop := BufOK t.main t.n ∧ BufOK t.sub (t.n - 1)
def ids (t : Tri α) : List Nat := (bufId t.main).toList ++ (bufId t.sub).toList

theorem copyCtor_eq (h : Nat) (o : Tri α) : copyCtor h o =
    (copyN (some ⟨h, List.replicate o.n (Scalar.n 0)⟩) o.main o.n).bind fun m' =>
    (copyN (some ⟨h + 1, List.replicate (o.n - 1) (Scalar.n 0)⟩) o.sub (o.n - 1)).bind fun s' =>
    some (h + 1 + 1, ⟨o.n, m', s', o.corner, o.cyclic, o.factorized, o.gamma⟩) := rfl

theorem copyAssign_ne (h : Nat) (t o : Tri α) (hne : t.n ≠ o.n) : copyAssign h t o = copyCtor h o := by
  unfold copyAssign; rw [if_pos hne]; rfl

theorem copyAssign_eq (h : Nat) (t o : Tri α) (he : t.n = o.n) : copyAssign h t o =
    (copyN t.main o.main o.n).bind fun m' =>
    (copyN t.sub o.sub (o.n - 1)).bind fun s' =>
    some (h, ⟨o.n, m', s', o.corner, o.cyclic, o.factorized, o.gamma⟩) := by
  unfold copyAssign; rw [if_neg (by simpa using he)]; rfl

theorem copyCtor_spec (h : Nat) {o : Tri α} (ho : WF o) :
    ∃ h' c, copyCtor h o = some (h', c) ∧ obs c = obs o ∧ WF c ∧ h ≤ h' ∧ ∀ i ∈ ids c, h ≤ i ∧ i < h' := by
  obtain ⟨hm, hs⟩ := ho
  obtain ⟨m, m1, m2, m3, m4⟩ := copyN_fresh h (Scalar.n 0 : α) hm
  obtain ⟨s, s1, s2, s3, s4⟩ := copyN_fresh (h + 1) (Scalar.n 0 : α) hs
  refine ⟨h + 1 + 1, ⟨o.n, m, s, o.corner, o.cyclic, o.factorized, o.gamma⟩, ?_, ?_, ⟨m2, s2⟩, by omega, ?_⟩
  · rw [copyCtor_eq, m1, Option.bind_some, s1, Option.bind_some]
  · show (o.n, (bufData m).take o.n, (bufData s).take (o.n - 1), o.corner, o.cyclic, o.factorized, o.gamma) = _
    rw [m3, s3]; rfl
  · intro i hi
    rcases mem_ids2.mp hi with e | e
    · have := fresh_id m4 e; omega
    · have := fresh_id s4 e; omega

theorem copyAssign_spec (h : Nat) {t o : Tri α} (ht : WF t) (ho : WF o) :
    ∃ h' c, copyAssign h t o = some (h', c) ∧ obs c = obs o ∧ WF c ∧ h ≤ h' ∧
      ∀ i ∈ ids c, i ∈ ids t ∨ (h ≤ i ∧ i < h') := by
  by_cases he : t.n = o.n
  · obtain ⟨tm, ts⟩ := ht
    obtain ⟨hm, hs⟩ := ho
    rw [he] at tm ts
    obtain ⟨m, m1, m2, m3, m4⟩ := copyN_spec tm hm
    obtain ⟨s, s1, s2, s3, s4⟩ := copyN_spec ts hs
    refine ⟨h, ⟨o.n, m, s, o.corner, o.cyclic, o.factorized, o.gamma⟩, ?_, ?_, ⟨m2, s2⟩, Nat.le_refl h, ?_⟩
    · rw [copyAssign_eq h t o he, m1, Option.bind_some, s1, Option.bind_some]
    · show (o.n, (bufData m).take o.n, (bufData s).take (o.n - 1), o.corner, o.cyclic, o.factorized, o.gamma) = _
      rw [m3, s3]; rfl
    · intro i hi
      have e : ids (⟨o.n, m, s, o.corner, o.cyclic, o.factorized, o.gamma⟩ : Tri α) = ids t := by
        show _ ++ _ = _; rw [m4, s4]; rfl
      exact Or.inl (e ▸ hi)
  · obtain ⟨h', c, h1, h2, h3, h4, h5⟩ := copyCtor_spec h ho
    exact ⟨h', c, by rw [copyAssign_ne h t o he, h1], h2, h3, h4, fun i hi => Or.inr (h5 i hi)⟩

/-- without any hypothesis on the source: a successful copy owns fresh buffers only -/
theorem copyCtor_ids {h h' : Nat} {o c : Tri α} (hc : copyCtor h o = some (h', c)) :
    h ≤ h' ∧ ∀ i ∈ ids c, h ≤ i ∧ i < h' := by
  rw [copyCtor_eq] at hc
  simp only [Option.bind_eq_some_iff] at hc
  obtain ⟨m, m1, s, s1, h2⟩ := hc
  injection h2 with h2; injection h2 with e1 e2
  subst e1 e2
  refine ⟨by omega, fun i hi => ?_⟩
  rcases mem_ids2.mp hi with e | e
  · have := fresh_id (copyN_id_fresh m1) e; omega
  · have := fresh_id (copyN_id_fresh s1) e; omega

/-- without any hypothesis: a successful copy assignment owns old buffers of the target and/or fresh ones -/
theorem copyAssign_ids {h h' : Nat} {t o c : Tri α} (hc : copyAssign h t o = some (h', c)) :
    h ≤ h' ∧ ∀ i ∈ ids c, i ∈ ids t ∨ (h ≤ i ∧ i < h') := by
  by_cases he : t.n = o.n
  · rw [copyAssign_eq h t o he] at hc
    simp only [Option.bind_eq_some_iff] at hc
    obtain ⟨m, m1, s, s1, h2⟩ := hc
    injection h2 with h2; injection h2 with e1 e2
    subst e1 e2
    refine ⟨Nat.le_refl h, fun i hi => Or.inl ?_⟩
    have e : ids (⟨o.n, m, s, o.corner, o.cyclic, o.factorized, o.gamma⟩ : Tri α) = ids t := by
      show _ ++ _ = _; rw [copyN_id m1, copyN_id s1]; rfl
    exact e ▸ hi
  · rw [copyAssign_ne h t o he] at hc
    exact ⟨(copyCtor_ids hc).1, fun i hi => Or.inr ((copyCtor_ids hc).2 i hi)⟩

theorem WF_default : WF (default : Tri α) := ⟨rfl, rfl⟩
theorem WF_moved (o : Tri α) : WF (moved o) := ⟨rfl, rfl⟩
theorem ofSize_WF (h n : Nat) : WF (ofSize h n : Nat × Tri α).2 := ⟨BufOK.fresh h n _, BufOK.fresh (h + 1) (n - 1) _⟩
theorem ofSize_fst (h n : Nat) : (ofSize h n : Nat × Tri α).1 = h + 1 + 1 := rfl
theorem ofSize_ids (h n : Nat) : ids (ofSize h n : Nat × Tri α).2 = [h, h + 1] := rfl

/-- the solver state is a function of the observation -/
def stateOfObs (x : Nat × List α × List α × α × Bool × Bool × α) : Tridiag.State α :=
  ⟨x.2.1, x.2.2.1, x.2.2.2.1, x.2.2.2.2.1, x.2.2.2.2.2.1, x.2.2.2.2.2.2⟩

omit [Scalar α] in
theorem toState_eq (t : Tri α) : toState t = stateOfObs (obs t) := rfl

omit [Scalar α] in
theorem toState_congr {c o : Tri α} (h : obs c = obs o) : toState c = toState o := by
  rw [toState_eq, toState_eq, h]

theorem solve_eq (t : Tri α) (rhs : List α) : solve t rhs =
    ({ t with main := setData t.main (Tridiag.solve t.toState rhs).1.main,
              sub := setData t.sub (Tridiag.solve t.toState rhs).1.sub,
              factorized := (Tridiag.solve t.toState rhs).1.factorized,
              gamma := (Tridiag.solve t.toState rhs).1.gamma }, (Tridiag.solve t.toState rhs).2) := rfl

omit [Scalar α] in
theorem toState_lengths {t : Tri α} (ht : WF t) :
    t.toState.main.length = t.n ∧ t.toState.sub.length = t.n - 1 := by
  show ((bufData t.main).take t.n).length = t.n ∧ ((bufData t.sub).take (t.n - 1)).length = t.n - 1
  rw [ht.1.take, ht.2.take, ht.1.length, ht.2.length]; exact ⟨rfl, rfl⟩

/-- `solveInPlace` keeps the object well formed -/
theorem solve_WF {t : Tri α} (rhs : List α) (ht : WF t) : WF (solve t rhs).1 := by
  obtain ⟨l1, l2⟩ := toState_lengths ht
  obtain ⟨k1, k2⟩ := Tridiag.solve_lengths t.toState rhs (by rw [l1, l2])
  rw [solve_eq]
  exact ⟨ht.1.setData (by rw [k1, l1]), ht.2.setData (by rw [k2, l2])⟩

theorem solve_ids (t : Tri α) (rhs : List α) : ids (solve t rhs).1 = ids t := by
  rw [solve_eq]; show _ ++ _ = _; rw [bufId_setData, bufId_setData]; rfl

/-- what is observable after `solveInPlace` is a function of what was observable before -/
theorem solve_obs {t : Tri α} (rhs : List α) (ht : WF t) : obs (solve t rhs).1 =
    (t.n, (Tridiag.solve t.toState rhs).1.main.take t.n, (Tridiag.solve t.toState rhs).1.sub.take (t.n - 1),
      t.corner, t.cyclic, (Tridiag.solve t.toState rhs).1.factorized, (Tridiag.solve t.toState rhs).1.gamma) := by
  rw [solve_eq]
  show (t.n, (bufData (setData t.main _)).take t.n, (bufData (setData t.sub _)).take (t.n - 1), _) = _
  rw [take_setData _ ht.1, take_setData _ ht.2]

theorem solve_congr {c o : Tri α} (rhs : List α) (hc : WF c) (ho : WF o) (h : obs c = obs o) :
    (solve c rhs).2 = (solve o rhs).2 ∧ obs (solve c rhs).1 = obs (solve o rhs).1 := by
  have hs := toState_congr h
  have hn : c.n = o.n := congrArg (·.1) h
  have hco : c.corner = o.corner := congrArg (·.2.2.2.1) h
  have hcy : c.cyclic = o.cyclic := congrArg (·.2.2.2.2.1) h
  refine ⟨?_, ?_⟩
  · rw [solve_eq, solve_eq, hs]
  · rw [solve_obs rhs hc, solve_obs rhs ho, hs, hn, hco, hcy]

/-- `main = [4,4,4]`, `sub = [1,1]`, not cyclic, not yet factorised -/
def example3 : Tri Rat := ⟨3, some ⟨0, [4, 4, 4]⟩, some ⟨1, [1, 1]⟩, 0, false, false, 0⟩

def members : Members (Tri α) := ⟨copyCtor, copyAssign, moveCtor, moveAssign, ofSize, WF, ids⟩

theorem lawful : (members : Members (Tri α)).Lawful where
  copyCtor h o ho := by
    obtain ⟨h', c, h1, _, h3, h4, h5⟩ := copyCtor_spec h ho; exact ⟨h', c, h1, h3, h4, h5⟩
  copyAssign h t o ht ho := by
    obtain ⟨h', c, h1, _, h3, h4, h5⟩ := copyAssign_spec h ht ho; exact ⟨h', c, h1, h3, h4, h5⟩
  moveCtor o ho := ⟨ho, WF_moved o, rfl, rfl⟩
  moveAssign t o ho := ⟨ho, WF_moved o, rfl, rfl⟩
  ofSize h n := ⟨ofSize_WF h n, by show h ≤ h + 1 + 1; omega, fun i hi => by
    have : i ∈ [h, h + 1] := hi
    show h ≤ i ∧ i < h + 1 + 1
    simp only [List.mem_cons, List.not_mem_nil, or_false] at this
    omega⟩

/-- the special members, the sizing constructor, and `solveInPlace` on a pair of solvers -/
def step : TriOp α → Pair (Tri α) → Option (Pair (Tri α))
  | .op o, s => members.step o s
  | .solveA rhs, s => some ⟨s.h, (solve s.a rhs).1, s.b⟩
  | .solveB rhs, s => some ⟨s.h, s.a, (solve s.b rhs).1⟩
def run : List (TriOp α) → Pair (Tri α) → Option (Pair (Tri α)) := runWith step
def PairWF (s : Pair (Tri α)) : Prop := WF s.a ∧ WF s.b
def PairSep (s : Pair (Tri α)) : Prop := SepL s.h (ids s.a) (ids s.b)

theorem step_spec (o : TriOp α) (s : Pair (Tri α)) (hw : PairWF s) :
    ∃ s', step o s = some s' ∧ PairWF s' ∧ (PairSep s → PairSep s') := by
  cases o with
  | op o => exact Members.step_spec lawful o s hw
  | solveA rhs =>
    exact ⟨_, rfl, ⟨solve_WF rhs hw.1, hw.2⟩, fun hs => by
      show SepL _ (ids (solve s.a rhs).1) _; rw [solve_ids]; exact hs⟩
  | solveB rhs =>
    exact ⟨_, rfl, ⟨hw.1, solve_WF rhs hw.2⟩, fun hs => by
      show SepL _ _ (ids (solve s.b rhs).1); rw [solve_ids]; exact hs⟩

end Tri

end Objects
