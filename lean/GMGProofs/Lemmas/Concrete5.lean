import GMGProofs.Lemmas.Concrete4
import GMGProofs.Props.C07c
/-!
# The extrapolated smoother of the code-level model fixes an exact discrete solution (Dirichlet inner boundary, elliptic data)
* uniqueness of the extrapolated sweep equations (`IsExSweep`): phase by phase, the fine nodes of one phase form a principal
  block of the positive definite operator (`Direct.A_injective_on`), the coarse nodes keep their values;
* `C07c.ExLinesOK` is a theorem in that mode: the tridiagonal blocks of the odd circles / odd radial lines are those of the
  standard smoother (`C06d.*_matrix_spd_dirichlet`), the stored diagonal entries are positive, the innermost circle's matrix is
  the identity (all LU pivots are 1);
* hence the sweep is total, satisfies `IsExSweep`, and returns the array of an exact discrete solution unchanged;
* `MGCycle.ExExactData` with the extrapolated smoother on level 0.
-/
namespace Concrete
open Stencil Scalar MGCycle Smoother

section Ordered
variable {K : Type} [_root_.Field K] [LinearOrder K] [IsStrictOrderedRing K]

/-- the equations of the extrapolated sweep have at most one solution on the grid -/
theorem exsweep_unique_dirichlet (o : Op K) (nc : Nat) (hnr : 4 ≤ o.nr) (hnt : 2 ≤ o.nt) (heven : o.nt % 2 = 0)
    (hbc : o.bc = true) (he : Elliptic o) (f x y y' : Stencil.Field K)
    (hy : IsExSweep o nc f x y) (hy' : IsExSweep o nc f x y') :
    ∀ i j, i < o.nr → j < o.nt → y i j = y' i j := by
  have key : ∀ p, ∀ i j, i < o.nr → j < o.nt → phase nc i j = p → y i j = y' i j := by
    intro p
    induction p using Nat.strong_induction_on with
    | _ p ih =>
      intro i j hi hj hp
      have hoff : ∀ c d, c < o.nr → d < o.nt → ¬ (phase nc c d = p ∧ coarseNode c d = false) →
          (fun a b => mix nc p x y a b - mix nc p x y' a b) c d = 0 := by
        intro c d hc hd hS
        show mix nc p x y c d - mix nc p x y' c d = 0
        by_cases hcn : coarseNode c d = true
        · have e1 := C07.coarse_fixed o nc f x y hy c d hc hd hcn
          have e2 := C07.coarse_fixed o nc f x y' hy' c d hc hd hcn
          unfold mix
          split
          · rw [e1, e2, sub_self]
          · exact sub_self _
        · have hne : phase nc c d ≠ p := fun h => hS ⟨h, by simpa using hcn⟩
          rcases Nat.lt_or_ge p (phase nc c d) with hlt | hge
          · rw [mix_of_lt hlt, mix_of_lt hlt, sub_self]
          · rw [mix_of_le hge, mix_of_le hge, ih (phase nc c d) (by omega) c d hc hd rfl, sub_self]
      have hA : ∀ c d, c < o.nr → d < o.nt → (phase nc c d = p ∧ coarseNode c d = false) →
          A o (fun a b => mix nc p x y a b - mix nc p x y' a b) c d = 0 := by
        intro c d hc hd hS
        obtain ⟨hpc, hcn⟩ := hS
        have e1 := C07.ex_phase_colour o nc f x y hy p c d hc hd hpc hcn
        have e2 := C07.ex_phase_colour o nc f x y' hy' p c d hc hd hpc hcn
        rw [take_eq_sub_A] at e1 e2
        rw [Direct.A_sub]
        linear_combination e2 - e1
      have h0 : mix nc p x y i j - mix nc p x y' i j = 0 :=
        Direct.A_injective_on o hnr hnt heven hbc he (fun c d => phase nc c d = p ∧ coarseNode c d = false) _
          hoff hA i j hi hj
      rw [mix_of_le (by omega), mix_of_le (by omega)] at h0
      exact sub_eq_zero.mp h0
  intro i j hi hj
  exact key _ i j hi hj rfl

omit [LinearOrder K] [IsStrictOrderedRing K] in
/-- Dirichlet mode: the stored row `j` of the extrapolated smoother's innermost-circle matrix -/
theorem ex_loadRow_innerCSR_dirichlet (o : Op K) (hbc : o.bc = true) (j : Nat) (hj : j < o.nt) :
    SparseLU.loadRow (ExSmootherCode.innerCSR o) j = [(j, 1)] := by
  have hrow : ExSmootherCode.innerRow o j = [(j, 1)] := by
    unfold ExSmootherCode.innerRow; rw [if_pos hbc, Scalar.n_one]
  have hre : SparseLU.rowEntries (ExSmootherCode.innerCSR o) j = [(j, 1)] := by
    rw [ExSmootherCode.rowEntries_innerCSR o j hj, hrow]
  rw [SparseLU.loadRow_eq_rowEntries _ _ (by rw [hre]; unfold SparseLU.Uniq; simp), hre]

omit [LinearOrder K] [IsStrictOrderedRing K] in
/-- Dirichlet mode: row `j` of U is `[(j, 1)]` -/
theorem ex_U_innerCSR_dirichlet (o : Op K) (hbc : o.bc = true) (j : Nat) (hj : j < o.nt) :
    (SparseLU.factorRows (ExSmootherCode.innerCSR o)).2.getD j [] = [(j, 1)] := by
  have hW : SparseLU.W (ExSmootherCode.innerCSR o) j = [(j, 1)] := by
    unfold SparseLU.W
    rw [ex_loadRow_innerCSR_dirichlet o hbc j hj]
    exact SmootherCode.elimRow_single _ j 1 j (Nat.le_refl _)
  rw [SparseLU.factorRows_eq, SparseLU.U_getD _ _ j (by rw [ExSmootherCode.innerCSR_rows]; exact hj), hW]
  simp

omit [LinearOrder K] [IsStrictOrderedRing K] in
/-- the innermost circle's matrix of the extrapolated smoother is the identity in Dirichlet mode: all LU pivots are 1 -/
theorem ex_inner_pivots_dirichlet (o : Op K) (hbc : o.bc = true) (i : Nat) (hi : i < o.nt) :
    SparseLU.den ((SparseLU.factorRows (ExSmootherCode.innerCSR o)).2.getD i []) i = 1 := by
  rw [ex_U_innerCSR_dirichlet o hbc i hi, SparseLU.den_cons, if_pos rfl]

/-- the diagonal entry of an interior row is positive for elliptic data -/
theorem centerValue_pos (o : Op K) (he : Elliptic o) (i j : Nat) (h0 : 0 < i) (h1 : i + 1 < o.nr) (hj : j < o.nt) :
    0 < SmootherCode.centerValue o i j (i - 1) j := by
  have hnt : 0 < o.nt := by omega
  have hh1 : 0 < o.h (i - 1) := he.h_pos (i - 1) (by omega)
  have hh2 : 0 < o.h i := he.h_pos i h1
  have hk1 : 0 < o.k (jm o j) := he.k_pos _ (jm_lt o hnt j)
  have hk2 : 0 < o.k j := he.k_pos j hj
  have ha : 0 < o.arr i j := he.arr_pos i j (by omega) hj
  have ha1 : 0 < o.arr (i - 1) j := he.arr_pos (i - 1) j (by omega) hj
  have ha2 : 0 < o.arr (i + 1) j := he.arr_pos (i + 1) j h1 hj
  have ht : 0 < o.att i j := he.att_pos i j (by omega) hj
  have ht1 : 0 < o.att i (jm o j) := he.att_pos i _ (by omega) (jm_lt o hnt j)
  have ht2 : 0 < o.att i (jp o j) := he.att_pos i _ (by omega) (jp_lt o hnt j)
  have hb : 0 ≤ o.beta i := he.beta_nonneg i (by omega)
  have hd : 0 ≤ o.det i j := he.det_nonneg i j (by omega) hj
  have hi0 : i ≠ 0 := by omega
  unfold SmootherCode.centerValue SmootherCode.coeff1 SmootherCode.coeff2 SmootherCode.coeff3 SmootherCode.coeff4
    SmootherCode.h1
  simp only [if_neg hi0, Stencil.half, Stencil.quarter, Scalar.n_eq, Nat.cast_one, Nat.cast_ofNat]
  positivity

/-- **`ExLinesOK` is a theorem in Dirichlet mode** -/
theorem exLinesOK_dirichlet (o : Op K) (nc : Nat) (hnr : nc + 3 ≤ o.nr) (hnc : 2 ≤ nc) (hnt : 4 ≤ o.nt)
    (heven : o.nt % 2 = 0) (hbc : o.bc = true) (he : Elliptic o) : C07c.ExLinesOK o nc := by
  refine C07c.exLinesOK_of_spd_pos o nc hnt hnr ?_ ?_ ?_ ?_
  · intro i hi0 hi _
    exact C06d.circle_matrix_spd_dirichlet o nc (by omega) hnt heven hbc he i hi0 hi (by omega)
  · intro j hj _
    rw [ExSmootherCode.radialTriMain_eq o nc j hnr, ExSmootherCode.radialTriSub_eq o nc j hnr]
    exact C06d.radial_matrix_spd_dirichlet o nc hnr hnc hnt heven hbc he j hj
  · intro i j h0 h1 hj
    exact centerValue_pos o he i j h0 h1 hj
  · intro i hi
    rw [ex_inner_pivots_dirichlet o hbc i hi]
    exact one_ne_zero

/-- the code-level extrapolated sweep returns the array of an exact discrete solution unchanged -/
theorem exsweep_fixed (o : Op K) (nc : Nat) (tiny : K → Bool) (ht : tiny 1 = false)
    (hnr : nc + 3 ≤ o.nr) (hnc : 2 ≤ nc) (hnt : 4 ≤ o.nt) (heven : o.nt % 2 = 0) (hodd : o.nr % 2 = 1)
    (hbc : o.bc = true) (he : Elliptic o)
    (f : Stencil.Field K) (u : Array K) (hu : u.size = o.nr * o.nt)
    (hsol : ∀ i j, i < o.nr → j < o.nt → coarseNode i j = false → take o f (SmootherCode.fld o.nt u) i j = 0) :
    ExSmootherCode.sweep o tiny nc f u = some u := by
  obtain ⟨y, hy⟩ := C07c.code_exsweep_total o nc tiny f u
    (fun i hi => by rw [ex_inner_pivots_dirichlet o hbc i hi]; exact ht)
  have hl := exLinesOK_dirichlet o nc hnr hnc hnt heven hbc he
  have hs := C07c.code_exsweep_isExSweep o nc tiny f u y hnt heven hnc hnr hodd hu hl hy
  have hfix := C07.ex_fixed_point o nc f (SmootherCode.fld o.nt u) hsol
  have heq := exsweep_unique_dirichlet o nc (by omega) (by omega) heven hbc he f _ _ _ hs hfix
  have hsz := C07c.sweep_size o nc tiny f u y hy
  rw [hy, array_eq_of_fld o.nr o.nt y u (by rw [hsz, hu]) hu heq]

/-- **`ExExactData` with the extrapolated smoother on level 0** (`fgs = false`) -/
theorem exExactData_ex (H : Hier K) (L nu1 nu2 : Nat) (hL : 2 ≤ L) (u f f1 : Array K)
    (hlev : ∀ l, l + 1 < L → LevelHyp (lvl H l)) (hodd : (lvl H 0).op.nr % 2 = 1) (ht1 : H.tiny 1 = false)
    (M : SparseLU.CSR K) (hM : DirectCode.assemble H.tables (lvl H (L - 1)).op = some M)
    (ht : ∀ r, r < M.rows → H.tiny (SparseLU.den ((SparseLU.factorRows M).2.getD r []) r) = false)
    (hu : u.size = (lvl H 0).op.nr * (lvl H 0).op.nt)
    (hsol : ∀ i j, i < (lvl H 0).op.nr → j < (lvl H 0).op.nt →
      take (lvl H 0).op (SmootherCode.fld (lvl H 0).op.nt f) (SmootherCode.fld (lvl H 0).op.nt u) i j = 0)
    (h01 : (lvl H 1).op.bc = true ∨ 2 ≤ (lvl H 1).op.nr)
    (hsol1 : ∀ i j, i < (lvl H 1).op.nr → j < (lvl H 1).op.nt →
      take (lvl H 1).op (SmootherCode.fld (lvl H 1).op.nt f1)
        (Interp.inject (SmootherCode.fld (lvl H 0).op.nt u)) i j = 0) :
    ExExactData (ops H) ⟨L, nu1, nu2⟩ false (some u) (some f) (some f1) :=
  ⟨by
    obtain ⟨hnt, heven, hnc, hnr, hbc, he⟩ := hlev 0 (by omega)
    show (if false = true then _ else (ops H).exSmooth 0 (some u) (some f)) = some u
    rw [if_neg (by decide)]
    exact exsweep_fixed (lvl H 0).op (lvl H 0).nc H.tiny ht1 hnr hnc hnt heven hodd hbc he _ u hu
      (fun i j hi hj _ => hsol i j hi hj),
   ops_exrhs_zero H u f f1 hsol h01 hsol1, ops_add_exProlong_zero H 0 u, zeroData_depth H L nu1 nu2 hlev ht1 M hM ht⟩

end Ordered
end Concrete
