import GMGProofs.Lemmas.SchedBasic
/-!
# Race freedom of the four "take" assembly / residual regions: every call writes its own row / line only (C11)

One theorem per pair of loops of one barrier interval (a loop with itself: two different iterations), each proved from the
*generated* loop terms (`Sched.Gen.*`) by `race_pair`; then the region theorem.
-/
set_option linter.unusedSimpArgs false
set_option linter.unusedVariables false
namespace Sched.Lem
open Sched

theorem residualTake_0_0 (s : Shape) (h : Admissible s) :
    LoopsRaceFree s (Gen.residualTake.loops.getD 0 default) (Gen.residualTake.loops.getD 0 default) (0 == 0) := by
  race_pair h [Gen.residualTake]

theorem residualTake_0_1 (s : Shape) (h : Admissible s) :
    LoopsRaceFree s (Gen.residualTake.loops.getD 0 default) (Gen.residualTake.loops.getD 1 default) (0 == 1) := by
  race_pair h [Gen.residualTake]

theorem residualTake_1_1 (s : Shape) (h : Admissible s) :
    LoopsRaceFree s (Gen.residualTake.loops.getD 1 default) (Gen.residualTake.loops.getD 1 default) (1 == 1) := by
  race_pair h [Gen.residualTake]

/-- barrier intervals of the generated region -/
theorem residualTake_intervals : intervals Gen.residualTake.loops = [[0, 1]] := by decide

theorem residualTake_raceFree (s : Shape) (h : Admissible s) : RegionRaceFree s Gen.residualTake := by
  apply regionRaceFree_of_intervals _ residualTake_intervals
  simp only [List.forall_mem_cons, List.not_mem_nil, false_imp_iff, implies_true, and_true, true_and, and_assoc, Nat.le_refl, forall_const,
    Nat.reduceLeDiff]
  exact ⟨residualTake_0_0 s h, residualTake_0_1 s h, residualTake_1_1 s h⟩

theorem directTake_0_0 (s : Shape) (h : Admissible s) :
    LoopsRaceFree s (Gen.directTake.loops.getD 0 default) (Gen.directTake.loops.getD 0 default) (0 == 0) := by
  race_pair h [Gen.directTake]

theorem directTake_0_1 (s : Shape) (h : Admissible s) :
    LoopsRaceFree s (Gen.directTake.loops.getD 0 default) (Gen.directTake.loops.getD 1 default) (0 == 1) := by
  race_pair h [Gen.directTake]

theorem directTake_1_1 (s : Shape) (h : Admissible s) :
    LoopsRaceFree s (Gen.directTake.loops.getD 1 default) (Gen.directTake.loops.getD 1 default) (1 == 1) := by
  race_pair h [Gen.directTake]

/-- barrier intervals of the generated region -/
theorem directTake_intervals : intervals Gen.directTake.loops = [[0, 1]] := by decide

theorem directTake_raceFree (s : Shape) (h : Admissible s) : RegionRaceFree s Gen.directTake := by
  apply regionRaceFree_of_intervals _ directTake_intervals
  simp only [List.forall_mem_cons, List.not_mem_nil, false_imp_iff, implies_true, and_true, true_and, and_assoc, Nat.le_refl, forall_const,
    Nat.reduceLeDiff]
  exact ⟨directTake_0_0 s h, directTake_0_1 s h, directTake_1_1 s h⟩

theorem smootherTakeAsc_0_0 (s : Shape) (h : Admissible s) :
    LoopsRaceFree s (Gen.smootherTakeAsc.loops.getD 0 default) (Gen.smootherTakeAsc.loops.getD 0 default) (0 == 0) := by
  race_pair h [Gen.smootherTakeAsc]

theorem smootherTakeAsc_0_1 (s : Shape) (h : Admissible s) :
    LoopsRaceFree s (Gen.smootherTakeAsc.loops.getD 0 default) (Gen.smootherTakeAsc.loops.getD 1 default) (0 == 1) := by
  race_pair h [Gen.smootherTakeAsc]

theorem smootherTakeAsc_1_1 (s : Shape) (h : Admissible s) :
    LoopsRaceFree s (Gen.smootherTakeAsc.loops.getD 1 default) (Gen.smootherTakeAsc.loops.getD 1 default) (1 == 1) := by
  race_pair h [Gen.smootherTakeAsc]

/-- barrier intervals of the generated region -/
theorem smootherTakeAsc_intervals : intervals Gen.smootherTakeAsc.loops = [[0, 1]] := by decide

theorem smootherTakeAsc_raceFree (s : Shape) (h : Admissible s) : RegionRaceFree s Gen.smootherTakeAsc := by
  apply regionRaceFree_of_intervals _ smootherTakeAsc_intervals
  simp only [List.forall_mem_cons, List.not_mem_nil, false_imp_iff, implies_true, and_true, true_and, and_assoc, Nat.le_refl, forall_const,
    Nat.reduceLeDiff]
  exact ⟨smootherTakeAsc_0_0 s h, smootherTakeAsc_0_1 s h, smootherTakeAsc_1_1 s h⟩

theorem exSmootherTakeAsc_0_0 (s : Shape) (h : Admissible s) :
    LoopsRaceFree s (Gen.exSmootherTakeAsc.loops.getD 0 default) (Gen.exSmootherTakeAsc.loops.getD 0 default) (0 == 0) := by
  race_pair h [Gen.exSmootherTakeAsc]

theorem exSmootherTakeAsc_0_1 (s : Shape) (h : Admissible s) :
    LoopsRaceFree s (Gen.exSmootherTakeAsc.loops.getD 0 default) (Gen.exSmootherTakeAsc.loops.getD 1 default) (0 == 1) := by
  race_pair h [Gen.exSmootherTakeAsc]

theorem exSmootherTakeAsc_1_1 (s : Shape) (h : Admissible s) :
    LoopsRaceFree s (Gen.exSmootherTakeAsc.loops.getD 1 default) (Gen.exSmootherTakeAsc.loops.getD 1 default) (1 == 1) := by
  race_pair h [Gen.exSmootherTakeAsc]

/-- barrier intervals of the generated region -/
theorem exSmootherTakeAsc_intervals : intervals Gen.exSmootherTakeAsc.loops = [[0, 1]] := by decide

theorem exSmootherTakeAsc_raceFree (s : Shape) (h : Admissible s) : RegionRaceFree s Gen.exSmootherTakeAsc := by
  apply regionRaceFree_of_intervals _ exSmootherTakeAsc_intervals
  simp only [List.forall_mem_cons, List.not_mem_nil, false_imp_iff, implies_true, and_true, true_and, and_assoc, Nat.le_refl, forall_const,
    Nat.reduceLeDiff]
  exact ⟨exSmootherTakeAsc_0_0 s h, exSmootherTakeAsc_0_1 s h, exSmootherTakeAsc_1_1 s h⟩

end Sched.Lem
