import GMGProofs.Lemmas.DirectGiveCode3
/-!
# Code-level direct solver (give), lemmas 4 — the assembled rows in closed form and their dense meaning

* `finalRows`, `rows_closed`: slot `q` of row `(i, j)` holds the column of the node its position refers to (`slotCol`) and the
  sum of all values addressed to it (`slotSum`);
* `slotCols_eq`: the columns of row `(i, j)` in storage order are the columns the TAKE assembly stores (`DirectCode.writes`),
  hence pairwise distinct (`4 ≤ nt`, `nt` even);
* `toDense_give`: entry `(i·nt + j, k)` of the assembled matrix is the sum of the values of all stores with that row and
  that column.
-/
set_option linter.unusedSectionVars false
set_option linter.unusedVariables false
set_option linter.unusedSimpArgs false
namespace DirectGiveCode
open Stencil SparseLU DirectCode
variable {K : Type} [_root_.Field K]

section
variable (T : Tables) (o : Op K)

/-- the column index stored in slot `q` of row `(i, j)` -/
def slotCol (i j q : Nat) : Nat :=
  (posNode o (i, j) (slotPos o i q)).1 * o.nt + (posNode o (i, j) (slotPos o i q)).2

/-- the value accumulated in slot `q` of row `r` -/
def slotSum (nc r q : Nat) : K :=
  ((allUpdates o nc).map fun u => if addr T o u = some (r, q) then val u else 0).sum

/-- the assembled rows -/
def finalRows (nc : Nat) : State K :=
  (List.range (o.nr * o.nt)).map fun r =>
    (List.range (rowSize o (r / o.nt))).map fun q => (slotCol o (r / o.nt) (r % o.nt) q, slotSum T o nc r q)

theorem rowIdx_mod {u : MUpd K} (h : u.1.2 < o.nt) : rowIdx o u % o.nt = u.1.2 := by
  unfold rowIdx
  rw [Nat.mul_comm, Nat.mul_add_mod, Nat.mod_eq_of_lt h]

/-- what a store that addresses slot `(r, q)` looks like -/
theorem of_addr (hT : GoodTables T) (hnr : 4 ≤ o.nr) (u : MUpd K) (hin : InB o u) {r q : Nat}
    (h : addr T o u = some (r, q)) :
    r = rowIdx o u ∧ q < rowSize o u.1.1 ∧ slotPos o u.1.1 q = u.2.1 := by
  obtain ⟨q', ha, hq', hs⟩ := addr_valid T o hT hnr u hin.1 hin.2.2
  rw [ha] at h
  have := Option.some.inj h
  have h1 : rowIdx o u = r := congrArg Prod.fst this
  have h2 : q' = q := congrArg Prod.snd this
  subst h2
  exact ⟨h1.symm, hq', hs⟩

theorem colIdx_of_addr (hT : GoodTables T) (hnr : 4 ≤ o.nr) (u : MUpd K) (hin : InB o u) (hc : Cons o u) {r q : Nat}
    (h : addr T o u = some (r, q)) : colIdx o u = slotCol o (r / o.nt) (r % o.nt) q := by
  obtain ⟨hr, _, hs⟩ := of_addr T o hT hnr u hin h
  subst hr
  rw [rowIdx_div o hin.2.1, rowIdx_mod o hin.2.1]
  unfold slotCol colIdx
  rw [hs, ← hc.1]

/-- **the assembled rows in closed form** -/
theorem rows_closed (hT : GoodTables T) (hnr : 4 ≤ o.nr) (hev : o.bc = false → o.nt % 2 = 0) (nc : Nat) :
    rows T o nc = some (finalRows T o nc) := by
  obtain ⟨rsf, h1, h2, h3, h4⟩ := rows_spec T o hT hnr nc
  rw [h1]
  congr 1
  rw [state_eq_tab rsf, h2]
  unfold finalRows
  apply List.map_congr_left
  intro r hr
  have hr' : r < o.nr * o.nt := List.mem_range.mp hr
  have hpos : 0 < o.nt := by
    rcases Nat.eq_zero_or_pos o.nt with h | h
    · rw [h] at hr'; simp at hr'
    · exact h
  have hi : r / o.nt < o.nr := Nat.div_lt_of_lt_mul (by rw [Nat.mul_comm]; exact hr')
  have hj : r % o.nt < o.nt := Nat.mod_lt _ hpos
  have hrr : r / o.nt * o.nt + r % o.nt = r := Nat.div_add_mod' r o.nt
  rw [h3, if_pos hr']
  apply List.map_congr_left
  intro q hq
  have hq' : q < rowSize o (r / o.nt) := List.mem_range.mp hq
  rw [h4]
  apply Prod.ext
  · apply slotFold_fst
    · intro u hu ha
      exact colIdx_of_addr T o hT hnr u (allUpdates_inb o hnr nc u hu) (allUpdates_cons o hnr hev nc u hu) ha
    · left
      have := hit_slot T o hT hnr nc hi hj hq'
      rw [hrr] at this
      exact this
  · rw [slotFold_snd]
    simp [slotSum]

theorem finalRows_length (nc : Nat) : (finalRows T o nc).length = o.nr * o.nt := by simp [finalRows]

theorem finalRows_getD (nc : Nat) {i j : Nat} (hi : i < o.nr) (hj : j < o.nt) :
    (finalRows T o nc).getD (i * o.nt + j) [] =
      (List.range (rowSize o i)).map fun q => (slotCol o i j q, slotSum T o nc (i * o.nt + j) q) := by
  unfold finalRows
  rw [SparseLU.getD_map_range, if_pos (Direct.idx_lt hi hj)]
  have hpos : 0 < o.nt := by omega
  have h1 : (i * o.nt + j) / o.nt = i := by
    rw [Nat.mul_comm, Nat.mul_add_div hpos, Nat.div_eq_of_lt hj, Nat.add_zero]
  have h2 : (i * o.nt + j) % o.nt = j := by
    rw [Nat.mul_comm, Nat.mul_add_mod, Nat.mod_eq_of_lt hj]
  rw [h1, h2]

/-- `List.range` of the three row sizes -/
theorem range9 : List.range 9 = [0, 1, 2, 3, 4, 5, 6, 7, 8] := by decide
theorem range7 : List.range 7 = [0, 1, 2, 3, 4, 5, 6] := by decide
theorem range1 : List.range 1 = [0] := by decide

/-- **the give assembly stores, slot by slot, the columns the take assembly stores** -/
theorem slotCols_eq (hnr : 4 ≤ o.nr) {i : Nat} (hi : i < o.nr) (j : Nat) :
    (List.range (rowSize o i)).map (slotCol o i j) = (nodes (writes o i j)).map fun c => c.1 * o.nt + c.2 := by
  by_cases hint : 0 < i ∧ i + 1 < o.nr
  · have h0 : i ≠ 0 := by omega
    rw [rowSize_int o hint, writes_int o j hint, range9]
    simp [slotCol, slotPos_int o hint, pos9, posNode, nodes, h0]
  · by_cases hz : i = 0
    · subst hz
      by_cases hb : o.bc = true
      · have h2 : ¬ ((0 : Nat) = 0 ∧ o.bc = false) := by rw [hb]; simp
        rw [rowSize_db o hint h2, writes_inner_db o j hb, range1]
        simp [slotCol, slotPos_db o hint h2, posNode, nodes]
      · have hb' : o.bc = false := by simpa using hb
        rw [rowSize_origin o hb', writes_origin o j (by omega) hb', range7]
        simp [slotCol, slotPos_origin o hb', pos7, posNode, nodes]
    · have h2 : ¬ (i = 0 ∧ o.bc = false) := fun h => hz h.1
      rw [rowSize_db o hint h2, writes_outer o j (by omega) (by omega), range1]
      simp [slotCol, slotPos_db o hint h2, posNode, nodes]

/-- the stored columns of a row are pairwise distinct -/
theorem uniq_finalRow (hnr : 4 ≤ o.nr) (hnt : 4 ≤ o.nt) (heven : o.nt % 2 = 0) (nc : Nat) {i j : Nat}
    (hi : i < o.nr) (hj : j < o.nt) :
    Uniq ((List.range (rowSize o i)).map fun q => (slotCol o i j q, slotSum T o nc (i * o.nt + j) q)) := by
  have hu := uniq_nodeRow o (writes o i j) (writes_nodes o hnr hnt heven hi hj).1 (writes_nodes o hnr hnt heven hi hj).2
  unfold Uniq keys at hu ⊢
  have e1 : ((List.range (rowSize o i)).map fun q => (slotCol o i j q, slotSum T o nc (i * o.nt + j) q)).map (·.1)
      = (List.range (rowSize o i)).map (slotCol o i j) := by
    rw [List.map_map]; rfl
  have e2 : (nodeRow o (writes o i j)).map (·.1) = (nodes (writes o i j)).map fun c => c.1 * o.nt + c.2 := by
    unfold nodeRow nodes
    rw [List.map_map, List.map_map]; rfl
  rw [e1, slotCols_eq o hnr hi j, ← e2]
  exact hu

/-- **an entry of the assembled matrix is the sum of the values of all stores with that row and that column** -/
theorem toDense_give (hT : GoodTables T) (hnr : 4 ≤ o.nr) (hnt : 4 ≤ o.nt) (heven : o.nt % 2 = 0) (nc : Nat)
    (M : CSR K) (hM : assemble T o nc = some M) {i j : Nat} (hi : i < o.nr) (hj : j < o.nt) (k : Nat) :
    toDense M (i * o.nt + j) k
      = ((allUpdates o nc).map fun u => if rowIdx o u = i * o.nt + j ∧ colIdx o u = k then val u else 0).sum := by
  have hrows := rows_closed T o hT hnr (fun _ => heven) nc
  have hM' : M = csrRows (o.nr * o.nt) (o.nr * o.nt) (finalRows T o nc) := by
    unfold assemble at hM
    rw [hrows] at hM
    exact (Option.some.inj hM).symm
  subst hM'
  have hlen : i * o.nt + j < (finalRows T o nc).length := by
    rw [finalRows_length]; exact Direct.idx_lt hi hj
  have hrow := finalRows_getD T o nc hi hj
  have hU := uniq_finalRow T o hnr hnt heven nc hi hj
  rw [toDense_csrRows _ _ _ _ hlen (by rw [hrow]; exact hU), hrow, den_eq_sum _ hU, List.map_map]
  have := sum_slots_eq (addr T o) (colIdx o) val (i * o.nt + j) (rowSize o i) k (slotCol o i j) (allUpdates o nc) (by
    intro u hu
    have hin := allUpdates_inb o hnr nc u hu
    have hc := allUpdates_cons o hnr (fun _ => heven) nc u hu
    obtain ⟨q, ha, hq, hs⟩ := addr_valid T o hT hnr u hin.1 hin.2.2
    refine ⟨_, ha, ?_⟩
    intro hr
    have hr' : rowIdx o u = i * o.nt + j := hr
    have hij := idx_inj hin.2.1 hj (by unfold rowIdx at hr'; exact hr')
    refine ⟨by rw [← hij.1]; exact hq, ?_⟩
    have := colIdx_of_addr T o hT hnr u hin hc ha
    rw [rowIdx_div o hin.2.1, rowIdx_mod o hin.2.1, hij.1, hij.2] at this
    exact this)
  refine Eq.trans ?_ (Eq.trans this ?_)
  · rfl
  · apply congrArg
    apply List.map_congr_left
    intro u hu
    have hin := allUpdates_inb o hnr nc u hu
    obtain ⟨q, ha, _, _⟩ := addr_valid T o hT hnr u hin.1 hin.2.2
    rw [ha]
    simp

end
end DirectGiveCode
